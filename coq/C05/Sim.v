(* C05 — the abstract keep-alive semantics simulates the automaton, and the environment conditions that follow from the
   automaton itself are derived.
   The automaton carries the abstract state as ghost fields (kabs, kenv, ktmo) updated in lockstep by k_event / k_reset:
   Tick at every timer1 callback of a registered device, Sent at every accepted espconn_sent (last_sent := uptime),
   Resp at every received call (last_response := uptime); a new episode starts when the registration is accepted or a
   timeout is granted.  kenv accumulates only the EXTERNAL conditions kext_ok (H_link, H_prompt, H_slot) and H_fresh; the
   derived ones (kder_ok: monotone time, 32-bit seconds, a timer1 tick at least every other second) are proved here from
   the timing invariants of C04/Timing.v under lateness J < 1 s.  KSim is proved for every fuel-free reachable state. *)
From Coq Require Import List ZArith Lia Bool.
Import ListNotations.
From V Require Import Base.U32 Base.Bytes Base.Iface Gen.ProtoConsts Gen.C04Consts C04.Keepalive C04.Model C04.Proofs C04.Timing C05.Model C05.Proofs.
Local Open Scope Z_scope.

Record kview := mkkv { kv_tmo : Z; kv_to : Z; kv_reg : Z; kv_rpc : bool; kv_env : bool; kv_abs : kst; kv_ls : Z; kv_lr : Z;
                       kv_now : Z; kv_boot : Z; kv_cyc : Z; kv_t1 : timer }.
Definition has_rpc (s : st) : bool := match srpc s with Some _ => true | None => false end.
Definition kview_of (s : st) : kview :=
  mkkv (ktmo s) (actto s) (registered s) (has_rpc s) (kenv s) (kabs s) (lastsent s) (lastresp s) (now s) (boot s) (cycles0 s) (t_timer1 s).
Lemma kview_fields s s' : kview_of s' = kview_of s ->
  ktmo s' = ktmo s /\ actto s' = actto s /\ registered s' = registered s /\ has_rpc s' = has_rpc s /\ kenv s' = kenv s /\ kabs s' = kabs s /\
  lastsent s' = lastsent s /\ lastresp s' = lastresp s /\ now s' = now s /\ boot s' = boot s /\ cycles0 s' = cycles0 s /\ t_timer1 s' = t_timer1 s.
Proof. unfold kview_of. intros H. inversion H. repeat split; auto. Qed.

(* functions that do not touch the view *)
Lemma kv_emit k a s : kview_of (emit k a s) = kview_of s. Proof. reflexivity. Qed.
Lemma kv_set_tm i v s : i <> T_timer1 -> kview_of (set_tm i v s) = kview_of s. Proof. intros H. destruct i; try reflexivity. contradiction. Qed.
Lemma kv_arm i ms r s : i <> T_timer1 -> kview_of (arm i ms r s) = kview_of s. Proof. intros H. unfold arm. rewrite kv_set_tm by auto. reflexivity. Qed.
Lemma kv_disarm i s : i <> T_timer1 -> kview_of (disarm i s) = kview_of s. Proof. intros H. unfold disarm. apply kv_set_tm; auto. Qed.
Lemma kv_srv_on_frame c s : kview_of (srv_on_frame c s) = kview_of s.
Proof. unfold srv_on_frame. destruct (_ && _); [|reflexivity]. match goal with |- context [if ?c then _ else _] => destruct c end; reflexivity. Qed.
Lemma kv_decode k : forall s, kview_of (decode k s) = kview_of s.
Proof.
  induction k as [|k IH]; intros s; cbn [decode]; [reflexivity|].
  repeat match goal with |- context [if ?c then _ else _] => destruct c end; try reflexivity.
  rewrite IH, kv_srv_on_frame. reflexivity.
Qed.
Lemma kv_wire_accept b s : kview_of (wire_accept b s) = kview_of s. Proof. unfold wire_accept. rewrite kv_decode. reflexivity. Qed.
Lemma kv_wire_close s : kview_of (wire_close s) = kview_of s. Proof. unfold wire_close. destruct (_ || _); reflexivity. Qed.
Lemma kv_sdk_sent s : kview_of (snd (sdk_sent s)) = kview_of s. Proof. unfold sdk_sent. destruct (script s); reflexivity. Qed.
Lemma kv_append_buffer b s : kview_of (append_buffer b s) = kview_of s.
Proof. unfold append_buffer. destruct (0 <? len b); [destruct (_ <? _)|]; reflexivity. Qed.
Lemma kv_gpio_disc s : kview_of (gpio_state_disconnected s) = kview_of s. Proof. unfold gpio_state_disconnected. destruct (_ =? _); reflexivity. Qed.
Lemma kv_gpio_ip s : kview_of (gpio_state_ipreceived s) = kview_of s. Proof. unfold gpio_state_ipreceived. destruct (_ =? _); reflexivity. Qed.
Lemma kv_gpio_conn s : kview_of (gpio_state_connected s) = kview_of s.
Proof. unfold gpio_state_connected. destruct (_ =? _); [reflexivity|]. rewrite kv_arm by discriminate. reflexivity. Qed.
Lemma kv_sdk_disconnect s : kview_of (sdk_disconnect s) = kview_of s.
Proof.
  unfold sdk_disconnect. destruct (_ =? _).
  - change (kview_of (set_link L_CLOSING ?x)) with (kview_of x). rewrite kv_wire_close. reflexivity.
  - destruct (_ =? _); reflexivity.
Qed.
Lemma kv_sdk_connect s : kview_of (sdk_connect s) = kview_of s.
Proof.
  unfold sdk_connect. change (kview_of (set_link L_PENDING ?x)) with (kview_of x). destruct (_ =? _); [rewrite kv_wire_close|]; reflexivity.
Qed.
Lemma kv_resolvandconnect s : kview_of (resolvandconnect s) = kview_of s.
Proof.
  unfold resolvandconnect. destruct (resolving s); [reflexivity|].
  rewrite kv_sdk_connect, kv_sdk_disconnect. change (kview_of (set_resolving false ?x)) with (kview_of x). rewrite kv_sdk_disconnect. reflexivity.
Qed.
Lemma kv_wifi_check_status s : kview_of (wifi_check_status s) = kview_of s.
Proof.
  unfold wifi_check_status. destruct (_ =? _); [reflexivity|].
  set (s1 := set_wlast (wstatus s) s).
  assert (H2 : kview_of (if wstatus s =? STATION_GOT_IP_ then gpio_state_ipreceived s1 else gpio_state_disconnected s1) = kview_of s)
    by (destruct (_ =? _); [rewrite kv_gpio_ip|rewrite kv_gpio_disc]; reflexivity).
  generalize dependent (if wstatus s =? STATION_GOT_IP_ then gpio_state_ipreceived s1 else gpio_state_disconnected s1). intros s2 H2.
  destruct (_ && _); [rewrite kv_resolvandconnect|]; exact H2.
Qed.
Lemma kv_wifi_station_connect s : kview_of (wifi_station_connect s) = kview_of s.
Proof.
  unfold wifi_station_connect. rewrite kv_arm, kv_disarm by discriminate.
  set (s2 := set_wstatus STATION_CONNECTING_ (emit O_WIFISTART [now (gpio_state_disconnected s)] (gpio_state_disconnected s))).
  assert (H2 : kview_of s2 = kview_of s) by (subst s2; change (kview_of (gpio_state_disconnected s) = kview_of s); apply kv_gpio_disc).
  generalize dependent s2. intros s2 H2. destruct (_ =? _); [rewrite kv_wifi_check_status|]; exact H2.
Qed.
Lemma kv_restart s : kview_of (restart s) = kview_of s. Proof. reflexivity. Qed.
Lemma kv_async_call c pay s : kview_of (async_call c pay s) = kview_of s.
Proof. unfold async_call. destruct (srpc s) eqn:E; [destruct (_ <? _)|]; unfold kview_of, has_rpc; cbn; rewrite ?E; reflexivity. Qed.
Lemma kv_stop_with_delay s : kview_of (stop_with_delay s) = kview_of s.
Proof. unfold stop_with_delay. rewrite kv_arm by discriminate. unfold mark_refused. destruct (srpc s) eqn:E; unfold kview_of, has_rpc; cbn; rewrite ?E; reflexivity. Qed.
Lemma kv_local_call api s : kview_of (local_call api s) = kview_of s.
Proof.
  unfold local_call. destruct (api <? 0); [reflexivity|]. destruct (site_of_api api); [|reflexivity].
  destruct (if _ =? 0 then _ else _); [apply kv_async_call|reflexivity].
Qed.


(* ---------- arithmetic of uptime seconds ---------- *)
Lemma usec_adv_le s x d : 0 <= d -> usec_at s (x + d) <= usec_at s x + d.
Proof.
  intros Hd. rewrite !usec_closed. pose proof (Z.div_le_mono (boot s + x) (boot s + (x + d)) 4294967296 ltac:(lia) ltac:(lia)). lia.
Qed.
Lemma Upt_add_le s x d k : 0 <= d <= k * 1000000 -> Upt s (x + d) <= Upt s x + k.
Proof.
  intros Hd. rewrite !Upt_eq. pose proof (usec_adv_le s x d ltac:(lia)).
  rewrite <- Z.div_add by lia. apply Z.div_le_mono; lia.
Qed.

Section Sim.
Variable J : Z.
Hypothesis HJ : 0 <= J < 1000000.          (* H_lateness: timer callbacks are late by less than one second *)

(* timer1 of a device that has an SRPC instance: armed, not overdue by more than J, at most one period ahead *)
Definition KB (s : st) : Prop :=
  0 <= now s /\ 0 <= lastsent s /\ (nowrap s -> lastsent s <= Upt s (now s)) /\
  (has_rpc s = true -> armed (t_timer1 s) = true /\ now s <= due (t_timer1 s) + J /\ due (t_timer1 s) <= now s + T1_US).
(* f2 = false only between the re-arming of timer1 and its callback *)
Definition KReg (f2 : bool) (s : st) : Prop :=
  registered s = 1 -> has_rpc s = true -> nowrap s -> KA_MIN <= actto s <= 4294966000 ->
  let k := kabs s in
  k_lt k <= k_cur k /\ k_cur k <= Upt s (now s) /\ Upt s (now s) <= k_lt k + 2 /\
  (f2 = true -> Upt s (due (t_timer1 s) - T1_US) <= k_lt k) /\
  (kenv s = true -> KInv (actto s) k /\ k_ls k = lastsent s /\ k_lr k = lastresp s).
Definition KSim (f2 : bool) (s : st) : Prop := ktmo s = actto s /\ KB s /\ KReg f2 s.

Lemma nowrap_view s s' : now s' = now s -> boot s' = boot s -> cycles0 s' = cycles0 s -> (nowrap s' <-> nowrap s).
Proof. intros A B C. unfold nowrap, nowrap_at, Upt, usec_at. rewrite A, B, C. tauto. Qed.
Lemma KSim_view f2 s s' : kview_of s' = kview_of s -> KSim f2 s -> KSim f2 s'.
Proof.
  intros V. destruct (kview_fields s s' V) as [a1 [a2 [a3 [a4 [a5 [a6 [a7 [a8 [a9 [a10 [a11 a12]]]]]]]]]]].
  unfold KSim, KB, KReg, nowrap, nowrap_at, Upt, usec_at. rewrite a1, a2, a3, a4, a5, a6, a7, a8, a9, a10, a11, a12. auto.
Qed.
Lemma KSim_weaken s : KSim true s -> KSim false s.
Proof. intros [A [B C]]. split; auto. split; auto. intros R P NW HT. destruct (C R P NW HT) as [c1 [c2 [c3 [c4 c5]]]]. split; [exact c1|]. split; [exact c2|]. split; [exact c3|]. split; [intros; discriminate|exact c5]. Qed.
Lemma KSim_unreg f2 f2' s : KSim f2 s -> (registered s <> 1 \/ has_rpc s = false \/ ~ (KA_MIN <= actto s <= 4294966000)) -> KSim f2' s.
Proof. intros [A [B C]] H. split; auto. split; auto. intros R P NW HT. exfalso. destruct H as [H|[H|H]]; [auto|congruence|auto]. Qed.

(* ---------- the three abstract events ---------- *)
(* e is logged at the current uptime second; s' differs from s by the ghost update and by the real write of last_sent / last_response *)
Lemma ksim_event f2 (e : kev) (s s' : st) :
  ktime e = uptime s ->
  kview_of s' = mkkv (ktmo s) (actto s) (registered s) (has_rpc s) (kenv s && kext_ok (ktmo s) (kabs s) e) (kstep (ktmo s) (kabs s) e)
                     (match e with Sent u => u | _ => lastsent s end) (match e with Resp u => u | _ => lastresp s end)
                     (now s) (boot s) (cycles0 s) (t_timer1 s) ->
  KSim f2 s -> KSim (match e with Tick _ _ => true | _ => f2 end) s'.
Proof.
  intros Ht V [E [[B1 [B2 [B3 B4]]] C]].
  assert (F : ktmo s' = ktmo s /\ actto s' = actto s /\ registered s' = registered s /\ has_rpc s' = has_rpc s /\
              kenv s' = (kenv s && kext_ok (ktmo s) (kabs s) e) /\ kabs s' = kstep (ktmo s) (kabs s) e /\
              lastsent s' = (match e with Sent u => u | _ => lastsent s end) /\ lastresp s' = (match e with Resp u => u | _ => lastresp s end) /\
              now s' = now s /\ boot s' = boot s /\ cycles0 s' = cycles0 s /\ t_timer1 s' = t_timer1 s).
  { unfold kview_of in V. inversion V. repeat split; auto. }
  destruct F as [a1 [a2 [a3 [a4 [a5 [a6 [a7 [a8 [a9 [a10 [a11 a12]]]]]]]]]]].
  pose proof (nowrap_view s s' a9 a10 a11) as NWV.
  assert (UF : forall t, Upt s' t = Upt s t) by (intros; apply Upt_frame; auto).
  split; [congruence|]. split.
  - unfold KB. rewrite a9, a4, a12, UF. split; [auto|]. split; [|split; [|exact B4]].
    + rewrite a7. destruct e; auto. cbn [ktime] in Ht. rewrite Ht. apply uptime_nonneg.
    + intros NW. apply NWV in NW. rewrite a7. destruct e; auto. cbn [ktime] in Ht. rewrite Ht, (uptime_nowrap s NW B1). lia.
  - intros R P NW HT. rewrite a3 in R. rewrite a4 in P. apply NWV in NW. rewrite a2 in HT.
    destruct (C R P NW HT) as [c1 [c2 [c3 [c4 c5]]]]. destruct (B4 P) as [t1 [t2 t3]].
    pose proof (uptime_nowrap s NW B1) as UU. destruct NW as [_ [_ NWb]].
    assert (KD : kder_ok (kabs s) e = true).
    { unfold kder_ok. rewrite Ht, UU. repeat (apply andb_true_iff; split); [apply Z.leb_le|apply Z.ltb_lt|apply Z.leb_le]; auto. }
    cbn zeta. rewrite a6, a9, a12, a2, a5, a7, a8, !UF, E.
    assert (KT : k_cur (kstep (actto s) (kabs s) e) = uptime s /\ k_lt (kstep (actto s) (kabs s) e) = (match e with Tick _ _ => uptime s | _ => k_lt (kabs s) end)).
    { rewrite <- Ht. unfold kstep. destruct e as [u sl|u|u]; cbn [ktime].
      - destruct (t1_decide _ _ _ _); [|destruct sl|]; cbn; split; auto.
      - cbn. split; auto.
      - cbn. split; auto. }
    destruct KT as [K1 K2]. rewrite K1, K2, UU.
    split; [destruct e; lia|]. split; [lia|].
    split; [destruct e; lia|].
    split.
    + destruct e; auto. intros _. apply Upt_mono. lia.
    + intros Env. apply andb_true_iff in Env. destruct Env as [Env1 Env2]. destruct (c5 Env1) as [KI [L1 L2]].
      split; [apply kstep_inv; auto; unfold kenv_ok; rewrite KD; exact Env2|].
      destruct e as [u sl|u|u]; cbn [kstep].
      * destruct (t1_decide _ _ _ _); [|destruct sl|]; cbn; auto.
      * cbn. auto.
      * cbn. auto.
Qed.

Lemma KSim_any f2 s : KSim true s -> KSim f2 s.
Proof. destruct f2; auto. apply KSim_weaken. Qed.
Lemma uptime_view s s' : kview_of s' = kview_of s -> uptime s' = uptime s.
Proof.
  intros V. destruct (kview_fields s s' V) as [_ [_ [_ [_ [_ [_ [_ [_ [a9 [a10 [a11 _]]]]]]]]]]].
  unfold uptime, uptime_usec. rewrite a9, a10, a11. reflexivity.
Qed.

Lemma ksim_sent f2 s0 s : kview_of s = kview_of s0 -> KSim f2 s0 -> KSim f2 (k_event (Sent (uptime s0)) (set_lastsent (uptime s0) s)).
Proof.
  intros V K. assert (K' : KSim f2 s) by (eapply KSim_view; eauto).
  apply (ksim_event f2 (Sent (uptime s0)) s); auto. cbn [ktime]. symmetry. apply uptime_view; auto.
Qed.
Lemma ksim_resp f2 n s : KSim f2 s -> KSim f2 (k_event (Resp (uptime s)) (set_nresp n (set_lastresp (uptime s) s))).
Proof. apply (ksim_event f2 (Resp (uptime s))); reflexivity. Qed.
Lemma ksim_tick f2 slot s : KSim f2 s -> KSim true (k_event (Tick (uptime s) slot) s).
Proof. apply (ksim_event f2 (Tick (uptime s) slot)); reflexivity. Qed.

(* a new episode: needs only the timer / clock facts *)
Lemma ksim_reset f2 s : KB s -> lastresp s = uptime s -> KSim f2 (k_reset s).
Proof.
  intros [B1 [B2 [B3 B4]]] L. apply KSim_any.
  assert (F : ktmo (k_reset s) = actto s /\ actto (k_reset s) = actto s /\ registered (k_reset s) = registered s /\ has_rpc (k_reset s) = has_rpc s /\
              kenv (k_reset s) = (uptime s - lastsent s <=? actto s - 3) /\ kabs (k_reset s) = kinit (uptime s) (lastsent s) /\
              lastsent (k_reset s) = lastsent s /\ lastresp (k_reset s) = lastresp s /\
              now (k_reset s) = now s /\ boot (k_reset s) = boot s /\ cycles0 (k_reset s) = cycles0 s /\ t_timer1 (k_reset s) = t_timer1 s)
    by (repeat split; reflexivity).
  generalize dependent (k_reset s). intros s' [a1 [a2 [a3 [a4 [a5 [a6 [a7 [a8 [a9 [a10 [a11 a12]]]]]]]]]]].
  pose proof (nowrap_view s s' a9 a10 a11) as NWV.
  assert (UF : forall t, Upt s' t = Upt s t) by (intros; apply Upt_frame; auto).
  split; [congruence|]. split.
  - unfold KB. rewrite a9, a4, a12, a7, UF. split; [auto|]. split; [auto|]. split; [|exact B4]. intros NW. apply B3, NWV; auto.
  - intros R P NW HT. rewrite a4 in P. apply NWV in NW. rewrite a2 in HT. destruct (B4 P) as [t1 [t2 t3]].
    pose proof (uptime_nowrap s NW B1) as UU. pose proof (B3 NW) as LS. destruct NW as [_ [_ NWb]].
    cbn zeta. rewrite a6, a9, a12, a2, a5, a7, a8, !UF. cbn [kinit k_lt k_cur k_ls k_lr]. rewrite UU.
    split; [lia|]. split; [lia|]. split; [lia|]. split; [intros _; apply Upt_mono; lia|].
    intros Env. apply Z.leb_le in Env. split; [apply kinit_inv; lia|]. split; [reflexivity|]. rewrite L. auto.
Qed.

(* ---------- composite functions ---------- *)
Lemma ksim_data_write f2 b s : KSim f2 s -> KSim f2 (data_write b s).
Proof.
  intros K. unfold data_write.
  assert (K1 : KSim f2 (if 0 <? len (espbuf s) then
                       let '(r, s') := sdk_sent s in
                       if r =? 0 then k_event (Sent (uptime s')) (set_lastsent (uptime s') (wire_accept (espbuf s') (set_espbuf [] s'))) else s'
                     else s)).
  { destruct (0 <? len (espbuf s)); auto.
    pose proof (kv_sdk_sent s) as Hs. destruct (sdk_sent s) as [r s'] eqn:E. cbn [snd] in Hs.
    assert (K' : KSim f2 s') by (eapply KSim_view; eauto).
    destruct (r =? 0); auto. apply ksim_sent; auto. rewrite kv_wire_accept. reflexivity. }
  generalize dependent (if 0 <? len (espbuf s) then
                       let '(r, s') := sdk_sent s in
                       if r =? 0 then k_event (Sent (uptime s')) (set_lastsent (uptime s') (wire_accept (espbuf s') (set_espbuf [] s'))) else s'
                     else s). intros s1 K1.
  destruct (0 <? len (espbuf s1)); [eapply KSim_view; [apply kv_append_buffer|auto]|].
  destruct (0 <? len b); auto.
  pose proof (kv_sdk_sent s1) as Hs. destruct (sdk_sent s1) as [r s2] eqn:E. cbn [snd] in Hs.
  assert (K2 : KSim f2 s2) by (eapply KSim_view; eauto).
  destruct (_ || _); [eapply KSim_view; [apply kv_append_buffer|auto]|].
  destruct (r =? 0); auto. apply ksim_sent; auto. apply kv_wire_accept.
Qed.
Lemma kv_set_rpc_some s p p' : srpc s = Some p -> kview_of (set_srpc (Some p') s) = kview_of s.
Proof. intros E. unfold kview_of, has_rpc. cbn. rewrite E. reflexivity. Qed.
Lemma ksim_srpc_out f2 s : KSim f2 s -> KSim f2 (srpc_out s).
Proof.
  intros K. unfold srpc_out. destruct (srpc s) as [p|] eqn:E; auto.
  destruct (match oq p with f :: rest => (rest, obuf p ++ encode f) | [] => ([], obuf p) end) as [q ob].
  set (n := if OUT_CHUNK <? len ob then OUT_CHUNK else len ob).
  assert (K1 : KSim f2 (set_srpc (Some (mkrpc (sid p) (rr_last p) q (drop n ob) (ibuf p) (hist p) (got_ok p) (refused_at p) (created_at p))) s))
    by (eapply KSim_view; [apply (kv_set_rpc_some s p); auto|auto]).
  destruct (0 <? n); auto. apply ksim_data_write; auto.
Qed.
Lemma KB_of f2 s : KSim f2 s -> KB s. Proof. intros [_ [B _]]; exact B. Qed.
Lemma KB_view s s' : kview_of s' = kview_of s -> KB s -> KB s'.
Proof.
  intros V. destruct (kview_fields s s' V) as [a1 [a2 [a3 [a4 [a5 [a6 [a7 [a8 [a9 [a10 [a11 a12]]]]]]]]]]].
  unfold KB, nowrap, nowrap_at, Upt, usec_at. rewrite a4, a7, a9, a10, a11, a12. auto.
Qed.
Lemma KB_fields s s' : has_rpc s' = has_rpc s -> lastsent s' = lastsent s -> now s' = now s -> boot s' = boot s -> cycles0 s' = cycles0 s ->
  t_timer1 s' = t_timer1 s -> KB s -> KB s'.
Proof. intros a4 a7 a9 a10 a11 a12. unfold KB, nowrap, nowrap_at, Upt, usec_at. rewrite a4, a7, a9, a10, a11, a12. auto. Qed.
Lemma ksim_on_register_result f2 code tmo s : KSim f2 s -> lastresp s = uptime s -> KSim f2 (on_register_result code tmo s).
Proof.
  intros K L. unfold on_register_result. destruct (code =? RESULTCODE_TRUE); [|eapply KSim_view; [apply kv_stop_with_delay|auto]].
  assert (K1 : KSim f2 (k_reset (set_registered 1 (set_actto tmo s)))).
  { apply ksim_reset; [|exact L]. apply (KB_fields s); try reflexivity. apply (KB_of _ _ K). }
  generalize dependent (k_reset (set_registered 1 (set_actto tmo s))). intros s1 K1.
  assert (K2 : KSim f2 (match srpc s1 with
                     | Some p => set_srpc (Some (mkrpc (sid p) (rr_last p) (oq p) (obuf p) (ibuf p) (hist p) true (refused_at p) (created_at p))) s1
                     | None => s1 end))
    by (destruct (srpc s1) as [p|] eqn:E; auto; eapply KSim_view; [apply (kv_set_rpc_some s1 p); auto|auto]).
  generalize dependent (match srpc s1 with
                     | Some p => set_srpc (Some (mkrpc (sid p) (rr_last p) (oq p) (obuf p) (ibuf p) (hist p) true (refused_at p) (created_at p))) s1
                     | None => s1 end). intros s2 K2.
  match goal with |- KSim _ (arm T_value ?m ?r (disarm T_value ?x)) => assert (V : kview_of (arm T_value m r (disarm T_value x)) = kview_of x) by (rewrite kv_arm, kv_disarm by discriminate; reflexivity); eapply KSim_view; [exact V|]; clear V end.
  destruct (tmo =? ACTIVITY_TIMEOUT_DEFAULT); [|eapply KSim_view; [apply kv_async_call|]]; (eapply KSim_view; [apply kv_gpio_conn|auto]).
Qed.
Lemma ksim_handler f2 f s : KSim f2 s -> KSim f2 (handler f s).
Proof.
  intros K. rewrite handler_eq.
  assert (K0 : KSim f2 (handler_pre s)) by (unfold handler_pre; apply ksim_resp; auto).
  assert (L0 : lastresp (handler_pre s) = uptime (handler_pre s)) by reflexivity.
  generalize dependent (handler_pre s). intros s0 K0 L0.
  unfold handler_body.
  destruct (_ && _); [apply ksim_on_register_result; auto|].
  destruct (_ && _); [eapply KSim_view; [apply kv_stop_with_delay|auto]|].
  destruct (_ && _); [apply ksim_reset; [apply (KB_fields s0); try reflexivity; apply (KB_of _ _ K0)|exact L0]|].
  destruct (_ && _); [eapply KSim_view; [apply kv_async_call|auto]|auto].
Qed.
Lemma ksim_srpc_iterate f2 s : KSim f2 s -> KSim f2 (srpc_iterate s).
Proof.
  intros K. unfold srpc_iterate. destruct (srpc s) as [p|] eqn:E; auto.
  set (n := if OUT_CHUNK <? len (recvbuf s) then OUT_CHUNK else len (recvbuf s)).
  assert (K1 : KSim f2 (set_recvbuf (drop n (recvbuf s)) s)) by (eapply KSim_view; [|exact K]; reflexivity).
  assert (E1 : srpc (set_recvbuf (drop n (recvbuf s)) s) = Some p) by exact E.
  generalize dependent (set_recvbuf (drop n (recvbuf s)) s). intros s1 K1 E1.
  destruct (if 0 <? n then _ else _) as [b|]; [|eapply KSim_view; [apply kv_restart|auto]].
  destruct (C01.Model.pop _ b []) as [[b' f] r].
  assert (K2 : KSim f2 (set_srpc (Some (with_ibuf b' p)) s1)) by (eapply KSim_view; [apply (kv_set_rpc_some s1 p); auto|auto]).
  destruct r; try (eapply KSim_view; [apply kv_restart|auto]).
  - apply ksim_srpc_out, ksim_handler; auto.
  - apply ksim_srpc_out; auto.
Qed.
Lemma ksim_devconn_iterate f2 s : KSim f2 s -> KSim f2 (devconn_iterate s).
Proof.
  intros K. unfold devconn_iterate. destruct (srpc s) as [p|] eqn:E; auto.
  apply ksim_srpc_iterate, ksim_data_write.
  destruct (registered s =? 0) eqn:R0; auto.
  eapply KSim_view; [apply kv_async_call|].
  destruct K as [A [B C]]. split; [exact A|]. split; [apply (KB_fields s); try reflexivity; exact B|].
  intros R; cbn in R; lia.
Qed.
Lemma ksim_recv_cb f2 b s : KSim f2 s -> KSim f2 (recv_cb b s).
Proof.
  intros K. unfold recv_cb. destruct (len b =? 0); auto. destruct (_ <=? _); auto.
  apply ksim_devconn_iterate. eapply KSim_view; [|exact K]. reflexivity.
Qed.
Lemma ksim_srv_cb f2 s : KSim f2 s -> KSim f2 (srv_cb s).
Proof.
  intros K. unfold srv_cb. destruct (srvq s) as [|d rest]; auto.
  assert (K2 : KSim f2 (match rest with
                     | [] => set_srvq rest s
                     | d0 :: _ => set_t_srv (mktimer true (if d0 <? now (set_srvq rest s) then now (set_srvq rest s) else d0) (seqc (set_srvq rest s) + 1) 0)
                                    (set_seqc (seqc (set_srvq rest s) + 1) (set_srvq rest s)) end))
    by (destruct rest; (eapply KSim_view; [|exact K]; reflexivity)).
  generalize dependent (match rest with
                     | [] => set_srvq rest s
                     | d0 :: _ => set_t_srv (mktimer true (if d0 <? now (set_srvq rest s) then now (set_srvq rest s) else d0) (seqc (set_srvq rest s) + 1) 0)
                                    (set_seqc (seqc (set_srvq rest s) + 1) (set_srvq rest s)) end). intros s2 K2.
  destruct (link s2 =? L_LIVE); auto. apply ksim_recv_cb. eapply KSim_view; [apply kv_emit|auto].
Qed.

(* ---------- stop / start / reconnect: the SRPC instance is gone, timer1 is re-armed ---------- *)
Definition koff_of (s : st) := (ktmo s, actto s, lastsent s, now s, boot s, cycles0 s, has_rpc s).
Lemma koff_view s s' : kview_of s' = kview_of s -> koff_of s' = koff_of s.
Proof.
  intros V. destruct (kview_fields s s' V) as [a1 [a2 [a3 [a4 [a5 [a6 [a7 [a8 [a9 [a10 [a11 a12]]]]]]]]]]].
  unfold koff_of. rewrite a1, a2, a4, a7, a9, a10, a11. reflexivity.
Qed.
Lemma koff_set_tm i v s : koff_of (set_tm i v s) = koff_of s. Proof. destruct i; reflexivity. Qed.
Lemma koff_arm i ms r s : koff_of (arm i ms r s) = koff_of s. Proof. unfold arm. rewrite koff_set_tm. reflexivity. Qed.
Lemma koff_disarm i s : koff_of (disarm i s) = koff_of s. Proof. unfold disarm. apply koff_set_tm. Qed.
Lemma KSim_off f2 f2' s s' : koff_of s' = (ktmo s, actto s, lastsent s, now s, boot s, cycles0 s, false) -> KSim f2 s -> KSim f2' s'.
Proof.
  intros V [E [[B1 [B2 [B3 _]]] _]]. unfold koff_of in V. inversion V as [[a1 a2 a7 a9 a10 a11 a4]].
  split; [congruence|]. split.
  - unfold KB, nowrap, nowrap_at, Upt, usec_at. rewrite a4, a7, a9, a10, a11. split; [auto|]. split; [auto|]. split; [exact B3|discriminate].
  - intros _ P. rewrite a4 in P. discriminate P.
Qed.
Lemma koff_stop s : koff_of (devconn_stop s) = (ktmo s, actto s, lastsent s, now s, boot s, cycles0 s, false).
Proof.
  unfold devconn_stop.
  assert (V : koff_of (sdk_disconnect (disarm T_iter (disarm T_timer1 (set_started false (set_registered 0 s))))) = koff_of s)
    by (rewrite (koff_view _ _ (kv_sdk_disconnect _)), !koff_disarm; reflexivity).
  generalize dependent (sdk_disconnect (disarm T_iter (disarm T_timer1 (set_started false (set_registered 0 s))))). intros s3 V.
  unfold koff_of in V. inversion V as [[a1 a2 a7 a9 a10 a11 a4]].
  destruct (clrstop _); unfold koff_of; cbn; rewrite a1, a2, a7, a9, a10, a11; reflexivity.
Qed.
Lemma koff_start s : koff_of (devconn_start s) = koff_of s.
Proof.
  unfold devconn_start. rewrite koff_arm, !koff_disarm, (koff_view _ _ (kv_wifi_station_connect _)).
  change (koff_of (set_started true ?x)) with (koff_of x). apply koff_view, kv_gpio_ip.
Qed.
Lemma ksim_stop f2 f2' s : KSim f2 s -> KSim f2' (devconn_stop s).
Proof. apply KSim_off, koff_stop. Qed.
Lemma koff_reconnect s : koff_of (devconn_reconnect s) = (ktmo s, actto s, lastsent s, now s, boot s, cycles0 s, false).
Proof. unfold devconn_reconnect. rewrite koff_start, koff_stop. reflexivity. Qed.
Lemma ksim_reconnect f2 f2' s : KSim f2 s -> KSim f2' (devconn_reconnect s).
Proof. apply KSim_off, koff_reconnect. Qed.

(* ---------- timer callbacks ---------- *)
Lemma has_rpc_iff s : has_rpc s = true <-> srpc s <> None.
Proof. unfold has_rpc. destruct (srpc s); split; intros H; auto; try discriminate; try contradiction. Qed.
(* the timer1 callback logs the Tick: afterwards the last tick is the one timer1 was re-armed from *)
Lemma ksim_timer1 s : KSim false s -> KSim true (timer1_cb s).
Proof.
  intros K. unfold timer1_cb. destruct (is_registered s) eqn:HR.
  - set (slot := match srpc s with Some p => len (oq p) <? QUEUE_SIZE | None => false end).
    assert (K1 : KSim true (if 0 <? actto s then k_event (Tick (uptime s) slot) s else s)).
    { destruct (0 <? actto s) eqn:E0; [eapply ksim_tick; eauto|]. apply Z.ltb_ge in E0. apply (KSim_unreg false); auto. right. right. lia. }
    generalize dependent (if 0 <? actto s then k_event (Tick (uptime s) slot) s else s). intros s1 K1.
    destruct (t1_decide _ _ _ _); auto; [eapply KSim_view; [apply kv_async_call|auto]|apply (ksim_reconnect true); auto].
  - apply (KSim_unreg false); auto.
    destruct (Z.eq_dec (registered s) 1) as [R|R]; [|left; exact R]. right. left.
    destruct (has_rpc s) eqn:P; auto. exfalso. apply has_rpc_iff in P.
    assert (is_registered s = true) by (apply is_registered_iff; auto). congruence.
Qed.
Lemma ksim_watchdog f2 s : KSim f2 s -> KSim f2 (watchdog_cb s).
Proof.
  intros K. unfold watchdog_cb. destruct (_ <? _); auto. destruct (_ <? _); [eapply KSim_view; [apply kv_restart|auto]|].
  destruct (_ && _); auto. apply (ksim_reconnect f2); auto.
Qed.
Definition not_t1 (i : tid) : bool := match i with T_timer1 => false | _ => true end.
Lemma ksim_callback i s : KSim (not_t1 i) s -> KSim true (callback i s).
Proof.
  intros K. destruct i; cbn [callback]; cbn in K; auto.
  - eapply KSim_view; [apply kv_wifi_check_status|auto].
  - apply ksim_timer1; auto.
  - apply ksim_devconn_iterate; auto.
  - apply ksim_watchdog; auto.
  - apply (ksim_reconnect true); auto.
  - apply (ksim_stop true); auto.
  - apply ksim_srv_cb; auto.
Qed.

(* ---------- the clock moves to the due time (+ lateness) of the timer that fires ---------- *)
Definition kghost_of (s : st) := (ktmo s, kenv s, kabs s, lastsent s).
Lemma kghost_prefire i s : kghost_of (prefire i s) = kghost_of s.
Proof.
  unfold prefire, lateness. destruct (lat s); cbn [fst snd];
    repeat match goal with |- context [if ?c then _ else _] => destruct c end; destruct i; reflexivity.
Qed.
Lemma T1_US_val : T1_US = 1000000. Proof. reflexivity. Qed.
Lemma HJ0 : 0 <= J. Proof. lia. Qed.
Lemma has_rpc_srpc s s' : srpc s' = srpc s -> has_rpc s' = has_rpc s. Proof. unfold has_rpc. intros ->. reflexivity. Qed.

Lemma ksim_prefire i s fin : TR J s -> pick s fin = Some i -> KSim true s -> KSim (not_t1 i) (prefire i s).
Proof.
  intros R P [E [[B1 [B2 [B3 B4]]] C]].
  destruct (core_tm_prefire J HJ0 i s fin T_timer1 R P (or_intror (or_introl eq_refl))) as [NN [Ta [Tb [Tc [Td Te]]]]].
  destruct (prefire_fields J HJ0 i s (r_lat _ _ R)) as [[l [Lr N2]] [Rs [_ Gi]]].
  destruct Rs as [rb [rc [_ [_ [_ [rs [rr [rl [ra _]]]]]]]]].
  pose proof (kghost_prefire i s) as G. unfold kghost_of in G.
  assert (g1 : ktmo (prefire i s) = ktmo s) by (apply (f_equal (fun x => fst (fst (fst x)))) in G; exact G).
  assert (g2 : kenv (prefire i s) = kenv s) by (apply (f_equal (fun x => snd (fst (fst x)))) in G; exact G).
  assert (g3 : kabs (prefire i s) = kabs s) by (apply (f_equal (fun x => snd (fst x))) in G; exact G).
  assert (g4 : lastsent (prefire i s) = lastsent s) by (apply (f_equal snd) in G; exact G). clear G.
  pose proof (r_t1p _ _ R) as Pt. cbn [get_tm] in *.
  generalize dependent (prefire i s). intros s2 NN Ta Tb Tc Td Te N2 rb rc rs rr rl ra Gi g1 g2 g3 g4.
  pose proof (has_rpc_srpc s s2 rs) as rp.
  assert (UF : forall t, Upt s2 t = Upt s t) by (intros; apply Upt_frame; auto).
  assert (NWL : nowrap s2 -> nowrap s) by (apply nowrap_later; auto).
  pose proof T1_US_val as T1v.
  split; [congruence|]. split.
  - unfold KB. rewrite g4, rp, UF. split; [lia|]. split; [auto|]. split.
    + intros NW. pose proof (B3 (NWL NW)). pose proof (Upt_mono s _ _ NN). lia.
    + intros P1. destruct (B4 P1) as [t1 [t2 t3]]. specialize (Pt t1).
      assert (A2 : armed (t_timer1 s2) = true) by (apply Td; auto; lia).
      destruct (Tc A2) as [_ Pe]. split; [exact A2|]. split; [apply Ta; auto|]. rewrite <- Pt, <- Pe. apply Tb; auto. lia.
  - intros R1 P1 NW2 HT. rewrite rr in R1. rewrite rp in P1. rewrite ra in HT. pose proof (NWL NW2) as NW.
    destruct (C R1 P1 NW HT) as [c1 [c2 [c3 [c4 c5]]]]. specialize (c4 eq_refl). destruct (B4 P1) as [t1 [t2 t3]].
    cbn zeta. rewrite g3, g2, g4, rl, ra, !UF.
    split; [exact c1|]. split; [pose proof (Upt_mono s _ _ NN); lia|].
    assert (NB : now s2 <= due (t_timer1 s) + J).
    { destruct (tid_eq_dec T_timer1 i) as [<-|Hne].
      - cbn [get_tm] in N2. lia.
      - rewrite <- (Te Hne). apply Ta. rewrite (Te Hne). exact t1. }
    split.
    + pose proof (Upt_mono s (now s2) (due (t_timer1 s) - T1_US + (T1_US + J)) ltac:(lia)).
      pose proof (Upt_add_le s (due (t_timer1 s) - T1_US) (T1_US + J) 2 ltac:(lia)). lia.
    + split; [|exact c5]. intros F. destruct (tid_eq_dec T_timer1 i) as [<-|Hne]; [discriminate F|]. rewrite (Te Hne). exact c4.
Qed.

Lemma ksim_fire i s fin : TR J s -> pick s fin = Some i -> KSim true s -> KSim true (fire i s).
Proof. intros R P K. rewrite fire_eq. apply ksim_callback. eapply ksim_prefire; eauto. Qed.
(* no timer is due up to fin: in particular timer1 is not, so fin is less than a period after the last tick *)
Lemma ksim_done s fin : pick s fin = None -> KSim true s -> KSim true (if now s <? fin then set_now fin s else s).
Proof.
  intros P K. destruct (now s <? fin) eqn:E; auto. apply Z.ltb_lt in E. destruct K as [E0 [[B1 [B2 [B3 B4]]] C]].
  assert (F : ktmo (set_now fin s) = ktmo s /\ actto (set_now fin s) = actto s /\ registered (set_now fin s) = registered s /\
              has_rpc (set_now fin s) = has_rpc s /\ kenv (set_now fin s) = kenv s /\ kabs (set_now fin s) = kabs s /\
              lastsent (set_now fin s) = lastsent s /\ lastresp (set_now fin s) = lastresp s /\
              now (set_now fin s) = fin /\ boot (set_now fin s) = boot s /\ cycles0 (set_now fin s) = cycles0 s /\ t_timer1 (set_now fin s) = t_timer1 s)
    by (repeat split; reflexivity).
  generalize dependent (set_now fin s). intros s' [a1 [a2 [a3 [a4 [a5 [a6 [a7 [a8 [a9 [a10 [a11 a12]]]]]]]]]]].
  assert (UF : forall t, Upt s' t = Upt s t) by (intros; apply Upt_frame; auto).
  assert (NWL : nowrap s' -> nowrap s) by (apply nowrap_later; auto; lia).
  pose proof T1_US_val as T1v.
  assert (D : has_rpc s = true -> fin < due (t_timer1 s)) by (intros P1; destruct (B4 P1) as [t1 _]; apply (pick_none s fin P T_timer1 t1)).
  split; [congruence|]. split.
  - unfold KB. rewrite a4, a7, a9, a12, UF. split; [lia|]. split; [auto|]. split.
    + intros NW. pose proof (B3 (NWL NW)). pose proof (Upt_mono s (now s) fin ltac:(lia)). lia.
    + intros P1. destruct (B4 P1) as [t1 [t2 t3]]. specialize (D P1). split; [auto|]. lia.
  - intros R1 P1 NW2 HT. rewrite a3 in R1. rewrite a4 in P1. rewrite a2 in HT. pose proof (NWL NW2) as NW.
    destruct (C R1 P1 NW HT) as [c1 [c2 [c3 [c4 c5]]]]. specialize (D P1).
    cbn zeta. rewrite a6, a5, a7, a8, a9, a12, a2, !UF.
    split; [exact c1|]. split; [pose proof (Upt_mono s (now s) fin ltac:(lia)); lia|]. split; [|split; [exact c4|exact c5]].
    specialize (c4 eq_refl).
    pose proof (Upt_mono s fin (due (t_timer1 s) - T1_US + T1_US) ltac:(lia)).
    pose proof (Upt_add_le s (due (t_timer1 s) - T1_US) T1_US 1 ltac:(lia)). lia.
Qed.
Lemma ksim_Advance fin s s' : Advance fin s s' -> All J s -> KSim true s -> KSim true s'.
Proof.
  induction 1; intros A K; auto.
  - apply ksim_done; auto.
  - apply IHAdvance; [eapply fire_all; eauto; apply HJ0|]. destruct A as [R _]. eapply ksim_fire; eauto.
Qed.

(* ---------- events, runs, boot ---------- *)
Lemma kv_conncb s : kview_of (dev_step s ConnCb) =
  mkkv (ktmo s) (actto s) (registered s) true (kenv s) (kabs s) (lastsent s) (lastresp s) (now s) (boot s) (cycles0 s) (t_timer1 s).
Proof.
  cbn [dev_step]. rewrite kv_emit. unfold connect_cb.
  assert (V1 : kview_of (set_stalled false (set_wbuf [] (set_conn (conn s + 1) (set_link L_LIVE s)))) = kview_of s) by reflexivity.
  generalize dependent (set_stalled false (set_wbuf [] (set_conn (conn s + 1) (set_link L_LIVE s)))). intros s1 V1.
  assert (V2 : kview_of (set_srpc (Some (mkrpc (conn s1) 0 [] [] empty_inb [] false None (now s1))) s1) =
               mkkv (ktmo s) (actto s) (registered s) true (kenv s) (kabs s) (lastsent s) (lastresp s) (now s) (boot s) (cycles0 s) (t_timer1 s)).
  { unfold kview_of in *. cbn [ktmo actto registered kenv kabs lastsent lastresp set_srpc has_rpc srpc now boot cycles0 t_timer1]. inversion V1. reflexivity. }
  generalize dependent (set_srpc (Some (mkrpc (conn s1) 0 [] [] empty_inb [] false None (now s1))) s1). intros s2 V2.
  assert (V3 : kview_of (arm T_iter ITERATE_MS true s2) =
               mkkv (ktmo s) (actto s) (registered s) true (kenv s) (kabs s) (lastsent s) (lastresp s) (now s) (boot s) (cycles0 s) (t_timer1 s))
    by (rewrite kv_arm by discriminate; exact V2).
  generalize dependent (arm T_iter ITERATE_MS true s2). intros s3 V3.
  destruct (clrconn s3); exact V3.
Qed.
Lemma kv_disc_step s : kview_of (disc_step s) = kview_of s.
Proof.
  unfold disc_step, disconnect_cb.
  assert (V1 : kview_of (if link s =? L_LIVE then wire_close s else s) = kview_of s) by (destruct (_ =? _); [apply kv_wire_close|reflexivity]).
  generalize dependent (if link s =? L_LIVE then wire_close s else s). intros s1 V1.
  assert (V2 : kview_of (set_recvbuf [] (set_espbuf [] (gpio_state_ipreceived (set_link L_IDLE (emit O_DISCD [now s1; conn s1; evi s1] s1))))) = kview_of s).
  { change (kview_of (set_recvbuf [] (set_espbuf [] ?x))) with (kview_of x). rewrite kv_gpio_ip. exact V1. }
  generalize dependent (set_recvbuf [] (set_espbuf [] (gpio_state_ipreceived (set_link L_IDLE (emit O_DISCD [now s1; conn s1; evi s1] s1))))). intros s2 V2.
  destruct (started s2); [rewrite kv_arm, kv_disarm by discriminate|]; exact V2.
Qed.

Lemma kview_eq_fields s' a1 a2 a3 a4 a5 a6 a7 a8 a9 a10 a11 a12 : kview_of s' = mkkv a1 a2 a3 a4 a5 a6 a7 a8 a9 a10 a11 a12 ->
  ktmo s' = a1 /\ actto s' = a2 /\ registered s' = a3 /\ has_rpc s' = a4 /\ kenv s' = a5 /\ kabs s' = a6 /\ lastsent s' = a7 /\
  lastresp s' = a8 /\ now s' = a9 /\ boot s' = a10 /\ cycles0 s' = a11 /\ t_timer1 s' = a12.
Proof. unfold kview_of. intros H. inversion H. repeat split; reflexivity. Qed.

Lemma kv_disccb s : kview_of (dev_step s DiscCb) = kview_of s.
Proof. cbn [dev_step]. apply kv_disc_step. Qed.

Section SimRun.
Variables cs cc : bool.
Lemma ksim_conncb s : Inv cs cc s -> TR J s -> link s = L_PENDING -> KSim true s -> KSim true (dev_step s ConnCb).
Proof.
  intros HI R Hl [E [[B1 [B2 [B3 _]]] _]].
  pose proof (i_pending _ _ _ HI Hl) as Hn. cbn in Hn. pose proof (i_none_reg _ _ _ HI Hn) as Hr. cbn in Hr.
  pose proof (r_started _ _ R (r_pending _ _ R Hl)) as A1.
  pose proof (r_tok _ _ R (t_timer1 s) (or_intror (or_introl eq_refl)) A1) as A2.
  pose proof (r_ahead _ _ R (t_timer1 s) (or_intror eq_refl) A1) as A3. rewrite (r_t1p _ _ R A1) in A3.
  destruct (kview_eq_fields _ _ _ _ _ _ _ _ _ _ _ _ _ (kv_conncb s)) as [a1 [a2 [a3 [a4 [a5 [a6 [a7 [a8 [a9 [a10 [a11 a12]]]]]]]]]]].
  generalize dependent (dev_step s ConnCb). intros s' a1 a2 a3 a4 a5 a6 a7 a8 a9 a10 a11 a12.
  split; [congruence|]. split.
  - unfold KB, nowrap, nowrap_at, Upt, usec_at. rewrite a7, a9, a10, a11, a12. split; [auto|]. split; [auto|]. split; [exact B3|]. intros _. split; [exact A1|]. split; [exact A2|exact A3].
  - intros R1. rewrite a3, Hr in R1. discriminate R1.
Qed.
Lemma ksim_rstep s e s' : rstep s e s' -> Full J cs cc s -> KSim true s -> KSim true s'.
Proof.
  intros H [HI A] K. unfold rstep in H.
  assert (K1 : KSim true (set_evi (evi s + 1) s)) by (eapply KSim_view; [|exact K]; reflexivity).
  assert (A1 : All J (set_evi (evi s + 1) s)) by (eapply All_TQ; [exact A|apply tq_set_evi]).
  assert (HI1 : Inv cs cc (set_evi (evi s + 1) s)) by (eapply Inv_core; [|eauto]; reflexivity).
  generalize dependent (set_evi (evi s + 1) s). intros s1 H K1 A1 HI1.
  destruct (halted s1); [subst; auto|]. destruct (env_allows s1 e) eqn:E; [|subst; auto].
  destruct e; cbn [dev_rstep] in H; try subst s'.
  - destruct (dt <? 0); [subst; auto|]. eapply ksim_Advance; eauto.
  - eapply KSim_view; [|exact K1]. reflexivity.
  - cbn [env_allows] in E. apply Z.eqb_eq in E. destruct A1 as [R _]. apply ksim_conncb; auto.
  - eapply KSim_view; [apply kv_disccb|auto].
  - cbn [dev_step].
    assert (K2 : KSim true (recv_cb b (emit O_RX [now s1; conn s1; evi s1] s1))) by (apply ksim_recv_cb; eapply KSim_view; [apply kv_emit|auto]).
    destruct (link s1 =? L_CLOSING); [|exact K2]. eapply KSim_view; [apply kv_disc_step|exact K2].
  - eapply KSim_view; [|exact K1]. reflexivity.
  - eapply KSim_view; [|exact K1]. reflexivity.
  - cbn [dev_step]. eapply KSim_view; [apply kv_local_call|auto].
  - eapply KSim_view; [|exact K1]. reflexivity.
  - auto.
Qed.
Lemma boot_pre_koff b cyc d pay lt u :
  let s2 := arm T_wd WATCHDOG_MS true (set_lastresp u (set_wstatus STATION_CONNECTING_ (emit O_WIFISTART [0] (init0 b cyc d pay lt cs cc)))) in
  ktmo s2 = actto s2 /\ now s2 = 0 /\ lastsent s2 = 0 /\ has_rpc s2 = false /\ boot s2 = b /\ cycles0 s2 = cyc.
Proof. cbn zeta. unfold arm. cbn. repeat split. Qed.
Lemma ksim_boot b cyc d pay lt : KSim true (boot_device b cyc d pay lt cs cc).
Proof.
  unfold boot_device. change (now (init0 b cyc d pay lt cs cc)) with 0.
  generalize (uptime (set_wstatus STATION_CONNECTING_ (emit O_WIFISTART [0] (init0 b cyc d pay lt cs cc)))). intros u.
  destruct (boot_pre_koff b cyc d pay lt u) as [f1 [f2 [f3 [f4 [f5 f6]]]]]. cbn zeta in *.
  generalize dependent (arm T_wd WATCHDOG_MS true (set_lastresp u (set_wstatus STATION_CONNECTING_ (emit O_WIFISTART [0] (init0 b cyc d pay lt cs cc))))).
  intros s2 f1 f2 f3 f4 f5 f6.
  apply (KSim_off true true s2); [rewrite koff_start; unfold koff_of; rewrite f4; reflexivity|].
  split; [exact f1|]. split.
  - unfold KB. rewrite f2, f3, f4. split; [lia|]. split; [lia|]. split; [|discriminate].
    intros [C0 [B0 _]]. rewrite Upt_eq. apply Z.div_pos; [|lia]. apply usec_nonneg; [exact C0|lia].
  - intros _ P. rewrite f4 in P. discriminate P.
Qed.
Lemma ksim_RRun s evs s' : sites_ok CallSites = true -> RRun s evs s' -> Full J cs cc s -> KSim true s -> KSim true s'.
Proof.
  intros HS H. induction H; auto. intros F K. apply IHRRun; [eapply rstep_full; eauto; apply HJ0|eapply ksim_rstep; eauto].
Qed.
Theorem ksim_reachable s : sites_ok CallSites = true -> rreachable cs cc J s -> KSim true s.
Proof.
  intros HS [b [cyc [d [pay [lt [evs [HL H]]]]]]]. eapply ksim_RRun; eauto; [|apply ksim_boot].
  split; [apply boot_inv|apply boot_all; auto; apply HJ0].
Qed.

(* C05_keepalive on the automaton that is compared with the implementation.  For every reachable state (any history of
   events and timer firings, lateness < 1 s) that is registered, whose uptime seconds fit 32 bits, with KA_MIN = 5 <= T, and whose
   current episode (since the registration was accepted / the timeout granted) met the EXTERNAL conditions only
   (kenv: H_fresh at the start of the episode, then H_link, H_prompt, H_slot at each event -- see kenv_reset / kenv_event):
   the abstract state is in lockstep with the real clock and the real last_sent / last_response, the invariant holds, the
   device has not decided to reconnect, the idle times seen from the CURRENT uptime second are at most T + 2, the next
   timer1 tick does not reconnect, and (T <= KA_WD_MAX = 58) a watchdog tick now neither restarts nor reconnects.
   What kder_ok stood for (time monotone, 32-bit seconds, a tick at least every other second) is derived, not assumed. *)
Theorem keepalive_automaton_thm s : sites_ok CallSites = true -> rreachable cs cc J s ->
  is_registered s = true -> nowrap s -> KA_MIN <= actto s <= 4294966000 -> kenv s = true ->
  let T := actto s in let k := kabs s in let up := Upt s (now s) in
  KInv T k /\ k_ls k = lastsent s /\ k_lr k = lastresp s /\ k_bad k = false /\
  uptime s = up /\ k_lt k <= k_cur k /\ k_cur k <= up /\ up <= k_lt k + 2 /\
  up - lastsent s <= T + 2 /\ up - lastresp s <= T + 2 /\
  (forall slot, kder_ok k (Tick (uptime s) slot) = true) /\
  (forall slot, kext_ok T k (Tick (uptime s) slot) = true -> t1_decide (uptime s) (lastsent s) (lastresp s) T <> T1_reconnect) /\
  (T <= KA_WD_MAX -> forall nw, wd_decide (uptime s) (lastresp s) T nw = WD_none).
Proof.
  intros HS HR Reg NW HT Env. cbn zeta. destruct (ksim_reachable s HS HR) as [Tm [KBs H]].
  destruct (rreachable_full J HJ0 cs cc s HS HR) as [_ [R _]].
  apply is_registered_iff in Reg. destruct Reg as [R1 N1]. apply has_rpc_iff in N1.
  destruct (H R1 N1 NW HT) as [c1 [c2 [c3 [_ c5]]]]. destruct (c5 Env) as [KI [L1 L2]].
  destruct (KInv_bounds_wide _ _ HT KI) as [B0 [B1 [B2 B3]]].
  pose proof (uptime_nowrap s NW (r_now _ _ R)) as UU. pose proof (r_lr _ _ R NW) as LR.
  assert (KD : forall slot, kder_ok (kabs s) (Tick (uptime s) slot) = true).
  { intros slot. unfold kder_ok. cbn [ktime]. rewrite UU. destruct NW as [_ [_ NWb]].
    repeat (apply andb_true_iff; split); [apply Z.leb_le|apply Z.ltb_lt|apply Z.leb_le]; auto. }
  split; auto. split; auto. split; auto. split; auto. split; auto. split; auto. split; auto. split; auto.
  rewrite <- L1, <- L2. split; [lia|]. split; [lia|]. split; [exact KD|]. split.
  - intros slot E D. assert (E' : kenv_ok (actto s) (kabs s) (Tick (uptime s) slot) = true) by (unfold kenv_ok; rewrite KD, E; reflexivity).
    pose proof (kstep_inv _ _ _ HT KI E') as KI'. pose proof (ki_bad _ _ KI') as Bad.
    cbn [kstep] in Bad. rewrite D in Bad. cbn in Bad. discriminate Bad.
  - intros T50 nw. destruct (KInv_bounds (actto s) (kabs s) ltac:(lia) KI) as [_ [_ [_ W]]].
    rewrite <- L2 in LR. apply W; rewrite <- ?UU; try lia. rewrite UU. destruct NW as [_ [_ NWb]]. exact NWb.
Qed.
End SimRun.
End Sim.

(* the accumulated bit kenv is exactly: H_fresh when the episode starts, and kext_ok (external conditions only) per event *)
Lemma kenv_reset s : kenv (k_reset s) = (uptime s - lastsent s <=? actto s - 3). Proof. reflexivity. Qed.
Lemma kenv_event e s : kenv (k_event e s) = kenv s && kext_ok (ktmo s) (kabs s) e. Proof. reflexivity. Qed.

(* ---------- the hypotheses are satisfiable on long concrete histories ---------- *)
(* 120 s after the registration was accepted, the server answering every ping after 50 ms (23 pings, 24 calls received):
   every hypothesis of keepalive_automaton_thm holds at the end, in particular the accumulated external conditions. *)
Definition ka_hist (b cyc dt : Z) : st :=
  run_from (boot_device b cyc ESP_ARG (zeros (REG_BASE_SIZE + REG_CHANNEL_SIZE)) [] true false)
           [Server 50000; Adv 300000; Wifi STATION_GOT_IP_; Adv 300000; ConnCb; Adv 400001; Recv (regok_frame 10); Adv dt].
Lemma ka_history_example : let s := ka_hist 999999 0 120000000 in
  rreachable true false 0 s /\ is_registered s = true /\ nowrap s /\ actto s = 10 /\ kenv s = true /\ nresp s = 24 /\ now s = 121000001.
Proof.
  cbn zeta. split; [unfold ka_hist; apply run_rreachable; [constructor|vm_compute; reflexivity]|].
  unfold nowrap, nowrap_at. vm_compute. repeat split; congruence.
Qed.
(* the same history on an aged device whose 32-bit microsecond counter wraps 30 s after boot, having wrapped 7 times before *)
Lemma ka_history_wrap_example : let s := ka_hist (4294967296 - 30000000) 7 120000000 in
  rreachable true false 0 s /\ is_registered s = true /\ nowrap s /\ actto s = 10 /\ kenv s = true /\ nresp s = 24 /\
  (boot s + now s) / 4294967296 = 1 /\ uptime s = 34450.
Proof.
  cbn zeta. split; [unfold ka_hist; apply run_rreachable; [constructor|vm_compute; reflexivity]|].
  unfold nowrap, nowrap_at. vm_compute. repeat split; congruence.
Qed.

(* the hypotheses of the end-to-end silent-server theorems (the run of C05_bounds_tight), without and with a counter wrap
   inside the silence *)
Definition e2e_s0 (b cyc : Z) : st :=
  run_from (boot_device b cyc ESP_ARG (zeros (REG_BASE_SIZE + REG_CHANNEL_SIZE)) [] true false)
           [Adv 300000; Wifi STATION_GOT_IP_; Adv 300000; ConnCb; Adv 400001; Recv (regok_frame 10)].
Definition e2e_s1 (b cyc dt : Z) : st := run_from (e2e_s0 b cyc) [Adv dt].
Lemma e2e_example : let s0 := e2e_s0 999999 0 in let s1 := e2e_s1 999999 0 25000000 in
  rreachable true false 0 s0 /\ RRun s0 [Adv 25000000] s1 /\ nresp s1 = nresp s0 /\
  0 <= cycles0 s0 /\ 0 <= boot s0 /\ Upt s0 (now s1) < 4294967296 /\ lastresp s0 = Upt s0 1000001 /\
  is_registered s0 = true /\ armed (t_stop s0) = false /\ actto s0 = 10 /\ halted s0 = false /\ wraps s0 1000001 (now s1) = 0 /\
  1000001 + (actto s0 + PING_RECONNECT_PLUS) * 1000000 + T1_US + 0 + wraps s0 1000001 (now s1) <= now s1.
Proof.
  cbn zeta. split; [unfold e2e_s0; apply run_rreachable; [constructor|vm_compute; reflexivity]|].
  split; [unfold e2e_s1; apply run_refines; vm_compute; reflexivity|].
  unfold wraps. vm_compute. repeat split; congruence.
Qed.
Lemma e2e_wrap_example : let s0 := e2e_s0 (4294967296 - 10000000) 3 in let s1 := e2e_s1 (4294967296 - 10000000) 3 25000000 in
  rreachable true false 0 s0 /\ RRun s0 [Adv 25000000] s1 /\ nresp s1 = nresp s0 /\
  0 <= cycles0 s0 /\ 0 <= boot s0 /\ Upt s0 (now s1) < 4294967296 /\ lastresp s0 = Upt s0 1000001 /\
  is_registered s0 = true /\ armed (t_stop s0) = false /\ actto s0 = 10 /\ halted s0 = false /\ wraps s0 1000001 (now s1) = 1 /\
  1000001 + (actto s0 + PING_RECONNECT_PLUS) * 1000000 + T1_US + 0 + wraps s0 1000001 (now s1) <= now s1.
Proof.
  cbn zeta. split; [unfold e2e_s0; apply run_rreachable; [constructor|vm_compute; reflexivity]|].
  split; [unfold e2e_s1; apply run_refines; vm_compute; reflexivity|].
  unfold wraps. vm_compute. repeat split; congruence.
Qed.

(* ---------- activity-timeout negotiation ---------- *)
(* SUPLA_SDC_CALL_SET_ACTIVITY_TIMEOUT_RESULT {activity_timeout, min, max}: the device takes the first byte as it is -- no
   clamp, the min / max bytes are not read (supla_esp_channel_set_activity_timeout_result) -- and a new episode starts *)
Lemma sat_result_handler f s :
  le32 f OFF_CALL_ID = SRV_SET_ACTIVITY_TIMEOUT_RESULT -> le32 f OFF_DATA_SIZE = SZ_SET_ACTIVITY_TIMEOUT_RESULT ->
  handler f s = k_reset (set_actto (nthz (drop OFF_DATA f) OFF_SAT_RESULT_TIMEOUT) (handler_pre s)).
Proof. intros C D. rewrite handler_eq. unfold handler_body. rewrite C, D. reflexivity. Qed.
Theorem sat_result_sets_timeout_thm f s : let v := nthz (drop OFF_DATA f) OFF_SAT_RESULT_TIMEOUT in
  le32 f OFF_CALL_ID = SRV_SET_ACTIVITY_TIMEOUT_RESULT -> le32 f OFF_DATA_SIZE = SZ_SET_ACTIVITY_TIMEOUT_RESULT ->
  let s' := handler f s in
  actto s' = v /\ ktmo s' = v /\ registered s' = registered s /\ srpc s' = srpc s /\ lastsent s' = lastsent s /\ lastresp s' = uptime s /\
  uptime s' = uptime s /\ t_timer1 s' = t_timer1 s /\ outs s' = outs s /\
  kabs s' = kinit (uptime s) (lastsent s) /\ kenv s' = (uptime s - lastsent s <=? v - 3).
Proof. intros v C D. cbn zeta. rewrite (sat_result_handler f s C D). repeat split; reflexivity. Qed.
(* the register result: server_activity_timeout := activity_timeout byte, registered := 1, a new episode *)
Lemma register_result_view tmo s :
  kview_of (on_register_result RESULTCODE_TRUE tmo s) = kview_of (k_reset (set_registered 1 (set_actto tmo s))).
Proof.
  unfold on_register_result. rewrite Z.eqb_refl.
  generalize (k_reset (set_registered 1 (set_actto tmo s))). intros s1.
  rewrite kv_arm, kv_disarm by discriminate.
  assert (V2 : kview_of (match srpc s1 with
                     | Some p => set_srpc (Some (mkrpc (sid p) (rr_last p) (oq p) (obuf p) (ibuf p) (hist p) true (refused_at p) (created_at p))) s1
                     | None => s1 end) = kview_of s1)
    by (destruct (srpc s1) as [p|] eqn:E; auto; apply (kv_set_rpc_some s1 p); auto).
  generalize dependent (match srpc s1 with
                     | Some p => set_srpc (Some (mkrpc (sid p) (rr_last p) (oq p) (obuf p) (ibuf p) (hist p) true (refused_at p) (created_at p))) s1
                     | None => s1 end). intros s2 V2.
  destruct (tmo =? ACTIVITY_TIMEOUT_DEFAULT); [|rewrite kv_async_call]; rewrite kv_gpio_conn; exact V2.
Qed.
Theorem register_result_sets_timeout_thm tmo s : let s' := on_register_result RESULTCODE_TRUE tmo s in
  actto s' = tmo /\ ktmo s' = tmo /\ registered s' = 1 /\ lastsent s' = lastsent s /\ lastresp s' = lastresp s /\
  kabs s' = kinit (uptime s) (lastsent s) /\ kenv s' = (uptime s - lastsent s <=? tmo - 3).
Proof.
  cbn zeta. destruct (kview_fields _ _ (register_result_view tmo s)) as [a1 [a2 [a3 [a4 [a5 [a6 [a7 [a8 [a9 [a10 [a11 a12]]]]]]]]]]].
  rewrite a1, a2, a3, a5, a6, a7, a8. repeat split; reflexivity.
Qed.

Section Negotiation.
Variable J : Z.
Hypothesis HJ : 0 <= J < 1000000.
Variables cs cc : bool.
(* After a SET_ACTIVITY_TIMEOUT_RESULT carrying ANY value v is handled in a reachable, registered state, the keep-alive runs
   with v: the abstract semantics is restarted with tmo = v in lockstep with the device (KSim), and for KA_MIN = 5 <= v, when the
   device has sent something within the last v - 3 s (H_fresh), the invariant holds from here on for T = v; the next timer1
   decisions are the window rule for v: ping iff an idle time is in [v - 5, v].  Every later state of the history is covered by
   keepalive_automaton_thm with T = actto = v (until the next negotiation).  v = 0 and 0 < v < 5: t1_decide_zero / _small. *)
Theorem timeout_negotiated_thm s f : let v := nthz (drop OFF_DATA f) OFF_SAT_RESULT_TIMEOUT in
  sites_ok CallSites = true -> rreachable cs cc J s -> is_registered s = true -> nowrap s ->
  le32 f OFF_CALL_ID = SRV_SET_ACTIVITY_TIMEOUT_RESULT -> le32 f OFF_DATA_SIZE = SZ_SET_ACTIVITY_TIMEOUT_RESULT ->
  let s' := handler f s in
  KSim J true s' /\ actto s' = v /\ ktmo s' = v /\ is_registered s' = true /\
  (KA_MIN <= v <= 4294966000 -> uptime s - lastsent s <= v - 3 ->
     kenv s' = true /\ KInv v (kabs s') /\ k_ls (kabs s') = lastsent s' /\ k_lr (kabs s') = lastresp s' /\
     forall up, lastresp s' <= up -> up < 4294967296 -> up - lastresp s' <= v ->
       t1_decide up (lastsent s') (lastresp s') v =
       if ((v - PING_WINDOW_MINUS <=? up - lastsent s') && (up - lastsent s' <=? v)) ||
          ((v - PING_WINDOW_MINUS <=? up - lastresp s') && (up - lastresp s' <=? v)) then T1_ping else T1_none).
Proof.
  intros v HS HR Reg NW C D. cbn zeta.
  pose proof (ksim_handler J HJ true f s (ksim_reachable J HJ cs cc s HS HR)) as K.
  destruct (sat_result_sets_timeout_thm f s C D) as [a1 [a2 [a3 [a4 [a5 [a6 [a7 [a8 [_ [a9 a10]]]]]]]]]]. fold v in a1, a2, a10.
  destruct (rreachable_full J (HJ0 J HJ) cs cc s HS HR) as [_ [R _]].
  assert (Reg' : is_registered (handler f s) = true).
  { apply is_registered_iff in Reg. apply is_registered_iff. rewrite a3, a4. exact Reg. }
  generalize dependent (handler f s). intros s' K a1 a2 a3 a4 a5 a6 a7 a8 a9 a10 Reg'.
  split; [exact K|]. split; [exact a1|]. split; [exact a2|]. split; [exact Reg'|].
  intros HT HF. pose proof (uptime_nowrap s NW (r_now _ _ R)) as UU. pose proof (r_lr _ _ R NW) as LR.
  destruct K as [_ [[B1 [B2 [B3 _]]] _]].
  assert (E : kenv s' = true) by (rewrite a10; apply Z.leb_le; exact HF).
  assert (L0 : 0 <= lastsent s <= uptime s).
  { pose proof (ksim_reachable J HJ cs cc s HS HR) as [_ [[_ [b2 [b3 _]]] _]]. specialize (b3 NW). lia. }
  assert (KI : KInv v (kabs s')) by (rewrite a9; apply kinit_inv; [lia|exact L0|rewrite UU; apply NW|exact HF]).
  split; [exact E|]. split; [exact KI|]. rewrite a9, a5, a6. cbn [kinit k_ls k_lr]. split; [reflexivity|]. split; [reflexivity|].
  intros up H1 H2 H3. apply t1_decide_spec; auto; lia.
Qed.
End Negotiation.

(* a negotiated history: registered with timeout 30, the device asks for 10, the server grants v (min / max bytes 77 and 3 are
   ignored), then answers every ping after 50 ms *)
Definition satres_frame (v mn mx : Z) : list Z := encode (SRV_SET_ACTIVITY_TIMEOUT_RESULT, 2, [v; mn; mx]).
Definition neg_hist (t0 v dt : Z) : st :=
  run_from (boot_device 999999 0 ESP_ARG (zeros (REG_BASE_SIZE + REG_CHANNEL_SIZE)) [] true false)
           [Server 50000; Adv 300000; Wifi STATION_GOT_IP_; Adv 300000; ConnCb; Adv 400001; Recv (regok_frame t0); Adv 300000;
            Recv (satres_frame v 77 3); Adv dt].
(* v = 25: two minutes later still registered, all hypotheses hold, 5 pings were answered (one about every 20 s) *)
Lemma negotiation_example : let s := neg_hist 30 25 120000000 in
  rreachable true false 0 s /\ is_registered s = true /\ nowrap s /\ actto s = 25 /\ ktmo s = 25 /\ kenv s = true /\ nresp s = 7.
Proof.
  cbn zeta. split; [unfold neg_hist; apply run_rreachable; [constructor|vm_compute; reflexivity]|].
  unfold nowrap, nowrap_at. vm_compute. repeat split; congruence.
Qed.
(* v = 5, the smallest timeout with a ping window: a ping every second, still registered after a minute *)
Lemma negotiation_min_example : let s := neg_hist 30 5 60000000 in
  rreachable true false 0 s /\ is_registered s = true /\ actto s = 5 /\ kenv s = true /\ nresp s = 62.
Proof.
  cbn zeta. split; [unfold neg_hist; apply run_rreachable; [constructor|vm_compute; reflexivity]|]. vm_compute. repeat split; congruence.
Qed.
(* v = 3 (below the window): no ping is ever sent, the device drops the healthy connection after v + 10 s *)
Lemma negotiation_small_example : let s := neg_hist 30 3 20000000 in
  rreachable true false 0 s /\ nresp s = 2 /\ disc_at 15000000 s.
Proof.
  cbn zeta. split; [unfold neg_hist; apply run_rreachable; [constructor|vm_compute; reflexivity]|]. split; [vm_compute; reflexivity|].
  unfold disc_at. vm_compute. tauto.
Qed.
(* REFUTED for large timeouts: the watchdog clause cannot be extended beyond KA_WD_MAX.  With v = 120 granted and a server that
   would answer every ping after 50 ms (all external conditions hold: kenv = true), the first ping is due after 115 idle
   seconds, but the watchdog restarts the device after 61 s without a received call. *)
Lemma watchdog_large_timeout_refuted : let s := neg_hist 30 120 70000000 in
  rreachable true false 0 s /\ actto s = 120 /\ kenv s = true /\ nresp s = 2 /\ halted s = true /\ exists t, t <= 63000000 /\ restart_at t s.
Proof.
  cbn zeta. split; [unfold neg_hist; apply run_rreachable; [constructor|vm_compute; reflexivity]|].
  split; [vm_compute; reflexivity|]. split; [vm_compute; reflexivity|]. split; [vm_compute; reflexivity|]. split; [vm_compute; reflexivity|].
  exists 63000000. split; [lia|]. unfold restart_at. vm_compute. tauto.
Qed.
