(* C05 — proofs: (1) the C04 automaton's timer callbacks are the pure decisions of Model.v; (2) the silent-server
   decisions and the arithmetic of the bounds; (3) the keep-alive invariant over the abstract timed semantics. *)
From Coq Require Import List ZArith Lia Bool.
Import ListNotations.
From V Require Import Base.U32 Base.Bytes Base.Iface Gen.ProtoConsts Gen.C04Consts C04.Keepalive C04.Model C04.Proofs C05.Model.
Local Open Scope Z_scope.

Record c05_facts : Prop := {
  k_minus : 2 <= PING_WINDOW_MINUS <= 10;
  k_plus : 1 <= PING_RECONNECT_PLUS <= 1000;
  k_wd : 52 <= WATCHDOG_TIMEOUT_S < 4294966000;
  k_soft : 52 < WATCHDOG_SOFT_TIMEOUT_S
}.
Lemma c05_ok : c05_facts. Proof. constructor; vm_compute; repeat split; congruence. Qed.

(* ---------- (1) the automaton uses exactly these decisions ---------- *)
(* the ghost bookkeeping of the keep-alive abstraction done by timer1_cb (no influence on any other field) *)
Definition t1_ghost (s : st) : st :=
  if 0 <? actto s
  then k_event (Tick (uptime s) (match srpc s with Some p => len (oq p) <? QUEUE_SIZE | None => false end)) s else s.
Lemma timer1_cb_decide s :
  timer1_cb s =
  if is_registered s then
    match t1_decide (uptime s) (lastsent s) (lastresp s) (actto s) with
    | T1_reconnect => devconn_reconnect (t1_ghost s)
    | T1_ping => async_call (api_call A_PING) (zeros (api_size A_PING)) (t1_ghost s)
    | T1_none => t1_ghost s
    end
  else s.
Proof. reflexivity. Qed.
Lemma watchdog_cb_decide s :
  watchdog_cb s =
  match wd_decide (uptime s) (lastresp s) (actto s) (nextwd s) with
  | WD_restart => restart s
  | WD_soft => devconn_reconnect s
  | WD_none => s
  end.
Proof.
  unfold watchdog_cb, wd_decide. destruct (_ <? _); [|reflexivity]. destruct (_ <? _); [reflexivity|].
  destruct (_ && _); reflexivity.
Qed.

(* "closes the connection and starts the Wi-Fi/TCP connect sequence afresh" *)
Lemma outs_mono_gpio_disc x s : In x (outs s) -> In x (outs (gpio_state_disconnected s)).
Proof. unfold gpio_state_disconnected. destruct (_ =? _); auto. Qed.
Lemma outs_set_tm i v s : outs (set_tm i v s) = outs s. Proof. destruct i; reflexivity. Qed.
Lemma outs_arm i ms r s : outs (arm i ms r s) = outs s. Proof. unfold arm. rewrite outs_set_tm. reflexivity. Qed.
Lemma outs_disarm i s : outs (disarm i s) = outs s. Proof. unfold disarm. apply outs_set_tm. Qed.
Lemma outs_mono_wire_close x s : In x (outs s) -> In x (outs (wire_close s)).
Proof. unfold wire_close. destruct (_ || _); cbn; auto. Qed.
Lemma outs_mono_sdk_disconnect x s : In x (outs s) -> In x (outs (sdk_disconnect s)).
Proof.
  intros H. unfold sdk_disconnect. set (s1 := emit O_DISCONNECT [now s] s).
  assert (H1 : In x (outs s1)) by (right; exact H).
  destruct (link s1 =? L_LIVE); [apply outs_mono_wire_close in H1; exact H1|]. destruct (link s1 =? L_PENDING); auto.
Qed.
Lemma outs_mono_sdk_connect x s : In x (outs s) -> In x (outs (sdk_connect s)).
Proof.
  intros H. unfold sdk_connect. set (s1 := emit O_CONNECT [now s] s).
  assert (H1 : In x (outs s1)) by (right; exact H).
  destruct (link s1 =? L_LIVE); [apply outs_mono_wire_close in H1; exact H1|exact H1].
Qed.
Lemma outs_mono_resolvandconnect x s : In x (outs s) -> In x (outs (resolvandconnect s)).
Proof.
  intros H. unfold resolvandconnect. destruct (resolving s); auto.
  apply outs_mono_sdk_connect, outs_mono_sdk_disconnect. change (In x (outs (sdk_disconnect (set_resolving true s)))).
  apply outs_mono_sdk_disconnect. exact H.
Qed.
Lemma outs_mono_check_status x s : In x (outs s) -> In x (outs (wifi_check_status s)).
Proof.
  intros H. unfold wifi_check_status. destruct (_ =? _); auto.
  set (s1 := set_wlast (wstatus s) s).
  set (s2 := if wstatus s =? STATION_GOT_IP_ then gpio_state_ipreceived s1 else gpio_state_disconnected s1).
  assert (H2 : In x (outs s2)).
  { subst s2. destruct (_ =? _); [unfold gpio_state_ipreceived|unfold gpio_state_disconnected]; destruct (_ =? _); exact H. }
  destruct (_ && _); auto. apply outs_mono_resolvandconnect; auto.
Qed.
Lemma devconn_start_wifistart s : In (mk O_WIFISTART [now s] []) (outs (devconn_start s)) /\ forall x, In x (outs s) -> In x (outs (devconn_start s)).
Proof.
  unfold devconn_start. set (s1 := set_started true (gpio_state_ipreceived s)).
  assert (M1 : forall x, In x (outs s) -> In x (outs s1)) by (intros x H; subst s1; unfold gpio_state_ipreceived; destruct (_ =? _); exact H).
  assert (N1 : now s1 = now s) by (subst s1; unfold gpio_state_ipreceived; destruct (_ =? _); reflexivity).
  unfold wifi_station_connect.
  set (s2 := gpio_state_disconnected s1).
  assert (N2 : now s2 = now s) by (subst s2; unfold gpio_state_disconnected; destruct (_ =? _); exact N1).
  set (s3 := set_wstatus STATION_CONNECTING_ (emit O_WIFISTART [now s2] s2)).
  assert (W3 : In (mk O_WIFISTART [now s] []) (outs s3)) by (subst s3; rewrite N2; left; reflexivity).
  assert (M3 : forall x, In x (outs s) -> In x (outs s3)).
  { intros x H. subst s3. right. subst s2. apply outs_mono_gpio_disc. apply M1; auto. }
  set (s4 := if wlast s3 =? STATION_GOT_IP_ + 1 then wifi_check_status s3 else s3).
  assert (M4 : forall x, In x (outs s3) -> In x (outs s4)) by (intros x H; subst s4; destruct (_ =? _); [apply outs_mono_check_status|]; auto).
  rewrite outs_arm, !outs_disarm, outs_arm, outs_disarm. split; auto.
Qed.
Lemma devconn_reconnect_outputs s :
  In (mk O_DISCONNECT [now s] []) (outs (devconn_reconnect s)) /\ In (mk O_WIFISTART [now s] []) (outs (devconn_reconnect s)).
Proof.
  unfold devconn_reconnect. set (s0 := set_nextwd _ s).
  destruct (devconn_stop_disconnects s0) as [D _].
  assert (N : now (devconn_stop s0) = now s).
  { unfold devconn_stop. set (s2 := disarm T_iter (disarm T_timer1 (set_started false (set_registered 0 s0)))).
    assert (N2 : now s2 = now s) by reflexivity.
    assert (N3 : now (sdk_disconnect s2) = now s).
    { unfold sdk_disconnect. destruct (_ =? _); [unfold wire_close; destruct (_ || _); exact N2|]. destruct (_ =? _); exact N2. }
    destruct (clrstop _); exact N3. }
  destruct (devconn_start_wifistart (devconn_stop s0)) as [W M]. rewrite N in W. split; auto.
Qed.

(* ---------- (2) silent server ---------- *)
Lemma t1_decide_silent up ls lr tmo : 0 < tmo < 4294966000 -> 0 <= lr -> lr <= up < 4294967296 ->
  tmo + PING_RECONNECT_PLUS <= up - lr -> t1_decide up ls lr tmo = T1_reconnect.
Proof.
  intros HT Hl Hu Hs. destruct c05_ok as [_ Kp _ _]. unfold t1_decide.
  replace (0 <? tmo) with true by (symmetry; apply Z.ltb_lt; lia).
  rewrite (u32_small (up - lr)) by lia. rewrite (u32_small (tmo + PING_RECONNECT_PLUS)) by lia.
  replace (tmo + PING_RECONNECT_PLUS <=? up - lr) with true by (symmetry; apply Z.leb_le; lia). reflexivity.
Qed.
Lemma wd_decide_silent up lr tmo nw : 0 <= lr -> lr <= up < 4294967296 -> WATCHDOG_TIMEOUT_S < up - lr -> wd_decide up lr tmo nw = WD_restart.
Proof.
  intros Hl Hu Hs. unfold wd_decide. destruct c05_ok as [_ _ Kw _].
  replace (lr <? up) with true by (symmetry; apply Z.ltb_lt; lia).
  rewrite (u32_small (up - lr)) by lia.
  replace (WATCHDOG_TIMEOUT_S <? up - lr) with true by (symmetry; apply Z.ltb_lt; lia). reflexivity.
Qed.
(* seconds elapsed: once d whole seconds of real time have passed since the instant tau, the uptime second has advanced by at least d *)
Lemma seconds_elapsed b tau x d : 0 <= d -> tau + d * 1000000 <= x -> (b + tau) / 1000000 + d <= (b + x) / 1000000.
Proof.
  intros Hd Hx. rewrite <- Z.div_add by lia. apply Z.div_le_mono; lia.
Qed.
(* the automaton: a timer1 tick of a registered device that has heard nothing for tmo+10 uptime seconds closes the connection and
   restarts the Wi-Fi/TCP connect sequence; a watchdog tick after more than 60 silent seconds restarts the device *)
Theorem silent_reconnect_thm s : is_registered s = true -> 0 < actto s < 4294966000 -> 0 <= lastresp s -> lastresp s <= uptime s ->
  actto s + PING_RECONNECT_PLUS <= uptime s - lastresp s ->
  callback T_timer1 s = devconn_reconnect (t1_ghost s) /\
  In (mk O_DISCONNECT [now s] []) (outs (callback T_timer1 s)) /\ In (mk O_WIFISTART [now s] []) (outs (callback T_timer1 s)).
Proof.
  intros HR HT Hl Hu Hs. cbn [callback]. rewrite timer1_cb_decide, HR.
  assert (Hup : uptime s < 4294967296) by (unfold uptime; apply u32_range).
  rewrite t1_decide_silent by lia. split; [reflexivity|].
  assert (N : now (t1_ghost s) = now s) by (unfold t1_ghost; destruct (0 <? actto s); reflexivity).
  rewrite <- N. apply devconn_reconnect_outputs.
Qed.
Theorem silent_restart_thm s : 0 <= lastresp s -> lastresp s <= uptime s -> WATCHDOG_TIMEOUT_S < uptime s - lastresp s ->
  callback T_wd s = restart s /\ In (mk O_RESTART [now s] []) (outs (callback T_wd s)) /\ halted (callback T_wd s) = true.
Proof.
  intros Hl Hu Hs. cbn [callback]. rewrite watchdog_cb_decide.
  assert (Hup : uptime s < 4294967296) by (unfold uptime; apply u32_range).
  rewrite wd_decide_silent by lia. split; [reflexivity|]. split; [left; reflexivity|reflexivity].
Qed.

(* ---------- (3) keep-alive ---------- *)
(* the smallest timeout for which the ping window [tmo - 5, tmo] does not wrap below zero: 5 on this tree *)
Notation KA_MIN := (Z.max 5 PING_WINDOW_MINUS).
Lemma KA_MIN_val : KA_MIN = 5. Proof. reflexivity. Qed.
Lemma t1_decide_spec up ls lr tmo : KA_MIN <= tmo <= 4294966000 -> 0 <= ls <= up -> 0 <= lr <= up -> up < 4294967296 -> up - lr <= tmo ->
  t1_decide up ls lr tmo =
  if ((tmo - PING_WINDOW_MINUS <=? up - ls) && (up - ls <=? tmo)) || ((tmo - PING_WINDOW_MINUS <=? up - lr) && (up - lr <=? tmo))
  then T1_ping else T1_none.
Proof.
  intros HT Hs Hr Hu H2. destruct c05_ok as [Km Kp _ _]. unfold t1_decide.
  replace (0 <? tmo) with true by (symmetry; apply Z.ltb_lt; lia).
  rewrite (u32_small (up - ls)), (u32_small (up - lr)), (u32_small (tmo + PING_RECONNECT_PLUS)),
          (u32_small (tmo - PING_WINDOW_MINUS)), (u32_small tmo) by lia.
  replace (tmo + PING_RECONNECT_PLUS <=? up - lr) with false by (symmetry; apply Z.leb_gt; lia). reflexivity.
Qed.

(* below the window: timeout 0 disables the keep-alive altogether; 0 < tmo < 5 makes tmo - 5 wrap to a huge unsigned value,
   so the device never pings (it only reconnects after tmo + 10 s without a call) *)
Lemma t1_decide_zero up ls lr tmo : tmo <= 0 -> t1_decide up ls lr tmo = T1_none.
Proof. intros H. unfold t1_decide. replace (0 <? tmo) with false by (symmetry; apply Z.ltb_ge; lia). reflexivity. Qed.
Lemma t1_decide_small up ls lr tmo : 0 < tmo < PING_WINDOW_MINUS -> 0 <= ls <= up -> 0 <= lr <= up -> up < 4294967296 ->
  t1_decide up ls lr tmo <> T1_ping /\ (t1_decide up ls lr tmo = T1_reconnect <-> tmo + PING_RECONNECT_PLUS <= up - lr).
Proof.
  intros HT Hs Hr Hu. destruct c05_ok as [Km Kp _ _]. unfold t1_decide.
  replace (0 <? tmo) with true by (symmetry; apply Z.ltb_lt; lia).
  rewrite (u32_small (up - ls)), (u32_small (up - lr)), (u32_small (tmo + PING_RECONNECT_PLUS)), (u32_small tmo) by lia.
  assert (W : u32 (tmo - PING_WINDOW_MINUS) = tmo - PING_WINDOW_MINUS + 4294967296).
  { unfold u32. rewrite <- (Z.mod_add _ 1) by lia. apply Z.mod_small. lia. }
  rewrite W.
  assert (A1 : (tmo - PING_WINDOW_MINUS + 4294967296 <=? up - ls) && (up - ls <=? tmo) = false)
    by (apply andb_false_iff; destruct (Z_le_dec (up - ls) tmo); [left; apply Z.leb_gt; lia|right; apply Z.leb_gt; lia]).
  assert (A2 : (tmo - PING_WINDOW_MINUS + 4294967296 <=? up - lr) && (up - lr <=? tmo) = false)
    by (apply andb_false_iff; destruct (Z_le_dec (up - lr) tmo); [left; apply Z.leb_gt; lia|right; apply Z.leb_gt; lia]).
  rewrite A1, A2. cbn [orb]. destruct (tmo + PING_RECONNECT_PLUS <=? up - lr) eqn:E.
  - apply Z.leb_le in E. split; [discriminate|]. split; auto.
  - apply Z.leb_gt in E. split; [discriminate|]. split; [discriminate|lia].
Qed.

Record KInv (T : Z) (s : kst) : Prop := {
  ki_bad : k_bad s = false;
  ki_time : k_lt s <= k_cur s <= k_lt s + 2;
  ki_nonneg : 0 <= k_ls s /\ 0 <= k_lr s;
  ki_le : k_ls s <= k_cur s /\ k_lr s <= k_cur s;
  ki_hi : k_cur s < 4294967296;
  ki_pr_none : k_pr s = None -> k_lt s - k_lr s <= T - 3;
  ki_pr_some : forall u0, k_pr s = Some u0 -> u0 - k_lr s <= T - 1 /\ u0 <= k_lt s <= u0 + 1;
  ki_ps_none : k_ps s = None -> k_lt s - k_ls s <= T - 3;
  ki_ps_some : forall u0, k_ps s = Some u0 -> u0 - k_ls s <= T - 1 /\ k_lt s = u0 /\ k_cur s <= u0 + 1
}.

Lemma kinit_inv T u0 ls0 : KA_MIN <= T -> 0 <= ls0 <= u0 -> u0 < 4294967296 -> u0 - ls0 <= T - 3 -> KInv T (kinit u0 ls0).
Proof. intros. constructor; cbn; try lia; try (intros; discriminate). Qed.

Lemma kstep_inv T s e : KA_MIN <= T <= 4294966000 -> KInv T s -> kenv_ok T s e = true -> KInv T (kstep T s e).
Proof.
  intros HT [Ib It [In1 In2] [Il1 Il2] Ih Ipn Ips Isn Iss] He.
  destruct c05_ok as [Km Kp _ _].
  unfold kenv_ok, kder_ok, kext_ok in He. repeat rewrite andb_true_iff in He. destruct He as [[[E1 E2] E3] [E4 E5]].
  apply Z.leb_le in E1. apply Z.ltb_lt in E2. apply Z.leb_le in E3.
  destruct e as [u slot|u|u]; cbn [ktime] in *.
  - (* Tick *)
    repeat rewrite andb_true_iff in E5. destruct E5 as [[E5 E6] E7].
    assert (B2 : u - k_lr s <= T /\ (k_pr s = None -> u - k_lr s <= T - 1)).
    { destruct (k_pr s) as [u0|] eqn:P.
      - apply Z.leb_le in E6. destruct (Ips u0 eq_refl). split; [lia|intros; discriminate].
      - pose proof (Ipn eq_refl). split; intros; lia. }
    assert (B1 : u - k_ls s <= T - 1).
    { destruct (k_ps s) as [u0|] eqn:P.
      - apply Z.leb_le in E5. destruct (Iss u0 eq_refl) as [? [? ?]]. lia.
      - pose proof (Isn eq_refl). lia. }
    destruct B2 as [B2 B2'].
    cbn [kstep]. rewrite (t1_decide_spec u (k_ls s) (k_lr s) T) by lia.
    destruct (((T - PING_WINDOW_MINUS <=? u - k_ls s) && (u - k_ls s <=? T)) || ((T - PING_WINDOW_MINUS <=? u - k_lr s) && (u - k_lr s <=? T))) eqn:W.
    + destruct slot.
      * constructor; cbn; try lia; auto.
        -- destruct (k_pr s); discriminate.
        -- intros u0 H. destruct (k_pr s) as [v|] eqn:P.
           ++ inversion H; subst v. apply Z.leb_le in E6. destruct (Ips u0 eq_refl). lia.
           ++ inversion H; subst u0. pose proof (B2' eq_refl). lia.
        -- destruct (k_ps s); discriminate.
        -- intros u0 H. destruct (k_ps s) as [v|] eqn:P.
           ++ inversion H; subst v. apply Z.leb_le in E5. destruct (Iss u0 eq_refl) as [? [? ?]]. lia.
           ++ inversion H; subst u0. lia.
      * (* no slot: by H_slot both idle times are below T - 2 *)
        assert (HS : u - k_ls s <= T - 3 /\ u - k_lr s <= T - 3).
        { destruct ((T - 2 <=? u - k_ls s) || (T - 2 <=? u - k_lr s)) eqn:S; [discriminate|].
          apply orb_false_iff in S. destruct S as [S1 S2]. apply Z.leb_gt in S1, S2. lia. }
        constructor; cbn; try lia; auto.
        -- intros u0 H. apply Z.ltb_lt in E2. destruct (Ips u0 H). rewrite H in E6. apply Z.leb_le in E6. lia.
        -- intros u0 H. destruct (Iss u0 H) as [? [? ?]]. rewrite H in E5. apply Z.leb_le in E5. lia.
    + (* outside both windows: the idle times are below T - MINUS <= T - 2 *)
      assert (HS : u - k_ls s <= T - 3 /\ u - k_lr s <= T - 3).
      { apply orb_false_iff in W. destruct W as [W1 W2]. apply andb_false_iff in W1, W2.
        split.
        - destruct W1 as [W1|W1]; [apply Z.leb_gt in W1|apply Z.leb_gt in W1]; lia.
        - destruct W2 as [W2|W2]; [apply Z.leb_gt in W2|apply Z.leb_gt in W2]; lia. }
      constructor; cbn; try lia; auto.
      * intros u0 H. destruct (Ips u0 H). rewrite H in E6. apply Z.leb_le in E6. lia.
      * intros u0 H. destruct (Iss u0 H) as [? [? ?]]. rewrite H in E5. apply Z.leb_le in E5. lia.
  - (* Sent *)
    constructor; cbn; try lia; auto; try (intros; discriminate).
  - (* Resp *)
    constructor; cbn; try lia; auto; try (intros; discriminate).
    intros u0 H. destruct (Iss u0 H) as [? [? ?]]. rewrite H in E4. apply Z.leb_le in E4. lia.
Qed.

Lemma krun_inv T l : forall s, KA_MIN <= T <= 4294966000 -> KInv T s -> kenv_run T s l = true -> KInv T (krun T s l).
Proof.
  induction l as [|e r IH]; intros s HT HI HE; cbn [krun]; auto.
  cbn [kenv_run] in HE. apply andb_true_iff in HE. destruct HE as [H1 H2]. apply IH; auto. apply kstep_inv; auto.
Qed.

(* what the invariant gives in every state of an environment-conforming run: for EVERY granted timeout T >= 10 ... *)
Lemma KInv_bounds_wide T s : KA_MIN <= T <= 4294966000 -> KInv T s ->
  k_bad s = false /\ k_cur s - k_ls s <= T /\ k_cur s - k_lr s <= T + 2 /\ k_lt s - k_lr s <= T.
Proof.
  intros HT [Ib It [In1 In2] [Il1 Il2] Ih Ipn Ips Isn Iss]. split; [auto|].
  assert (B1 : k_cur s - k_ls s <= T).
  { destruct (k_ps s) as [u0|] eqn:P; [destruct (Iss u0 eq_refl) as [? [? ?]]; lia|pose proof (Isn eq_refl); lia]. }
  assert (B2 : k_lt s - k_lr s <= T).
  { destruct (k_pr s) as [u0|] eqn:P; [destruct (Ips u0 eq_refl); lia|pose proof (Ipn eq_refl); lia]. }
  split; [auto|]. split; [lia|auto].
Qed.
(* ... and while T + 2 s of silence is below both watchdog thresholds (T <= 58 on this tree) the watchdog stays inert as well *)
Notation KA_WD_MAX := (Z.min WATCHDOG_TIMEOUT_S (WATCHDOG_SOFT_TIMEOUT_S - 1) - 2).
Lemma KA_WD_MAX_val : KA_WD_MAX = 58. Proof. reflexivity. Qed.
Lemma KInv_bounds T s : KA_MIN <= T <= KA_WD_MAX -> KInv T s ->
  k_bad s = false /\ k_cur s - k_ls s <= T /\ k_cur s - k_lr s <= T + 2 /\
  (forall up nw, k_lr s <= up -> up <= k_lt s + 2 -> up < 4294967296 -> wd_decide up (k_lr s) T nw = WD_none).
Proof.
  intros HT KI. destruct c05_ok as [_ _ Kw Ks]. destruct (KInv_bounds_wide T s ltac:(lia) KI) as [B0 [B1 [B2 B3]]].
  split; auto. split; auto. split; auto.
  intros up nw H1 H2 H3. unfold wd_decide.
  destruct (k_lr s <? up) eqn:E; [|reflexivity].
  rewrite (u32_small (up - k_lr s)) by lia.
  replace (WATCHDOG_TIMEOUT_S <? up - k_lr s) with false by (symmetry; apply Z.ltb_ge; lia).
  replace (WATCHDOG_SOFT_TIMEOUT_S <=? up - k_lr s) with false by (symmetry; apply Z.leb_gt; lia). reflexivity.
Qed.

Theorem C05_keepalive_thm T u0 ls0 l : KA_MIN <= T <= KA_WD_MAX -> 0 <= ls0 <= u0 -> u0 < 4294967296 -> u0 - ls0 <= T - 3 ->
  kenv_run T (kinit u0 ls0) l = true ->
  let s := krun T (kinit u0 ls0) l in
  k_bad s = false /\ k_cur s - k_ls s <= T /\ k_cur s - k_lr s <= T + 2 /\
  (forall up nw, k_lr s <= up -> up <= k_lt s + 2 -> up < 4294967296 -> wd_decide up (k_lr s) T nw = WD_none).
Proof.
  intros HT H0 H1 H2 HE s. destruct c05_ok as [_ _ Kw Ks]. apply KInv_bounds; auto. apply krun_inv; auto; [lia|]. apply kinit_inv; lia.
Qed.
(* every timeout the server may grant (the protocol allows 10..240; the device applies no clamp of its own) *)
Theorem C05_keepalive_wide_thm T u0 ls0 l : KA_MIN <= T <= 4294966000 -> 0 <= ls0 <= u0 -> u0 < 4294967296 -> u0 - ls0 <= T - 3 ->
  kenv_run T (kinit u0 ls0) l = true ->
  let s := krun T (kinit u0 ls0) l in
  k_bad s = false /\ k_cur s - k_ls s <= T /\ k_cur s - k_lr s <= T + 2.
Proof.
  intros HT H0 H1 H2 HE s. destruct (KInv_bounds_wide T s HT) as [A [B [C _]]]; auto. apply krun_inv; auto. apply kinit_inv; lia.
Qed.

(* the hypotheses are satisfiable, and pings do happen: T = 10, a tick every second, answers and transmissions in the same second *)
Fixpoint ka_trace (n : nat) (u : Z) : list kev :=
  match n with O => [] | S k => Tick u true :: (if (u mod 5 =? 0) then [Sent u; Resp u] else []) ++ ka_trace k (u + 1) end.
Lemma ka_example : kenv_run 10 (kinit 100 100) (ka_trace 40 101) = true /\
  k_ls (krun 10 (kinit 100 100) (ka_trace 40 101)) = 140 /\ k_bad (krun 10 (kinit 100 100) (ka_trace 40 101)) = false.
Proof. vm_compute. repeat split. Qed.
(* H_slot is needed: with no free slot at the six ticks of the window (and a server that has no ping to answer) the device reconnects *)
Fixpoint noslot_trace (n : nat) (u : Z) : list kev :=
  match n with O => [] | S k => Tick u false :: Sent u :: noslot_trace k (u + 1) end.
Lemma noslot_refuted : k_bad (krun 10 (kinit 100 100) (noslot_trace 25 101)) = true.
Proof. vm_compute. reflexivity. Qed.

(* ---------- tightness of the two bounds, on the full automaton ---------- *)
(* boot offset 999999 us puts every 1 s timer tick 1 us before a boundary of the uptime second; the register result
   (timeout tmo) is received 1000001 us after start-up, 1 us after such a boundary; then the server is silent. *)
Definition tight_run (tmo dt : Z) : list wire :=
  rev (outs (run_from (boot_device 999999 0 ESP_ARG (zeros (REG_BASE_SIZE + REG_CHANNEL_SIZE)) [] true false)
       [Adv 300000; Wifi STATION_GOT_IP_; Adv 300000; ConnCb; Adv 400001; Recv (regok_frame tmo); Adv dt])).
Definition after (t : Z) (k : Z) (w : wire) : bool := match w with (k', a, _) => (k' =? k) && (t <? nthz a 0) end.
(* tmo = 10: closed and reconnecting 20.999999 s after the last message (bound 10 + 11 s), not earlier *)
Lemma tight_reconnect :
  filter (after 1000001 O_DISCONNECT) (tight_run 10 25000000) = [mk O_DISCONNECT [22000000] []] /\
  filter (after 1000001 O_WIFISTART) (tight_run 10 25000000) = [mk O_WIFISTART [22000000] []] /\
  filter (after 0 O_RESTART) (tight_run 10 25000000) = [].
Proof. vm_compute. repeat split. Qed.
(* tmo = 120 (no reconnect before the watchdog): restart 61.999999 s after the last message (bound 62 s) *)
Lemma tight_restart :
  filter (after 0 O_RESTART) (tight_run 120 65000000) = [mk O_RESTART [63000000] []] /\
  filter (after 1000001 O_DISCONNECT) (tight_run 120 65000000) = [].
Proof. vm_compute. repeat split. Qed.
