(* C03 — Mis-sized or out-of-range server messages are ignored without side effects.
   Property theorems only: each is closed by `exact` of a lemma proved in C03/Proofs.v.
   Model: C03/Model.v.  `SRPC_ROWS`, `DISPATCH_*` and every constant are regenerated from /repo on each run. *)
From Coq Require Import List ZArith.
Import ListNotations.
From V Require Import Base.Bytes Gen.SrpcTable Gen.C03Consts C03.Model C03.Proofs.
Local Open Scope Z_scope.

(* Size gate, for every row of the generated table, every payload and every content of the scratch packet:
   srpc_getdata answers TRUE only if the payload length is one of the fixed sizes of that call, or
   header + declared*item with 0 <= declared <= max (declared read from the payload itself), or the call carries no
   data; and it copies at most `alloc` bytes (never more than the payload) into an allocation of `alloc` bytes.
   TARGET_BITS = 32 is the width of size_t on the device. *)
Theorem C03_size_gate : forall id payload scratch n a,
  bytes_ok payload -> bytes_ok scratch ->
  getdata TARGET_BITS SRPC_ROWS id (len payload) (scratch_after scratch payload) = VTrue n a ->
  exists r, lookup SRPC_ROWS id = Some r /\ size_matches r payload /\ 0 <= n <= a /\ n <= len payload.
Proof. exact C03_size_gate_thm. Qed.
Print Assumptions C03_size_gate.

(* the same on a 64-bit size_t, and both widths give the same verdict (the correspondence check runs on a 64-bit host) *)
Theorem C03_gate_width_irrelevant : forall id payload scratch,
  bytes_ok payload -> bytes_ok scratch ->
  getdata 32 SRPC_ROWS id (len payload) (scratch_after scratch payload)
  = getdata 64 SRPC_ROWS id (len payload) (scratch_after scratch payload).
Proof. exact C03_gate_width_irrelevant_thm. Qed.
Print Assumptions C03_gate_width_irrelevant.

(* unknown call id, or a length that does not match: no handler runs, the result is DATA_ERROR
   (FALSE only through the zero-count early return of SUPLA_DCS_CALL_GET_USER_LOCALTIME_RESULT) *)
Theorem C03_unknown_or_missized_no_handler : forall devcfg id payload scratch,
  bytes_ok payload -> bytes_ok scratch ->
  (lookup SRPC_ROWS id = None \/ exists r, lookup SRPC_ROWS id = Some r /\ ~ size_matches r payload) ->
  reaches_handler devcfg id payload scratch = false /\
  (getdata TARGET_BITS SRPC_ROWS id (len payload) (scratch_after scratch payload) = VDataError \/
   getdata TARGET_BITS SRPC_ROWS id (len payload) (scratch_after scratch payload) = VFalse).
Proof. exact C03_unknown_or_missized_no_handler_thm. Qed.
Print Assumptions C03_unknown_or_missized_no_handler.

(* ... and then nothing is written at all *)
Theorem C03_rejected_writes_nothing : forall fixed b id payload scratch,
  reaches_handler (b_devcfg b) id payload scratch = false -> may_write fixed b id payload scratch = [].
Proof. exact C03_rejected_writes_nothing_thm. Qed.
Print Assumptions C03_rejected_writes_nothing.

(* conversely a correctly sized message is accepted *)
Theorem C03_size_gate_complete : forall id payload scratch r,
  bytes_ok payload -> bytes_ok scratch ->
  lookup SRPC_ROWS id = Some r -> size_matches r payload ->
  (forall alloc sizeT hdr item max f fs, r = RVar alloc sizeT hdr item max true (f :: fs) -> fval payload f <> 0) ->
  exists n a, getdata TARGET_BITS SRPC_ROWS id (len payload) (scratch_after scratch payload) = VTrue n a.
Proof. exact C03_size_gate_complete_thm. Qed.
Print Assumptions C03_size_gate_complete.

(* Frame: on every well-formed board, for every call id and every field value, each cell a delivered message may write
   is device-level or belongs to the channel the message names (messages naming no channel write none of the tables). *)
Theorem C03_frame : forall b id payload scratch cl,
  wf_board b -> bytes_ok payload ->
  In cl (may_write CURRENT_FIXED b id payload scratch) ->
  exists c, named_channel id payload = Some c /\ owns b c cl.
Proof. exact C03_frame_thm. Qed.
Print Assumptions C03_frame.

(* a cell owned by channel c is owned by no other channel *)
Theorem C03_owns_exclusive : forall b c c' t i,
  wf_board b -> t <> T_GLOBAL -> 0 <= i -> owns b c (t, i) -> owns b c' (t, i) -> c = c'.
Proof. exact C03_owns_exclusive_thm. Qed.
Print Assumptions C03_owns_exclusive.

(* if no relay or shutter carries the named channel, no output pin is in the may-write set *)
Theorem C03_no_object_no_output : forall b id payload scratch c pin,
  wf_board b -> bytes_ok payload -> named_channel id payload = Some c -> no_object b c ->
  ~ In (T_GPIO, pin) (may_write CURRENT_FIXED b id payload scratch).
Proof. exact C03_no_object_no_output_thm. Qed.
Print Assumptions C03_no_object_no_output.

(* every index is inside its table: channel numbers 0..255, any sizes, enums, durations *)
Theorem C03_in_bounds : forall b id payload scratch t i,
  wf_board b -> bytes_ok payload ->
  In (t, i) (may_write CURRENT_FIXED b id payload scratch) -> 0 <= i < tsize t.
Proof. exact C03_in_bounds_thm. Qed.
Print Assumptions C03_in_bounds.

(* Countdown-timer maintenance.  A message whose handler arms a countdown (relay path of set-value, relay-function
   channel config) also evaluates every running slot (supla_esp_countdown_timer_cb).  Beyond C03_frame, such a message
   may therefore touch, for a channel y whose slot an EARLIER message armed (C03_armed_named: only a dispatched message
   naming y arms y's slot), exactly y's remaining time, y's relay pin(s) and y's saved relay state, all inside the tables;
   messages that arm nothing (shutter path, calcfg, config of shutters, mis-sized, unknown) add nothing. *)
Theorem C03_timer_maintenance : forall b armed id payload scratch cl,
  wf_board b -> In cl (timer_mw b armed id payload scratch) ->
  evaluates_timers b id payload = true /\
  exists y, In y armed /\ owns b y cl /\ timer_table (fst cl) = true /\ 0 <= snd cl < tsize (fst cl).
Proof. exact C03_timer_maintenance_thm. Qed.
Print Assumptions C03_timer_maintenance.

Theorem C03_armed_named : forall b armed id payload scratch y,
  In y (armed_after b armed id payload scratch) -> In y armed \/ named_channel id payload = Some y.
Proof. exact C03_armed_named_thm. Qed.
Print Assumptions C03_armed_named.

(* all indices of the complete write set (own effects ++ timer maintenance) are inside their tables *)
Theorem C03_in_bounds_all : forall b armed id payload scratch t i,
  wf_board b -> bytes_ok payload ->
  In (t, i) (may_write_t CURRENT_FIXED b armed id payload scratch) -> 0 <= i < tsize t.
Proof. exact C03_in_bounds_t_thm. Qed.
Print Assumptions C03_in_bounds_all.

(* REGISTER_DEVICE_RESULT with any (unknown) 32-bit result_code: the formatted state text stays inside its heap block
   (allocation size and snprintf bound are read from the default branch of supla_esp_on_register_result on every run) *)
Theorem C03_register_unknown_in_bounds : forall needed, 0 <= needed ->
  0 <= reg_unknown_written needed <= REG_UNKNOWN_ALLOC.
Proof. exact C03_register_unknown_in_bounds_thm. Qed.
Print Assumptions C03_register_unknown_in_bounds.

(* reads by channel position after CHANNEL_CONFIG_FINISHED (supla_esp_set_channel_config) are inside the tables *)
Theorem C03_config_finished_reads_in_bounds : forall i, 0 <= i < CHANNEL_MAX ->
  i < N_TIME1 /\ i < N_TIME2 /\ i < N_TIME3 /\ i < N_TIME_MARGIN /\ i < N_TILT_TYPE /\ i < MOTOR_UD_BITS /\
  i < N_CHFUNC /\ i < N_VISTYPE /\ i < N_RUNTIMECFG.
Proof. exact C03_config_finished_reads_in_bounds_thm. Qed.
Print Assumptions C03_config_finished_reads_in_bounds.

(* ACTIONTRIGGER channel config: the active triggers of the inputs of the named channel are the requested actions masked by what
   each input offers (nothing for an input without the capability); inputs of other channels keep theirs *)
Theorem C03_action_triggers_within_capability : forall cap req,
  Z.land (at_active cap req) cap = at_active cap req /\ (cap = 0 -> at_active cap req = 0).
Proof. exact C03_action_triggers_within_capability_thm. Qed.
Print Assumptions C03_action_triggers_within_capability.

Theorem C03_action_triggers_frame : forall b act id p scratch i,
  len act = INPUT_MAX -> 0 <= i < INPUT_MAX ->
  i_channel (input_at b i) <> nthz p CC_CHANNEL ->
  nth (Z.to_nat i) (active_after b act id p scratch) 0 = nth (Z.to_nat i) act 0.
Proof. exact C03_action_triggers_frame_thm. Qed.
Print Assumptions C03_action_triggers_frame.

(* the code before docs/fixes/C03_rs_config_guards.diff violates both clauses *)
Theorem C03_old_code_refuted :
  (wf_board board_4rs /\ bytes_ok (rs_config_msg 3 FNC_RS 2) /\
   In (T_INPUT, 7) (may_write false board_4rs CALL_GET_CONFIG_RESULT (rs_config_msg 3 FNC_RS 2) []) /\ tsize T_INPUT = 7 /\
   ~ In (T_INPUT, 7) (may_write true board_4rs CALL_GET_CONFIG_RESULT (rs_config_msg 3 FNC_RS 2) [])) /\
  (wf_board board_2relays /\ named_channel CALL_GET_CONFIG_RESULT (rs_config_msg 0 FNC_RS 2) = Some 0 /\
   In (T_INPUT, 1) (may_write false board_2relays CALL_GET_CONFIG_RESULT (rs_config_msg 0 FNC_RS 2) []) /\
   ~ owns board_2relays 0 (T_INPUT, 1) /\
   forall i, ~ In (T_INPUT, i) (may_write true board_2relays CALL_GET_CONFIG_RESULT (rs_config_msg 0 FNC_RS 2) [])).
Proof. exact C03_old_code_refuted_thm. Qed.
Print Assumptions C03_old_code_refuted.

(* non-vacuity: the hypotheses are satisfiable and the sets are not trivially empty *)
Example C03_nonvacuous :
  wf_board board_4rs /\ wf_board board_2relays /\
  (* a set-value for channel 1 of the shutter board is dispatched and may write shutter 1 and its two pins only *)
  (let p := [7;0;0;0; 1; 0;0;0;0; 1;0;0;0;0;0;0;0] in
   reaches_handler true CALL_SET_VALUE p [] = true /\
   In (T_GPIO, 2) (may_write true board_4rs CALL_SET_VALUE p []) /\ In (T_RS, 1) (may_write true board_4rs CALL_SET_VALUE p []) /\
   ~ In (T_GPIO, 0) (may_write true board_4rs CALL_SET_VALUE p [])) /\
  (* one byte short / one byte long: DATA_ERROR, nothing written *)
  getdata TARGET_BITS SRPC_ROWS CALL_SET_VALUE 16 (zeros 16) = VDataError /\
  getdata TARGET_BITS SRPC_ROWS CALL_SET_VALUE 18 (zeros 18) = VDataError /\
  may_write true board_4rs CALL_SET_VALUE (zeros 16) [] = [] /\
  (* a variable-size call: header 21, DataSize 3 -> 24 bytes accepted, 25 rejected, DataSize 129 > max rejected *)
  getdata TARGET_BITS SRPC_ROWS CALL_CALCFG 24 (zeros CAL_DATASIZE ++ [3;0;0;0] ++ zeros 3) = VTrue 24 149 /\
  getdata TARGET_BITS SRPC_ROWS CALL_CALCFG 25 (zeros CAL_DATASIZE ++ [3;0;0;0] ++ zeros 4) = VDataError /\
  getdata TARGET_BITS SRPC_ROWS CALL_CALCFG 150 (zeros CAL_DATASIZE ++ [129;0;0;0] ++ zeros 129) = VDataError /\
  (* unknown call id *)
  getdata TARGET_BITS SRPC_ROWS 111 0 [] = VDataError /\
  (* the repaired channel-config path on channel 3 of the four-shutter board stays inside the tables *)
  In (T_TIME_MARGIN, 3) (may_write true board_4rs CALL_GET_CONFIG_RESULT (rs_config_msg 3 FNC_RS 2) []).
Proof. split; [exact board_4rs_wf|]. split; [exact board_2relays_wf|]. vm_compute. intuition discriminate. Qed.
Print Assumptions C03_nonvacuous.
