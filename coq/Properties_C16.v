(* C16 — placeholder while the proofs are being written *)
From Coq Require Import List ZArith.
Import ListNotations.
From V Require Import Base.Bytes Gen.MqttConsts C16.Model.
Local Open Scope Z_scope.
Example C16_smoke : rx_of (run FIXED [Start 105; Seg [32;2;0;0]; Seg [48;7;0;3;116;47]; Seg [49;111;110]]) =
  [RxMsg 0 0 0 4 3 7 2 [116;47;49;111;110]].
Proof. vm_compute. reflexivity. Qed.
Print Assumptions C16_smoke.
