(* C16 — MQTT receive: exact delivery under any segmentation, no out-of-bounds on bad packets.
   Property theorems only: each is closed by `exact` of a lemma proved in C16/Proofs.v.
   The model (C16/Model.v) follows the code after the repairs docs/fixes/C16_{recv_offset,publish_lengths,
   pingresp_length}.diff; `run FIXED` / `run_from FIXED` is that code, the last theorem shows what the
   unrepaired code does.  `ready s` = a session state between two events: no protocol error so far, the receive
   buffer holds an incomplete packet (or nothing).  `parse_stream q bytes` = the chunk-free stream parser (the packet
   loop applied to the whole byte stream at once).  `d_tight = false` = the send queue never had to be compacted
   while these bytes were handled (it has room for the acknowledgements).  `ledger q q' o` = nothing is left unsent in q',
   q' is q (same types, ids, sent bits) plus new entries, and the packets sent in o are exactly the new entries that were
   sent, in queue order. *)
From Coq Require Import List ZArith.
Import ListNotations.
From V Require Import Base.Bytes Gen.MqttConsts C16.Model C16.Proofs.
Local Open Scope Z_scope.

(* Any segmentation (splitting and coalescing, segments longer than the buffer included) of a byte stream produces
   the callbacks, protocol errors and reconnects of the chunk-free parser on the unsegmented stream, and the same queue. *)
Theorem C16_refines_stream_parser : forall segs s q0,
  ready s -> Forall bytes_ok segs -> qeq (mq s) q0 ->
  let d := parse_stream q0 (buf s ++ concat segs) in
  d_tight d = false ->
  let r := run_from FIXED s (map Seg segs) in
  rx_of (snd r) = rx_of (d_out d) ++ rx_of_stop (d_stop d) /\ qeq (mq (fst r)) (d_q d) /\
  (d_stop d = Wait -> ready (fst r) /\ buf (fst r) = d_rest d) /\ (d_stop d <> Wait -> halted (fst r) = true) /\
  (all_sent (mq s) -> halted (fst r) = false -> ledger (mq s) (mq (fst r)) (snd r)).
Proof. exact C16_refines_thm. Qed.
Print Assumptions C16_refines_stream_parser.

Theorem C16_segmentation_independent : forall s segs1 segs2,
  ready s -> Forall bytes_ok segs1 -> Forall bytes_ok segs2 -> concat segs1 = concat segs2 ->
  d_tight (parse_stream (mq s) (buf s ++ concat segs1)) = false ->
  let r1 := run_from FIXED s (map Seg segs1) in let r2 := run_from FIXED s (map Seg segs2) in
  rx_of (snd r1) = rx_of (snd r2) /\ qeq (mq (fst r1)) (mq (fst r2)) /\ halted (fst r1) = halted (fst r2) /\
  (halted (fst r1) = false -> buf (fst r1) = buf (fst r2)).
Proof. exact C16_segmentation_independent_thm. Qed.
Print Assumptions C16_segmentation_independent.

(* A well-formed PUBLISH (QoS 0/1/2, any topic and payload that fit the buffer) arriving at a packet boundary, cut
   into segments in any way, is passed to the handler exactly once with exactly its topic and payload; the
   acknowledgement (PUBACK / PUBREC with its packet id) is queued; the session goes on. *)
Theorem C16_exact_delivery : forall s segs dup qos retain pid topic payload,
  ready s -> buf s = [] -> Forall bytes_ok segs ->
  wf_publish dup qos retain pid topic payload -> accepts (mq s) qos pid ->
  concat segs = enc_publish dup qos retain pid topic payload ->
  let toff := pub_toff qos topic payload in
  let poff := toff + len topic + (if 0 <? qos then 2 else 0) in
  let r := run_from FIXED s (map Seg segs) in
  rx_of (snd r) = [RxMsg dup qos retain toff (len topic) poff (len payload) (topic ++ payload)] /\
  ready (fst r) /\ buf (fst r) = [] /\ qeq (mq (fst r)) (mq s ++ ack_entry qos pid).
Proof. exact C16_exact_delivery_thm. Qed.
Print Assumptions C16_exact_delivery.

(* ... and exactly its acknowledgement goes to the wire: nothing for QoS 0, PUBACK resp. PUBREC with the packet id of the
   PUBLISH for QoS 1 / 2 (`sents` = the packets handed to espconn_sent during the run; `all_sent` = nothing was waiting in
   the queue before). *)
Theorem C16_exact_delivery_acked : forall s segs dup qos retain pid topic payload,
  ready s -> buf s = [] -> Forall bytes_ok segs -> all_sent (mq s) ->
  wf_publish dup qos retain pid topic payload -> accepts (mq s) qos pid ->
  concat segs = enc_publish dup qos retain pid topic payload ->
  sents (snd (run_from FIXED s (map Seg segs))) = map sent_out (ack_entry qos pid).
Proof. exact C16_exact_delivery_acked_thm. Qed.
Print Assumptions C16_exact_delivery_acked.

(* The same inside a longer stream (packets coalesced): the PUBLISH at the head is delivered and parsing goes on
   with the rest and the acknowledgement in the queue. *)
Theorem C16_exact_delivery_stream : forall q dup qos retain pid topic payload rest,
  wf_publish dup qos retain pid topic payload -> bytes_ok rest -> accepts q qos pid ->
  let toff := pub_toff qos topic payload in
  let poff := toff + len topic + (if 0 <? qos then 2 else 0) in
  let d := parse_stream q (enc_publish dup qos retain pid topic payload ++ rest) in
  let d' := parse_stream (q ++ ack_entry qos pid) rest in
  rx_of (d_out d) = RxMsg dup qos retain toff (len topic) poff (len payload) (topic ++ payload) :: rx_of (d_out d') /\
  d_q d = d_q d' /\ d_rest d = d_rest d' /\ d_stop d = d_stop d' /\ d_tight d = d_tight d'.
Proof. exact C16_exact_delivery_stream_thm. Qed.
Print Assumptions C16_exact_delivery_stream.

(* Every unsent message of the queue (the acknowledgements queued while receiving) goes to the wire at the end of
   the same mqtt_sync, with its own packet id. *)
Theorem C16_acks_sent : forall s, halted (fst (sync FIXED s)) = false ->
  let d := drain (S (length (buf s))) FIXED (mq s) (buf s) in
  snd (sync FIXED s) = d_out d ++ map sent_out (filter unsent (d_q d)) /\
  forallb (fun e => negb (unsent e)) (mq (fst (sync FIXED s))) = true.
Proof. exact C16_acks_sent_thm. Qed.
Print Assumptions C16_acks_sent.

(* A complete malformed packet at a packet boundary (reserved type, type a broker never sends, wrong flags, QoS 3,
   impossible lengths), cut into segments in any way: protocol error and reconnect, no callback, session over. *)
Theorem C16_malformed_errors : forall s segs ct fl body rest,
  ready s -> buf s = [] -> Forall bytes_ok segs ->
  0 <= ct < 16 -> 0 <= fl < 16 -> bytes_ok body ->
  1 + len (enc_rl (len body)) + len body <= RECVBUF -> malformedb ct fl body = true ->
  concat segs = (ct * 16 + fl) :: enc_rl (len body) ++ body ++ rest ->
  let r := run_from FIXED s (map Seg segs) in
  (exists e, rx_of (snd r) = [RxErr e; RxReconnect]) /\ halted (fst r) = true.
Proof. exact C16_malformed_errors_thm. Qed.
Print Assumptions C16_malformed_errors.

Theorem C16_long_length_errors : forall q b0 x1 x2 x3 x4 rest,
  128 <= x1 -> 128 <= x2 -> 128 <= x3 -> 128 <= x4 ->
  let d := parse_stream q (b0 :: x1 :: x2 :: x3 :: x4 :: rest) in
  d_out d = [] /\ d_stop d = Failed E_INVALID_REMAINING_LENGTH /\ d_q d = q.
Proof. exact C16_long_length_thm. Qed.
Print Assumptions C16_long_length_errors.

(* acknowledgement of something never sent *)
Theorem C16_unknown_ack_errors : forall q r, outstanding q r = false -> handle r q = (q, false, Some E_ACK_OF_UNKNOWN, false).
Proof. exact C16_unknown_ack_thm. Qed.
Print Assumptions C16_unknown_ack_errors.

(* For every history of events (segments of any size and content, ticks, device requests): every callback gets
   slices inside the bytes received so far (inside the receive buffer), with the lengths it announces; there is no
   access outside the buffer (no Fault). *)
Theorem C16_slices_inside_received_and_safe : forall evs, Forall ev_ok evs -> Forall out_ok (run FIXED evs).
Proof. exact C16_safe_thm. Qed.
Print Assumptions C16_slices_inside_received_and_safe.

(* Acknowledgement of a QoS 1 PUBLISH the device sent (event `Pub pid sz`, real mqtt_publish): the PUBACK with its packet
   id is consumed silently, the PUBLISH is marked complete, parsing goes on; (a PUBACK for an id never sent is
   C16_unknown_ack_errors). *)
Theorem C16_puback_of_device_publish : forall q pid rest,
  0 <= pid < 65536 -> bytes_ok rest -> existsb (matches CT_PUBLISH (Some pid)) q = true ->
  exists q', ack_first (matches CT_PUBLISH (Some pid)) q = Some q' /\
    let d := parse_stream q (64 :: 2 :: pid / 256 :: pid mod 256 :: rest) in
    let d' := parse_stream q' rest in
    d_out d = d_out d' /\ d_q d = d_q d' /\ d_rest d = d_rest d' /\ d_stop d = d_stop d' /\ d_tight d = d_tight d'.
Proof. exact C16_puback_accepted_thm. Qed.
Print Assumptions C16_puback_of_device_publish.

(* The hypothesis `d_tight = false` of the segmentation theorems, discharged by arithmetic: if the send queue has room for
   k more acknowledgements (4 bytes + one queue record each) and the stream has at most 4k bytes (every packet that
   queues an acknowledgement is at least 4 bytes long), the queue is never compacted while these bytes are handled. *)
Theorem C16_room_no_compaction : forall q stream k,
  bytes_ok stream -> room q k -> 0 <= k -> len stream <= 4 * k -> d_tight (parse_stream q stream) = false.
Proof. exact C16_room_no_compaction_thm. Qed.
Print Assumptions C16_room_no_compaction.

Theorem C16_segmentation_independent_room : forall s segs1 segs2 k,
  ready s -> Forall bytes_ok segs1 -> Forall bytes_ok segs2 -> concat segs1 = concat segs2 ->
  room (mq s) k -> 0 <= k -> len (buf s ++ concat segs1) <= 4 * k ->
  let r1 := run_from FIXED s (map Seg segs1) in let r2 := run_from FIXED s (map Seg segs2) in
  rx_of (snd r1) = rx_of (snd r2) /\ qeq (mq (fst r1)) (mq (fst r2)) /\ halted (fst r1) = halted (fst r2) /\
  (halted (fst r1) = false -> buf (fst r1) = buf (fst r2)).
Proof. exact C16_segmentation_independent_room_thm. Qed.
Print Assumptions C16_segmentation_independent_room.

(* What a compaction is (the only thing `d_tight` flags): the acknowledgement did not fit, mqtt_mq_clean dropped the
   completed messages at the head of the queue and the acknowledgement was queued behind the rest, or the session ends
   with SEND_BUFFER_IS_FULL.  Which messages are "completed" depends on what has been sent so far, hence on the
   segmentation: after a compaction the duplicate detection (QoS 2 retransmission, repeated PUBREL/SUBACK) may differ
   between two segmentations of the same stream; memory safety and slices-inside (C16_slices_inside_received_and_safe)
   do not depend on it. *)
Theorem C16_compaction : forall ct pid sz q r, try_pack ct pid sz q = (r, true) ->
  currsz q < sz /\ ((r = Some (clean q ++ [new_entry ct pid sz]) /\ sz <= currsz (clean q)) \/ (r = None /\ currsz (clean q) < sz)).
Proof. exact C16_compaction_thm. Qed.
Print Assumptions C16_compaction.

(* Reconnect (event `Relink n`: after a protocol error, or when the link dies — real supla_esp_mqtt_reconnect with
   mqtt_reinit): whatever the old session left behind (a partial packet, a malformed packet, queued messages), the new
   session starts `ready` with an empty receive window and only its CONNECT in the queue — so every theorem above about a
   session holds for every session of a history. *)
Theorem C16_reconnect_starts_fresh : forall s n,
  let '(s', o) := step FIXED s (Relink n) in
  ready s' /\ buf s' = [] /\ all_sent (mq s') /\
  mq s' = [{| ect := CT_CONNECT; epid := 0; esz := n; esent := true; eacked := false |}] /\
  o = (if halted s then [] else [Reconnect]) ++ [Boot n; Sent CT_CONNECT []].
Proof. exact C16_reconnect_fresh_thm. Qed.
Print Assumptions C16_reconnect_starts_fresh.

(* the unrepaired code *)
Theorem C16_old_code_refuted :
  rx_of (run OLD_RECV w_split) = [RxErr E_CONTROL_INVALID_FLAGS; RxReconnect] /\
  rx_of (run FIXED w_split) = [RxMsg 0 0 0 4 33 37 1 (w_topic ++ [49])] /\
  rx_of (run OLD_PUBLEN w_toplen) = [RxMsg 0 0 0 4 1000 1004 4294966349 (repeat 65 53); RxFault] /\
  rx_of (run FIXED w_toplen) = [RxErr E_MALFORMED_RESPONSE; RxReconnect] /\
  rx_of (run OLD_PUBLEN w_qos3) = [RxMsg 0 3 0 4 1 7 1 [97; 120]] /\
  rx_of (run FIXED w_qos3) = [RxErr E_PUBLISH_FORBIDDEN_QOS; RxReconnect] /\
  rx_of (run OLD_PUBLEN w_short) = [RxErr E_MALFORMED_RESPONSE; RxReconnect] /\
  rx_of (run FIXED w_short) = [RxMsg 0 0 0 4 1 5 0 [97]] /\
  rx_of (run OLD_PINGLEN w_ping) = [RxMsg 0 0 0 4 1 5 1 [97; 98]] /\
  rx_of (run FIXED w_ping) = [RxErr E_MALFORMED_RESPONSE; RxReconnect].
Proof. exact C16_old_code_refuted_thm. Qed.
Print Assumptions C16_old_code_refuted.

(* non-vacuity: the state after session set-up and CONNACK is `ready` with an empty buffer and a queue that accepts
   acknowledgements; a QoS 1 PUBLISH cut into three segments is delivered and acknowledged on the wire *)
Example C16_nonvacuous :
  let s := fst (run_from FIXED (fst (boot FIXED 105)) [Seg [32;2;0;0]]) in
  let p := enc_publish 0 1 0 7 [116;47;49] [111;110] in
  buf s = [] /\ halted s = false /\ unpack FIXED (buf s) = UInc /\
  (4 <=? currsz (mq s)) = true /\
  d_tight (parse_stream (mq s) p) = false /\
  snd (run_from FIXED s [Seg (firstn 4 p); Seg (firstn 3 (skipn 4 p)); Seg (skipn 7 p)]) =
    [Msg 0 1 0 4 3 9 2 11 [116;47;49;111;110]; Sent 4 [64;2;0;7]] /\
  room (mq s) 80 /\
  (* a device PUBLISH QoS 1 (id 9) and its PUBACK *)
  snd (run_from FIXED s [Pub 9 10; Tick; Seg [64;2;0;9]; Seg [64;2;0;9]]) =
    [Queued CT_PUBLISH 9 10; Sent CT_PUBLISH []].
Proof. vm_compute. repeat split; try reflexivity; discriminate. Qed.
Print Assumptions C16_nonvacuous.
