(* C13 — Stored config round-trips; identity survives resets, migration, failed saves.
   Property theorems only: each is closed by `exact` of a lemma proved in C13/Proofs.v.
   Model (C13/Model.v): supla_esp_cfg_save, _supla_esp_save_state, factory_defaults, supla_esp_cfg_init, the commit block of
   supla_esp_recv_callback, on two byte-accurate flash sectors whose erase/write may return OK / ERR / TIMEOUT (any code) or
   lose power, driven by an arbitrary fault script (fields failc/failcode/crashc of the state: the theorems quantify over them).
   chk = true is the code with the proposed repair (result of the erase checked), chk = false the code as it is. *)
From Coq Require Import List ZArith.
Import ListNotations.
From V Require Import Base.Bytes Gen.C13Layout C13.Model C13.Proofs.
Local Open Scope Z_scope.

(* What the device saves is what it loads: for every accepted record and every state, after any number of
   save-config / save-state / restart cycles without faults, RAM and both sectors hold exactly the saved bytes. *)
Theorem C13_roundtrip : forall chk seeds s,
  quiet s -> valid_img (cfg s) -> len (sta s) = STATE_SIZE -> cells_ok (sta s) ->
  cfg (cycles chk seeds s) = cfg s /\ sta (cycles chk seeds s) = sta s /\
  (seeds <> [] -> take CFG_SIZE (fc (cycles chk seeds s)) = cfg s /\ take STATE_SIZE (fs (cycles chk seeds s)) = sta s).
Proof. exact C13_roundtrip_thm. Qed.
Print Assumptions C13_roundtrip.

(* The configuration page replaces the RAM configuration by the submitted one iff the save returned 1 (which, by
   save_sector, requires the write to return OK); with the repair the sector then holds exactly the submitted record. *)
Theorem C13_commit_only_on_success : forall chk image s, down s = false ->
  let '(s1, o, r) := do_post chk image s in
  (r = true -> cfg s1 = merge_undef (cfg s) image) /\ (r = false -> cfg s1 = cfg s) /\
  sta s1 = sta s /\ fs s1 = fs s /\
  (chk = true -> r = true -> fc s1 = band_list (fill SEC_SIZE 255) (merge_undef (cfg s) image) /\ down s1 = false).
Proof. exact C13_commit_thm. Qed.
Print Assumptions C13_commit_only_on_success.

(* factory_defaults keeps GUID, AuthKey (and TAG) under every fault script, and the reset record is what the device boots into. *)
Theorem C13_reset_keeps_identity : forall chk sv s, len (cfg s) = CFG_SIZE ->
  let '(s1, o) := factory chk sv s in
  cfg s1 = fd (cfg s) /\ sta s1 = fill STATE_SIZE 0 /\ kept (cfg s1) (cfg s) ID_FIELDS.
Proof. exact C13_reset_thm. Qed.
Print Assumptions C13_reset_keeps_identity.
Theorem C13_reset_survives_restart : forall chk r0 s, quiet s -> valid_img (cfg s) ->
  let '(s1, _) := factory chk 1 s in
  let '(s2, _, r) := do_init chk r0 s1 in
  cfg s2 = fd (cfg s) /\ kept (cfg s2) (cfg s) ID_FIELDS /\ sta s2 = fill STATE_SIZE 0 /\ r = 1.
Proof. exact C13_reset_reboot_thm. Qed.
Print Assumptions C13_reset_survives_restart.

(* Migration v6 -> v7 and v5A/v5B -> v6 -> v7, under every fault script of the boot (the RAM record does not depend on the
   migration's own saves): GUID, AuthKey, server, Wi-Fi, e-mail, the first two timing values (FIELDS6 / FIELDS5) are the bytes
   of the old record at the old offsets. *)
Theorem C13_migration_keeps_v6 : forall chk r0 s c, len (fc s) = SEC_SIZE -> take CFG_SIZE (fc s) = c ->
  slice c 0 5 = TAG5 -> nthz c 5 = 6 ->
  slice c O6_GUID GUID_SIZE <> zeroG -> slice c O6_AUTHKEY AUTHKEY_SIZE <> zeroK ->
  let '(s', o, r) := do_init chk r0 s in
  r = 1 /\ kept (cfg s') c FIELDS6 /\ slice (cfg s') O7_TAG TAG_SIZE = TAG7.
Proof. exact C13_migration_v6_thm. Qed.
Print Assumptions C13_migration_keeps_v6.
Theorem C13_migration_keeps_v5 : forall chk r0 s c a, len (fc s) = SEC_SIZE -> take CFG_SIZE (fc s) = c ->
  slice c 0 5 = TAG5 -> nthz c 5 = 5 -> isA c = Some a ->
  slice c O5B_GUID GUID_SIZE <> zeroG -> slice c (if a then O5A_AUTHKEY else O5B_AUTHKEY) AUTHKEY_SIZE <> zeroK ->
  let '(s', o, r) := do_init chk r0 s in
  r = 1 /\ kept (cfg s') c (FIELDS5 a) /\ slice (cfg s') O7_TAG TAG_SIZE = TAG7.
Proof. exact C13_migration_v5_thm. Qed.
Print Assumptions C13_migration_keeps_v5.
(* which v5 layout is assumed *)
Theorem C13_v5_layout_B : forall c, slice c O5B_AUTHKEY AUTHKEY_SIZE <> zeroK -> isA c <> None ->
  strchr (drop O5B_EMAIL c) 64 = Some true -> strchr (drop O5B_EMAIL c) 46 = Some true -> isA c = Some false.
Proof. exact isA_genuine_B. Qed.
Print Assumptions C13_v5_layout_B.
(* observations about the migrations that the property does not forbid (see the report) *)
Theorem C13_observation_v5_time2_lost : forall a c, len c = CFG_SIZE ->
  slice (mig67z (mig56 a c)) O7_TIME2 TIME2_BYTES = fill TIME2_BYTES 0 /\ slice (mig67z (mig56 a c)) O7_TRIGGER 1 = [0].
Proof. exact mig57_time2_lost. Qed.
Print Assumptions C13_observation_v5_time2_lost.
Theorem C13_observation_v6_uninitialised : forall c, len c = CFG_SIZE ->
  slice (mig67z c) V6_SIZE (O7_ZERO - V6_SIZE) = fill (O7_ZERO - V6_SIZE) UNDEF.
Proof. exact mig67z_undef. Qed.
Print Assumptions C13_observation_v6_uninitialised.

(* A blank / foreign sector, an unknown layout version, or a record (v7, v6, v5) whose GUID *or* AuthKey is all zero is never
   accepted: whatever the fault script, the boot ends with the factory-default record carrying the current TAG and an identity
   that is a function of the generator inputs only (fresh_img mentions nothing of the sector), and an all-zero state. *)
Theorem C13_reject_foreign : forall chk r0 s c, len (fc s) = SEC_SIZE -> take CFG_SIZE (fc s) = c -> rejected c ->
  let '(s', o, r) := do_init chk r0 s in
  cfg s' = fresh_img (en s) r0 /\ sta s' = fill STATE_SIZE 0.
Proof. exact C13_reject_thm. Qed.
Print Assumptions C13_reject_foreign.
Theorem C13_blank_is_rejected : rejected (take CFG_SIZE (fill SEC_SIZE 255)).
Proof. exact blank_rejected. Qed.
Print Assumptions C13_blank_is_rejected.

(* Repaired code, any sector (false = configuration, true = state), any failure code, any crash point: after a save the
   sector is the old one, erased, or exactly the new record; RAM and the other sector are untouched; success => new record. *)
Theorem C13_crash_atomicity : forall w img s, down s = false ->
  let '(s1, o, r) := save_sector true w img s in
  (sector w s1 = sector w s \/ sector w s1 = fill SEC_SIZE 255 \/ sector w s1 = band_list (fill SEC_SIZE 255) img) /\
  sector (negb w) s1 = sector (negb w) s /\ cfg s1 = cfg s /\ sta s1 = sta s /\
  (r = true -> sector w s1 = band_list (fill SEC_SIZE 255) img).
Proof. exact C13_atomicity_thm. Qed.
Print Assumptions C13_crash_atomicity.
Theorem C13_crash_atomicity_next_boot : forall img s r0, down s = false -> len (fc s) = SEC_SIZE ->
  valid_img (take CFG_SIZE (fc s)) -> valid_img img ->
  let '(s1, _, _) := save_cfg true img s in
  let '(s2, _, _) := do_init true r0 s1 in
  cfg s2 = take CFG_SIZE (fc s) \/ cfg s2 = img \/ (cfg s2 = fresh_img (en s) r0 /\ sta s2 = fill STATE_SIZE 0).
Proof. exact C13_atomicity_boot_thm. Qed.
Print Assumptions C13_crash_atomicity_next_boot.
Theorem C13_crash_atomicity_state_next_boot : forall stt s r0, down s = false -> valid_img (take CFG_SIZE (fc s)) ->
  len stt = STATE_SIZE -> cells_ok stt ->
  let '(s1, _, _) := save_sector true true stt s in
  let '(s2, _, _) := do_init true r0 s1 in
  cfg s2 = take CFG_SIZE (fc s) /\
  (sta s2 = take STATE_SIZE (fs s) \/ sta s2 = fill STATE_SIZE 255 \/ sta s2 = stt).
Proof. exact C13_atomicity_state_boot_thm. Qed.
Print Assumptions C13_crash_atomicity_state_next_boot.

(* The code as it is (erase result ignored) violates round trip and atomicity: with the erase returning TIMEOUT the save of
   record 240 reports success, the sector holds the AND of old and new, and the next boot accepts that mix. *)
Theorem C13_old_code_refuted :
  (let '(s1, _, r) := save_cfg false (cfg wit_st) wit_st in
   r = true /\ take CFG_SIZE (fc s1) <> wit_img 240 /\ take CFG_SIZE (fc s1) <> wit_img 15 /\
   let '(s2, _, _) := do_init false 0 s1 in cfg s2 = wit_img 0) /\
  (let '(s1, _, r) := save_cfg true (cfg wit_st) wit_st in r = false /\ take CFG_SIZE (fc s1) = wit_img 15) /\
  accept (wit_img 240) = true /\ accept (wit_img 15) = true.
Proof. exact C13_old_code_refuted_thm. Qed.
Print Assumptions C13_old_code_refuted.

(* translator pin of the code shape: on a healthy flash the real supla_esp_cfg_save / supla_esp_save_state / factory_defaults(1) /
   supla_esp_cfg_init (blank sector, v6 record, then the migrated v7 record) issue exactly the erase/write operations
   (kind, address, length, order) that the model issues *)
Theorem C13_code_shape :
  ops_of (snd (fst (save_cfg CURRENT_CHK (fill CFG_SIZE 0) init_st))) = OPS_CFG_SAVE /\
  ops_of (snd (save_state_now CURRENT_CHK init_st)) = OPS_STATE_SAVE /\
  ops_of (snd (factory CURRENT_CHK 1 init_st)) = OPS_FACTORY_SAVE /\
  ops_of (snd (fst (do_init CURRENT_CHK 0 init_st))) = OPS_INIT_BLANK /\
  (let s6 := set_sector false (fit SEC_SIZE 255 v6_probe_img) init_st in
   let '(s7, o, r) := do_init CURRENT_CHK 0 s6 in
   ops_of o = OPS_INIT_V6 /\ r = 1 /\ INIT_V6_ACCEPTED = 1 /\
   len (ops_of (snd (fst (do_init CURRENT_CHK 0 s7)))) = OPS_INIT_V7_COUNT).
Proof. exact C13_shape_thm. Qed.
Print Assumptions C13_code_shape.

(* non-vacuity: the hypotheses are satisfiable (a valid record, a quiet machine holding it), a first boot on blank flash
   stores a record that the next boot accepts, and a v6 record exists that meets the migration hypotheses *)
Example C13_nonvacuous :
  valid_img (wit_img 15) /\ quiet (upd_ram init_st (wit_img 15) (fill STATE_SIZE 7) false) /\
  (let '(s1, _, r1) := do_init true 0 init_st in
   let '(s2, _, r2) := do_init true 9 s1 in
   r1 = 1 /\ r2 = 1 /\ cfg s2 = cfg s1 /\ cfg s1 = fresh_img (en init_st) 0 /\ accept (cfg s1) = true) /\
  (let c := blit (wit_img 15) 5 [6] in slice c 0 5 = TAG5 /\ nthz c 5 = 6 /\ slice c O6_GUID GUID_SIZE <> zeroG /\ slice c O6_AUTHKEY AUTHKEY_SIZE <> zeroK).
Proof.
  split; [apply wit_valid; left; reflexivity|]. split; [repeat split|].
  split; vm_compute; repeat split; try reflexivity; discriminate.
Qed.
Print Assumptions C13_nonvacuous.
