From Coq Require Import List ZArith.
Import ListNotations.
From V Require Import Base.Bytes Gen.C13Layout C13.Model C13.Proofs.
Local Open Scope Z_scope.
Theorem C13_placeholder : True. Proof. exact placeholder. Qed.
Print Assumptions C13_placeholder.
