From Coq Require Import List ZArith.
Import ListNotations.
From V Require Import Base.Bytes Gen.RelayConsts C07.Model C07.Proofs.
Local Open Scope Z_scope.
