(* C07 — Countdown and staircase timers fire once, on time, and survive a reboot.
   Property theorems only: each is closed by `exact` of a lemma proved in C07/Proofs.v, C07/Once.v or C07/Restart.v.
   `e` selects the variant of supla_esp_countdown_timer_countdown (false: original code, true: the repair
   docs/fixes/C07_countdown_evaluate_first.diff + C07_countdown_evaluate_when_registered.diff: once the finish callback is
   registered, evaluate the running slots, then set up the new one and re-arm); the correspondence run uses the variant found in the tree. *)
From Coq Require Import List ZArith Bool.
Import ListNotations.
From V Require Import Base.Bytes Gen.RelayConsts C07.Model C07.Proofs C07.Once C07.Restart C07.Wrap.
Local Open Scope Z_scope.

(* Key invariant: after any history (commands on any channels, local switches, advances with any lateness script,
   restarts, staircase changes) the shared timer is armed and its period is at most clamp(time_left/10, 50, 1000)
   of every running slot. *)
Theorem C07_armed_period_bound : forall e c evs,
  wf_cfg c -> Forall wf_ev evs -> NWrun e c (start e c) evs ->
  let s := run_from e c (start e c) evs in
  forall x, In x (slots s) -> active x = true ->
    t_on (tcd s) = true /\ CD_MIN <= delay s <= clampd (s_left x) /\ t_per (tcd s) = delay s * 1000.
Proof. intros e c evs W Wev N. exact (armed_period_bound_thm e c W evs Wev N). Qed.
Print Assumptions C07_armed_period_bound.

(* Never early, armed before: every switch-back (GFinish) of the trace belongs to a slot armed (GArm) for dur ms at
   true time t0, and it is evaluated more than (dur-1) ms after t0: the device's millisecond clock shows at least dur
   elapsed milliseconds (the clock is truncated to whole milliseconds, see C07_submillisecond_early_witness). *)
Theorem C07_never_early : forall e c evs,
  wf_cfg c -> Forall wf_ev evs -> NWrun e c (start e c) evs ->
  forall tcb ch tg t0 dur u0 u, In (GFinish tcb ch tg t0 dur u0 u) (run e c evs) ->
    (dur - 1) * 1000 < tcb - t0 /\ In (GArm t0 ch dur tg) (run e c evs).
Proof. intros e c evs W Wev N. exact (never_early_thm e c W evs Wev N). Qed.
Print Assumptions C07_never_early.

(* At most once: no two switch-backs of the trace belong to the same arming (channel, arming time). *)
Theorem C07_at_most_once : forall e c evs,
  wf_cfg c -> Forall wf_ev evs -> NWrun e c (start e c) evs ->
  NoDup (fins (outs (run_from e c (start e c) evs))).
Proof. intros e c evs W Wev N. exact (at_most_once_thm e c W evs Wev N). Qed.
Print Assumptions C07_at_most_once.

(* On time (the code with the repair docs/fixes/C07_countdown_evaluate_first.diff, e = true): every switch-back is evaluated
   less than dur + 50 ms (one minimum period) + S + 16 relay operations after it was armed, where S bounds how late
   the evaluations of the slot table started after the due time of the shared timer (H_slack: jitter of the callback
   plus busy-waits that delayed it).  For a lone timer the 16 relay operations do not occur; see
   C07_on_time_busy_wait_refuted for why they cannot be dropped in general. *)
Theorem C07_fires_on_time : forall c evs S,
  wf_cfg c -> Forall wf_ev evs -> NWrun true c (start true c) evs -> 0 <= S ->
  Slack S (outs (run_from true c (start true c) evs)) ->
  forall tcb ch tg t0 dur u0 u, In (GFinish tcb ch tg t0 dur u0 u) (run true c evs) ->
    tcb < t0 + dur * 1000 + CD_MIN * 1000 + S + 2 * (8 * OP).
Proof. intros c evs S W Wev N HS SL. exact (on_time_thm c W evs Wev N S HS SL). Qed.
Print Assumptions C07_fires_on_time.

(* It does fire (e = true): a slot still running after an advance that reached time now+dt was armed less than
   dur + 50 ms + 8 relay operations before that time; so after an advance beyond that deadline the slot has left the
   table (by its switch-back, or by a command on its channel / a restart). *)
Theorem C07_fires_by : forall c S s dt,
  wf_cfg c -> 0 <= dt -> Good s -> J true S s -> 0 <= S ->
  let s' := advance true c dt s in
  NW s' -> Slack S (outs s') -> ~ In OFuel (outs s') ->
  forall x, In x (slots s') -> active x = true -> now s + dt < g_t0 x + g_dur x * 1000 + CD_MIN * 1000 + 8 * OP.
Proof. exact fires_by_thm. Qed.
Print Assumptions C07_fires_by.

(* Cancel: after a command (server set-value or local switch) on channel ch handled at time t1, every switch-back of
   that channel that appears later in the trace belongs to a timer armed at or after t1: the old one never fires. *)
Theorem C07_cancel : forall e c pre x post ch,
  wf_cfg c -> Forall wf_ev (pre ++ x :: post) -> NWrun e c (start e c) (pre ++ x :: post) -> cmd_on c x ch ->
  let s1 := run_from e c (start e c) pre in
  let s2 := step e c s1 x in
  forall tcb tg t0 dur u0 u, In (GFinish tcb ch tg t0 dur u0 u) (outs (run_from e c (start e c) (pre ++ x :: post))) ->
    In (GFinish tcb ch tg t0 dur u0 u) (outs s2) \/ now s1 <= t0.
Proof. exact cancel_thm. Qed.
Print Assumptions C07_cancel.

(* Remaining time: an event that is neither a command on channel ch nor a restart never increases the remaining time
   published for ch (TTimerState.RemainingTimeMs as supla_esp_countdown_get_state computes it). *)
Theorem C07_remaining_monotone : forall e c s x ch,
  wf_cfg c -> wf_ev x -> Good s -> NW (step e c s x) -> 0 <= ch < 255 -> ~ ev_chan c x ch ->
  rem (step e c s x) ch <= rem s ch.
Proof. exact remaining_monotone_thm. Qed.
Print Assumptions C07_remaining_monotone.

(* Restart (one relay of the restore loop of supla_esp_gpio_init): the relay comes back at its saved level
   (honouring active-low wiring) and the saved remaining time is armed again with the opposite target; it is then an
   ordinary timer to which all theorems above apply.  The second part needs the channel's countdown capability to be
   known at that moment when the saved level is "off": see C07_restore_needs_flags_refuted. *)
Theorem C07_restart_restores : forall e c s a r,
  wf_cfg c -> Good s -> In r (c_relays c) ->
  find_chan (c_relays c) 0 (r_chan r) = Some (a, r) -> find_gpio (c_relays c) 0 (r_gpio r) = Some (a, r) ->
  hasf (r_flags r) FLAG_RESTORE_FORCE || hasf (r_flags r) FLAG_RESTORE = true ->
  let v := getz (ram_relay s) a in
  let T := getz (ram_t2 s) (r_chan r) in
  let s' := restore_relay e c s (a, r) in
  v = 0 \/ v = 1 -> NW s' ->
  pin s' (r_gpio r) = xorb (v =? 1) (hasf (r_flags r) FLAG_LO_LEVEL) /\
  (0 < T < 2147483648 -> (exists x, In x (slots s) /\ s_chan x = 255) ->
   v = 1 \/ (getz (time2 s) (r_chan r) = 0 /\ hasf (getz (chfl s) a) CHFLAG_COUNTDOWN = true) ->
   exists t0, now s <= t0 <= now s + 8 * OP /\ In (GArm t0 (r_chan r) T (1 - v)) (outs s')).
Proof. exact restore_one_thm. Qed.
Print Assumptions C07_restart_restores.

(* Exactly once (e = true), one statement.  A slot x that is running in s leaves the slot table only by its finish
   callback, by a command on its channel, or by a restart (invariant `fate` over every operation, C07/Once.v).  So after
   any events that are no command on x's channel and no restart, followed by an advance that reaches x's deadline, x's
   switch-back is in the trace (it fired), and no arming of the trace has two switch-backs (it fired once). *)
Theorem C07_exactly_once : forall c S s x post dt,
  wf_cfg c -> Good s -> J true S s -> 0 <= S -> In x (slots s) -> active x = true ->
  Forall wf_ev post -> (forall ev, In ev post -> ~ ev_chan c ev (s_chan x)) -> 0 <= dt ->
  let s1 := run_from true c s post in
  let s2 := step true c s1 (EAdv dt) in
  NWrun true c s (post ++ [EAdv dt]) -> Slack S (outs s2) -> ~ In OFuel (outs s2) ->
  g_t0 x + g_dur x * 1000 + CD_MIN * 1000 + 8 * OP <= now s1 + dt ->
  fin_in x (outs s2) /\ NoDup (fins (outs s2)).
Proof. exact exactly_once_thm. Qed.
Print Assumptions C07_exactly_once.

(* Cancel, including the command's own handler: a switch-back of channel ch that is in the trace after a command on ch
   was either already there before the command was handled (state s1) or belongs to a timer armed at or after it.  The
   handler disarms the old timer before it evaluates the slot table, so the old timer cannot fire inside the command. *)
Theorem C07_cancel_full : forall e c pre x post ch,
  wf_cfg c -> Forall wf_ev (pre ++ x :: post) -> NWrun e c (start e c) (pre ++ x :: post) -> cmd_on c x ch ->
  let s1 := run_from e c (start e c) pre in
  forall tcb tg t0 dur u0 u, In (GFinish tcb ch tg t0 dur u0 u) (outs (run_from e c (start e c) (pre ++ x :: post))) ->
    In (GFinish tcb ch tg t0 dur u0 u) (outs s1) \/ now s1 <= t0.
Proof. exact cancel_full_thm. Qed.
Print Assumptions C07_cancel_full.

(* Restart, the whole restore loop of supla_esp_gpio_init (boot = user_init order, s = what survives the power loss:
   clock, flash image, trace).  For a board (at most 8 relays: wf_cfg) with pairwise different gpios and channels, every
   relay with a restore flag comes back at its saved level, and its saved remaining time is armed again with the opposite
   target, whatever the relays before it did (they cannot use up the slot table, touch its saved bytes or its pin).
   Nothing is evaluated and nothing switches back inside the loop: the finish callback is registered only afterwards
   (devconn_init), and countdown() evaluates the running slots only once it is (docs/fixes/
   C07_countdown_evaluate_when_registered.diff; without that guard a timer restored with a few ms left was released
   inside the loop without its callback, corpus/C07/restored_timer_expires_in_boot.txt). *)
Theorem C07_restart_restores_all : forall e c s,
  wf_cfg c -> NoDup (map r_gpio (c_relays c)) -> NoDup (map r_chan (c_relays c)) ->
  TrO s -> 0 <= cnt0 s -> tb s <= now s -> 0 <= upc s -> upc s * 4294967296 <= cnt0 s + (now s - tb s) ->
  let s' := boot e c s in
  NW s' ->
  forall a r, In (a, r) (enum 0 (c_relays c)) -> restoring r = true ->
    let v := getz (fl_relay s) a in
    let T := getz (fl_t2 s) (r_chan r) in
    v = 0 \/ v = 1 ->
    pin s' (r_gpio r) = xorb (v =? 1) (hasf (r_flags r) FLAG_LO_LEVEL) /\
    (0 < T < 2147483648 ->
     v = 1 \/ (getz (time2 s) (r_chan r) = 0 /\ hasf (chfl_init c r) CHFLAG_COUNTDOWN = true) ->
     exists t0, now s <= t0 <= now s + (a + 1) * (9 * OP) /\ In (GArm t0 (r_chan r) T (1 - v)) (outs s')).
Proof. exact restore_all_thm. Qed.
Print Assumptions C07_restart_restores_all.

(* ... and its hypotheses hold for a board with two restoring relays ("on for 5 s", "on for 7 s", power loss after
   2 s); the restart arms 4042 ms and 6052 ms (the remaining times in the state sector written after 1 s). *)
Example C07_restart_all_hypotheses_satisfiable :
  wf_cfg two_cfg /\ NoDup (map r_gpio (c_relays two_cfg)) /\ NoDup (map r_chan (c_relays two_cfg)) /\
  (length (c_relays two_cfg) <= 8)%nat /\ TrO two_pre /\ 0 <= cnt0 two_pre /\ tb two_pre <= now two_pre /\
  0 <= upc two_pre /\ upc two_pre * 4294967296 <= cnt0 two_pre + (now two_pre - tb two_pre) /\
  NW (boot true two_cfg two_pre) /\
  (fl_relay two_pre, fl_t2 two_pre) = ([1; 1; 0; 0; 0; 0; 0; 0], [4042; 6052; 0; 0; 0; 0; 0; 0]) /\
  filter (fun o => match o with GArm t0 _ _ _ => now two_pre <=? t0 | _ => false end) (outs (boot true two_cfg two_pre)) =
    [GArm 2050100 1 6052 0; GArm 2040080 0 4042 0].
Proof. exact restore_all_witness_thm. Qed.
Print Assumptions C07_restart_all_hypotheses_satisfiable.

(* ---------- Counter wraps (H_nowrap lifted) ----------
   The theorems above assume that the 32-bit microsecond counter does not wrap (NW / NWrun).  The same theorems hold
   across wraps; `wr : Wraps` carries WB, and NWw s (NWwrun: at every point of the history) says
     H_wraps:  the counter wrapped at most WB times since the last boot, and
     H_polled: every reading of the clock (uptime_usec: the 10 s poll timer, the evaluations of the slot table, the
               commands) came less than one counter period (71.6 min) after the previous one (trace predicate `Polled`
               over the ghost output GPoll; as `gaps_ok` of C19).
   uptime.c then returns A - A/2^32 for the unwrapped count A (it multiplies the wrap count by 2^32 - 1: the device's
   clock loses 1 us per wrap, C19_uptime_accurate), so "never early" is unchanged and the lateness bounds grow by WB us.
   With WB = 0 these are the theorems above (that is how those are now proved, C07/Proofs.v `nowrap`). *)
Theorem C07_never_early_wrap : forall (wr : Wraps) e c evs,
  wf_cfg c -> Forall wf_ev evs -> NWwrun e c (start e c) evs ->
  forall tcb ch tg t0 dur u0 u, In (GFinish tcb ch tg t0 dur u0 u) (run e c evs) ->
    (dur - 1) * 1000 < tcb - t0 /\ In (GArm t0 ch dur tg) (run e c evs).
Proof. intros wr e c evs W Wev N. exact (never_early_w e c W evs Wev N). Qed.
Print Assumptions C07_never_early_wrap.

Theorem C07_at_most_once_wrap : forall (wr : Wraps) e c evs,
  wf_cfg c -> Forall wf_ev evs -> NWwrun e c (start e c) evs ->
  NoDup (fins (outs (run_from e c (start e c) evs))).
Proof. intros wr e c evs W Wev N. exact (at_most_once_w e c W evs Wev N). Qed.
Print Assumptions C07_at_most_once_wrap.

Theorem C07_fires_on_time_wrap : forall (wr : Wraps) c evs S,
  wf_cfg c -> Forall wf_ev evs -> NWwrun true c (start true c) evs -> 0 <= S ->
  Slack S (outs (run_from true c (start true c) evs)) ->
  forall tcb ch tg t0 dur u0 u, In (GFinish tcb ch tg t0 dur u0 u) (run true c evs) ->
    tcb < t0 + dur * 1000 + CD_MIN * 1000 + S + 2 * (8 * OP) + WB.
Proof. intros wr c evs S W Wev N HS SL. exact (on_time_w c W evs Wev N S HS SL). Qed.
Print Assumptions C07_fires_on_time_wrap.

Theorem C07_exactly_once_wrap : forall (wr : Wraps) c S s x post dt,
  wf_cfg c -> Good s -> J true S s -> 0 <= S -> In x (slots s) -> active x = true ->
  Forall wf_ev post -> (forall ev, In ev post -> ~ ev_chan c ev (s_chan x)) -> 0 <= dt ->
  let s1 := run_from true c s post in
  let s2 := step true c s1 (EAdv dt) in
  NWwrun true c s (post ++ [EAdv dt]) -> Slack S (outs s2) -> ~ In OFuel (outs s2) ->
  g_t0 x + g_dur x * 1000 + CD_MIN * 1000 + 8 * OP + WB <= now s1 + dt ->
  fin_in x (outs s2) /\ NoDup (fins (outs s2)).
Proof. intros wr. exact exactly_once_w. Qed.
Print Assumptions C07_exactly_once_wrap.

Theorem C07_cancel_full_wrap : forall (wr : Wraps) e c pre x post ch,
  wf_cfg c -> Forall wf_ev (pre ++ x :: post) -> NWwrun e c (start e c) (pre ++ x :: post) -> cmd_on c x ch ->
  let s1 := run_from e c (start e c) pre in
  forall tcb tg t0 dur u0 u, In (GFinish tcb ch tg t0 dur u0 u) (outs (run_from e c (start e c) (pre ++ x :: post))) ->
    In (GFinish tcb ch tg t0 dur u0 u) (outs s1) \/ now s1 <= t0.
Proof. intros wr. exact cancel_full_w. Qed.
Print Assumptions C07_cancel_full_wrap.

Theorem C07_restart_restores_all_wrap : forall (wr : Wraps) e c s,
  wf_cfg c -> NoDup (map r_gpio (c_relays c)) -> NoDup (map r_chan (c_relays c)) ->
  TrO s -> 0 <= cnt0 s -> tb s <= now s -> 0 <= upc s -> upc s * 4294967296 <= cnt0 s + (now s - tb s) ->
  let s' := boot e c s in
  NWw s' ->
  forall a r, In (a, r) (enum 0 (c_relays c)) -> restoring r = true ->
    let v := getz (fl_relay s) a in
    let T := getz (fl_t2 s) (r_chan r) in
    v = 0 \/ v = 1 ->
    pin s' (r_gpio r) = xorb (v =? 1) (hasf (r_flags r) FLAG_LO_LEVEL) /\
    (0 < T < 2147483648 ->
     v = 1 \/ (getz (time2 s) (r_chan r) = 0 /\ hasf (chfl_init c r) CHFLAG_COUNTDOWN = true) ->
     exists t0, now s <= t0 <= now s + (a + 1) * (9 * OP) /\ In (GArm t0 (r_chan r) T (1 - v)) (outs s')).
Proof. intros wr. exact restore_all_w. Qed.
Print Assumptions C07_restart_restores_all_wrap.

(* a history with a wrap: the counter reads 2^32 - 500000 at boot; "on for 2000 ms" is armed before the wrap and
   switches back 2002.04 ms later, after it.  It meets H_wraps (WB = 1), H_polled and H_slack 0, and not H_nowrap. *)
Example C07_wrap_hypotheses_satisfiable :
  wf_cfg wrap_cfg /\ Forall wf_ev wrap_evs /\ @NWwrun one_wrap true wrap_cfg (start true wrap_cfg) wrap_evs /\
  Slack 0 (outs (run_from true wrap_cfg (start true wrap_cfg) wrap_evs)) /\
  ~ NW (run_from true wrap_cfg (start true wrap_cfg) wrap_evs) /\
  gpio_edges (run true wrap_cfg wrap_evs) 4 = [(10, 1); (2002050, 0)] /\
  gpio_edges (run true wrap_cfg wrap_evs) 5 = [(10030, 1); (410030, 0)] /\
  filter (fun o => match o with GFinish _ _ _ _ _ _ _ => true | _ => false end) (run true wrap_cfg wrap_evs) =
    [GFinish 410020 1 0 10020 400 4294477 4294877; GFinish 2002040 0 0 0 2000 4294467 4296469].
Proof. exact wrap_witness_thm. Qed.
Print Assumptions C07_wrap_hypotheses_satisfiable.

(* The hypotheses of the theorems above are satisfiable: concrete boards and histories meeting them. *)
Example C07_hypotheses_satisfiable :
  wf_cfg storm_cfg /\ Forall wf_ev early_evs /\ NWrun true storm_cfg (start true storm_cfg) early_evs /\
  Slack 0 (outs (run_from true storm_cfg (start true storm_cfg) early_evs)) /\
  wf_cfg serial_cfg /\ Forall wf_ev serial_evs /\ NWrun true serial_cfg (start true serial_cfg) serial_evs /\
  Slack 30160 (outs (run_from true serial_cfg (start true serial_cfg) serial_evs)) /\
  wf_cfg (late_cfg false) /\ Forall wf_ev late_evs /\ NWrun false (late_cfg false) (start false (late_cfg false)) late_evs.
Proof. exact hypotheses_satisfiable_thm. Qed.
Print Assumptions C07_hypotheses_satisfiable.

(* Refutations (witnesses computed by the kernel; the same inputs are in corpus/C07 and fail on the real code). *)
Theorem C07_old_code_refuted :
  fin_late (run false storm_cfg storm_evs) 0 = [1501200] /\ fin_late (run true storm_cfg storm_evs) 0 = [500].
Proof. exact old_code_refuted_thm. Qed.
Print Assumptions C07_old_code_refuted.

Theorem C07_on_time_busy_wait_refuted :
  gpio_edges (run false serial_cfg serial_evs) 14 = [(70150, 1); (420150, 0)] /\
  gpio_edges (run true serial_cfg serial_evs) 14 = [(70150, 1); (420150, 0)].
Proof. exact busy_wait_late_refuted_thm. Qed.
Print Assumptions C07_on_time_busy_wait_refuted.

Theorem C07_submillisecond_early_witness :
  gpio_edges (run false storm_cfg early_evs) 5 = [(11008, 1); (50010, 0)] /\ fin_late (run false storm_cfg early_evs) 1 = [-998].
Proof. exact submillisecond_early_witness_thm. Qed.
Print Assumptions C07_submillisecond_early_witness.

Theorem C07_restore_needs_flags_refuted :
  gpio_edges (run false (late_cfg true) late_evs) 4 = [(10030, 1); (2020050, 0)] /\
  gpio_edges (run false (late_cfg false) late_evs) 4 = [(10030, 1); (2020050, 0); (8084070, 1)].
Proof. exact restore_needs_flags_refuted_thm. Qed.
Print Assumptions C07_restore_needs_flags_refuted.
