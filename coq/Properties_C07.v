(* C07 — Countdown and staircase timers fire once, on time, and survive a reboot.
   Property theorems only: each is closed by `exact` of a lemma proved in C07/Proofs.v.
   `e` selects the variant of supla_esp_countdown_timer_countdown (false: unchanged tree, true: proposed repair
   docs/fixes/C07_rearm_starvation.diff); the correspondence run uses the variant found in the tree. *)
From Coq Require Import List ZArith.
Import ListNotations.
From V Require Import Base.Bytes Gen.RelayConsts C07.Model C07.Proofs.
Local Open Scope Z_scope.

(* Key invariant: after any history (commands on any channels, local switches, advances with any lateness script,
   restarts, staircase changes) the shared timer is armed and its period is at most clamp(time_left/10, 50, 1000)
   of every running slot. *)
Theorem C07_armed_period_bound : forall e c evs,
  wf_cfg c -> Forall wf_ev evs -> NWrun e c (start e c) evs ->
  let s := run_from e c (start e c) evs in
  forall x, In x (slots s) -> active x = true ->
    t_on (tcd s) = true /\ CD_MIN <= delay s <= clampd (s_left x) /\ t_per (tcd s) = delay s * 1000.
Proof. intros e c evs W Wev N. exact (armed_period_bound_thm e c W evs Wev N). Qed.
Print Assumptions C07_armed_period_bound.

(* Never early, armed before: every switch-back (GFinish) of the trace belongs to a slot armed (GArm) for dur ms at
   true time t0, and it is evaluated more than (dur-1) ms after t0: the device's millisecond clock shows at least dur
   elapsed milliseconds (the clock is truncated to whole milliseconds, see C07_submillisecond_early_witness). *)
Theorem C07_never_early : forall e c evs,
  wf_cfg c -> Forall wf_ev evs -> NWrun e c (start e c) evs ->
  forall tcb ch tg t0 dur u0 u, In (GFinish tcb ch tg t0 dur u0 u) (run e c evs) ->
    (dur - 1) * 1000 < tcb - t0 /\ In (GArm t0 ch dur tg) (run e c evs).
Proof. intros e c evs W Wev N. exact (never_early_thm e c W evs Wev N). Qed.
Print Assumptions C07_never_early.

(* At most once: no two switch-backs of the trace belong to the same arming (channel, arming time). *)
Theorem C07_at_most_once : forall e c evs,
  wf_cfg c -> Forall wf_ev evs -> NWrun e c (start e c) evs ->
  NoDup (fins (outs (run_from e c (start e c) evs))).
Proof. intros e c evs W Wev N. exact (at_most_once_thm e c W evs Wev N). Qed.
Print Assumptions C07_at_most_once.

(* Refutations (witnesses computed by the kernel; the same inputs are in corpus/C07 and fail on the real code). *)
Theorem C07_old_code_refuted :
  fin_late (run false storm_cfg storm_evs) 0 = [1501200] /\ fin_late (run true storm_cfg storm_evs) 0 = [500].
Proof. exact old_code_refuted_thm. Qed.
Print Assumptions C07_old_code_refuted.

Theorem C07_on_time_busy_wait_refuted :
  gpio_edges (run false serial_cfg serial_evs) 14 = [(70150, 1); (420150, 0)] /\
  gpio_edges (run true serial_cfg serial_evs) 14 = [(70150, 1); (420150, 0)].
Proof. exact busy_wait_late_refuted_thm. Qed.
Print Assumptions C07_on_time_busy_wait_refuted.

Theorem C07_submillisecond_early_witness :
  gpio_edges (run false storm_cfg early_evs) 5 = [(11008, 1); (50010, 0)] /\ fin_late (run false storm_cfg early_evs) 1 = [-998].
Proof. exact submillisecond_early_witness_thm. Qed.
Print Assumptions C07_submillisecond_early_witness.

Theorem C07_restore_needs_flags_refuted :
  gpio_edges (run false (late_cfg true) late_evs) 4 = [(10030, 1); (2020050, 0)] /\
  gpio_edges (run false (late_cfg false) late_evs) 4 = [(10030, 1); (2020050, 0); (8084070, 1)].
Proof. exact restore_needs_flags_refuted_thm. Qed.
Print Assumptions C07_restore_needs_flags_refuted.
