(* C06 — proofs about the model in Model.v. *)
From Coq Require Import List ZArith Lia Bool.
Import ListNotations.
From V Require Import Base.U32 Base.Bytes Base.Iface Gen.RelayConsts C07.Model C07.Proofs C06.Model.
Local Open Scope Z_scope.
