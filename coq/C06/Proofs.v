(* C06 — proofs about the model in Model.v (on top of C07/Model.v and its lemmas). *)
From Coq Require Import List ZArith Lia Bool.
Import ListNotations.
From V Require Import Base.U32 Base.Bytes Base.Iface Gen.RelayConsts C07.Model C07.Proofs C06.Model.
Local Open Scope Z_scope.

(* ---------- calls never touch the outputs ---------- *)
Lemma gout_do_call k s : gout (do_call k s) = gout s.
Proof. unfold do_call. destruct (_ <? _); reflexivity. Qed.
Lemma gout_value_changed ch v s : gout (value_changed ch v s) = gout s.
Proof. unfold value_changed. destruct (reg s); auto using gout_do_call. Qed.
Lemma gout_set_result ch sd ok s : gout (set_result ch sd ok s) = gout s.
Proof. unfold set_result. destruct (conn s); auto using gout_do_call. Qed.
Lemma relay_is_hi_gout c port s s' : gout s' = gout s -> relay_is_hi c port s' = relay_is_hi c port s.
Proof. intros E. unfold relay_is_hi, pin. rewrite E. reflexivity. Qed.

(* the logical level of a relay: the pin, inverted for active-low wiring *)
Definition level (r : relay) (s : st) : bool := xorb (pin s (r_gpio r)) (hasf (r_flags r) FLAG_LO_LEVEL).
Lemma relay_is_hi_level c a r s :
  find_gpio (c_relays c) 0 (r_gpio r) = Some (a, r) -> relay_is_hi c (r_gpio r) s = if level r s then HI else LO.
Proof.
  intros E. unfold relay_is_hi, level. rewrite E. destruct (hasf (r_flags r) FLAG_LO_LEVEL), (pin s (r_gpio r)); reflexivity.
Qed.

(* ---------- _supla_esp_channel_set_value: set, read back, report the read-back value ---------- *)
Theorem chan_set_value_thm c a r v ch s :
  wf_cfg c -> In r (c_relays c) -> find_gpio (c_relays c) 0 (r_gpio r) = Some (a, r) ->
  let '(s', ok) := chan_set_value c (r_gpio r) v ch s in
  (* output follows the request, honouring active-low wiring *)
  level r s' = (v =? 1) /\ ok = 1 /\
  (* the value handed to srpc is the level that was read back; with room in the queue it is queued *)
  (reg s = true -> len (queue s) < QUEUE_SIZE -> queue s' = queue s ++ [CVal ch (if level r s' then 1 else 0)]) /\
  (reg s = false -> queue s' = queue s).
Proof.
  intros W Hr EF. unfold chan_set_value.
  pose proof (wf_gpio _ W r Hr) as Hg. pose proof (cf_hi consts_ok) as cf_hi0. pose proof (cf_lo consts_ok) as cf_lo0.
  set (want := if v =? 1 then HI else LO).
  assert (Hw : want = 0 \/ want = 1) by (unfold want; rewrite cf_hi0, cf_lo0; destruct (v =? 1); auto).
  set (s1 := relay_hi c (r_gpio r) want s).
  assert (P1 : pin s1 (r_gpio r) = xorb (want =? 1) (hasf (r_flags r) FLAG_LO_LEVEL)) by (apply (pin_relay_hi c (r_gpio r) want a r s); auto; lia).
  assert (L1 : level r s1 = (v =? 1)).
  { unfold level. rewrite P1. unfold want. rewrite cf_hi0, cf_lo0. destruct (v =? 1), (hasf (r_flags r) FLAG_LO_LEVEL); reflexivity. }
  assert (RB : relay_is_hi c (r_gpio r) s1 = want).
  { rewrite (relay_is_hi_level c a r s1 EF), L1. unfold want. destruct (v =? 1); reflexivity. }
  rewrite RB.
  assert (Q1 : queue s1 = queue s /\ reg s1 = reg s).
  { pose proof (passive_relay_hi c (r_gpio r) want s) as P. fold s1 in P. split; [|apply P].
    unfold s1, relay_hi. destruct (find_gpio _ _ _) as [[? ?]|]; [destruct (_ || _)|]; unfold save_state; try destruct (0 <? _);
      unfold gpio_write; destruct (Bool.eqb _ _); reflexivity. }
  destruct Q1 as [Q1 R1].
  assert (LV : level r (value_changed ch (if want =? HI then 1 else 0) s1) = (v =? 1)).
  { unfold level, pin. rewrite gout_value_changed. exact L1. }
  split; [exact LV|]. split; [rewrite Z.eqb_refl; reflexivity|].
  rewrite LV. unfold value_changed, do_call. rewrite R1, Q1.
  assert (EV : (if want =? HI then 1 else 0) = (if v =? 1 then 1 else 0)) by (unfold want; rewrite cf_hi0, cf_lo0; destruct (v =? 1); reflexivity).
  rewrite EV. split.
  - intros Hr' Hq. rewrite Hr'. destruct (len (queue s) <? QUEUE_SIZE) eqn:E; [reflexivity|apply Z.ltb_ge in E; lia].
  - intros Hr'. rewrite Hr'. exact Q1.
Qed.

(* ---------- FIFO transport: srpc out-queue -> proto out buffer -> wire ---------- *)
Fixpoint wired (l : list out) : list call :=      (* l is the reversed trace *)
  match l with
  | [] => []
  | OWire _ k :: t => wired t ++ [k]
  | _ :: t => wired t
  end.
(* every call accepted so far, in the order of acceptance *)
Definition accepted (s : st) : list call := wired (outs s) ++ map fst (obuf s) ++ queue s.

Lemma drain_split n l : let '(a, b) := drain n l in map fst l = a ++ map fst b.
Proof.
  revert n; induction l as [|[k r] l IH]; intros n; cbn; auto.
  destruct (r <=? n).
  - specialize (IH (n - r)). destruct (drain (n - r) l) as [a b]. cbn. rewrite IH. reflexivity.
  - reflexivity.
Qed.
Lemma wired_fold t l : forall s, wired (outs (fold_left (fun acc k => emit (OWire t k) acc) l s)) = wired (outs s) ++ l.
Proof.
  induction l as [|k l IH]; intros s; cbn [fold_left]; [rewrite app_nil_r; reflexivity|].
  rewrite IH. cbn [outs emit set_outs wired]. rewrite <- app_assoc. reflexivity.
Qed.
Lemma fold_emit_fields t l : forall s,
  let s' := fold_left (fun acc k => emit (OWire t k) acc) l s in obuf s' = obuf s /\ queue s' = queue s /\ gout s' = gout s.
Proof. induction l as [|k l IH]; intros s; cbn [fold_left]; auto. destruct (IH (emit (OWire t k) s)) as (A & B & C). auto. Qed.

Fixpoint new_drops (l : list out) : list call :=      (* of a (reversed) piece of trace *)
  match l with [] => [] | ODrop _ k :: t => new_drops t ++ [k] | _ :: t => new_drops t end.
Lemma new_drops_app a b : new_drops (a ++ b) = new_drops b ++ new_drops a.
Proof. induction a as [|o a IH]; cbn; [rewrite app_nil_r; auto|]. destruct o; auto. rewrite IH, app_assoc. reflexivity. Qed.
(* frames lost in devconn's send buffer (overflow, or a hard error of espconn_sent) *)
Fixpoint lost (l : list out) : list call :=
  match l with [] => [] | OLost _ k :: t => lost t ++ [k] | _ :: t => lost t end.
Lemma lost_app a b : lost (a ++ b) = lost b ++ lost a.
Proof. induction a as [|o a IH]; cbn; [rewrite app_nil_r; auto|]. destruct o; auto. rewrite IH, app_assoc. reflexivity. Qed.
Lemma wired_app' a b : wired (a ++ b) = wired b ++ wired a.
Proof. induction a as [|o a IH]; cbn; [rewrite app_nil_r; auto|]. destruct o; auto. rewrite IH, app_assoc. reflexivity. Qed.

(* what a piece of the transport (data_write / the OUT half of srpc_iterate) may do: it moves frames, touches nothing else *)
Record tp (s s' : st) : Prop := {
  tp_gout : gout s' = gout s; tp_slots : slots s' = slots s; tp_reg : reg s' = reg s; tp_conn : conn s' = conn s;
  tp_outs : exists add, outs s' = add ++ outs s /\ new_drops add = [] /\
            (* nothing lost: the frames keep their order on the way queue -> proto buffer (-> send buffer) -> wire *)
            (lost add = [] -> wired add ++ map fst (obuf s') ++ queue s' = map fst (obuf s) ++ queue s)
}.
Lemma tp_refl s : tp s s.
Proof. constructor; auto. exists []. auto. Qed.
Lemma tp_trans a b d : tp a b -> tp b d -> tp a d.
Proof.
  intros [A1 A2 A3 A4 (x & Ox & Dx & Cx)] [B1 B2 B3 B4 (y & Oy & Dy & Cy)]. constructor; try congruence.
  exists (y ++ x). split; [rewrite Oy, Ox, app_assoc; reflexivity|]. split; [rewrite new_drops_app, Dx, Dy; reflexivity|].
  rewrite lost_app. intros L. apply app_eq_nil in L. destruct L as [Lx Ly].
  rewrite wired_app', <- app_assoc, (Cy Ly). exact (Cx Lx).
Qed.

Lemma staged_split l : let '(a, b) := staged l in l = zeros a ++ b.
Proof.
  induction l as [|[k r] l IH]; cbn [staged]; [reflexivity|]. destruct (r =? 0) eqn:E; [|reflexivity].
  apply Z.eqb_eq in E. subst r. destruct (staged l) as [a b]. cbn [zeros map app]. f_equal. exact IH.
Qed.
Lemma map_fst_zeros ks : map fst (zeros ks) = ks.
Proof. induction ks as [|k ks IH]; [reflexivity|]. cbn [zeros map fst]. f_equal. exact IH. Qed.
Lemma put_wire_spec ks : forall s, let s' := put_wire ks s in
  gout s' = gout s /\ slots s' = slots s /\ reg s' = reg s /\ conn s' = conn s /\ obuf s' = obuf s /\ queue s' = queue s /\
  sb_n s' = sb_n s /\ sres s' = sres s /\
  exists add, outs s' = add ++ outs s /\ new_drops add = [] /\ lost add = [] /\ wired add = ks.
Proof.
  unfold put_wire. intros s. generalize (now s) as t. intros t. revert s.
  induction ks as [|k ks IH]; intros s; cbn [fold_left]; [repeat split; auto; exists []; auto|].
  destruct (IH (emit (OWire t k) s)) as (B1 & B2 & B3 & B4 & B5 & B6 & B7 & B8 & add & O & D & L & Wd). cbv zeta.
  rewrite B1, B2, B3, B4, B5, B6, B7, B8. repeat split; auto.
  exists (add ++ [OWire t k]). rewrite O. cbn [outs emit set_outs]. rewrite <- app_assoc. split; [reflexivity|].
  rewrite new_drops_app, lost_app, wired_app', D, L, Wd. cbn. auto.
Qed.
Lemma lose_spec ks : forall s, let s' := lose ks s in
  gout s' = gout s /\ slots s' = slots s /\ reg s' = reg s /\ conn s' = conn s /\ obuf s' = obuf s /\ queue s' = queue s /\
  exists add, outs s' = add ++ outs s /\ new_drops add = [] /\ (ks <> [] -> lost add <> []) /\ wired add = [].
Proof.
  unfold lose. intros s. generalize (now s) as t. intros t. revert s.
  induction ks as [|k ks IH]; intros s; cbn [fold_left]; [repeat split; auto; exists []; repeat split; auto; congruence|].
  destruct (IH (emit (OLost t k) s)) as (B1 & B2 & B3 & B4 & B5 & B6 & add & O & D & L & Wd). cbv zeta.
  rewrite B1, B2, B3, B4, B5, B6. repeat split; auto.
  exists (add ++ [OLost t k]). rewrite O. cbn [outs emit set_outs]. rewrite <- app_assoc. split; [reflexivity|].
  rewrite new_drops_app, lost_app, wired_app', D, Wd. cbn. split; [auto|]. split; [|auto]. intros _ E. destruct (lost add); discriminate.
Qed.
Lemma sent_res_fields s : let '(r, s') := sent_res s in
  gout s' = gout s /\ slots s' = slots s /\ reg s' = reg s /\ conn s' = conn s /\ obuf s' = obuf s /\ queue s' = queue s /\
  outs s' = outs s /\ sb_n s' = sb_n s /\ now s' = now s.
Proof. unfold sent_res. destruct (sres s); repeat split; reflexivity. Qed.

(* supla_esp_data_write: ks = the frames ending in the n bytes handed over; they take their place between the frames
   already in the send buffer (z0) and the rest of the proto buffer *)
Lemma dw_tp ks n s : (n <= 0 -> ks = []) ->
  let '(z0, rest) := staged (obuf s) in
  let s' := dw ks n s in
  gout s' = gout s /\ slots s' = slots s /\ reg s' = reg s /\ conn s' = conn s /\ queue s' = queue s /\
  exists add, outs s' = add ++ outs s /\ new_drops add = [] /\
    (lost add = [] -> wired add ++ map fst (obuf s') = z0 ++ ks ++ map fst rest).
Proof.
  intros Hn. unfold dw. destruct (staged (obuf s)) as [z0 rest].
  set (p := if 0 <? sb_n s then let '(r, s') := sent_res s in if r =? 0 then ([], put_wire z0 (set_sb_n 0 s')) else (z0, s') else (z0, s)).
  assert (R : let '(z1, s1) := p in
              gout s1 = gout s /\ slots s1 = slots s /\ reg s1 = reg s /\ conn s1 = conn s /\ queue s1 = queue s /\
              exists a1, outs s1 = a1 ++ outs s /\ new_drops a1 = [] /\ lost a1 = [] /\ wired a1 ++ z1 = z0).
  { unfold p. destruct (0 <? sb_n s); [|repeat split; auto; exists []; auto].
    pose proof (sent_res_fields s) as F. destruct (sent_res s) as [r s']. destruct F as (F1 & F2 & F3 & F4 & F5 & F6 & F7 & F8 & F9).
    destruct (r =? 0); [|repeat split; auto; exists []; rewrite F7; auto].
    destruct (put_wire_spec z0 (set_sb_n 0 s')) as (B1 & B2 & B3 & B4 & B5 & B6 & _ & _ & add & O & D & L & Wd). cbv zeta in *.
    cbn [gout slots reg conn queue outs set_sb_n] in *. repeat split; try congruence.
    exists add. rewrite O, F7, Wd, app_nil_r. auto. }
  destruct p as [z1 s1]. destruct R as (R1 & R2 & R3 & R4 & R5 & a1 & O1 & D1 & L1 & W1).
  assert (K : forall zz sx a2, gout sx = gout s1 -> slots sx = slots s1 -> reg sx = reg s1 -> conn sx = conn s1 -> queue sx = queue s1 ->
              outs sx = a2 ++ outs s1 -> new_drops a2 = [] -> (lost a2 = [] -> wired a2 ++ zz = z1 ++ ks) ->
              gout (set_obuf (zeros zz ++ rest) sx) = gout s /\ slots (set_obuf (zeros zz ++ rest) sx) = slots s /\
              reg (set_obuf (zeros zz ++ rest) sx) = reg s /\ conn (set_obuf (zeros zz ++ rest) sx) = conn s /\
              queue (set_obuf (zeros zz ++ rest) sx) = queue s /\
              exists add, outs (set_obuf (zeros zz ++ rest) sx) = add ++ outs s /\ new_drops add = [] /\
                (lost add = [] -> wired add ++ map fst (obuf (set_obuf (zeros zz ++ rest) sx)) = z0 ++ ks ++ map fst rest)).
  { intros zz sx a2 G1 G2 G3 G4 G5 O2 D2 C2. cbn [gout slots reg conn queue outs obuf set_obuf].
    split; [congruence|]. split; [congruence|]. split; [congruence|]. split; [congruence|]. split; [congruence|].
    exists (a2 ++ a1). split; [rewrite O2, O1, app_assoc; reflexivity|].
    split; [rewrite new_drops_app, D1, D2; reflexivity|]. rewrite lost_app, L1. cbn [app]. intros L2.
    rewrite wired_app', map_app, map_fst_zeros, <- W1. rewrite <- !app_assoc. f_equal.
    rewrite !app_assoc. f_equal. exact (C2 L2). }
  assert (Klose : forall sx, sx = s1 \/ (let '(r, s2) := sent_res s1 in sx = s2) ->
              gout (set_obuf (zeros z1 ++ rest) (lose ks sx)) = gout s /\ slots (set_obuf (zeros z1 ++ rest) (lose ks sx)) = slots s /\
              reg (set_obuf (zeros z1 ++ rest) (lose ks sx)) = reg s /\ conn (set_obuf (zeros z1 ++ rest) (lose ks sx)) = conn s /\
              queue (set_obuf (zeros z1 ++ rest) (lose ks sx)) = queue s /\
              exists add, outs (set_obuf (zeros z1 ++ rest) (lose ks sx)) = add ++ outs s /\ new_drops add = [] /\
                (lost add = [] -> wired add ++ map fst (obuf (set_obuf (zeros z1 ++ rest) (lose ks sx))) = z0 ++ ks ++ map fst rest)).
  { intros sx Hsx.
    assert (Fx : gout sx = gout s1 /\ slots sx = slots s1 /\ reg sx = reg s1 /\ conn sx = conn s1 /\ queue sx = queue s1 /\ outs sx = outs s1).
    { destruct Hsx as [->|Hsx]; [repeat split; reflexivity|]. pose proof (sent_res_fields s1) as F. destruct (sent_res s1) as [r s2]. subst sx.
      destruct F as (F1 & F2 & F3 & F4 & F5 & F6 & F7 & _). repeat split; assumption. }
    destruct Fx as (X1 & X2 & X3 & X4 & X5 & X6).
    destruct (lose_spec ks sx) as (B1 & B2 & B3 & B4 & _ & B6 & add & O & D & L & Wd). cbv zeta in *.
    apply (K z1 (lose ks sx) add); try congruence.
    intros La. rewrite Wd. cbn [app]. destruct ks as [|k ks']; [rewrite app_nil_r; reflexivity|]. exfalso. apply L; [discriminate|exact La]. }
  destruct (0 <? sb_n s1).
  - destruct (0 <? n) eqn:En.
    + destruct (SEND_BUF <? sb_n s1 + n); [apply Klose; left; reflexivity|].
      apply (K (z1 ++ ks) (set_sb_n (sb_n s1 + n) s1) []); auto.
    + apply Z.ltb_ge in En. pose proof (Hn En) as Ek. subst ks. apply (K z1 s1 []); auto. intros _. rewrite app_nil_r. reflexivity.
  - destruct (0 <? n) eqn:En.
    + pose proof (sent_res_fields s1) as F. pose proof (Klose) as KL. destruct (sent_res s1) as [r s2] eqn:ES.
      destruct F as (F1 & F2 & F3 & F4 & F5 & F6 & F7 & F8 & F9).
      destruct ((r =? SENT_INPROGRESS) || (r =? SENT_MAXNUM)).
      * destruct (SEND_BUF <? n); [apply KL; right; reflexivity|].
        apply (K (z1 ++ ks) (set_sb_n n s2) []); cbn [gout slots reg conn queue outs set_sb_n]; auto.
      * destruct (r =? 0); [|apply KL; right; reflexivity].
        destruct (put_wire_spec (z1 ++ ks) s2) as (B1 & B2 & B3 & B4 & B5 & B6 & _ & _ & add & O & D & L & Wd). cbv zeta in *.
        pose proof (K [] (put_wire (z1 ++ ks) s2) add) as K0. cbn [zeros map app] in K0.
        apply K0; try congruence. intros _. rewrite Wd, app_nil_r. reflexivity.
    + apply Z.ltb_ge in En. pose proof (Hn En) as Ek. subst ks. apply (K z1 s1 []); auto. intros _. rewrite app_nil_r. reflexivity.
Qed.

(* srpc_iterate, OUT half, and supla_esp_devconn_iterate's retry are pieces of transport *)
Lemma drain_staged l : forall n, let '(a, b) := drain n l in staged b = ([], b).
Proof.
  induction l as [|[k r] l IH]; intros n; cbn [drain]; [reflexivity|].
  destruct (r <=? n) eqn:E.
  - specialize (IH (n - r)). destruct (drain (n - r) l) as [a b]. exact IH.
  - apply Z.leb_gt in E. cbn [staged]. destruct (r - n =? 0) eqn:E0; [apply Z.eqb_eq in E0; lia|reflexivity].
Qed.
Lemma staged_zeros_app z b : staged b = ([], b) -> staged (zeros z ++ b) = (z, b).
Proof. intros H. induction z as [|k z IH]; cbn [zeros map app staged]; [exact H|]. change (map (fun k0 => (k0, 0)) z) with (zeros z). rewrite IH. reflexivity. Qed.
Theorem dev_iterate_tp s : tp s (dev_iterate s).
Proof.
  unfold dev_iterate. destruct (conn s); [|apply tp_refl].
  pose proof (dw_tp [] 0 s ltac:(auto)) as D. pose proof (staged_split (obuf s)) as Sp. destruct (staged (obuf s)) as [z0 rest].
  cbv zeta in D. destruct D as (D1 & D2 & D3 & D4 & D5 & add & O & Dr & C).
  constructor; auto. exists add. split; [auto|]. split; [auto|]. intros L. rewrite app_assoc, (C L), D5, Sp, map_app, map_fst_zeros. reflexivity.
Qed.
Theorem iterate6_tp s : tp s (iterate6 s).
Proof.
  unfold iterate6. destruct (conn s); [|apply tp_refl].
  set (s1 := match queue s with k :: q => _ | [] => s end).
  assert (T1 : tp s s1).
  { unfold s1. destruct (queue s) as [|k q] eqn:EQ; [apply tp_refl|]. constructor; try reflexivity.
    exists []. split; [reflexivity|]. split; [reflexivity|]. intros _. cbn [wired app obuf queue set_obuf set_queue].
    rewrite EQ, map_app. cbn [map fst]. rewrite <- app_assoc. reflexivity. }
  pose proof (staged_split (obuf s1)) as Sp. destruct (staged (obuf s1)) as [z0 u] eqn:ES.
  pose proof (drain_split SRPC_CHUNK u) as Dr. destruct (drain SRPC_CHUNK u) as [done rest] eqn:ED.
  destruct (0 <? bytes u - bytes rest) eqn:En; [|exact T1]. apply Z.ltb_lt in En.
  eapply tp_trans; [exact T1|].
  set (s2 := set_obuf (zeros z0 ++ rest) s1).
  pose proof (dw_tp done (bytes u - bytes rest) s2 ltac:(lia)) as D.
  pose proof (drain_staged u SRPC_CHUNK) as DS. rewrite ED in DS.
  assert (E2 : staged (obuf s2) = (z0, rest)) by (unfold s2; cbn [obuf set_obuf]; apply staged_zeros_app; exact DS).
  rewrite E2 in D. cbv zeta in D. destruct D as (D1 & D2 & D3 & D4 & D5 & add & O & Dn & C).
  constructor; try (unfold s2 in *; cbn [gout slots reg conn set_obuf] in *; congruence).
  exists add. split; [exact O|]. split; [exact Dn|]. intros L.
  rewrite app_assoc, (C L), D5. unfold s2. cbn [queue set_obuf]. rewrite Sp, map_app, map_fst_zeros, Dr, <- !app_assoc. reflexivity.
Qed.

(* an iterate loses nothing, invents nothing and keeps the order -- unless the send buffer lost something *)
Theorem fifo_thm s :
  (forall add, outs (iterate6 s) = add ++ outs s -> lost add = []) ->
  accepted (iterate6 s) = accepted s /\ gout (iterate6 s) = gout s.
Proof.
  intros NL. destruct (iterate6_tp s) as [G _ _ _ (add & O & _ & C)]. split; [|exact G].
  unfold accepted. rewrite O, wired_app', <- app_assoc, (C (NL add O)). reflexivity.
Qed.
(* when the device is idle (nothing queued, nothing buffered) everything accepted is on the wire *)
Theorem idle_thm s : queue s = [] -> obuf s = [] -> wired (outs s) = accepted s.
Proof. intros Q B. unfold accepted. rewrite Q, B. cbn. rewrite app_nil_r. reflexivity. Qed.

(* ---------- the set-value handler ---------- *)
Definition results (l : list call) : list call := filter (fun k => match k with CRes _ _ _ => true | _ => false end) l.
Definition drops (l : list out) : list call := flat_map (fun o => match o with ODrop _ k => [k] | _ => [] end) l.

(* machine-checked witnesses of the known defect (queue of SRPC_QUEUE_SIZE = 2): *)
Definition cd_board : cfg6 :=
  {| c6 := mkcfg [rl 4 0 0 CHFLAG_COUNTDOWN; rl 5 1 0 0] false; c6_inputs := [] |}.
(* first timed command on a countdown-capable channel: timer state, value, result = 3 calls, the result is refused *)
Lemma burst3_refuted_thm :
  drops (run6 false cd_board [CReg; CSetV 0 1 3000 77; CIter; CIter; CIter]) = [CRes 0 77 1] /\
  wired (rev (run6 false cd_board [CReg; CSetV 0 1 3000 77; CIter; CIter; CIter])) = [CExt 0 3000 0 77; CVal 0 1].
Proof. vm_compute. split; reflexivity. Qed.
(* ... while a timer runs: disarm state, new timer state, value, result = 4 calls, value and result are refused *)
Lemma burst4_refuted_thm :
  drops (run6 false cd_board [CReg; CSetV 0 1 3000 77; CIter; CIter; CIter; CSetV 0 0 5000 78; CIter; CIter; CIter]) =
    [CRes 0 77 1; CVal 0 0; CRes 0 78 1].
Proof. vm_compute. reflexivity. Qed.
(* the same requests on a channel without countdown capability are answered *)
Lemma plain_answered_thm :
  drops (run6 false cd_board [CReg; CSetV 1 1 3000 77; CIter; CIter; CSetV 1 0 0 78; CIter; CIter]) = [] /\
  wired (rev (run6 false cd_board [CReg; CSetV 1 1 3000 77; CIter; CIter; CSetV 1 0 0 78; CIter; CIter])) =
    [CVal 1 1; CRes 1 77 1; CVal 1 0; CRes 1 78 1].
Proof. vm_compute. split; reflexivity. Qed.

(* ---------- which calls an operation issues: everything except the handler's own result is a value or a timer state ---------- *)
Definition isres (k : call) : bool := match k with CRes _ _ _ => true | _ => false end.

(* s' was reached from s issuing only calls that are not results: qa were queued, da were refused *)
Definition nores (s s' : st) : Prop :=
  exists qa add, queue s' = queue s ++ qa /\ outs s' = add ++ outs s /\
                 filter isres qa = [] /\ filter isres (new_drops add) = [] /\ conn s' = conn s.
Lemma nores_refl s : nores s s.
Proof. exists [], []. repeat split; auto. rewrite app_nil_r. reflexivity. Qed.
Lemma nores_trans a b c : nores a b -> nores b c -> nores a c.
Proof.
  intros (q1 & a1 & Q1 & O1 & F1 & D1 & C1) (q2 & a2 & Q2 & O2 & F2 & D2 & C2).
  exists (q1 ++ q2), (a2 ++ a1). repeat split.
  - rewrite Q2, Q1, app_assoc. reflexivity.
  - rewrite O2, O1, app_assoc. reflexivity.
  - rewrite filter_app, F1, F2. reflexivity.
  - rewrite new_drops_app, filter_app, D1, D2. reflexivity.
  - congruence.
Qed.
Lemma nores_same s s' : queue s' = queue s -> (exists add, outs s' = add ++ outs s /\ new_drops add = []) -> conn s' = conn s -> nores s s'.
Proof. intros Q (add & O & D) C. exists [], add. repeat split; auto. - rewrite app_nil_r; auto. - rewrite D. reflexivity. Qed.
Lemma nores_do_call k s : isres k = false -> nores s (do_call k s).
Proof.
  intros H. unfold do_call. destruct (_ <? _).
  - exists [k], []. repeat split; auto. cbn. rewrite H. reflexivity.
  - exists [], [ODrop (now s) k]. repeat split; auto. + rewrite app_nil_r; auto. + cbn. rewrite H. reflexivity.
Qed.
Lemma nores_value_changed ch v s : nores s (value_changed ch v s).
Proof. unfold value_changed. destruct (reg s); [apply nores_do_call; reflexivity|apply nores_refl]. Qed.
Lemma nores_ext_changed c ch s : nores s (ext_changed c ch s).
Proof. unfold ext_changed. destruct (reg s); [|apply nores_refl]. destruct (get_state _ _ _) as [[? ?] ?]. apply nores_do_call; reflexivity. Qed.
Ltac nores_plain := apply nores_same; [reflexivity|eexists; split; [reflexivity|reflexivity]|reflexivity].
Lemma nores_emit o s : (forall t k, o <> ODrop t k) -> nores s (emit o s).
Proof.
  intros H. apply nores_same; [reflexivity| |reflexivity]. exists [o]. split; [reflexivity|].
  destruct o; try reflexivity. exfalso. eapply H; reflexivity.
Qed.
Lemma nores_relay_hi c port hi s : nores s (relay_hi c port hi s).
Proof.
  unfold relay_hi.
  assert (K : forall b s0, nores s0 (delay_us 10 (delay_us DOUBLE_TRY_US (gpio_write port b (delay_us 10 s0))))).
  { intros b s0. unfold gpio_write. destruct (Bool.eqb _ _).
    - apply nores_same; [reflexivity|exists []; split; reflexivity|reflexivity].
    - apply nores_same; [reflexivity|eexists [_]; split; reflexivity|reflexivity]. }
  destruct (find_gpio _ _ _) as [[a r]|]; [|apply K]. destruct (_ || _); [|apply K].
  eapply nores_trans; [apply K|]. unfold save_state. destruct (0 <? _).
  - apply nores_same; [reflexivity|exists []; split; reflexivity|reflexivity].
  - apply nores_same; [reflexivity|eexists [_]; split; reflexivity|reflexivity].
Qed.
Lemma nores_chan_set_value c port v ch s : nores s (fst (chan_set_value c port v ch s)).
Proof. unfold chan_set_value. cbn [fst]. eapply nores_trans; [apply nores_relay_hi|apply nores_value_changed]. Qed.
Lemma nores_t2_set ch v s : nores s (t2_set ch v s).
Proof. unfold t2_set. destruct (_ <? _); [|apply nores_refl]. apply nores_same; [reflexivity|exists []; split; reflexivity|reflexivity]. Qed.
Lemma nores_startstop s : nores s (startstop s).
Proof.
  destruct (startstop_same s) as (_ & _ & _ & _ & _ & _ & O & _ & _ & _ & C & _ & Q & _).
  apply nores_same; auto. exists []. split; auto.
Qed.
Lemma nores_uptime s : nores s (fst (uptime_msec s)).
Proof. unfold uptime_msec, uptime_usec. cbn [fst]. apply nores_same; [reflexivity|eexists [_]; split; reflexivity|reflexivity]. Qed.
Lemma nores_cb_slot c a s : nores s (cb_slot c a s).
Proof.
  unfold cb_slot. destruct (active _); [|apply nores_refl].
  pose proof (nores_uptime s) as U. destruct (uptime_msec s) as [s1 u]. cbn [fst] in U.
  destruct (_ <=? _).
  - pose proof (nores_chan_set_value c (s_gpio (nth (Z.to_nat a) (slots s) slot_free))
        (if s_target (nth (Z.to_nat a) (slots s) slot_free) =? 0 then LO else HI) (s_chan (nth (Z.to_nat a) (slots s) slot_free)) s1) as P.
    destruct (chan_set_value _ _ _ _ s1) as [s3 ok]. cbn [fst] in P.
    eapply nores_trans; [exact U|]. eapply nores_trans; [exact P|]. eapply nores_trans; [apply nores_t2_set|].
    apply nores_same; [reflexivity|eexists [_]; split; reflexivity|reflexivity].
  - eapply nores_trans; [exact U|]. eapply nores_trans; [apply nores_t2_set|].
    apply nores_same; [reflexivity|exists []; split; reflexivity|reflexivity].
Qed.
Lemma nores_cd_cb c due s : nores s (cd_cb c due s).
Proof.
  rewrite cd_cb_eq. eapply nores_trans; [|apply nores_startstop].
  eapply nores_trans; [|apply nores_emit; intros; discriminate].
  rewrite cd_loop_unfold. repeat (eapply nores_trans; [|apply nores_cb_slot]). apply nores_emit; intros; discriminate.
Qed.
Lemma nores_disarm c ch s : nores s (disarm c ch s).
Proof.
  unfold disarm. destruct (find_slot _ _ _); [|apply nores_refl].
  set (s1 := set_slots _ s). assert (N1 : nores s s1) by (apply nores_same; [reflexivity|exists []; split; reflexivity|reflexivity]).
  destruct (0 <? _); auto. eapply nores_trans; [exact N1|]. eapply nores_trans; [apply nores_t2_set|].
  destruct (chflags_of _ _ _); [destruct (hasf _ _)|]; try apply nores_refl. apply nores_ext_changed.
Qed.
Lemma nores_countdown e c ms gpio ch tg sd s : nores s (countdown e c ms gpio ch tg sd s).
Proof.
  unfold countdown. set (s0 := if e then _ else s).
  assert (N0 : nores s s0) by (unfold s0; destruct e; [apply nores_cd_cb|apply nores_refl]).
  eapply nores_trans; [exact N0|]. unfold countdown_arm_slot.
  destruct (match find_slot _ _ _ with Some _ => _ | None => _ end); [|apply nores_refl].
  pose proof (nores_uptime s0) as U. destruct (uptime_msec s0) as [s1 u]. cbn [fst] in U.
  set (s2 := set_slots _ _). assert (N12 : nores s1 s2) by (apply nores_same; [reflexivity|eexists [_]; split; reflexivity|reflexivity]).
  eapply nores_trans; [exact U|]. eapply nores_trans; [exact N12|]. eapply nores_trans; [apply nores_t2_set|apply nores_startstop].
Qed.
Lemma nores_sdt e c ch nv dur sd s : nores s (set_duration_timer e c ch nv dur sd s).
Proof.
  unfold set_duration_timer.
  set (stair := (ch <? ST_T2_COUNT) && (ch <? T2_COUNT) && (0 <? getz (time2 s) ch)).
  set (s0 := if stair && (nv =? 0) then set_ram_t2 (setz (ram_t2 s) ch 0) s else s).
  set (dur1 := if stair then _ else dur).
  assert (F0 : nores s s0) by (unfold s0; destruct (stair && (nv =? 0)); [apply nores_same; [reflexivity|exists []; split; reflexivity|reflexivity]|apply nores_refl]).
  set (s1 := disarm c (u8 ch) s0). assert (F1 : nores s0 s1) by apply nores_disarm.
  pose proof (nores_trans _ _ _ F0 F1) as F01.
  destruct (0 <? dur1); auto. destruct (find_chan (c_relays c) 0 ch) as [[a r]|]; auto.
  set (f := getz (chfl s1) a).
  set (s2 := if (nv =? 1) || hasf f CHFLAG_COUNTDOWN then _ else s1).
  assert (F2 : nores s1 s2) by (unfold s2; destruct ((nv =? 1) || hasf f CHFLAG_COUNTDOWN); [apply nores_countdown|apply nores_refl]).
  eapply nores_trans; [exact F01|]. eapply nores_trans; [exact F2|].
  destruct (hasf f CHFLAG_COUNTDOWN); [apply nores_ext_changed|apply nores_refl].
Qed.

(* ---------- supla_esp_channel_set_value on an existing relay channel ---------- *)
(* The handler drives the relay to the requested level, and issues exactly one result: it carries the channel, the
   sender id of the request and Success = 1 (the read-back level matches the request).  Every other call it issues is a
   value or a timer state.  "Issued" = handed to srpc_async_call: queued when the queue has room, refused otherwise. *)
Theorem set_value_thm e c ch v dur sender a r s :
  wf_cfg c -> In r (c_relays c) -> find_chan (c_relays c) 0 ch = Some (a, r) -> find_gpio (c_relays c) 0 (r_gpio r) = Some (a, r) ->
  conn s = true ->
  let s' := channel_set_value e c ch v dur sender s in
  level r s' = (v =? 1) /\
  exists qa add, queue s' = queue s ++ qa /\ outs s' = add ++ outs s /\
    filter isres (qa ++ new_drops add) = [CRes ch sender 1].
Proof.
  intros W Hr EFC EFG Hc. cbv zeta. unfold channel_set_value. rewrite EFC.
  set (s1 := set_duration_timer e c (r_chan r) v (s32 dur) sender s).
  pose proof (nores_sdt e c (r_chan r) v (s32 dur) sender s) as N1. fold s1 in N1.
  pose proof (chan_set_value_thm c a r v ch s1 W Hr EFG) as CS.
  pose proof (nores_chan_set_value c (r_gpio r) v ch s1) as N2.
  destruct (chan_set_value c (r_gpio r) v ch s1) as [s2 ok]. cbn [fst] in N2.
  destruct CS as (LV & -> & _).
  destruct (nores_trans _ _ _ N1 N2) as (qa & add & Q & O & F & D & C).
  split.
  - unfold level, pin. rewrite gout_set_result. exact LV.
  - unfold set_result. rewrite C, Hc. unfold do_call. destruct (_ <? _).
    + exists (qa ++ [CRes ch sender 1]), add. cbn [queue outs set_queue]. repeat split.
      * rewrite Q, app_assoc. reflexivity.
      * exact O.
      * rewrite !filter_app, F, D. reflexivity.
    + exists qa, (ODrop (now s2) (CRes ch sender 1) :: add). cbn [queue outs emit set_outs]. repeat split; auto.
      * rewrite O. reflexivity.
      * cbn [new_drops]. rewrite !filter_app, F, D. reflexivity.
Qed.

(* _except_known form: when the out-queue had room for every call of the handler (H_queue_room: nothing was refused),
   the one result is in the queue, behind everything issued before it, and fifo_thm / idle_thm carry it to the wire *)
Theorem set_value_result_queued_thm e c ch v dur sender a r s :
  wf_cfg c -> In r (c_relays c) -> find_chan (c_relays c) 0 ch = Some (a, r) -> find_gpio (c_relays c) 0 (r_gpio r) = Some (a, r) ->
  conn s = true ->
  let s' := channel_set_value e c ch v dur sender s in
  (forall add, outs s' = add ++ outs s -> new_drops add = []) ->
  exists qa, queue s' = queue s ++ qa /\ filter isres qa = [CRes ch sender 1].
Proof.
  intros W Hr EFC EFG Hc s' Room.
  destruct (set_value_thm e c ch v dur sender a r s W Hr EFC EFG Hc) as (_ & qa & add & Q & O & F).
  exists qa. split; auto. fold s' in O. rewrite (Room add O), app_nil_r in F. exact F.
Qed.
