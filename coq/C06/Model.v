(* C06 — Relay output follows the last command and the server is told the truth.
   Executable model on top of C07/Model.v (relay table, GPIO bits, countdown slots): the connected and registered
   device, the srpc out-queue of SRPC_QUEUE_SIZE entries drained by one call per iterate, the byte stream of
   SRPC_BUFFER_SIZE bytes per iterate, supla_esp_channel_set_value / supla_esp_channelgroup_set_value (relay
   branch), supla_esp_gpio_on_input_active / _inactive (non-shutter branch) and timer expiries as events.
   Definitions only. *)
From Coq Require Import List ZArith Bool.
Import ListNotations.
From V Require Import Base.U32 Base.Bytes Base.Iface Gen.RelayConsts C07.Model.
Local Open Scope Z_scope.

Record input := { i_type : Z; i_flags : Z; i_relay : Z; i_chan : Z }.
Record cfg6 := { c6 : cfg; c6_inputs : list input }.

Inductive ev6 :=
| CReg                              (* connected, registered, everything of the handshake flushed *)
| CIter                             (* supla_esp_devconn_iterate *)
| CSetV (ch v dur sender : Z)       (* SUPLA_SD_CALL_CHANNEL_SET_VALUE arrives (handler + the iterate of recv_cb) *)
| CGrp (ch v dur : Z)               (* SUPLA_SD_CALL_CHANNELGROUP_SET_VALUE *)
| CBtn (idx act : Z)                (* supla_esp_gpio_on_input_active (act<>0) / _inactive (act=0) of input idx *)
| CTick (dt : Z)                    (* dt microseconds pass, then the countdown callback runs (a timer expiry) *)
| CTime2 (ch ms : Z)                (* staircase time of a channel changed *)
| COtherEv
| CChCfg (ch func ctype csize ms : Z)   (* supla_esp_channel_config_result (as C07's EChCfg) *)
| CSent (rs : list Z)                   (* the TCP layer: results of the next espconn_sent calls (0 afterwards) *)
| CAdv (dt : Z)                         (* dt microseconds pass with the SDK timers running (countdown, state save, uptime poll) *)
| CBurst (l : list Z).                  (* several SET_VALUE frames (ch v dur sender)* in ONE receive callback *)

Definition frame_size (k : call) : Z :=
  FRAME_OVERHEAD + match k with CVal _ _ => SIZE_VALUE_MSG | CRes _ _ _ => SIZE_RESULT_MSG | CExt _ _ _ _ => SIZE_EXT_MSG | COther _ => 0 end.

(* sproto_pop_out_data: up to n bytes leave the out buffer; a frame is on the wire when its last byte left *)
Fixpoint drain (n : Z) (l : list (call * Z)) : list call * list (call * Z) :=
  match l with
  | [] => ([], [])
  | (k, r) :: t => if r <=? n then let '(a, b) := drain (n - r) t in (k :: a, b) else ([], (k, r - n) :: t)
  end.
(* ---------- devconn's send buffer (supla_esp_data_write) ----------
   Bytes popped from the proto buffer that espconn_sent refused (INPROGRESS / MAXNUM) wait in esp_send_buffer and are
   retried before anything else is written.  A frame whose last byte has been popped but not yet accepted stays in
   `obuf` with 0 bytes left (a prefix of such entries = the frames completed inside the send buffer); sb_n = number of
   bytes staged.  sres = scripted results of the next espconn_sent calls. *)
Definition bytes (l : list (call * Z)) : Z := fold_left (fun acc kr => acc + snd kr) l 0.
Fixpoint staged (l : list (call * Z)) : list call * list (call * Z) :=
  match l with
  | (k, r) :: t => if r =? 0 then let '(a, b) := staged t in (k :: a, b) else ([], l)
  | [] => ([], [])
  end.
Definition zeros (ks : list call) : list (call * Z) := map (fun k => (k, 0)) ks.
Definition sent_res (s : st) : Z * st := match sres s with r :: t => (r, set_sres t s) | [] => (0, s) end.
Definition put_wire (ks : list call) (s : st) : st := fold_left (fun acc k => emit (OWire (now s) k) acc) ks s.
Definition lose (ks : list call) (s : st) : st := fold_left (fun acc k => emit (OLost (now s) k) acc) ks s.
(* supla_esp_data_write(buf, n): ks = the frames that end inside buf *)
Definition dw (ks : list call) (n : Z) (s : st) : st :=
  let '(z0, rest) := staged (obuf s) in
  let '(z1, s1) := if 0 <? sb_n s then
                     let '(r, s') := sent_res s in
                     if r =? 0 then ([], put_wire z0 (set_sb_n 0 s')) else (z0, s')
                   else (z0, s) in
  if 0 <? sb_n s1 then
    if 0 <? n then
      if SEND_BUF <? sb_n s1 + n then set_obuf (zeros z1 ++ rest) (lose ks s1)
      else set_obuf (zeros (z1 ++ ks) ++ rest) (set_sb_n (sb_n s1 + n) s1)
    else set_obuf (zeros z1 ++ rest) s1
  else if 0 <? n then
    let '(r, s2) := sent_res s1 in
    if (r =? SENT_INPROGRESS) || (r =? SENT_MAXNUM) then
      if SEND_BUF <? n then set_obuf (zeros z1 ++ rest) (lose ks s2)
      else set_obuf (zeros (z1 ++ ks) ++ rest) (set_sb_n n s2)
    else if r =? 0 then set_obuf rest (put_wire (z1 ++ ks) s2)       (* nothing is staged here: z1 = [] *)
    else set_obuf (zeros z1 ++ rest) (lose ks s2)
  else set_obuf (zeros z1 ++ rest) s1.

(* srpc_iterate, OUT half: one call leaves the queue, up to SRPC_BUFFER_SIZE bytes leave the proto buffer and are handed
   to supla_esp_data_write *)
Definition iterate6 (s : st) : st :=
  if conn s then
    let s1 := match queue s with
              | k :: q => set_obuf (obuf s ++ [(k, frame_size k)]) (set_queue q s)
              | [] => s end in
    let '(z0, u) := staged (obuf s1) in
    let '(done, rest) := drain SRPC_CHUNK u in
    let n := bytes u - bytes rest in
    if 0 <? n then dw done n (set_obuf (zeros z0 ++ rest) s1) else s1
  else s.
(* supla_esp_devconn_iterate: the staged bytes are retried first *)
Definition dev_iterate (s : st) : st := if conn s then dw [] 0 s else s.

(* ---------- the receive side ----------
   supla_esp_devconn_recv_cb appends the segment to the receive buffer and runs one supla_esp_devconn_iterate;
   srpc_iterate moves up to SRPC_BUFFER_SIZE bytes on and handles ONE frame per call: requests that arrived together wait
   in `inq` (oldest first) for the following iterates.  (Frames are shorter than SRPC_BUFFER_SIZE, so a complete one is
   always available while any is pending; segments that overflow the 1024-byte buffers are outside the model.) *)
Fixpoint reqs (l : list Z) : list (Z * Z * Z * Z) :=
  match l with ch :: v :: d :: sd :: t => (ch, v, d, sd) :: reqs t | _ => [] end.
Definition handle1 (e : bool) (c : cfg) (s : st) : st :=
  match inq s with
  | (ch, v, d, sd) :: t => channel_set_value e c (u8 ch) v d sd (set_inq t s)
  | [] => s
  end.
Definition dev_step (e : bool) (c : cfg) (s : st) : st := iterate6 (handle1 e c (dev_iterate s)).
Definition recv (e : bool) (c : cfg) (l : list (Z * Z * Z * Z)) (s : st) : st := dev_step e c (set_inq (inq s ++ l) s).

(* supla_esp_gpio_on_input_active / _inactive, non-shutter branch, no action triggers configured *)
Definition on_input (e : bool) (c : cfg) (i : input) (act : bool) (s : st) : st :=
  let mono := (i_type i =? IN_MONO) && (if act then hasf (i_flags i) IN_FLAG_ON_PRESS else negb (hasf (i_flags i) IN_FLAG_ON_PRESS)) in
  if (mono || (i_type i =? IN_BI) || (i_type i =? IN_MOTION)) && negb (i_relay i =? 255) then
    relay_switch e c (i_relay i) (if i_type i =? IN_MOTION then (if act then 1 else 0) else 255) s
  else if (i_type i =? IN_SENSOR) && negb (i_chan i =? 255) then value_changed (i_chan i) (if act then 1 else 0) s
  else s.

Definition q_line (s : st) : out :=
  OSt (now s) (len (queue s)) (bytes (obuf s)) [sb_n s].

Definition step6 (e : bool) (c : cfg6) (s : st) (x : ev6) : st :=
  let s1 := match x with
            | CReg => set_inq [] (set_sres [] (set_sb_n 0 (set_obuf [] (set_queue [] (set_regreq true (set_reg true (set_conn true
                        (set_chfl (map r_chfl (c_relays (c6 c))) s))))))))
            | CIter => dev_step e (c6 c) s
            | CSetV ch v dur sender => recv e (c6 c) [(ch, v, dur, sender)] s
            | CGrp ch v dur => recv e (c6 c) [(ch, v, dur, 0)] s
            | CBtn idx act => match nth_error (c6_inputs c) (Z.to_nat idx) with
                              | Some i => if idx <? 0 then s else on_input e (c6 c) i (negb (act =? 0)) s
                              | None => s end
            | CTick dt => if dt <? 0 then s else cd_cb (c6 c) 0 (set_now (now s + dt) s)
            | CTime2 ch ms => if (0 <=? ch) && (ch <? T2_COUNT) then set_time2 (setz (time2 s) ch ms) s else s
            | COtherEv => emit OUnknown s
            | CChCfg ch func ctype csize ms => channel_config e (c6 c) ch func ctype csize ms s
            | CSent rs => set_sres rs s
            | CAdv dt => if dt <? 0 then s else advance e (c6 c) dt s
            | CBurst l => recv e (c6 c) (reqs l) s
            end in
  emit (q_line s1) s1.

(* supla_esp_gpio_init skips the relays owned by a motion-sensor input (first input naming the relay) *)
Fixpoint owner (l : list input) (g : Z) : option input :=
  match l with [] => None | i :: t => if i_relay i =? g then Some i else owner t g end.
Definition restorable (c : cfg6) (ar : Z * relay) : bool :=
  match owner (c6_inputs c) (r_gpio (snd ar)) with Some i => negb (i_type i =? IN_MOTION) | None => true end.
Definition start6 (e : bool) (c : cfg6) : st :=
  let s := boot_l e (c6 c) (filter (restorable c) (enum 0 (c_relays (c6 c)))) (init (c6 c)) in emit (q_line s) s.
Definition run6 (e : bool) (c : cfg6) (evs : list ev6) : list out := rev (outs (fold_left (step6 e c) evs (start6 e c))).

(* ---------- wire interface ---------- *)
Fixpoint take_inputs (n : nat) (l : list Z) : list input :=
  match n with
  | O => []
  | S k => match l with
           | _ :: ty :: fl :: rg :: ch :: t => {| i_type := ty; i_flags := fl; i_relay := rg; i_chan := ch |} :: take_inputs k t
           | _ => []
           end
  end.
Definition cfg6_of_ints (l : list Z) : cfg6 :=
  let '(c, rest) := cfg_of_ints l in
  {| c6 := c; c6_inputs := match rest with n :: t => take_inputs (Z.to_nat n) t | [] => [] end |}.
Definition ev6_of_wire (w : wire) : ev6 :=
  match w with
  | (k, a, _) =>
    if k =? 1 then CReg else if k =? 2 then CIter
    else if k =? 3 then match a with [ch; v; d; sd] => CSetV ch v d sd | _ => COtherEv end
    else if k =? 4 then match a with [ch; v; d] => CGrp ch v d | _ => COtherEv end
    else if k =? 5 then match a with [i; act] => CBtn i act | _ => COtherEv end
    else if k =? 6 then match a with [dt] => CTick dt | _ => COtherEv end
    else if k =? 7 then match a with [ch; ms] => CTime2 ch ms | _ => COtherEv end
    else if k =? 8 then match a with [ch; f; ct; cs; ms] => CChCfg ch f ct cs ms | _ => COtherEv end
    else if k =? 9 then CSent a
    else if k =? 10 then match a with [dt] => CAdv dt | _ => COtherEv end
    else if k =? 11 then CBurst a
    else COtherEv
  end.
Definition call_id (k : call) : Z :=
  match k with CVal _ _ => CALL_VALUE_CHANGED | CRes _ _ _ => CALL_SET_VALUE_RESULT | CExt _ _ _ _ => CALL_EXTVALUE_CHANGED | COther i => i end.
Definition wire_of_out6 (o : out) : list wire :=
  match o with
  | OGpio t p l => [mk 0 [t; p; l] []]
  | OUnknown => [mk 5 [] []]
  | OFuel => [mk 4 [] []]
  | OWire t (CVal ch v) => [mk 10 [t; ch; v] []]
  | OWire t (CRes ch sd ok) => [mk 11 [t; ch; sd; ok] []]
  | OWire t (CExt ch rm tg sd) => [mk 12 [t; ch; rm; tg; sd] []]
  | OWire t (COther i) => [mk 15 [t; i] []]
  | ODrop t k => [mk 13 [t; call_id k] []]
  | OSt t q b l => [mk 14 (t :: q :: b :: l) []]
  | _ => []
  end.
Definition run_wire6 (e : bool) (ws : list wire) : list wire :=
  match ws with
  | (_, a, _) :: t => flat_map wire_of_out6 (run6 e (cfg6_of_ints a) (map ev6_of_wire t))
  | [] => []
  end.
Definition main_wire (ws : list wire) : list wire := run_wire6 CURRENT_EVALCMD ws.
