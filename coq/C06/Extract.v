From Coq Require Import Extraction ExtrOcamlBasic.
From V Require Import C06.Model.
Extraction Language OCaml.
Extraction "model.ml" main_wire run_wire6.
