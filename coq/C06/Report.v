(* C06 — "the last reported value equals the real state whenever the device is idle" as an invariant of whole
   histories (from registration on, outside the out-queue findings: H_queue_room = no call was refused). *)
From Coq Require Import List ZArith Lia Bool.
Import ListNotations.
From V Require Import Base.U32 Base.Bytes Base.Iface Gen.RelayConsts C07.Model C07.Proofs C06.Model C06.Proofs.
Local Open Scope Z_scope.

(* ---------- the last value reported for a channel in a sequence of calls ---------- *)
Fixpoint lastval (l : list call) (ch : Z) : option Z :=
  match l with
  | [] => None
  | k :: t => match lastval t ch with
              | Some v => Some v
              | None => match k with CVal c v => if c =? ch then Some v else None | _ => None end
              end
  end.
Lemma lastval_app a b ch : lastval (a ++ b) ch = match lastval b ch with Some v => Some v | None => lastval a ch end.
Proof.
  induction a as [|k a IH]; cbn; [destruct (lastval b ch); reflexivity|].
  rewrite IH. destruct (lastval b ch); reflexivity.
Qed.
Definition b2z (b : bool) : Z := if b then 1 else 0.

Lemma wired_app a b : wired (a ++ b) = wired b ++ wired a.
Proof.
  induction a as [|o a IH]; cbn [app wired]; [rewrite app_nil_r; reflexivity|].
  destruct o; auto. rewrite IH, app_assoc. reflexivity.
Qed.

(* ---------- boards: gpios and channels pairwise different ---------- *)
Lemma find_gpio_nodup rs : NoDup (map r_gpio rs) -> forall idx r, In r rs -> exists a, find_gpio rs idx (r_gpio r) = Some (a, r).
Proof.
  induction rs as [|x rs IH]; intros ND idx r Hr; [contradiction|]. cbn [find_gpio]. cbn [map] in ND. inversion ND as [|? ? Nin ND']; subst.
  destruct (r_gpio x =? r_gpio r) eqn:E.
  - apply Z.eqb_eq in E. destruct Hr as [<-|Hr]; [eexists; reflexivity|].
    exfalso. apply Nin. rewrite E. apply in_map. exact Hr.
  - destruct Hr as [<-|Hr]; [rewrite Z.eqb_refl in E; discriminate|]. apply IH; auto.
Qed.
Lemma find_chan_nodup rs : NoDup (map r_chan rs) -> forall idx r, In r rs -> exists a, find_chan rs idx (r_chan r) = Some (a, r).
Proof.
  induction rs as [|x rs IH]; intros ND idx r Hr; [contradiction|]. cbn [find_chan]. cbn [map] in ND. inversion ND as [|? ? Nin ND']; subst.
  destruct (r_chan x =? r_chan r) eqn:E.
  - apply Z.eqb_eq in E. destruct Hr as [<-|Hr]; [eexists; reflexivity|].
    exfalso. apply Nin. rewrite E. apply in_map. exact Hr.
  - destruct Hr as [<-|Hr]; [rewrite Z.eqb_refl in E; discriminate|]. apply IH; auto.
Qed.
Lemma nodup_map_inj {A} (f : A -> Z) l x y : NoDup (map f l) -> In x l -> In y l -> f x = f y -> x = y.
Proof.
  induction l as [|z l IH]; intros ND Hx Hy E; [contradiction|]. cbn [map] in ND. inversion ND as [|? ? Nin ND']; subst.
  destruct Hx as [<-|Hx], Hy as [<-|Hy]; auto.
  - exfalso. apply Nin. rewrite E. apply in_map. exact Hy.
  - exfalso. apply Nin. rewrite <- E. apply in_map. exact Hx.
Qed.
Lemma find_gpio_some rs : forall idx port a r, find_gpio rs idx port = Some (a, r) -> In r rs /\ r_gpio r = port.
Proof.
  induction rs as [|x rs IH]; intros idx port a r H; cbn in H; [discriminate|].
  destruct (r_gpio x =? port) eqn:E.
  - injection H as <- <-. apply Z.eqb_eq in E. split; cbn; auto.
  - apply IH in H. destruct H. split; cbn; auto.
Qed.

(* ---------- pins of the other relays ---------- *)
Lemma pin_gpio_write_other port v s p : 0 <= port -> 0 <= p -> p <> port -> pin (gpio_write port v s) p = pin s p.
Proof.
  intros Hp Hq Ne. unfold gpio_write. destruct (Bool.eqb _ _); auto.
  unfold pin. cbn [gout emit set_outs set_gout]. destruct v; [apply Z.setbit_neq|apply Z.clearbit_neq]; auto.
Qed.
Lemma pin_relay_hi_other c port hi s p : 0 <= port -> 0 <= p -> p <> port -> pin (relay_hi c port hi s) p = pin s p.
Proof.
  intros Hp Hq Ne. unfold relay_hi.
  assert (K : forall b, pin (delay_us 10 (delay_us DOUBLE_TRY_US (gpio_write port b (delay_us 10 s)))) p = pin s p).
  { intros b. unfold pin. cbn [gout delay_us set_now]. apply (pin_gpio_write_other port b (delay_us 10 s) p Hp Hq Ne). }
  destruct (find_gpio _ _ _) as [[a r]|]; [|apply K]. destruct (_ || _); [|apply K].
  unfold pin in *. rewrite gout_save_state. cbn [gout set_ram_relay]. apply K.
Qed.
Lemma level_gout r s s' : gout s' = gout s -> level r s' = level r s.
Proof. intros E. unfold level, pin. rewrite E. reflexivity. Qed.

(* ---------- the step relation ---------- *)
Section Board.
Variable c : cfg.
Hypothesis W : wf_cfg c.
Hypothesis NDg : NoDup (map r_gpio (c_relays c)).
Hypothesis NDc : NoDup (map r_chan (c_relays c)).

(* every running slot names a relay of the board: its channel and that relay's gpio *)
Definition SlotRel (s : st) : Prop :=
  forall x, In x (slots s) -> active x = true ->
    exists r, In r (c_relays c) /\ r_chan r = s_chan x /\ r_gpio r = s_gpio x.

(* what the calls qa issued between s and s' say about relay r: if a value was reported for its channel, the last one
   is its level in s'; if none was, the level did not change *)
Definition upd_ok (r : relay) (qa : list call) (s s' : st) : Prop :=
  match lastval qa (r_chan r) with Some v => v = b2z (level r s') | None => level r s' = level r s end.

Definition RR (s s' : st) : Prop :=
  SlotRel s ->
  SlotRel s' /\ reg s' = reg s /\ obuf s' = obuf s /\ conn s' = conn s /\
  exists qa add, queue s' = queue s ++ qa /\ outs s' = add ++ outs s /\ wired add = [] /\
    (reg s = true -> new_drops add = [] -> forall r, In r (c_relays c) -> upd_ok r qa s s').

Lemma RR_intro s s' qa add :
  (SlotRel s -> SlotRel s') -> reg s' = reg s -> obuf s' = obuf s -> conn s' = conn s ->
  queue s' = queue s ++ qa -> outs s' = add ++ outs s -> wired add = [] ->
  (reg s = true -> new_drops add = [] -> forall r, In r (c_relays c) -> upd_ok r qa s s') -> RR s s'.
Proof.
  intros A B C D E F G H SR. split; [auto|]. split; [auto|]. split; [auto|]. split; [auto|].
  exists qa, add. split; [auto|]. split; [auto|]. split; auto.
Qed.
Lemma RR_refl s : RR s s.
Proof.
  apply (RR_intro s s [] []); auto. - rewrite app_nil_r; auto. - intros _ _ r _. unfold upd_ok. cbn. reflexivity.
Qed.
Lemma RR_trans a b d : RR a b -> RR b d -> RR a d.
Proof.
  intros H1 H2 SR. destruct (H1 SR) as (S1 & R1 & B1 & C1 & q1 & a1 & Q1 & O1 & W1 & U1).
  destruct (H2 S1) as (S2 & R2 & B2 & C2 & q2 & a2 & Q2 & O2 & W2 & U2).
  split; [auto|]. split; [congruence|]. split; [congruence|]. split; [congruence|].
  exists (q1 ++ q2), (a2 ++ a1). split; [rewrite Q2, Q1, app_assoc; reflexivity|].
  split; [rewrite O2, O1, app_assoc; reflexivity|]. split; [rewrite wired_app, W1, W2; reflexivity|].
  intros Hr ND r Hin. rewrite new_drops_app in ND. apply app_eq_nil in ND. destruct ND as [ND1 ND2].
  specialize (U1 Hr ND1 r Hin). specialize (U2 ltac:(congruence) ND2 r Hin).
  unfold upd_ok in *. rewrite lastval_app. destruct (lastval q2 (r_chan r)); auto.
  destruct (lastval q1 (r_chan r)); congruence.
Qed.

(* an operation that leaves outputs, queue, buffer and slot table alone *)
Lemma RR_quiet s s' :
  slots s' = slots s -> gout s' = gout s -> queue s' = queue s -> obuf s' = obuf s -> reg s' = reg s -> conn s' = conn s ->
  (exists add, outs s' = add ++ outs s /\ wired add = []) -> RR s s'.
Proof.
  intros E1 E2 E3 E4 E5 E6 (add & O & Wd).
  apply (RR_intro s s' [] add); auto.
  - intros SR x Hx. rewrite E1 in Hx. auto.
  - rewrite app_nil_r; auto.
  - intros _ _ r _. unfold upd_ok. cbn. apply level_gout; auto.
Qed.

(* a call that is no value of a relay channel *)
Lemma RR_do_call k s : (forall ch v, k = CVal ch v -> forall r, In r (c_relays c) -> r_chan r <> ch) -> RR s (do_call k s).
Proof.
  intros H. unfold do_call. destruct (_ <? _).
  - apply (RR_intro s _ [k] []); auto.
    intros _ _ r Hr. unfold upd_ok. cbn [lastval]. destruct k as [ch v| | |]; try reflexivity.
    destruct (ch =? r_chan r) eqn:E; [|reflexivity]. apply Z.eqb_eq in E. exfalso. apply (H ch v eq_refl r Hr). auto.
  - apply (RR_intro s _ [] [ODrop (now s) k]); auto. + rewrite app_nil_r; auto.
    + intros _ ND. cbn in ND. discriminate.
Qed.
Lemma RR_ext_changed ch s : RR s (ext_changed c ch s).
Proof.
  unfold ext_changed. destruct (reg s); [|apply RR_refl]. destruct (get_state _ _ _) as [[? ?] ?].
  apply RR_do_call. intros; discriminate.
Qed.
Lemma RR_set_result ch sd ok s : RR s (set_result ch sd ok s).
Proof. unfold set_result. destruct (conn s); [|apply RR_refl]. apply RR_do_call. intros; discriminate. Qed.
Lemma RR_value_changed_other ch v s : (forall r, In r (c_relays c) -> r_chan r <> ch) -> RR s (value_changed ch v s).
Proof.
  intros H. unfold value_changed. destruct (reg s); [|apply RR_refl]. apply RR_do_call.
  intros ch' v' E. injection E as <- <-. exact H.
Qed.

(* what relay_hi leaves alone *)
Definition QT (s s' : st) : Prop :=
  queue s' = queue s /\ obuf s' = obuf s /\ exists a1, outs s' = a1 ++ outs s /\ wired a1 = [] /\ new_drops a1 = [].
Lemma QT_refl s : QT s s.
Proof. split; [auto|]. split; [auto|]. exists []. auto. Qed.
Lemma QT_trans a b d : QT a b -> QT b d -> QT a d.
Proof.
  intros (Q1 & B1 & a1 & O1 & W1 & D1) (Q2 & B2 & a2 & O2 & W2 & D2).
  split; [congruence|]. split; [congruence|]. exists (a2 ++ a1). split; [rewrite O2, O1, app_assoc; reflexivity|].
  split; [rewrite wired_app, W1, W2; reflexivity|rewrite new_drops_app, D1, D2; reflexivity].
Qed.
Lemma QT_same s s' : queue s' = queue s -> obuf s' = obuf s -> outs s' = outs s -> QT s s'.
Proof. intros A B C0. split; [auto|]. split; [auto|]. exists []. auto. Qed.
Lemma QT_gpio_write port v s : QT s (gpio_write port v s).
Proof.
  unfold gpio_write. destruct (Bool.eqb _ _); [apply QT_refl|].
  split; [reflexivity|]. split; [reflexivity|]. eexists [_]. split; [reflexivity|]. split; reflexivity.
Qed.
Lemma QT_save_state ms s : QT s (save_state ms s).
Proof.
  unfold save_state. destruct (0 <? ms); [apply QT_same; reflexivity|].
  split; [reflexivity|]. split; [reflexivity|]. eexists [_]. split; [reflexivity|]. split; reflexivity.
Qed.
Lemma relay_hi_quiet port hi s : QT s (relay_hi c port hi s).
Proof.
  unfold relay_hi.
  assert (K : forall b, QT s (delay_us 10 (delay_us DOUBLE_TRY_US (gpio_write port b (delay_us 10 s))))).
  { intros b. apply (QT_trans s (delay_us 10 s)); [apply QT_same; reflexivity|].
    apply (QT_trans _ (gpio_write port b (delay_us 10 s))); [apply QT_gpio_write|]. apply QT_same; reflexivity. }
  destruct (find_gpio _ _ _) as [[a r]|]; [|apply K]. destruct (_ || _); [|apply K].
  eapply QT_trans; [apply K|]. eapply QT_trans; [|apply QT_save_state]. apply QT_same; reflexivity.
Qed.

(* the unit of change: drive relay r0 and report its (read-back) level on its channel *)
Lemma RR_unit port hi r0 v s :
  In r0 (c_relays c) -> r_gpio r0 = port ->
  v = b2z (level r0 (relay_hi c port hi s)) ->
  RR s (value_changed (r_chan r0) v (relay_hi c port hi s)).
Proof.
  intros Hr0 Ep Ev. 
  pose proof (passive_relay_hi c port hi s) as P.
  destruct (relay_hi_quiet port hi s) as (Q1' & B1 & a1 & O1 & W1 & ND1).
  set (s1 := relay_hi c port hi s) in *.
  assert (Hg0 : 0 <= port) by (rewrite <- Ep; apply (wf_gpio _ W r0 Hr0)).
  assert (Other : forall r, In r (c_relays c) -> r <> r0 -> level r s1 = level r s /\ r_chan r <> r_chan r0).
  { intros r Hr Ne. split.
    - unfold level. f_equal. apply pin_relay_hi_other; auto. + apply (wf_gpio _ W r Hr).
      + intros E. apply Ne. apply (nodup_map_inj r_gpio (c_relays c)); auto. congruence.
    - intros E. apply Ne. apply (nodup_map_inj r_chan (c_relays c)); auto. }
  assert (SRp : SlotRel s -> SlotRel s1) by (intros SR x Hx; rewrite (pa_slots _ _ P) in Hx; auto).
  unfold value_changed. rewrite (pa_reg _ _ P). destruct (reg s) eqn:Hreg.
  2:{ apply (RR_intro s s1 [] a1 SRp (pa_reg _ _ P) B1 (pa_conn _ _ P)).
      - rewrite app_nil_r; auto. - exact O1. - exact W1. - rewrite Hreg. intros; discriminate. }
  unfold do_call. destruct (_ <? _).
  - apply RR_intro with (qa := [CVal (r_chan r0) v]) (add := a1).
    + exact SRp. + exact (pa_reg _ _ P). + exact B1. + exact (pa_conn _ _ P).
    + cbn [queue set_queue]. rewrite Q1'; reflexivity. + exact O1. + exact W1.
    + intros _ _ r Hr. unfold upd_ok. cbn [lastval].
      destruct (r_chan r0 =? r_chan r) eqn:E.
      * apply Z.eqb_eq in E. assert (r = r0) by (apply (nodup_map_inj r_chan (c_relays c)); auto). subst r.
        rewrite Ev. reflexivity.
      * apply Z.eqb_neq in E. assert (r <> r0) by congruence. destruct (Other r Hr H) as [L _]. rewrite <- L. apply level_gout. reflexivity.
  - apply RR_intro with (qa := []) (add := ODrop (now s1) (CVal (r_chan r0) v) :: a1).
    + exact SRp. + exact (pa_reg _ _ P). + exact B1. + exact (pa_conn _ _ P).
    + cbn [queue emit set_outs]. rewrite Q1', app_nil_r; reflexivity. + cbn [outs emit set_outs]. rewrite O1; reflexivity. + exact W1.
    + intros _ ND. cbn [new_drops] in ND. apply app_eq_nil in ND. destruct ND as [_ ND]. discriminate.
Qed.

(* ---------- the walk over every operation of the relay / countdown machinery ---------- *)
Lemma HI1 : HI = 1. Proof. exact (cf_hi consts_ok). Qed.
Lemma LO0 : LO = 0. Proof. exact (cf_lo consts_ok). Qed.
Lemma relay_is_hi_b2z r0 s : In r0 (c_relays c) -> relay_is_hi c (r_gpio r0) s = b2z (level r0 s).
Proof.
  intros Hr. destruct (find_gpio_nodup _ NDg 0 r0 Hr) as (a & E). rewrite (relay_is_hi_level c a r0 s E).
  rewrite HI1, LO0. destruct (level r0 s); reflexivity.
Qed.
Lemma RR_chan_set_value r0 v s : In r0 (c_relays c) -> RR s (fst (chan_set_value c (r_gpio r0) v (r_chan r0) s)).
Proof.
  intros Hr. unfold chan_set_value. cbn [fst]. apply RR_unit; auto.
  rewrite (relay_is_hi_b2z r0 _ Hr). rewrite HI1. destruct (level r0 _); reflexivity.
Qed.
Lemma RR_switch_unit r0 hi s : In r0 (c_relays c) ->
  RR s (value_changed (r_chan r0) (relay_is_hi c (r_gpio r0) (relay_hi c (r_gpio r0) hi s)) (relay_hi c (r_gpio r0) hi s)).
Proof. intros Hr. apply RR_unit; auto. apply relay_is_hi_b2z; auto. Qed.

Lemma RR_t2_set ch v s : RR s (t2_set ch v s).
Proof. unfold t2_set. destruct (_ <? _); [|apply RR_refl]. apply RR_quiet; try reflexivity. exists []; split; reflexivity. Qed.
Lemma RR_startstop s : RR s (startstop s).
Proof.
  unfold startstop. destruct (_ || _); [destruct (0 <? _)|]; try apply RR_refl; apply RR_quiet; try reflexivity; exists []; split; reflexivity.
Qed.
Lemma RR_uptime s : RR s (fst (uptime_msec s)).
Proof. unfold uptime_msec, uptime_usec. cbn [fst]. apply RR_quiet; try reflexivity. eexists [_]; split; reflexivity. Qed.
Lemma RR_emit o s : (forall t k, o <> OWire t k) -> RR s (emit o s).
Proof.
  intros H. apply RR_quiet; try reflexivity. exists [o]. split; [reflexivity|].
  destruct o; try reflexivity. exfalso. eapply H; reflexivity.
Qed.
(* replacing one slot by one that is free or names a relay of the board *)
Lemma RR_set_slot s n y :
  (active y = true -> exists r, In r (c_relays c) /\ r_chan r = s_chan y /\ r_gpio r = s_gpio y) ->
  RR s (set_slots (upd (slots s) n y) s).
Proof.
  intros Hy. apply RR_intro with (qa := []) (add := []).
  - intros SR x Hx Ax. cbn [slots set_slots] in Hx. apply In_upd in Hx. destruct Hx as [->|Hx]; auto.
  - reflexivity. - reflexivity. - reflexivity.
  - cbn. rewrite app_nil_r. reflexivity.
  - reflexivity. - reflexivity.
  - intros _ _ r _. unfold upd_ok. cbn. reflexivity.
Qed.
Lemma nth_active_in (l : list slot) n : active (nth n l slot_free) = true -> In (nth n l slot_free) l.
Proof.
  intros A. destruct (Nat.lt_ge_cases n (length l)); [apply nth_In; auto|]. rewrite nth_overflow in A by auto. discriminate.
Qed.

Lemma RR_cb_slot a s : RR s (cb_slot c a s).
Proof.
  intros SR. cut (RR s (cb_slot c a s)); [intros H; exact (H SR)|].
  unfold cb_slot. set (x := nth (Z.to_nat a) (slots s) slot_free). destruct (active x) eqn:Ax; [|apply RR_refl].
  destruct (SR x (nth_active_in _ _ Ax) Ax) as (r0 & Hr0 & Ec & Eg).
  pose proof (RR_uptime s) as U. destruct (uptime_msec s) as [s1 u]. cbn [fst] in U.
  destruct (_ <=? _).
  - pose proof (RR_chan_set_value r0 (if s_target x =? 0 then LO else HI) s1 Hr0) as P. rewrite Eg, Ec in P.
    destruct (chan_set_value c (s_gpio x) _ (s_chan x) s1) as [s3 ok]. cbn [fst] in P.
    apply RR_trans with (b := s1); [exact U|]. apply RR_trans with (b := s3); [exact P|].
    apply RR_trans with (b := t2_set (s_chan x) 0 s3); [apply RR_t2_set|].
    set (s4 := t2_set (s_chan x) 0 s3).
    apply RR_trans with (b := emit (GFinish (now s1) (s_chan x) (s_target x) (g_t0 x) (g_dur x) (g_u0 x) u) s4); [apply RR_emit; intros; discriminate|].
    apply (RR_set_slot (emit (GFinish (now s1) (s_chan x) (s_target x) (g_t0 x) (g_dur x) (g_u0 x) u) s4) (Z.to_nat a) (slot_release x u (now s1))).
    cbn. intros; discriminate.
  - apply RR_trans with (b := s1); [exact U|].
    set (lf := u32 _). apply RR_trans with (b := t2_set (s_chan x) lf s1); [apply RR_t2_set|].
    apply (RR_set_slot (t2_set (s_chan x) lf s1) (Z.to_nat a)). intros _. exists r0. cbn. auto.
Qed.
Lemma RR_cd_cb due s : RR s (cd_cb c due s).
Proof.
  rewrite cd_cb_eq. eapply RR_trans; [|apply RR_startstop].
  eapply RR_trans; [|apply RR_emit; intros; discriminate].
  rewrite cd_loop_unfold. repeat (eapply RR_trans; [|apply RR_cb_slot]). apply RR_emit; intros; discriminate.
Qed.
Lemma RR_disarm ch s : RR s (disarm c ch s).
Proof.
  unfold disarm. destruct (find_slot _ _ _) as [i|]; [|apply RR_refl].
  set (x := nth (Z.to_nat i) (slots s) slot_free).
  assert (N1 : RR s (set_slots (upd (slots s) (Z.to_nat i) (slot_release x (s_last x) (g_tl x))) s))
    by (apply RR_set_slot; cbn; intros; discriminate).
  destruct (0 <? _); auto. eapply RR_trans; [exact N1|]. eapply RR_trans; [apply RR_t2_set|].
  destruct (chflags_of _ _ _); [destruct (hasf _ _)|]; try apply RR_refl. apply RR_ext_changed.
Qed.
Lemma RR_arm_slot ms r0 tg sd s : In r0 (c_relays c) -> RR s (countdown_arm_slot c ms (r_gpio r0) (r_chan r0) tg sd s).
Proof.
  intros Hr. unfold countdown_arm_slot. destruct (match find_slot _ _ _ with Some _ => _ | None => _ end) as [i|]; [|apply RR_refl].
  pose proof (RR_uptime s) as U. destruct (uptime_msec s) as [s1 u]. cbn [fst] in U.
  apply RR_trans with (b := s1); [exact U|].
  set (s1e := emit (GArm (now s) (r_chan r0) ms tg) s1).
  apply RR_trans with (b := s1e); [apply RR_emit; intros; discriminate|].
  set (y := {| s_chan := r_chan r0; s_left := ms; s_last := u; s_gpio := r_gpio r0; s_target := tg; s_sender := sd;
               g_t0 := now s; g_dur := ms; g_u0 := u; g_tl := now s |}).
  apply RR_trans with (b := set_slots (upd (slots s1e) (Z.to_nat i) y) s1e); [apply RR_set_slot; intros _; exists r0; cbn; auto|].
  eapply RR_trans; [apply RR_t2_set|apply RR_startstop].
Qed.
Lemma RR_countdown e ms r0 tg sd s : In r0 (c_relays c) -> RR s (countdown e c ms (r_gpio r0) (r_chan r0) tg sd s).
Proof.
  intros Hr. unfold countdown. eapply RR_trans; [|apply RR_arm_slot; auto]. destruct e; [apply RR_cd_cb|apply RR_refl].
Qed.
Lemma RR_sdt e ch nv dur sd s : RR s (set_duration_timer e c ch nv dur sd s).
Proof.
  unfold set_duration_timer.
  set (stair := (ch <? ST_T2_COUNT) && (ch <? T2_COUNT) && (0 <? getz (time2 s) ch)).
  set (s0 := if stair && (nv =? 0) then set_ram_t2 (setz (ram_t2 s) ch 0) s else s).
  set (dur1 := if stair then _ else dur).
  assert (F0 : RR s s0) by (unfold s0; destruct (stair && (nv =? 0)); [apply RR_quiet; try reflexivity; exists []; split; reflexivity|apply RR_refl]).
  set (s1 := disarm c (u8 ch) s0). assert (F1 : RR s0 s1) by apply RR_disarm.
  pose proof (RR_trans _ _ _ F0 F1) as F01.
  destruct (0 <? dur1); auto. destruct (find_chan (c_relays c) 0 ch) as [[a r]|] eqn:EFC; auto.
  destruct (find_chan_some _ _ _ _ _ EFC) as [Hr Er]. pose proof (wf_chan _ W r Hr) as Hc.
  set (f := getz (chfl s1) a).
  set (s2 := if (nv =? 1) || hasf f CHFLAG_COUNTDOWN then _ else s1).
  assert (F2 : RR s1 s2).
  { unfold s2. destruct ((nv =? 1) || hasf f CHFLAG_COUNTDOWN); [|apply RR_refl].
    rewrite u8_small by lia. rewrite <- Er. apply RR_countdown; auto. }
  eapply RR_trans; [exact F01|]. eapply RR_trans; [exact F2|].
  destruct (hasf f CHFLAG_COUNTDOWN); [apply RR_ext_changed|apply RR_refl].
Qed.
Lemma RR_csv e ch v dur sd s : RR s (channel_set_value e c ch v dur sd s).
Proof.
  unfold channel_set_value. destruct (find_chan (c_relays c) 0 ch) as [[a r]|] eqn:EFC; [|apply RR_set_result].
  destruct (find_chan_some _ _ _ _ _ EFC) as [Hr Er]. subst ch.
  pose proof (RR_chan_set_value r v (set_duration_timer e c (r_chan r) v (s32 dur) sd s) Hr) as P.
  destruct (chan_set_value c (r_gpio r) v (r_chan r) _) as [s2 ok]. cbn [fst] in P.
  eapply RR_trans; [apply RR_sdt|]. eapply RR_trans; [exact P|apply RR_set_result].
Qed.
Lemma RR_rsw e port hi s : RR s (relay_switch e c port hi s).
Proof.
  unfold relay_switch. set (ch := last_chan (c_relays c) port (-1)). destruct (ch <? 0) eqn:Ec; [apply RR_refl|].
  apply Z.ltb_ge in Ec.
  destruct (last_chan_spec (c_relays c) port (-1) (or_intror Logic.I)) as [E|(r & Hr & Er & Eg)]; [fold ch in E; lia|].
  fold ch in Er. set (hi1 := if _ && _ && _ && _ then HI else hi). set (hi2 := if hi1 =? 255 then _ else hi1).
  set (s1 := if ch <? ST_T2_COUNT then _ else s).
  assert (F1 : RR s s1).
  { unfold s1. destruct (ch <? ST_T2_COUNT); [|apply RR_refl].
    eapply RR_trans; [|apply RR_sdt]. apply RR_quiet; try reflexivity. exists []; split; reflexivity. }
  eapply RR_trans; [exact F1|]. rewrite <- Eg, <- Er. apply RR_switch_unit; auto.
Qed.
End Board.

(* ---------- whole histories ---------- *)
Record wf6 (c : cfg6) : Prop := {
  w6_cfg : wf_cfg (c6 c);
  w6_gpio : NoDup (map r_gpio (c_relays (c6 c)));
  w6_chan : NoDup (map r_chan (c_relays (c6 c)));
  (* a sensor input reports on a channel of its own *)
  w6_sensor : forall i r, In i (c6_inputs c) -> In r (c_relays (c6 c)) -> r_chan r <> i_chan i
}.

Section Histories.
Variable e : bool.
Variable c : cfg6.
Hypothesis W6 : wf6 c.
Local Notation cc := (c6 c).
Let Wc := w6_cfg _ W6.
Let NDg := w6_gpio _ W6.
Let NDc := w6_chan _ W6.
Notation RRc := (RR cc).
Notation SRc := (SlotRel cc).

Lemma RR_on_input i act s : In i (c6_inputs c) -> RRc s (on_input e cc i act s).
Proof.
  intros Hi. unfold on_input. destruct (_ && negb (i_relay i =? 255)); [apply RR_rsw; auto|].
  destruct (_ && _); [|apply RR_refl]. apply RR_value_changed_other. intros r Hr. apply (w6_sensor _ W6 i r Hi Hr).
Qed.

(* the reporting invariant: for every relay, the last value accepted for its channel is its level; if none was accepted
   since registration its level is still the one it had at registration *)
Definition rep (sreg s : st) : Prop :=
  forall r, In r (c_relays cc) ->
    match lastval (accepted s) (r_chan r) with Some v => v = b2z (level r s) | None => level r s = level r sreg end.

Lemma rep_RR sreg s s1 :
  RRc s s1 -> SRc s -> reg s = true -> (forall add, outs s1 = add ++ outs s -> new_drops add = []) -> rep sreg s ->
  SRc s1 /\ reg s1 = true /\ rep sreg s1.
Proof.
  intros H SR Hr ND Rp. destruct (H SR) as (S1 & R1 & B1 & C1 & qa & add & Q1 & O1 & W1 & U1).
  split; [auto|]. split; [congruence|]. intros r Hin.
  assert (EA : accepted s1 = accepted s ++ qa).
  { unfold accepted. rewrite O1, wired_app, W1, B1, Q1. cbn [app]. rewrite <- !app_assoc. reflexivity. }
  specialize (U1 Hr (ND add O1) r Hin). specialize (Rp r Hin). unfold upd_ok in U1.
  rewrite EA, lastval_app. destruct (lastval qa (r_chan r)); auto.
  destruct (lastval (accepted s) (r_chan r)); congruence.
Qed.

Lemma tp_fields s s' : tp s s' -> slots s' = slots s /\ reg s' = reg s /\ exists add, outs s' = add ++ outs s /\ new_drops add = [].
Proof. intros [G S R C (add & O & D & _)]. split; [auto|]. split; [auto|]. exists add. auto. Qed.
(* a piece of transport (retry of the send buffer, OUT half of an iterate) that loses nothing keeps the invariant *)
Lemma rep_tp sreg s s' : tp s s' -> (forall add, outs s' = add ++ outs s -> lost add = []) ->
  SRc s -> reg s = true -> rep sreg s -> SRc s' /\ reg s' = true /\ rep sreg s'.
Proof.
  intros [G S R C (add & O & D & Cv)] NL SR Hr Rp.
  split; [intros x Hx; rewrite S in Hx; auto|]. split; [congruence|].
  intros r Hin. specialize (Rp r Hin).
  assert (EA : accepted s' = accepted s) by (unfold accepted; rewrite O, wired_app', <- app_assoc, (Cv (NL add O)); reflexivity).
  rewrite EA. rewrite (level_gout r s s' G). exact Rp.
Qed.
Lemma RR_chcfg ch func ctype csize ms s : RRc s (channel_config e cc ch func ctype csize ms s).
Proof.
  destruct (chcfg_cases e cc ch func ctype csize ms s) as [->|(t & _ & ->)]; [apply RR_refl|].
  eapply RR_trans; [|apply (RR_sdt cc Wc NDg NDc)]. apply RR_quiet; try reflexivity. exists []; split; reflexivity.
Qed.

(* nothing refused by the out-queue, nothing lost in the send buffer *)
Definition clean (add : list out) : Prop := new_drops add = [] /\ lost add = [].
Lemma clean_app a b : clean (a ++ b) <-> clean a /\ clean b.
Proof.
  unfold clean. rewrite new_drops_app, lost_app. split.
  - intros [H1 H2]. apply app_eq_nil in H1. apply app_eq_nil in H2. tauto.
  - intros [[A1 A2] [B1 B2]]. rewrite A1, A2, B1, B2. auto.
Qed.
Definition clean_step (s s' : st) : Prop := forall add, outs s' = add ++ outs s -> clean add.
Lemma clean_split s s1 s2 : (exists a, outs s1 = a ++ outs s) -> (exists b, outs s2 = b ++ outs s1) -> clean_step s s2 ->
  clean_step s s1 /\ clean_step s1 s2.
Proof.
  intros (a & Ea) (b & Eb) H. specialize (H (b ++ a)). rewrite Eb, Ea, app_assoc in H. specialize (H eq_refl).
  apply clean_app in H. destruct H as [Hb Ha].
  split; intros x Ex; [rewrite Ea in Ex|rewrite Eb in Ex]; apply app_inv_tail in Ex; subst; auto.
Qed.

Lemma tp_push l s : tp s (set_inq (inq s ++ l) s).
Proof. constructor; try reflexivity. exists []. split; [reflexivity|]. split; [reflexivity|]. intros _. reflexivity. Qed.
Lemma RR_handle1 s : RRc s (handle1 e cc s).
Proof.
  unfold handle1. destruct (inq s) as [|[[[ch v] d] sd] tl]; [apply RR_refl|].
  eapply RR_trans; [|apply (RR_csv cc Wc NDg NDc)]. apply RR_quiet; try reflexivity. exists []; split; reflexivity.
Qed.
Lemma handle1_outs s : exists a, outs (handle1 e cc s) = a ++ outs s.
Proof.
  unfold handle1. destruct (inq s) as [|[[[ch v] d] sd] tl]; [exists []; reflexivity|].
  destruct (csv_frame e cc (u8 ch) v d sd (set_inq tl s)) as [_ _ _ Ho]. exact Ho.
Qed.
(* the SDK timers: countdown callback, delayed state save, uptime poll *)
Lemma RR_fire i s : RRc s (fire e cc i s).
Proof.
  unfold fire. set (tm := get_t i s). set (n := len (c_late cc)). set (late := if 0 <? n then _ else 0).
  set (s1 := if 0 <? n then set_li (li s + 1) s else s).
  set (s2 := if now s1 <? t_due tm + late then set_now (t_due tm + late) s1 else s1).
  set (s3 := if negb (t_per tm =? 0) then _ else _).
  assert (Q3 : RRc s s3).
  { apply RR_quiet; unfold s3, s2, s1; destruct (negb _); destruct i; cbn [set_t]; destruct (_ <? _ + _); destruct (0 <? n); try reflexivity;
      exists []; split; reflexivity. }
  eapply RR_trans; [exact Q3|]. unfold run_cb. destruct i.
  - apply (RR_cd_cb cc Wc NDg NDc).
  - apply RR_quiet; try reflexivity. eexists [_]; split; reflexivity.
  - unfold uptime_usec. cbn [fst]. apply RR_quiet; try reflexivity. eexists [_]; split; reflexivity.
Qed.
Lemma RR_adv fuel : forall end_ s, RRc s (adv e cc fuel end_ s).
Proof.
  induction fuel as [|k IH]; intros end_ s; cbn [adv]; [apply RR_emit; intros; discriminate|].
  destruct (pick s end_); [|apply RR_refl]. eapply RR_trans; [apply RR_fire|apply IH].
Qed.
Lemma RR_advance dt s : RRc s (advance e cc dt s).
Proof.
  unfold advance. set (s1 := adv _ _ _ _ _). assert (R1 : RRc s s1) by apply RR_adv.
  destruct (now s1 <? now s + dt); [|exact R1]. eapply RR_trans; [exact R1|]. apply RR_quiet; try reflexivity. exists []; split; reflexivity.
Qed.

(* one event after registration: transport, the handler (an RR step), transport *)
Definition mid (s : st) (x : ev6) : st * st * st :=     (* (after the retry, after the handler, before the Q line) *)
  match x with
  | CIter => let sa := dev_iterate s in let sm := handle1 e cc sa in (sa, sm, iterate6 sm)
  | CSetV ch v dur sender => let sa := dev_iterate (set_inq (inq s ++ [(ch, v, dur, sender)]) s) in let sm := handle1 e cc sa in (sa, sm, iterate6 sm)
  | CGrp ch v dur => let sa := dev_iterate (set_inq (inq s ++ [(ch, v, dur, 0)]) s) in let sm := handle1 e cc sa in (sa, sm, iterate6 sm)
  | CBurst l => let sa := dev_iterate (set_inq (inq s ++ reqs l) s) in let sm := handle1 e cc sa in (sa, sm, iterate6 sm)
  | CAdv dt => let sm := if dt <? 0 then s else advance e cc dt s in (s, sm, sm)
  | CBtn idx act => let sm := match nth_error (c6_inputs c) (Z.to_nat idx) with
                              | Some i => if idx <? 0 then s else on_input e cc i (negb (act =? 0)) s | None => s end in (s, sm, sm)
  | CTick dt => let sm := if dt <? 0 then s else cd_cb cc 0 (set_now (now s + dt) s) in (s, sm, sm)
  | CTime2 ch ms => let sm := if (0 <=? ch) && (ch <? T2_COUNT) then set_time2 (setz (time2 s) ch ms) s else s in (s, sm, sm)
  | COtherEv => (s, emit OUnknown s, emit OUnknown s)
  | CChCfg ch func ctype csize ms => let sm := channel_config e cc ch func ctype csize ms s in (s, sm, sm)
  | CSent rs => (s, set_sres rs s, set_sres rs s)
  | CReg => (s, s, s)
  end.
Lemma mid_spec s x : x <> CReg ->
  let '(sa, sm, s1) := mid s x in
  tp s sa /\ RRc sa sm /\ tp sm s1 /\ step6 e c s x = emit (q_line s1) s1.
Proof.
  intros Nx. destruct x; try congruence; cbn [mid]; cbv zeta.
  - split; [apply dev_iterate_tp|]. split; [apply RR_handle1|]. split; [apply iterate6_tp|reflexivity].
  - split; [eapply tp_trans; [apply tp_push|apply dev_iterate_tp]|]. split; [apply RR_handle1|]. split; [apply iterate6_tp|reflexivity].
  - split; [eapply tp_trans; [apply tp_push|apply dev_iterate_tp]|]. split; [apply RR_handle1|]. split; [apply iterate6_tp|reflexivity].
  - split; [apply tp_refl|]. split; [|split; [apply tp_refl|reflexivity]].
    destruct (nth_error _ _) as [i|] eqn:En; [|apply RR_refl]. destruct (idx <? 0); [apply RR_refl|].
    apply RR_on_input. eapply nth_error_In; eauto.
  - split; [apply tp_refl|]. split; [|split; [apply tp_refl|reflexivity]].
    destruct (dt <? 0); [apply RR_refl|]. eapply RR_trans; [|apply (RR_cd_cb cc Wc NDg NDc)].
    apply RR_quiet; try reflexivity. exists []; split; reflexivity.
  - split; [apply tp_refl|]. split; [|split; [apply tp_refl|reflexivity]].
    destruct (_ && _); [|apply RR_refl]. apply RR_quiet; try reflexivity. exists []; split; reflexivity.
  - split; [apply tp_refl|]. split; [|split; [apply tp_refl|reflexivity]]. apply RR_emit. intros; discriminate.
  - split; [apply tp_refl|]. split; [apply RR_chcfg|split; [apply tp_refl|reflexivity]].
  - split; [apply tp_refl|]. split; [|split; [apply tp_refl|reflexivity]]. apply RR_quiet; try reflexivity. exists []; split; reflexivity.
  - split; [apply tp_refl|]. split; [|split; [apply tp_refl|reflexivity]]. destruct (dt <? 0); [apply RR_refl|apply RR_advance].
  - split; [eapply tp_trans; [apply tp_push|apply dev_iterate_tp]|]. split; [apply RR_handle1|]. split; [apply iterate6_tp|reflexivity].
Qed.
(* the trace of an event only grows (needs no invariant) *)
Lemma RR_frame_outs s x : x <> CReg -> let '(sa, sm, s1) := mid s x in exists a, outs sm = a ++ outs sa.
Proof.
  intros Nx. destruct x; try congruence; cbn [mid]; cbv zeta.
  - apply handle1_outs.
  - apply handle1_outs.
  - apply handle1_outs.
  - destruct (nth_error _ _) as [i|]; [|exists []; reflexivity]. destruct (idx <? 0); [exists []; reflexivity|].
    unfold on_input. destruct (_ && negb (i_relay i =? 255)).
    + pose proof (rsw_frame e cc (i_relay i) (if i_type i =? IN_MOTION then if negb (act =? 0) then 1 else 0 else 255) s) as [_ _ _ Ho]. exact Ho.
    + destruct (_ && _); [|exists []; reflexivity].
      pose proof (passive_value_changed (i_chan i) (if negb (act =? 0) then 1 else 0) s) as P. destruct (pa_outs _ _ P) as (a & Ea & _). exists a; auto.
  - destruct (dt <? 0); [exists []; reflexivity|].
    pose proof (cd_cb_frame cc 0 (set_now (now s + dt) s)) as [_ _ _ (a & Ea)]. exists a. rewrite Ea. reflexivity.
  - destruct (_ && _); exists []; reflexivity.
  - eexists [_]; reflexivity.
  - destruct (chcfg_frame e cc ch func ctype csize ms s) as [_ _ _ Ho]. exact Ho.
  - exists []; reflexivity.
  - destruct (dt <? 0) eqn:E; [exists []; reflexivity|]. apply Z.ltb_ge in E. destruct (advance_frame e cc dt s E) as [_ _ _ Ho]. exact Ho.
  - apply handle1_outs.
Qed.
Lemma step6_outs' s x : x <> CReg -> exists add, outs (step6 e c s x) = add ++ outs s.
Proof.
  intros Nx. pose proof (mid_spec s x Nx) as M. pose proof (RR_frame_outs s x Nx) as F. destruct (mid s x) as [[sa sm] s1].
  destruct M as (T1 & _ & T2 & ->). destruct F as (b & Eb).
  destruct (tp_outs _ _ T1) as (a & Ea & _). destruct (tp_outs _ _ T2) as (d & Ed & _).
  exists (q_line s1 :: d ++ b ++ a). cbn [outs emit set_outs]. rewrite Ed, Eb, Ea. cbn [app]. f_equal. rewrite <- !app_assoc. reflexivity.
Qed.

Lemma step6_rep sreg s x :
  x <> CReg -> SRc s -> reg s = true -> rep sreg s -> clean_step s (step6 e c s x) ->
  SRc (step6 e c s x) /\ reg (step6 e c s x) = true /\ rep sreg (step6 e c s x).
Proof.
  intros Nx SR Hr Rp ND.
  pose proof (mid_spec s x Nx) as M. pose proof (RR_frame_outs s x Nx) as F. destruct (mid s x) as [[sa sm] s1].
  destruct M as (T1 & Hm & T2 & Es). destruct F as (b & Eb). rewrite Es in *.
  destruct (tp_outs _ _ T1) as (a & Ea & _). destruct (tp_outs _ _ T2) as (d & Ed & _).
  assert (Cl : clean ([q_line s1] ++ d ++ b ++ a)).
  { apply ND. cbn [outs emit set_outs app]. rewrite Ed, Eb, Ea. f_equal. rewrite <- !app_assoc. reflexivity. }
  apply clean_app in Cl. destruct Cl as [_ Cl]. apply clean_app in Cl. destruct Cl as [Cd Cl]. apply clean_app in Cl. destruct Cl as [Cb Ca].
  destruct (rep_tp sreg s sa T1) as (SRa & Ra & Rpa); auto.
  { intros x0 E0. rewrite Ea in E0. apply app_inv_tail in E0. subst. apply Ca. }
  destruct (rep_RR sreg sa sm Hm SRa Ra) as (SRm & Rm & Rpm); auto.
  { intros x0 E0. rewrite Eb in E0. apply app_inv_tail in E0. subst. apply Cb. }
  destruct (rep_tp sreg sm s1 T2) as (SR1 & R1 & Rp1); auto.
  { intros x0 E0. rewrite Ed in E0. apply app_inv_tail in E0. subst. apply Cd. }
Qed.

(* the state at registration: every running slot names a board relay, nothing was ever on the wire *)
Definition BI (s : st) : Prop := SRc s /\ wired (outs s) = [].
Lemma BI_restore e0 s ar : BI s -> BI (restore_relay e0 cc s ar).
Proof.
  intros [SR Wd]. unfold restore_relay. destruct ar as [a r].
  assert (K : forall hi s0, BI s0 -> BI (relay_hi cc (r_gpio r) hi s0)).
  { intros hi s0 [SR0 W0]. destruct (relay_hi_quiet cc (r_gpio r) hi s0) as (_ & _ & a1 & O1 & W1 & _).
    split; [intros x Hx; rewrite (pa_slots _ _ (passive_relay_hi cc (r_gpio r) hi s0)) in Hx; auto|].
    rewrite O1, wired_app, W0, W1. reflexivity. }
  destruct (_ || _).
  - apply K. destruct (_ && _); [|split; auto].
    destruct (RR_sdt cc Wc NDg NDc e0 (r_chan r) (s8 (getz (ram_relay s) a)) (s32 (getz (ram_t2 s) (r_chan r))) 0 s SR)
      as (S1 & _ & _ & _ & qa & add & _ & O1 & W1 & _).
    split; [auto|]. rewrite O1, wired_app, Wd, W1. reflexivity.
  - destruct (hasf _ _); [apply K|]; split; auto.
Qed.
Lemma BI_fold e0 l : forall s, BI s -> BI (fold_left (restore_relay e0 cc) l s).
Proof. induction l as [|x l IH]; intros s H; cbn [fold_left]; auto. apply IH, BI_restore, H. Qed.
Lemma BI_start : BI (start6 e c).
Proof.
  unfold start6, boot_l.
  set (s5 := set_obuf [] _). set (l := filter (restorable c) _).
  assert (B5 : BI s5).
  { split; [|reflexivity]. intros x Hx Ax. unfold s5 in Hx. cbn in Hx.
    repeat (destruct Hx as [<-|Hx]; [discriminate|]). contradiction. }
  pose proof (BI_fold false l s5 B5) as [SR6 W6']. set (s6 := fold_left (restore_relay false cc) l s5) in *.
  split.
  - intros x Hx. unfold uptime_usec in Hx. cbn [fst slots emit set_outs set_seqc set_upl set_upc] in Hx. auto.
  - unfold uptime_usec. cbn [fst outs emit set_outs set_seqc set_upl set_upc wired]. exact W6'.
Qed.

(* H_queue_room for a history: no call was refused anywhere in the trace *)
Definition sreg6 : st := step6 e c (start6 e c) CReg.
Definition run_reg (evs : list ev6) : st := fold_left (step6 e c) evs sreg6.

Lemma reg_fields s0 : let sr := step6 e c s0 CReg in
  slots sr = slots s0 /\ reg sr = true /\ (exists q l, outs sr = OSt (now s0) q 0 l :: outs s0) /\ queue sr = [] /\ obuf sr = [].
Proof. cbv zeta. unfold step6. repeat split; try reflexivity. do 2 eexists. reflexivity. Qed.

Theorem last_report_thm : forall evs,
  (forall x, In x evs -> x <> CReg) ->
  let s := run_reg evs in
  new_drops (outs s) = [] -> lost (outs s) = [] ->
  SRc s /\ reg s = true /\ rep sreg6 s.
Proof.
  induction evs as [|x evs IH] using rev_ind; intros Nx s ND NL.
  - unfold s, run_reg. cbn [fold_left]. destruct BI_start as [SR0 W0].
    pose proof (reg_fields (start6 e c)) as E. cbv zeta in E. fold sreg6 in E.
    destruct E as (E1 & E2 & E3 & E4 & E5).
    split; [intros y Hy; rewrite E1 in Hy; auto|]. split; [auto|].
    intros r Hr. destruct E3 as (q & l & E3). unfold accepted. rewrite E3, E4, E5. cbn [wired]. rewrite W0. cbn. reflexivity.
  - unfold s, run_reg in *. rewrite fold_left_app in *. cbn [fold_left] in *.
    set (sp := fold_left (step6 e c) evs sreg6) in *.
    assert (Nx' : forall y, In y evs -> y <> CReg) by (intros y Hy; apply Nx, in_or_app; auto).
    assert (Nxx : x <> CReg) by (apply Nx, in_or_app; right; left; reflexivity).
    destruct (step6_outs' sp x Nxx) as (add & Ea).
    rewrite Ea, new_drops_app in ND. apply app_eq_nil in ND. destruct ND as [ND1 ND2].
    rewrite Ea, lost_app in NL. apply app_eq_nil in NL. destruct NL as [NL1 NL2].
    destruct (IH Nx' ND1 NL1) as (SRp & Rp & Rpp).
    apply step6_rep; auto.
    intros a' Ea'. rewrite Ea in Ea'. apply app_inv_tail in Ea'. subst. split; auto.
Qed.

(* C06_last_report_equals_state: from registration on, for every history without a refused call and without a frame lost
   in the send buffer, whenever the device is idle the last VALUE_CHANGED on the wire for each relay channel is the
   logical level of its pin (and a relay whose channel was never reported still has the level it had at registration).
   The TCP layer may refuse writes (CSent): refused bytes wait in devconn's send buffer and are frames of `obuf` here. *)
Theorem last_report_idle_thm : forall evs,
  (forall x, In x evs -> x <> CReg) ->
  let s := run_reg evs in
  new_drops (outs s) = [] -> lost (outs s) = [] -> queue s = [] -> obuf s = [] ->
  forall r, In r (c_relays cc) ->
    match lastval (wired (outs s)) (r_chan r) with
    | Some v => v = b2z (level r s)
    | None => level r s = level r sreg6
    end.
Proof.
  intros evs Nx s ND NL Q B r Hr. destruct (last_report_thm evs Nx ND NL) as (_ & _ & Rp).
  fold s in Rp. rewrite (idle_thm s Q B). exact (Rp r Hr).
Qed.
End Histories.

(* the hypotheses are satisfiable: the two-relay board, requests on the plain channel, iterates in between *)
Lemma wf6_cd_board : wf6 cd_board.
Proof.
  constructor.
  - apply wf_cfgb_ok. vm_compute. reflexivity.
  - cbn. repeat constructor; cbn; intuition discriminate.
  - cbn. repeat constructor; cbn; intuition discriminate.
  - cbn. intros i r [].
Qed.
(* ... the link is busy (INPROGRESS) for the second request and the following iterate, then accepts the staged bytes *)
Definition plain_evs : list ev6 := [CSetV 1 1 3000 77; CIter; CIter; CSent [SENT_INPROGRESS; SENT_INPROGRESS]; CSetV 1 0 0 78; CIter; CIter; CIter].
Lemma plain_history_ok :
  (forall x, In x plain_evs -> x <> CReg) /\ new_drops (outs (run_reg false cd_board plain_evs)) = [] /\
  lost (outs (run_reg false cd_board plain_evs)) = [] /\
  queue (run_reg false cd_board plain_evs) = [] /\ obuf (run_reg false cd_board plain_evs) = [] /\
  lastval (wired (outs (run_reg false cd_board plain_evs))) 1 = Some 0.
Proof.
  split; [intros x H; cbn in H; intuition (subst; discriminate)|]. vm_compute. repeat split; reflexivity.
Qed.
