(* C17 — MQTT CONNECT and command topics mean exactly what was configured and addressed.
   Property theorems only: each is closed by `exact` of a lemma proved in C17/Proofs.v.
   The model (C17/Model.v) follows the code after the repairs docs/fixes/C17_{noauth_password,password_tail_max,
   channel_number,prefix_slash,prepare_val_unsigned}.diff (`FIXED`); the last theorem shows what the unrepaired code does.
   `dec_connect` is a specification decoder of MQTT 3.1.1 CONNECT written from the standard (it rejects anything that is
   not a valid CONNECT: wrong protocol name/level, reserved flag, will flags without will, password without user name,
   lengths that do not add up, trailing bytes). *)
From Coq Require Import List ZArith Bool.
Import ListNotations.
From V Require Import Base.Bytes Gen.MqttConsts C17.Model C17.Render C17.Proofs.
Local Open Scope Z_scope.

(* The packed CONNECT is valid MQTT 3.1.1 and decodes to: client id = the GUID in hexadecimal cut to 22 characters,
   keep-alive 32 s, clean session, last will <prefix>/state/connected = "false" (QoS 0, not retained), and — exactly when
   authentication is enabled — the user name of the Username field and the password assembled from the Password field and
   the tail behind the user name.  `junk` is the content of the uninitialised stack buffer: it has no influence. *)
Theorem C17_connect_decodes : forall c junk, cfg_ok c ->
  dec_connect (connect_bytes FIXED c junk) =
    Some {| k_cid := client_id c; k_keep := KEEP_ALIVE; k_clean := true;
            k_will := Some (device_prefix c ++ [47] ++ s_state_connected, s_false, 0, false);
            k_user := if auth_on c then Some (cstr (c_user c)) else None;
            k_pwd := if auth_on c then Some (password_of FIXED c) else None |}.
Proof. exact C17_connect_decodes_thm. Qed.
Print Assumptions C17_connect_decodes.

(* ... and these are the configured user name and the complete configured password, for every pair (user, pw) the
   configuration page can store (short password: Password field; long password: first 33 bytes there, the rest behind
   the user name's terminator, up to the last byte of the field). *)
Theorem C17_credentials_complete : forall c user pw, stored c user pw ->
  cstr (c_user c) = user /\ password_of FIXED c = pw.
Proof. exact C17_credentials_complete_thm. Qed.
Print Assumptions C17_credentials_complete.

Theorem C17_no_auth_no_credentials : forall c junk, cfg_ok c -> auth_on c = false ->
  exists k, dec_connect (connect_bytes FIXED c junk) = Some k /\ k_user k = None /\ k_pwd k = None.
Proof. exact C17_no_auth_no_credentials_thm. Qed.
Print Assumptions C17_no_auth_no_credentials.

(* A command acts on channel ch  iff  the topic is exactly  prefix "/" "channels/" N "/" command  with N a non-empty
   string of decimal digits of value ch <= 255, and (command, value) is in the command table (set_on_cmd / rs_cmd:
   set/on with 1|yes|true|0|no|false, execute_action with turn_on|turn_off|toggle resp. shut|reveal|stop|recalibrate|
   calibrate, set/closing_percentage and set/tilt with a number 0..100; words are case-insensitive). *)
Theorem C17_command_grammar : forall prefix topic msg,
  prefix <> [] -> msg <> [] ->
  (forall ch on, parser_set_on FIXED prefix topic msg = Some (ch, on) <->
                 exists cmd, grammar prefix topic ch cmd /\ set_on_cmd cmd msg = Some on) /\
  (forall ch a p t, parser_rs_fb FIXED prefix topic msg = Some (ch, a, p, t) <->
                 exists cmd, grammar prefix topic ch cmd /\ rs_cmd FIXED cmd msg = Some (a, p, t)).
Proof. exact C17_command_grammar_thm. Qed.
Print Assumptions C17_command_grammar.

Theorem C17_ignored_without_prefix_or_value : forall topic msg prefix,
  prefix = [] \/ msg = [] -> parser_set_on FIXED prefix topic msg = None /\ parser_rs_fb FIXED prefix topic msg = None.
Proof. exact C17_ignored_without_prefix_or_value_thm. Qed.
Print Assumptions C17_ignored_without_prefix_or_value.

Theorem C17_channel_in_range : forall prefix topic ch cmd, grammar prefix topic ch cmd -> 0 <= ch <= 255.
Proof. exact grammar_channel_range. Qed.
Print Assumptions C17_channel_in_range.

(* Number rendering.  `render_spec v p` (C17/Render.v) is the specification on unbounded integers: the exact decimal
   expansion of v / 10^p without trailing zeros in the fraction (sign, digits, at most one dot).  For every 64-bit pattern
   `raw`, read as unsigned or signed (`value_of`), and every precision 0..20 (call sites use 1, 2, 3, 5):
   the string written by prepare_val is exactly render_spec; the 25-byte buffer holds it followed by its NUL terminator
   and untouched cells (nothing is written outside: the buffer keeps its 25 cells and contains every character); the
   string has at most 24 characters.  Proved through the loop invariants of the three loops (count_phase1/2, digit_steps,
   zero_fill_spec in C17/Render.v), for all values — no enumeration. *)
Theorem C17_number_rendering : forall u raw prec,
  0 <= raw < 18446744073709551616 -> 0 <= prec <= 20 ->
  let v := value_of u raw in
  let minus := negb u && ((if raw <? 9223372036854775808 then raw else raw - 18446744073709551616) <? 0) in
  prepare_val FIXED u raw prec = render_spec v (Z.to_nat prec) /\
  (exists junk, prepare_buf minus (Z.abs v) (Z.abs v) prec = render_spec v (Z.to_nat prec) ++ 0 :: junk) /\
  length (prepare_buf minus (Z.abs v) (Z.abs v) prec) = 25%nat /\
  len (render_spec v (Z.to_nat prec)) <= 24.
Proof. exact prepare_val_is_render_spec. Qed.
Print Assumptions C17_number_rendering.

(* ... and the rendering parses back to value / 10^precision: a decimal reader (optional '-', digits, optional '.' and
   digits) returns mantissa m and scale s with m / 10^s = v / 10^p exactly — for every integer v and every precision. *)
Theorem C17_rendering_parses_back : forall v p,
  exists m s, parse_decimal (render_spec v p) = Some (m, s) /\ m * 10 ^ Z.of_nat p = v * 10 ^ s.
Proof. exact render_parses_back. Qed.
Print Assumptions C17_rendering_parses_back.

(* independent cross-check of specification and model by complete enumeration: magnitudes below 300 in both signs, the
   40 largest unsigned values, every precision 0..20 *)
Example C17_number_rendering_enumerated :
  forallb (fun p => forallb (fun r => val_ok true r p && val_ok false r p && val_ok false (18446744073709551615 - r) p)
                            (zrange 300)) (zrange 21) = true /\
  forallb (fun p => forallb (fun r => val_ok true (18446744073709551615 - r) p) (zrange 40)) (zrange 21) = true.
Proof. exact (conj val_small_table val_large_table). Qed.
Print Assumptions C17_number_rendering_enumerated.

(* Values of the value-carrying commands (set/closing_percentage, set/tilt, set/brightness).  Grammar, taken from
   supla_esp_mqtt_str2int: ['-'] digit+ ['.' digit*]; the value is the integer part.  `str2int` is defined on all byte
   strings.  Accepted => the WHOLE payload has this shape (nothing unchecked after the dot, no second dot, no sign or
   letter anywhere else, at least one digit) and the result is the decimal value of the integer part; conversely every
   payload of the grammar whose integer part fits an int is accepted. *)
Theorem C17_number_grammar : forall s v, str2int FIXED s = Some v ->
  exists neg ip ofp, number_shape s neg ip ofp /\ v = (if neg then - digits_val 0 ip else digits_val 0 ip) /\
                     0 <= digits_val 0 ip <= 2147483647.
Proof. exact C17_number_grammar_thm. Qed.
Print Assumptions C17_number_grammar.

Theorem C17_number_accepted : forall s neg ip ofp, number_shape s neg ip ofp -> digits_val 0 ip <= 2147483639 ->
  str2int FIXED s = Some (if neg then - digits_val 0 ip else digits_val 0 ip).
Proof. exact C17_number_accepted_thm. Qed.
Print Assumptions C17_number_accepted.

(* a percentage acts iff the payload has the grammar and its integer part is 0..100 (digit strings of any length) *)
Theorem C17_percent_valid_value : forall msg p, percent FIXED msg = Some p <->
  exists neg ip ofp, number_shape msg neg ip ofp /\ p = digits_val 0 ip /\ 0 <= p <= 100 /\ (neg = true -> p = 0).
Proof. exact C17_percent_thm. Qed.
Print Assumptions C17_percent_valid_value.

(* the dimmer command (supla_esp_mqtt_parser_set_brightness, MQTT_DIMMER_SUPPORT) *)
Theorem C17_brightness_grammar : forall prefix topic msg ch p, prefix <> [] -> msg <> [] ->
  (parser_brightness FIXED prefix topic msg = Some (ch, p) <->
   grammar prefix topic ch s_set_brightness /\ percent FIXED msg = Some p).
Proof. exact C17_brightness_grammar_thm. Qed.
Print Assumptions C17_brightness_grammar.

Theorem C17_old_str2int_refuted :
  parser_rs_fb OLD_DIGITS w_P (w_P ++ [47] ++ s_channels ++ [51; 47] ++ s_set_closing) [45] = Some (3, ACT_SHUT_PCT, 0, 0) /\
  parser_rs_fb FIXED w_P (w_P ++ [47] ++ s_channels ++ [51; 47] ++ s_set_closing) [45] = None /\
  percent OLD_DIGITS [45; 46; 53] = Some 0 /\ percent FIXED [45; 46; 53] = None /\
  parser_brightness OLD_DIGITS w_P (w_P ++ [47] ++ s_channels ++ [51; 47] ++ s_set_brightness) [45] = Some (3, 0) /\
  parser_brightness FIXED w_P (w_P ++ [47] ++ s_channels ++ [51; 47] ++ s_set_brightness) [45] = None /\
  percent FIXED [53; 48; 46; 55] = Some 50 /\ percent FIXED [53; 48; 46; 120] = None /\ percent FIXED [49; 46; 50; 46; 51] = None /\
  percent FIXED [48;48;48;48;48;48;48;48;48;48;48;48;53;48] = Some 50 /\ percent FIXED [52;50;57;52;57;54;55;51;52;54] = None.
Proof. exact C17_old_str2int_refuted_thm. Qed.
Print Assumptions C17_old_str2int_refuted.

(* the unrepaired code *)
Theorem C17_old_code_refuted :
  nthz (connect_bytes OLD_NOAUTH w_cfg_noauth [65; 66]) 9 = 70 /\
  dec_connect (connect_bytes OLD_NOAUTH w_cfg_noauth [65; 66]) = None /\
  (exists k, dec_connect (connect_bytes FIXED w_cfg_noauth [65; 66]) = Some k /\ k_pwd k = None /\ k_user k = None) /\
  stored w_cfg_tail [117] (repeat 80 33 ++ repeat 84 253) /\
  password_of OLD_TAIL w_cfg_tail = repeat 80 33 /\ password_of FIXED w_cfg_tail = repeat 80 33 ++ repeat 84 253 /\
  parser_set_on OLD_CHAN w_P (w_t [50;53;54]) [49] = Some (0, 1) /\ parser_set_on FIXED w_P (w_t [50;53;54]) [49] = None /\
  parser_set_on OLD_CHAN w_P (w_t [45;49]) [49] = Some (255, 1) /\ parser_set_on FIXED w_P (w_t [45;49]) [49] = None /\
  parser_set_on OLD_CHAN w_P (w_t [45]) [49] = Some (0, 1) /\ parser_set_on FIXED w_P (w_t [45]) [49] = None /\
  parser_set_on OLD_CHAN w_P (w_t [49;46;55]) [49] = Some (1, 1) /\ parser_set_on FIXED w_P (w_t [49;46;55]) [49] = None /\
  parser_set_on OLD_SLASH w_P (w_P ++ [88] ++ s_channels ++ [50; 47] ++ s_set_on) [49] = Some (2, 1) /\
  parser_set_on FIXED w_P (w_P ++ [88] ++ s_channels ++ [50; 47] ++ s_set_on) [49] = None /\
  list_eqb (prepare_val OLD_UVAL true 18446744073709551615 2) (render_of_raw true 18446744073709551615 2) = false /\
  prepare_val FIXED true 18446744073709551615 2 = render_of_raw true 18446744073709551615 2.
Proof. exact C17_old_code_refuted_thm. Qed.
Print Assumptions C17_old_code_refuted.

(* non-vacuity: a configuration with a long password satisfies `cfg_ok` and `stored`; a topic with the grammar exists *)
Example C17_nonvacuous :
  cfg_ok w_cfg_tail /\ stored w_cfg_tail [117] (repeat 80 33 ++ repeat 84 253) /\
  parser_set_on FIXED w_P (w_t [48;48;55]) [89;69;83] = Some (7, 1) /\
  parser_rs_fb FIXED w_P (w_P ++ [47] ++ s_channels ++ [51; 47] ++ s_set_closing) [53;53] = Some (3, ACT_SHUT_PCT, 55, 0) /\
  prepare_val FIXED true 123456700 5 = [49;50;51;52;46;53;54;55].
Proof.
  split; [constructor; reflexivity|]. split; [exact w_cfg_tail_stored|]. vm_compute. repeat split; reflexivity.
Qed.
Print Assumptions C17_nonvacuous.
