(* C12 — proofs about the model in C12/Model.v. *)
From Coq Require Import List ZArith Bool Lia.
Import ListNotations.
From V Require Import Base.U32 Base.Bytes Base.Iface Gen.C12Consts C12.Model.
Local Open Scope Z_scope.

(* ------------------------------------------------------------------------------------------------ *)
(* Tie to the source: who calls the choke-point functions, which handlers the dispatcher reaches.     *)
(* The lists on the right are what the model implements; the generated lists come from the LLVM IR of *)
(* the working tree.  A new caller makes `code_shape_holds` fail to type-check.                       *)
Definition expected_callsites : list (list Z) :=
  [ (* supla_esp_cfgmode_start *)
    [FN_supla_esp_cfgmode_start; FN_supla_esp_cfgmode_start_with_timeout];
    [FN_supla_esp_cfgmode_start; FN_supla_esp_input_start_cfg_mode];
    [FN_supla_esp_cfgmode_start; FN_user_init];
    (* supla_esp_cfgmode_start_with_timeout *)
    [FN_supla_esp_cfgmode_start_with_timeout; FN_supla_esp_calcfg_request];
    (* supla_esp_input_start_cfg_mode *)
    [FN_supla_esp_input_start_cfg_mode; FN_supla_esp_input_legacy_state_change_handling];
    [FN_supla_esp_input_start_cfg_mode; FN_supla_esp_input_legacy_timer_cb];
    [FN_supla_esp_input_start_cfg_mode; FN_supla_esp_input_advanced_state_change_handling];
    [FN_supla_esp_input_start_cfg_mode; FN_supla_esp_input_advanced_timer_cb];
    (* factory_defaults *)
    [FN_factory_defaults; FN_supla_esp_input_legacy_timer_cb];
    [FN_factory_defaults; FN_supla_esp_cfg_init];
    (* supla_esp_gpio_rs_start_autoCal: only the shutter engine (environment event RsEnv) *)
    [FN_supla_esp_gpio_rs_start_autoCal; FN_supla_esp_gpio_rs_task_processing];
    (* supla_esp_gpio_rs_apply_new_times *)
    [FN_supla_esp_gpio_rs_apply_new_times; FN_supla_esp_calcfg_request];
    [FN_supla_esp_gpio_rs_apply_new_times; FN_supla_esp_channel_set_value];
    [FN_supla_esp_gpio_rs_apply_new_times; FN_supla_esp_gpio_rs_apply_new_config];   (* reachable only with RETREIVE_CHANNEL_CONFIG *)
    [FN_supla_esp_gpio_rs_apply_new_times; FN_supla_esp_gpio_fb_apply_new_config];
    (* supla_esp_gpio_rs_apply_new__times *)
    [FN_supla_esp_gpio_rs_apply_new__times; FN_supla_esp_gpio_rs_apply_new_times];
    [FN_supla_esp_gpio_rs_apply_new__times; FN_supla_esp_recv_callback];             (* HTTP form of the config page (C14) *)
    (* cfgmode_vars (entertime lives there) *)
    [FN_cfgmode_vars; FN_supla_esp_cfgmode_start];
    [FN_cfgmode_vars; FN_supla_esp_cfgmode_start_with_timeout];
    [FN_cfgmode_vars; FN_supla_esp_cfgmode_enter_ap_mode];
    [FN_cfgmode_vars; FN_supla_esp_connectcb];
    [FN_cfgmode_vars; FN_supla_esp_cfgmode_started];
    [FN_cfgmode_vars; FN_supla_esp_cfgmode_entertime];
    [FN_cfgmode_vars; FN_supla_esp_cfgmode_clear_vars] ].
Definition expected_dispatch : list (list Z) :=
  [ [FN_supla_esp_calcfg_request]; [FN_supla_esp_channel_set_value]; [FN_srpc_getdata]; [FN_srpc_rd_free]; [FN_uptime_sec];
    [FN_supla_log]; [FN_supla_esp_on_version_error]; [FN_supla_esp_on_register_result]; [FN_supla_esp_channelgroup_set_value];
    [FN_supla_esp_channel_set_activity_timeout_result]; [FN_supla_esp_update_url_result]; [FN_supla_esp_get_channel__state] ].
Definition code_shape : Prop := CALLSITES = expected_callsites /\ DISPATCH = expected_dispatch.
Lemma code_shape_holds : code_shape.
Proof. split; reflexivity. Qed.

(* numeric facts about the generated constants, each re-proved by computation *)
Record consts_facts := {
  cf_calls : CALL_CALCFG_REQUEST <> CALL_REGISTER_RESULT /\ CALL_CALCFG_REQUEST <> CALL_SET_VALUE /\ CALL_CALCFG_REQUEST <> CALL_GROUP_SET_VALUE /\
             CALL_SET_VALUE <> CALL_REGISTER_RESULT /\ CALL_GROUP_SET_VALUE <> CALL_REGISTER_RESULT /\ CALL_GROUP_SET_VALUE <> CALL_SET_VALUE;
  cf_cmds : CMD_ENTER_CFG_MODE <> CMD_RECALIBRATE;
  cf_press : 0 < PRESS_TIME_MS * 1000 < 4294967296;
  cf_count : 1 < PRESS_COUNT <= 127;
  cf_states : STATE_ACTIVE <> STATE_INACTIVE;
  cf_res : RES_UNAUTHORIZED <> RES_DONE /\ RES_UNAUTHORIZED <> RES_NOT_SUPPORTED }.
Lemma consts_ok : consts_facts.
Proof. constructor; vm_compute; repeat split; congruence. Qed.

(* ------------------------------------------------------------------------------------------------ *)
(* list helpers *)
Lemma updn_length {A} (l : list A) n x : length (updn l n x) = length l.
Proof. revert n; induction l; intros [|n]; simpl; auto. Qed.
Lemma nth_updn_same {A} (l : list A) n x : (n < length l)%nat -> nth_error (updn l n x) n = Some x.
Proof. revert n; induction l; intros [|n] H; simpl in *; try lia; auto. apply IHl; lia. Qed.
Lemma nth_updn_other {A} (l : list A) n m x : n <> m -> nth_error (updn l n x) m = nth_error l m.
Proof. revert n m; induction l; intros [|n] [|m] H; simpl; auto; try congruence. Qed.
Lemma nth_updn_none {A} (l : list A) n x : (length l <= n)%nat -> updn l n x = l.
Proof. revert n; induction l; intros [|n] H; simpl in *; auto; try lia. f_equal; apply IHl; lia. Qed.

Lemma getn_setn_same {A} (l : list A) i x y : getn l i = Some y -> getn (setn l i x) i = Some x.
Proof.
  unfold getn, setn; destruct (i <? 0) eqn:E; [discriminate|]. intros H.
  apply nth_updn_same. apply nth_error_Some. congruence.
Qed.
Lemma getn_setn_other {A} (l : list A) i j x : i <> j -> getn (setn l i x) j = getn l j.
Proof.
  unfold getn, setn; intros H. destruct (j <? 0) eqn:Ej; auto. destruct (i <? 0) eqn:Ei; auto.
  apply nth_updn_other. apply Z.ltb_ge in Ej, Ei. intros C. apply H. apply Z2Nat.inj; lia.
Qed.
Lemma getn_setn_none {A} (l : list A) i x : getn l i = None -> setn l i x = l.
Proof.
  unfold getn, setn; destruct (i <? 0); auto. intros H. apply nth_updn_none. apply nth_error_None; auto.
Qed.

Lemma s8_range z : -128 <= s8 z <= 127.
Proof.
  unfold s8. pose proof (Z.mod_pos_bound z 256 ltac:(lia)). destruct (z mod 256 <? 128) eqn:E.
  - apply Z.ltb_lt in E; lia. - apply Z.ltb_ge in E; lia.
Qed.
Lemma s8_le z : -128 <= z -> s8 z <= z.
Proof.
  intros H. unfold s8. pose proof (Z.mod_pos_bound z 256 ltac:(lia)).
  assert (z mod 256 <= z \/ z < 0).
  { destruct (Z_lt_le_dec z 0); [right; lia|left]. apply Z.mod_le; lia. }
  destruct (z mod 256 <? 128) eqn:E.
  - apply Z.ltb_lt in E. destruct H1; [lia|].
    (* z in [-128, 0): z mod 256 = z + 256 >= 128, contradiction *)
    assert (z mod 256 = z + 256). { symmetry. apply Z.mod_unique with (q := -1); lia. } lia.
  - apply Z.ltb_ge in E. destruct H1; [lia|].
    assert (z mod 256 = z + 256). { symmetry. apply Z.mod_unique with (q := -1); lia. } lia.
Qed.

(* ------------------------------------------------------------------------------------------------ *)
(* single-step facts about server messages *)
Lemma with_rss_id s : with_rss s (rss s) = s.
Proof. destruct s; reflexivity. Qed.
Lemma pre_iter_id s : registered s <> 0 -> pre_iter s = s.
Proof. intros H. unfold pre_iter. apply Z.eqb_neq in H. rewrite H, andb_false_r. reflexivity. Qed.

Lemma calib_set_rflags r f : calib (set_rflags r f) = calib r.
Proof. reflexivity. Qed.
Lemma calib_pre_iter s : calib_all (pre_iter s) = calib_all s.
Proof.
  unfold pre_iter. destruct (srpc_up s && (registered s =? 0)); [|reflexivity].
  destruct (negb (band (blank s) 2)); [|reflexivity].
  unfold calib_all; cbn [rss with_rss set_conn]. rewrite map_map. apply map_ext. intros r. destruct (r_ex r); reflexivity.
Qed.
Lemma pre_iter_fields s :
  booted (pre_iter s) = booted s /\ halted (pre_iter s) = halted s /\ entertime (pre_iter s) = entertime s /\
  inputs (pre_iter s) = inputs s /\ now (pre_iter s) = now s /\ boot32 (pre_iter s) = boot32 s /\ srpc_up (pre_iter s) = srpc_up s /\
  silent (pre_iter s) = silent s /\ blank (pre_iter s) = blank s.
Proof.
  unfold pre_iter. destruct (srpc_up s && (registered s =? 0)) eqn:E; [|repeat split; reflexivity].
  apply andb_true_iff in E. destruct E as [E _].
  destruct (negb (band (blank s) 2)); cbn; rewrite ?E; repeat split; reflexivity.
Qed.

Definition rmatch (ch : Z) (r : shutter) : bool := r_ex r && (r_ch r =? ch) && band (r_flags r) CHFLAG_RECALIBRATE.

Lemma recal_loop_unauth l ch wt ot ct :
  exists m, recal_loop l ch 0 wt ot ct = (l, m, false, 0).
Proof.
  induction l as [|r l IH]; cbn [recal_loop]; [eexists; reflexivity|].
  destruct IH as [m IH]. rewrite IH. fold (rmatch ch r). destruct (rmatch ch r); cbn [Z.eqb]; eexists; reflexivity.
Qed.
Lemma recal_loop_nomatch l ch auth wt ot ct :
  existsb (rmatch ch) l = false -> exists m a n, recal_loop l ch auth wt ot ct = (l, m, a, n).
Proof.
  induction l as [|r l IH]; cbn [recal_loop existsb]; intros H; [do 3 eexists; reflexivity|].
  apply orb_false_iff in H. destruct H as [H1 H2]. destruct (IH H2) as (m & a & n & E). rewrite E.
  fold (rmatch ch r). rewrite H1. do 3 eexists; reflexivity.
Qed.
Lemma recal_result_unauth l ch acc :
  (acc = RES_UNAUTHORIZED \/ acc = RES_NOT_SUPPORTED) ->
  recal_result l ch 0 acc = (if existsb (rmatch ch) l then RES_UNAUTHORIZED else acc) \/
  recal_result l ch 0 acc = RES_UNAUTHORIZED.
Proof.
  revert acc; induction l as [|r l IH]; intros acc Hacc; cbn [recal_result existsb]; [left; reflexivity|].
  fold (rmatch ch r). destruct (rmatch ch r) eqn:E; cbn [Z.eqb orb].
  - destruct (IH RES_UNAUTHORIZED (or_introl eq_refl)) as [H|H]; rewrite H; [destruct (existsb (rmatch ch) l)|]; auto.
  - apply IH; auto.
Qed.
Lemma recal_result_nomatch l ch auth acc : existsb (rmatch ch) l = false -> recal_result l ch auth acc = acc.
Proof.
  revert acc; induction l as [|r l IH]; intros acc H; cbn [recal_result existsb] in *; auto.
  apply orb_false_iff in H. destruct H as [H1 H2]. fold (rmatch ch r). rewrite H1. apply IH; auto.
Qed.
Lemma recal_result_match l ch acc : existsb (rmatch ch) l = true -> recal_result l ch 0 acc = RES_UNAUTHORIZED.
Proof.
  revert acc; induction l as [|r l IH]; intros acc H; cbn [recal_result existsb] in *; [discriminate|].
  fold (rmatch ch r). destruct (rmatch ch r) eqn:E; cbn [Z.eqb].
  - destruct (existsb (rmatch ch) l) eqn:E2; [apply IH; auto|apply recal_result_nomatch; auto].
  - apply IH. rewrite orb_false_l in H; auto.
Qed.

Lemma cal_outs_same l : cal_outs l l = [].
Proof.
  unfold cal_outs. generalize (map Z.of_nat (seq 0 (length l))). induction l as [|r l IH]; intros [|k ks]; cbn; auto.
  rewrite list_eqb_refl. cbn. apply IH.
Qed.

Definition live (s : st) : Prop := booted s = true /\ halted s = false.

Lemma step_srv s call p : live s -> step s (Srv call p) = srv s call p.
Proof. intros [B H]. unfold step. rewrite B, H. reflexivity. Qed.

Section WithFacts.
Variable CF : consts_facts.

Lemma srv_is_calcfg s p :
  srpc_up s = true -> registered s <> 0 ->
  srv s CALL_CALCFG_REQUEST p =
    if calcfg_gate p then
      let '(s', o) := calcfg s p in
      let fl := filter (fun x => match x with CfgFlash _ _ _ => true | _ => false end) o in
      let rest := filter (fun x => match x with CfgFlash _ _ _ => false | _ => true end) o in
      (s', rest ++ (if unauth_class p then [Inert (list_eqb (concat (calib_all s)) (concat (calib_all s')) &&
                                                   (entertime s =? entertime s') && Bool.eqb (srpc_up s) (srpc_up s'))] else []) ++ fl)
    else (s, if unauth_class p then [Inert true] else []).
Proof.
  intros Hup Hreg. unfold srv. rewrite (pre_iter_id s Hreg), Hup. cbn [negb].
  destruct (cf_calls CF) as (H1 & H2 & H3 & _).
  rewrite (proj2 (Z.eqb_neq _ _) H1), (proj2 (Z.eqb_neq _ _) H2), (proj2 (Z.eqb_neq _ _) H3), Z.eqb_refl. reflexivity.
Qed.

Lemma filter_send_result s a b c d :
  filter (fun x => match x with CfgFlash _ _ _ => false | _ => true end) (send_result s a b c d) = send_result s a b c d /\
  filter (fun x => match x with CfgFlash _ _ _ => true | _ => false end) (send_result s a b c d) = [].
Proof. unfold send_result. destruct (is_registered s); split; reflexivity. Qed.

Lemma inert_refl s : list_eqb (concat (calib_all s)) (concat (calib_all s)) && (entertime s =? entertime s) && Bool.eqb (srpc_up s) (srpc_up s) = true.
Proof. rewrite list_eqb_refl, Z.eqb_refl, eqb_reflx. reflexivity. Qed.

(* An enter-configuration request that is not marked authorised (flag <> 1) is answered UNAUTHORIZED (when the
   device is registered, i.e. able to answer at all) and the whole device state is unchanged. *)
Lemma unauthorised_enter_inert_thm : forall s p,
  live s -> srpc_up s = true -> registered s <> 0 -> calcfg_gate p = true -> unauth_class p = true ->
  s32 (le32 p REQ_OFF_COMMAND) = CMD_ENTER_CFG_MODE -> nthz p REQ_OFF_AUTH <> 1 ->
  step s (Srv CALL_CALCFG_REQUEST p) =
    (s, send_result s (s32 (le32 p REQ_OFF_SENDER)) (s32 (le32 p REQ_OFF_CHANNEL)) CMD_ENTER_CFG_MODE RES_UNAUTHORIZED ++ [Inert true]).
Proof.
  intros s p L Hup Hreg Hg Hu Hc Ha. rewrite (step_srv _ _ _ L), (srv_is_calcfg _ _ Hup Hreg), Hg, Hu.
  unfold calcfg. rewrite Hc, Z.eqb_refl. apply Z.eqb_neq in Ha. rewrite Ha.
  destruct (filter_send_result s (s32 (le32 p REQ_OFF_SENDER)) (s32 (le32 p REQ_OFF_CHANNEL)) CMD_ENTER_CFG_MODE RES_UNAUTHORIZED) as [F1 F2].
  cbv zeta. rewrite F1, F2, inert_refl, app_nil_r. reflexivity.
Qed.

(* A recalibrate request with the authorisation flag clear changes nothing; it is answered UNAUTHORIZED when it
   addresses a shutter channel that supports recalibration with a well-formed payload, NOT_SUPPORTED otherwise. *)
Lemma unauthorised_recalibrate_inert_thm : forall s p,
  live s -> srpc_up s = true -> registered s <> 0 -> calcfg_gate p = true -> unauth_class p = true ->
  s32 (le32 p REQ_OFF_COMMAND) = CMD_RECALIBRATE -> nthz p REQ_OFF_AUTH = 0 ->
  exists res,
  step s (Srv CALL_CALCFG_REQUEST p) =
    (s, send_result s (s32 (le32 p REQ_OFF_SENDER)) (s32 (le32 p REQ_OFF_CHANNEL)) CMD_RECALIBRATE res ++ [Inert true]) /\
  (res = RES_UNAUTHORIZED \/ res = RES_NOT_SUPPORTED) /\
  (let dtype := s32 (le32 p REQ_OFF_DATATYPE) in
   ((dtype =? DATATYPE_RS_SETTINGS) && (le32 p REQ_OFF_DATASIZE =? RSSET_SIZE) || (dtype =? 0)) = true ->
   existsb (rmatch (s32 (le32 p REQ_OFF_CHANNEL))) (rss s) = true -> res = RES_UNAUTHORIZED).
Proof.
  intros s p L Hup Hreg Hg Hu Hc Ha. rewrite (step_srv _ _ _ L), (srv_is_calcfg _ _ Hup Hreg), Hg, Hu.
  unfold calcfg. rewrite Hc, Ha. pose proof (cf_cmds CF) as Hne.
  assert (E1 : (CMD_RECALIBRATE =? CMD_ENTER_CFG_MODE) = false) by (apply Z.eqb_neq; congruence). rewrite E1, Z.eqb_refl.
  set (sender := s32 (le32 p REQ_OFF_SENDER)). set (ch := s32 (le32 p REQ_OFF_CHANNEL)).
  set (dt := s32 (le32 p REQ_OFF_DATATYPE)). set (wf := (dt =? DATATYPE_RS_SETTINGS) && (le32 p REQ_OFF_DATASIZE =? RSSET_SIZE)).
  cbn [andb]. destruct (wf || (dt =? 0)) eqn:W.
  - destruct (recal_loop_unauth (rss s) ch wf (le32 p (REQ_OFF_DATA + RSSET_OFF_OPEN)) (le32 p (REQ_OFF_DATA + RSSET_OFF_CLOSE))) as [m E].
    rewrite E. cbv zeta. rewrite with_rss_id, cal_outs_same. cbn [Z.ltb Z.compare app]. rewrite app_nil_r.
    destruct (filter_send_result s sender ch CMD_RECALIBRATE (recal_result (rss s) ch 0 RES_NOT_SUPPORTED)) as [F1 F2].
    rewrite F1, F2, inert_refl, app_nil_r. eexists; split; [reflexivity|]. split.
    + destruct (existsb (rmatch ch) (rss s)) eqn:X; [left; apply recal_result_match; auto|right; apply recal_result_nomatch; auto].
    + intros _ X. apply recal_result_match; auto.
  - destruct (filter_send_result s sender ch CMD_RECALIBRATE RES_NOT_SUPPORTED) as [F1 F2].
    cbv zeta. rewrite F1, F2, inert_refl, app_nil_r. eexists; split; [reflexivity|]. split; [right; reflexivity|].
    intros X. cbv zeta in X. fold dt in X. fold wf in X. congruence.
Qed.

End WithFacts.
