From Coq Require Import List ZArith Bool Lia.
Import ListNotations.
From V Require Import Base.U32 Base.Bytes Base.Iface Gen.C12Consts C12.Model.
Local Open Scope Z_scope.
Lemma placeholder_thm : run [] = []. Proof. reflexivity. Qed.
