(* C12 — proofs about the model in C12/Model.v. *)
From Coq Require Import List ZArith Bool Lia.
Import ListNotations.
From V Require Import Base.U32 Base.Bytes Base.Iface Gen.C12Consts C12.Model.
Local Open Scope Z_scope.

(* ------------------------------------------------------------------------------------------------ *)
(* Tie to the source: who calls the choke-point functions, which handlers the dispatcher reaches.     *)
(* The lists on the right are what the model implements; the generated lists come from the LLVM IR of *)
(* the working tree.  A new caller makes `code_shape_holds` fail to type-check.                       *)
Definition expected_callsites : list (list Z) :=
  [ (* supla_esp_cfgmode_start *)
    [FN_supla_esp_cfgmode_start; FN_supla_esp_cfgmode_start_with_timeout];
    [FN_supla_esp_cfgmode_start; FN_supla_esp_input_start_cfg_mode];
    [FN_supla_esp_cfgmode_start; FN_user_init];
    (* supla_esp_cfgmode_start_with_timeout *)
    [FN_supla_esp_cfgmode_start_with_timeout; FN_supla_esp_calcfg_request];
    (* supla_esp_input_start_cfg_mode *)
    [FN_supla_esp_input_start_cfg_mode; FN_supla_esp_input_legacy_state_change_handling];
    [FN_supla_esp_input_start_cfg_mode; FN_supla_esp_input_legacy_timer_cb];
    [FN_supla_esp_input_start_cfg_mode; FN_supla_esp_input_advanced_state_change_handling];
    [FN_supla_esp_input_start_cfg_mode; FN_supla_esp_input_advanced_timer_cb];
    (* factory_defaults *)
    [FN_factory_defaults; FN_supla_esp_input_legacy_timer_cb];
    [FN_factory_defaults; FN_supla_esp_cfg_init];
    (* supla_esp_gpio_rs_start_autoCal: only the shutter engine (environment event RsEnv) *)
    [FN_supla_esp_gpio_rs_start_autoCal; FN_supla_esp_gpio_rs_task_processing];
    (* supla_esp_gpio_rs_apply_new_times *)
    [FN_supla_esp_gpio_rs_apply_new_times; FN_supla_esp_calcfg_request];
    [FN_supla_esp_gpio_rs_apply_new_times; FN_supla_esp_channel_set_value];
    [FN_supla_esp_gpio_rs_apply_new_times; FN_supla_esp_gpio_rs_apply_new_config];   (* reachable only with RETREIVE_CHANNEL_CONFIG *)
    [FN_supla_esp_gpio_rs_apply_new_times; FN_supla_esp_gpio_fb_apply_new_config];
    (* supla_esp_gpio_rs_apply_new__times *)
    [FN_supla_esp_gpio_rs_apply_new__times; FN_supla_esp_gpio_rs_apply_new_times];
    [FN_supla_esp_gpio_rs_apply_new__times; FN_supla_esp_recv_callback];             (* HTTP form of the config page (C14) *)
    (* cfgmode_vars (entertime lives there) *)
    [FN_cfgmode_vars; FN_supla_esp_cfgmode_start];
    [FN_cfgmode_vars; FN_supla_esp_cfgmode_start_with_timeout];
    [FN_cfgmode_vars; FN_supla_esp_cfgmode_enter_ap_mode];
    [FN_cfgmode_vars; FN_supla_esp_connectcb];
    [FN_cfgmode_vars; FN_supla_esp_cfgmode_started];
    [FN_cfgmode_vars; FN_supla_esp_cfgmode_entertime];
    [FN_cfgmode_vars; FN_supla_esp_cfgmode_clear_vars] ].
Definition expected_dispatch : list (list Z) :=
  [ [FN_supla_esp_calcfg_request]; [FN_supla_esp_channel_set_value]; [FN_srpc_getdata]; [FN_srpc_rd_free]; [FN_uptime_sec];
    [FN_supla_log]; [FN_supla_esp_on_version_error]; [FN_supla_esp_on_register_result]; [FN_supla_esp_channelgroup_set_value];
    [FN_supla_esp_channel_set_activity_timeout_result]; [FN_supla_esp_update_url_result]; [FN_supla_esp_get_channel__state];
    (* RETREIVE_CHANNEL_CONFIG *)
    [FN_supla_esp_channel_config_result]; [FN_srpc_ds_async_set_channel_config_result]; [FN_supla_esp_set_channel_config] ].
Definition code_shape : Prop := CALLSITES = expected_callsites /\ DISPATCH = expected_dispatch.
Lemma code_shape_holds : code_shape.
Proof. split; reflexivity. Qed.

(* numeric facts about the generated constants, each re-proved by computation *)
Record consts_facts := {
  cf_calls : CALL_CALCFG_REQUEST <> CALL_REGISTER_RESULT /\ CALL_CALCFG_REQUEST <> CALL_SET_VALUE /\ CALL_CALCFG_REQUEST <> CALL_GROUP_SET_VALUE /\
             CALL_SET_VALUE <> CALL_REGISTER_RESULT /\ CALL_GROUP_SET_VALUE <> CALL_REGISTER_RESULT /\ CALL_GROUP_SET_VALUE <> CALL_SET_VALUE;
  cf_cmds : CMD_ENTER_CFG_MODE <> CMD_RECALIBRATE;
  cf_press : 0 < PRESS_TIME_MS * 1000 < 4294967296;
  cf_count : 1 < PRESS_COUNT <= 127;
  cf_text : PRESS_COUNT = 10 /\ PRESS_TIME_MS = 5000;      (* the numbers of the property text *)
  (* supla_esp_input_set_active_triggers disarms the input timer and clears the click counter only together, inside the
     `prev_triggers != active_triggers` block — as Model.set_active_triggers does *)
  cf_sat : SAT_DISARM_GUARDED = 1 /\ SAT_RESET_GUARDED = 1;
  (* source-shape pins (gen/grp_c12.py SHAPES): the guards the model transcribes occur in the source exactly in the expected form *)
  cf_shapes :
    [SHAPE_CALCFG_AUTH_EQ_1; SHAPE_CALCFG_NOT_AUTH; SHAPE_CALCFG_AUTH_USES; SHAPE_CALCFG_CMD_ENTER; SHAPE_CALCFG_CMD_RECAL; SHAPE_CALCFG_START;
     SHAPE_LTIMER_HOLD_TEST; SHAPE_LTIMER_NOT_STARTED; SHAPE_LTIMER_ELSE_FACTORY; SHAPE_LTIMER_ACTIVE; SHAPE_LTIMER_HOLD_ENABLED;
     SHAPE_ATIMER_HOLD_TEST; SHAPE_ATIMER_MULTICLICK_TEST; SHAPE_ATIMER_DELTA; SHAPE_LEGACY_COUNT_TEST; SHAPE_ADV_COUNT_TEST; SHAPE_ADV_TOGGLE_GUARD;
     SHAPE_HOLD_PRED_CFG_BTN; SHAPE_HOLD_PRED_MONO; SHAPE_TOGGLE_PRED_CFG_BTN; SHAPE_START_GUARD; SHAPE_CFGMODE_START_GUARD; SHAPE_FACTORY_KEEPS_ID;
     SHAPE_CFGINIT_VALID_TEST; SHAPE_BOOT_COND; SHAPE_SETCH_RECAL_FLAG; CHAIN_WINDOW_US]
    = [1; 2; 3; 1; 2; 1;  1; 1; 1; 1; 1;  1; 1; 1; 1; 1; 1;  1; 1; 1; 1; 1; 3;  1; 1; 1; 2000000];
  cf_states : STATE_ACTIVE <> STATE_INACTIVE;
  cf_res : RES_UNAUTHORIZED <> RES_DONE /\ RES_UNAUTHORIZED <> RES_NOT_SUPPORTED }.
Lemma consts_ok : consts_facts.
Proof. constructor; vm_compute; repeat split; congruence. Qed.

(* ------------------------------------------------------------------------------------------------ *)
(* list helpers *)
Lemma updn_length {A} (l : list A) n x : length (updn l n x) = length l.
Proof. revert n; induction l; intros [|n]; simpl; auto. Qed.
Lemma nth_updn_same {A} (l : list A) n x : (n < length l)%nat -> nth_error (updn l n x) n = Some x.
Proof. revert n; induction l; intros [|n] H; simpl in *; try lia; auto. apply IHl; lia. Qed.
Lemma nth_updn_other {A} (l : list A) n m x : n <> m -> nth_error (updn l n x) m = nth_error l m.
Proof. revert n m; induction l; intros [|n] [|m] H; simpl; auto; try congruence. Qed.
Lemma nth_updn_none {A} (l : list A) n x : (length l <= n)%nat -> updn l n x = l.
Proof. revert n; induction l; intros [|n] H; simpl in *; auto; try lia. f_equal; apply IHl; lia. Qed.

Lemma updn_updn {A} (l : list A) n a b : updn (updn l n a) n b = updn l n b.
Proof. revert n; induction l; intros [|n]; cbn; auto. f_equal; auto. Qed.
Lemma setn_setn {A} (l : list A) i a b : setn (setn l i a) i b = setn l i b.
Proof. unfold setn. destruct (i <? 0); auto. apply updn_updn. Qed.
Lemma getn_setn_same {A} (l : list A) i x y : getn l i = Some y -> getn (setn l i x) i = Some x.
Proof.
  unfold getn, setn; destruct (i <? 0) eqn:E; [discriminate|]. intros H.
  apply nth_updn_same. apply nth_error_Some. congruence.
Qed.
Lemma getn_setn_other {A} (l : list A) i j x : i <> j -> getn (setn l i x) j = getn l j.
Proof.
  unfold getn, setn; intros H. destruct (j <? 0) eqn:Ej; auto. destruct (i <? 0) eqn:Ei; auto.
  apply nth_updn_other. apply Z.ltb_ge in Ej, Ei. intros C. apply H. apply Z2Nat.inj; lia.
Qed.
Lemma getn_map {A B} (f : A -> B) l i y : getn (map f l) i = Some y -> exists x, getn l i = Some x /\ y = f x.
Proof.
  unfold getn. destruct (i <? 0); [discriminate|]. rewrite nth_error_map. destruct (nth_error l (Z.to_nat i)); cbn; intros H; inversion H; eauto.
Qed.
Lemma getn_setn_none {A} (l : list A) i x : getn l i = None -> setn l i x = l.
Proof.
  unfold getn, setn; destruct (i <? 0); auto. intros H. apply nth_updn_none. apply nth_error_None; auto.
Qed.

Lemma s8_range z : -128 <= s8 z <= 127.
Proof.
  unfold s8. pose proof (Z.mod_pos_bound z 256 ltac:(lia)). destruct (z mod 256 <? 128) eqn:E.
  - apply Z.ltb_lt in E; lia. - apply Z.ltb_ge in E; lia.
Qed.
Lemma s8_le z : -128 <= z -> s8 z <= z.
Proof.
  intros H. unfold s8. pose proof (Z.mod_pos_bound z 256 ltac:(lia)).
  assert (z mod 256 <= z \/ z < 0).
  { destruct (Z_lt_le_dec z 0); [right; lia|left]. apply Z.mod_le; lia. }
  destruct (z mod 256 <? 128) eqn:E.
  - apply Z.ltb_lt in E. destruct H1; [lia|].
    (* z in [-128, 0): z mod 256 = z + 256 >= 128, contradiction *)
    assert (z mod 256 = z + 256). { symmetry. apply Z.mod_unique with (q := -1); lia. } lia.
  - apply Z.ltb_ge in E. destruct H1; [lia|].
    assert (z mod 256 = z + 256). { symmetry. apply Z.mod_unique with (q := -1); lia. } lia.
Qed.

(* ------------------------------------------------------------------------------------------------ *)
(* single-step facts about server messages *)
Lemma with_rss_id s : with_rss s (rss s) = s.
Proof. destruct s; reflexivity. Qed.
Lemma pre_iter_id s : registered s <> 0 -> pre_iter s = s.
Proof. intros H. unfold pre_iter. apply Z.eqb_neq in H. rewrite H, andb_false_r. reflexivity. Qed.

Lemma calib_set_rflags r f : calib (set_rflags r f) = calib r.
Proof. reflexivity. Qed.
Lemma calib_pre_iter s : calib_all (pre_iter s) = calib_all s.
Proof.
  unfold pre_iter. destruct (srpc_up s && (registered s =? 0)); [|reflexivity].
  destruct (negb (band (blank s) 2)); [|reflexivity].
  unfold calib_all; cbn [rss with_rss set_conn]. rewrite map_map. apply map_ext. intros r. destruct (r_ex r); reflexivity.
Qed.
Lemma pre_iter_fields s :
  booted (pre_iter s) = booted s /\ halted (pre_iter s) = halted s /\ entertime (pre_iter s) = entertime s /\
  inputs (pre_iter s) = inputs s /\ now (pre_iter s) = now s /\ boot32 (pre_iter s) = boot32 s /\ srpc_up (pre_iter s) = srpc_up s /\
  silent (pre_iter s) = silent s /\ blank (pre_iter s) = blank s.
Proof.
  unfold pre_iter. destruct (srpc_up s && (registered s =? 0)) eqn:E; [|repeat split; reflexivity].
  apply andb_true_iff in E. destruct E as [E _].
  destruct (negb (band (blank s) 2)); cbn; rewrite ?E; repeat split; reflexivity.
Qed.

Definition rmatch (ch : Z) (r : shutter) : bool := r_ex r && (r_ch r =? ch) && band (r_flags r) CHFLAG_RECALIBRATE.

Lemma recal_loop_unauth l ch wt ot ct :
  exists m, recal_loop l ch 0 wt ot ct = (l, m, false, 0).
Proof.
  induction l as [|r l IH]; cbn [recal_loop]; [eexists; reflexivity|].
  destruct IH as [m IH]. rewrite IH. fold (rmatch ch r). destruct (rmatch ch r); cbn [Z.eqb]; eexists; reflexivity.
Qed.
Lemma recal_loop_nomatch l ch auth wt ot ct :
  existsb (rmatch ch) l = false -> exists m a n, recal_loop l ch auth wt ot ct = (l, m, a, n).
Proof.
  induction l as [|r l IH]; cbn [recal_loop existsb]; intros H; [do 3 eexists; reflexivity|].
  apply orb_false_iff in H. destruct H as [H1 H2]. destruct (IH H2) as (m & a & n & E). rewrite E.
  fold (rmatch ch r). rewrite H1. do 3 eexists; reflexivity.
Qed.
Lemma recal_result_unauth l ch acc :
  (acc = RES_UNAUTHORIZED \/ acc = RES_NOT_SUPPORTED) ->
  recal_result l ch 0 acc = (if existsb (rmatch ch) l then RES_UNAUTHORIZED else acc) \/
  recal_result l ch 0 acc = RES_UNAUTHORIZED.
Proof.
  revert acc; induction l as [|r l IH]; intros acc Hacc; cbn [recal_result existsb]; [left; reflexivity|].
  fold (rmatch ch r). destruct (rmatch ch r) eqn:E; cbn [Z.eqb orb].
  - destruct (IH RES_UNAUTHORIZED (or_introl eq_refl)) as [H|H]; rewrite H; [destruct (existsb (rmatch ch) l)|]; auto.
  - apply IH; auto.
Qed.
Lemma recal_result_nomatch l ch auth acc : existsb (rmatch ch) l = false -> recal_result l ch auth acc = acc.
Proof.
  revert acc; induction l as [|r l IH]; intros acc H; cbn [recal_result existsb] in *; auto.
  apply orb_false_iff in H. destruct H as [H1 H2]. fold (rmatch ch r). rewrite H1. apply IH; auto.
Qed.
Lemma recal_result_match l ch acc : existsb (rmatch ch) l = true -> recal_result l ch 0 acc = RES_UNAUTHORIZED.
Proof.
  revert acc; induction l as [|r l IH]; intros acc H; cbn [recal_result existsb] in *; [discriminate|].
  fold (rmatch ch r). destruct (rmatch ch r) eqn:E; cbn [Z.eqb].
  - destruct (existsb (rmatch ch) l) eqn:E2; [apply IH; auto|apply recal_result_nomatch; auto].
  - apply IH. rewrite orb_false_l in H; auto.
Qed.

Lemma cal_outs_same l : cal_outs l l = [].
Proof.
  unfold cal_outs. generalize (map Z.of_nat (seq 0 (length l))). induction l as [|r l IH]; intros [|k ks]; cbn; auto.
  rewrite list_eqb_refl. cbn. apply IH.
Qed.

Definition live (s : st) : Prop := booted s = true /\ halted s = false.

Lemma step_srv s call p : live s -> step s (Srv call p) = srv s call p.
Proof. intros [B H]. unfold step. rewrite B, H. reflexivity. Qed.

Section WithFacts.
Variable CF : consts_facts.

Lemma srv_is_calcfg s p :
  srpc_up s = true -> registered s <> 0 ->
  srv s CALL_CALCFG_REQUEST p =
    if calcfg_gate p then
      let '(s', o) := calcfg s p in
      let fl := filter (fun x => match x with CfgFlash _ _ _ => true | _ => false end) o in
      let rest := filter (fun x => match x with CfgFlash _ _ _ => false | _ => true end) o in
      (s', rest ++ (if unauth_class p then [Inert (list_eqb (concat (calib_all s)) (concat (calib_all s')) &&
                                                   (entertime s =? entertime s') && Bool.eqb (srpc_up s) (srpc_up s'))] else []) ++ fl)
    else (s, if unauth_class p then [Inert true] else []).
Proof.
  intros Hup Hreg. unfold srv. rewrite (pre_iter_id s Hreg), Hup. cbn [negb].
  destruct (cf_calls CF) as (H1 & H2 & H3 & _).
  rewrite (proj2 (Z.eqb_neq _ _) H1), (proj2 (Z.eqb_neq _ _) H2), (proj2 (Z.eqb_neq _ _) H3), Z.eqb_refl. reflexivity.
Qed.

Lemma filter_send_result s a b c d :
  filter (fun x => match x with CfgFlash _ _ _ => false | _ => true end) (send_result s a b c d) = send_result s a b c d /\
  filter (fun x => match x with CfgFlash _ _ _ => true | _ => false end) (send_result s a b c d) = [].
Proof. unfold send_result. destruct (is_registered s); split; reflexivity. Qed.

Lemma inert_refl s : list_eqb (concat (calib_all s)) (concat (calib_all s)) && (entertime s =? entertime s) && Bool.eqb (srpc_up s) (srpc_up s) = true.
Proof. rewrite list_eqb_refl, Z.eqb_refl, eqb_reflx. reflexivity. Qed.

(* An enter-configuration request that is not marked authorised (flag <> 1) is answered UNAUTHORIZED (when the
   device is registered, i.e. able to answer at all) and the whole device state is unchanged. *)
Lemma unauthorised_enter_inert_thm : forall s p,
  live s -> srpc_up s = true -> registered s <> 0 -> calcfg_gate p = true -> unauth_class p = true ->
  s32 (le32 p REQ_OFF_COMMAND) = CMD_ENTER_CFG_MODE -> nthz p REQ_OFF_AUTH <> 1 ->
  step s (Srv CALL_CALCFG_REQUEST p) =
    (s, send_result s (s32 (le32 p REQ_OFF_SENDER)) (s32 (le32 p REQ_OFF_CHANNEL)) CMD_ENTER_CFG_MODE RES_UNAUTHORIZED ++ [Inert true]).
Proof.
  intros s p L Hup Hreg Hg Hu Hc Ha. rewrite (step_srv _ _ _ L), (srv_is_calcfg _ _ Hup Hreg), Hg, Hu.
  unfold calcfg. rewrite Hc, Z.eqb_refl. apply Z.eqb_neq in Ha. rewrite Ha.
  destruct (filter_send_result s (s32 (le32 p REQ_OFF_SENDER)) (s32 (le32 p REQ_OFF_CHANNEL)) CMD_ENTER_CFG_MODE RES_UNAUTHORIZED) as [F1 F2].
  cbv zeta. rewrite F1, F2, inert_refl, app_nil_r. reflexivity.
Qed.

(* A recalibrate request with the authorisation flag clear changes nothing; it is answered UNAUTHORIZED when it
   addresses a shutter channel that supports recalibration with a well-formed payload, NOT_SUPPORTED otherwise. *)
Lemma unauthorised_recalibrate_inert_thm : forall s p,
  live s -> srpc_up s = true -> registered s <> 0 -> calcfg_gate p = true -> unauth_class p = true ->
  s32 (le32 p REQ_OFF_COMMAND) = CMD_RECALIBRATE -> nthz p REQ_OFF_AUTH = 0 ->
  exists res,
  step s (Srv CALL_CALCFG_REQUEST p) =
    (s, send_result s (s32 (le32 p REQ_OFF_SENDER)) (s32 (le32 p REQ_OFF_CHANNEL)) CMD_RECALIBRATE res ++ [Inert true]) /\
  (res = RES_UNAUTHORIZED \/ res = RES_NOT_SUPPORTED) /\
  (let dtype := s32 (le32 p REQ_OFF_DATATYPE) in
   ((dtype =? DATATYPE_RS_SETTINGS) && (le32 p REQ_OFF_DATASIZE =? RSSET_SIZE) || (dtype =? 0)) = true ->
   existsb (rmatch (s32 (le32 p REQ_OFF_CHANNEL))) (rss s) = true -> res = RES_UNAUTHORIZED).
Proof.
  intros s p L Hup Hreg Hg Hu Hc Ha. rewrite (step_srv _ _ _ L), (srv_is_calcfg _ _ Hup Hreg), Hg, Hu.
  unfold calcfg. rewrite Hc, Ha. pose proof (cf_cmds CF) as Hne.
  assert (E1 : (CMD_RECALIBRATE =? CMD_ENTER_CFG_MODE) = false) by (apply Z.eqb_neq; congruence). rewrite E1, Z.eqb_refl.
  set (sender := s32 (le32 p REQ_OFF_SENDER)). set (ch := s32 (le32 p REQ_OFF_CHANNEL)).
  set (dt := s32 (le32 p REQ_OFF_DATATYPE)). set (wf := (dt =? DATATYPE_RS_SETTINGS) && (le32 p REQ_OFF_DATASIZE =? RSSET_SIZE)).
  cbn [andb]. destruct (wf || (dt =? 0)) eqn:W.
  - destruct (recal_loop_unauth (rss s) ch wf (le32 p (REQ_OFF_DATA + RSSET_OFF_OPEN)) (le32 p (REQ_OFF_DATA + RSSET_OFF_CLOSE))) as [m E].
    rewrite E. cbv zeta. rewrite with_rss_id, cal_outs_same. cbn [Z.ltb Z.compare app]. rewrite app_nil_r.
    destruct (filter_send_result s sender ch CMD_RECALIBRATE (recal_result (rss s) ch 0 RES_NOT_SUPPORTED)) as [F1 F2].
    rewrite F1, F2, inert_refl. eexists; split; [reflexivity|]. split.
    + destruct (existsb (rmatch ch) (rss s)) eqn:X; [left; apply recal_result_match; auto|right; apply recal_result_nomatch; auto].
    + intros _ X. apply recal_result_match; auto.
  - destruct (filter_send_result s sender ch CMD_RECALIBRATE RES_NOT_SUPPORTED) as [F1 F2].
    cbv zeta. rewrite F1, F2, inert_refl, app_nil_r. eexists; split; [reflexivity|]. split; [right; reflexivity|].
    intros X. cbv zeta in X. fold dt in X. fold wf in X. congruence.
Qed.

End WithFacts.

(* ------------------------------------------------------------------------------------------------ *)
(* which server messages can change calibration data *)
Lemma cfgmode_start_rss s s' o : cfgmode_start s = (s', o) -> rss s' = rss s.
Proof.
  unfold cfgmode_start. destruct (negb (entertime s =? 0)); intros H; inversion H; subst; reflexivity.
Qed.

Lemma calcfg_calib s p s' o :
  calcfg s p = (s', o) -> calib_all s' <> calib_all s ->
  s32 (le32 p REQ_OFF_COMMAND) = CMD_RECALIBRATE /\ nthz p REQ_OFF_AUTH <> 0 /\
  existsb (rmatch (s32 (le32 p REQ_OFF_CHANNEL))) (rss s) = true.
Proof.
  unfold calcfg. intros H Hc.
  destruct (s32 (le32 p REQ_OFF_COMMAND) =? CMD_ENTER_CFG_MODE) eqn:E1.
  { destruct (nthz p REQ_OFF_AUTH =? 1).
    - destruct (cfgmode_start (set_exit_to s true)) as [sa oa] eqn:EA. inversion H; subst.
      apply cfgmode_start_rss in EA. exfalso. apply Hc. unfold calib_all. rewrite EA. reflexivity.
    - inversion H; subst. congruence. }
  destruct ((s32 (le32 p REQ_OFF_COMMAND) =? CMD_RECALIBRATE) &&
            ((s32 (le32 p REQ_OFF_DATATYPE) =? DATATYPE_RS_SETTINGS) && (le32 p REQ_OFF_DATASIZE =? RSSET_SIZE) || (s32 (le32 p REQ_OFF_DATATYPE) =? 0))) eqn:E2.
  2:{ inversion H; subst. congruence. }
  apply andb_true_iff in E2. destruct E2 as [E2 _]. apply Z.eqb_eq in E2.
  set (ch := s32 (le32 p REQ_OFF_CHANNEL)) in *.
  destruct (Z.eq_dec (nthz p REQ_OFF_AUTH) 0) as [A|A].
  { exfalso. rewrite A in H.
    match type of H with context [recal_loop ?l ?c 0 ?w ?a ?b] => destruct (recal_loop_unauth l c w a b) as [m E]; rewrite E in H end.
    inversion H; subst. apply Hc. rewrite with_rss_id. reflexivity. }
  destruct (existsb (rmatch ch) (rss s)) eqn:X; [auto|].
  exfalso.
  match type of H with context [recal_loop ?l ?c ?au ?w ?a ?b] => destruct (recal_loop_nomatch l c au w a b X) as (m & a' & n & E); rewrite E in H end.
  inversion H; subst. apply Hc. rewrite with_rss_id. reflexivity.
Qed.

Definition known_class (s : st) (call : Z) (p : list Z) : Prop :=
  (call = CALL_SET_VALUE /\ len p = NV_SIZE /\ find_rs (rss (pre_iter s)) (nthz p NV_OFF_CHANNEL) 0 <> None) \/
  (call = CALL_GROUP_SET_VALUE /\ len p = GNV_SIZE /\ find_rs (rss (pre_iter s)) (nthz p GNV_OFF_CHANNEL) 0 <> None).

Lemma set_value_calib s ch dur v : calib_all (fst (set_value s ch dur v)) <> calib_all s -> find_rs (rss s) ch 0 <> None.
Proof. unfold set_value. destruct (find_rs (rss s) ch 0) as [[k r]|]; [congruence|]. cbn. congruence. Qed.

Lemma calib_set_conn s a b : calib_all (set_conn s a b) = calib_all s.
Proof. reflexivity. Qed.

(* every server message that changes calibration data is an authorised recalibrate request for a shutter channel
   that supports it, or a set-value message addressed to a shutter channel (the known finding) *)
Lemma srv_touches_calibration_thm : forall s call p,
  live s -> calib_all (fst (step s (Srv call p))) <> calib_all s ->
  (call = CALL_CALCFG_REQUEST /\ calcfg_gate p = true /\ s32 (le32 p REQ_OFF_COMMAND) = CMD_RECALIBRATE /\ nthz p REQ_OFF_AUTH <> 0 /\
     existsb (rmatch (s32 (le32 p REQ_OFF_CHANNEL))) (rss (pre_iter s)) = true)
  \/ known_class s call p.
Proof.
  intros s call p L. rewrite (step_srv _ _ _ L). unfold srv. rewrite <- (calib_pre_iter s). unfold known_class.
  set (s1 := pre_iter s). intros H.
  destruct (negb (srpc_up s1)); [cbn in H; congruence|].
  destruct (call =? CALL_REGISTER_RESULT) eqn:E1.
  { destruct ((len p =? REGRES_SIZE) && (s32 (le32 p REGRES_OFF_CODE) =? RESULTCODE_TRUE_)); cbn [fst] in H; try rewrite calib_set_conn in H; congruence. }
  destruct (call =? CALL_SET_VALUE) eqn:E2.
  { apply Z.eqb_eq in E2. destruct (len p =? NV_SIZE) eqn:E; [|cbn in H; congruence].
    apply Z.eqb_eq in E. right; left. repeat split; auto. apply set_value_calib in H; auto. }
  destruct (call =? CALL_GROUP_SET_VALUE) eqn:E3.
  { apply Z.eqb_eq in E3. destruct (len p =? GNV_SIZE) eqn:E; [|cbn in H; congruence].
    apply Z.eqb_eq in E. right; right. repeat split; auto. apply set_value_calib in H; auto. }
  destruct (call =? CALL_CALCFG_REQUEST) eqn:E4.
  2:{ destruct ((call =? CALL_SET_CHANNEL_CONFIG) || (call =? CALL_GET_CHANNEL_CONFIG_RESULT)); [|cbn in H; congruence].
      destruct (chcfg_is_at p); exfalso; apply H; reflexivity. }
  apply Z.eqb_eq in E4. destruct (calcfg_gate p) eqn:G; [|cbn in H; congruence].
  destruct (calcfg s1 p) as [s' o] eqn:C. cbn [fst] in H.
  destruct (calcfg_calib _ _ _ _ C H) as (A & B & D). left. auto.
Qed.

(* ------------------------------------------------------------------------------------------------ *)
(* where EnterCfg / Factory outputs can come from, one handler at a time *)
Definition no_enter (o : list out) : Prop := forall t, ~ In (EnterCfg t) o.
Definition no_factory (o : list out) : Prop := ~ In Factory o.

Lemma cfgmode_start_out s s' o :
  cfgmode_start s = (s', o) ->
  (o = [] /\ s' = s) \/ (o = [EnterCfg (now s)] /\ entertime s = 0 /\ inputs s' = inputs s /\ now s' = now s /\ boot32 s' = boot32 s /\
                          halted s' = halted s /\ booted s' = booted s /\ silent s' = silent s).
Proof.
  unfold cfgmode_start. destruct (entertime s =? 0) eqn:E; cbn [negb]; intros H; inversion H; subst; [right|left; auto].
  apply Z.eqb_eq in E. repeat split; auto.
Qed.
Lemma input_start_cfg_out s s' o :
  input_start_cfg s = (s', o) ->
  (o = [] /\ s' = s) \/ (o = [EnterCfg (now s)] /\ cfgmode s = false /\ inputs s' = inputs s /\ now s' = now s /\ boot32 s' = boot32 s /\
                          halted s' = halted s /\ booted s' = booted s /\ silent s' = silent s).
Proof.
  unfold input_start_cfg. destruct (cfgmode s) eqn:E; intros H; [inversion H; auto|].
  destruct (cfgmode_start_out _ _ _ H) as [[A B]|(A & B & C)].
  - exfalso. unfold cfgmode in E. unfold cfgmode_start in H. cbn [entertime devconn_stop] in H. rewrite E in H. subst o. inversion H.
  - right. cbn in *. intuition.
Qed.
Lemma restart_out s x s' o : restart s x = (s', o) -> halted s' = true /\ no_enter o /\ no_factory o.
Proof.
  unfold restart. intros H; inversion H; subst. split; [reflexivity|]. split; [intros t [C|[]]; discriminate|intros [C|[]]; discriminate].
Qed.

Definition same_globals (s s' : st) : Prop :=
  now s' = now s /\ boot32 s' = boot32 s /\ booted s' = booted s /\ halted s' = halted s /\ silent s' = silent s.
Definition upd_result (s : st) (i : Z) (s' : st) (x' : input) : Prop :=
  inputs s' = setn (inputs s) i x' /\ same_globals s s'.
Lemma same_globals_refl s : same_globals s s. Proof. repeat split. Qed.
Lemma upd_set_input s i x : upd_result s i (set_input s i x) x.
Proof. split; [reflexivity|repeat split]. Qed.

Lemma input_start_cfg_upd s i x s' o :
  input_start_cfg (set_input s i x) = (s', o) ->
  upd_result s i s' x /\ (o = [] \/ (o = [EnterCfg (now s)] /\ cfgmode s = false)).
Proof.
  intros H. destruct (input_start_cfg_out _ _ _ H) as [[A B]|(A & B & C & D & E & F & G & I)].
  - subst. split; [apply upd_set_input|auto].
  - split; [|right; auto]. split; [exact C|]. cbn in *. repeat split; auto.
Qed.

Lemma legacy_tail_spec s i x stt s' o :
  i_armed x = false -> legacy_tail s i x stt = (s', o) ->
  halted s' = true \/
  (exists x', upd_result s i s' x' /\ i_last x' = i_last x /\ i_cnt x' = i_cnt x /\
      (i_armed x' = true -> stt = STATE_ACTIVE /\ i_lsc x' = now32 s /\ i_adv x' = false) /\ o = []).
Proof.
  intros Ha. unfold legacy_tail. destruct (stt =? STATE_ACTIVE) eqn:E.
  - intros H; inversion H; subst. right. eexists; split; [apply upd_set_input|]. cbn. apply Z.eqb_eq in E. intuition.
  - destruct (cfgbtn_enabled s x && (0 <? i_cnt x) && (3000000 <? u32 (now32 s - entertime s)) && can_exit s x).
    + intros H. apply restart_out in H. left; tauto.
    + intros H; inversion H; subst. right. exists x; split; [apply upd_set_input|]. rewrite Ha. intuition discriminate.
Qed.

Lemma legacy_count_bound s x stt : -128 <= i_cnt x <= 127 ->
  -128 <= legacy_count s x stt <= 127 /\ legacy_count s x stt <= Z.max 1 (i_cnt x + 1).
Proof.
  intros H. unfold legacy_count. destruct (CHAIN_WINDOW_US <=? u32 (now32 s - i_lsc x)); [lia|].
  destruct (counted_legacy x stt); [|lia].
  pose proof (s8_range (i_cnt x + 1)). pose proof (s8_le (i_cnt x + 1) ltac:(lia)). lia.
Qed.

(* result of the legacy state-change handler *)
Lemma legacy_change_spec (CF : consts_facts) s i x stt s' o :
  i_armed x = false -> -128 <= i_cnt x <= 127 -> legacy_change s i x stt = (s', o) ->
  halted s' = true \/
  (exists x', upd_result s i s' x' /\ i_last x' = i_last x /\ -128 <= i_cnt x' <= 127 /\ i_cnt x' <= Z.max 1 (i_cnt x + 1) /\
      (i_armed x' = true -> stt = STATE_ACTIVE /\ i_lsc x' = now32 s /\ i_adv x' = false) /\
      (o = [] \/ (o = [EnterCfg (now s)] /\ cfgmode s = false /\ toggle_enabled x = true /\ PRESS_COUNT <= Z.max 1 (i_cnt x + 1)))).
Proof.
  intros Ha Hc. unfold legacy_change. pose proof (cf_count CF) as HC.
  assert (TAIL : forall y, i_armed y = false -> i_last y = i_last x -> -128 <= i_cnt y <= 127 -> i_cnt y <= Z.max 1 (i_cnt x + 1) ->
            legacy_tail s i y stt = (s', o) ->
            halted s' = true \/
            (exists x', upd_result s i s' x' /\ i_last x' = i_last x /\ -128 <= i_cnt x' <= 127 /\ i_cnt x' <= Z.max 1 (i_cnt x + 1) /\
               (i_armed x' = true -> stt = STATE_ACTIVE /\ i_lsc x' = now32 s /\ i_adv x' = false) /\
               (o = [] \/ (o = [EnterCfg (now s)] /\ cfgmode s = false /\ toggle_enabled x = true /\ PRESS_COUNT <= Z.max 1 (i_cnt x + 1))))).
  { intros y Y1 Y2 Y3 Y4 H. destruct (legacy_tail_spec _ _ _ _ _ _ Y1 H) as [A|(x' & U & L1 & L2 & L3 & L4)]; [left; auto|].
    right. exists x'. rewrite L1, L2. intuition. }
  destruct (cfgbtn_enabled s x).
  2:{ apply TAIL; auto; lia. }
  destruct (negb (cfgmode s)) eqn:EC.
  - destruct (legacy_count_bound s x stt Hc) as [B1 B2].
    destruct (toggle_enabled x && (PRESS_COUNT <=? legacy_count s x stt)) eqn:ET.
    + intros H. apply input_start_cfg_upd in H. destruct H as [U Ho]. right. eexists; split; [exact U|]. cbn.
      apply andb_true_iff in ET. destruct ET as [T1 T2]. apply Z.leb_le in T2. apply negb_true_iff in EC.
      repeat split; try lia; try discriminate.
      destruct Ho as [Ho|[Ho _]]; [left; auto|right]. repeat split; auto. lia.
    + apply TAIL; cbn; auto.
  - destruct (counted_legacy x stt).
    + destruct (negb (hold_enabled x) && (3000000 <? u32 (now32 s - entertime s)) && can_exit s x).
      * intros H. apply restart_out in H. left; tauto.
      * apply TAIL; cbn; auto; lia.
    + apply TAIL; auto; lia.
Qed.

(* result of the advanced state-change handler *)
Lemma advanced_change_spec (CF : consts_facts) s i x stt s' o :
  -128 <= i_cnt x <= 127 -> getn (inputs s) i <> None -> advanced_change s i x stt = (s', o) ->
  exists x', upd_result s i s' x' /\ i_last x' = i_last x /\ -128 <= i_cnt x' <= 127 /\ i_cnt x' <= Z.max 1 (i_cnt x + 1) /\
      i_armed x' = true /\ i_lsc x' = now32 s /\ i_adv x' = true /\
      (o = [] \/ (o = [EnterCfg (now s)] /\ cfgmode s = false /\ toggle_enabled x = true /\ PRESS_COUNT <= Z.max 1 (i_cnt x + 1))).
Proof.
  intros Hc Hin. unfold advanced_change. pose proof (cf_count CF) as HC.
  pose proof (s8_range (i_cnt x + 1)). pose proof (s8_le (i_cnt x + 1) ltac:(lia)).
  destruct (negb (i_cnt x =? -1) && ((stt =? STATE_ACTIVE) || toggles x)).
  - destruct (toggle_enabled x && (PRESS_COUNT <=? s8 (i_cnt x + 1))) eqn:ET.
    + destruct (input_start_cfg (set_input s i (upd_in x (i_last x) 0 (i_lsc x) false true))) as [s1 o1] eqn:E.
      apply input_start_cfg_upd in E. destruct E as [[U1 U2] Ho].
      assert (G : getn (inputs s1) i = Some (upd_in x (i_last x) 0 (i_lsc x) false true)).
      { rewrite U1. destruct (getn (inputs s) i) eqn:G0; [|congruence]. eapply getn_setn_same; eauto. }
      rewrite G. intros HH; inversion HH; subst. eexists. split.
      { split.
        - cbn [inputs set_input with_inputs]. rewrite U1. apply setn_setn.
        - destruct U2 as (A & B & C & D & E). repeat split; cbn; auto. }
      cbn. apply andb_true_iff in ET. destruct ET as [T1 T2]. apply Z.leb_le in T2.
      repeat split; try lia. destruct Ho as [Ho|[Ho Hm]]; [left; auto|right]. repeat split; auto. lia.
    + intros HH; inversion HH; subst. eexists; split; [apply upd_set_input|]. cbn. repeat split; auto; lia.
  - intros HH; inversion HH; subst. eexists; split; [apply upd_set_input|]. cbn. repeat split; auto; lia.
Qed.

Lemma factory_reset_out s s' o : factory_reset s = (s', o) -> halted s' = true /\ no_enter o.
Proof.
  unfold factory_reset. destruct (restart (set_blank s 15) 500000) as [s2 o2] eqn:E. intros H; inversion H; subst.
  apply restart_out in E. destruct E as (A & B & C). split; auto.
  intros t [X|[X|X]]; try discriminate. apply (B t X).
Qed.

Lemma legacy_tick_spec s i x s' o :
  legacy_tick s i x = (s', o) ->
  (s' = s /\ o = []) \/
  ((i_last x = STATE_ACTIVE /\ hold_enabled x = true /\ PRESS_TIME_MS * 1000 <= u32 (now32 s - i_lsc x)) /\
   ((exists x', upd_result s i s' x' /\ i_last x' = i_last x /\ i_cnt x' = 0 /\ i_armed x' = false /\
        (o = [] \/ (o = [EnterCfg (now s)] /\ cfgmode s = false)))
    \/ (halted s' = true /\ cfgmode s = true /\ band (i_flags x) FLAG_FACTORY_RESET = true /\ no_enter o))).
Proof.
  unfold legacy_tick.
  destruct ((i_last x =? STATE_ACTIVE) && hold_enabled x && (PRESS_TIME_MS * 1000 <=? u32 (now32 s - i_lsc x))) eqn:E.
  2:{ intros H; inversion H; auto. }
  apply andb_true_iff in E. destruct E as [E E3]. apply andb_true_iff in E. destruct E as [E1 E2].
  apply Z.eqb_eq in E1. apply Z.leb_le in E3. intros H. right. split; [auto|].
  destruct (negb (cfgmode s)) eqn:EC.
  - apply input_start_cfg_upd in H. destruct H as [U Ho]. left. eexists; split; [exact U|]. cbn. repeat split; auto.
  - apply negb_false_iff in EC. destruct (band (i_flags x) FLAG_FACTORY_RESET) eqn:EF.
    + apply factory_reset_out in H. right. tauto.
    + inversion H; subst. left. eexists; split; [apply upd_set_input|]. cbn. auto.
Qed.

Lemma advanced_tick_spec s i x s' o :
  -128 <= i_cnt x <= 127 ->
  advanced_tick s i x = (s', o) ->
  exists x', upd_result s i s' x' /\ i_last x' = i_last x /\ i_lsc x' = i_lsc x /\ i_adv x' = i_adv x /\
     (i_armed x' = true -> i_armed x = true) /\ -128 <= i_cnt x' <= 127 /\ i_cnt x' <= Z.max (i_cnt x) 0 /\
     (o = [] \/ (o = [EnterCfg (now s)] /\ cfgmode s = false /\ i_last x = STATE_ACTIVE /\ hold_enabled x = true /\
                 PRESS_TIME_MS * 1000 <= u32 (now32 s - i_lsc x))).
Proof.
  intros Hc. unfold advanced_tick. cbv zeta.
  set (delta := u32 (now32 s - i_lsc x)).
  (* phase 1 *)
  match goal with |- (match ?T with (_, _) => _ end = _) -> _ => set (TT := T) end.
  assert (P1 : exists s1 x1 o1, TT = (s1, x1, o1) /\
     (s1 = s \/ upd_result s i s1 (upd_in x (i_last x) 0 (i_lsc x) false (i_adv x))) /\
     same_globals s s1 /\
     i_last x1 = i_last x /\ i_lsc x1 = i_lsc x /\ i_adv x1 = i_adv x /\ i_type x1 = i_type x /\ i_maxc x1 = i_maxc x /\
     (i_armed x1 = true -> i_armed x = true) /\ -128 <= i_cnt x1 <= 127 /\ i_cnt x1 <= Z.max (i_cnt x) 0 /\
     (o1 = [] \/ (o1 = [EnterCfg (now s)] /\ cfgmode s = false /\ i_last x = STATE_ACTIVE /\ hold_enabled x = true /\
                  PRESS_TIME_MS * 1000 <= delta))).
  { unfold TT. clear TT.
destruct ((i_type x =? TYPE_MONOSTABLE) && (i_last x =? STATE_ACTIVE) && negb (i_cnt x =? -1)) eqn:E0.
    2:{ exists s, x, []. repeat split; auto; try lia. }
    apply andb_true_iff in E0. destruct E0 as [E0 _]. apply andb_true_iff in E0. destruct E0 as [_ EA]. apply Z.eqb_eq in EA.
    destruct (hold_enabled x && (PRESS_TIME_MS * 1000 <=? delta)) eqn:E1.
    - apply andb_true_iff in E1. destruct E1 as [EH EP]. apply Z.leb_le in EP.
      destruct (input_start_cfg (set_input s i (upd_in x (i_last x) 0 (i_lsc x) false (i_adv x)))) as [s1 o1] eqn:E2.
      apply input_start_cfg_upd in E2. destruct E2 as [U Ho]. cbn [i_cnt upd_in Z.eqb andb].
      exists s1. eexists. exists o1. split; [reflexivity|]. destruct U as [U1 U2]. cbn.
      repeat split; auto; try lia; try (right; split; auto; fail); try discriminate; try apply U2.
      destruct Ho as [Ho|[Ho Hm]]; [left; auto|right; repeat split; auto].
    - destruct ((i_cnt x =? 1) && (HOLD_TIME_MS * 1000 <=? delta)) eqn:E2.
      + exists s. eexists. exists []. split; [reflexivity|]. cbn. repeat split; auto; try lia.
        destruct (hold_enabled x); auto; discriminate.
      + exists s, x, []. repeat split; auto; try lia. }
  destruct P1 as (s1 & x1 & o1 & EQ & HS & HG & L1 & L2 & L3 & L4 & L5 & L6 & L7 & L8 & L9).
  rewrite EQ. clear EQ.
  (* phase 2 *)
  set (x2 := if (i_last x1 =? STATE_INACTIVE) || toggles x1
             then if MULTICLICK_TIME_MS * 1000 <=? delta then upd_in x1 (i_last x1) 0 (i_lsc x1) false (i_adv x1)
                  else if i_maxc x1 <=? i_cnt x1
                       then if i_maxc x1 <=? 1 then upd_in x1 (i_last x1) 0 (i_lsc x1) false (i_adv x1)
                            else upd_in x1 (i_last x1) (-1) (i_lsc x1) (i_armed x1) (i_adv x1)
                       else x1
             else x1).
  intros H; inversion H; subst s' o. exists x2.
  assert (X2 : i_last x2 = i_last x1 /\ i_lsc x2 = i_lsc x1 /\ i_adv x2 = i_adv x1 /\ (i_armed x2 = true -> i_armed x1 = true) /\
               -128 <= i_cnt x2 <= 127 /\ i_cnt x2 <= Z.max (i_cnt x1) 0).
  { unfold x2. destruct ((i_last x1 =? STATE_INACTIVE) || toggles x1); [|repeat split; auto; lia].
    destruct (MULTICLICK_TIME_MS * 1000 <=? delta); [cbn; repeat split; auto; try lia; discriminate|].
    destruct (i_maxc x1 <=? i_cnt x1); [|repeat split; auto; lia].
    destruct (i_maxc x1 <=? 1); cbn; repeat split; auto; try lia; discriminate. }
  destruct X2 as (M1 & M2 & M3 & M4 & M5 & M6).
  split.
  { destruct HS as [HS|[U1 U2]].
    - subst s1. apply upd_set_input.
    - split; [cbn [inputs set_input with_inputs]; rewrite U1; apply setn_setn|].
      destruct HG as (A & B & C & D & E). repeat split; cbn; auto. }
  repeat split; try congruence; try lia; auto.
Qed.

(* ------------------------------------------------------------------------------------------------ *)
(* event history (specification side) *)
(* events the theorems about histories range over: time does not run backwards, and channel-configuration messages for
   relay / shutter functions (handlers this model does not follow, see Model.chcfg_unmodelled) are excluded *)
Definition ev_ok (e : ev) : Prop :=
  match e with Time dt => 0 <= dt | Srv c p => chcfg_unmodelled c p = false | _ => True end.

Lemma hist_snoc i pre e : hist i (pre ++ [e]) = hstep i (hist i pre) e.
Proof. unfold hist. rewrite fold_left_app. reflexivity. Qed.
Lemma clock_snoc pre e : clock (pre ++ [e]) = match e with Time dt => clock pre + dt | _ => clock pre end.
Proof. unfold clock. rewrite fold_left_app. reflexivity. Qed.
Lemma hist_facts i pre : Forall ev_ok pre ->
  h_now (hist i pre) = clock pre /\ 0 <= h_n (hist i pre) /\ h_t (hist i pre) <= clock pre.
Proof.
  induction pre as [|e pre IH] using rev_ind; intros H.
  - cbn. lia.
  - apply Forall_app in H. destruct H as [H1 H2]. inversion H2; subst. specialize (IH H1). destruct IH as (A & B & C).
    rewrite hist_snoc, clock_snoc. destruct e; cbn [hstep h_now h_n h_t]; auto.
    + destruct ((i0 =? i) && negb (stt =? h_phys (hist i pre))); cbn; lia.
    + cbn in H3. lia.
Qed.

Lemma u32_diff b a c : u32 (u32 (b + a) - u32 (b + c)) = u32 (a - c).
Proof. rewrite u32_sub_l, u32_sub_r. f_equal. lia. Qed.
Lemma u32_le z : 0 <= z -> u32 z <= z.
Proof. intros. unfold u32. apply Z.mod_le; lia. Qed.

(* ------------------------------------------------------------------------------------------------ *)
(* invariant linking the input records to the history *)
Definition linv (s : st) (x : input) (h : hrec) : Prop :=
  i_last x = h_phys h /\ -128 <= i_cnt x <= 127 /\ i_cnt x <= h_n h /\
  (i_armed x = true -> silent s = false /\ i_lsc x = u32 (boot32 s + h_t h) /\ h_st h = i_last x /\
                       (i_adv x = false -> i_last x = STATE_ACTIVE) /\ 0 < h_n h).
Record inv (s : st) (pre : list ev) : Prop := {
  inv_now : now s = clock pre;
  inv_in : forall i x, getn (inputs s) i = Some x -> linv s x (hist i pre) }.

Lemma linv_frame s s' x h :
  boot32 s' = boot32 s -> (silent s' = silent s \/ silent s' = false) -> linv s x h -> linv s' x h.
Proof.
  intros B S (A1 & A2 & A3 & A4). split; [auto|]. split; [lia|]. split; [lia|].
  intros Ha. destruct (A4 Ha) as (C1 & C2 & C3 & C4 & C5). split; [destruct S; congruence|]. split; [congruence|]. auto.
Qed.

Definition held (pre : list ev) (i : Z) (x : input) : Prop :=
  hold_enabled x = true /\ h_st (hist i pre) = STATE_ACTIVE /\ 0 < h_n (hist i pre) /\
  PRESS_TIME_MS * 1000 <= clock pre - h_t (hist i pre).
Definition cause_enter (s : st) (pre : list ev) (e : ev) : Prop :=
  (exists i x, e = Tick i /\ getn (inputs s) i = Some x /\ cfgmode s = false /\ held pre i x)
  \/ (exists i stt x, e = Notify i stt /\ getn (inputs s) i = Some x /\ cfgmode s = false /\ toggle_enabled x = true /\
        stt <> h_phys (hist i pre) /\ PRESS_COUNT <= h_n (hist i (pre ++ [e])))
  \/ (exists p, e = Srv CALL_CALCFG_REQUEST p /\ calcfg_gate p = true /\
        s32 (le32 p REQ_OFF_COMMAND) = CMD_ENTER_CFG_MODE /\ nthz p REQ_OFF_AUTH = 1).
Definition cause_factory (s : st) (pre : list ev) (e : ev) : Prop :=
  exists i x, e = Tick i /\ getn (inputs s) i = Some x /\ cfgmode s = true /\
              band (i_flags x) FLAG_FACTORY_RESET = true /\ band (i_flags x) FLAG_CFG_BTN = true /\ held pre i x.

Lemma held_from_linv s pre i x :
  Forall ev_ok pre -> inv s pre -> getn (inputs s) i = Some x -> i_armed x = true ->
  i_last x = STATE_ACTIVE -> hold_enabled x = true -> PRESS_TIME_MS * 1000 <= u32 (now32 s - i_lsc x) -> held pre i x.
Proof.
  intros Hok [In Ii] G Ha Hl Hh Hp. destruct (Ii i x G) as (A1 & A2 & A3 & A4). destruct (A4 Ha) as (C1 & C2 & C3 & C4 & C5).
  destruct (hist_facts i pre Hok) as (F1 & F2 & F3).
  repeat split; auto; try congruence.
  unfold now32 in Hp. rewrite C2, u32_diff in Hp. rewrite In in Hp.
  pose proof (u32_le (clock pre - h_t (hist i pre)) ltac:(lia)). lia.
Qed.

Lemma inv_same_inputs s s' pre e :
  inv s pre -> inputs s' = inputs s -> now s' = now s -> boot32 s' = boot32 s -> silent s' = silent s ->
  (forall i, hist i (pre ++ [e]) = hist i pre) -> clock (pre ++ [e]) = clock pre -> inv s' (pre ++ [e]).
Proof.
  intros [In Ii] A B C D H K. split; [congruence|]. intros i x G. rewrite H. rewrite A in G.
  apply (linv_frame s); auto.
Qed.

Lemma hold_flag x : hold_enabled x = true -> band (i_flags x) FLAG_CFG_BTN = true.
Proof. unfold hold_enabled. intros H. apply andb_true_iff in H. destruct H as [H _]. apply andb_true_iff in H. tauto. Qed.

Lemma inv_step_input s s' pre e i :
  inv s pre -> now s' = now s -> boot32 s' = boot32 s -> (silent s' = silent s \/ silent s' = false) ->
  clock (pre ++ [e]) = clock pre ->
  (forall j, j <> i -> hist j (pre ++ [e]) = hist j pre) ->
  (forall j y, j <> i -> getn (inputs s') j = Some y -> getn (inputs s) j = Some y) ->
  (forall x', getn (inputs s') i = Some x' -> linv s' x' (hist i (pre ++ [e]))) ->
  inv s' (pre ++ [e]).
Proof.
  intros [In Ii] A B C K H1 H2 H3. split; [congruence|]. intros j y G.
  destruct (Z.eq_dec j i) as [->|N]; [auto|]. rewrite (H1 j N). apply (linv_frame s); auto.
Qed.

Lemma upd_result_other s i s' x' j y : upd_result s i s' x' -> j <> i -> getn (inputs s') j = Some y -> getn (inputs s) j = Some y.
Proof. intros [U _] N G. rewrite U in G. rewrite getn_setn_other in G; auto. Qed.
Lemma upd_result_same s i s' x' x0 y : upd_result s i s' x' -> getn (inputs s) i = Some x0 -> getn (inputs s') i = Some y -> y = x'.
Proof. intros [U _] G0 G. rewrite U in G. rewrite (getn_setn_same _ _ _ _ G0) in G. congruence. Qed.

Lemma hist_notify_other i j stt pre : j <> i -> hist j (pre ++ [Notify i stt]) = hist j pre.
Proof. intros N. rewrite hist_snoc. cbn [hstep]. destruct (i =? j) eqn:E; [apply Z.eqb_eq in E; congruence|reflexivity]. Qed.
Lemma hist_notify_same i stt pre :
  hist i (pre ++ [Notify i stt]) =
    if negb (stt =? h_phys (hist i pre))
    then {| h_now := h_now (hist i pre); h_phys := stt; h_n := h_n (hist i pre) + 1; h_t := h_now (hist i pre); h_st := stt |}
    else hist i pre.
Proof. rewrite hist_snoc. cbn [hstep]. rewrite Z.eqb_refl. reflexivity. Qed.

Lemma notify_inv_cause (CF : consts_facts) s pre i stt s' o :
  Forall ev_ok pre -> inv s pre -> halted s = false -> notify s i stt = (s', o) ->
  (halted s' = false -> inv s' (pre ++ [Notify i stt])) /\
  (forall t, In (EnterCfg t) o -> cause_enter s pre (Notify i stt)) /\ no_factory o /\ booted s' = booted s.
Proof.
  intros Hok I Hh. pose proof I as [In Ii]. unfold notify.
  assert (CK : clock (pre ++ [Notify i stt]) = clock pre) by (rewrite clock_snoc; reflexivity).
  destruct (hist_facts i pre Hok) as (F1 & F2 & F3).
  destruct (getn (inputs s) i) as [x|] eqn:G.
  2:{ intros H; inversion H; subst. split; [|split; [intros t []|split; [intros []|reflexivity]]]. intros _.
      apply (inv_step_input s' s' pre _ i); auto.
      - intros j N. apply hist_notify_other; auto.
      - intros x' G'. congruence. }
  destruct (Ii i x G) as (A1 & A2 & A3 & A4).
  destruct (silent s && (u32 (now32 s - u32 (boot32 s)) <? SILENT_MS * 1000)) eqn:ES.
  { (* silent start-up period: only the state is recorded *)
    apply andb_true_iff in ES. destruct ES as [ES _].
    intros H; inversion H; subst. split; [|split; [intros t []|split; [intros []|reflexivity]]]. intros _.
    apply (inv_step_input s _ pre _ i); auto.
    - intros j N. apply hist_notify_other; auto.
    - intros j y N G'. cbn in G'. rewrite getn_setn_other in G'; auto.
    - intros x' G'. cbn [inputs set_input with_inputs] in G'. rewrite (getn_setn_same _ _ _ _ G) in G'. inversion G'; subst x'. clear G'.
      assert (Hna : i_armed x = false).
      { destruct (i_armed x) eqn:Ea; auto. destruct (A4 eq_refl) as (C1 & _). congruence. }
      rewrite hist_notify_same. unfold linv. cbn [i_last i_cnt i_armed upd_in]. rewrite Hna.
      destruct (stt =? h_phys (hist i pre)) eqn:E; cbn [negb h_phys h_n].
      + apply Z.eqb_eq in E. repeat split; auto; try lia; discriminate.
      + repeat split; auto; try lia; discriminate. }
  (* normal processing *)
  set (s0 := set_silent s false).
  destruct (i_last x =? stt) eqn:EL.
  { apply Z.eqb_eq in EL. intros H; inversion H; subst s' o. split; [|split; [intros t []|split; [intros []|reflexivity]]]. intros _.
    apply (inv_step_input s s0 pre _ i); auto.
    - intros j N. apply hist_notify_other; auto.
    - intros x' G'. cbn in G'. rewrite G in G'. inversion G'; subst x'.
      rewrite hist_notify_same. assert (E : (stt =? h_phys (hist i pre)) = true) by (apply Z.eqb_eq; congruence). rewrite E. cbn [negb].
      apply (linv_frame s); auto. }
  apply Z.eqb_neq in EL.
  assert (NP : stt <> h_phys (hist i pre)) by congruence.
  assert (HS : hist i (pre ++ [Notify i stt]) =
               {| h_now := h_now (hist i pre); h_phys := stt; h_n := h_n (hist i pre) + 1; h_t := h_now (hist i pre); h_st := stt |}).
  { rewrite hist_notify_same. apply Z.eqb_neq in NP. rewrite NP. reflexivity. }
  set (x1 := upd_in x stt (i_cnt x) (i_lsc x) false (advanced s0 x)).
  assert (G0 : getn (inputs s0) i = Some x) by exact G.
  (* common finish for both handlers *)
  assert (FIN : forall x', upd_result s0 i s' x' -> i_last x' = stt -> -128 <= i_cnt x' <= 127 -> i_cnt x' <= Z.max 1 (i_cnt x + 1) ->
                  (i_armed x' = true -> i_lsc x' = now32 s0 /\ (i_adv x' = false -> stt = STATE_ACTIVE)) ->
                  inv s' (pre ++ [Notify i stt])).
  { intros x' U L1 L2 L3 L4. pose proof U as [U1 (U2 & U3 & U4 & U5 & U6)].
    apply (inv_step_input s s' pre _ i); auto.
    - intros j N. apply hist_notify_other; auto.
    - intros j y N G'. apply (upd_result_other s0 i s' x' j y U N G').
    - intros y G'. rewrite (upd_result_same _ _ _ _ _ _ U G0 G'). rewrite HS. unfold linv. cbn [h_phys h_n h_t h_st].
      split; [auto|]. split; [lia|]. split; [lia|]. intros Ha. destruct (L4 Ha) as [M1 M2].
      split; [rewrite U6; reflexivity|]. split.
      { rewrite M1. unfold now32. cbn [boot32 now s0 set_silent]. rewrite U3. cbn [boot32 s0 set_silent]. rewrite F1, In. reflexivity. }
      split; [auto|]. split; [intros Hv; rewrite L1; auto|lia]. }
  assert (CAUSE : cfgmode s0 = false -> toggle_enabled x1 = true -> PRESS_COUNT <= Z.max 1 (i_cnt x1 + 1) -> cause_enter s pre (Notify i stt)).
  { intros C1 C2 C3. right; left. exists i, stt, x. repeat split; auto. rewrite HS. cbn [h_n]. cbn in C3. lia. }
  destruct (advanced s0 x) eqn:EA.
  - intros H. destruct (advanced_change_spec CF s0 i x1 stt s' o) as (x' & U & L1 & L2 & L3 & L4 & L5 & L6 & L7); auto; try congruence.
    split; [intros _; apply (FIN x' U); auto; intros _; split; [auto|congruence]|].
    split; [|split; [|destruct U as [_ (_ & _ & U4 & _)]; exact U4]].
    + intros t Ht. destruct L7 as [L7|(L7 & M1 & M2 & M3)]; subst o; [destruct Ht|]. apply CAUSE; auto.
    + intros Hf. destruct L7 as [L7|(L7 & _)]; subst o; [destruct Hf|destruct Hf as [Hf|[]]; discriminate].
  - intros H. destruct (legacy_change_spec CF s0 i x1 stt s' o) as [Hhalt|(x' & U & L1 & L2 & L3 & L4 & L5)]; auto.
    { unfold legacy_change in H.
      (* halted: nothing to maintain, and restart produces no EnterCfg/Factory; re-derive from the definition *)
      split; [congruence|].
      assert (NE : no_enter o /\ no_factory o /\ booted s' = booted s).
      { clear FIN CAUSE. unfold legacy_tail in H.
        repeat match type of H with
        | context [if ?c then _ else _] => destruct c
        end;
        try (match type of H with restart ?a ?b = _ => unfold restart in H; inversion H; subst;
               split; [intros t [X|[]]; discriminate|split; [intros [X|[]]; discriminate|reflexivity]] end);
        try (inversion H; subst; cbn in Hhalt; congruence);
        try (apply input_start_cfg_out in H; destruct H as [[? ?]|(? & ? & ? & ? & ? & ? & ? & ?)]; subst; cbn in *; congruence). }
      destruct NE as (N1 & N2 & N3). split; [intros t Ht; destruct (N1 t Ht)|auto]. }
    split; [intros _; apply (FIN x' U); auto; intros Ha; destruct (L4 Ha) as (M1 & M2 & M3); auto|].
    split; [|split; [|destruct U as [_ (_ & _ & U4 & _)]; exact U4]].
    + intros t Ht. destruct L5 as [L5|(L5 & M1 & M2 & M3)]; subst o; [destruct Ht|]. apply CAUSE; auto.
    + intros Hf. destruct L5 as [L5|(L5 & _)]; subst o; [destruct Hf|destruct Hf as [Hf|[]]; discriminate].
Qed.

Lemma hist_tick j i pre : hist j (pre ++ [Tick i]) = hist j pre.
Proof. rewrite hist_snoc. reflexivity. Qed.

Lemma tick_inv_cause s pre i s' o :
  Forall ev_ok pre -> inv s pre -> halted s = false -> tick s i = (s', o) ->
  (halted s' = false -> inv s' (pre ++ [Tick i])) /\
  (forall t, In (EnterCfg t) o -> cause_enter s pre (Tick i)) /\
  (In Factory o -> cause_factory s pre (Tick i)) /\ booted s' = booted s.
Proof.
  intros Hok I Hh. pose proof I as [In Ii]. unfold tick.
  assert (CK : clock (pre ++ [Tick i]) = clock pre) by (rewrite clock_snoc; reflexivity).
  destruct (hist_facts i pre Hok) as (F1 & F2 & F3).
  assert (SAME : inv s (pre ++ [Tick i])).
  { apply (inv_step_input s s pre _ i); auto.
    - intros j _. apply hist_tick.
    - intros x' G'. rewrite hist_tick. auto. }
  destruct (getn (inputs s) i) as [x|] eqn:G.
  2:{ intros H; inversion H; subst. split; [auto|]. split; [intros t []|]. split; [intros []|reflexivity]. }
  destruct (i_armed x) eqn:Ea.
  2:{ intros H; inversion H; subst. split; [auto|]. split; [intros t []|]. split; [intros []|reflexivity]. }
  destruct (Ii i x G) as (A1 & A2 & A3 & A4). destruct (A4 Ea) as (C1 & C2 & C3 & C4 & C5).
  destruct (i_adv x) eqn:Ev.
  - intros H. destruct (advanced_tick_spec s i x s' o A2 H) as (x' & U & L1 & L2 & L3 & L4 & L5 & L6 & L7).
    pose proof U as [U1 (U2 & U3 & U4 & U5 & U6)].
    split.
    { intros _. apply (inv_step_input s s' pre _ i); auto.
      - intros j _. apply hist_tick.
      - intros j y N G'. apply (upd_result_other s i s' x' j y U N G').
      - intros y G'. rewrite (upd_result_same _ _ _ _ _ _ U G G'). rewrite hist_tick. unfold linv.
        split; [congruence|]. split; [lia|]. split; [lia|]. intros Ha'.
        split; [congruence|]. split; [rewrite L2, U3; auto|]. split; [congruence|]. split; [intros Hv; congruence|auto]. }
    split.
    { intros t Ht. destruct L7 as [L7|(L7 & M1 & M2 & M3 & M4)]; subst o; [destruct Ht|].
      left. exists i, x. repeat split; auto; try apply (held_from_linv s pre i x); auto. }
    split; [|auto].
    intros Hf. destruct L7 as [L7|(L7 & _)]; subst o; [destruct Hf|destruct Hf as [Hf|[]]; discriminate].
  - intros H. destruct (legacy_tick_spec s i x s' o H) as [[E1 E2]|[(P1 & P2 & P3) [(x' & U & L1 & L2 & L3 & L4)|(Q1 & Q2 & Q3 & Q4)]]].
    + subst. split; [auto|]. split; [intros t []|]. split; [intros []|reflexivity].
    + pose proof U as [U1 (U2 & U3 & U4 & U5 & U6)]. split.
      { intros _. apply (inv_step_input s s' pre _ i); auto.
        - intros j _. apply hist_tick.
        - intros j y N G'. apply (upd_result_other s i s' x' j y U N G').
        - intros y G'. rewrite (upd_result_same _ _ _ _ _ _ U G G'). rewrite hist_tick. unfold linv.
          split; [congruence|]. split; [lia|]. split; [lia|]. intros Ha'. congruence. }
      split.
      { intros t Ht. destruct L4 as [L4|(L4 & M1)]; subst o; [destruct Ht|].
        left. exists i, x. repeat split; auto; try apply (held_from_linv s pre i x); auto. }
      split; [|auto].
      intros Hf. destruct L4 as [L4|(L4 & _)]; subst o; [destruct Hf|destruct Hf as [Hf|[]]; discriminate].
    + split; [congruence|]. split; [intros t Ht; destruct (Q4 t Ht)|]. split.
      * intros _. exists i, x. repeat split; auto; try apply hold_flag; auto; apply (held_from_linv s pre i x); auto.
      * unfold legacy_tick in H.
        repeat match type of H with context [if ?c then _ else _] => destruct c end;
          try (inversion H; subst; reflexivity);
          try (apply input_start_cfg_out in H; destruct H as [[? ?]|(? & ? & ? & ? & ? & ? & ? & ?)]; subst; cbn in *; congruence);
          try (unfold factory_reset, restart in H; inversion H; subst; reflexivity).
Qed.

(* ------------------------------------------------------------------------------------------------ *)
(* the remaining events: they never touch the input records *)
Lemma in_send_result s a b c d x : In x (send_result s a b c d) -> x = CalRes a b c d.
Proof. unfold send_result. destruct (is_registered s); [intros [H|[]]; auto|intros []]. Qed.
Lemma in_cal_outs l l' x : In x (cal_outs l l') -> exists k a b c d e f g, x = Cal k a b c d e f g.
Proof.
  unfold cal_outs. generalize (map Z.of_nat (seq 0 (length l))). revert l'.
  induction l as [|r l IH]; intros [|r' l'] [|k ks]; cbn; try tauto.
  destruct (list_eqb (calib r) (calib r')); cbn; intros H.
  - eapply IH; eauto.
  - destruct H as [H|H]; [subst; do 8 eexists; reflexivity|eapply IH; eauto].
Qed.

Definition frame (s s' : st) : Prop :=
  inputs s' = inputs s /\ now s' = now s /\ boot32 s' = boot32 s /\ silent s' = silent s /\ halted s' = halted s /\ booted s' = booted s.
Lemma frame_refl s : frame s s. Proof. repeat split. Qed.
Lemma frame_trans a b c : frame a b -> frame b c -> frame a c.
Proof. unfold frame. intuition congruence. Qed.
Lemma frame_pre_iter s : frame s (pre_iter s).
Proof. destruct (pre_iter_fields s) as (A & B & C & D & E & F & G & H & I). repeat split; auto. Qed.

Lemma calcfg_frame_cause s p s' o :
  calcfg s p = (s', o) ->
  frame s s' /\ no_factory o /\
  (forall t, In (EnterCfg t) o -> s32 (le32 p REQ_OFF_COMMAND) = CMD_ENTER_CFG_MODE /\ nthz p REQ_OFF_AUTH = 1).
Proof.
  unfold calcfg. destruct (s32 (le32 p REQ_OFF_COMMAND) =? CMD_ENTER_CFG_MODE) eqn:E1.
  - apply Z.eqb_eq in E1. destruct (nthz p REQ_OFF_AUTH =? 1) eqn:E2.
    + apply Z.eqb_eq in E2. destruct (cfgmode_start (set_exit_to s true)) as [sa oa] eqn:EA. intros H; inversion H; subst.
      destruct (cfgmode_start_out _ _ _ EA) as [[A B]|(A & B & C & D & E & F & G & I)]; subst.
      * split; [repeat split|]. split; [intros X; apply in_send_result in X; discriminate|auto].
      * split; [repeat split; cbn in *; auto|]. split; [intros [X|X]; [discriminate|apply in_send_result in X; discriminate]|auto].
    + intros H; inversion H; subst. split; [apply frame_refl|]. split.
      * intros X. apply in_send_result in X. discriminate.
      * intros t X. apply in_send_result in X. discriminate.
  - match goal with |- context [if ?c then _ else _] => destruct c end.
    + match goal with |- context [recal_loop ?a ?b ?c ?d ?e ?f] => destruct (recal_loop a b c d e f) as [[[l' m] a'] n] end.
      intros H; inversion H; subst. split; [repeat split|].
      assert (X : forall x, In x (send_result s (s32 (le32 p REQ_OFF_SENDER)) (s32 (le32 p REQ_OFF_CHANNEL)) (s32 (le32 p REQ_OFF_COMMAND))
                                    (recal_result (rss s) (s32 (le32 p REQ_OFF_CHANNEL)) (nthz p REQ_OFF_AUTH) RES_NOT_SUPPORTED) ++
                                  cal_outs (rss s) l' ++ (if 0 <? n then [CfgFlash n n (blank s)] else [])) ->
                      x <> Factory /\ forall t, x <> EnterCfg t).
      { intros x Hx. apply in_app_or in Hx. destruct Hx as [Hx|Hx]; [apply in_send_result in Hx; subst; split; [|intros t]; discriminate|].
        apply in_app_or in Hx. destruct Hx as [Hx|Hx].
        - apply in_cal_outs in Hx. destruct Hx as (k & a & b & c & d & e & f & g & ->). split; [|intros t]; discriminate.
        - destruct (0 <? n); [destruct Hx as [<-|[]]; split; [|intros t]; discriminate|destruct Hx]. }
      split; [intros Hf; apply X in Hf; tauto|intros t Ht; apply X in Ht; destruct Ht as [_ Ht]; destruct (Ht t eq_refl)].
    + intros H; inversion H; subst. split; [apply frame_refl|]. split.
      * intros X. apply in_send_result in X. discriminate.
      * intros t X. apply in_send_result in X. discriminate.
Qed.

Lemma set_value_frame s ch dur v s' o :
  set_value s ch dur v = (s', o) -> frame s s' /\ no_factory o /\ no_enter o.
Proof.
  unfold set_value. destruct (find_rs (rss s) ch 0) as [[k r]|].
  - intros H; inversion H; subst. split; [repeat split|].
    split; [intros X|intros t X]; apply in_app_or in X; destruct X as [X|[X|[]]]; try discriminate;
      apply in_cal_outs in X; destruct X as (k' & a & b & c & d & e & f & g & X); discriminate.
  - intros H; inversion H; subst. split; [apply frame_refl|]. split; [intros []|intros t []].
Qed.

Definition gframe (s s' : st) : Prop :=
  now s' = now s /\ boot32 s' = boot32 s /\ silent s' = silent s /\ halted s' = halted s /\ booted s' = booted s.
Lemma frame_gframe s s' : frame s s' -> gframe s s'.
Proof. unfold frame, gframe. tauto. Qed.
Lemma srv_frame_cause s call p s' o :
  srv s call p = (s', o) ->
  (frame s s' \/ (gframe s s' /\ exists ch m, inputs s' = at_cfg (inputs s) ch m)) /\ no_factory o /\
  (forall t, In (EnterCfg t) o -> call = CALL_CALCFG_REQUEST /\ calcfg_gate p = true /\
                                  s32 (le32 p REQ_OFF_COMMAND) = CMD_ENTER_CFG_MODE /\ nthz p REQ_OFF_AUTH = 1).
Proof.
  unfold srv. pose proof (frame_pre_iter s) as FP. set (s1 := pre_iter s) in *.
  assert (TRIV : forall oo, (oo = [] \/ oo = [Inert true]) -> no_factory oo /\ forall t, In (EnterCfg t) oo -> False).
  { intros oo [->| ->]; split; try (intros []; fail); try (intros t []; fail).
    - intros [X|[]]; discriminate. - intros t [X|[]]; discriminate. }
  destruct (negb (srpc_up s1)).
  { intros H; inversion H; subst. split; [left; auto|].
    destruct (TRIV (if (call =? CALL_CALCFG_REQUEST) && unauth_class p then [Inert true] else [])) as [T1 T2].
    { destruct ((call =? CALL_CALCFG_REQUEST) && unauth_class p); auto. }
    split; [auto|intros t Ht; destruct (T2 t Ht)]. }
  destruct (call =? CALL_REGISTER_RESULT).
  { destruct ((len p =? REGRES_SIZE) && (s32 (le32 p REGRES_OFF_CODE) =? RESULTCODE_TRUE_)); intros H; inversion H; subst;
      (split; [left; apply (frame_trans _ _ _ FP); repeat split|split; [intros []|intros t []]]). }
  destruct (call =? CALL_SET_VALUE).
  { destruct (len p =? NV_SIZE).
    - intros H. apply set_value_frame in H. destruct H as (A & B & C). split; [left; apply (frame_trans _ _ _ FP A)|]. split; [auto|intros t Ht; destruct (C t Ht)].
    - intros H; inversion H; subst. split; [left; auto|]. split; [intros []|intros t []]. }
  destruct (call =? CALL_GROUP_SET_VALUE).
  { destruct (len p =? GNV_SIZE).
    - intros H. apply set_value_frame in H. destruct H as (A & B & C). split; [left; apply (frame_trans _ _ _ FP A)|]. split; [auto|intros t Ht; destruct (C t Ht)].
    - intros H; inversion H; subst. split; [left; auto|]. split; [intros []|intros t []]. }
  destruct (call =? CALL_CALCFG_REQUEST) eqn:EC.
  2:{ destruct ((call =? CALL_SET_CHANNEL_CONFIG) || (call =? CALL_GET_CHANNEL_CONFIG_RESULT)).
      - destruct (chcfg_is_at p); intros H; inversion H; subst.
        + split; [right|split; [intros []|intros t []]]. destruct FP as (F1 & F2 & F3 & F4 & F5 & F6).
          split; [repeat split; cbn; auto|]. do 2 eexists. cbn [inputs with_inputs]. rewrite F1. reflexivity.
        + split; [left; auto|]. split; [intros []|intros t []].
      - intros H; inversion H; subst. split; [left; auto|]. split; [intros []|intros t []]. }
  apply Z.eqb_eq in EC. destruct (calcfg_gate p) eqn:EG.
  2:{ intros H; inversion H; subst. split; [left; auto|].
      destruct (TRIV (if unauth_class p then [Inert true] else [])) as [T1 T2]; [destruct (unauth_class p); auto|].
      split; [auto|intros t Ht; destruct (T2 t Ht)]. }
  destruct (calcfg s1 p) as [s2 o2] eqn:E. apply calcfg_frame_cause in E. destruct E as (A & B & C).
  intros H; inversion H; subst. split; [left; apply (frame_trans _ _ _ FP A)|].
  assert (SUB : forall x, In x (filter (fun x => match x with CfgFlash _ _ _ => false | _ => true end) o2 ++
                               (if unauth_class p then [Inert (list_eqb (concat (calib_all s1)) (concat (calib_all s')) &&
                                                               (entertime s1 =? entertime s') && Bool.eqb (srpc_up s1) (srpc_up s'))] else []) ++
                               filter (fun x => match x with CfgFlash _ _ _ => true | _ => false end) o2) ->
                      In x o2 \/ exists b, x = Inert b).
  { intros x Hx. apply in_app_or in Hx. destruct Hx as [Hx|Hx]; [apply filter_In in Hx; tauto|].
    apply in_app_or in Hx. destruct Hx as [Hx|Hx]; [|apply filter_In in Hx; tauto].
    destruct (unauth_class p); [destruct Hx as [<-|[]]; right; eexists; reflexivity|destruct Hx]. }
  split.
  - intros Hf. apply SUB in Hf. destruct Hf as [Hf|[b Hf]]; [auto|discriminate].
  - intros t Ht. apply SUB in Ht. destruct Ht as [Ht|[b Ht]]; [|discriminate]. destruct (C t Ht); auto.
Qed.

Lemma hist_other_events j pre e :
  (forall i stt, e <> Notify i stt) -> (forall dt, e <> Time dt) -> hist j (pre ++ [e]) = hist j pre /\ clock (pre ++ [e]) = clock pre.
Proof.
  intros N T. rewrite hist_snoc, clock_snoc. destruct e; try (split; reflexivity).
  - destruct (N i stt eq_refl). - destruct (T dt eq_refl).
Qed.

Lemma inv_frame s s' pre e :
  inv s pre -> frame s s' -> (forall i stt, e <> Notify i stt) -> (forall dt, e <> Time dt) -> inv s' (pre ++ [e]).
Proof.
  intros I (A & B & C & D & E & F) N T. apply (inv_same_inputs s); auto.
  - intros i. apply (hist_other_events i pre e N T). - apply (hist_other_events 0 pre e N T).
Qed.

(* ------------------------------------------------------------------------------------------------ *)
Lemma sat_rel x m :
  i_last (set_active_triggers x m) = i_last x /\ i_lsc (set_active_triggers x m) = i_lsc x /\
  i_adv (set_active_triggers x m) = i_adv x /\
  (i_cnt (set_active_triggers x m) = i_cnt x \/ i_cnt (set_active_triggers x m) = 0) /\
  (i_armed (set_active_triggers x m) = true -> i_armed x = true).
Proof.
  unfold set_active_triggers.
  match goal with |- context [let '(a, b) := ?T in _] => destruct T as [rel drel] end.
  cbn [i_last i_cnt i_armed i_lsc i_adv]. repeat split; auto; match goal with |- context [if ?c then _ else _] => destruct c end; auto; discriminate.
Qed.
(* an ACTIONTRIGGER configuration (same or different ActiveActions, any channel, any time) keeps the invariant *)
Lemma inv_at_cfg s s' pre e ch m :
  Forall ev_ok pre -> inv s pre -> gframe s s' -> inputs s' = at_cfg (inputs s) ch m ->
  (forall i stt, e <> Notify i stt) -> (forall dt, e <> Time dt) -> inv s' (pre ++ [e]).
Proof.
  intros Hok [In Ii] (G1 & G2 & G3 & G4 & G5) HI N T. split.
  - rewrite G1, In. symmetry. apply (hist_other_events 0 pre e N T).
  - intros i y G. rewrite (proj1 (hist_other_events i pre e N T)). rewrite HI in G. unfold at_cfg in G.
    apply getn_map in G. destruct G as (x & Gx & ->). specialize (Ii i x Gx).
    destruct (i_chan x =? ch); [|apply (linv_frame s); auto].
    destruct Ii as (A1 & A2 & A3 & A4). destruct (sat_rel x m) as (S1 & S2 & S3 & S4 & S5).
    destruct (hist_facts i pre Hok) as (F1 & F2 & F3).
    unfold linv. rewrite S1, S2, S3. split; [auto|]. split; [destruct S4 as [-> | ->]; lia|]. split; [destruct S4 as [-> | ->]; lia|].
    intros Ha. destruct (A4 (S5 Ha)) as (C1 & C2 & C3 & C4 & C5). split; [congruence|]. split; [congruence|]. auto.
Qed.

(* one step of the automaton: invariant + the only causes of EnterCfg / Factory *)
Lemma step_inv_cause (CF : consts_facts) s pre e s' o :
  Forall ev_ok pre -> ev_ok e -> inv s pre -> live s -> step s e = (s', o) ->
  (halted s' = false -> inv s' (pre ++ [e])) /\ booted s' = true /\
  (forall t, In (EnterCfg t) o -> cause_enter s pre e) /\ (In Factory o -> cause_factory s pre e).
Proof.
  intros Hok He I [Lb Lh]. unfold step.
  assert (NOOUT : (s, []) = (s', o) -> (forall i stt, e <> Notify i stt) -> (forall dt, e <> Time dt) ->
            (halted s' = false -> inv s' (pre ++ [e])) /\ booted s' = true /\
            (forall t, In (EnterCfg t) o -> cause_enter s pre e) /\ (In Factory o -> cause_factory s pre e)).
  { intros H N T; inversion H; subst. split; [intros _; apply (inv_frame s' s'); auto; apply frame_refl|].
    split; [auto|]. split; [intros t []|intros []]. }
  destruct e; rewrite ?Lb, ?Lh; cbn [negb orb].
  - (* Boot while running: ignored *) intros H. apply NOOUT; auto; intros; discriminate.
  - (* ConnCb *) intros H; inversion H; subst. split.
    + intros _. apply (inv_frame s); auto; try (intros; discriminate). destruct (connectable s); repeat split.
    + split; [destruct (connectable s); auto|]. split; [intros t []|intros []].
  - (* Iter *) intros H; inversion H; subst. split.
    + intros _. apply (inv_frame s); auto; try (intros; discriminate). apply frame_pre_iter.
    + destruct (frame_pre_iter s) as (_ & _ & _ & _ & _ & B). split; [congruence|]. split; [intros t []|intros []].
  - (* Srv *) intros H. destruct (srv_frame_cause _ _ _ _ _ H) as (F & NF & C). split.
    + intros _. destruct F as [F|(F & ch & m & HI)].
      * apply (inv_frame s); auto; intros; discriminate.
      * apply (inv_at_cfg s s' pre _ ch m); auto; intros; discriminate.
    + assert (B : booted s' = booted s) by (destruct F as [F|(F & _)]; [apply frame_gframe in F|]; destruct F as (_ & _ & _ & _ & B); exact B).
      split; [congruence|]. split.
      * intros t Ht. destruct (C t Ht) as (C1 & C2 & C3 & C4). subst call. right; right. exists payload. auto.
      * intros Hf. destruct (NF Hf).
  - (* Notify *) intros H. destruct (notify_inv_cause CF s pre i stt s' o Hok I Lh H) as (A & B & C & D).
    split; [auto|]. split; [congruence|]. split; [auto|]. intros Hf. destruct (C Hf).
  - (* Tick *) intros H. destruct (tick_inv_cause s pre i s' o Hok I Lh H) as (A & B & C & D).
    split; [auto|]. split; [congruence|]. auto.
  - (* Time *) intros H; inversion H; subst. split.
    + intros _. destruct I as [In Ii]. split.
      * cbn. rewrite clock_snoc. lia.
      * intros i x G. cbn in G. rewrite hist_snoc. cbn [hstep]. specialize (Ii i x G).
        destruct Ii as (A1 & A2 & A3 & A4). unfold linv. cbn [h_phys h_n h_t h_st]. auto.
    + split; [auto|]. split; [intros t []|intros []].
  - (* ApTimer *) unfold ap_timer. destruct (cfgtmr s =? 1).
    + destruct (exit_to s); intros H; inversion H; subst; (split; [intros _; apply (inv_frame s); auto; try (intros; discriminate); repeat split|]);
        (split; [auto|]); (split; [intros t [X|[X|[]]]; discriminate|intros [X|[X|[]]]; discriminate]).
    + destruct (cfgtmr s =? 2).
      * intros H. unfold restart in H. inversion H; subst. split; [intros X; cbn in X; discriminate|].
        split; [cbn; auto|]. split; [intros t [X|[]]; discriminate|intros [X|[]]; discriminate].
      * intros H. apply NOOUT; auto; intros; discriminate.
  - (* RsEnv *) intros H; inversion H; subst. split.
    + intros _. apply (inv_frame s); auto; try (intros; discriminate). unfold rs_env. destruct (getn (rss s) idx); repeat split.
    + split; [unfold rs_env; destruct (getn (rss s) idx); auto|]. split; [intros t []|intros []].
Qed.

(* ------------------------------------------------------------------------------------------------ *)
(* whole runs *)
Lemma run_from_dead s evs : (forall e, In e evs -> forall a b c d f, e <> Boot a b c d f) \/ booted s = true ->
  booted s = false \/ halted s = true -> run_from s evs = (s, []).
Proof.
  revert s; induction evs as [|e r IH]; intros s NB D; [reflexivity|].
  cbn [run_from]. assert (E : step s e = (s, [])).
  { unfold step. destruct e; try (destruct D as [D|D]; rewrite D; cbn; rewrite ?orb_true_r; reflexivity).
    destruct NB as [NB|NB]; [exfalso; apply (NB _ (or_introl eq_refl) b32 blnk flashcfg ins rs eq_refl)|]. rewrite NB. reflexivity. }
  rewrite E. rewrite IH; auto. destruct NB as [NB|NB]; [left; intros e' He'; apply NB; right; auto|right; auto].
Qed.

Lemma run_from_app s a b :
  run_from s (a ++ b) = let '(s1, o1) := run_from s a in let '(s2, o2) := run_from s1 b in (s2, o1 ++ o2).
Proof.
  revert s; induction a as [|e r IH]; intros s; cbn [app run_from].
  - destruct (run_from s b); reflexivity.
  - destruct (step s e) as [s1 o1]. rewrite IH. destruct (run_from s1 r) as [s2 o2]. destruct (run_from s2 b) as [s3 o3].
    rewrite app_assoc. reflexivity.
Qed.

Lemma run_inv_cause (CF : consts_facts) : forall evs s pre,
  Forall ev_ok pre -> Forall ev_ok evs -> inv s pre -> live s ->
  (forall t, In (EnterCfg t) (snd (run_from s evs)) ->
     exists p1 e p2, evs = p1 ++ e :: p2 /\ cause_enter (fst (run_from s p1)) (pre ++ p1) e) /\
  (In Factory (snd (run_from s evs)) ->
     exists p1 e p2, evs = p1 ++ e :: p2 /\ cause_factory (fst (run_from s p1)) (pre ++ p1) e).
Proof.
  induction evs as [|e r IH]; intros s pre Hp He I L.
  - cbn. split; [intros t []|intros []].
  - inversion He; subst. cbn [run_from]. destruct (step s e) as [s1 o1] eqn:E.
    destruct (step_inv_cause CF s pre e s1 o1 Hp H1 I L E) as (A & B & C & D).
    destruct (run_from s1 r) as [s2 o2] eqn:R. cbn [snd].
    assert (REST : halted s1 = false ->
              (forall t, In (EnterCfg t) o2 -> exists p1 e' p2, r = p1 ++ e' :: p2 /\ cause_enter (fst (run_from s1 p1)) ((pre ++ [e]) ++ p1) e') /\
              (In Factory o2 -> exists p1 e' p2, r = p1 ++ e' :: p2 /\ cause_factory (fst (run_from s1 p1)) ((pre ++ [e]) ++ p1) e')).
    { intros Hh. specialize (IH s1 (pre ++ [e])). rewrite R in IH. apply IH; auto.
      - apply Forall_app; split; auto. - split; auto. }
    assert (DEAD : halted s1 = true -> o2 = []).
    { intros Hh. rewrite run_from_dead in R; auto. inversion R; auto. }
    assert (LIFT : forall (P : st -> list ev -> ev -> Prop),
              (exists p1 e' p2, r = p1 ++ e' :: p2 /\ P (fst (run_from s1 p1)) ((pre ++ [e]) ++ p1) e') ->
              exists p1 e' p2, e :: r = p1 ++ e' :: p2 /\ P (fst (run_from s (p1))) (pre ++ p1) e').
    { intros P (p1 & e' & p2 & Q1 & Q2). exists (e :: p1), e', p2. split; [rewrite Q1; reflexivity|].
      cbn [run_from]. rewrite E. destruct (run_from s1 p1) as [sx ox] eqn:RX. cbn [fst] in *.
      rewrite <- app_assoc in Q2. exact Q2. }
    split.
    + intros t Ht. apply in_app_or in Ht. destruct Ht as [Ht|Ht].
      * exists [], e, r. split; [reflexivity|]. cbn. rewrite app_nil_r. apply (C t Ht).
      * destruct (halted s1) eqn:Hh; [rewrite (DEAD eq_refl) in Ht; destruct Ht|].
        apply (LIFT cause_enter). apply (proj1 (REST eq_refl) t Ht).
    + intros Hf. apply in_app_or in Hf. destruct Hf as [Hf|Hf].
      * exists [], e, r. split; [reflexivity|]. cbn. rewrite app_nil_r. apply (D Hf).
      * destruct (halted s1) eqn:Hh; [rewrite (DEAD eq_refl) in Hf; destruct Hf|].
        apply (LIFT cause_factory). apply (proj2 (REST eq_refl) Hf).
Qed.

(* boot *)
Lemma sat_fields x m :
  i_last (set_active_triggers x m) = i_last x /\ (i_cnt x = 0 -> i_cnt (set_active_triggers x m) = 0) /\
  (i_armed x = false -> i_armed (set_active_triggers x m) = false).
Proof.
  unfold set_active_triggers.
  match goal with |- context [let '(a, b) := ?T in _] => destruct T as [rel drel] end.
  cbn [i_last i_cnt i_armed]. repeat split; auto; intros H; rewrite H; match goal with |- (if ?c then _ else _) = _ => destruct c end; reflexivity.
Qed.


Lemma boot_inv b32 bl fc ins rs s0 o0 :
  boot b32 bl fc ins rs = (s0, o0) ->
  inv s0 [] /\ live s0 /\
  (forall t, In (EnterCfg t) o0 -> incomplete (if fc =? 0 then 15 else bl) = true) /\
  (In Factory o0 -> fc = 0).
Proof.
  unfold boot. set (b := if fc =? 0 then 15 else bl).
  match goal with |- context [if incomplete b then let '(s1, o) := cfgmode_start ?S in _ else _] => set (sb := S) end.
  assert (IB : inv sb [] /\ live sb).
  { split; [|split; reflexivity]. split; [reflexivity|]. intros i y G. cbn [inputs sb] in G. apply getn_map in G. destruct G as (x & _ & ->).
    unfold linv, hist. cbn [fold_left h0 h_phys h_n].
    destruct (i_at x <? 0).
    - cbn. repeat split; auto; try lia; discriminate.
    - match goal with |- context [set_active_triggers ?X ?M] => destruct (sat_fields X M) as (S1 & S2 & S3); rewrite S1, (S2 eq_refl), (S3 eq_refl) end.
      cbn. repeat split; auto; try lia; discriminate. }
  destruct IB as [IB LB].
  assert (O0 : forall x, In x (if fc =? 0 then [Factory] else []) -> x = Factory /\ fc = 0).
  { intros x. destruct (fc =? 0) eqn:E; [intros [<-|[]]; split; auto; apply Z.eqb_eq; auto|intros []]. }
  assert (O9 : forall x, In x (if fc =? 0 then [CfgFlash 1 1 15] else if (2 <=? fc) && (fc <=? 4) then [CfgFlash 1 1 b] else []) ->
                         exists m, x = CfgFlash 1 1 m).
  { intros x. destruct (fc =? 0); [intros [<-|[]]; eauto|]. destruct ((2 <=? fc) && (fc <=? 4)); [intros [<-|[]]; eauto|intros []]. }
  destruct (incomplete b) eqn:EI.
  - destruct (cfgmode_start sb) as [s1 o] eqn:EC. intros H; inversion H; subst.
    destruct (cfgmode_start_out _ _ _ EC) as [[A B]|(A & B & C & D & E & F & G & I)]; subst.
    + split; [auto|]. split; [auto|]. split; [auto|]. intros Hf. apply in_app_or in Hf. destruct Hf as [Hf|Hf]; [apply O0 in Hf; tauto|].
      cbn in Hf. apply O9 in Hf. destruct Hf; discriminate.
    + split.
      { destruct IB as [In Ii]. split; [rewrite D; exact In|]. intros i x Gx. rewrite C in Gx. apply (linv_frame sb); auto. }
      split; [destruct LB; split; congruence|]. split; [auto|].
      intros Hf. apply in_app_or in Hf. destruct Hf as [Hf|Hf]; [apply O0 in Hf; tauto|].
      apply in_app_or in Hf. destruct Hf as [[Hf|[]]|Hf]; [discriminate|apply O9 in Hf; destruct Hf; discriminate].
  - intros H; inversion H; subst. split; [auto|]. split; [auto|]. split.
    + intros t Ht. apply in_app_or in Ht. destruct Ht as [Ht|Ht]; [apply O0 in Ht; destruct Ht; discriminate|apply O9 in Ht; destruct Ht; discriminate].
    + intros Hf. apply in_app_or in Hf. destruct Hf as [Hf|Hf]; [apply O0 in Hf; tauto|apply O9 in Hf; destruct Hf; discriminate].
Qed.

(* ------------------------------------------------------------------------------------------------ *)
(* the property theorems *)
Lemma run_boot b32 bl fc ins rs evs :
  run_from init (Boot b32 bl fc ins rs :: evs) =
    let '(s0, o0) := boot b32 bl fc ins rs in let '(s2, o2) := run_from s0 evs in (s2, o0 ++ o2).
Proof. reflexivity. Qed.

Lemma only_these_enter_cfgmode_thm : code_shape -> forall b32 bl fc ins rs evs t,
  Forall ev_ok evs ->
  In (EnterCfg t) (run (Boot b32 bl fc ins rs :: evs)) ->
  incomplete (if fc =? 0 then 15 else bl) = true \/
  exists pre e post, evs = pre ++ e :: post /\
    cause_enter (fst (run_from init (Boot b32 bl fc ins rs :: pre))) pre e.
Proof.
  intros _ b32 bl fc ins rs evs t Hok. unfold run. rewrite run_boot.
  destruct (boot b32 bl fc ins rs) as [s0 o0] eqn:EB. destruct (boot_inv _ _ _ _ _ _ _ EB) as (I0 & L0 & C0 & F0).
  destruct (run_from s0 evs) as [s2 o2] eqn:ER. cbn [snd]. intros H. apply in_app_or in H. destruct H as [H|H].
  - left. apply (C0 t H).
  - right. destruct (run_inv_cause consts_ok evs s0 [] (Forall_nil _) Hok I0 L0) as [A _]. rewrite ER in A.
    destruct (A t H) as (p1 & e & p2 & Q1 & Q2). exists p1, e, p2. split; [auto|].
    rewrite run_boot, EB. destruct (run_from s0 p1) as [sx ox]. exact Q2.
Qed.

Lemma factory_reset_only_in_cfgmode_thm : code_shape -> forall b32 bl fc ins rs evs,
  Forall ev_ok evs ->
  In Factory (run (Boot b32 bl fc ins rs :: evs)) ->
  fc = 0 \/
  exists pre e post, evs = pre ++ e :: post /\
    cause_factory (fst (run_from init (Boot b32 bl fc ins rs :: pre))) pre e.
Proof.
  intros _ b32 bl fc ins rs evs Hok. unfold run. rewrite run_boot.
  destruct (boot b32 bl fc ins rs) as [s0 o0] eqn:EB. destruct (boot_inv _ _ _ _ _ _ _ EB) as (I0 & L0 & C0 & F0).
  destruct (run_from s0 evs) as [s2 o2] eqn:ER. cbn [snd]. intros H. apply in_app_or in H. destruct H as [H|H].
  - left. apply (F0 H).
  - right. destruct (run_inv_cause consts_ok evs s0 [] (Forall_nil _) Hok I0 L0) as [_ A]. rewrite ER in A.
    destruct (A H) as (p1 & e & p2 & Q1 & Q2). exists p1, e, p2. split; [auto|].
    rewrite run_boot, EB. destruct (run_from s0 p1) as [sx ox]. exact Q2.
Qed.

(* events in front of the first boot do nothing *)
Lemma preboot_ignored pre evs :
  (forall e, In e pre -> forall a b c d f, e <> Boot a b c d f) -> run (pre ++ evs) = run evs.
Proof.
  intros H. unfold run. rewrite run_from_app. rewrite (run_from_dead init pre); [|left; auto|left; reflexivity].
  destruct (run_from init evs); reflexivity.
Qed.

Lemma no_other_message_touches_calibration_except_known_thm : code_shape -> forall s call p,
  live s -> chcfg_unmodelled call p = false -> ~ known_class s call p ->
  calib_all (fst (step s (Srv call p))) <> calib_all s ->
  call = CALL_CALCFG_REQUEST /\ calcfg_gate p = true /\ s32 (le32 p REQ_OFF_COMMAND) = CMD_RECALIBRATE /\ nthz p REQ_OFF_AUTH <> 0 /\
  existsb (rmatch (s32 (le32 p REQ_OFF_CHANNEL))) (rss (pre_iter s)) = true.
Proof.
  intros _ s call p L _ NK H. destruct (srv_touches_calibration_thm s call p L H) as [A|A]; [auto|contradiction].
Qed.

(* ------------------------------------------------------------------------------------------------ *)
(* witnesses (computed) *)
Definition w_in (ty fl : Z) : input := in_of_ints [ty; fl; 255; 0; -1].
Definition w_rs : shutter := rs_of_ints [1; 0; 0; CHFLAG_RECALIBRATE; 0; 4; 5; 10000; 12000].
Definition w_boot (ty fl : Z) : ev := Boot 1 0 1 [w_in ty fl] [w_rs].
Definition w_regok : ev := Srv CALL_REGISTER_RESULT (enc32 RESULTCODE_TRUE_ ++ [30; 23; 1]).
Definition w_pro (ty fl : Z) : list ev := [w_boot ty fl; ConnCb; Iter; w_regok].
(* TSD_SuplaChannelNewValue: SenderID, ChannelNumber 0, DurationMS = 130 | 100 << 16 (closing 13.0 s, opening 10.0 s), value 0 *)
Definition w_setvalue : ev := Srv CALL_SET_VALUE ([5;0;0;0] ++ [0] ++ [130;0;100;0] ++ zeros 8).
(* TSD_DeviceCalCfgRequest header: SenderID 7, ChannelNumber 0, Command, SuperUserAuthorized, DataType 0, DataSize 0 *)
Definition w_calcfg (cmd auth : Z) : ev := Srv CALL_CALCFG_REQUEST (enc32 7 ++ enc32 0 ++ enc32 cmd ++ [auth] ++ enc32 0 ++ enc32 0).

(* the literal clause "no other server message alters calibration" is false of the faithful model:
   a plain set-value for the shutter channel rewrites the closing time and resets the position *)
Lemma no_other_message_touches_calibration_refuted_thm :
  run (w_pro TYPE_MONOSTABLE FLAG_CFG_BTN ++ [w_setvalue]) = [Cal 0 10000 13000 0 0 0 0 0; CfgFlash 1 1 0] /\
  CALL_SET_VALUE <> CALL_CALCFG_REQUEST.
Proof. split; [vm_compute; reflexivity|vm_compute; congruence]. Qed.

(* ten toggles, each 2^32 us (71.6 min) after the previous one, are chained by the 32-bit time arithmetic *)
Definition w_wrap_toggles : list ev :=
  [Time 500000] ++ concat (map (fun k => [Notify 0 (Z.of_nat (S k) mod 2); Time 4294967296]) (seq 0 10)).
Lemma toggle_chain_u32_wrap_refuted_thm :
  filter (fun o => match o with EnterCfg _ => true | _ => false end) (run (w_boot TYPE_BISTABLE FLAG_CFG_BTN :: w_wrap_toggles))
  = [EnterCfg (500000 + 9 * 4294967296)].
Proof. vm_compute. reflexivity. Qed.
(* ... while ten toggles 40 minutes apart are not *)
Definition w_40min_toggles : list ev :=
  [Time 500000] ++ concat (map (fun k => [Notify 0 (Z.of_nat (S k) mod 2); Time 2400000000]) (seq 0 12)).
Lemma toggles_40min_apart_do_not_enter_thm :
  run (w_boot TYPE_BISTABLE FLAG_CFG_BTN :: w_40min_toggles) = [].
Proof. vm_compute. reflexivity. Qed.

(* non-vacuity: every legitimate cause does occur, and the factory reset path exists *)
Definition w_ticks (n : nat) : list ev := concat (repeat [Time 20000; Tick 0] n).
Lemma nonvacuous_thm :
  (* (a) hold for 5 s *)
  run (w_boot TYPE_MONOSTABLE FLAG_CFG_BTN :: [Time 500000; Notify 0 1] ++ w_ticks 250) = [EnterCfg 5500000] /\
  run (w_boot TYPE_MONOSTABLE FLAG_CFG_BTN :: [Time 500000; Notify 0 1] ++ w_ticks 249) = [] /\
  (* (b) ten quick toggles *)
  run (w_boot TYPE_BISTABLE FLAG_CFG_BTN :: [Time 500000] ++ concat (map (fun k => [Notify 0 (Z.of_nat (S k) mod 2); Time 300000]) (seq 0 10)))
    = [EnterCfg (500000 + 9 * 300000)] /\
  (* (c) authorised request; unauthorised ones *)
  run (w_pro TYPE_MONOSTABLE FLAG_CFG_BTN ++ [w_calcfg CMD_ENTER_CFG_MODE 1]) = [EnterCfg 0; CalRes 7 0 CMD_ENTER_CFG_MODE RES_DONE] /\
  run (w_pro TYPE_MONOSTABLE FLAG_CFG_BTN ++ [w_calcfg CMD_ENTER_CFG_MODE 0]) = [CalRes 7 0 CMD_ENTER_CFG_MODE RES_UNAUTHORIZED; Inert true] /\
  run (w_pro TYPE_MONOSTABLE FLAG_CFG_BTN ++ [w_calcfg CMD_RECALIBRATE 0]) = [CalRes 7 0 CMD_RECALIBRATE RES_UNAUTHORIZED; Inert true] /\
  run (w_pro TYPE_MONOSTABLE FLAG_CFG_BTN ++ [RsEnv 0 10000 12000 0 0 5100 0 0 0; w_calcfg CMD_RECALIBRATE 1]) =
      [CalRes 7 0 CMD_RECALIBRATE RES_DONE; Cal 0 10000 12000 0 0 0 0 0] /\
  (* (d) boot with an incomplete configuration *)
  run [Boot 1 2 1 [w_in TYPE_MONOSTABLE FLAG_CFG_BTN] []] = [EnterCfg 0] /\
  (* factory reset: hold again while in configuration mode *)
  run (w_boot TYPE_MONOSTABLE (FLAG_CFG_BTN + FLAG_FACTORY_RESET) :: [Time 500000; Notify 0 1] ++ w_ticks 250 ++ [Notify 0 0; Time 100000; Notify 0 1] ++ w_ticks 250)
    = [EnterCfg 5500000; Factory; CfgFlash 1 1 15; Restart (5500000 + 100000 + 5000000 + 500000)].
Proof. vm_compute. repeat split; reflexivity. Qed.

(* ------------------------------------------------------------------------------------------------ *)
(* the known-finding class, precisely: a set-value message for a shutter channel changes calibration data exactly
   when sv_shutter does, i.e. when the times encoded in DurationMS differ from the stored ones (or toggle
   auto-calibration), or when a relay command aborts a running auto-calibration *)
Lemma find_rs_nth l : forall ch k0 k r, find_rs l ch k0 = Some (k, r) -> k0 <= k /\ nth_error l (Z.to_nat (k - k0)) = Some r.
Proof.
  induction l as [|a l IH]; intros ch k0 k r H; cbn [find_rs] in H; [discriminate|].
  destruct (r_ex a && (r_ch a =? ch)).
  - inversion H; subst. split; [lia|]. replace (k - k) with 0 by lia. reflexivity.
  - apply IH in H. destruct H as [H1 H2]. split; [lia|].
    replace (Z.to_nat (k - k0)) with (S (Z.to_nat (k - (k0 + 1)))) by lia. exact H2.
Qed.
Lemma map_updn_same {A B} (f : A -> B) l : forall n r r2, nth_error l n = Some r -> f r2 = f r -> map f (updn l n r2) = map f l.
Proof.
  induction l as [|a l IH]; intros [|n] r r2 H E; cbn in *; try discriminate.
  - inversion H; subst. congruence. - f_equal. eapply IH; eauto.
Qed.
Lemma set_value_inert_if s ch dur v k r :
  find_rs (rss s) ch 0 = Some (k, r) -> calib (sv_shutter r dur v) = calib r -> calib_all (fst (set_value s ch dur v)) = calib_all s.
Proof.
  intros F E. unfold set_value. rewrite F. cbn [fst]. unfold calib_all. cbn [rss with_rss].
  apply find_rs_nth in F. destruct F as [F1 F2]. unfold setn. destruct (k <? 0) eqn:K; [apply Z.ltb_lt in K; lia|].
  replace (k - 0) with k in F2 by lia. eapply map_updn_same; eauto.
Qed.
Lemma sv_shutter_same r dur v :
  band (r_flags r) CHFLAG_AUTOCAL = false -> sv_close_time dur = r_t2 r -> sv_open_time dur = r_t1 r ->
  (r_step r = 0 \/ r_abr r = true \/ sv_is_position v = true) ->
  calib (sv_shutter r dur v) = calib r.
Proof.
  intros A C O H. unfold sv_shutter, apply_new_times. rewrite A, C, O, !Z.eqb_refl. cbn [negb orb].
  destruct (sv_is_position v) eqn:P; [reflexivity|]. unfold set_relay_abort.
  destruct H as [H|[H|H]]; [|rewrite H; reflexivity|discriminate].
  assert (E : (0 <? r_step r) = false) by (rewrite H; reflexivity). rewrite E, andb_false_r. reflexivity.
Qed.

Definition known_class_precise (s : st) (call : Z) (p : list Z) : Prop :=
  exists k r,
  (call = CALL_SET_VALUE /\ len p = NV_SIZE /\ find_rs (rss (pre_iter s)) (nthz p NV_OFF_CHANNEL) 0 = Some (k, r) /\
     calib (sv_shutter r (le32 p NV_OFF_DURATION) (nthz p NV_OFF_VALUE)) <> calib r) \/
  (call = CALL_GROUP_SET_VALUE /\ len p = GNV_SIZE /\ find_rs (rss (pre_iter s)) (nthz p GNV_OFF_CHANNEL) 0 = Some (k, r) /\
     calib (sv_shutter r (le32 p GNV_OFF_DURATION) (nthz p GNV_OFF_VALUE)) <> calib r).

Lemma calib_eq_dec (a b : list Z) : {a = b} + {a <> b}.
Proof. apply list_eq_dec. apply Z.eq_dec. Qed.

Lemma no_other_message_touches_calibration_except_known_precise_thm : code_shape -> forall s call p,
  live s -> chcfg_unmodelled call p = false -> ~ known_class_precise s call p ->
  calib_all (fst (step s (Srv call p))) <> calib_all s ->
  call = CALL_CALCFG_REQUEST /\ calcfg_gate p = true /\ s32 (le32 p REQ_OFF_COMMAND) = CMD_RECALIBRATE /\ nthz p REQ_OFF_AUTH <> 0 /\
  existsb (rmatch (s32 (le32 p REQ_OFF_CHANNEL))) (rss (pre_iter s)) = true.
Proof.
  intros _ s call p L _ NK H. destruct (srv_touches_calibration_thm s call p L H) as [A|A]; [auto|]. exfalso.
  pose proof (cf_calls consts_ok) as (C1 & C2 & C3 & C4 & C5 & C6).
  rewrite (step_srv _ _ _ L) in H. unfold srv in H. rewrite <- (calib_pre_iter s) in H. set (s1 := pre_iter s) in *.
  destruct (negb (srpc_up s1)); [cbn in H; congruence|].
  destruct A as [(A1 & A2 & A3)|(A1 & A2 & A3)]; subst call; fold s1 in A3.
  - rewrite (proj2 (Z.eqb_neq _ _) C4), Z.eqb_refl in H. apply Z.eqb_eq in A2. rewrite A2 in H.
    destruct (find_rs (rss s1) (nthz p NV_OFF_CHANNEL) 0) as [[k r]|] eqn:F; [|congruence].
    destruct (calib_eq_dec (calib (sv_shutter r (le32 p NV_OFF_DURATION) (nthz p NV_OFF_VALUE))) (calib r)) as [E|E].
    + apply H. eapply set_value_inert_if; eauto.
    + apply NK. exists k, r. left. apply Z.eqb_eq in A2. auto.
  - rewrite (proj2 (Z.eqb_neq _ _) C5), (proj2 (Z.eqb_neq _ _) C6), Z.eqb_refl in H. apply Z.eqb_eq in A2. rewrite A2 in H.
    destruct (find_rs (rss s1) (nthz p GNV_OFF_CHANNEL) 0) as [[k r]|] eqn:F; [|congruence].
    destruct (calib_eq_dec (calib (sv_shutter r (le32 p GNV_OFF_DURATION) (nthz p GNV_OFF_VALUE))) (calib r)) as [E|E].
    + apply H. eapply set_value_inert_if; eauto.
    + apply NK. exists k, r. right. apply Z.eqb_eq in A2. auto.
Qed.
