(* C12 — executable model of everything that can start configuration mode, answer CALCFG requests,
   alter roller-shutter calibration data or run factory defaults:
     user_main.c   user_init (boot decision), supla_system_restart
     supla_esp_cfg.c   supla_esp_cfg_init (first boot), factory_defaults, supla_esp_cfg_ready_to_connect
     supla_esp_cfgmode.c   supla_esp_cfgmode_start{,_with_timeout}, _enter_ap_mode, _timeout_exit
     supla_esp_input.c   notify_state_change, legacy/advanced state-change handlers and timer callbacks,
                         start_cfg_mode, set_active_triggers, is_*_enabled predicates
     supla_esp_devconn.c   connect_cb, iterate (registration step), on_remote_call_received dispatch,
                           supla_esp_calcfg_request, supla_esp_channel{,group}_set_value (shutter branch)
     supla_esp_rs_fb.c   apply_new__times, set_relay (abort of auto-calibration)
   Timers are abstracted: the event stream says when a timer callback runs (Tick / ApTimer) and how the clock
   advances (Time); the roller-shutter engine is an environment event (RsEnv) that may overwrite the
   calibration state arbitrarily.  Definitions only; proofs are in Proofs.v. *)
From Coq Require Import List ZArith Bool.
Import ListNotations.
From V Require Import Base.U32 Base.Bytes Base.Iface Gen.C12Consts.
Local Open Scope Z_scope.

(* ---------- static board description + dynamic state ---------- *)
Record input := {
  i_type : Z; i_flags : Z; i_relay : Z; i_drelay : Z; i_atcap : Z;
  i_chan : Z;          (* channel (ACTIONTRIGGER channel of the input) *)
  i_at : Z;            (* active_triggers *)
  i_maxc : Z;          (* max_clicks *)
  i_last : Z;          (* last_state *)
  i_cnt : Z;           (* click_counter (int8) *)
  i_lsc : Z;           (* last_state_change, 32-bit counter value *)
  i_armed : bool;      (* input_cfg->timer armed *)
  i_adv : bool }.      (* timer function: true = advanced_timer_cb, false = legacy_timer_cb *)

Record shutter := {
  r_ex : bool;         (* up != NULL && down != NULL *)
  r_ch : Z;            (* up->channel *)
  r_flags : Z;         (* up->channel_flags *)
  r_regflags : Z;      (* channel flags after supla_esp_devconn_set_channels (registration) *)
  r_tiltt : Z;         (* supla_esp_cfg.TiltControlType *)
  r_upg : Z; r_dng : Z;  (* gpio ids of the up / down relays *)
  r_t1 : Z; r_t2 : Z;  (* Time1 = full opening, Time2 = full closing *)
  r_aco : Z; r_acc : Z;  (* AutoCalOpenTime / AutoCalCloseTime *)
  r_pos : Z; r_tlt : Z;  (* supla_esp_state.rs_position / tilt *)
  r_step : Z;          (* autoCal_step *)
  r_abr : bool }.      (* autoCal_button_request *)

Record st := {
  booted : bool; halted : bool;
  now : Z;             (* true microseconds since boot *)
  boot32 : Z;          (* value of the 32-bit counter at boot *)
  blank : Z;           (* bit0 Server, bit1 Email, bit2 SSID, bit3 PWD empty; bit4 legacy location credentials present *)
  entertime : Z;       (* cfgmode_vars.entertime *)
  exit_to : bool;      (* cfgmode_vars.exit_after_timeout *)
  cfgtmr : Z;          (* cfgmode_vars.timer: 0 idle, 1 enter_ap_mode pending, 2 timeout_exit pending *)
  silent : bool;       (* silent_period *)
  connectable : bool;  (* supla_esp_devconn_start ran: the connect callback is registered on the espconn *)
  srpc_up : bool;      (* devconn->srpc != NULL *)
  registered : Z;      (* devconn->registered *)
  inputs : list input;
  rss : list shutter }.

Definition cfgmode (s : st) : bool := negb (entertime s =? 0).        (* supla_esp_cfgmode_started() *)
Definition now32 (s : st) : Z := u32 (boot32 s + now s).              (* system_get_time() *)

Inductive out :=
| EnterCfg (t : Z)                          (* supla_esp_cfgmode_start got past its guard *)
| CalRes (recv ch cmd res : Z)              (* supla_esp_calcfg_result while registered *)
| Cal (idx t1 t2 aco acc pos tlt step : Z)  (* calibration state of shutter idx changed by a server message *)
| Inert (b : bool)                          (* unauthorised CALCFG request: whole state unchanged *)
| Factory                                   (* factory_defaults() ran *)
| Restart (t : Z)
| CfgFlash (e w mask : Z)                   (* config sector erased / written, blank mask of the stored image *)
| OpMode (m : Z) | Accept.

Inductive ev :=
| Boot (b32 blnk flashcfg : Z) (ins : list input) (rs : list shutter)
| ConnCb | Iter
| Srv (call : Z) (payload : list Z)
| Notify (i stt : Z)
| Tick (i : Z)
| Time (dt : Z)
| ApTimer
| RsEnv (idx t1 t2 aco acc pos tlt step abr : Z).

(* ---------- list helpers ---------- *)
Definition getn {A} (l : list A) (i : Z) : option A := if i <? 0 then None else nth_error l (Z.to_nat i).
Fixpoint updn {A} (l : list A) (n : nat) (x : A) : list A :=
  match l, n with
  | [], _ => []
  | _ :: r, O => x :: r
  | a :: r, S k => a :: updn r k x
  end.
Definition setn {A} (l : list A) (i : Z) (x : A) : list A := if i <? 0 then l else updn l (Z.to_nat i) x.
Definition band (a b : Z) : bool := negb (Z.land a b =? 0).

(* ---------- predicates of supla_esp_input.c ---------- *)
Definition ready (s : st) : bool := Z.land (blank s) 15 =? 0.          (* supla_esp_cfg_ready_to_connect *)
Definition hold_enabled (x : input) : bool :=                          (* is_cfg_on_hold_enabled *)
  band (i_flags x) FLAG_CFG_BTN && (i_type x =? TYPE_MONOSTABLE) &&
  (negb (band (i_flags x) FLAG_CFG_ON_TOGGLE) || band (i_flags x) FLAG_CFG_ON_HOLD).
Definition toggle_enabled (x : input) : bool :=                        (* is_cfg_on_toggle_enabled *)
  band (i_flags x) FLAG_CFG_BTN &&
  ((i_type x =? TYPE_BISTABLE) || (i_type x =? TYPE_MOTION) || band (i_flags x) FLAG_CFG_ON_TOGGLE).
Definition cfgbtn_enabled (s : st) (x : input) : bool :=               (* is_cfg_button_enabled *)
  band (i_flags x) FLAG_CFG_BTN && (ready s || band (i_flags x) FLAG_FACTORY_RESET).
Definition can_exit (s : st) (x : input) : bool :=                     (* can_button_exit_cfgmode; note `flags && CFG_BTN` *)
  cfgmode s && negb (i_flags x =? 0) && (ready s || ((i_relay x =? 255) && (i_drelay x =? 255))).
Definition toggles (x : input) : bool := (i_type x =? TYPE_BISTABLE) || (i_type x =? TYPE_MOTION).

(* supla_esp_gpio_get_rs__cfg(gpio) *)
Definition rs_of_gpio (s : st) (g : Z) : option shutter :=
  if g =? 255 then None else
  find (fun r => r_ex r && ((r_upg r =? g) || (r_dng r =? g))) (rss s).
(* is_advanced_mode_enabled *)
Definition advanced (s : st) (x : input) : bool :=
  if cfgmode s then false else
  match rs_of_gpio s (i_relay x) with
  | Some r =>
      if negb (r_tiltt r =? 0) then true else
      let other := if i_relay x =? r_upg r then r_dng r else r_upg r in
      match find (fun y => i_relay y =? other) (inputs s) with
      | Some y => negb (i_at x =? 0) || negb (i_at y =? 0)
      | None => negb (i_at x =? 0)
      end
  | None => negb (i_at x =? 0)
  end.

(* supla_esp_input_set_active_triggers (called once per input right after boot when the board line says so) *)
Definition set_active_triggers (x : input) (mask : Z) : input :=
  let act := Z.land (i_atcap x) mask in
  let mc0 := if toggle_enabled x then PRESS_COUNT else 0 in
  let mca :=
    if band act CAP_SP5 || band act CAP_TG5 then 5 else
    if band act CAP_SP4 || band act CAP_TG4 then 4 else
    if band act CAP_SP3 || band act CAP_TG3 then 3 else
    if band act CAP_SP2 || band act CAP_TG2 then 2 else
    if band act CAP_SP1 || band act CAP_TG1 then 1 else 0 in
  let mc := if mc0 <? mca then mca else mc0 in
  let changed := negb (i_at x =? act) in
  let disable := ((i_type x =? TYPE_MONOSTABLE) && band act CAP_SP1) || ((i_type x =? TYPE_BISTABLE) && band act CAP_TG1) ||
                 ((i_type x =? TYPE_MOTION) && band act CAP_TURN_ON && band act CAP_TURN_OFF) in
  let '(rel, drel) :=
    if disable then (if i_drelay x =? 255 then (255, i_relay x) else (i_relay x, i_drelay x))
    else (if negb (i_drelay x =? 255) then (i_drelay x, 255) else (i_relay x, i_drelay x)) in
  {| i_type := i_type x; i_flags := i_flags x; i_relay := rel; i_drelay := drel; i_atcap := i_atcap x; i_chan := i_chan x;
     i_at := act; i_maxc := mc; i_last := i_last x; i_cnt := if changed then 0 else i_cnt x; i_lsc := i_lsc x;
     i_armed := if changed then false else i_armed x; i_adv := i_adv x |}.

(* ---------- state update helpers ---------- *)
Definition with_inputs (s : st) (l : list input) : st :=
  {| booted := booted s; halted := halted s; now := now s; boot32 := boot32 s; blank := blank s; entertime := entertime s;
     exit_to := exit_to s; cfgtmr := cfgtmr s; silent := silent s; connectable := connectable s; srpc_up := srpc_up s; registered := registered s;
     inputs := l; rss := rss s |}.
Definition with_rss (s : st) (l : list shutter) : st :=
  {| booted := booted s; halted := halted s; now := now s; boot32 := boot32 s; blank := blank s; entertime := entertime s;
     exit_to := exit_to s; cfgtmr := cfgtmr s; silent := silent s; connectable := connectable s; srpc_up := srpc_up s; registered := registered s;
     inputs := inputs s; rss := l |}.
Definition set_input (s : st) (i : Z) (x : input) : st := with_inputs s (setn (inputs s) i x).
Definition upd_in (x : input) (last cnt lsc : Z) (armed adv : bool) : input :=
  {| i_type := i_type x; i_flags := i_flags x; i_relay := i_relay x; i_drelay := i_drelay x; i_atcap := i_atcap x; i_chan := i_chan x;
     i_at := i_at x; i_maxc := i_maxc x; i_last := last; i_cnt := cnt; i_lsc := lsc; i_armed := armed; i_adv := adv |}.

(* supla_esp_devconn_stop *)
Definition devconn_stop (s : st) : st :=
  {| booted := booted s; halted := halted s; now := now s; boot32 := boot32 s; blank := blank s; entertime := entertime s;
     exit_to := exit_to s; cfgtmr := cfgtmr s; silent := silent s; connectable := connectable s; srpc_up := false; registered := 0;
     inputs := inputs s; rss := rss s |}.
(* supla_esp_cfgmode_start *)
Definition cfgmode_start (s : st) : st * list out :=
  if negb (entertime s =? 0) then (s, []) else
  let s1 := devconn_stop s in
  ({| booted := booted s1; halted := halted s1; now := now s1; boot32 := boot32 s1; blank := blank s1; entertime := now32 s;
      exit_to := exit_to s1; cfgtmr := 1; silent := silent s1; connectable := connectable s1; srpc_up := false; registered := 0;
      inputs := inputs s1; rss := rss s1 |}, [EnterCfg (now s)]).
(* supla_esp_input_start_cfg_mode *)
Definition input_start_cfg (s : st) : st * list out :=
  if cfgmode s then (s, []) else cfgmode_start (devconn_stop s).
(* supla_system_restart (user_main.c): 500 us busy wait when not in cfg mode, then the SDK restarts *)
Definition halt (s : st) : st :=
  {| booted := booted s; halted := true; now := now s; boot32 := boot32 s; blank := blank s; entertime := entertime s;
     exit_to := exit_to s; cfgtmr := cfgtmr s; silent := silent s; connectable := connectable s; srpc_up := srpc_up s; registered := registered s;
     inputs := inputs s; rss := rss s |}.
Definition restart (s : st) (extra : Z) : st * list out :=
  (halt s, [Restart (now s + extra + (if cfgmode s then 0 else 500))]).
Definition set_exit_to (s : st) (b : bool) : st :=
  {| booted := booted s; halted := halted s; now := now s; boot32 := boot32 s; blank := blank s; entertime := entertime s;
     exit_to := b; cfgtmr := cfgtmr s; silent := silent s; connectable := connectable s; srpc_up := srpc_up s; registered := registered s;
     inputs := inputs s; rss := rss s |}.
Definition set_cfgtmr (s : st) (v : Z) : st :=
  {| booted := booted s; halted := halted s; now := now s; boot32 := boot32 s; blank := blank s; entertime := entertime s;
     exit_to := exit_to s; cfgtmr := v; silent := silent s; connectable := connectable s; srpc_up := srpc_up s; registered := registered s;
     inputs := inputs s; rss := rss s |}.
Definition set_silent (s : st) (b : bool) : st :=
  {| booted := booted s; halted := halted s; now := now s; boot32 := boot32 s; blank := blank s; entertime := entertime s;
     exit_to := exit_to s; cfgtmr := cfgtmr s; silent := b; connectable := connectable s; srpc_up := srpc_up s; registered := registered s;
     inputs := inputs s; rss := rss s |}.
Definition set_conn (s : st) (up : bool) (reg : Z) : st :=
  {| booted := booted s; halted := halted s; now := now s; boot32 := boot32 s; blank := blank s; entertime := entertime s;
     exit_to := exit_to s; cfgtmr := cfgtmr s; silent := silent s; connectable := connectable s; srpc_up := up; registered := reg;
     inputs := inputs s; rss := rss s |}.
Definition set_now (s : st) (t : Z) : st :=
  {| booted := booted s; halted := halted s; now := t; boot32 := boot32 s; blank := blank s; entertime := entertime s;
     exit_to := exit_to s; cfgtmr := cfgtmr s; silent := silent s; connectable := connectable s; srpc_up := srpc_up s; registered := registered s;
     inputs := inputs s; rss := rss s |}.

(* factory_defaults(1) + cfg save: every setting is blank afterwards *)
Definition set_blank (s : st) (b : Z) : st :=
  {| booted := booted s; halted := halted s; now := now s; boot32 := boot32 s; blank := b; entertime := entertime s;
     exit_to := exit_to s; cfgtmr := cfgtmr s; silent := silent s; connectable := connectable s; srpc_up := srpc_up s; registered := registered s;
     inputs := inputs s; rss := rss s |}.

(* ---------- supla_esp_input.c handlers ---------- *)
Definition counted_legacy (x : input) (stt : Z) : bool :=
  ((i_type x =? TYPE_MONOSTABLE) && (stt =? STATE_ACTIVE)) || toggles x.

(* the part of supla_esp_input_legacy_state_change_handling after the CFG-button block *)
Definition legacy_tail (s : st) (i : Z) (x : input) (stt : Z) : st * list out :=
  let t := now32 s in
  if stt =? STATE_ACTIVE then
    (set_input s i (upd_in x (i_last x) (i_cnt x) t (hold_enabled x) false), [])
  else if cfgbtn_enabled s x && (0 <? i_cnt x) && (3000000 <? u32 (t - entertime s)) && can_exit s x
    then restart (set_input s i x) 0
  else (set_input s i x, []).
Definition legacy_count (s : st) (x : input) (stt : Z) : Z :=
  if CHAIN_WINDOW_US <=? u32 (now32 s - i_lsc x) then 1
  else if counted_legacy x stt then s8 (i_cnt x + 1) else i_cnt x.
(* supla_esp_input_legacy_state_change_handling; x already has last := stt and the timer disarmed *)
Definition legacy_change (s : st) (i : Z) (x : input) (stt : Z) : st * list out :=
  let t := now32 s in
  if cfgbtn_enabled s x then
    if negb (cfgmode s) then
      let cnt := legacy_count s x stt in
      if toggle_enabled x && (PRESS_COUNT <=? cnt) then
        input_start_cfg (set_input s i (upd_in x (i_last x) 0 (i_lsc x) false false))
      else legacy_tail s i (upd_in x (i_last x) cnt (i_lsc x) false false) stt
    else if counted_legacy x stt then
      let x1 := upd_in x (i_last x) 1 (i_lsc x) false false in
      if negb (hold_enabled x) && (3000000 <? u32 (t - entertime s)) && can_exit s x
      then restart (set_input s i x1) 0
      else legacy_tail s i x1 stt
    else legacy_tail s i x stt
  else legacy_tail s i x stt.

(* supla_esp_input_advanced_state_change_handling *)
Definition advanced_change (s : st) (i : Z) (x : input) (stt : Z) : st * list out :=
  let t := now32 s in
  if negb (i_cnt x =? -1) && ((stt =? STATE_ACTIVE) || toggles x) then
    let cnt := s8 (i_cnt x + 1) in
    if toggle_enabled x && (PRESS_COUNT <=? cnt) then
      let '(s1, o) := input_start_cfg (set_input s i (upd_in x (i_last x) 0 (i_lsc x) false true)) in
      (match getn (inputs s1) i with
       | Some y => set_input s1 i (upd_in y (i_last y) (i_cnt y) t true true)
       | None => s1 end, o)
    else (set_input s i (upd_in x (i_last x) cnt t true true), [])
  else (set_input s i (upd_in x (i_last x) (i_cnt x) t true true), []).

(* supla_esp_input_notify_state_change *)
Definition notify (s : st) (i stt : Z) : st * list out :=
  match getn (inputs s) i with
  | None => (s, [])
  | Some x =>
    if silent s && (u32 (now32 s - u32 (boot32 s)) <? SILENT_MS * 1000) then
      (set_input s i (upd_in x stt (i_cnt x) (i_lsc x) (i_armed x) (i_adv x)), [])
    else
      let s := set_silent s false in
      if i_last x =? stt then (s, []) else
      let adv := advanced s x in
      let x1 := upd_in x stt (i_cnt x) (i_lsc x) false adv in
      if adv then advanced_change s i x1 stt else legacy_change s i x1 stt
  end.

(* factory_defaults(1); os_delay_us(500000); supla_system_restart() *)
Definition factory_reset (s : st) : st * list out :=
  let s1 := set_blank s 15 in
  let '(s2, o) := restart s1 500000 in
  (s2, [Factory; CfgFlash 1 1 15] ++ o).

(* supla_esp_input_legacy_timer_cb *)
Definition legacy_tick (s : st) (i : Z) (x : input) : st * list out :=
  if (i_last x =? STATE_ACTIVE) && hold_enabled x && (PRESS_TIME_MS * 1000 <=? u32 (now32 s - i_lsc x)) then
    let s1 := set_input s i (upd_in x (i_last x) 0 (i_lsc x) false (i_adv x)) in
    if negb (cfgmode s) then input_start_cfg s1
    else if band (i_flags x) FLAG_FACTORY_RESET then factory_reset s1
    else (s1, [])
  else (s, []).

(* supla_esp_input_advanced_timer_cb *)
Definition advanced_tick (s : st) (i : Z) (x : input) : st * list out :=
  let delta := u32 (now32 s - i_lsc x) in
  (* monostable, pressed *)
  let '(s1, x1, o1) :=
    if (i_type x =? TYPE_MONOSTABLE) && (i_last x =? STATE_ACTIVE) && negb (i_cnt x =? -1) then
      let '(s1, x1, o1) :=
        if hold_enabled x && (PRESS_TIME_MS * 1000 <=? delta) then
          let x1 := upd_in x (i_last x) 0 (i_lsc x) false (i_adv x) in
          let '(s1, o) := input_start_cfg (set_input s i x1) in (s1, x1, o)
        else (s, x, []) in
      if (i_cnt x1 =? 1) && (HOLD_TIME_MS * 1000 <=? delta) then
        (s1, upd_in x1 (i_last x1) 0 (i_lsc x1) (if hold_enabled x1 then i_armed x1 else false) (i_adv x1), o1)
      else (s1, x1, o1)
    else (s, x, []) in
  (* released, or a toggle switch *)
  let x2 :=
    if (i_last x1 =? STATE_INACTIVE) || toggles x1 then
      if MULTICLICK_TIME_MS * 1000 <=? delta then upd_in x1 (i_last x1) 0 (i_lsc x1) false (i_adv x1)
      else if i_maxc x1 <=? i_cnt x1 then
        if i_maxc x1 <=? 1 then upd_in x1 (i_last x1) 0 (i_lsc x1) false (i_adv x1)
        else upd_in x1 (i_last x1) (-1) (i_lsc x1) (i_armed x1) (i_adv x1)
      else x1
    else x1 in
  (set_input s1 i x2, o1).

Definition tick (s : st) (i : Z) : st * list out :=
  match getn (inputs s) i with
  | Some x => if i_armed x then (if i_adv x then advanced_tick s i x else legacy_tick s i x) else (s, [])
  | None => (s, [])
  end.

(* cfgmode_vars.timer: supla_esp_cfgmode_enter_ap_mode, then (CALCFG entry only) supla_esp_cfgmode_timeout_exit *)
Definition ap_timer (s : st) : st * list out :=
  if cfgtmr s =? 1 then
    if exit_to s then (set_cfgtmr (set_exit_to s false) 2, [OpMode 2; Accept])
    else (set_cfgtmr s 0, [OpMode 2; Accept])
  else if cfgtmr s =? 2 then restart (set_cfgtmr s 0) 0
  else (s, []).

(* ---------- roller-shutter calibration data ---------- *)
Definition set_cal (r : shutter) (t1 t2 aco acc pos tlt step : Z) (abr : bool) : shutter :=
  {| r_ex := r_ex r; r_ch := r_ch r; r_flags := r_flags r; r_regflags := r_regflags r; r_tiltt := r_tiltt r;
     r_upg := r_upg r; r_dng := r_dng r; r_t1 := t1; r_t2 := t2; r_aco := aco; r_acc := acc; r_pos := pos; r_tlt := tlt;
     r_step := step; r_abr := abr |}.
Definition set_rflags (r : shutter) (f : Z) : shutter :=
  {| r_ex := r_ex r; r_ch := r_ch r; r_flags := f; r_regflags := r_regflags r; r_tiltt := r_tiltt r;
     r_upg := r_upg r; r_dng := r_dng r; r_t1 := r_t1 r; r_t2 := r_t2 r; r_aco := r_aco r; r_acc := r_acc r;
     r_pos := r_pos r; r_tlt := r_tlt r; r_step := r_step r; r_abr := r_abr r |}.
Definition calib (r : shutter) : list Z := [r_t1 r; r_t2 r; r_aco r; r_acc r; r_pos r; r_tlt r; r_step r].
Definition calib_all (s : st) : list (list Z) := map calib (rss s).

(* supla_esp_gpio_rs_apply_new__times(idx, ct, ot, -1, save = true); the caller checked existence *)
Definition apply_new_times (r : shutter) (ct ot : Z) : shutter :=
  let autocal := band (r_flags r) CHFLAG_AUTOCAL in
  let enabled := (r_t1 r =? 0) && (r_t2 r =? 0) in
  let reset :=
    if autocal then
      if negb (ct =? 0) || negb (ot =? 0) then (if enabled then true else negb (ct =? r_t2 r) || negb (ot =? r_t1 r))
      else negb enabled
    else negb (ct =? r_t2 r) || negb (ot =? r_t1 r) in
  if reset then set_cal r ot ct 0 0 0 0 (r_step r) (r_abr r) else r.
(* the prefix of supla_esp_gpio_rs_set_relay: abort a running auto-calibration *)
Definition set_relay_abort (r : shutter) : shutter :=
  (* autoCal_button_request is cleared on the way out (except on two early-return paths that depend on the
     engine state; the correspondence check re-synchronises the engine state with RsEnv before every message) *)
  if negb (r_abr r) && (0 <? r_step r) then set_cal r 0 0 0 0 0 0 0 false
  else set_cal r (r_t1 r) (r_t2 r) (r_aco r) (r_acc r) (r_pos r) (r_tlt r) (r_step r) false.

(* index of the first shutter with that channel (loop of supla_esp_channel_set_value) *)
Fixpoint find_rs (l : list shutter) (ch : Z) (k : Z) : option (Z * shutter) :=
  match l with
  | [] => None
  | r :: rest => if r_ex r && (r_ch r =? ch) then Some (k, r) else find_rs rest ch (k + 1)
  end.

Definition cal_outs (old new : list shutter) : list out :=
  concat (map (fun '(k, (a, b)) =>
                 if list_eqb (calib a) (calib b) then []
                 else [Cal k (r_t1 b) (r_t2 b) (r_aco b) (r_acc b) (r_pos b) (r_tlt b) (r_step b)])
              (combine (map Z.of_nat (seq 0 (length old))) (combine old new))).

(* what supla_esp_channel_set_value does to the addressed shutter: times from DurationMS, then a position task
   (no synchronous effect on calibration data) or a relay command (aborts a running auto-calibration) *)
Definition sv_close_time (dur : Z) : Z := Z.land dur 65535 * 100.
Definition sv_open_time (dur : Z) : Z := Z.land (Z.shiftr dur 16) 65535 * 100.
Definition sv_is_position (v : Z) : bool := let sv := s8 v in ((10 <=? sv) && (sv <=? 110)) || (sv =? -1).
Definition sv_shutter (r : shutter) (dur v : Z) : shutter :=
  let r1 := apply_new_times r (sv_close_time dur) (sv_open_time dur) in
  if sv_is_position v then r1 else set_relay_abort r1.
(* supla_esp_channel_set_value, roller-shutter branch (relays are not part of this model) *)
Definition set_value (s : st) (ch dur v : Z) : st * list out :=
  match find_rs (rss s) ch 0 with
  | None => (s, [])
  | Some (k, r) =>
      let s' := with_rss s (setn (rss s) k (sv_shutter r dur v)) in
      (s', cal_outs (rss s) (rss s') ++ [CfgFlash 1 1 (blank s)])
  end.

(* one pass of the RECALIBRATE loops of supla_esp_calcfg_request over all shutters *)
Fixpoint recal_loop (l : list shutter) (ch auth : Z) (with_times : bool) (ot ct : Z) : list shutter * bool * bool * Z :=
  (* returns new list, matched?, authorised-match?, number of config saves *)
  match l with
  | [] => ([], false, false, 0)
  | r :: rest =>
      let '(rest', m, a, n) := recal_loop rest ch auth with_times ot ct in
      if r_ex r && (r_ch r =? ch) && band (r_flags r) CHFLAG_RECALIBRATE then
        if auth =? 0 then (r :: rest', true, a, n)
        else
          let r1 := set_cal r (r_t1 r) (r_t2 r) 0 0 0 0 0 (r_abr r) in
          let doit := with_times && (r_tiltt r =? 0) in
          let r2 := if doit then apply_new_times r1 ct ot else r1 in
          (r2 :: rest', true, true, n + (if doit then 1 else 0))
      else (r :: rest', m, a, n)
  end.
(* which result the loop leaves in result.Result: the LAST matching shutter decides *)
Fixpoint recal_result (l : list shutter) (ch auth : Z) (acc : Z) : Z :=
  match l with
  | [] => acc
  | r :: rest =>
      recal_result rest ch auth
        (if r_ex r && (r_ch r =? ch) && band (r_flags r) CHFLAG_RECALIBRATE
         then (if auth =? 0 then RES_UNAUTHORIZED else RES_DONE) else acc)
  end.

Definition is_registered (s : st) : bool := srpc_up s && (registered s =? 1).
Definition send_result (s : st) (sender ch cmd res : Z) : list out :=
  if is_registered s then [CalRes sender ch cmd res] else [].

(* the size gate of srpc_getdata for CALCFG requests (C03's subject; needed to follow real frames) *)
Definition calcfg_gate (p : list Z) : bool :=
  (REQ_SIZE - CALCFG_DATA_MAX <=? len p) && (len p <=? REQ_SIZE) && (le32 p REQ_OFF_DATASIZE =? len p - (REQ_SIZE - CALCFG_DATA_MAX)).
Definition unauth_class (p : list Z) : bool :=        (* which requests the INERT observable is defined for *)
  (REQ_OFF_AUTH <? len p) &&
  ((nthz p REQ_OFF_AUTH =? 0) || ((s32 (le32 p REQ_OFF_COMMAND) =? CMD_ENTER_CFG_MODE) && negb (nthz p REQ_OFF_AUTH =? 1))).

(* supla_esp_calcfg_request (board hook inert) *)
Definition calcfg (s : st) (p : list Z) : st * list out :=
  let sender := s32 (le32 p REQ_OFF_SENDER) in
  let ch := s32 (le32 p REQ_OFF_CHANNEL) in
  let cmd := s32 (le32 p REQ_OFF_COMMAND) in
  let auth := nthz p REQ_OFF_AUTH in
  let dtype := s32 (le32 p REQ_OFF_DATATYPE) in
  let dsize := le32 p REQ_OFF_DATASIZE in
  if cmd =? CMD_ENTER_CFG_MODE then
    if auth =? 1 then
      (* the DONE result is queued first; srpc_iterate writes it after the handler returned (the srpc instance is
         freed by a deferred timer since the fix "do not free the srpc instance while srpc_iterate is still running") *)
      let '(s', o) := cfgmode_start (set_exit_to s true) in (s', o ++ send_result s sender ch cmd RES_DONE)
    else (s, send_result s sender ch cmd RES_UNAUTHORIZED)
  else if (cmd =? CMD_RECALIBRATE) && (((dtype =? DATATYPE_RS_SETTINGS) && (dsize =? RSSET_SIZE)) || (dtype =? 0)) then
    let wt := (dtype =? DATATYPE_RS_SETTINGS) && (dsize =? RSSET_SIZE) in
    let ot := le32 p (REQ_OFF_DATA + RSSET_OFF_OPEN) in
    let ct := le32 p (REQ_OFF_DATA + RSSET_OFF_CLOSE) in
    let '(l', m, a, n) := recal_loop (rss s) ch auth wt ot ct in
    let res := recal_result (rss s) ch auth RES_NOT_SUPPORTED in
    let s' := with_rss s l' in
    (s', send_result s sender ch cmd res ++ cal_outs (rss s) l' ++ (if 0 <? n then [CfgFlash n n (blank s)] else []))
  else (s, send_result s sender ch cmd RES_NOT_SUPPORTED).

(* registration step at the head of supla_esp_devconn_iterate *)
Definition pre_iter (s : st) : st :=
  if srpc_up s && (registered s =? 0) then
    let s1 := set_conn s true (-1) in
    if negb (band (blank s) 2) then with_rss s1 (map (fun r => if r_ex r then set_rflags r (r_regflags r) else r) (rss s1)) else s1
  else s.

(* channel configuration messages (SET_CHANNEL_CONFIG / GET_CHANNEL_CONFIG_RESULT) *)
Definition chcfg_gate (p : list Z) : bool :=
  (CHCFG_SIZE - CHCFG_MAX <=? len p) && (len p <=? CHCFG_SIZE) && (le16 p CHCFG_OFF_CFGSIZE =? len p - (CHCFG_SIZE - CHCFG_MAX)).
Definition chcfg_is_at (p : list Z) : bool :=
  chcfg_gate p && (nthz p CHCFG_OFF_CHANNEL <? CHANNEL_MAX) && (s32 (le32 p CHCFG_OFF_FUNC) =? FUNC_ACTIONTRIGGER) &&
  (nthz p CHCFG_OFF_TYPE =? 0) && (le16 p CHCFG_OFF_CFGSIZE =? ATCFG_SIZE).
(* a channel-config message this model does not follow: passes the gate, addresses a channel the device stores, and is
   neither for the ACTIONTRIGGER function nor empty (empty ones only mark "no config on the server yet") *)
Definition chcfg_unmodelled (call : Z) (p : list Z) : bool :=
  ((call =? CALL_SET_CHANNEL_CONFIG) || (call =? CALL_GET_CHANNEL_CONFIG_RESULT)) && chcfg_gate p &&
  (nthz p CHCFG_OFF_CHANNEL <? CHANNEL_MAX) && negb (s32 (le32 p CHCFG_OFF_FUNC) =? FUNC_ACTIONTRIGGER) && negb (le16 p CHCFG_OFF_CFGSIZE =? 0).
Definition at_cfg (l : list input) (ch mask : Z) : list input :=
  map (fun x => if i_chan x =? ch then set_active_triggers x mask else x) l.

(* supla_esp_on_remote_call_received after a well-framed packet was queued *)
Definition srv (s : st) (call : Z) (p : list Z) : st * list out :=
  let s := pre_iter s in
  if negb (srpc_up s) then (s, if (call =? CALL_CALCFG_REQUEST) && unauth_class p then [Inert true] else []) else
  if call =? CALL_REGISTER_RESULT then
    if (len p =? REGRES_SIZE) && (s32 (le32 p REGRES_OFF_CODE) =? RESULTCODE_TRUE_) then (set_conn s true 1, []) else (s, [])
  else if call =? CALL_SET_VALUE then
    if len p =? NV_SIZE then set_value s (nthz p NV_OFF_CHANNEL) (le32 p NV_OFF_DURATION) (nthz p NV_OFF_VALUE) else (s, [])
  else if call =? CALL_GROUP_SET_VALUE then
    if len p =? GNV_SIZE then set_value s (nthz p GNV_OFF_CHANNEL) (le32 p GNV_OFF_DURATION) (nthz p GNV_OFF_VALUE) else (s, [])
  else if call =? CALL_CALCFG_REQUEST then
    if calcfg_gate p then
      let '(s', o) := calcfg s p in
      (* the INERT observable sits between the CAL lines and the flash line *)
      let fl := filter (fun x => match x with CfgFlash _ _ _ => true | _ => false end) o in
      let rest := filter (fun x => match x with CfgFlash _ _ _ => false | _ => true end) o in
      (s', rest ++ (if unauth_class p then [Inert (list_eqb (concat (calib_all s)) (concat (calib_all s')) &&
                                                   (entertime s =? entertime s') && Bool.eqb (srpc_up s) (srpc_up s'))] else []) ++ fl)
    else (s, if unauth_class p then [Inert true] else [])
  else if (call =? CALL_SET_CHANNEL_CONFIG) || (call =? CALL_GET_CHANNEL_CONFIG_RESULT) then
    (* RETREIVE_CHANNEL_CONFIG: only the ACTIONTRIGGER function is modelled (supla_esp_channel_config_result ->
       supla_esp_input_set_active_triggers for every input of that channel); configs for relay / shutter functions
       are outside this model (chcfg_unmodelled below) *)
    if chcfg_is_at p then (with_inputs s (at_cfg (inputs s) (nthz p CHCFG_OFF_CHANNEL) (le32 p (CHCFG_OFF_CONFIG + ATCFG_OFF_ACTIONS))), [])
    else (s, [])
  else (s, []).

(* ---------- boot: supla_esp_cfg_init + user_init ---------- *)
Definition incomplete (b : Z) : bool :=
  (negb (band b 16) && band b 2) || band b 1 || band b 8 || band b 4.
Definition boot (b32 blnk flashcfg : Z) (ins : list input) (rs : list shutter) : st * list out :=
  let b := if flashcfg =? 0 then 15 else blnk in
  let s := {| booted := true; halted := false; now := 0; boot32 := u32 b32; blank := b; entertime := 0; exit_to := false;
              cfgtmr := 0; silent := true; connectable := negb (incomplete b); srpc_up := false; registered := 0;
              inputs := map (fun x => if i_at x <? 0
                                       then {| i_type := i_type x; i_flags := i_flags x; i_relay := i_relay x; i_drelay := 255;
                                               i_atcap := i_atcap x; i_chan := i_chan x; i_at := 0; i_maxc := 0; i_last := STATE_INACTIVE; i_cnt := 0;
                                               i_lsc := 0; i_armed := false; i_adv := false |}
                                       else set_active_triggers {| i_type := i_type x; i_flags := i_flags x; i_relay := i_relay x; i_drelay := 255;
                                                                   i_atcap := i_atcap x; i_chan := i_chan x; i_at := 0; i_maxc := 0; i_last := STATE_INACTIVE; i_cnt := 0;
                                                                   i_lsc := 0; i_armed := false; i_adv := false |} (i_at x)) ins;
              (* gpio_init: tilt := -1 because the tilting time (Time3) of the stored image is 0 *)
              (* a blank flash (first boot) means factory defaults: no stored times, no tilt type *)
              rss := map (fun r => if flashcfg =? 0
                                   then {| r_ex := r_ex r; r_ch := r_ch r; r_flags := r_flags r; r_regflags := r_regflags r; r_tiltt := 0;
                                           r_upg := r_upg r; r_dng := r_dng r; r_t1 := 0; r_t2 := 0; r_aco := 0; r_acc := 0; r_pos := 0;
                                           r_tlt := -1; r_step := 0; r_abr := false |}
                                   else set_cal r (r_t1 r) (r_t2 r) (r_aco r) (r_acc r) (r_pos r) (-1) 0 false) rs |} in
  let o0 := if flashcfg =? 0 then [Factory] else [] in
  (* flashcfg 2/3/4: a valid record of the v6 / v5B / v5A layout: migrated and saved once, settings kept *)
  let o9 := if flashcfg =? 0 then [CfgFlash 1 1 15]
            else if (2 <=? flashcfg) && (flashcfg <=? 4) then [CfgFlash 1 1 b] else [] in
  if incomplete b then let '(s1, o) := cfgmode_start s in (s1, o0 ++ o ++ o9) else (s, o0 ++ o9).

Definition rs_env (s : st) (idx t1 t2 aco acc pos tlt step abr : Z) : st :=
  match getn (rss s) idx with
  | Some r => with_rss s (setn (rss s) idx (set_cal r t1 t2 aco acc pos tlt step (negb (abr =? 0))))
  | None => s
  end.

(* ---------- the automaton ---------- *)
Definition step (s : st) (e : ev) : st * list out :=
  match e with
  | Boot b32 blnk fc ins rs => if booted s then (s, []) else boot b32 blnk fc ins rs
  | _ =>
    if negb (booted s) || halted s then (s, []) else
    match e with
    | Boot _ _ _ _ _ => (s, [])
    | ConnCb => (if connectable s then set_conn s true (registered s) else s, [])
    | Iter => (pre_iter s, [])
    | Srv call p => srv s call p
    | Notify i stt => notify s i stt
    | Tick i => tick s i
    | Time dt => (set_now s (now s + dt), [])
    | ApTimer => ap_timer s
    | RsEnv idx t1 t2 aco acc pos tlt step abr => (rs_env s idx t1 t2 aco acc pos tlt step abr, [])
    end
  end.

Definition init : st :=
  {| booted := false; halted := false; now := 0; boot32 := 0; blank := 0; entertime := 0; exit_to := false; cfgtmr := 0;
     silent := true; connectable := false; srpc_up := false; registered := 0; inputs := []; rss := [] |}.

Fixpoint run_from (s : st) (evs : list ev) : st * list out :=
  match evs with
  | [] => (s, [])
  | e :: r => let '(s1, o1) := step s e in let '(s2, o2) := run_from s1 r in (s2, o1 ++ o2)
  end.
Definition run (evs : list ev) : list out := snd (run_from init evs).

(* ---------- specification-side functions of the event history (no device state involved) ---------- *)
Definition clock (evs : list ev) : Z :=
  fold_left (fun t e => match e with Time dt => t + dt | _ => t end) evs 0.
(* history of one input: physical state, number of state changes, time and direction of the last change *)
Record hrec := { h_now : Z; h_phys : Z; h_n : Z; h_t : Z; h_st : Z }.
Definition h0 : hrec := {| h_now := 0; h_phys := STATE_INACTIVE; h_n := 0; h_t := 0; h_st := STATE_INACTIVE |}.
Definition hstep (i : Z) (h : hrec) (e : ev) : hrec :=
  match e with
  | Time dt => {| h_now := h_now h + dt; h_phys := h_phys h; h_n := h_n h; h_t := h_t h; h_st := h_st h |}
  | Notify j stt =>
      if (j =? i) && negb (stt =? h_phys h)
      then {| h_now := h_now h; h_phys := stt; h_n := h_n h + 1; h_t := h_now h; h_st := stt |}
      else h
  | _ => h
  end.
Definition hist (i : Z) (evs : list ev) : hrec := fold_left (hstep i) evs h0.

(* ---------- wire interface ---------- *)
Definition in_of_ints (l : list Z) : input :=
  {| i_type := nthz l 0; i_flags := nthz l 1; i_relay := nthz l 2; i_drelay := 255; i_atcap := nthz l 3; i_chan := nthz l 5; i_at := nthz l 4;
     i_maxc := 0; i_last := 0; i_cnt := 0; i_lsc := 0; i_armed := false; i_adv := false |}.
Definition rs_of_ints (l : list Z) : shutter :=
  {| r_ex := negb (nthz l 0 =? 0); r_ch := nthz l 1; r_flags := nthz l 2; r_regflags := nthz l 3; r_tiltt := nthz l 4;
     r_upg := nthz l 5; r_dng := nthz l 6; r_t1 := nthz l 7; r_t2 := nthz l 8; r_aco := 0; r_acc := 0; r_pos := 0; r_tlt := 0;
     r_step := 0; r_abr := false |}.
Fixpoint chunks (k : nat) (n : nat) (l : list Z) : list (list Z) :=   (* n chunks of k ints *)
  match n with O => [] | S m => firstn k l :: chunks k m (skipn k l) end.

(* BOOT ints: boot32 blank flashcfg nin {type flags relay atcap at chan}* nrs {ex ch flags regflags tilt upg dng t1 t2}* *)
Definition ev_of_wire (w : wire) : list ev :=
  let '(k, a, b) := w in
  if k =? 0 then
    let nin := Z.to_nat (nthz a 3) in
    let rest := skipn 4 a in
    let ins := map in_of_ints (chunks 6 nin rest) in
    let rest2 := skipn (6 * nin) rest in
    let nrs := Z.to_nat (nthz rest2 0) in
    let rs := map rs_of_ints (chunks 9 nrs (skipn 1 rest2)) in
    [Boot (nthz a 0) (nthz a 1) (nthz a 2) ins rs]
  else if k =? 1 then [ConnCb]
  else if k =? 2 then [Iter]
  else if k =? 3 then [Srv (nthz a 0) b]
  else if k =? 4 then [Notify (nthz a 0) (nthz a 1)]
  else if k =? 5 then [Tick (nthz a 0)]
  else if k =? 6 then [Time (nthz a 0)]
  else if k =? 7 then concat (repeat [Time (nthz a 1); Tick (nthz a 0)] (Z.to_nat (nthz a 2)))   (* HOLD i dt n *)
  else if k =? 8 then [ApTimer]
  else if k =? 9 then [RsEnv (nthz a 0) (nthz a 1) (nthz a 2) (nthz a 3) (nthz a 4) (nthz a 5) (nthz a 6) (nthz a 7) (nthz a 8)]
  else [].

Definition b2z (b : bool) : Z := if b then 1 else 0.
Definition wire_of_out (o : out) : wire :=
  match o with
  | EnterCfg t => mk 0 [t] []
  | CalRes r c m x => mk 1 [r; c; m; x] []
  | Cal k a b c d e f g => mk 2 [k; a; b; c; d; e; f; g] []
  | Inert b => mk 3 [b2z b] []
  | Factory => mk 4 [] []
  | Restart t => mk 5 [t] []
  | CfgFlash e w m => mk 6 [e; w; m] []
  | OpMode m => mk 7 [m] []
  | Accept => mk 8 [] []
  end.
(* ---------- boot decision of an MQTT-capable build (user_init(), #ifdef MQTT_SUPPORT_ENABLED) ----------
   A stored configuration as the decision sees it: three flag bits and, for every string, "is it set" (first byte non-zero).
   [mboot_incomplete] and [mboot_locked] transcribe the two `if`s in front of supla_esp_cfgmode_start(); the truth tables of both
   are compared with the tables the translator computes from the source text (Proofs: boot_tables). *)
Record bootcfg := { bc_en : bool; bc_noauth : bool; bc_locked : bool; bc_ssid : bool; bc_wpwd : bool; bc_server : bool;
                    bc_user : bool; bc_pass : bool; bc_email : bool }.
Definition mboot_incomplete (c : bootcfg) : bool :=
  negb (bc_ssid c) || negb (bc_wpwd c)
  || (bc_en c && (negb (bc_server c) || (negb (bc_noauth c) && (negb (bc_user c) || negb (bc_pass c)))))
  || (negb (bc_en c) && (negb (bc_server c) || negb (bc_email c))).
Definition mboot_locked (c : bootcfg) : bool := bc_en c && bc_locked c.
Definition mboot_enters (c : bootcfg) : bool := mboot_incomplete c || mboot_locked c.
(* the non-MQTT build (the whole-device model above takes the result as the blank mask of the BOOT event) *)
Definition pboot_enters (ssid wpwd server email locid locpwd : bool) : bool :=
  ((negb locid || negb locpwd) && negb email) || negb server || negb wpwd || negb ssid.
Definition nz (z : Z) : bool := negb (z =? 0).
(* MBOOT ints: en noauth locked ssid wpwd server ident pass;  outputs: CFGMODE 0 | START 1 (SUPLA client) / 2 (MQTT client).
   Email and Username are one field of SuplaEspCfg (anonymous union, offsets compared in Boot.v): "ident" sets both. *)
Definition bootcfg_of_ints (a : list Z) : bootcfg :=
  {| bc_en := nz (nthz a 0); bc_noauth := nz (nthz a 1); bc_locked := nz (nthz a 2); bc_ssid := nz (nthz a 3); bc_wpwd := nz (nthz a 4);
     bc_server := nz (nthz a 5); bc_user := nz (nthz a 6); bc_pass := nz (nthz a 7); bc_email := nz (nthz a 6) |}.
Definition mboot_wire (a : list Z) : list wire :=
  let c := bootcfg_of_ints a in
  if mboot_enters c then [mk 0 [0] []] else [mk 9 [if bc_en c then 2 else 1] []].

Definition main_wire (ws : list wire) : list wire :=
  match ws with
  | (k, a, _) :: _ => if k =? 10 then mboot_wire a else map wire_of_out (run (concat (map ev_of_wire ws)))
  | [] => []
  end.
