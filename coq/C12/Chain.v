(* C12 — clause (b) in time: the ten-toggle entry implies a chain of ten state changes whose links are "quick" as the
   code measures them (32-bit microsecond difference to the previous time-stamped change to active). *)
From Coq Require Import List ZArith Bool Lia.
Import ListNotations.
From V Require Import Base.U32 Base.Bytes Base.Iface Gen.C12Consts C12.Model C12.Proofs.
Local Open Scope Z_scope.

(* ------------------------------------------------------------------------------------------------ *)
(* history of one input as a list of state changes (time, new state), most recent first *)
Definition cacc : Type := (Z * Z * list (Z * Z))%type.
Definition cstep (i : Z) (a : cacc) (e : ev) : cacc :=
  let '(t, ph, l) := a in
  match e with
  | Time dt => (t + dt, ph, l)
  | Notify j stt => if (j =? i) && negb (stt =? ph) then (t, stt, (t, stt) :: l) else a
  | _ => a
  end.
Definition chist (i : Z) (evs : list ev) : cacc := fold_left (cstep i) evs (0, STATE_INACTIVE, []).
Definition changes (i : Z) (evs : list ev) : list (Z * Z) := snd (chist i evs).

Lemma chist_snoc i pre e : chist i (pre ++ [e]) = cstep i (chist i pre) e.
Proof. unfold chist. rewrite fold_left_app. reflexivity. Qed.
Lemma chist_hist i pre : fst (fst (chist i pre)) = clock pre /\ snd (fst (chist i pre)) = h_phys (hist i pre).
Proof.
  induction pre as [|e pre IH] using rev_ind; [split; reflexivity|].
  rewrite chist_snoc, clock_snoc, hist_snoc. destruct (chist i pre) as [[t ph] l]. cbn [fst snd] in IH. destruct IH as [I1 I2]. subst.
  destruct e; cbn [cstep hstep fst snd h_phys]; auto.
  destruct ((i0 =? i) && negb (stt =? h_phys (hist i pre))); cbn; auto.
Qed.

(* subsequence (keeps multiplicity: a subsequence of length n of the change times = n distinct change events) *)
Fixpoint subseq (a b : list Z) : Prop :=
  match a, b with
  | [], _ => True
  | _ :: _, [] => False
  | x :: a', y :: b' => (x = y /\ subseq a' b') \/ subseq a b'
  end.
Lemma subseq_cons_r a b y : subseq a b -> subseq a (y :: b).
Proof. destruct a; cbn; auto. Qed.
Lemma subseq_cons a b y : subseq a b -> subseq (y :: a) (y :: b).
Proof. cbn; auto. Qed.
Lemma subseq_nil b : subseq [] b. Proof. destruct b; exact I. Qed.
Lemma subseq_single t st (l : list (Z * Z)) : subseq [t] (map fst ((t, st) :: l)).
Proof. cbn. left. split; [reflexivity|apply subseq_nil]. Qed.
Lemma subseq_length a : forall b, subseq a b -> (length a <= length b)%nat.
Proof.
  induction a as [|x a IH]; intros b H; [cbn; lia|]. induction b as [|y b IHb]; [destruct H|].
  cbn in H. destruct H as [[_ H]|H]; [apply IH in H; cbn; lia|apply IHb in H; cbn in *; lia].
Qed.

(* the reference a link is measured from: the counter value 0 (no change time-stamped yet) or a change to "active" *)
Definition refok (b32 : Z) (l : list (Z * Z)) (r : Z) : Prop := r = - b32 \/ In (r, STATE_ACTIVE) l.
(* chain (most recent first): every element lies within the window — in the device's 32-bit arithmetic — of a reference
   that is not later than the previous element *)
Fixpoint linked (b32 : Z) (l : list (Z * Z)) (c : list Z) : Prop :=
  match c with
  | t :: ((tp :: _) as rest) =>
      (exists r, refok b32 l r /\ r <= tp /\ tp <= t /\ u32 (t - r) < CHAIN_WINDOW_US) /\ linked b32 l rest
  | _ => True
  end.
Lemma linked_cons b32 l t tp rest :
  (exists r, refok b32 l r /\ r <= tp /\ tp <= t /\ u32 (t - r) < CHAIN_WINDOW_US) -> linked b32 l (tp :: rest) -> linked b32 l (t :: tp :: rest).
Proof. intros A B. split; auto. Qed.
Lemma refok_mono b32 l x r : refok b32 l r -> refok b32 (x :: l) r.
Proof. intros [H|H]; [left|right; right]; auto. Qed.
Lemma linked_mono b32 l x c : linked b32 l c -> linked b32 (x :: l) c.
Proof.
  induction c as [|t c IH]; [auto|]. destruct c as [|tp rest]; [auto|]. cbn [linked]. intros [(r & R1 & R2) H].
  split; [exists r; split; [apply refok_mono; auto|auto]|apply IH; auto].
Qed.

Definition counted_type (x : input) : bool := (i_type x =? TYPE_MONOSTABLE) || toggles x.
Definition hd_le (c : list Z) (t : Z) : Prop := match c with a :: _ => a <= t | [] => True end.

(* what is known about the input record in terms of the change list *)
Definition qinv (s : st) (x : input) (l : list (Z * Z)) : Prop :=
  exists ref chain,
    i_lsc x = u32 (boot32 s + ref) /\ refok (boot32 s) l ref /\ ref <= now s /\
    i_cnt x <= len chain /\ subseq chain (map fst l) /\ linked (boot32 s) l chain /\ hd_le chain (now s) /\
    (counted_type x = true -> cfgbtn_enabled s x = true -> hd_le [ref] (hd (now s) chain)) /\
    (cfgbtn_enabled s x = false -> i_cnt x <= 0) /\
    (toggle_enabled x = true -> i_cnt x < PRESS_COUNT).

(* ------------------------------------------------------------------------------------------------ *)
(* exact outcome of the legacy state-change handler on the input record (non-restarting cases) *)
Definition leg_out (s : st) (x x' : input) (stt : Z) (o : list out) : Prop :=
  i_type x' = i_type x /\ i_flags x' = i_flags x /\
  let c := legacy_count s x stt in
  let L := if stt =? STATE_ACTIVE then now32 s else i_lsc x in
  (cfgbtn_enabled s x = true /\ cfgmode s = false /\ toggle_enabled x = true /\ PRESS_COUNT <= c /\
     i_cnt x' = 0 /\ i_lsc x' = i_lsc x /\ (o = [] \/ o = [EnterCfg (now s)]))
  \/ (cfgbtn_enabled s x = true /\ cfgmode s = false /\ (toggle_enabled x && (PRESS_COUNT <=? c)) = false /\
     i_cnt x' = c /\ i_lsc x' = L /\ o = [])
  \/ (cfgbtn_enabled s x = true /\ cfgmode s = true /\ i_cnt x' = (if counted_legacy x stt then 1 else i_cnt x) /\ i_lsc x' = L /\ o = [])
  \/ (cfgbtn_enabled s x = false /\ i_cnt x' = i_cnt x /\ i_lsc x' = L /\ o = []).

Lemma legacy_tail_detail s i y stt s' o :
  legacy_tail s i y stt = (s', o) -> halted s' = false ->
  exists x', upd_result s i s' x' /\ i_type x' = i_type y /\ i_flags x' = i_flags y /\ i_cnt x' = i_cnt y /\
             i_lsc x' = (if stt =? STATE_ACTIVE then now32 s else i_lsc y) /\ o = [].
Proof.
  unfold legacy_tail. destruct (stt =? STATE_ACTIVE).
  - intros H _; inversion H; subst. eexists; split; [apply upd_set_input|]. cbn. auto.
  - destruct (cfgbtn_enabled s y && (0 <? i_cnt y) && (3000000 <? u32 (now32 s - entertime s)) && can_exit s y).
    + intros H Hh. apply restart_out in H. destruct H as [H _]. congruence.
    + intros H _; inversion H; subst. exists y; split; [apply upd_set_input|]. auto.
Qed.

Lemma legacy_change_detail s i x stt s' o :
  legacy_change s i x stt = (s', o) -> halted s' = false ->
  exists x', upd_result s i s' x' /\ leg_out s x x' stt o.
Proof.
  unfold legacy_change, leg_out. intros H Hh.
  destruct (cfgbtn_enabled s x) eqn:EB.
  2:{ destruct (legacy_tail_detail _ _ _ _ _ _ H Hh) as (x' & U & T1 & T2 & T3 & T4 & T5). exists x'. split; [auto|].
      split; [auto|]. split; [auto|]. right; right; right. auto. }
  destruct (negb (cfgmode s)) eqn:EC.
  - apply negb_true_iff in EC. destruct (toggle_enabled x && (PRESS_COUNT <=? legacy_count s x stt)) eqn:ET.
    + apply input_start_cfg_upd in H. destruct H as [U Ho]. eexists; split; [exact U|]. cbn.
      apply andb_true_iff in ET. destruct ET as [T1 T2]. apply Z.leb_le in T2.
      split; [auto|]. split; [auto|]. left. repeat split; auto. destruct Ho as [Ho|[Ho _]]; auto.
    + destruct (legacy_tail_detail _ _ _ _ _ _ H Hh) as (x' & U & T1 & T2 & T3 & T4 & T5). exists x'. split; [auto|]. cbn in *.
      split; [auto|]. split; [auto|]. right; left. auto 10.
  - apply negb_false_iff in EC. destruct (counted_legacy x stt) eqn:ECo.
    + destruct (negb (hold_enabled x) && (3000000 <? u32 (now32 s - entertime s)) && can_exit s x).
      * apply restart_out in H. destruct H as [H _]. congruence.
      * destruct (legacy_tail_detail _ _ _ _ _ _ H Hh) as (x' & U & T1 & T2 & T3 & T4 & T5). exists x'. split; [auto|]. cbn in *.
        split; [auto|]. split; [auto|]. right; right; left. auto 10.
    + destruct (legacy_tail_detail _ _ _ _ _ _ H Hh) as (x' & U & T1 & T2 & T3 & T4 & T5). exists x'. split; [auto|].
      split; [auto|]. split; [auto|]. right; right; left. auto 10.
Qed.

(* notify on another input leaves input i alone *)
Lemma notify_other_input (CF : consts_facts) s j stt s' o i :
  notify s j stt = (s', o) -> halted s' = false -> j <> i ->
  (forall x, getn (inputs s) j = Some x -> -128 <= i_cnt x <= 127) ->
  getn (inputs s') i = getn (inputs s) i.
Proof.
  unfold notify. intros H Hh N Hc. destruct (getn (inputs s) j) as [x|] eqn:G; [|inversion H; reflexivity].
  destruct (silent s && (u32 (now32 s - u32 (boot32 s)) <? SILENT_MS * 1000)).
  { inversion H; subst. cbn. apply getn_setn_other; auto. }
  destruct (i_last x =? stt); [inversion H; reflexivity|].
  set (s0 := set_silent s false) in *.
  assert (G0 : getn (inputs s0) j = Some x) by exact G.
  destruct (advanced s0 x).
  - destruct (advanced_change_spec CF s0 j (upd_in x stt (i_cnt x) (i_lsc x) false true) stt s' o) as (x' & [U _] & _);
      [cbn; apply (Hc x eq_refl)|congruence|exact H|].
    rewrite U. cbn. apply getn_setn_other; auto.
  - destruct (legacy_change_detail _ _ _ _ _ _ H Hh) as (x' & [U _] & _). rewrite U. cbn. apply getn_setn_other; auto.
Qed.

Lemma upd_result_getn s j s' x' x0 i y :
  upd_result s j s' x' -> getn (inputs s) j = Some x0 -> getn (inputs s') i = Some y ->
  (i = j /\ y = x') \/ (i <> j /\ getn (inputs s) i = Some y).
Proof.
  intros U G0 G. destruct (Z.eq_dec i j) as [->|N].
  - left. split; [auto|]. eapply upd_result_same; eauto.
  - right. split; [auto|]. eapply upd_result_other; eauto.
Qed.

(* timer ticks: the time stamp stays, the counter can only fall *)
Lemma tick_input_rel s j s' o i y :
  tick s j = (s', o) -> halted s' = false ->
  (forall x, getn (inputs s) j = Some x -> -128 <= i_cnt x <= 127) ->
  getn (inputs s') i = Some y ->
  exists x, getn (inputs s) i = Some x /\ i_lsc y = i_lsc x /\ i_cnt y <= Z.max (i_cnt x) 0.
Proof.
  unfold tick. intros H Hh Hc G.
  destruct (getn (inputs s) j) as [x|] eqn:Gj.
  2:{ inversion H; subst. exists y. split; [auto|]. split; [auto|lia]. }
  destruct (i_armed x).
  2:{ inversion H; subst. exists y. split; [auto|]. split; [auto|lia]. }
  pose proof (Hc x eq_refl) as Hx.
  destruct (i_adv x).
  - destruct (advanced_tick_spec s j x s' o Hx H) as (x' & U & L1 & L2 & L3 & L4 & L5 & L6 & L7).
    destruct (upd_result_getn _ _ _ _ _ _ _ U Gj G) as [[-> ->]|[N G']].
    + exists x. split; [auto|]. split; [auto|lia].
    + exists y. split; [auto|]. split; [auto|lia].
  - destruct (legacy_tick_spec s j x s' o H) as [[E1 E2]|[_ [(x' & U & L1 & L2 & L3 & L4)|(Q1 & _)]]].
    + subst. exists y. split; [auto|]. split; [auto|lia].
    + assert (LS : i_lsc x' = i_lsc x).
      { unfold legacy_tick in H.
        destruct ((i_last x =? STATE_ACTIVE) && hold_enabled x && (PRESS_TIME_MS * 1000 <=? u32 (now32 s - i_lsc x))).
        2:{ inversion H; subst. destruct U as [U _]. assert (E : getn (inputs s') j = Some x') by (rewrite U; eapply getn_setn_same; eauto). congruence. }
        destruct (negb (cfgmode s)).
        - apply input_start_cfg_upd in H. destruct H as [U' _]. 
          assert (E : getn (inputs s') j = Some x') by (destruct U as [U _]; rewrite U; eapply getn_setn_same; eauto).
          assert (E' : getn (inputs s') j = Some (upd_in x (i_last x) 0 (i_lsc x) false (i_adv x))) by (destruct U' as [U' _]; rewrite U'; eapply getn_setn_same; eauto).
          rewrite E in E'. inversion E'. reflexivity.
        - destruct (band (i_flags x) FLAG_FACTORY_RESET).
          + apply factory_reset_out in H. destruct H as [H _]. congruence.
          + inversion H; subst. destruct U as [U _]. 
            assert (E : getn (inputs (set_input s j (upd_in x (i_last x) 0 (i_lsc x) false (i_adv x)))) j = Some x') by (rewrite U; eapply getn_setn_same; eauto).
            cbn in E. rewrite (getn_setn_same _ _ _ _ Gj) in E. inversion E. reflexivity. }
      destruct (upd_result_getn _ _ _ _ _ _ _ U Gj G) as [[-> ->]|[N G']].
      * exists x. split; [auto|]. split; [auto|lia].
      * exists y. split; [auto|]. split; [auto|lia].
    + congruence.
Qed.

(* ------------------------------------------------------------------------------------------------ *)
(* the boot value of the 32-bit counter and the stored-settings mask never change while the device runs *)
Ltac brk := repeat match goal with
  | |- context [match ?t with _ => _ end] => destruct t eqn:?
  | |- context [if ?t then _ else _] => destruct t eqn:?
  end.
Definition glob (s : st) : Z * Z := (boot32 s, blank s).
Lemma isc_glob s s' o : input_start_cfg s = (s', o) -> glob s' = glob s.
Proof. unfold input_start_cfg, cfgmode_start, devconn_stop. brk; intros H; inversion H; reflexivity. Qed.
Lemma cms_glob s s' o : cfgmode_start s = (s', o) -> glob s' = glob s.
Proof. unfold cfgmode_start, devconn_stop. brk; intros H; inversion H; reflexivity. Qed.
Lemma calcfg_glob s p s' o : calcfg s p = (s', o) -> glob s' = glob s.
Proof.
  unfold calcfg. brk; intros H; inversion H; subst; cbn; auto;
  repeat match goal with E : cfgmode_start _ = _ |- _ => apply cms_glob in E; cbn in E end; auto.
Qed.
Lemma pre_iter_glob s : glob (pre_iter s) = glob s.
Proof. unfold pre_iter. brk; reflexivity. Qed.
Lemma srv_glob s c p s' o : srv s c p = (s', o) -> glob s' = glob s.
Proof.
  unfold srv. rewrite <- (pre_iter_glob s). generalize (pre_iter s). clear s. intros s.
  unfold set_value. brk; intros H; inversion H; subst; cbn; auto;
  repeat match goal with E : calcfg _ _ = _ |- _ => apply calcfg_glob in E; cbn in E end; auto.
Qed.
Lemma advanced_tick_glob s i x s' o : advanced_tick s i x = (s', o) -> glob s' = glob s.
Proof.
  unfold advanced_tick. cbv zeta.
  match goal with |- (match ?T with (_, _) => _ end = _) -> _ => set (TT := T) end.
  assert (P : glob (fst (fst TT)) = glob s).
  { unfold TT. brk; cbn [fst]; auto;
    repeat match goal with
    | E : (_, _) = (_, _) |- _ => inversion E; subst; clear E
    | E : input_start_cfg _ = _ |- _ => apply isc_glob in E; cbn in E
    | E : context [if ?c then _ else _] |- _ => destruct c eqn:?
    | E : context [match ?t with _ => _ end] |- _ => destruct t eqn:?
    end; auto. }
  destruct TT as [[s1 x1] o1]. cbn [fst] in P. intros H; inversion H; subst. cbn. exact P.
Qed.
Lemma step_glob s e s' o : step s e = (s', o) -> booted s = true -> halted s' = false -> glob s' = glob s.
Proof.
  unfold step, notify, legacy_change, legacy_tail, advanced_change, tick, legacy_tick, factory_reset, restart, ap_timer, rs_env.
  intros H B. rewrite ?B in H. revert H.
  brk; intros H; inversion H; subst; cbn; auto; try (intros; discriminate);
  repeat match goal with
   | E : input_start_cfg _ = _ |- _ => apply isc_glob in E; cbn in E
   | E : cfgmode_start _ = _ |- _ => apply cms_glob in E; cbn in E
   | E : srv _ _ _ = _ |- _ => apply srv_glob in E; cbn in E
   | E : advanced_tick _ _ _ = _ |- _ => apply advanced_tick_glob in E; cbn in E
   end; try (intros _; congruence); try (intros _; apply pre_iter_glob); auto.
Qed.

(* ------------------------------------------------------------------------------------------------ *)
(* the predicates on an input depend on its type and flags only *)
Lemma toggle_enabled_ext x y : i_type y = i_type x -> i_flags y = i_flags x -> toggle_enabled y = toggle_enabled x.
Proof. unfold toggle_enabled. intros -> ->. reflexivity. Qed.
Lemma counted_type_ext x y : i_type y = i_type x -> counted_type y = counted_type x.
Proof. unfold counted_type, toggles. intros ->. reflexivity. Qed.
Lemma cfgbtn_enabled_ext s s' x y : blank s' = blank s -> i_flags y = i_flags x -> cfgbtn_enabled s' y = cfgbtn_enabled s x.
Proof. unfold cfgbtn_enabled, ready. intros -> ->. reflexivity. Qed.
Lemma counted_legacy_ext x y stt : i_type y = i_type x -> counted_legacy y stt = counted_legacy x stt.
Proof. unfold counted_legacy, toggles. intros ->. reflexivity. Qed.
Lemma counted_legacy_type x stt : counted_legacy x stt = true -> counted_type x = true.
Proof.
  unfold counted_legacy, counted_type. intros H. apply orb_true_iff in H. apply orb_true_iff. destruct H as [H|H]; [left|right; auto].
  apply andb_true_iff in H. tauto.
Qed.
Lemma counted_legacy_active x : counted_legacy x STATE_ACTIVE = counted_type x.
Proof. unfold counted_legacy, counted_type. rewrite Z.eqb_refl, andb_true_r. reflexivity. Qed.

(* events that leave the time stamp alone and can only lower the counter keep the chain facts *)
Lemma qinv_weaken s s' x y l :
  qinv s x l -> i_type y = i_type x -> i_flags y = i_flags x -> i_lsc y = i_lsc x -> i_cnt y <= Z.max (i_cnt x) 0 ->
  boot32 s' = boot32 s -> blank s' = blank s -> now s <= now s' -> 0 < PRESS_COUNT -> qinv s' y l.
Proof.
  intros (ref & chain & Q1 & Q2 & Q3 & Q4 & Q5 & Q6 & Q7 & Q8 & Q9 & Q10) T F L C B BL N P.
  exists ref, chain. rewrite B, L, (counted_type_ext x y T), (toggle_enabled_ext x y T F), (cfgbtn_enabled_ext s s' x y BL F).
  pose proof (len_nonneg chain).
  split; [auto|]. split; [auto|]. split; [lia|]. split; [lia|]. split; [auto|]. split; [auto|].
  split; [destruct chain; cbn in *; lia|]. split.
  { intros A1 A2. specialize (Q8 A1 A2). destruct chain; cbn in *; lia. }
  split; [intros A; specialize (Q9 A); lia|intros A; specialize (Q10 A); lia].
Qed.

Lemma qinv_mono_l s x l p : qinv s x l -> qinv s x (p :: l).
Proof.
  intros (ref & chain & Q1 & Q2 & Q3 & Q4 & Q5 & Q6 & Q7 & Q8 & Q9 & Q10).
  exists ref, chain. repeat split; auto; [apply refok_mono; auto|cbn [map]; apply subseq_cons_r; auto|apply linked_mono; auto].
Qed.

Lemma changes_notify_same i pre stt :
  changes i (pre ++ [Notify i stt]) =
    if negb (stt =? h_phys (hist i pre)) then (clock pre, stt) :: changes i pre else changes i pre.
Proof.
  unfold changes. rewrite chist_snoc. destruct (chist_hist i pre) as [H1 H2]. destruct (chist i pre) as [[t ph] l]. cbn [fst snd] in *. subst.
  cbn [cstep]. rewrite Z.eqb_refl. cbn [andb]. destruct (negb (stt =? h_phys (hist i pre))); reflexivity.
Qed.
Lemma changes_other i pre e : (forall stt, e <> Notify i stt) -> changes i (pre ++ [e]) = changes i pre.
Proof.
  intros N. unfold changes. rewrite chist_snoc. destruct (chist i pre) as [[t ph] l]. destruct e; cbn [cstep snd]; auto.
  destruct (i0 =? i) eqn:E; [apply Z.eqb_eq in E; subst; destruct (N stt eq_refl)|reflexivity].
Qed.

Section LegacyChain.
Variable CF : consts_facts.
Variable i : Z.

(* the chain a toggle entry exhibits *)
Definition entry_chain (s : st) (l : list (Z * Z)) : Prop :=
  exists chain, PRESS_COUNT <= len chain /\ hd 0 chain = now s /\ subseq chain (map fst l) /\ linked (boot32 s) l chain.

Lemma notify_qinv s pre stt s' o x :
  Forall ev_ok pre -> inv s pre -> halted s = false ->
  getn (inputs s) i = Some x -> advanced s x = false -> qinv s x (changes i pre) ->
  notify s i stt = (s', o) -> halted s' = false -> boot32 s' = boot32 s -> blank s' = blank s -> now s' = now s ->
  (forall y, getn (inputs s') i = Some y -> qinv s' y (changes i (pre ++ [Notify i stt]))) /\
  (forall t, In (EnterCfg t) o -> toggle_enabled x = true /\ entry_chain s (changes i (pre ++ [Notify i stt]))).
Proof.
  intros Hok I Hh G ADV Q H Hh' B32 BL NOW. pose proof I as [In Ii]. destruct (Ii i x G) as (A1 & A2 & A3 & A4).
  pose proof (cf_count CF) as HC.
  rewrite changes_notify_same. rewrite <- A1, <- In. set (l := changes i pre) in *.
  unfold notify in H. rewrite G in H.
  destruct (silent s && (u32 (now32 s - u32 (boot32 s)) <? SILENT_MS * 1000)).
  { inversion H; subst s' o. split; [|intros t []]. intros y Gy. cbn [inputs set_input with_inputs] in Gy.
    rewrite (getn_setn_same _ _ _ _ G) in Gy. inversion Gy; subst y.
    assert (Q' : qinv s x (if negb (stt =? i_last x) then (now s, stt) :: l else l)) by (destruct (negb (stt =? i_last x)); [apply qinv_mono_l|]; auto).
    eapply qinv_weaken; eauto; cbn; try lia. }
  set (s0 := set_silent s false) in *.
  destruct (i_last x =? stt) eqn:EL.
  { inversion H; subst s' o. split; [|intros t []]. intros y Gy. cbn in Gy. rewrite G in Gy. inversion Gy; subst y.
    apply Z.eqb_eq in EL. assert (E : (stt =? i_last x) = true) by (apply Z.eqb_eq; auto). rewrite E. cbn [negb].
    eapply qinv_weaken; eauto; cbn; try lia. }
  apply Z.eqb_neq in EL. assert (E : (stt =? i_last x) = false) by (apply Z.eqb_neq; congruence). rewrite E. cbn [negb]. clear E.
  change (advanced s0 x) with (advanced s x) in H. rewrite ADV in H.
  destruct (legacy_change_detail _ _ _ _ _ _ H Hh') as (x' & U & (T & F & OUT)).
  cbn [i_type i_flags upd_in] in T, F.
  set (x1 := upd_in x stt (i_cnt x) (i_lsc x) false false) in *.
  set (t := now s) in *. set (l' := (t, stt) :: l).
  destruct Q as (ref & chain & Q1 & Q2 & Q3 & Q4 & Q5 & Q6 & Q7 & Q8 & Q9 & Q10).
  (* the 32-bit difference the handler computes *)
  assert (HD : u32 (now32 s0 - i_lsc x1) = u32 (t - ref)).
  { unfold now32. cbn [boot32 now s0 set_silent i_lsc x1 upd_in]. rewrite Q1. apply u32_diff. }
  assert (TE : toggle_enabled x1 = toggle_enabled x) by reflexivity.
  assert (CB : cfgbtn_enabled s0 x1 = cfgbtn_enabled s x) by reflexivity.
  assert (CL : counted_legacy x1 stt = counted_legacy x stt) by reflexivity.
  assert (CT : counted_type x' = counted_type x) by (apply counted_type_ext; auto).
  assert (TE' : toggle_enabled x' = toggle_enabled x) by (apply toggle_enabled_ext; auto).
  assert (CB' : cfgbtn_enabled s' x' = cfgbtn_enabled s x) by (apply cfgbtn_enabled_ext; auto).
  assert (Gy : forall y, getn (inputs s') i = Some y -> y = x').
  { intros y Gy. eapply (upd_result_same s0 i s' x' x y U); [exact G|exact Gy]. }
  pose proof (len_nonneg chain) as LN.
  (* the chain after this change, for the counter value c the handler computes *)
  set (c := legacy_count s0 x1 stt) in *.
  assert (CH : cfgbtn_enabled s x = true -> exists chain1, c <= len chain1 /\ subseq chain1 (map fst l') /\ linked (boot32 s) l' chain1 /\ hd_le chain1 t /\
                 (cfgbtn_enabled s x = true -> (exists rest, chain1 = t :: rest) \/ (chain1 = chain /\ c = i_cnt x /\ counted_legacy x stt = false))).
  { intros ECB. unfold c, legacy_count. rewrite HD, CL. cbn [i_cnt x1 upd_in].
    destruct (CHAIN_WINDOW_US <=? u32 (t - ref)) eqn:EW.
    - exists [t]. split; [unfold len; cbn; lia|]. split; [unfold l'; cbn [map fst subseq]; left; split; [reflexivity|apply subseq_nil]|].
      split; [exact Logic.I|]. split; [cbn; lia|]. intros _. left. eexists; reflexivity.
    - apply Z.leb_gt in EW. destruct (counted_legacy x stt) eqn:ECo.
      + exists (t :: chain). pose proof (s8_le (i_cnt x + 1) ltac:(lia)). rewrite len_cons.
        split; [lia|]. split; [cbn [map fst l']; apply subseq_cons; auto|]. split.
        { destruct chain as [|tp rest]; [exact Logic.I|]. apply linked_cons; [|apply linked_mono; auto].
          exists ref. split; [apply refok_mono; auto|]. cbn in Q7.
          specialize (Q8 (counted_legacy_type _ _ ECo) ECB). cbn in Q8. lia. }
        split; [cbn; lia|]. intros _. left. eexists; reflexivity.
      + exists chain. split; [lia|]. split; [cbn [map fst l']; apply subseq_cons_r; auto|]. split; [apply linked_mono; auto|].
        split; [destruct chain; cbn in *; lia|]. intros _. right. auto. }
  (* the time stamp after the handler *)
  set (Lv := if stt =? STATE_ACTIVE then now32 s0 else i_lsc x1) in *.
  assert (REF : forall chain1 chn, (chn = chain1 \/ chn = [t]) -> i_lsc x' = Lv ->
            exists ref', i_lsc x' = u32 (boot32 s + ref') /\ refok (boot32 s) l' ref' /\ ref' <= t /\
              (counted_type x = true -> cfgbtn_enabled s x = true ->
               ((exists rest, chain1 = t :: rest) \/ (chain1 = chain /\ counted_legacy x stt = false)) -> hd_le [ref'] (hd t chn))).
  { intros chain1 chn Hchn HL. unfold Lv in HL. destruct (stt =? STATE_ACTIVE) eqn:EA.
    - apply Z.eqb_eq in EA. exists t. split; [rewrite HL; reflexivity|]. split; [right; left; subst; reflexivity|]. split; [lia|].
      intros K1 K2 K3. destruct Hchn as [->| ->]; [|cbn; lia]. destruct K3 as [[rest ->]|[-> K3]]; [cbn; lia|].
      subst stt. rewrite counted_legacy_active in K3. congruence.
    - exists ref. split; [rewrite HL; exact Q1|]. split; [apply refok_mono; auto|]. split; [auto|].
      intros K1 K2 K3. destruct Hchn as [->| ->]; [|cbn; lia]. destruct K3 as [[rest ->]|[-> K3]]; [cbn; lia|].
      specialize (Q8 K1 K2). destruct chain; cbn in *; lia. }
  destruct OUT as [(O1 & O2 & O3 & O4 & O5 & O6 & O7)|[(O1 & O2 & O3 & O4 & O5 & O6)|[(O1 & O2 & O4 & O5 & O6)|(O1 & O4 & O5 & O6)]]].
  - (* toggle entry *)
    rewrite CB in O1. rewrite TE in O3. fold c in O4. destruct (CH O1) as (chain1 & C1 & C2 & C3 & C4 & C5).
    assert (HDc : exists rest, chain1 = t :: rest).
    { destruct (C5 O1) as [K|(K1 & K2 & K3)]; [auto|]. specialize (Q10 O3). lia. }
    destruct HDc as [rest ->]. split.
    + intros y Gy'. rewrite (Gy y Gy'). exists ref, (t :: rest). rewrite B32, NOW, CT, TE', CB', O5, O6.
      split; [exact Q1|]. split; [apply refok_mono; auto|]. split; [auto|]. split; [rewrite len_cons; pose proof (len_nonneg rest); lia|].
      split; [auto|]. split; [auto|]. split; [cbn; lia|]. split; [intros _ _; cbn; lia|]. split; [intros K; congruence|lia].
    + intros tt Ht. split; [auto|]. exists (t :: rest). split; [lia|]. split; [reflexivity|]. auto.
  - (* counted / not counted, no entry *)
    rewrite CB in O1. rewrite TE in O3. fold c in O3, O4. fold Lv in O5. destruct (CH O1) as (chain1 & C1 & C2 & C3 & C4 & C5). split.
    2:{ intros tt Ht. rewrite O6 in Ht. destruct Ht. }
    intros y Gy'. rewrite (Gy y Gy'). destruct (REF chain1 chain1 (or_introl eq_refl) O5) as (ref' & R1 & R2 & R3 & R4).
    exists ref', chain1. rewrite B32, NOW, CT, TE', CB', O4.
    split; [auto|]. split; [auto|]. split; [auto|]. split; [auto|]. split; [auto|]. split; [auto|]. split; [auto|]. split.
    { intros K1 K2. apply R4; auto. destruct (C5 K2) as [K|(K3 & K4 & K5)]; auto. }
    split; [intros K; congruence|].
    intros K. rewrite K in O3. cbn [andb] in O3. apply Z.leb_gt in O3. lia.
  - (* already in configuration mode *)
    rewrite CB in O1. rewrite CL in O4. fold Lv in O5. split.
    2:{ intros tt Ht. rewrite O6 in Ht. destruct Ht. }
    intros y Gy'. rewrite (Gy y Gy'). destruct (counted_legacy x stt) eqn:ECo.
    + assert (L1 : linked (boot32 s) l' [t]) by exact Logic.I.
      destruct (stt =? STATE_ACTIVE) eqn:EA.
      * exists t, [t]. rewrite B32, NOW, CT, TE', CB', O4, O5. unfold Lv. apply Z.eqb_eq in EA.
        split; [reflexivity|]. split; [right; left; subst; reflexivity|]. split; [lia|]. split; [cbn; lia|].
        split; [apply subseq_single|]. split; [auto|]. split; [cbn; lia|]. split; [intros _ _; cbn; lia|]. split; [intros K; congruence|lia].
      * exists ref, [t]. rewrite B32, NOW, CT, TE', CB', O4, O5. unfold Lv.
        split; [exact Q1|]. split; [apply refok_mono; auto|]. split; [auto|]. split; [cbn; lia|].
        split; [apply subseq_single|]. split; [auto|]. split; [cbn; lia|]. split; [intros _ _; cbn; lia|]. split; [intros K; congruence|lia].
    + destruct (stt =? STATE_ACTIVE) eqn:EA.
      * apply Z.eqb_eq in EA. exists t, chain. rewrite B32, NOW, CT, TE', CB', O4, O5. unfold Lv.
        split; [reflexivity|]. split; [right; left; subst; reflexivity|]. split; [lia|]. split; [auto|].
        split; [cbn [map fst l']; apply subseq_cons_r; auto|]. split; [apply linked_mono; auto|]. split; [destruct chain; cbn in *; lia|].
        split; [intros K1 _; subst stt; rewrite counted_legacy_active in ECo; congruence|]. split; [intros K; congruence|auto].
      * exists ref, chain. rewrite B32, NOW, CT, TE', CB', O4, O5. unfold Lv.
        split; [exact Q1|]. split; [apply refok_mono; auto|]. split; [auto|]. split; [auto|].
        split; [cbn [map fst l']; apply subseq_cons_r; auto|]. split; [apply linked_mono; auto|]. split; [destruct chain; cbn in *; lia|].
        split; [auto|]. split; [intros K; congruence|auto].
  - (* not a configuration button (or not usable as one): the counter stays at 0 or below *)
    rewrite CB in O1. fold Lv in O5. split.
    2:{ intros tt Ht. rewrite O6 in Ht. destruct Ht. }
    intros y Gy'. rewrite (Gy y Gy'). specialize (Q9 O1).
    destruct (stt =? STATE_ACTIVE) eqn:EA.
    + apply Z.eqb_eq in EA. exists t, chain. rewrite B32, NOW, CT, TE', CB', O4, O5. unfold Lv.
      split; [reflexivity|]. split; [right; left; subst; reflexivity|]. split; [lia|]. split; [cbn [i_cnt x1 upd_in]; lia|].
      split; [cbn [map fst l']; apply subseq_cons_r; auto|]. split; [apply linked_mono; auto|]. split; [destruct chain; cbn in *; lia|].
      split; [intros _ K; congruence|]. split; [intros _; cbn [i_cnt x1 upd_in]; lia|intros K; cbn [i_cnt x1 upd_in]; lia].
    + exists ref, chain. rewrite B32, NOW, CT, TE', CB', O4, O5. unfold Lv.
      split; [exact Q1|]. split; [apply refok_mono; auto|]. split; [auto|]. split; [cbn [i_cnt x1 upd_in]; lia|].
      split; [cbn [map fst l']; apply subseq_cons_r; auto|]. split; [apply linked_mono; auto|]. split; [destruct chain; cbn in *; lia|].
      split; [intros _ K; congruence|]. split; [intros _; cbn [i_cnt x1 upd_in]; lia|intros K; cbn [i_cnt x1 upd_in]; lia].
Qed.

End LegacyChain.

(* every event other than a notification of input i leaves its time stamp alone and can only lower its counter *)
Lemma step_input_rel (CF : consts_facts) s pre e s' o i :
  inv s pre -> live s -> step s e = (s', o) -> halted s' = false -> (forall stt, e <> Notify i stt) ->
  forall y, getn (inputs s') i = Some y ->
  exists x, getn (inputs s) i = Some x /\ i_lsc y = i_lsc x /\ i_cnt y <= Z.max (i_cnt x) 0.
Proof.
  intros I [Lb Lh] H Hh N y Gy. pose proof I as [In Ii].
  assert (RNG : forall j x, getn (inputs s) j = Some x -> -128 <= i_cnt x <= 127).
  { intros j x G. destruct (Ii j x G) as (_ & A & _). exact A. }
  assert (SAME : inputs s' = inputs s -> exists x, getn (inputs s) i = Some x /\ i_lsc y = i_lsc x /\ i_cnt y <= Z.max (i_cnt x) 0).
  { intros E. rewrite E in Gy. exists y. split; [auto|]. split; [auto|lia]. }
  unfold step in H. destruct e; rewrite ?Lb, ?Lh in H; cbn [negb orb] in H.
  - inversion H; subst. apply SAME; reflexivity.
  - inversion H; subst. apply SAME. destruct (connectable s); reflexivity.
  - inversion H; subst. apply SAME. destruct (pre_iter_fields s) as (_ & _ & _ & A & _). exact A.
  - destruct (srv_frame_cause _ _ _ _ _ H) as ([F|(F & ch & m & HI)] & _).
    + apply SAME. destruct F as (A & _). exact A.
    + rewrite HI in Gy. unfold at_cfg in Gy. apply getn_map in Gy. destruct Gy as (x & Gx & ->). exists x. split; [auto|].
      destruct (i_chan x =? ch); [|split; [auto|lia]]. destruct (sat_rel x m) as (_ & S2 & _ & S4 & _). split; [auto|]. destruct S4 as [-> | ->]; lia.
  - assert (NE : i0 <> i) by (intros ->; apply (N stt); reflexivity).
    rewrite (notify_other_input CF _ _ _ _ _ i H Hh NE (RNG i0)) in Gy. exists y. split; [auto|]. split; [auto|lia].
  - apply (tick_input_rel _ _ _ _ _ _ H Hh (RNG i0) Gy).
  - inversion H; subst. apply SAME; reflexivity.
  - unfold ap_timer in H. destruct (cfgtmr s =? 1).
    + destruct (exit_to s); inversion H; subst; apply SAME; reflexivity.
    + destruct (cfgtmr s =? 2).
      * apply restart_out in H. destruct H as [H _]. congruence.
      * inversion H; subst. apply SAME; reflexivity.
  - inversion H; subst. apply SAME. unfold rs_env. destruct (getn (rss s) idx); reflexivity.
Qed.

Lemma classic_notify i (e : ev) : (exists stt, e = Notify i stt) \/ (forall stt, e <> Notify i stt).
Proof.
  destruct e; try (right; intros; discriminate). destruct (Z.eq_dec i0 i) as [->|N]; [left; eexists; reflexivity|right; intros s E; inversion E; congruence].
Qed.

Section LegacyRun.
Variable CF : consts_facts.
Variables i ty fl : Z.

(* input i is a (ty, fl) input that the legacy handler serves (no ActionTrigger mode) *)
Definition leg_in (s : st) : Prop :=
  forall x, getn (inputs s) i = Some x -> i_type x = ty /\ i_flags x = fl /\ advanced s x = false.
Definition qall (s : st) (pre : list ev) : Prop := forall x, getn (inputs s) i = Some x -> qinv s x (changes i pre).

Lemma step_qinv s pre e s' o :
  Forall ev_ok pre -> ev_ok e -> inv s pre -> live s -> leg_in s -> leg_in s' -> qall s pre ->
  step s e = (s', o) -> halted s' = false ->
  qall s' (pre ++ [e]) /\
  (forall stt t, e = Notify i stt -> In (EnterCfg t) o ->
     exists x, getn (inputs s) i = Some x /\ toggle_enabled x = true /\ entry_chain s (changes i (pre ++ [e]))).
Proof.
  intros Hok He I L LI LI' Q H Hh. pose proof L as [Lb Lh].
  destruct (step_inv_cause CF s pre e s' o Hok He I L H) as (I' & _ & _ & _). specialize (I' Hh).
  assert (G : glob s' = glob s) by (apply (step_glob _ _ _ _ H Lb Hh)). unfold glob in G. inversion G as [[B32 BL]].
  pose proof (cf_count CF) as HC.
  destruct I as [In Ii]. destruct I' as [In' Ii'].
  destruct (classic_notify i e) as [[stt ->]|N].
  - (* notification of input i *)
    assert (NOW : now s' = now s) by (rewrite In', In, clock_snoc; reflexivity).
    unfold step in H. rewrite Lb, Lh in H. cbn [negb orb] in H.
    destruct (getn (inputs s) i) as [x|] eqn:Gx.
    2:{ unfold notify in H. rewrite Gx in H. inversion H; subst. split; [intros y Gy; congruence|intros ? ? _ []]. }
    destruct (LI x Gx) as (_ & _ & ADV).
    destruct (notify_qinv CF i s pre stt s' o x Hok (Build_inv _ _ In Ii) Lh Gx ADV (Q x Gx) H Hh B32 BL NOW) as [A B].
    split; [exact A|]. intros stt' t E Ht. inversion E; subst stt'. exists x. destruct (B t Ht). auto.
  - split; [|intros stt t E; destruct (N stt E)].
    intros y Gy. destruct (step_input_rel CF s pre e s' o i (Build_inv _ _ In Ii) L H Hh N y Gy) as (x & Gx & R1 & R2).
    rewrite (changes_other i pre e N).
    destruct (LI x Gx) as (T1 & F1 & _). destruct (LI' y Gy) as (T2 & F2 & _).
    apply (qinv_weaken s s' x y); auto; try congruence; try lia.
    rewrite In', In, clock_snoc. destruct e; try lia. cbn in He. lia.
Qed.
End LegacyRun.

Lemma notify_enter_not_halted s i stt s' o t :
  notify s i stt = (s', o) -> halted s = false -> In (EnterCfg t) o -> halted s' = false.
Proof.
  unfold notify, legacy_change, legacy_tail, advanced_change, restart.
  brk; intros H; inversion H; subst; intros Hh Hin; cbn in *; auto;
  repeat match goal with
  | K : False |- _ => destruct K
  | K : _ \/ _ |- _ => destruct K
  | K : Restart _ = EnterCfg _ |- _ => discriminate K
  | E : input_start_cfg _ = _ |- _ => apply input_start_cfg_out in E; destruct E as [[? ?]|(? & ? & ? & ? & ? & ? & ? & ?)]; subst; cbn in *
  end; auto; try congruence.
Qed.

Section LegacyTheorem.
Variable CF : consts_facts.
Variables i ty fl : Z.

Lemma run_chain : forall p1 s pre stt p2 t,
  Forall ev_ok pre -> Forall ev_ok (p1 ++ Notify i stt :: p2) -> inv s pre -> live s -> qall i s pre ->
  (forall p q, p1 ++ Notify i stt :: p2 = p ++ q -> leg_in i ty fl (fst (run_from s p))) ->
  In (EnterCfg t) (snd (step (fst (run_from s p1)) (Notify i stt))) ->
  let s1 := fst (run_from s p1) in
  exists x, getn (inputs s1) i = Some x /\ toggle_enabled x = true /\ entry_chain s1 (changes i (pre ++ p1 ++ [Notify i stt])).
Proof.
  induction p1 as [|e r IH]; intros s pre stt p2 t Hp He I L Q LR Ht; cbn [run_from fst app] in *.
  - inversion He as [|? ? He1 He2]; subst.
    destruct (step s (Notify i stt)) as [s' o] eqn:E. cbn [snd] in Ht.
    assert (Hh' : halted s' = false).
    { destruct L as [Lb Lh]. unfold step in E. rewrite Lb, Lh in E. cbn [negb orb] in E. eapply notify_enter_not_halted; eauto. }
    assert (LI : leg_in i ty fl s) by (apply (LR [] (Notify i stt :: p2)); reflexivity).
    assert (LI' : leg_in i ty fl s').
    { specialize (LR [Notify i stt] p2 eq_refl). cbn [run_from] in LR. rewrite E in LR. exact LR. }
    destruct (step_qinv CF i ty fl s pre _ s' o Hp He1 I L LI LI' Q E Hh') as [_ B].
    apply (B stt t eq_refl Ht).
  - inversion He as [|? ? He1 He2]; subst.
    destruct (step s e) as [s1 o1] eqn:E. destruct (run_from s1 r) as [s2 o2] eqn:R. cbn [fst] in *.
    assert (S2 : s2 = fst (run_from s1 r)) by (rewrite R; reflexivity).
    destruct (halted s1) eqn:Hh.
    { exfalso. rewrite run_from_dead in R; [|right; destruct (step_inv_cause CF s pre e s1 o1 Hp He1 I L E) as (_ & B & _); exact B|right; auto].
      inversion R as [[Es Eo]]. rewrite <- Es in Ht. unfold step in Ht. rewrite Hh, orb_true_r in Ht. destruct Ht. }
    destruct (step_inv_cause CF s pre e s1 o1 Hp He1 I L E) as (I1 & B1 & _). specialize (I1 Hh).
    assert (LI : leg_in i ty fl s) by (apply (LR [] (e :: r ++ Notify i stt :: p2)); reflexivity).
    assert (LI' : leg_in i ty fl s1).
    { specialize (LR [e] (r ++ Notify i stt :: p2) eq_refl). cbn [run_from] in LR. rewrite E in LR. exact LR. }
    destruct (step_qinv CF i ty fl s pre e s1 o1 Hp He1 I L LI LI' Q E Hh) as [Q1 _].
    assert (Hp1 : Forall ev_ok (pre ++ [e])) by (apply Forall_app; split; auto).
    assert (LR1 : forall p q, r ++ Notify i stt :: p2 = p ++ q -> leg_in i ty fl (fst (run_from s1 p))).
    { intros p q Epq. specialize (LR (e :: p) q). cbn [app run_from] in LR. rewrite E in LR.
      destruct (run_from s1 p) as [sa oa]. cbn [fst] in *. apply LR. rewrite Epq. reflexivity. }
    rewrite S2 in Ht.
    specialize (IH s1 (pre ++ [e]) stt p2 t Hp1 He2 I1 (conj B1 Hh) Q1 LR1 Ht).
    rewrite <- S2 in IH. rewrite <- app_assoc in IH. exact IH.
Qed.
End LegacyTheorem.

(* ------------------------------------------------------------------------------------------------ *)
(* true time: without a pause of a full counter period inside the chain, the links are quick in real microseconds *)
Fixpoint quick (c : list Z) : Prop :=
  match c with
  | t :: ((tp :: _) as rest) => (tp <= t /\ t - tp < CHAIN_WINDOW_US) /\ quick rest
  | _ => True
  end.
Lemma subseq_In a : forall b x, subseq a b -> In x a -> In x b.
Proof.
  induction a as [|y a IH]; intros b x H Hx; [destruct Hx|]. induction b as [|z b IHb]; [destruct H|].
  cbn in H. destruct H as [[E H]|H].
  - destruct Hx as [<-|Hx]; [left; auto|right; eapply IH; eauto].
  - right. apply IHb; auto.
Qed.
Lemma linked_quick b32 l c :
  linked b32 l c ->
  (forall t r, In t c -> refok b32 l r -> r <= t -> t - r < 4294967296) ->
  quick c.
Proof.
  induction c as [|t c IH]; [auto|]. destruct c as [|tp rest]; [auto|]. intros [(r & R1 & R2 & R3 & R4) H] HP.
  split; [|apply IH; [exact H|intros t' r' Hin; apply HP; right; auto]].
  split; [auto|]. specialize (HP t r (or_introl eq_refl) R1 ltac:(lia)).
  rewrite u32_small in R4 by lia. lia.
Qed.
Lemma last_cons_default (l : list Z) : forall a d, last (a :: l) d = last l a.
Proof.
  induction l as [|b l IH]; intros a d; [reflexivity|].
  change (last (a :: b :: l) d) with (last (b :: l) d). rewrite (IH b d), (IH b a). reflexivity.
Qed.
Lemma quick_span c : forall t, quick (t :: c) -> t - last c t <= len c * (CHAIN_WINDOW_US - 1) /\ last c t <= t.
Proof.
  induction c as [|tp rest IH]; intros t H; [cbn; lia|].
  destruct H as [[H1 H2] H]. destruct (IH tp H) as [A B]. rewrite len_cons.
  rewrite last_cons_default.
  pose proof (len_nonneg rest). nia.
Qed.

(* ------------------------------------------------------------------------------------------------ *)
(* the theorems *)
Lemma boot_qall b32 bl fc ins rs s0 o0 i : boot b32 bl fc ins rs = (s0, o0) -> qall i s0 [].
Proof.
  intros EB. pose proof (cf_count consts_ok) as HC.
  assert (FLD : boot32 s0 = u32 b32 /\ now s0 = 0 /\ forall y, In y (inputs s0) -> i_lsc y = 0 /\ i_cnt y = 0).
  { unfold boot in EB.
    match type of EB with context [if incomplete ?b then let '(s1, o) := cfgmode_start ?S in _ else _] => set (sb := S) in * end.
    assert (A : boot32 sb = u32 b32 /\ now sb = 0 /\ forall y, In y (inputs sb) -> i_lsc y = 0 /\ i_cnt y = 0).
    { split; [reflexivity|]. split; [reflexivity|]. intros y Hy. cbn [inputs sb] in Hy. apply in_map_iff in Hy. destruct Hy as (x & <- & _).
      destruct (i_at x <? 0); [split; reflexivity|].
      match goal with |- context [set_active_triggers ?X ?M] => destruct (sat_rel X M) as (_ & S2 & _ & S4 & _); destruct (sat_fields X M) as (_ & S5 & _) end.
      split; [rewrite S2; reflexivity|apply S5; reflexivity]. }
    destruct (incomplete _).
    - destruct (cfgmode_start sb) as [s1 o] eqn:EC. inversion EB; subst.
      destruct (cfgmode_start_out _ _ _ EC) as [[_ ->]|(_ & _ & C & D & E & _)]; [exact A|].
      destruct A as (A1 & A2 & A3). rewrite C, D, E. auto.
    - inversion EB; subst. exact A. }
  destruct FLD as (F1 & F2 & F3). intros x G.
  assert (Hin : In x (inputs s0)).
  { unfold getn in G. destruct (i <? 0); [discriminate|]. eapply nth_error_In; eauto. }
  destruct (F3 x Hin) as [L C].
  exists (- boot32 s0), []. rewrite L, C, F2. pose proof (u32_range b32).
  split; [replace (boot32 s0 + - boot32 s0) with 0 by lia; reflexivity|]. split; [left; reflexivity|]. split; [lia|].
  split; [cbn; lia|]. split; [exact Logic.I|]. split; [exact Logic.I|]. split; [exact Logic.I|].
  split; [intros _ _; cbn; lia|]. split; [lia|lia].
Qed.

(* (b) in time, legacy handler: a toggle entry exhibits PRESS_COUNT state changes of that input, the last one now, each
   within CHAIN_WINDOW_US — in the 32-bit arithmetic of the device — of a reference (counter zero, or a change of that
   input to "active") that is not later than the previous one *)
Lemma toggle_entry_chain_thm : code_shape -> forall b32 bl fc ins rs pre stt post t i ty fl,
  Forall ev_ok (pre ++ Notify i stt :: post) ->
  (forall p q, pre ++ Notify i stt :: post = p ++ q -> leg_in i ty fl (fst (run_from init (Boot b32 bl fc ins rs :: p)))) ->
  let s1 := fst (run_from init (Boot b32 bl fc ins rs :: pre)) in
  In (EnterCfg t) (snd (step s1 (Notify i stt))) ->
  exists x, getn (inputs s1) i = Some x /\ toggle_enabled x = true /\ entry_chain s1 (changes i (pre ++ [Notify i stt])).
Proof.
  intros _ b32 bl fc ins rs pre stt post t i ty fl Hok LR. cbv zeta. rewrite run_boot.
  destruct (boot b32 bl fc ins rs) as [s0 o0] eqn:EB. destruct (boot_inv _ _ _ _ _ _ _ EB) as (I0 & L0 & _ & _).
  pose proof (boot_qall _ _ _ _ _ _ _ i EB) as Q0.
  assert (LR0 : forall p q, pre ++ Notify i stt :: post = p ++ q -> leg_in i ty fl (fst (run_from s0 p))).
  { intros p q E. specialize (LR p q E). rewrite run_boot, EB in LR. destruct (run_from s0 p). exact LR. }
  destruct (run_from s0 pre) as [s1 o1] eqn:ER. cbn [fst]. intros Ht.
  pose proof (run_chain consts_ok i ty fl pre s0 [] stt post t (Forall_nil _) Hok I0 L0 Q0 LR0) as K.
  rewrite ER in K. cbn [fst app] in K. apply K. exact Ht.
Qed.

(* ... and in true time when no change of the chain comes a full period (2^32 us) or more after a reference *)
Lemma toggle_entry_true_time_thm : code_shape -> forall b32 bl fc ins rs pre stt post t i ty fl,
  Forall ev_ok (pre ++ Notify i stt :: post) ->
  (forall p q, pre ++ Notify i stt :: post = p ++ q -> leg_in i ty fl (fst (run_from init (Boot b32 bl fc ins rs :: p)))) ->
  let s1 := fst (run_from init (Boot b32 bl fc ins rs :: pre)) in
  let l := changes i (pre ++ [Notify i stt]) in
  In (EnterCfg t) (snd (step s1 (Notify i stt))) ->
  (forall tc st r, In (tc, st) l -> refok (boot32 s1) l r -> r <= tc -> tc - r < 4294967296) ->
  exists chain, PRESS_COUNT <= len chain /\ hd 0 chain = now s1 /\ subseq chain (map fst l) /\ quick chain /\
                now s1 - last chain 0 <= (len chain - 1) * (CHAIN_WINDOW_US - 1).
Proof.
  intros CS b32 bl fc ins rs pre stt post t i ty fl Hok LR s1 l Ht HP.
  destruct (toggle_entry_chain_thm CS b32 bl fc ins rs pre stt post t i ty fl Hok LR Ht) as (x & _ & _ & chain & C1 & C2 & C3 & C4).
  fold s1 l in C1, C2, C3, C4. exists chain.
  assert (Q : quick chain).
  { apply (linked_quick (boot32 s1) l); [exact C4|]. intros tc r Hin R Hle.
    pose proof (subseq_In _ _ _ C3 Hin) as Hm. apply in_map_iff in Hm. destruct Hm as ([tc' st] & E & Hl). cbn in E. subst tc'.
    apply (HP tc st r Hl R Hle). }
  split; [auto|]. split; [auto|]. split; [auto|]. split; [auto|].
  destruct chain as [|t0 rest]; [pose proof (cf_count consts_ok); cbn in C1; lia|]. cbn [hd] in C2. subst t0.
  destruct (quick_span rest (now s1) Q) as [A _]. rewrite len_cons.
  rewrite last_cons_default.
  lia.
Qed.

(* ------------------------------------------------------------------------------------------------ *)
(* checking the run hypotheses of the theorems on concrete runs (for the Examples) *)
Definition leg_inb (i ty fl : Z) (s : st) : bool :=
  match getn (inputs s) i with
  | Some x => (i_type x =? ty) && (i_flags x =? fl) && negb (advanced s x)
  | None => true
  end.
Lemma leg_inb_ok i ty fl s : leg_inb i ty fl s = true -> leg_in i ty fl s.
Proof.
  unfold leg_inb, leg_in. intros H x G. rewrite G in H. apply andb_true_iff in H. destruct H as [H H3].
  apply andb_true_iff in H. destruct H as [H1 H2]. apply Z.eqb_eq in H1, H2. apply negb_true_iff in H3. auto.
Qed.
Fixpoint prefixes {A} (l : list A) : list (list A) :=
  match l with [] => [[]] | a :: r => [] :: map (cons a) (prefixes r) end.
Lemma prefixes_In {A} (p q : list A) : In p (prefixes (p ++ q)).
Proof.
  induction p as [|a p IH]; cbn; [destruct q; left; reflexivity|]. right. apply in_map. exact IH.
Qed.
Lemma leg_run_check i ty fl b evs :
  forallb (fun p => leg_inb i ty fl (fst (run_from init (b :: p)))) (prefixes evs) = true ->
  forall p q, evs = p ++ q -> leg_in i ty fl (fst (run_from init (b :: p))).
Proof.
  intros H p q E. apply leg_inb_ok. rewrite forallb_forall in H. apply H. rewrite E. apply prefixes_In.
Qed.
Definition ev_okb (e : ev) : bool := match e with Time dt => 0 <=? dt | Srv c p => negb (chcfg_unmodelled c p) | _ => true end.
Lemma ev_okb_ok evs : forallb ev_okb evs = true -> Forall ev_ok evs.
Proof.
  intros H. apply Forall_forall. intros e He. rewrite forallb_forall in H. specialize (H e He). destruct e; cbn in *; auto.
  - apply negb_true_iff in H. exact H. - apply Z.leb_le. exact H.
Qed.

(* ten toggles 300 ms apart on a bistable configuration button: all hypotheses of both theorems hold *)
Definition w_quick_pre : list ev :=
  [Time 500000] ++ concat (map (fun k => [Notify 0 (Z.of_nat (S k) mod 2); Time 300000]) (seq 0 9)).
Lemma chain_nonvacuous_thm :
  let b := w_boot TYPE_BISTABLE FLAG_CFG_BTN in
  let s1 := fst (run_from init (b :: w_quick_pre)) in
  let l := changes 0 (w_quick_pre ++ [Notify 0 0]) in
  Forall ev_ok (w_quick_pre ++ Notify 0 0 :: []) /\
  (forall p q, w_quick_pre ++ Notify 0 0 :: [] = p ++ q -> leg_in 0 TYPE_BISTABLE FLAG_CFG_BTN (fst (run_from init (b :: p)))) /\
  In (EnterCfg (now s1)) (snd (step s1 (Notify 0 0))) /\
  (forall tc st r, In (tc, st) l -> refok (boot32 s1) l r -> r <= tc -> tc - r < 4294967296) /\
  map fst l = map (fun k => 500000 + 300000 * Z.of_nat k) (rev (seq 0 10)).
Proof.
  cbv zeta. split; [apply ev_okb_ok; vm_compute; reflexivity|]. split; [apply leg_run_check; vm_compute; reflexivity|].
  split; [vm_compute; left; reflexivity|]. split; [|vm_compute; reflexivity].
  assert (EL : changes 0 (w_quick_pre ++ [Notify 0 0]) =
               map (fun k => (500000 + 300000 * Z.of_nat k, Z.of_nat (S k) mod 2)) (rev (seq 0 10))) by (vm_compute; reflexivity).
  assert (EB : boot32 (fst (run_from init (w_boot TYPE_BISTABLE FLAG_CFG_BTN :: w_quick_pre))) = 1) by (vm_compute; reflexivity).
  rewrite EL, EB. intros tc st r Hin R Hle.
  assert (T : 500000 <= tc <= 3200000).
  { apply in_map_iff in Hin. destruct Hin as (k & E & Hk). apply in_rev in Hk. apply in_seq in Hk.
    assert (tc = 500000 + 300000 * Z.of_nat k) by congruence. clear - H Hk. lia. }
  destruct R as [->|R]; [lia|]. apply in_map_iff in R. destruct R as (k & E & Hk). apply in_rev in Hk. apply in_seq in Hk.
  assert (r = 500000 + 300000 * Z.of_nat k) by congruence. clear - H T Hk. lia.
Qed.

(* the wrap witness of Proofs.toggle_chain_u32_wrap_refuted_thm: its ten changes are 2^32 us apart, so the hypothesis of the
   true-time theorem fails and so does its conclusion (no two changes are less than CHAIN_WINDOW_US apart) *)
Lemma wrap_witness_changes_thm :
  map fst (changes 0 (firstn 20 w_wrap_toggles)) = map (fun k => 500000 + 4294967296 * Z.of_nat k) (rev (seq 0 10)) /\
  4294967296 > CHAIN_WINDOW_US.
Proof. split; vm_compute; reflexivity. Qed.

(* ------------------------------------------------------------------------------------------------ *)
(* ActionTrigger ("advanced") input handler: there is no time test at the notification; the click counter is cleared by the
   input's timer callback once MULTICLICK_TIME_MS have passed since the last change while the input is released (or is a
   toggle switch / motion sensor) *)
Lemma advanced_tick_more s i x s' o y :
  advanced_tick s i x = (s', o) -> getn (inputs s) i = Some x -> i_armed x = true -> getn (inputs s') i = Some y ->
  i_adv y = i_adv x /\ (i_armed y = false -> i_cnt y <= 0) /\
  (((i_last x =? STATE_INACTIVE) || toggles x) = true -> MULTICLICK_TIME_MS * 1000 <= u32 (now32 s - i_lsc x) -> i_cnt y = 0).
Proof.
  unfold advanced_tick. cbv zeta. remember (MULTICLICK_TIME_MS * 1000) as MC eqn:EMC. intros H G Ha Gy. revert H.
  match goal with |- (match ?T with (_, _) => _ end = _) -> _ => set (TT := T) end.
  assert (P : forall s1 x1 o1, TT = (s1, x1, o1) ->
            i_last x1 = i_last x /\ i_type x1 = i_type x /\ i_lsc x1 = i_lsc x /\ i_adv x1 = i_adv x /\
            (i_armed x1 = false -> i_cnt x1 <= 0) /\ (exists z, getn (inputs s1) i = Some z)).
  { unfold TT. intros s1 x1 o1.
    brk; intros E; inversion E; subst; clear E;
      repeat match goal with
      | K : (_, _) = (_, _) |- _ => inversion K; subst; clear K
      | K : context [if ?c then _ else _] |- _ => destruct c eqn:?
      | K : context [match ?t with _ => _ end] |- _ => destruct t eqn:?
      end;
      cbn [i_last i_type i_lsc i_adv i_armed i_cnt upd_in];
      repeat match goal with
      | K : input_start_cfg _ = _ |- _ => apply input_start_cfg_out in K; destruct K as [[? ?]|(? & ? & K & _)]; subst
      end;
      (split; [reflexivity|]); (split; [reflexivity|]); (split; [reflexivity|]); (split; [reflexivity|]);
      (split; [try (intros; lia); try (intros; congruence); try (destruct (hold_enabled _); intros; try lia; congruence)|]);
      try (eexists; exact G); try (eexists; cbn [inputs set_input with_inputs]; eapply getn_setn_same; exact G);
      try (match goal with E : inputs ?a = inputs _ |- exists z, getn (inputs ?a) _ = Some z => eexists; rewrite E; cbn [inputs set_input with_inputs]; eapply getn_setn_same; exact G end). }
  destruct TT as [[s1 x1] o1]. destruct (P s1 x1 o1 eq_refl) as (L1 & L2 & L3 & L4 & L5 & (z & Gz)).
  intros H; inversion H; subst s' o. cbn [inputs set_input with_inputs] in Gy. rewrite (getn_setn_same _ _ _ _ Gz) in Gy. inversion Gy; subst y. clear Gy.
  assert (TG : toggles x1 = toggles x) by (unfold toggles; rewrite L2; reflexivity).
  rewrite L1, TG, L3.
  destruct ((i_last x =? STATE_INACTIVE) || toggles x) eqn:EC.
  - destruct (MC <=? u32 (now32 s - i_lsc x)) eqn:EM.
    + cbn [i_adv i_armed i_cnt upd_in]. split; [exact L4|]. split; [intros _; lia|intros _ _; reflexivity].
    + apply Z.leb_gt in EM. destruct (i_maxc x1 <=? i_cnt x1).
      * destruct (i_maxc x1 <=? 1); cbn [i_adv i_armed i_cnt upd_in]; (split; [exact L4|]); (split; [intros K; try lia; auto|intros _ K; lia]).
      * split; [exact L4|]. split; [exact L5|intros _ K; lia].
  - split; [exact L4|]. split; [exact L5|intros K; discriminate].
Qed.

Definition counted_adv (x : input) (stt : Z) : bool := (stt =? STATE_ACTIVE) || toggles x.

Lemma advanced_change_cnt s i x stt s' o y :
  advanced_change s i x stt = (s', o) -> getn (inputs s) i <> None -> getn (inputs s') i = Some y -> -128 <= i_cnt x <= 127 ->
  i_armed y = true /\ i_adv y = true /\ i_type y = i_type x /\
  i_cnt y <= i_cnt x + (if counted_adv x stt then 1 else 0) /\
  (forall t, In (EnterCfg t) o -> toggle_enabled x = true /\ counted_adv x stt = true /\ PRESS_COUNT <= i_cnt x + 1).
Proof.
  unfold advanced_change, counted_adv. intros H Gn Gy Hc. pose proof (cf_count consts_ok) as HC.
  pose proof (s8_le (i_cnt x + 1) ltac:(lia)) as S8.
  destruct (getn (inputs s) i) as [x0|] eqn:G; [clear Gn|congruence].
  destruct (negb (i_cnt x =? -1)) eqn:E1; cbn [andb] in H.
  - destruct ((stt =? STATE_ACTIVE) || toggles x) eqn:E2.
    + destruct (toggle_enabled x && (PRESS_COUNT <=? s8 (i_cnt x + 1))) eqn:ET.
      * destruct (input_start_cfg (set_input s i (upd_in x (i_last x) 0 (i_lsc x) false true))) as [s1 o1] eqn:EI.
        apply input_start_cfg_upd in EI. destruct EI as [[U1 _] Ho].
        assert (G1 : getn (inputs s1) i = Some (upd_in x (i_last x) 0 (i_lsc x) false true)) by (rewrite U1; eapply getn_setn_same; eauto).
        rewrite G1 in H. inversion H; subst s' o. cbn [inputs set_input with_inputs] in Gy. rewrite (getn_setn_same _ _ _ _ G1) in Gy.
        inversion Gy; subst y. cbn. apply andb_true_iff in ET. destruct ET as [T1 T2]. apply Z.leb_le in T2.
        split; [auto|]. split; [auto|]. split; [auto|]. split; [lia|]. intros t _. split; [auto|]. split; [auto|lia].
      * inversion H; subst s' o. cbn [inputs set_input with_inputs] in Gy. rewrite (getn_setn_same _ _ _ _ G) in Gy. inversion Gy; subst y. cbn.
        split; [auto|]. split; [auto|]. split; [auto|]. split; [lia|intros t []].
    + inversion H; subst s' o. cbn [inputs set_input with_inputs] in Gy. rewrite (getn_setn_same _ _ _ _ G) in Gy. inversion Gy; subst y. cbn.
      split; [auto|]. split; [auto|]. split; [auto|]. split; [lia|intros t []].
  - inversion H; subst s' o. cbn [inputs set_input with_inputs] in Gy. rewrite (getn_setn_same _ _ _ _ G) in Gy. inversion Gy; subst y. cbn.
    split; [auto|]. split; [auto|]. split; [auto|]. split; [destruct ((stt =? STATE_ACTIVE) || toggles x); lia|intros t []].
Qed.

(* specification-side run length for the ActionTrigger handler: state changes of input i that count (to "active", or any
   change of a toggle switch / motion sensor) since the last time-out tick: a Tick of that input at least MULTICLICK_TIME_MS
   (32-bit difference) after its last change while it is released or is a toggle type *)
Definition tog (ty : Z) : bool := (ty =? TYPE_BISTABLE) || (ty =? TYPE_MOTION).
Definition aacc : Type := (Z * Z * Z * Z)%type.          (* time, notified state, time of the last change, run length *)
Definition astep (i ty : Z) (a : aacc) (e : ev) : aacc :=
  let '(t, ph, tl, n) := a in
  match e with
  | Time dt => (t + dt, ph, tl, n)
  | Notify j stt =>
      if (j =? i) && negb (stt =? ph) then (t, stt, t, n + (if (stt =? STATE_ACTIVE) || tog ty then 1 else 0)) else a
  | Tick j =>
      if (j =? i) && ((ph =? STATE_INACTIVE) || tog ty) && (MULTICLICK_TIME_MS * 1000 <=? u32 (t - tl)) then (t, ph, tl, 0) else a
  | _ => a
  end.
Definition arun (i ty : Z) (evs : list ev) : aacc := fold_left (astep i ty) evs (0, STATE_INACTIVE, 0, 0).
Definition arun_n (i ty : Z) (evs : list ev) : Z := snd (arun i ty evs).

Lemma arun_snoc i ty pre e : arun i ty (pre ++ [e]) = astep i ty (arun i ty pre) e.
Proof. unfold arun. rewrite fold_left_app. reflexivity. Qed.
Lemma hist_now i pre : h_now (hist i pre) = clock pre.
Proof.
  induction pre as [|e pre IH] using rev_ind; [reflexivity|]. rewrite hist_snoc, clock_snoc.
  destruct e; cbn [hstep h_now]; auto. - destruct ((i0 =? i) && negb (stt =? h_phys (hist i pre))); cbn; auto. - rewrite IH; reflexivity.
Qed.
Lemma arun_hist i ty pre :
  let '(t, ph, tl, n) := arun i ty pre in
  t = clock pre /\ ph = h_phys (hist i pre) /\ tl = h_t (hist i pre) /\ 0 <= n.
Proof.
  induction pre as [|e pre IH] using rev_ind; [cbn; repeat split; lia|].
  rewrite arun_snoc, clock_snoc, hist_snoc. destruct (arun i ty pre) as [[[t ph] tl] n]. destruct IH as (I1 & I2 & I3 & I4). subst.
  destruct e; cbn [astep hstep h_phys h_t]; try (repeat split; auto; fail).
  - destruct ((i0 =? i) && negb (stt =? h_phys (hist i pre))); cbn [h_phys h_t h_now].
    + rewrite hist_now. repeat split; auto. destruct ((stt =? STATE_ACTIVE) || tog ty); lia.
    + repeat split; auto.
  - destruct ((i0 =? i) && ((h_phys (hist i pre) =? STATE_INACTIVE) || tog ty) && (MULTICLICK_TIME_MS * 1000 <=? u32 (clock pre - h_t (hist i pre))));
      repeat split; auto; lia.
Qed.

Lemma tick_other_input s j s' o i :
  tick s j = (s', o) -> halted s' = false -> j <> i ->
  (forall x, getn (inputs s) j = Some x -> -128 <= i_cnt x <= 127) ->
  getn (inputs s') i = getn (inputs s) i.
Proof.
  unfold tick. intros H Hh N Hc. destruct (getn (inputs s) j) as [x|] eqn:G; [|inversion H; reflexivity].
  destruct (i_armed x); [|inversion H; reflexivity]. pose proof (Hc x eq_refl) as Hx.
  destruct (i_adv x).
  - destruct (advanced_tick_spec s j x s' o Hx H) as (x' & [U _] & _). rewrite U. apply getn_setn_other; auto.
  - destruct (legacy_tick_spec s j x s' o H) as [[E1 E2]|[_ [(x' & [U _] & _)|(Q1 & _)]]]; [subst; reflexivity| |congruence].
    rewrite U. apply getn_setn_other; auto.
Qed.

(* events other than a notification or a tick of input i leave its record alone, except an ActionTrigger configuration *)
Lemma step_input_same (CF : consts_facts) s pre e s' o i :
  inv s pre -> live s -> step s e = (s', o) -> halted s' = false -> (forall stt, e <> Notify i stt) -> e <> Tick i ->
  forall y, getn (inputs s') i = Some y ->
  exists x, getn (inputs s) i = Some x /\ (y = x \/ exists m, y = set_active_triggers x m).
Proof.
  intros I [Lb Lh] H Hh N NT y Gy. pose proof I as [In Ii].
  assert (RNG : forall j x, getn (inputs s) j = Some x -> -128 <= i_cnt x <= 127).
  { intros j x G. destruct (Ii j x G) as (_ & A & _). exact A. }
  assert (SAME : getn (inputs s') i = getn (inputs s) i -> exists x, getn (inputs s) i = Some x /\ (y = x \/ exists m, y = set_active_triggers x m)).
  { intros E. rewrite E in Gy. exists y. auto. }
  unfold step in H. destruct e; rewrite ?Lb, ?Lh in H; cbn [negb orb] in H.
  - inversion H; subst. apply SAME; reflexivity.
  - inversion H; subst. apply SAME. destruct (connectable s); reflexivity.
  - inversion H; subst. apply SAME. destruct (pre_iter_fields s) as (_ & _ & _ & A & _). rewrite A. reflexivity.
  - destruct (srv_frame_cause _ _ _ _ _ H) as ([F|(F & ch & m & HI)] & _).
    + apply SAME. destruct F as (A & _). rewrite A. reflexivity.
    + rewrite HI in Gy. unfold at_cfg in Gy. apply getn_map in Gy. destruct Gy as (x & Gx & ->). exists x. split; [auto|].
      destruct (i_chan x =? ch); [right; eexists; reflexivity|left; reflexivity].
  - assert (NE : i0 <> i) by (intros ->; apply (N stt); reflexivity).
    apply SAME. apply (notify_other_input CF _ _ _ _ _ i H Hh NE (RNG i0)).
  - assert (NE : i0 <> i) by (intros ->; apply NT; reflexivity).
    apply SAME. apply (tick_other_input _ _ _ _ i H Hh NE (RNG i0)).
  - inversion H; subst. apply SAME; reflexivity.
  - unfold ap_timer in H. destruct (cfgtmr s =? 1).
    + destruct (exit_to s); inversion H; subst; apply SAME; reflexivity.
    + destruct (cfgtmr s =? 2).
      * apply restart_out in H. destruct H as [H _]. congruence.
      * inversion H; subst. apply SAME; reflexivity.
  - inversion H; subst. apply SAME. unfold rs_env. destruct (getn (rss s) idx); reflexivity.
Qed.

Lemma sat_armed x m :
  i_type (set_active_triggers x m) = i_type x /\ i_adv (set_active_triggers x m) = i_adv x /\
  ((i_cnt (set_active_triggers x m) = i_cnt x /\ i_armed (set_active_triggers x m) = i_armed x) \/
   (i_cnt (set_active_triggers x m) = 0 /\ i_armed (set_active_triggers x m) = false)).
Proof.
  unfold set_active_triggers.
  match goal with |- context [let '(a, b) := ?T in _] => destruct T as [rel drel] end.
  cbn [i_type i_adv i_cnt i_armed]. split; [reflexivity|]. split; [reflexivity|].
  match goal with |- context [if ?c then _ else _] => destruct c end; auto.
Qed.

Lemma ev_eq_tick i (e : ev) : e = Tick i \/ e <> Tick i.
Proof. destruct e; try (right; discriminate). destruct (Z.eq_dec i0 i) as [->|N]; [left; reflexivity|right; intros E; inversion E; congruence]. Qed.

Section AdvancedRun.
Variable CF : consts_facts.
Variables i ty : Z.

(* input i has type ty and is served by the ActionTrigger handler (which implies: not yet in configuration mode) *)
Definition adv_in (s : st) : Prop := forall x, getn (inputs s) i = Some x -> i_type x = ty /\ advanced s x = true.
Definition ainv (s : st) (pre : list ev) : Prop :=
  forall x, getn (inputs s) i = Some x ->
    i_cnt x <= arun_n i ty pre /\ (i_armed x = false -> i_cnt x <= 0) /\ (i_armed x = true -> i_adv x = true).

Lemma arun_n_other pre e : (forall stt, e <> Notify i stt) -> e <> Tick i -> arun_n i ty (pre ++ [e]) = arun_n i ty pre.
Proof.
  intros N NT. unfold arun_n. rewrite arun_snoc. destruct (arun i ty pre) as [[[t ph] tl] n]. destruct e; cbn [astep snd]; auto.
  - destruct (i0 =? i) eqn:E; [apply Z.eqb_eq in E; subst; destruct (N stt eq_refl)|reflexivity].
  - destruct (i0 =? i) eqn:E; [apply Z.eqb_eq in E; subst; destruct (NT eq_refl)|reflexivity].
Qed.

Lemma tog_toggles x : i_type x = ty -> toggles x = tog ty.
Proof. unfold toggles, tog. intros ->. reflexivity. Qed.

Lemma step_ainv s pre e s' o :
  Forall ev_ok pre -> inv s pre -> live s -> adv_in s -> ainv s pre ->
  step s e = (s', o) -> halted s' = false ->
  ainv s' (pre ++ [e]) /\
  (forall stt t, e = Notify i stt -> In (EnterCfg t) o ->
     exists x, getn (inputs s) i = Some x /\ toggle_enabled x = true /\ PRESS_COUNT <= arun_n i ty (pre ++ [e])).
Proof.
  intros Hok I L AI A H Hh. pose proof L as [Lb Lh]. pose proof I as [In Ii].
  pose proof (arun_hist i ty pre) as AH. unfold ainv, arun_n in *.
  destruct (classic_notify i e) as [[stt ->]|N].
  - (* notification of input i *)
    unfold step in H. rewrite Lb, Lh in H. cbn [negb orb] in H. unfold notify in H.
    rewrite arun_snoc. destruct (arun i ty pre) as [[[t ph] tl] n] eqn:EA. destruct AH as (H1 & H2 & H3 & H4). cbn [astep]. rewrite Z.eqb_refl. cbn [andb].
    destruct (getn (inputs s) i) as [x|] eqn:G.
    2:{ inversion H; subst. split; [intros y Gy; congruence|intros ? ? _ []]. }
    destruct (A x eq_refl) as (A1 & A2 & A3). destruct (Ii i x G) as (L1 & L2 & L3 & L4). destruct (AI x G) as (T1 & ADV). cbn [snd] in A1.
    assert (NN : forall c : bool, n <= snd (if negb (stt =? ph) then (t, stt, t, n + (if c then 1 else 0)) else (t, ph, tl, n))).
    { intros c. destruct (negb (stt =? ph)); cbn [snd]; destruct c; lia. }
    destruct (silent s && (u32 (now32 s - u32 (boot32 s)) <? SILENT_MS * 1000)).
    { inversion H; subst s' o. split; [|intros ? ? _ []]. intros y Gy. cbn [inputs set_input with_inputs] in Gy.
      rewrite (getn_setn_same _ _ _ _ G) in Gy. inversion Gy; subst y. cbn [i_cnt i_armed i_adv upd_in].
      split; [eapply Z.le_trans; [exact A1|apply NN]|auto]. }
    destruct (i_last x =? stt) eqn:EL.
    { inversion H; subst s' o. split; [|intros ? ? _ []]. intros y Gy. cbn in Gy. rewrite G in Gy. inversion Gy; subst y.
      split; [eapply Z.le_trans; [exact A1|apply NN]|auto]. }
    apply Z.eqb_neq in EL. assert (E : (stt =? ph) = false) by (apply Z.eqb_neq; congruence). rewrite E. cbn [negb snd].
    change (advanced (set_silent s false) x) with (advanced s x) in H. rewrite ADV in H.
    set (s0 := set_silent s false) in *. set (x1 := upd_in x stt (i_cnt x) (i_lsc x) false true) in *.
    assert (G0 : getn (inputs s0) i <> None) by (cbn; congruence).
    assert (CA : counted_adv x1 stt = ((stt =? STATE_ACTIVE) || tog ty)).
    { unfold counted_adv. rewrite (tog_toggles x1); [reflexivity|exact T1]. }
    split.
    + intros y Gy. destruct (advanced_change_cnt s0 i x1 stt s' o y H G0 Gy L2) as (B1 & B2 & B3 & B4 & _).
      rewrite CA in B4. cbn [i_cnt x1 upd_in] in B4. split; [lia|]. split; [congruence|auto].
    + intros stt' tt E' Ht. inversion E'; subst stt'.
      assert (GY : exists y, getn (inputs s') i = Some y).
      { destruct (advanced_change_spec CF s0 i x1 stt s' o L2 G0 H) as (x' & [U _] & _). exists x'. rewrite U.
        destruct (getn (inputs s0) i) eqn:GG; [eapply getn_setn_same; eauto|congruence]. }
      destruct GY as [y Gy]. destruct (advanced_change_cnt s0 i x1 stt s' o y H G0 Gy L2) as (_ & _ & _ & _ & B5).
      destruct (B5 tt Ht) as (C1 & C2 & C3). exists x. split; [auto|]. split; [exact C1|]. rewrite CA in C2. rewrite C2. cbn [i_cnt x1 upd_in] in C3. lia.
  - split; [|intros stt t E; destruct (N stt E)].
    destruct (ev_eq_tick i e) as [->|NT].
    + (* timer tick of input i *)
      unfold step in H. rewrite Lb, Lh in H. cbn [negb orb] in H. unfold tick in H.
      rewrite arun_snoc. destruct (arun i ty pre) as [[[t ph] tl] n] eqn:EA. destruct AH as (H1 & H2 & H3 & H4). cbn [astep]. rewrite Z.eqb_refl. cbn [andb].
      intros y Gy.
      assert (NN : snd (if ((ph =? STATE_INACTIVE) || tog ty) && (MULTICLICK_TIME_MS * 1000 <=? u32 (t - tl)) then (t, ph, tl, 0) else (t, ph, tl, n)) = n \/
                   snd (if ((ph =? STATE_INACTIVE) || tog ty) && (MULTICLICK_TIME_MS * 1000 <=? u32 (t - tl)) then (t, ph, tl, 0) else (t, ph, tl, n)) = 0).
      { destruct (((ph =? STATE_INACTIVE) || tog ty) && (MULTICLICK_TIME_MS * 1000 <=? u32 (t - tl))); auto. }
      destruct (getn (inputs s) i) as [x|] eqn:G.
      2:{ inversion H; subst. congruence. }
      destruct (A x eq_refl) as (A1 & A2 & A3). destruct (Ii i x G) as (L1 & L2 & L3 & L4). destruct (AI x G) as (T1 & ADV). cbn [snd] in A1.
      destruct (i_armed x) eqn:Ea.
      2:{ inversion H as [[Es Eo]]. rewrite <- Es in Gy. rewrite G in Gy. inversion Gy as [Ey]. rewrite <- Ey. specialize (A2 eq_refl). rewrite Ea.
          split; [clear NN; destruct (((ph =? STATE_INACTIVE) || tog ty) && (MULTICLICK_TIME_MS * 1000 <=? u32 (t - tl))); cbn [snd]; lia|]. split; [auto|intros; discriminate]. }
      rewrite (A3 eq_refl) in H. destruct (L4 eq_refl) as (C1 & C2 & C3 & C4 & C5).
      destruct (advanced_tick_more s i x s' o y H G Ea Gy) as (M1 & M2 & M3).
      destruct (advanced_tick_spec s i x s' o L2 H) as (x' & U & _ & _ & _ & _ & _ & K6 & _).
      rewrite (upd_result_same _ _ _ _ _ _ U G Gy) in *.
      split; [|split; [exact M2|intros _; rewrite M1; auto]].
      destruct (((ph =? STATE_INACTIVE) || tog ty) && (MULTICLICK_TIME_MS * 1000 <=? u32 (t - tl))) eqn:EC; cbn [snd]; [|lia].
      apply andb_true_iff in EC. destruct EC as [EC1 EC2]. apply Z.leb_le in EC2.
      rewrite M3; [lia| |].
      * rewrite (tog_toggles x T1), L1, <- H2. exact EC1.
      * unfold now32. rewrite C2, u32_diff, In, <- H1, <- H3. exact EC2.
    + (* any other event *)
      intros y Gy. pose proof (arun_n_other pre e N NT) as EN. unfold arun_n in EN. rewrite EN.
      destruct (step_input_same CF s pre e s' o i I L H Hh N NT y Gy) as (x & Gx & [->|[m ->]]).
      * apply (A x Gx).
      * destruct (A x Gx) as (A1 & A2 & A3). destruct (sat_armed x m) as (S1 & S2 & [[S3 S4]|[S3 S4]]); rewrite S3, S4, ?S2.
        -- auto.
        -- destruct (arun i ty pre) as [[[t ph] tl] n]. cbn [snd]. split; [tauto|]. split; [intros; lia|intros; discriminate].
Qed.
End AdvancedRun.

Section AdvancedTheorem.
Variable CF : consts_facts.
Variables i ty : Z.

Lemma run_adv : forall p1 s pre stt t,
  Forall ev_ok pre -> Forall ev_ok p1 -> inv s pre -> live s -> ainv i ty s pre ->
  (forall p q, p1 = p ++ q -> adv_in i ty (fst (run_from s p))) ->
  In (EnterCfg t) (snd (step (fst (run_from s p1)) (Notify i stt))) ->
  exists x, getn (inputs (fst (run_from s p1))) i = Some x /\ toggle_enabled x = true /\
            PRESS_COUNT <= arun_n i ty (pre ++ p1 ++ [Notify i stt]).
Proof.
  induction p1 as [|e r IH]; intros s pre stt t Hp He I L A LR Ht; cbn [run_from fst app] in *.
  - destruct (step s (Notify i stt)) as [s' o] eqn:E. cbn [snd] in Ht.
    assert (Hh' : halted s' = false).
    { destruct L as [Lb Lh]. unfold step in E. rewrite Lb, Lh in E. cbn [negb orb] in E. eapply notify_enter_not_halted; eauto. }
    assert (AI : adv_in i ty s) by (apply (LR [] []); reflexivity).
    destruct (step_ainv CF i ty s pre _ s' o Hp I L AI A E Hh') as [_ B]. apply (B stt t eq_refl Ht).
  - inversion He as [|? ? He1 He2]; subst.
    destruct (step s e) as [s1 o1] eqn:E. destruct (run_from s1 r) as [s2 o2] eqn:R. cbn [fst] in *.
    assert (S2 : s2 = fst (run_from s1 r)) by (rewrite R; reflexivity).
    destruct (halted s1) eqn:Hh.
    { exfalso. rewrite run_from_dead in R; [|right; destruct (step_inv_cause CF s pre e s1 o1 Hp He1 I L E) as (_ & B & _); exact B|right; auto].
      inversion R as [[Es Eo]]. rewrite <- Es in Ht. unfold step in Ht. rewrite Hh, orb_true_r in Ht. destruct Ht. }
    destruct (step_inv_cause CF s pre e s1 o1 Hp He1 I L E) as (I1 & B1 & _). specialize (I1 Hh).
    assert (AI : adv_in i ty s) by (apply (LR [] (e :: r)); reflexivity).
    destruct (step_ainv CF i ty s pre e s1 o1 Hp I L AI A E Hh) as [A1 _].
    assert (Hp1 : Forall ev_ok (pre ++ [e])) by (apply Forall_app; split; auto).
    assert (LR1 : forall p q, r = p ++ q -> adv_in i ty (fst (run_from s1 p))).
    { intros p q Epq. specialize (LR (e :: p) q). cbn [app run_from] in LR. rewrite E in LR.
      destruct (run_from s1 p) as [sa oa]. cbn [fst] in *. apply LR. rewrite Epq. reflexivity. }
    rewrite S2 in Ht. specialize (IH s1 (pre ++ [e]) stt t Hp1 He2 I1 (conj B1 Hh) A1 LR1 Ht).
    rewrite <- S2 in IH. rewrite <- app_assoc in IH. exact IH.
Qed.
End AdvancedTheorem.

(* (b) for inputs in ActionTrigger mode: a toggle entry implies that the run length arun_n reached PRESS_COUNT: that many
   counted state changes of the input without a time-out tick in between *)
Lemma toggle_entry_advanced_thm : code_shape -> forall b32 bl fc ins rs pre stt t i ty,
  Forall ev_ok pre ->
  (forall p q, pre = p ++ q -> adv_in i ty (fst (run_from init (Boot b32 bl fc ins rs :: p)))) ->
  let s1 := fst (run_from init (Boot b32 bl fc ins rs :: pre)) in
  In (EnterCfg t) (snd (step s1 (Notify i stt))) ->
  exists x, getn (inputs s1) i = Some x /\ toggle_enabled x = true /\ PRESS_COUNT <= arun_n i ty (pre ++ [Notify i stt]).
Proof.
  intros _ b32 bl fc ins rs pre stt t i ty Hok LR. cbv zeta. rewrite run_boot.
  destruct (boot b32 bl fc ins rs) as [s0 o0] eqn:EB. destruct (boot_inv _ _ _ _ _ _ _ EB) as (I0 & L0 & _ & _).
  assert (A0 : ainv i ty s0 []).
  { intros x G. destruct I0 as [_ Ii]. destruct (Ii i x G) as (_ & _ & C & AR). cbn in C.
    pose proof (boot_qall _ _ _ _ _ _ _ i EB x G) as (ref & chain & _). 
    assert (FLD : i_cnt x <= 0 /\ i_armed x = false).
    { unfold boot in EB.
      match type of EB with context [if incomplete ?b then let '(s1, o) := cfgmode_start ?S in _ else _] => set (sb := S) in * end.
      assert (INS : inputs s0 = inputs sb).
      { destruct (incomplete _); [|inversion EB; reflexivity]. destruct (cfgmode_start sb) as [sx ox] eqn:EC. inversion EB; subst.
        destruct (cfgmode_start_out _ _ _ EC) as [[_ ->]|(_ & _ & Ci & _)]; auto. }
      rewrite INS in G. cbn [inputs sb] in G. apply getn_map in G. destruct G as (z & _ & ->).
      destruct (i_at z <? 0); [cbn; split; [lia|reflexivity]|].
      match goal with |- context [set_active_triggers ?X ?M] => destruct (sat_fields X M) as (_ & S5 & S6) end.
      split; [rewrite S5; [lia|reflexivity]|apply S6; reflexivity]. }
    destruct FLD as [F1 F2]. unfold arun_n. cbn. split; [lia|]. split; [intros; lia|intros K; congruence]. }
  assert (LR0 : forall p q, pre = p ++ q -> adv_in i ty (fst (run_from s0 p))).
  { intros p q E. specialize (LR p q E). rewrite run_boot, EB in LR. destruct (run_from s0 p). exact LR. }
  destruct (run_from s0 pre) as [s1 o1] eqn:ER. cbn [fst]. intros Ht.
  pose proof (run_adv consts_ok i ty pre s0 [] stt t (Forall_nil _) Hok I0 L0 A0 LR0) as K.
  rewrite ER in K. cbn [fst app] in K. apply K. exact Ht.
Qed.

(* the time-out rule of the run length, stated on the history: a Tick of input i at least MULTICLICK_TIME_MS (32-bit
   difference) after its last state change, while it is released or is a toggle type, clears the run *)
Lemma arun_timeout_thm : forall i ty pre,
  let '(t, ph, tl, n) := arun i ty pre in
  ((ph =? STATE_INACTIVE) || tog ty) = true -> MULTICLICK_TIME_MS * 1000 <= u32 (t - tl) ->
  arun_n i ty (pre ++ [Tick i]) = 0.
Proof.
  intros i ty pre. unfold arun_n. rewrite arun_snoc. destruct (arun i ty pre) as [[[t ph] tl] n]. intros H1 H2.
  cbn [astep]. rewrite Z.eqb_refl, H1. apply Z.leb_le in H2. rewrite H2. reflexivity.
Qed.

Definition adv_inb (i ty : Z) (s : st) : bool :=
  match getn (inputs s) i with Some x => (i_type x =? ty) && advanced s x | None => true end.
Lemma adv_run_check i ty b evs :
  forallb (fun p => adv_inb i ty (fst (run_from init (b :: p)))) (prefixes evs) = true ->
  forall p q, evs = p ++ q -> adv_in i ty (fst (run_from init (b :: p))).
Proof.
  intros H p q E. rewrite forallb_forall in H. specialize (H p). rewrite E in H. specialize (H (prefixes_In p q)).
  unfold adv_inb in H. intros x G. rewrite G in H. apply andb_true_iff in H. destruct H as [H1 H2]. apply Z.eqb_eq in H1. auto.
Qed.

(* a bistable configuration button with ActionTriggers TOGGLE_x2 | TOGGLE_x5 activated (ActionTrigger mode) *)
Definition w_boot_at : ev :=
  Boot 1 0 1 [in_of_ints [TYPE_BISTABLE; FLAG_CFG_BTN; 255; CAP_TG2 + CAP_TG5; CAP_TG2 + CAP_TG5; 4]] [w_rs].
Definition w_adv_pre : list ev :=
  [Time 500000] ++ concat (map (fun k => [Notify 0 (Z.of_nat (S k) mod 2); Time 100000; Tick 0]) (seq 0 9)).
Lemma advanced_nonvacuous_thm :
  let s1 := fst (run_from init (w_boot_at :: w_adv_pre)) in
  Forall ev_ok w_adv_pre /\
  (forall p q, w_adv_pre = p ++ q -> adv_in 0 TYPE_BISTABLE (fst (run_from init (w_boot_at :: p)))) /\
  In (EnterCfg (now s1)) (snd (step s1 (Notify 0 0))) /\
  arun_n 0 TYPE_BISTABLE (w_adv_pre ++ [Notify 0 0]) = 10 /\
  (* nine toggles, the time-out tick 320 ms after the ninth, a tenth toggle: no entry *)
  run (w_boot_at :: w_adv_pre ++ [Time 220000; Tick 0; Notify 0 0]) = [] /\
  arun_n 0 TYPE_BISTABLE (w_adv_pre ++ [Time 220000; Tick 0; Notify 0 0]) = 1.
Proof.
  cbv zeta. split; [apply ev_okb_ok; vm_compute; reflexivity|]. split; [apply adv_run_check; vm_compute; reflexivity|].
  split; [vm_compute; left; reflexivity|]. repeat split; vm_compute; reflexivity.
Qed.
