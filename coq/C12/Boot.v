(* C12 — the boot decision "configuration incomplete -> configuration mode" of user_init(), both builds.
   The guards are pinned by truth tables: the translator cuts the condition text out of src/user/user_main.c, replaces the atoms
   (X[0] == 0, LocationID == 0, Flags & CFG_FLAG_Y) by variables and evaluates the formula for every assignment (gen/grp_c12.py);
   [boot_tables] states that the model functions have exactly these tables, so a re-parenthesised / changed guard breaks the proofs. *)
From Coq Require Import List ZArith Bool Lia.
Import ListNotations.
From V Require Import Base.Iface Gen.C12Consts C12.Model.
Local Open Scope Z_scope.

(* truth table of a predicate over assignments 0 .. n-1: bit a is set iff f a *)
Fixpoint tt (f : Z -> bool) (n : nat) : Z :=
  match n with O => 0 | S m => tt f m + (if f (Z.of_nat m) then 2 ^ Z.of_nat m else 0) end.
Definition bit (a i : Z) : bool := Z.testbit a i.

(* atom order of the translator — MQTT build, first if: E_WIFI_SSID E_WIFI_PWD F_MQTT_ENABLED E_Server F_MQTT_NO_AUTH E_Username E_Password E_Email
   (E_x = "x is empty");  second if: F_MQTT_ENABLED F_DEVICE_LOCKED;  plain build: E_WIFI_SSID E_WIFI_PWD E_Server E_Email E_LocationID E_LocationPwd *)
Definition cfg_of_assignment (a : Z) : bootcfg :=
  {| bc_en := bit a 2; bc_noauth := bit a 4; bc_locked := false; bc_ssid := negb (bit a 0); bc_wpwd := negb (bit a 1);
     bc_server := negb (bit a 3); bc_user := negb (bit a 5); bc_pass := negb (bit a 6); bc_email := negb (bit a 7) |}.
Definition lock_of_assignment (a : Z) : bootcfg :=
  {| bc_en := bit a 0; bc_noauth := false; bc_locked := bit a 1; bc_ssid := true; bc_wpwd := true; bc_server := true;
     bc_user := true; bc_pass := true; bc_email := true |}.

Lemma boot_tables :
  tt (fun a => mboot_incomplete (cfg_of_assignment a)) 256 = BOOT_TT_MQTT /\
  tt (fun a => mboot_locked (lock_of_assignment a)) 4 = BOOT_TT_LOCKED /\
  tt (fun a => pboot_enters (negb (bit a 0)) (negb (bit a 1)) (negb (bit a 2)) (negb (bit a 3)) (negb (bit a 4)) (negb (bit a 5))) 64 = BOOT_TT_PLAIN.
Proof. split; [|split]; vm_compute; reflexivity. Qed.

Lemma boot_flag_bits : [CFGF_MQTT_ENABLED; CFGF_MQTT_NO_AUTH; CFGF_DEVICE_LOCKED] = [1; 8; 16].
Proof. reflexivity. Qed.
(* Email/Username and LocationPwd/Password share their storage (anonymous unions of SuplaEspCfg) *)
Lemma boot_unions : CFG_OFF_EMAIL = CFG_OFF_USERNAME /\ CFG_OFF_LOCPWD = CFG_OFF_PASSWORD.
Proof. split; reflexivity. Qed.

(* the whole-device model's boot test (blank mask of the BOOT event) is the plain-build guard *)
Lemma incomplete_is_plain_guard : forall b,
  incomplete b = pboot_enters (negb (band b 4)) (negb (band b 8)) (negb (band b 1)) (negb (band b 2)) (band b 16) (band b 16).
Proof.
  intro b. unfold incomplete, pboot_enters.
  destruct (band b 4), (band b 8), (band b 1), (band b 2), (band b 16); reflexivity.
Qed.

(* ---- the property's notion of a complete configuration (MQTT-capable build) ----
   Wi-Fi name and password and the server/broker address are set, and
   - SUPLA protocol: the e-mail address is set;
   - MQTT: user name and password are set, unless the broker is configured as "no authentication". *)
Definition complete (c : bootcfg) : bool :=
  bc_ssid c && bc_wpwd c && bc_server c &&
  (if bc_en c then bc_noauth c || (bc_user c && bc_pass c) else bc_email c).

Theorem mqtt_boot_enters_iff : forall c,
  mboot_enters c = true <-> (complete c = false \/ (bc_en c = true /\ bc_locked c = true)).
Proof.
  intros [en na lk ss wp sv us pw em]. unfold mboot_enters, mboot_incomplete, mboot_locked, complete. cbn.
  destruct en, na, lk, ss, wp, sv, us, pw, em; cbn; split; intro H; auto;
    try discriminate; try (destruct H as [H | [H1 H2]]; discriminate).
Qed.

Theorem mqtt_boot_wire_thm : forall a,
  let c := bootcfg_of_ints a in
  (mboot_wire a = [mk 0 [0] []] <-> (complete c = false \/ (bc_en c = true /\ bc_locked c = true))) /\
  (mboot_wire a <> [mk 0 [0] []] -> mboot_wire a = [mk 9 [if bc_en c then 2 else 1] []]).
Proof.
  intros a c. unfold mboot_wire. fold c. split.
  - rewrite <- mqtt_boot_enters_iff. destruct (mboot_enters c); split; intro H; auto; try discriminate.
  - destruct (mboot_enters c); intro H; [contradiction H; reflexivity | reflexivity].
Qed.

(* non-vacuity / the case of seed r5m1: a no-auth broker with empty user name and password is complete and starts the MQTT client;
   the same without NO_AUTH enters configuration mode; SUPLA mode with e-mail starts the SUPLA client *)
Example mqtt_boot_examples :
  mboot_wire [1; 1; 0; 1; 1; 1; 0; 0] = [mk 9 [2] []] /\
  mboot_wire [1; 1; 0; 1; 1; 1; 1; 0] = [mk 9 [2] []] /\
  mboot_wire [1; 0; 0; 1; 1; 1; 0; 0] = [mk 0 [0] []] /\
  mboot_wire [1; 0; 0; 1; 1; 1; 1; 0] = [mk 0 [0] []] /\
  mboot_wire [1; 0; 0; 1; 1; 1; 1; 1] = [mk 9 [2] []] /\
  mboot_wire [0; 0; 0; 1; 1; 1; 1; 0] = [mk 9 [1] []] /\
  mboot_wire [0; 0; 0; 1; 1; 1; 0; 1] = [mk 0 [0] []] /\
  mboot_wire [1; 0; 1; 1; 1; 1; 1; 1] = [mk 0 [0] []].
Proof. repeat split; reflexivity. Qed.
