(* C20 — executable model of the fallback DNS resolver, src/user/supla_esp_dns_client.c:
   supla_esp_dns_resolve / supla_esp_dns__resolve / supla_esp_dns_encode_name / supla_esp_dns_result /
   supla_esp_dns_recv_cb / _connect_cb / _disconnect_cb / _timeout_cb / _retry_cb / _request_release,
   on top of the SDK doubles' timer semantics (one-shot timers on a virtual clock, fired in (due, arming order)).
   Definitions only (proofs are in Proofs.v) so that extraction works even when a proof breaks.

   `fx = true`  : the code with the repair docs/fixes/C20_short_name_stale_state.diff
                  (supla_esp_dns_resolve clears `success` and sets try_counter = DNS_SERVER_COUNT before the
                  early exits, so that result() on the early exits reports failure at once);
   `fx = false` : the code as it is in the tree without the repair.

   Not modelled: the byte-swapped write-backs of ANCOUNT/TYPE/CLASS/RDLENGTH into the received buffer
   (same offsets as the checked reads, never re-read when request_len >= 10); malloc failure;
   a NULL domain pointer (returns without a callback; not a host name). *)
From Coq Require Import List ZArith Bool.
Import ListNotations.
From V Require Import Base.U32 Base.Bytes Base.Iface Gen.DnsConsts.
Local Open Scope Z_scope.

(* ---------- checked memory accesses: None = outside the object ---------- *)
Definition rd (b : list Z) (i : Z) : option Z :=
  if (0 <=? i) && (i <? len b) then Some (nthz b i) else None.
Definition rd16 (b : list Z) (i : Z) : option Z :=          (* big-endian 16-bit read at b[i] *)
  match rd b i, rd b (i + 1) with Some h, Some l => Some (256 * h + l) | _, _ => None end.
Definition rdn (b : list Z) (i n : Z) : option (list Z) :=   (* memcpy(_, &b[i], n) *)
  if (0 <=? i) && (0 <=? n) && (i + n <=? len b) then Some (take n (drop i b)) else None.
Definition wr (b : list Z) (i v : Z) : option (list Z) :=
  if (0 <=? i) && (i <? len b) then Some (take i b ++ v :: drop (i + 1) b) else None.
Fixpoint wr_many (b : list Z) (i : Z) (vs : list Z) : option (list Z) :=
  match vs with
  | [] => Some b
  | v :: r => match wr b i v with None => None | Some b1 => wr_many b1 (i + 1) r end
  end.

(* ---------- request encoder ---------- *)
(* the C string: bytes before the first 0 *)
Fixpoint cstr (l : list Z) : list Z :=
  match l with [] => [] | c :: r => if c =? 0 then [] else c :: cstr r end.

(* supla_esp_dns_encode_name(name, ln, dest) with dest an object of len(dest) bytes.
   Result: None = a write outside dest; Some (dest', early) with early = returned from inside the loop. *)
Fixpoint enc_loop (fuel : nat) (nm : list Z) (ln a last : Z) (dest : list Z) : option (list Z * bool) :=
  match fuel with
  | O => Some (dest, false)
  | S k =>
    if a <? ln + 1 then
      let c := nthz nm a in
      if (c =? 46) || (c =? 0) then
        match wr dest last (a - last) with
        | None => None
        | Some d1 =>
          if a - last =? 0 then Some (d1, true)
          else match wr_many d1 (last + 1) (take (a - last) (drop last nm)) with
               | None => None
               | Some d2 => enc_loop k nm ln (a + 1) (a + 1) d2
               end
        end
      else enc_loop k nm ln (a + 1) last dest
    else Some (dest, false)
  end.
Definition encode_name (nm : list Z) (ln : Z) (dest : list Z) : option (list Z) :=
  if ln =? 0 then Some dest else
  match enc_loop (Z.to_nat (ln + 1)) nm ln 0 0 dest with
  | None => None
  | Some (d, true) => Some d
  | Some (d, false) => wr d (ln + 1) 0
  end.

Definition domain_len (name : list Z) : Z := Z.min (len (cstr name)) DOMAIN_MAX.   (* strnlen(domain, DOMAIN_MAX_LEN) *)
Definition request_len (dl : Z) : Z := PREFIX_SIZE + HEADER_SIZE + dl + 2 + QSUFFIX_SIZE.

(* the request buffer built by supla_esp_dns_resolve; None = the encoder left its dl+2 bytes *)
Definition build_request (name : list Z) : option (list Z) :=
  let nm := cstr name in let dl := domain_len name in
  match encode_name nm dl (zeros (dl + 2)) with
  | None => None
  | Some d =>
    let L := request_len dl in
    Some ([(L - 2) / 256; (L - 2) mod 256]            (* htons(data_len - 2) *)
          ++ ID_ONE ++ [RD_MASK; 0] ++ [0; 1] ++ zeros 6   (* ID = 1 (host order), RD = 1, QDCOUNT = htons(1) *)
          ++ d ++ [0; TYPE_A_; 0; CLASS_IN_])
  end.

(* ---------- reply parser (supla_esp_dns_recv_cb) ---------- *)
Inductive pres := PFault | PHang | PResult | PIgnore | PAddr (a : list Z).

(* the for-loop that skips the answer's name.  Its index `a` has the width the translator reads from its
   declaration in supla_esp_dns_recv_cb (SKIP_IDX_MOD = 2^bits): every update of `a` wraps at that width.
   None = the loop is still running after len iterations, i.e. the index wrapped and the loop never ends
   (without a wrap `a` grows by one per iteration and reaches L within L iterations). *)
Definition idxw (z : Z) : Z := z mod SKIP_IDX_MOD.
Fixpoint scan (fuel : nat) (p : list Z) (L a : Z) : option Z :=
  match fuel with
  | O => if a <? L then None else Some a
  | S k => if a <? L then
             let c := nthz p a in
             if 192 <=? c then Some (idxw (a + 2))
             else if c =? 0 then Some (idxw (a + 1))
             else scan k p L (idxw (a + 1))
           else Some a
  end.

Definition parse (dl : Z) (b : list Z) : pres :=
  let L := len b in
  if L <? dl then PResult else
  match rd16 b 0 with
  | None => PFault
  | Some pre =>
    if negb (pre =? L - PREFIX_SIZE) then PResult else
    match rd16 b (PREFIX_SIZE + OFF_ANCOUNT), rd b (PREFIX_SIZE + RCODE_OFF) with
    | Some an, Some fl =>
      if negb (Z.land fl RCODE_MASK =? RCODE_OK) || (an <? 1) then PResult else
      let p := drop dl b in let L' := L - dl in
      match scan (Z.to_nat L') p L' 0 with
      | None => PHang
      | Some a =>
      if L' <=? a + ASUFFIX_SIZE then PResult else
      match rd16 p (a + OFF_A_TYPE), rd16 p (a + OFF_A_CLASS), rd16 p (a + OFF_A_RDLENGTH) with
      | Some ty, Some cl, Some rl =>
        if negb (ty =? TYPE_A_) || negb (cl =? CLASS_IN_) || negb (rl =? RDLEN_A)
           || (L' <? a + ASUFFIX_SIZE + rl) then PIgnore
        else match rdn p (a + ASUFFIX_SIZE) ADDR_SIZE with Some ad => PAddr ad | None => PFault end
      | _, _, _ => PFault
      end
      end
    | _, _ => PFault
    end
  end.

(* ---------- resolver state ---------- *)
Record timer := { armed : bool; due : Z; tseq : Z }.
Definition t_off : timer := {| armed := false; due := 0; tseq := 0 |}.

Record st := {
  now : Z;               (* virtual clock, microseconds since boot *)
  tc : Z;                (* try_counter (uint8) *)
  success : bool;
  ip : list Z;           (* result_ipv4 *)
  cbp : bool;            (* dns_query_result_cb != NULL *)
  req : option (list Z); (* request.data, None = NULL *)
  dlen : Z;              (* request.data_len (kept when the buffer is released) *)
  reg : bool;            (* callbacks registered on conn (conn.proto.tcp set) *)
  tT : timer;            (* timeout_timer *)
  tR : timer;            (* retry_timer *)
  seqc : Z;              (* arming sequence number of the timer double *)
  sres : Z;              (* scripted result of espconn_sent *)
  cres : Z;              (* scripted result of espconn_connect (ignored by the code: the timeout timer is armed before the call) *)
  halted : bool;         (* an access outside an object happened *)
  fires : Z }.           (* ghost: number of timer callbacks run so far *)

Definition init : st :=
  {| now := 0; tc := 0; success := false; ip := zeros 4; cbp := false; req := None; dlen := 0; reg := false;
     tT := t_off; tR := t_off; seqc := 0; sres := 0; cres := 0; halted := false; fires := 0 |}.

Definition set_now v s := {| now := v; tc := tc s; success := success s; ip := ip s; cbp := cbp s; req := req s; dlen := dlen s; reg := reg s; tT := tT s; tR := tR s; seqc := seqc s; sres := sres s; cres := cres s; halted := halted s; fires := fires s |}.
Definition set_tc v s := {| now := now s; tc := v; success := success s; ip := ip s; cbp := cbp s; req := req s; dlen := dlen s; reg := reg s; tT := tT s; tR := tR s; seqc := seqc s; sres := sres s; cres := cres s; halted := halted s; fires := fires s |}.
Definition set_success v s := {| now := now s; tc := tc s; success := v; ip := ip s; cbp := cbp s; req := req s; dlen := dlen s; reg := reg s; tT := tT s; tR := tR s; seqc := seqc s; sres := sres s; cres := cres s; halted := halted s; fires := fires s |}.
Definition set_ip v s := {| now := now s; tc := tc s; success := success s; ip := v; cbp := cbp s; req := req s; dlen := dlen s; reg := reg s; tT := tT s; tR := tR s; seqc := seqc s; sres := sres s; cres := cres s; halted := halted s; fires := fires s |}.
Definition set_cbp v s := {| now := now s; tc := tc s; success := success s; ip := ip s; cbp := v; req := req s; dlen := dlen s; reg := reg s; tT := tT s; tR := tR s; seqc := seqc s; sres := sres s; cres := cres s; halted := halted s; fires := fires s |}.
Definition set_req v s := {| now := now s; tc := tc s; success := success s; ip := ip s; cbp := cbp s; req := v; dlen := dlen s; reg := reg s; tT := tT s; tR := tR s; seqc := seqc s; sres := sres s; cres := cres s; halted := halted s; fires := fires s |}.
Definition set_dlen v s := {| now := now s; tc := tc s; success := success s; ip := ip s; cbp := cbp s; req := req s; dlen := v; reg := reg s; tT := tT s; tR := tR s; seqc := seqc s; sres := sres s; cres := cres s; halted := halted s; fires := fires s |}.
Definition set_reg v s := {| now := now s; tc := tc s; success := success s; ip := ip s; cbp := cbp s; req := req s; dlen := dlen s; reg := v; tT := tT s; tR := tR s; seqc := seqc s; sres := sres s; cres := cres s; halted := halted s; fires := fires s |}.
Definition set_tT v s := {| now := now s; tc := tc s; success := success s; ip := ip s; cbp := cbp s; req := req s; dlen := dlen s; reg := reg s; tT := v; tR := tR s; seqc := seqc s; sres := sres s; cres := cres s; halted := halted s; fires := fires s |}.
Definition set_tR v s := {| now := now s; tc := tc s; success := success s; ip := ip s; cbp := cbp s; req := req s; dlen := dlen s; reg := reg s; tT := tT s; tR := v; seqc := seqc s; sres := sres s; cres := cres s; halted := halted s; fires := fires s |}.
Definition set_seqc v s := {| now := now s; tc := tc s; success := success s; ip := ip s; cbp := cbp s; req := req s; dlen := dlen s; reg := reg s; tT := tT s; tR := tR s; seqc := v; sres := sres s; cres := cres s; halted := halted s; fires := fires s |}.
Definition set_sres v s := {| now := now s; tc := tc s; success := success s; ip := ip s; cbp := cbp s; req := req s; dlen := dlen s; reg := reg s; tT := tT s; tR := tR s; seqc := seqc s; sres := v; cres := cres s; halted := halted s; fires := fires s |}.
Definition set_cres v s := {| now := now s; tc := tc s; success := success s; ip := ip s; cbp := cbp s; req := req s; dlen := dlen s; reg := reg s; tT := tT s; tR := tR s; seqc := seqc s; sres := sres s; cres := v; halted := halted s; fires := fires s |}.
Definition set_halted v s := {| now := now s; tc := tc s; success := success s; ip := ip s; cbp := cbp s; req := req s; dlen := dlen s; reg := reg s; tT := tT s; tR := tR s; seqc := seqc s; sres := sres s; cres := cres s; halted := v; fires := fires s |}.
Definition set_fires v s := {| now := now s; tc := tc s; success := success s; ip := ip s; cbp := cbp s; req := req s; dlen := dlen s; reg := reg s; tT := tT s; tR := tR s; seqc := seqc s; sres := sres s; cres := cres s; halted := halted s; fires := v |}.

Inductive ev :=
  | Resolve (name : list Z) | ConnectCb | DisconnectCb | ReconnectCb (err : Z)
  | Recv (b : list Z) | SentRes (r : Z) | ConnRes (r : Z) | DiscRes (r : Z) | Adv (dt : Z) | Dump.
Inductive out :=
  | CB (a : option (list Z)) | Connect (port t r : Z) (addr : list Z) | Disconnect (t : Z)
  | Sent (r t : Z) (b : list Z) | SentNull (r l t : Z)
  | State (tc_ : Z) (succ pend reqnull : bool) (dl : Z) (ta ra : bool) (ip_ : list Z)
  | Fault | Fuel
  | Hang.                (* the receive callback does not return *)

Definition RETRY_US : Z := RETRY_MS * 1000.
Definition TIMEOUT_US : Z := TIMEOUT_MS * 1000.
Definition REMOTE_PORT : Z := 53.        (* literal in supla_esp_dns__resolve; compared through CONNECT lines *)

Definition arm (d : Z) (s : st) : timer := {| armed := true; due := now s + d; tseq := seqc s + 1 |}.
Definition disarm (t : timer) : timer := {| armed := false; due := due t; tseq := tseq t |}.

(* supla_esp_dns_result *)
Definition result (s : st) : st * list out :=
  if negb (success s) && (tc s <? SERVER_COUNT) then
    (set_seqc (seqc s + 1) (set_tR (arm RETRY_US s) s), [])
  else
    let s1 := set_req None s in
    if cbp s1 then (set_cbp false s1, [CB (if success s then Some (ip s) else None)]) else (s1, []).

(* supla_esp_dns__resolve *)
Definition resolve2 (s : st) : st * list out :=
  let tc' := u8 (tc s + 1) in
  if tc' =? 0 then (set_halted true s, [Fault])      (* dns_server_ip[(0 - 1) % 4] *)
  else
    let s1 := set_ip (zeros ADDR_SIZE) (set_success false s) in
    let s2 := set_seqc (seqc s1 + 1) (set_tT (arm TIMEOUT_US s1) s1) in
    let s3 := set_tc tc' (set_reg true s2) in
    (s3, [Disconnect (now s); Connect REMOTE_PORT (now s) (cres s) (nth (Z.to_nat ((tc' - 1) mod SERVER_COUNT)) SERVERS [])]).

(* supla_esp_dns_resolve *)
Definition resolve (fx : bool) (s : st) (name : list Z) : st * list out :=
  let s1 := set_cbp true (set_req None (set_tR (disarm (tR s)) (set_tT (disarm (tT s)) s))) in
  let s2 := if fx then set_tc SERVER_COUNT (set_success false s1) else s1 in
  let dl := domain_len name in
  if dl <? DOMAIN_MIN then result s2
  else match build_request name with
       | None => (set_halted true s2, [Fault])
       | Some r => resolve2 (set_tc 0 (set_req (Some r) (set_dlen (request_len dl) s2)))
       end.

Definition connect_cb (s : st) : st * list out :=
  let o := match req s with Some b => Sent (sres s) (now s) b | None => SentNull (sres s) (dlen s) (now s) end in
  if sres s =? 0 then (s, [o])
  else let '(s1, o1) := result s in (s1, o :: Disconnect (now s) :: o1).

Definition timeout_cb (s : st) : st * list out :=
  let '(s1, o1) := result s in (s1, Disconnect (now s) :: o1).

Definition recv (s : st) (b : list Z) : st * list out :=
  match parse (dlen s) b with
  | PFault => (set_halted true s, [Fault])
  | PHang => (set_halted true s, [Hang])
  | PResult => result s
  | PIgnore => (s, [])
  | PAddr a => (set_success true (set_ip a s), [Disconnect (now s)])
  end.

(* v_advance: which armed timer with due <= e fires next; Some true = timeout_timer *)
Definition pick (s : st) (e : Z) : option bool :=
  let t := tT s in let r := tR s in
  let tok := armed t && (due t <=? e) in let rok := armed r && (due r <=? e) in
  if tok && rok then Some ((due t <? due r) || ((due t =? due r) && (tseq t <? tseq r)))
  else if tok then Some true else if rok then Some false else None.

Fixpoint adv_loop (fuel : nat) (e : Z) (s : st) : st * list out :=
  match fuel with
  | O => (s, [Fuel])
  | S k =>
    if halted s then (s, []) else
    match pick s e with
    | None => (set_now (Z.max (now s) e) s, [])
    | Some true =>
        let s1 := set_fires (fires s + 1) (set_tT (disarm (tT s)) (set_now (Z.max (now s) (due (tT s))) s)) in
        let '(s2, o) := timeout_cb s1 in
        let '(s3, o') := adv_loop k e s2 in (s3, o ++ o')
    | Some false =>
        let s1 := set_fires (fires s + 1) (set_tR (disarm (tR s)) (set_now (Z.max (now s) (due (tR s))) s)) in
        let '(s2, o) := resolve2 s1 in
        let '(s3, o') := adv_loop k e s2 in (s3, o ++ o')
    end
  end.
Definition ADV_FUEL : nat := 16.

Definition dump (s : st) : out :=
  State (tc s) (success s) (cbp s) (match req s with None => true | _ => false end) (dlen s)
        (armed (tT s)) (armed (tR s)) (ip s).

Definition step (fx : bool) (s : st) (e : ev) : st * list out :=
  if halted s then (s, []) else
  match e with
  | Resolve name => resolve fx s name
  | ConnectCb => if reg s then connect_cb s else (s, [])
  | DisconnectCb => if reg s then result s else (s, [])
  | ReconnectCb _ => (s, [])                      (* no reconnect callback is ever registered *)
  | Recv b => if reg s then recv s b else (s, [])
  | SentRes r => (set_sres r s, [])
  | ConnRes r => (set_cres r s, [])                (* the value the next espconn_connect calls return *)
  | DiscRes _ => (s, [])                           (* the value espconn_disconnect returns: never looked at by the code *)
  | Adv dt => adv_loop ADV_FUEL (now s + Z.max 0 dt) s
  | Dump => (s, [dump s])
  end.

Fixpoint run_from (fx : bool) (s : st) (evs : list ev) : st * list out :=
  match evs with
  | [] => (s, [])
  | e :: r => let '(s1, o1) := step fx s e in
              let '(s2, o2) := run_from fx s1 r in (s2, o1 ++ o2)
  end.

Definition CURRENT_FX : bool := true.
Definition run (evs : list ev) : list out := snd (run_from CURRENT_FX init evs).

(* ---------- specification of an acceptable reply ---------- *)
(* length of the name field at the head of p: up to and including the first 0 byte or the first
   two-byte compression pointer (a byte with both top bits set) *)
Fixpoint name_skip (p : list Z) : option Z :=
  match p with
  | [] => None
  | c :: r => if 192 <=? c then Some 2 else if c =? 0 then Some 1
              else match name_skip r with Some n => Some (n + 1) | None => None end
  end.

(* a reply b to a request of dl bytes from which the address a may be taken *)
Definition valid_reply (dl : Z) (b a : list Z) : Prop :=
  dl <= len b /\
  be16 b 0 = len b - PREFIX_SIZE /\                                   (* consistent length prefix *)
  Z.land (nthz b (PREFIX_SIZE + RCODE_OFF)) RCODE_MASK = RCODE_OK /\  (* response code "no error" *)
  1 <= be16 b (PREFIX_SIZE + OFF_ANCOUNT) /\                          (* at least one answer *)
  exists n, name_skip (drop dl b) = Some n /\                         (* first answer after the echoed question *)
    be16 b (dl + n + OFF_A_TYPE) = TYPE_A_ /\ be16 b (dl + n + OFF_A_CLASS) = CLASS_IN_ /\
    be16 b (dl + n + OFF_A_RDLENGTH) = RDLEN_A /\
    dl + n + ASUFFIX_SIZE + ADDR_SIZE <= len b /\
    a = take ADDR_SIZE (drop (dl + n + ASUFFIX_SIZE) b).

(* RFC 1035: a name is a sequence of labels (a length byte 1..63 followed by that many bytes) ended by a 0 byte
   or by a two-byte compression pointer.  rfc_name p n: such a name, whose label bytes are ordinary characters
   (neither 0 nor >= 192), sits at the head of p and occupies n bytes. *)
Definition plain_byte (c : Z) : Prop := 0 < c < 192.
Inductive rfc_name : list Z -> Z -> Prop :=
  | rfc_end r : rfc_name (0 :: r) 1
  | rfc_ptr c r : 192 <= c -> rfc_name (c :: r) 2
  | rfc_label c lab r n : 0 < c < 64 -> len lab = c -> Forall plain_byte lab -> rfc_name r n ->
                          rfc_name (c :: lab ++ r) (n + c + 1).

(* ---------- measures used by the completion theorems ---------- *)
Definition b2z (b : bool) : Z := if b then 1 else 0.
(* number of timer firings that can still happen *)
Definition mu (s : st) : Z := 2 * (SERVER_COUNT - tc s) + b2z (armed (tT s)).
(* W k: worst-case time from the connect of try k to the last timeout *)
Definition W (k : Z) : Z := (SERVER_COUNT + 1 - k) * TIMEOUT_US + (SERVER_COUNT - k) * RETRY_US.
(* absolute time by which the pending callback is made if no further network callback arrives *)
Definition deadline (s : st) : Z :=
  let k := tc s in
  if armed (tR s) then
    (if armed (tT s) then Z.max (due (tR s)) (due (tT s) + RETRY_US) else due (tR s)) + W (k + 1)
  else if armed (tT s) then
    due (tT s) + (if k <? SERVER_COUNT then RETRY_US + W (k + 1) else 0)
  else now s.

Definition is_cb (o : out) : bool := match o with CB _ => true | _ => false end.
Definition is_resolve (e : ev) : bool := match e with Resolve _ => true | _ => false end.
Definition is_net (e : ev) : bool :=
  match e with ConnectCb | DisconnectCb | Recv _ => true | _ => false end.
Definition cb_count (o : list out) : Z := len (filter is_cb o).
Definition net_count (evs : list ev) : Z := len (filter is_net evs).
Definition ev_ok (e : ev) : Prop :=
  match e with
  | Recv b => len b < 65536       (* the length parameter of the receive callback is an unsigned short *)
  | _ => True
  end.

(* ---------- vocabulary of the theorems ---------- *)
Definition elapsed (e : ev) : Z := match e with Adv dt => Z.max 0 dt | _ => 0 end.
Fixpoint elapsed_all (evs : list ev) : Z := match evs with [] => 0 | e :: r => elapsed e + elapsed_all r end.
Definition no_resolve (evs : list ev) : Prop := Forall (fun e => is_resolve e = false) evs.
Definition res_count (evs : list ev) : Z := len (filter is_resolve evs).
(* the state reached from boot by a history *)
Definition after (pre : list ev) : st := fst (run_from true init pre).
(* the address held in `ip` while `success` is set comes from an acceptable reply received since the last resolve *)
Definition justified (pre : list ev) (a : list Z) : Prop :=
  exists pre1 b mid, pre = pre1 ++ Recv b :: mid /\ no_resolve mid /\
                     reg (after pre1) = true /\ valid_reply (dlen (after pre1)) b a.


(* ---------- wire interface for the harness ---------- *)
Definition ev_of_wire (w : wire) : ev :=
  match w with (k, a, b) =>
    let a0 := hd 0 a in
    if k =? 0 then Resolve b else if k =? 1 then ConnectCb else if k =? 2 then DisconnectCb
    else if k =? 3 then ReconnectCb a0 else if k =? 4 then Recv b else if k =? 5 then SentRes a0
    else if k =? 6 then Adv a0 else if k =? 7 then Dump else if k =? 8 then ConnRes a0 else DiscRes a0
  end.
Definition wire_of_out (o : out) : wire :=
  match o with
  | CB (Some a) => mk 0 [1] a
  | CB None => mk 0 [0] []
  | Connect p t r a => mk 1 [p; t; r] a
  | Disconnect t => mk 2 [t] []
  | Sent r t b => mk 3 [r; t] b
  | SentNull r l t => mk 4 [r; l; t] []
  | State k su pe rn dl ta ra a => mk 5 [k; b2z su; b2z pe; b2z rn; dl; b2z ta; b2z ra] a
  | Fault => mk 6 [] []
  | Fuel => mk 7 [] []
  | Hang => mk 8 [] []
  end.
Definition run_wire (fx : bool) (ws : list wire) : list wire :=
  map wire_of_out (snd (run_from fx init (map ev_of_wire ws))).
Definition main_wire (ws : list wire) : list wire := run_wire CURRENT_FX ws.
