(* C20 — proofs about the model in Model.v.  The generated constants are used only through the
   side conditions collected in [consts_facts] (checked by computation on the generated values). *)
From Coq Require Import List ZArith Lia Bool.
Import ListNotations.
From V Require Import Base.U32 Base.Bytes Base.Iface Gen.DnsConsts C20.Model.
Local Open Scope Z_scope.

(* ---------- side conditions on the generated constants ---------- *)
Record consts_facts : Prop := {
  cf_sc : 0 < SERVER_COUNT < 255;
  cf_fuel : 2 * SERVER_COUNT + 1 < Z.of_nat ADV_FUEL;
  cf_retry : 0 < RETRY_US;
  cf_timeout : 0 < TIMEOUT_US;
  cf_prefix : PREFIX_SIZE = 2;
  cf_hdr : 0 <= HEADER_SIZE /\ 0 <= QSUFFIX_SIZE /\ 0 <= DOMAIN_MIN /\ 0 <= DOMAIN_MAX;
  cf_an : 0 <= OFF_ANCOUNT /\ OFF_ANCOUNT + 2 <= HEADER_SIZE;
  cf_rc : 0 <= RCODE_OFF /\ RCODE_OFF + 1 <= HEADER_SIZE;
  cf_ty : 0 <= OFF_A_TYPE /\ OFF_A_TYPE + 2 <= ASUFFIX_SIZE;
  cf_cl : 0 <= OFF_A_CLASS /\ OFF_A_CLASS + 2 <= ASUFFIX_SIZE;
  cf_rl : 0 <= OFF_A_RDLENGTH /\ OFF_A_RDLENGTH + 2 <= ASUFFIX_SIZE;
  cf_addr : ADDR_SIZE = RDLEN_A /\ 0 < ADDR_SIZE;
  cf_reqlen : len ID_ONE + 10 = HEADER_SIZE /\ QSUFFIX_SIZE = 4;
  cf_idx : 65536 <= SKIP_IDX_MOD       (* the name-skip index is at least as wide as the unsigned short length *)
}.
Lemma consts_ok : consts_facts.
Proof. constructor; vm_compute; repeat split; congruence. Qed.

(* ---------- lists ---------- *)
Lemma nthz_drop (l : list Z) n i : 0 <= n -> 0 <= i -> nthz (drop n l) i = nthz l (n + i).
Proof.
  intros Hn Hi. unfold nthz, drop.
  replace (Z.to_nat (n + i)) with (Z.to_nat n + Z.to_nat i)%nat by lia.
  revert l. induction (Z.to_nat n) as [|k IH]; intros l.
  - reflexivity.
  - destruct l as [|x l]; cbn [skipn Nat.add nth].
    + destruct (Z.to_nat i); reflexivity.
    + apply IH.
Qed.
Lemma drop_cons_nth (l : list Z) a : 0 <= a < len l -> drop a l = nthz l a :: drop (a + 1) l.
Proof.
  intros H. unfold drop, nthz, len in *.
  replace (Z.to_nat (a + 1)) with (S (Z.to_nat a)) by lia.
  assert (Hn : (Z.to_nat a < length l)%nat) by lia. clear H.
  revert l Hn. induction (Z.to_nat a) as [|k IH]; intros l Hn.
  - destruct l; cbn in *; [lia | reflexivity].
  - destruct l as [|x l]; cbn [length] in *; [lia|]. cbn [skipn nth]. apply IH. lia.
Qed.
Lemma len_zeros n : 0 <= n -> len (zeros n) = n.
Proof. intros; unfold len, zeros; rewrite repeat_length; lia. Qed.

Lemma rd_some b i : 0 <= i < len b -> rd b i = Some (nthz b i).
Proof.
  intros H; unfold rd.
  destruct (0 <=? i) eqn:E1; [|apply Z.leb_gt in E1; lia].
  destruct (i <? len b) eqn:E2; [|apply Z.ltb_ge in E2; lia]. reflexivity.
Qed.
Lemma rd16_some b i : 0 <= i -> i + 2 <= len b -> rd16 b i = Some (be16 b i).
Proof. intros; unfold rd16, be16. rewrite !rd_some by lia. reflexivity. Qed.
Lemma rdn_some b i n : 0 <= i -> 0 <= n -> i + n <= len b -> rdn b i n = Some (take n (drop i b)).
Proof.
  intros; unfold rdn.
  destruct (0 <=? i) eqn:E1; [|apply Z.leb_gt in E1; lia].
  destruct (0 <=? n) eqn:E2; [|apply Z.leb_gt in E2; lia].
  destruct (i + n <=? len b) eqn:E3; [|apply Z.leb_gt in E3; lia]. reflexivity.
Qed.
Lemma wr_some b i v : 0 <= i < len b -> exists b', wr b i v = Some b' /\ len b' = len b.
Proof.
  intros H; unfold wr.
  destruct (0 <=? i) eqn:E1; [|apply Z.leb_gt in E1; lia].
  destruct (i <? len b) eqn:E2; [|apply Z.ltb_ge in E2; lia].
  cbn [andb]. eexists; split; [reflexivity|].
  rewrite len_app, len_cons, len_take, len_drop by lia. lia.
Qed.
Lemma wr_many_some vs : forall b i, 0 <= i -> i + len vs <= len b ->
  exists b', wr_many b i vs = Some b' /\ len b' = len b.
Proof.
  induction vs as [|v r IH]; intros b i Hi Hl; cbn [wr_many].
  - eauto.
  - rewrite len_cons in Hl. pose proof (len_nonneg r).
    destruct (wr_some b i v) as [b1 [E1 L1]]; [lia|]. rewrite E1.
    destruct (IH b1 (i + 1)) as [b2 [E2 L2]]; [lia|lia|]. exists b2; split; [exact E2|lia].
Qed.

(* ---------- C20_encoder_bounded ---------- *)
Lemma enc_loop_some nm ln : forall fuel a last dest,
  len dest = ln + 2 -> 0 <= last <= a ->
  exists d e, enc_loop fuel nm ln a last dest = Some (d, e) /\ len d = ln + 2.
Proof.
  induction fuel as [|k IH]; intros a last dest Hd Ha; cbn [enc_loop].
  - eauto.
  - destruct (a <? ln + 1) eqn:Ea; [apply Z.ltb_lt in Ea | eauto].
    destruct ((nthz nm a =? 46) || (nthz nm a =? 0)).
    + destruct (wr_some dest last (a - last)) as [d1 [E1 L1]]; [lia|]. rewrite E1.
      destruct (a - last =? 0); [exists d1, true; split; [reflexivity|lia]|].
      set (vs := take (a - last) (drop last nm)).
      assert (Hvs : len vs <= a - last).
      { unfold vs. rewrite len_take by lia. lia. }
      destruct (wr_many_some vs d1 (last + 1)) as [d2 [E2 L2]]; [lia|lia|]. rewrite E2.
      apply IH; lia.
    + apply IH; lia.
Qed.

Lemma encode_name_some nm ln dest : 0 <= ln -> len dest = ln + 2 ->
  exists d, encode_name nm ln dest = Some d /\ len d = ln + 2.
Proof.
  intros Hln Hd. unfold encode_name. destruct (ln =? 0); [eauto|].
  destruct (enc_loop_some nm ln (Z.to_nat (ln + 1)) 0 0 dest) as [d [e [E L]]]; [lia|lia|].
  rewrite E. destruct e; [eauto|].
  destruct (wr_some d (ln + 1) 0) as [d' [E' L']]; [lia|]. eauto with zarith.
Qed.

Lemma domain_len_range name : 0 <= domain_len name <= DOMAIN_MAX.
Proof.
  destruct consts_ok. unfold domain_len. pose proof (len_nonneg (cstr name)). lia.
Qed.

Theorem C20_encoder_bounded_thm : forall name,
  exists r, build_request name = Some r /\ len r = request_len (domain_len name).
Proof.
  intros name. destruct consts_ok as [? ? ? ? Cp Ch ? ? ? ? ? ? [Cid Cq]].
  pose proof (domain_len_range name) as Hdl.
  unfold build_request.
  destruct (encode_name_some (cstr name) (domain_len name) (zeros (domain_len name + 2))) as [d [E L]];
    [lia | apply len_zeros; lia |].
  rewrite E. eexists; split; [reflexivity|].
  rewrite !len_app. rewrite L. rewrite len_zeros by lia.
  unfold request_len. unfold len at 1 3 4 5; cbn [length]. lia.
Qed.

(* ---------- the reply parser ---------- *)
Lemma be16_drop (b : list Z) n i : 0 <= n -> 0 <= i -> be16 (drop n b) i = be16 b (n + i).
Proof. intros; unfold be16. rewrite !nthz_drop by lia. replace (n + (i + 1)) with (n + i + 1) by lia. reflexivity. Qed.

Lemma name_skip_pos p : forall n, name_skip p = Some n -> 1 <= n.
Proof.
  induction p as [|c r IH]; intros n H; cbn [name_skip] in H; [discriminate|].
  destruct (192 <=? c); [inversion H; lia|]. destruct (c =? 0); [inversion H; lia|].
  destruct (name_skip r) as [m|]; [|discriminate]. inversion H. specialize (IH m eq_refl). lia.
Qed.

Lemma idxw_small z : 0 <= z < 65536 -> idxw z = z.
Proof. intros H. pose proof (cf_idx consts_ok). unfold idxw. apply Z.mod_small. lia. Qed.

(* termination and meaning of the skip loop: needs len < 65535, i.e. no wrap of the index *)
Lemma scan_spec : forall fuel p a, 0 <= a <= len p -> len p + 1 < 65536 -> len p - a <= Z.of_nat fuel ->
  scan fuel p (len p) a = Some (match name_skip (drop a p) with Some n => a + n | None => len p end).
Proof.
  induction fuel as [|k IH]; intros p a Ha Hw Hf; cbn [scan].
  - assert (a = len p) by lia. subst a. rewrite Z.ltb_irrefl. rewrite drop_all by lia. reflexivity.
  - destruct (a <? len p) eqn:E; [apply Z.ltb_lt in E | apply Z.ltb_ge in E].
    + rewrite (drop_cons_nth p a) by lia. cbn [name_skip].
      destruct (192 <=? nthz p a); [rewrite idxw_small by lia; reflexivity|].
      destruct (nthz p a =? 0); [rewrite idxw_small by lia; reflexivity|].
      rewrite idxw_small by lia.
      rewrite IH by lia. destruct (name_skip (drop (a + 1) p)); f_equal; lia.
    + assert (a = len p) by lia. subst a. rewrite drop_all by lia. reflexivity.
Qed.

Lemma valid_reply_functional dl b a a' : valid_reply dl b a -> valid_reply dl b a' -> a = a'.
Proof.
  intros (_ & _ & _ & _ & n & Hn & _ & _ & _ & _ & Ha) (_ & _ & _ & _ & n' & Hn' & _ & _ & _ & _ & Ha').
  assert (n = n') by congruence. subst. reflexivity.
Qed.

Lemma parse_spec dl b : PREFIX_SIZE + HEADER_SIZE <= dl -> len b < 65536 ->
  match parse dl b with
  | PFault | PHang => False
  | PAddr a => valid_reply dl b a
  | _ => forall a, ~ valid_reply dl b a
  end.
Proof.
  intros Hdl Hlen.
  destruct consts_ok as [_ _ _ _ Cp [Ch0 _] [Can0 Can1] [Crc0 Crc1] [Cty0 Cty1] [Ccl0 Ccl1] [Crl0 Crl1] [Cad Cad0] _].
  pose proof (len_nonneg b) as Hl0.
  unfold parse.
  destruct (len b <? dl) eqn:E0; [apply Z.ltb_lt in E0 | apply Z.ltb_ge in E0].
  { intros a (H & _). lia. }
  rewrite rd16_some by lia.
  destruct (be16 b 0 =? len b - PREFIX_SIZE) eqn:E1; cbn [negb];
    [apply Z.eqb_eq in E1 | apply Z.eqb_neq in E1].
  2:{ intros a (_ & H & _). lia. }
  rewrite rd16_some by lia. rewrite rd_some by lia.
  destruct (Z.land (nthz b (PREFIX_SIZE + RCODE_OFF)) RCODE_MASK =? RCODE_OK) eqn:E2; cbn [negb orb];
    [apply Z.eqb_eq in E2 | apply Z.eqb_neq in E2].
  2:{ intros a (_ & _ & H & _). congruence. }
  destruct (be16 b (PREFIX_SIZE + OFF_ANCOUNT) <? 1) eqn:E3; [apply Z.ltb_lt in E3 | apply Z.ltb_ge in E3].
  { intros a (_ & _ & _ & H & _). lia. }
  set (p := drop dl b).
  assert (Lp : len p = len b - dl) by (unfold p; rewrite len_drop by lia; lia).
  rewrite <- Lp.
  replace (Z.to_nat (len p)) with (Z.to_nat (len p - 0)) by (f_equal; lia).
  rewrite scan_spec by lia. cbv beta iota. rewrite drop_0.
  destruct (name_skip p) as [n|] eqn:En.
  2:{ destruct (len p <=? len p + ASUFFIX_SIZE) eqn:E4; [|apply Z.leb_gt in E4; lia].
      intros a (_ & _ & _ & _ & n & Hn & _). fold p in Hn. congruence. }
  pose proof (name_skip_pos p n En) as Hn1.
  replace (0 + n) with n by lia.
  destruct (len p <=? n + ASUFFIX_SIZE) eqn:E4; [apply Z.leb_le in E4 | apply Z.leb_gt in E4].
  { intros a (_ & _ & _ & _ & n' & Hn' & _ & _ & _ & Hb & _). fold p in Hn'.
    assert (n' = n) by congruence. subst n'. lia. }
  rewrite !rd16_some by lia.
  assert (Hty : be16 p (n + OFF_A_TYPE) = be16 b (dl + n + OFF_A_TYPE)).
  { unfold p. rewrite be16_drop by lia. f_equal; lia. }
  assert (Hcl : be16 p (n + OFF_A_CLASS) = be16 b (dl + n + OFF_A_CLASS)).
  { unfold p. rewrite be16_drop by lia. f_equal; lia. }
  assert (Hrl : be16 p (n + OFF_A_RDLENGTH) = be16 b (dl + n + OFF_A_RDLENGTH)).
  { unfold p. rewrite be16_drop by lia. f_equal; lia. }
  rewrite Hty, Hcl, Hrl.
  destruct (be16 b (dl + n + OFF_A_TYPE) =? TYPE_A_) eqn:E5; cbn [negb orb];
    [apply Z.eqb_eq in E5 | apply Z.eqb_neq in E5].
  2:{ intros a (_ & _ & _ & _ & n' & Hn' & H & _). fold p in Hn'.
      assert (n' = n) by congruence. subst n'. congruence. }
  destruct (be16 b (dl + n + OFF_A_CLASS) =? CLASS_IN_) eqn:E6; cbn [negb orb];
    [apply Z.eqb_eq in E6 | apply Z.eqb_neq in E6].
  2:{ intros a (_ & _ & _ & _ & n' & Hn' & _ & H & _). fold p in Hn'.
      assert (n' = n) by congruence. subst n'. congruence. }
  destruct (be16 b (dl + n + OFF_A_RDLENGTH) =? RDLEN_A) eqn:E7; cbn [negb orb];
    [apply Z.eqb_eq in E7 | apply Z.eqb_neq in E7].
  2:{ intros a (_ & _ & _ & _ & n' & Hn' & _ & _ & H & _). fold p in Hn'.
      assert (n' = n) by congruence. subst n'. congruence. }
  rewrite E7.
  destruct (len p <? n + ASUFFIX_SIZE + RDLEN_A) eqn:E8; [apply Z.ltb_lt in E8 | apply Z.ltb_ge in E8].
  { intros a (_ & _ & _ & _ & n' & Hn' & _ & _ & _ & H & _). fold p in Hn'.
    assert (n' = n) by congruence. subst n'. lia. }
  rewrite rdn_some by lia.
  unfold p. rewrite drop_drop by lia.
  replace (n + ASUFFIX_SIZE + dl) with (dl + n + ASUFFIX_SIZE) by lia.
  repeat split; try assumption; try lia.
  exists n. fold p. repeat split; try assumption; lia.
Qed.

Lemma parse_addr_iff dl b a : PREFIX_SIZE + HEADER_SIZE <= dl -> len b < 65536 ->
  (parse dl b = PAddr a <-> valid_reply dl b a).
Proof.
  intros Hdl Hlen. pose proof (parse_spec dl b Hdl Hlen) as H. split.
  - intros E. rewrite E in H. exact H.
  - intros V. destruct (parse dl b) as [| | | |a'].
    + contradiction. + contradiction. + exfalso; exact (H a V). + exfalso; exact (H a V).
    + f_equal. apply (valid_reply_functional dl b); assumption.
Qed.

Lemma parse_nofault dl b : PREFIX_SIZE + HEADER_SIZE <= dl -> len b < 65536 -> parse dl b <> PFault.
Proof. intros Hdl Hlen E. pose proof (parse_spec dl b Hdl Hlen) as H. rewrite E in H. exact H. Qed.

(* ---------- invariants of the resolver ---------- *)
Ltac sim := cbn [now tc success ip cbp req dlen reg tT tR seqc sres cres halted fires
                 set_now set_tc set_success set_ip set_cbp set_req set_dlen set_reg set_tT set_tR set_seqc
                 set_sres set_cres set_halted set_fires arm disarm armed due tseq fst snd] in *.

Record WInv (s : st) : Prop := {
  wi_tc : 0 <= tc s <= SERVER_COUNT;
  wi_R : armed (tR s) = true -> tc s < SERVER_COUNT /\ reg s = true;
  wi_T : armed (tT s) = true -> reg s = true;
  wi_dl : reg s = true -> PREFIX_SIZE + HEADER_SIZE <= dlen s;
  wi_dueT : armed (tT s) = true -> now s <= due (tT s);
  wi_dueR : armed (tR s) = true -> now s <= due (tR s);
  wi_h : halted s = false }.
(* progress: while the callback is owed, a timer is armed *)
Record Inv (s : st) : Prop := {
  i_w : WInv s;
  i_prog : cbp s = true -> armed (tT s) = true \/ armed (tR s) = true }.

Definition clean (o : list out) : Prop := ~ In Fault o /\ ~ In Fuel o /\ ~ In Hang o.
Definition addr_from (s : st) (o : list out) : Prop :=
  forall a, In (CB (Some a)) o -> success s = true /\ a = ip s.
Definition same_core (s s' : st) : Prop :=
  now s' = now s /\ tc s' = tc s /\ success s' = success s /\ ip s' = ip s /\ dlen s' = dlen s /\
  reg s' = reg s /\ tT s' = tT s /\ fires s' = fires s /\ sres s' = sres s.

Lemma clean_nil : clean []. Proof. repeat split; intros []. Qed.
Lemma clean_app a b : clean a -> clean b -> clean (a ++ b).
Proof. intros (A1 & A2 & A3) (B1 & B2 & B3); repeat split; intros H; apply in_app_or in H; tauto. Qed.
Lemma clean_cons_ne x o : x <> Fault -> x <> Fuel -> x <> Hang -> clean o -> clean (x :: o).
Proof. intros N1 N2 N3 (A1 & A2 & A3); repeat split; intros [H|H]; auto. Qed.
Lemma cb_count_app a b : cb_count (a ++ b) = cb_count a + cb_count b.
Proof. unfold cb_count. rewrite filter_app, len_app. reflexivity. Qed.
Lemma cb_count_nil : cb_count [] = 0. Proof. reflexivity. Qed.

Lemma W_step k : W k = TIMEOUT_US + RETRY_US + W (k + 1).
Proof. unfold W. ring. Qed.
Lemma W_last : W SERVER_COUNT = TIMEOUT_US.
Proof. unfold W. ring. Qed.
Lemma W_nonneg k : k <= SERVER_COUNT -> 0 <= W k.
Proof.
  intros H. destruct consts_ok as [_ _ Cr Ct]. unfold W.
  apply Z.add_nonneg_nonneg; apply Z.mul_nonneg_nonneg; lia.
Qed.

(* supla_esp_dns_result *)
Lemma result_facts s : WInv s -> (reg s = true \/ SERVER_COUNT <= tc s) ->
  let s' := fst (result s) in let o := snd (result s) in
  Inv s' /\ cb_count o + b2z (cbp s') = b2z (cbp s) /\ clean o /\ addr_from s o /\ same_core s s' /\
  (cbp s' = true -> cbp s = true /\ success s = false /\ tc s < SERVER_COUNT /\
                    armed (tR s') = true /\ due (tR s') = now s + RETRY_US).
Proof.
  intros [Htc HR HT Hdl HdT HdR Hh] Hctx. unfold result.
  destruct consts_ok as [_ _ Cr _].
  destruct (negb (success s) && (tc s <? SERVER_COUNT)) eqn:E.
  - apply andb_true_iff in E. destruct E as [E1 E2]. apply negb_true_iff in E1. apply Z.ltb_lt in E2.
    sim. split; [|split; [|split; [|split; [|split]]]].
    + constructor; [constructor|]; sim; auto.
      * intros _. split; [lia|]. destruct Hctx; [assumption|lia].
      * intros _. lia.
    + rewrite cb_count_nil. lia.
    + apply clean_nil.
    + intros a [].
    + unfold same_core; sim. tauto.
    + intros Hc. repeat split; auto.
  - sim. destruct (cbp s) eqn:Ec; sim.
    + split; [|split; [|split; [|split; [|split]]]].
      * constructor; [constructor|]; sim; auto. discriminate.
      * reflexivity.
      * apply clean_cons_ne; try discriminate; apply clean_nil.
      * intros a [H|[]]. destruct (success s); [inversion H; auto | discriminate].
      * unfold same_core; sim. tauto.
      * discriminate.
    + split; [|split; [|split; [|split; [|split]]]].
      * constructor; [constructor|]; sim; auto. rewrite Ec. discriminate.
      * rewrite Ec. reflexivity.
      * apply clean_nil.
      * intros a [].
      * unfold same_core; sim. tauto.
      * rewrite Ec. discriminate.
Qed.

Lemma b2z_range b : 0 <= b2z b <= 1. Proof. destruct b; cbn; lia. Qed.

Lemma mu_same s s' : tT s' = tT s -> tc s' = tc s -> mu s' = mu s.
Proof. intros H1 H2; unfold mu; rewrite H1, H2; reflexivity. Qed.

(* re-arming the retry timer moves the deadline only when the timeout timer is not armed *)
Lemma deadline_rearm s s' : WInv s -> tc s < SERVER_COUNT -> tT s' = tT s -> tc s' = tc s ->
  armed (tR s') = true -> due (tR s') = now s + RETRY_US ->
  (armed (tT s) = true \/ armed (tR s) = true) ->
  deadline s' <= deadline s + (if armed (tT s) then 0 else RETRY_US).
Proof.
  intros [Htc HR HT Hdl HdT HdR Hh] Hk E1 E2 E3 E4 Harm.
  destruct consts_ok as [_ _ Cr Ct].
  unfold deadline. rewrite E1, E2, E3, E4. set (w := W (tc s + 1)).
  destruct (armed (tT s)) eqn:AT; destruct (armed (tR s)) eqn:AR.
  - specialize (HdT eq_refl). specialize (HdR eq_refl). lia.
  - specialize (HdT eq_refl). destruct (tc s <? SERVER_COUNT) eqn:E; [|apply Z.ltb_ge in E; lia]. fold w. lia.
  - specialize (HdR eq_refl). lia.
  - destruct Harm; discriminate.
Qed.

(* supla_esp_dns__resolve *)
Lemma resolve2_facts s : 0 <= tc s < SERVER_COUNT -> halted s = false -> armed (tR s) = false ->
  PREFIX_SIZE + HEADER_SIZE <= dlen s ->
  let s' := fst (resolve2 s) in let o := snd (resolve2 s) in
  Inv s' /\ cb_count o = 0 /\ clean o /\ (forall a, ~ In (CB a) o) /\
  cbp s' = cbp s /\ success s' = false /\ dlen s' = dlen s /\ now s' = now s /\ fires s' = fires s /\
  sres s' = sres s /\ tc s' = tc s + 1 /\ armed (tT s') = true /\ due (tT s') = now s + TIMEOUT_US /\
  armed (tR s') = false.
Proof.
  intros Htc Hh HR Hdl. destruct consts_ok as [Csc _ Cr Ct].
  unfold resolve2. rewrite u8_small by lia.
  destruct (tc s + 1 =? 0) eqn:E; [apply Z.eqb_eq in E; lia|]. sim.
  split; [|split; [|split; [|split]]].
  - constructor; [constructor|]; sim; auto; try lia; try (rewrite HR; discriminate).
  - reflexivity.
  - repeat (apply clean_cons_ne; try discriminate). apply clean_nil.
  - intros a [H|[H|[]]]; discriminate.
  - repeat split; auto.
Qed.

(* v_advance: the timer chosen is armed, due, and the earliest *)
Lemma pick_T s e : pick s e = Some true ->
  armed (tT s) = true /\ due (tT s) <= e /\ (armed (tR s) = true -> due (tT s) <= due (tR s)).
Proof.
  unfold pick. destruct (armed (tT s)); destruct (armed (tR s)); cbn [andb];
  destruct (due (tT s) <=? e) eqn:E1; destruct (due (tR s) <=? e) eqn:E2; cbn [andb]; try discriminate;
  try apply Z.leb_le in E1; try apply Z.leb_le in E2; try apply Z.leb_gt in E1; try apply Z.leb_gt in E2;
  intros H; repeat split; auto; try lia; try discriminate.
  inversion H as [H1]. intros _.
  destruct (due (tT s) <? due (tR s)) eqn:E3; [apply Z.ltb_lt in E3; lia|].
  destruct (due (tT s) =? due (tR s)) eqn:E4; [apply Z.eqb_eq in E4; lia|]. discriminate.
Qed.
Lemma pick_R s e : pick s e = Some false ->
  armed (tR s) = true /\ due (tR s) <= e /\ (armed (tT s) = true -> due (tR s) <= due (tT s)).
Proof.
  unfold pick. destruct (armed (tT s)); destruct (armed (tR s)); cbn [andb];
  destruct (due (tT s) <=? e) eqn:E1; destruct (due (tR s) <=? e) eqn:E2; cbn [andb]; try discriminate;
  try apply Z.leb_le in E1; try apply Z.leb_le in E2; try apply Z.leb_gt in E1; try apply Z.leb_gt in E2;
  intros H; repeat split; auto; try lia; try discriminate.
  inversion H as [H1]. intros _.
  destruct (due (tT s) <? due (tR s)) eqn:E3; [discriminate|apply Z.ltb_ge in E3; lia].
Qed.
Lemma pick_None s e : pick s e = None ->
  (armed (tT s) = true -> e < due (tT s)) /\ (armed (tR s) = true -> e < due (tR s)).
Proof.
  unfold pick. destruct (armed (tT s)); destruct (armed (tR s)); cbn [andb];
  destruct (due (tT s) <=? e) eqn:E1; destruct (due (tR s) <=? e) eqn:E2; cbn [andb]; try discriminate;
  try apply Z.leb_le in E1; try apply Z.leb_le in E2; try apply Z.leb_gt in E1; try apply Z.leb_gt in E2;
  intros H; split; intros; try lia; try discriminate.
Qed.

(* ---------- what a transition guarantees ---------- *)
Record Tr (extra : Z) (s s' : st) (o : list out) : Prop := {
  tr_inv : Inv s';
  tr_cons : cb_count o + b2z (cbp s') = b2z (cbp s);
  tr_clean : clean o;
  tr_addr : addr_from s o;
  tr_dlen : dlen s' = dlen s;
  tr_now : now s <= now s';
  tr_pend : cbp s' = true ->
            cbp s = true /\ fires s' + mu s' <= fires s + mu s /\ deadline s' <= deadline s + extra }.
Definition keeps_addr (s s' : st) : Prop := success s' = true -> success s = true /\ ip s' = ip s.

Lemma Tr_refl extra s : Inv s -> 0 <= extra -> Tr extra s s [].
Proof.
  intros I He. constructor.
  - exact I.
  - rewrite cb_count_nil; lia.
  - apply clean_nil.
  - intros a [].
  - reflexivity.
  - lia.
  - intros H; repeat split; auto; lia.
Qed.

Lemma result_Tr s : Inv s -> reg s = true ->
  Tr RETRY_US s (fst (result s)) (snd (result s)) /\ keeps_addr s (fst (result s)).
Proof.
  intros [Hw Hp] Hreg. destruct consts_ok as [_ _ Cr _].
  destruct (result_facts s Hw (or_introl Hreg)) as (I' & Hc & Hcl & Ha & Hs & Hpend).
  destruct Hs as (S1 & S2 & S3 & S4 & S5 & S6 & S7 & S8 & S9).
  split.
  - constructor; auto; try lia.
    intros Hc'. destruct (Hpend Hc') as (P1 & P2 & P3 & P4 & P5).
    split; [assumption|]. split.
    + rewrite S8, (mu_same s _ S7 S2). lia.
    + pose proof (deadline_rearm s _ Hw P3 S7 S2 P4 P5 (Hp P1)) as D.
      destruct (armed (tT s)); lia.
  - intros H. rewrite S3 in H. rewrite S4. auto.
Qed.

(* the timeout timer fires *)
Lemma timeout_fire s : Inv s -> armed (tT s) = true ->
  (armed (tR s) = true -> due (tT s) <= due (tR s)) ->
  let s1 := set_fires (fires s + 1) (set_tT (disarm (tT s)) (set_now (Z.max (now s) (due (tT s))) s)) in
  let s2 := fst (timeout_cb s1) in let o := snd (timeout_cb s1) in
  Tr 0 s s2 o /\ keeps_addr s s2 /\ now s2 = due (tT s) /\ mu s2 < mu s /\ sres s2 = sres s.
Proof.
  intros [Hw Hp] AT Hord. destruct Hw as [Htc HR HT Hdl HdT HdR Hh].
  destruct consts_ok as [_ _ Cr Ct].
  specialize (HdT AT). pose proof (HT AT) as Hreg.
  intros s1.
  assert (W1 : WInv s1).
  { constructor; unfold s1; sim; auto; try discriminate. intros AR. specialize (Hord AR). lia. }
  assert (N1 : now s1 = due (tT s)) by (unfold s1; sim; lia).
  destruct (result_facts s1 W1 (or_introl Hreg)) as (I' & Hc & Hcl & Ha & Hs & Hpend).
  destruct Hs as (S1 & S2 & S3 & S4 & S5 & S6 & S7 & S8 & S9).
  unfold timeout_cb. destruct (result s1) as [s2 o1] eqn:Er. sim.
  assert (M : mu s2 = mu s - 1).
  { unfold mu. rewrite S7, S2. unfold s1; sim. rewrite AT. cbn [b2z]. lia. }
  split; [|split; [|split; [|split]]].
  - constructor.
    + exact I'.
    + change (Disconnect (now s1) :: o1) with ([Disconnect (now s1)] ++ o1).
      rewrite cb_count_app. unfold cb_count at 1; cbn [filter is_cb len length]. exact Hc.
    + apply clean_cons_ne; try discriminate; exact Hcl.
    + intros a [H|H]; [discriminate|]. apply (Ha a H).
    + exact S5.
    + lia.
    + intros Hc'. destruct (Hpend Hc') as (P1 & P2 & P3 & P4 & P5).
      split; [exact P1|]. split.
      * rewrite S8, M. unfold s1; sim. lia.
      * assert (K1 : tc s1 = tc s) by reflexivity.
        assert (T1 : armed (tT s1) = false) by reflexivity.
        unfold deadline. rewrite P4, P5, S7, S2, K1, N1, T1, AT.
        set (w := W (tc s + 1)).
        destruct (armed (tR s)) eqn:AR.
        -- specialize (Hord eq_refl). lia.
        -- destruct (tc s <? SERVER_COUNT) eqn:E; [fold w; lia | apply Z.ltb_ge in E; lia].
  - intros H. rewrite S3 in H. rewrite S4. auto.
  - lia.
  - lia.
  - exact S9.
Qed.

(* the retry timer fires *)
Lemma retry_fire s : Inv s -> armed (tR s) = true ->
  let s1 := set_fires (fires s + 1) (set_tR (disarm (tR s)) (set_now (Z.max (now s) (due (tR s))) s)) in
  let s2 := fst (resolve2 s1) in let o := snd (resolve2 s1) in
  Tr 0 s s2 o /\ success s2 = false /\ now s2 = due (tR s) /\ mu s2 < mu s /\ sres s2 = sres s.
Proof.
  intros [Hw Hp] AR. destruct Hw as [Htc HR HT Hdl HdT HdR Hh].
  destruct consts_ok as [_ _ Cr Ct].
  destruct (HR AR) as [Hk Hreg]. specialize (HdR AR). specialize (Hdl Hreg).
  intros s1.
  assert (K1 : tc s1 = tc s) by reflexivity.
  assert (N1 : now s1 = due (tR s)) by (unfold s1; sim; lia).
  assert (F1 : fires s1 = fires s + 1) by reflexivity.
  assert (C1 : cbp s1 = cbp s) by reflexivity.
  assert (D1 : dlen s1 = dlen s) by reflexivity.
  assert (R1 : sres s1 = sres s) by reflexivity.
  destruct (resolve2_facts s1) as (I' & Hc & Hcl & Hnocb & Q1 & Q2 & Q3 & Q4 & Q5 & Q6 & Q7 & Q8 & Q9 & Q10);
    try (unfold s1; sim; auto; lia).
  destruct (resolve2 s1) as [s2 o] eqn:Er. sim.
  assert (M : mu s2 <= mu s - 1).
  { unfold mu. rewrite Q7, Q8, K1. cbn [b2z]. pose proof (b2z_range (armed (tT s))). lia. }
  split; [|split; [|split; [|split]]].
  - constructor.
    + exact I'.
    + rewrite Hc, Q1, C1. lia.
    + exact Hcl.
    + intros a H. exfalso. exact (Hnocb _ H).
    + rewrite Q3. exact D1.
    + lia.
    + intros Hc'. split; [congruence|]. split; [lia|].
      unfold deadline. rewrite Q10, Q8, Q9, Q7, K1, N1, AR.
      assert (E : TIMEOUT_US + (if tc s + 1 <? SERVER_COUNT then RETRY_US + W (tc s + 1 + 1) else 0) = W (tc s + 1)).
      { destruct (tc s + 1 <? SERVER_COUNT) eqn:E; [apply Z.ltb_lt in E | apply Z.ltb_ge in E].
        - rewrite (W_step (tc s + 1)). lia.
        - replace (tc s + 1) with SERVER_COUNT by lia. rewrite W_last. lia. }
      destruct (armed (tT s)); lia.
  - exact Q2.
  - lia.
  - lia.
  - congruence.
Qed.

Lemma Tr_trans x y s s2 s3 o o' : Tr x s s2 o -> keeps_addr s s2 -> Tr y s2 s3 o' -> Tr (x + y) s s3 (o ++ o').
Proof.
  intros [A1 A2 A3 A4 A5 A6 A7] K [B1 B2 B3 B4 B5 B6 B7]. constructor.
  - exact B1.
  - rewrite cb_count_app. lia.
  - apply clean_app; assumption.
  - intros a H. apply in_app_or in H. destruct H as [H|H]; [exact (A4 a H)|].
    destruct (B4 a H) as [H1 H2]. destruct (K H1) as [H3 H4]. split; congruence.
  - congruence.
  - lia.
  - intros H. destruct (B7 H) as (P1 & P2 & P3). destruct (A7 P1) as (P4 & P5 & P6).
    split; [assumption|]. split; lia.
Qed.

Lemma mu_nonneg s : WInv s -> 0 <= mu s.
Proof. intros [Htc _ _ _ _ _ _]. unfold mu. pose proof (b2z_range (armed (tT s))). lia. Qed.

(* v_advance up to the absolute time e *)
Lemma adv_loop_facts : forall fuel e s, Inv s -> mu s < Z.of_nat fuel -> now s <= e ->
  let s' := fst (adv_loop fuel e s) in let o := snd (adv_loop fuel e s) in
  Tr 0 s s' o /\ keeps_addr s s' /\ now s' = e /\ sres s' = sres s.
Proof.
  induction fuel as [|k IH]; intros e s I Hmu He.
  - pose proof (mu_nonneg s (i_w s I)). cbn in Hmu. lia.
  - cbn [adv_loop]. rewrite (wi_h s (i_w s I)).
    destruct (pick s e) as [[|]|] eqn:Ep.
    + destruct (pick_T s e Ep) as (AT & Hd & Hord).
      destruct (timeout_fire s I AT Hord) as (T1 & K1 & N1 & M1 & R1).
      destruct (timeout_cb _) as [s2 o] eqn:E1. sim.
      destruct (IH e s2 (tr_inv _ _ _ _ T1)) as (T2 & K2 & N2 & R2); [lia|lia|].
      destruct (adv_loop k e s2) as [s3 o'] eqn:E2. sim.
      split; [|split; [|split]].
      * change 0 with (0 + 0). eapply Tr_trans; eassumption.
      * intros H. destruct (K2 H) as [H1 H2]. destruct (K1 H1) as [H3 H4]. split; congruence.
      * exact N2.
      * congruence.
    + destruct (pick_R s e Ep) as (AR & Hd & Hord).
      destruct (retry_fire s I AR) as (T1 & K1 & N1 & M1 & R1).
      destruct (resolve2 _) as [s2 o] eqn:E1. sim.
      destruct (IH e s2 (tr_inv _ _ _ _ T1)) as (T2 & K2 & N2 & R2); [lia|lia|].
      destruct (adv_loop k e s2) as [s3 o'] eqn:E2. sim.
      assert (KA : keeps_addr s s2) by (intros H; congruence).
      split; [|split; [|split]].
      * change 0 with (0 + 0). eapply Tr_trans; eassumption.
      * intros H. destruct (K2 H) as [H1 H2]. congruence.
      * exact N2.
      * congruence.
    + destruct (pick_None s e Ep) as (HT & HR). destruct I as [Hw Hp].
      pose proof Hw as Hw0. destruct Hw as [Htc HR0 HT0 Hdl HdT HdR Hh]. sim.
      replace (Z.max (now s) e) with e by lia.
      split; [|split; [|split]]; sim; auto.
      * constructor; sim.
        -- constructor; [constructor|]; sim; auto.
           ++ intros A. specialize (HT A). lia.
           ++ intros A. specialize (HR A). lia.
        -- rewrite cb_count_nil. lia.
        -- apply clean_nil.
        -- intros a [].
        -- reflexivity.
        -- exact He.
        -- intros Hc. split; [exact Hc|]. split.
           ++ unfold mu; sim. lia.
           ++ unfold deadline; sim. destruct (Hp Hc) as [A|A]; rewrite A; [destruct (armed (tR s))|]; lia.
      * intros H. auto.
Qed.

(* ---------- single events ---------- *)
Definition plain (x : out) : Prop := is_cb x = false /\ x <> Fault /\ x <> Fuel /\ x <> Hang.

Lemma Tr_cons e s s' x o : plain x -> Tr e s s' o -> Tr e s s' (x :: o).
Proof.
  intros (P1 & P2 & P3 & P4) [A1 A2 A3 A4 A5 A6 A7]. constructor; auto.
  - change (x :: o) with ([x] ++ o). rewrite cb_count_app. unfold cb_count at 1. cbn [filter]. rewrite P1. exact A2.
  - apply clean_cons_ne; assumption.
  - intros a [H|H]; [subst x; discriminate | exact (A4 a H)].
Qed.

Lemma Tr_weaken e e' s s' o : e <= e' -> Tr e s s' o -> Tr e' s s' o.
Proof.
  intros He [A1 A2 A3 A4 A5 A6 A7]. constructor; auto.
  intros H. destruct (A7 H) as (P1 & P2 & P3). repeat split; auto; lia.
Qed.

Lemma recv_facts s b : Inv s -> reg s = true -> len b < 65536 ->
  let s' := fst (recv s b) in let o := snd (recv s b) in
  Tr RETRY_US s s' o /\ now s' = now s /\ sres s' = sres s /\
  (keeps_addr s s' \/ (success s' = true /\ valid_reply (dlen s) b (ip s'))) /\
  (forall a, valid_reply (dlen s) b a -> success s' = true /\ ip s' = a /\ o = [Disconnect (now s)]).
Proof.
  intros I Hreg Hlen. destruct consts_ok as [_ _ Cr _].
  pose proof (wi_dl s (i_w s I) Hreg) as Hdl.
  pose proof (parse_spec (dlen s) b Hdl Hlen) as Hp.
  unfold recv. destruct (parse (dlen s) b) as [| | | |a] eqn:Ep.
  - contradiction.
  - contradiction.
  - destruct (result_Tr s I Hreg) as [T K].
    destruct (result_facts s (i_w s I) (or_introl Hreg)) as (_ & _ & _ & _ & Hs & _).
    destruct Hs as (S1 & S2 & S3 & S4 & S5 & S6 & S7 & S8 & S9).
    destruct (result s) as [s' o]. sim.
    split; [exact T|]. split; [exact S1|]. split; [exact S9|]. split; [left; exact K|].
    intros a V. exfalso. exact (Hp a V).
  - sim. split; [apply Tr_refl; [exact I|lia]|]. split; [reflexivity|]. split; [reflexivity|].
    split; [left; intros H; auto|]. intros a V. exfalso. exact (Hp a V).
  - sim. destruct I as [Hw Hprog]. pose proof Hw as Hw0. destruct Hw as [Htc HR HT Hdl0 HdT HdR Hh].
    split; [|split; [reflexivity|split; [reflexivity|split]]].
    + constructor; sim.
      * constructor; [constructor|]; sim; auto.
      * reflexivity.
      * apply clean_cons_ne; try discriminate; apply clean_nil.
      * intros a0 [H|[]]; discriminate.
      * reflexivity.
      * lia.
      * intros Hc. split; [exact Hc|]. unfold mu, deadline; sim. split; lia.
    + right. split; [reflexivity|exact Hp].
    + intros a0 V. rewrite (valid_reply_functional _ _ _ _ V Hp). auto.
Qed.


Lemma step_facts s e : Inv s -> ev_ok e -> is_resolve e = false ->
  let s' := fst (step true s e) in let o := snd (step true s e) in
  Tr (if is_net e then RETRY_US else 0) s s' o /\ now s' = now s + elapsed e /\
  (keeps_addr s s' \/ exists b, e = Recv b /\ reg s = true /\ success s' = true /\ valid_reply (dlen s) b (ip s')).
Proof.
  intros I Hok Hnr. destruct consts_ok as [Csc Cf Cr _].
  unfold step. rewrite (wi_h s (i_w s I)).
  destruct e as [name| | |err|b|r|r|r|dt|]; cbn [is_resolve is_net elapsed] in *; try discriminate.
  - (* ConnectCb *)
    destruct (reg s) eqn:Hreg.
    2:{ sim. split; [apply Tr_refl; [exact I|lia]|]. split; [lia|]. left; intros H; auto. }
    unfold connect_cb.
    set (x := match req s with Some b => Sent (sres s) (now s) b | None => SentNull (sres s) (dlen s) (now s) end).
    assert (Px : plain x) by (unfold x, plain; destruct (req s); cbn; repeat split; discriminate).
    destruct (sres s =? 0).
    + sim. split; [apply Tr_cons; [exact Px|apply Tr_refl; [exact I|lia]]|]. split; [lia|]. left; intros H; auto.
    + destruct (result_Tr s I Hreg) as [T K].
      destruct (result_facts s (i_w s I) (or_introl Hreg)) as (_ & _ & _ & _ & Hs & _).
      destruct Hs as (S1 & _).
      destruct (result s) as [s' o]. sim.
      split; [apply Tr_cons; [exact Px|apply Tr_cons; [|exact T]]|].
      * unfold plain; cbn; repeat split; discriminate.
      * split; [lia|]. left; exact K.
  - (* DisconnectCb *)
    destruct (reg s) eqn:Hreg.
    2:{ sim. split; [apply Tr_refl; [exact I|lia]|]. split; [lia|]. left; intros H; auto. }
    destruct (result_Tr s I Hreg) as [T K].
    destruct (result_facts s (i_w s I) (or_introl Hreg)) as (_ & _ & _ & _ & Hs & _).
    destruct Hs as (S1 & _).
    destruct (result s) as [s' o]. sim. split; [exact T|]. split; [lia|]. left; exact K.
  - (* ReconnectCb *)
    sim. split; [apply Tr_refl; [exact I|lia]|]. split; [lia|]. left; intros H; auto.
  - (* Recv *)
    destruct (reg s) eqn:Hreg.
    2:{ sim. split; [apply Tr_refl; [exact I|lia]|]. split; [lia|]. left; intros H; auto. }
    pose proof Hok as Hlen. cbn [ev_ok] in Hlen.
    destruct (recv_facts s b I Hreg Hlen) as (T & N & _ & K & _).
    destruct (recv s b) as [s' o]. sim. split; [exact T|]. split; [lia|].
    destruct K as [K|[K1 K2]]; [left; exact K|]. right. exists b. auto.
  - (* SentRes *)
    sim. destruct I as [Hw Hprog]. destruct Hw as [Htc HR HT Hdl0 HdT HdR Hh].
    split; [|split; [lia|left; intros H; auto]].
    constructor; sim.
    + constructor; [constructor|]; sim; auto.
    + rewrite cb_count_nil; lia.
    + apply clean_nil.
    + intros a [].
    + reflexivity.
    + lia.
    + intros Hc. split; [exact Hc|]. unfold mu, deadline; sim. split; lia.
  - (* ConnRes *)
    sim. destruct I as [Hw Hprog]. destruct Hw as [Htc HR HT Hdl0 HdT HdR Hh].
    split; [|split; [lia|left; intros H; auto]].
    constructor; sim.
    + constructor; [constructor|]; sim; auto.
    + rewrite cb_count_nil; lia.
    + apply clean_nil.
    + intros a [].
    + reflexivity.
    + lia.
    + intros Hc. split; [exact Hc|]. unfold mu, deadline; sim. split; lia.
  - (* DiscRes *)
    sim. split; [apply Tr_refl; [exact I|lia]|]. split; [lia|]. left; intros H; auto.
  - (* Adv *)
    assert (Hmu : mu s < Z.of_nat ADV_FUEL).
    { unfold mu. pose proof (wi_tc s (i_w s I)). pose proof (b2z_range (armed (tT s))). lia. }
    destruct (adv_loop_facts ADV_FUEL (now s + Z.max 0 dt) s I Hmu) as (T & K & N & _); [lia|].
    destruct (adv_loop ADV_FUEL (now s + Z.max 0 dt) s) as [s' o]. sim.
    split; [exact T|]. split; [exact N|]. left; exact K.
  - (* Dump *)
    sim. split; [|split; [lia|left; intros H; auto]].
    apply Tr_cons; [unfold plain, dump; cbn; repeat split; discriminate|]. apply Tr_refl; [exact I|lia].
Qed.

(* supla_esp_dns_resolve (with the repair) *)
Lemma resolve_facts s name : Inv s ->
  let s' := fst (resolve true s name) in let o := snd (resolve true s name) in
  Inv s' /\ cb_count o + b2z (cbp s') = 1 /\ clean o /\ (forall a, ~ In (CB (Some a)) o) /\
  success s' = false /\ now s' = now s /\
  (cbp s' = true -> fires s' = fires s /\ mu s' = 2 * SERVER_COUNT - 1 /\ deadline s' = now s + W 1 /\
                    DOMAIN_MIN <= domain_len name /\ dlen s' = request_len (domain_len name)) /\
  (domain_len name < DOMAIN_MIN -> o = [CB None] /\ cbp s' = false).
Proof.
  intros [Hw Hprog]. destruct Hw as [Htc HR HT Hdl HdT HdR Hh].
  destruct consts_ok as [Csc _ Cr Ct Cp [Ch0 [Cq0 _]] _ _ _ _ _ _ _].
  unfold resolve.
  set (s2 := set_tc SERVER_COUNT (set_success false (set_cbp true (set_req None
               (set_tR (disarm (tR s)) (set_tT (disarm (tT s)) s)))))).
  assert (W2 : WInv s2) by (constructor; unfold s2; sim; auto; try discriminate; lia).
  destruct (domain_len name <? DOMAIN_MIN) eqn:Ed; [apply Z.ltb_lt in Ed | apply Z.ltb_ge in Ed].
  - destruct (result_facts s2 W2) as (I' & Hc & Hcl & Ha & Hs & Hpend); [right; unfold s2; sim; lia|].
    destruct Hs as (S1 & S2 & S3 & S4 & S5 & S6 & S7 & S8 & S9).
    assert (Hnp : cbp (fst (result s2)) = false).
    { destruct (cbp (fst (result s2))) eqn:E; [|reflexivity].
      destruct (Hpend eq_refl) as (_ & _ & P3 & _). unfold s2 in P3; sim. lia. }
    assert (Ho : snd (result s2) = [CB None]).
    { unfold result. unfold s2 at 1 2; sim. rewrite Z.ltb_irrefl. cbn [negb andb]. unfold s2; sim. reflexivity. }
    destruct (result s2) as [s' o]. sim.
    split; [exact I'|]. split; [rewrite Hc; reflexivity|]. split; [exact Hcl|]. split.
    { intros a H. destruct (Ha a H) as [H1 _]. unfold s2 in H1; sim. discriminate. }
    split; [rewrite S3; reflexivity|]. split; [rewrite S1; reflexivity|]. split.
    { intros H. congruence. }
    intros _. auto.
  - destruct (C20_encoder_bounded_thm name) as [r [Er Lr]]. rewrite Er.
    set (s3 := set_tc 0 (set_req (Some r) (set_dlen (request_len (domain_len name)) s2))).
    pose proof (domain_len_range name) as Hdlr.
    destruct (resolve2_facts s3) as (I' & Hc & Hcl & Hnocb & Q1 & Q2 & Q3 & Q4 & Q5 & Q6 & Q7 & Q8 & Q9 & Q10);
      try (unfold s3, s2; sim; auto; lia).
    { unfold s3, s2; sim. unfold request_len. lia. }
    destruct (resolve2 s3) as [s' o]. sim.
    assert (C3 : cbp s3 = true) by reflexivity.
    assert (N3 : now s3 = now s) by reflexivity.
    assert (F3 : fires s3 = fires s) by reflexivity.
    assert (K3 : tc s3 = 0) by reflexivity.
    assert (D3 : dlen s3 = request_len (domain_len name)) by reflexivity.
    split; [exact I'|]. split; [rewrite Hc, Q1, C3; reflexivity|]. split; [exact Hcl|]. split.
    { intros a H. exact (Hnocb _ H). }
    split; [exact Q2|]. split; [congruence|]. split.
    + intros _. split; [congruence|]. split.
      * unfold mu. rewrite Q7, Q8, K3. cbn [b2z]. lia.
      * split; [|split; [exact Ed|congruence]].
        unfold deadline. rewrite Q10, Q8, Q9, Q7, K3, N3.
        destruct (0 + 1 <? SERVER_COUNT) eqn:E; [apply Z.ltb_lt in E | apply Z.ltb_ge in E].
        -- rewrite (W_step 1). replace (0 + 1 + 1) with (1 + 1) by lia. lia.
        -- replace 1 with SERVER_COUNT by lia. rewrite W_last. lia.
    + intros H. lia.
Qed.

(* ---------- traces ---------- *)

Lemma run_from_app fx : forall a b s,
  run_from fx s (a ++ b) =
  let '(s1, o1) := run_from fx s a in let '(s2, o2) := run_from fx s1 b in (s2, o1 ++ o2).
Proof.
  induction a as [|e a IH]; intros b s; cbn [run_from app].
  - destruct (run_from fx s b); reflexivity.
  - destruct (step fx s e) as [s1 o1]. rewrite IH.
    destruct (run_from fx s1 a) as [s2 o2]. destruct (run_from fx s2 b) as [s3 o3].
    rewrite app_assoc. reflexivity.
Qed.

(* the part of Tr that composes over a whole trace *)
Record TrW (extra : Z) (s s' : st) (o : list out) : Prop := {
  tw_inv : Inv s';
  tw_cons : cb_count o + b2z (cbp s') = b2z (cbp s);
  tw_clean : clean o;
  tw_dlen : dlen s' = dlen s;
  tw_pend : cbp s' = true ->
            cbp s = true /\ fires s' + mu s' <= fires s + mu s /\ deadline s' <= deadline s + extra }.

Lemma net_count_cons e r : net_count (e :: r) = b2z (is_net e) + net_count r.
Proof.
  unfold net_count. cbn [filter]. destruct (is_net e); cbn [b2z]; [rewrite len_cons|]; lia.
Qed.

Lemma run_no_resolve : forall evs s, Inv s -> Forall ev_ok evs -> no_resolve evs ->
  let s' := fst (run_from true s evs) in let o := snd (run_from true s evs) in
  TrW (RETRY_US * net_count evs) s s' o /\ now s' = now s + elapsed_all evs.
Proof.
  induction evs as [|e r IH]; intros s I Hok Hnr; cbn [run_from elapsed_all].
  - sim. split; [|lia]. constructor.
    + exact I.
    + rewrite cb_count_nil; lia.
    + apply clean_nil.
    + reflexivity.
    + intros H. split; [exact H|]. split; [lia|]. unfold net_count; cbn [filter]. rewrite (@len_nil ev). lia.
  - inversion Hok as [|? ? Hok1 Hok2]; subst. inversion Hnr as [|? ? Hnr1 Hnr2]; subst.
    destruct (step_facts s e I Hok1 Hnr1) as ([A1 A2 A3 A4 A5 A6 A7] & N1 & _).
    destruct (step true s e) as [s1 o1]. sim.
    destruct (IH s1 A1 Hok2 Hnr2) as ([B1 B2 B3 B4 B5] & N2).
    destruct (run_from true s1 r) as [s2 o2]. sim.
    split; [|lia]. constructor.
    + exact B1.
    + rewrite cb_count_app. lia.
    + apply clean_app; assumption.
    + congruence.
    + intros H. destruct (B5 H) as (P1 & P2 & P3). destruct (A7 P1) as (P4 & P5 & P6).
      split; [exact P4|]. split; [lia|]. rewrite net_count_cons.
      destruct (is_net e); cbn [b2z]; lia.
Qed.

Lemma init_inv : Inv init.
Proof.
  destruct consts_ok as [Csc _ _ _ _ _ _ _ _ _ _ _ _].
  constructor; [constructor|]; cbn; try discriminate; try lia.
Qed.

(* every run keeps the invariant and never leaves an object *)
Lemma run_inv : forall evs s, Inv s -> Forall ev_ok evs ->
  Inv (fst (run_from true s evs)) /\ clean (snd (run_from true s evs)).
Proof.
  induction evs as [|e r IH]; intros s I Hok; cbn [run_from].
  - sim. split; [exact I|apply clean_nil].
  - inversion Hok as [|? ? Hok1 Hok2]; subst.
    assert (H1 : Inv (fst (step true s e)) /\ clean (snd (step true s e))).
    { destruct (is_resolve e) eqn:Er.
      - destruct e; try discriminate. unfold step. rewrite (wi_h s (i_w s I)).
        destruct (resolve_facts s name I) as (A1 & _ & A3 & _). auto.
      - destruct (step_facts s e I Hok1 Er) as ([A1 A2 A3 A4 A5 A6 A7] & _). auto. }
    destruct (step true s e) as [s1 o1]. sim. destruct H1 as [I1 C1].
    destruct (IH s1 I1 Hok2) as [I2 C2].
    destruct (run_from true s1 r) as [s2 o2]. sim. split; [exact I2|apply clean_app; assumption].
Qed.

Theorem C20_reply_safe_thm : forall evs, Forall ev_ok evs ->
  ~ In Fault (run evs) /\ ~ In Fuel (run evs) /\ ~ In Hang (run evs).
Proof. intros evs Hok. unfold run, CURRENT_FX. exact (proj2 (run_inv evs init init_inv Hok)). Qed.

(* ---------- completion ---------- *)

Lemma after_inv pre : Forall ev_ok pre -> Inv (after pre).
Proof. intros H. exact (proj1 (run_inv pre init init_inv H)). Qed.

Lemma pending_mu s : Inv s -> cbp s = true -> 1 <= mu s.
Proof.
  intros [Hw Hp] Hc. destruct Hw as [Htc HR _ _ _ _ _]. unfold mu.
  destruct (Hp Hc) as [A|A].
  - rewrite A. cbn [b2z]. lia.
  - destruct (HR A) as [Hk _]. pose proof (b2z_range (armed (tT s))). lia.
Qed.

Lemma now_le_deadline s : Inv s -> cbp s = true -> now s <= deadline s.
Proof.
  intros [Hw Hp] Hc. destruct Hw as [Htc HR _ _ HdT HdR _]. destruct consts_ok as [_ _ Cr Ct].
  unfold deadline. destruct (armed (tR s)) eqn:AR.
  - destruct (HR eq_refl) as [Hk _]. specialize (HdR eq_refl).
    pose proof (W_nonneg (tc s + 1)). destruct (armed (tT s)); lia.
  - destruct (Hp Hc) as [A|A]; [|discriminate]. rewrite A. specialize (HdT A).
    destruct (tc s <? SERVER_COUNT) eqn:E; [apply Z.ltb_lt in E|lia].
    pose proof (W_nonneg (tc s + 1)). lia.
Qed.

Section OneRequest.
  Variables (pre : list ev) (name : list Z) (post : list ev).
  Hypothesis H_pre : Forall ev_ok pre.
  Hypothesis H_post : Forall ev_ok post.
  Hypothesis H_not_superseded : no_resolve post.
  Let s0 := fst (step true (after pre) (Resolve name)).
  Let o0 := snd (step true (after pre) (Resolve name)).
  Let s' := fst (run_from true s0 post).
  Let o' := snd (run_from true s0 post).

  Lemma one_request_facts :
    Inv s0 /\ Inv s' /\
    cb_count (o0 ++ o') + b2z (cbp s') = 1 /\
    now s' = now s0 + elapsed_all post /\
    (forall a, ~ In (CB (Some a)) o0) /\
    (domain_len name < DOMAIN_MIN -> o0 = [CB None]) /\
    (cbp s' = true ->
       (armed (tT s') = true \/ armed (tR s') = true) /\
       fires s' - fires s0 <= 2 * SERVER_COUNT - 2 /\
       now s' <= now s0 + W 1 + RETRY_US * net_count post).
  Proof.
    pose proof (after_inv pre H_pre) as I.
    assert (E : step true (after pre) (Resolve name) = resolve true (after pre) name).
    { unfold step. rewrite (wi_h _ (i_w _ I)). reflexivity. }
    destruct (resolve_facts (after pre) name I) as (I0 & C0 & _ & NA & _ & N0 & P0 & Sh).
    rewrite <- E in I0, C0, NA, N0, P0, Sh. fold s0 in I0, C0, N0, P0, Sh. fold o0 in C0, NA, Sh.
    destruct (run_no_resolve post s0 I0 H_post H_not_superseded) as ([B1 B2 B3 B4 B5] & N1).
    fold s' in B1, B2, B4, B5, N1. fold o' in B2, B3.
    split; [exact I0|]. split; [exact B1|]. split; [rewrite cb_count_app; lia|]. split; [exact N1|].
    split; [exact NA|]. split; [intros H; exact (proj1 (Sh H))|].
    intros Hc. destruct (B5 Hc) as (P1 & P2 & P3). destruct (P0 P1) as (Q1 & Q2 & Q3 & _).
    split; [exact (i_prog _ B1 Hc)|]. split.
    - pose proof (pending_mu s' B1 Hc). lia.
    - pose proof (now_le_deadline s' B1 Hc). lia.
  Qed.

  (* a request that is not superseded gets at most one callback: one exactly when it is no longer pending *)
  Theorem C20_at_most_once_thm : cb_count (o0 ++ o') + b2z (cbp s') = 1.
  Proof. exact (proj1 (proj2 (proj2 one_request_facts))). Qed.

  Theorem C20_exactly_once_bounded_thm :
    (* while the callback is owed a timer is armed, fewer than 2*SERVER_COUNT-1 timer callbacks have run,
       and the clock has not passed the retry schedule (plus one retry delay per network callback) *)
    (cbp s' = true ->
       (armed (tT s') = true \/ armed (tR s') = true) /\
       fires s' - fires s0 <= 2 * SERVER_COUNT - 2 /\
       now s' <= now s0 + W 1 + RETRY_US * net_count post) /\
    now s' = now s0 + elapsed_all post /\
    (* hence: once the timers have been given that much time, the callback has been made exactly once *)
    (W 1 + RETRY_US * net_count post < elapsed_all post -> cb_count (o0 ++ o') = 1) /\
    (* and a name that is refused is answered at once *)
    (domain_len name < DOMAIN_MIN -> o0 = [CB None]).
  Proof.
    destruct one_request_facts as (I0 & I1 & C & N & _ & Sh & P).
    split; [exact P|]. split; [exact N|]. split; [|exact Sh].
    intros Ht. destruct (cbp s') eqn:Ec.
    - destruct (P eq_refl) as (_ & _ & P3). lia.
    - cbn [b2z] in C. lia.
  Qed.
End OneRequest.

(* callbacks never outnumber requests, superseded or not *)
Lemma run_cb_le : forall evs s, Inv s -> Forall ev_ok evs ->
  cb_count (snd (run_from true s evs)) + b2z (cbp (fst (run_from true s evs))) <= b2z (cbp s) + res_count evs.
Proof.
  induction evs as [|e r IH]; intros s I Hok; cbn [run_from].
  - sim. rewrite cb_count_nil. unfold res_count; cbn [filter]. rewrite (@len_nil ev). lia.
  - inversion Hok as [|? ? Hok1 Hok2]; subst.
    assert (H1 : Inv (fst (step true s e)) /\
                 cb_count (snd (step true s e)) + b2z (cbp (fst (step true s e))) <= b2z (cbp s) + b2z (is_resolve e)).
    { destruct (is_resolve e) eqn:Er.
      - destruct e; try discriminate. unfold step. rewrite (wi_h s (i_w s I)).
        destruct (resolve_facts s name I) as (A1 & A2 & _). split; [exact A1|].
        pose proof (b2z_range (cbp s)). cbn [b2z]. lia.
      - destruct (step_facts s e I Hok1 Er) as ([A1 A2 A3 A4 A5 A6 A7] & _). split; [exact A1|]. cbn [b2z]. lia. }
    destruct (step true s e) as [s1 o1]. sim. destruct H1 as [I1 C1].
    specialize (IH s1 I1 Hok2). destruct (run_from true s1 r) as [s2 o2]. sim.
    rewrite cb_count_app. unfold res_count in *. cbn [filter].
    destruct (is_resolve e); cbn [b2z] in *; [rewrite len_cons|]; lia.
Qed.

Theorem C20_callbacks_le_requests_thm : forall evs, Forall ev_ok evs ->
  cb_count (run evs) <= res_count evs.
Proof.
  intros evs Hok. pose proof (run_cb_le evs init init_inv Hok) as H.
  unfold run, CURRENT_FX. pose proof (b2z_range (cbp (fst (run_from true init evs)))).
  change (cbp init) with false in H. cbn [b2z] in H. lia.
Qed.

(* ---------- C20_address_iff_valid ---------- *)
Lemma after_snoc pre e : after (pre ++ [e]) = fst (step true (after pre) e).
Proof.
  unfold after. rewrite run_from_app. destruct (run_from true init pre) as [s1 o1]. cbn [run_from fst].
  destruct (step true s1 e) as [s2 o2]. reflexivity.
Qed.

Lemma success_justified : forall pre, Forall ev_ok pre ->
  success (after pre) = true -> justified pre (ip (after pre)).
Proof.
  induction pre as [|e pre IH] using rev_ind; intros Hok Hs.
  - discriminate.
  - apply Forall_app in Hok. destruct Hok as [Hok1 Hok2]. inversion Hok2 as [|? ? Hoke _]; subst.
    pose proof (after_inv pre Hok1) as I. rewrite after_snoc in *.
    destruct (is_resolve e) eqn:Er.
    + destruct e; try discriminate. unfold step in Hs. rewrite (wi_h _ (i_w _ I)) in Hs.
      destruct (resolve_facts (after pre) name I) as (_ & _ & _ & _ & S & _). congruence.
    + destruct (step_facts (after pre) e I Hoke Er) as (_ & _ & K).
      destruct K as [K|(b & Eb & Rg & _ & V)].
      * destruct (K Hs) as [H1 H2]. rewrite H2.
        destruct (IH Hok1 H1) as (pre1 & b & mid & E1 & E2 & E3 & E4).
        exists pre1, b, (mid ++ [e]). split.
        { rewrite E1. rewrite <- app_assoc. reflexivity. }
        split; [|split; assumption].
        apply Forall_app. split; [exact E2|]. constructor; [exact Er|constructor].
      * exists pre, b, []. split; [subst e; reflexivity|]. split; [constructor|]. split; assumption.
Qed.

(* every address handed to the result callback, at any point of any history *)
Theorem C20_address_iff_valid_thm : forall pre e a, Forall ev_ok pre -> ev_ok e ->
  In (CB (Some a)) (snd (step true (after pre) e)) ->
  is_resolve e = false /\ justified pre a.
Proof.
  intros pre e a Hok Hoke Hin. pose proof (after_inv pre Hok) as I.
  destruct (is_resolve e) eqn:Er.
  - exfalso. destruct e; try discriminate. unfold step in Hin. rewrite (wi_h _ (i_w _ I)) in Hin.
    destruct (resolve_facts (after pre) name I) as (_ & _ & _ & NA & _). exact (NA a Hin).
  - split; [reflexivity|].
    destruct (step_facts (after pre) e I Hoke Er) as ([A1 A2 A3 A4 A5 A6 A7] & _).
    destruct (A4 a Hin) as [H1 H2]. subst a. apply success_justified; assumption.
Qed.

(* conversely an acceptable reply is taken: the address is stored and the connection closed *)
Theorem C20_valid_reply_accepted_thm : forall pre b a, Forall ev_ok pre -> len b < 65536 ->
  reg (after pre) = true -> valid_reply (dlen (after pre)) b a ->
  let s' := fst (step true (after pre) (Recv b)) in
  success s' = true /\ ip s' = a /\ snd (step true (after pre) (Recv b)) = [Disconnect (now (after pre))].
Proof.
  intros pre b a Hok Hlen Hreg V. pose proof (after_inv pre Hok) as I.
  unfold step. rewrite (wi_h _ (i_w _ I)), Hreg.
  destruct (recv_facts (after pre) b I Hreg Hlen) as (_ & _ & _ & _ & H). exact (H a V).
Qed.

(* the request length in force is the one of the last name that was long enough *)
Theorem C20_parse_iff_valid_thm : forall dl b a, PREFIX_SIZE + HEADER_SIZE <= dl -> len b < 65536 ->
  (parse dl b = PAddr a <-> valid_reply dl b a).
Proof. exact parse_addr_iff. Qed.

(* ---------- the address belongs to the request that is being answered ---------- *)
Lemma split_last_resolve : forall (l1 l2 m m' : list ev) x y,
  l1 ++ x :: m = l2 ++ y :: m' -> is_resolve x = true -> is_resolve y = false -> no_resolve m' ->
  exists m1, m = m1 ++ y :: m' /\ l2 = l1 ++ x :: m1.
Proof.
  induction l1 as [|z l1 IH]; intros l2 m m' x y E Hx Hy Hm'.
  - destruct l2 as [|z' l2]; cbn [app] in E.
    + inversion E; subst. congruence.
    + inversion E; subst. exists l2. split; reflexivity.
  - destruct l2 as [|z' l2]; cbn [app] in E.
    + inversion E; subst. exfalso. apply Forall_app in Hm'. destruct Hm' as [_ H].
      inversion H; subst. congruence.
    + inversion E; subst. destruct (IH l2 m m' x y H1 Hx Hy Hm') as (m1 & E1 & E2).
      exists m1. split; [exact E1|]. rewrite E2. reflexivity.
Qed.

Lemma in_cb_count x o : In (CB x) o -> 1 <= cb_count o.
Proof.
  intros H. apply in_split in H. destruct H as (l1 & l2 & E). subst o.
  rewrite cb_count_app. change (CB x :: l2) with ([CB x] ++ l2). rewrite cb_count_app.
  unfold cb_count at 2. cbn [filter is_cb]. rewrite len_cons, (@len_nil out).
  unfold cb_count. pose proof (len_nonneg (filter is_cb l1)). pose proof (len_nonneg (filter is_cb l2)). lia.
Qed.

Lemma after_app pre post : after (pre ++ post) = fst (run_from true (after pre) post).
Proof.
  unfold after. rewrite run_from_app. destruct (run_from true init pre) as [s1 o1]. cbn [fst].
  destruct (run_from true s1 post) as [s2 o2]. reflexivity.
Qed.

Theorem C20_address_of_request_thm : forall pre0 name mid e a,
  Forall ev_ok pre0 -> Forall ev_ok mid -> ev_ok e -> no_resolve mid ->
  In (CB (Some a)) (snd (step true (after (pre0 ++ Resolve name :: mid)) e)) ->
  DOMAIN_MIN <= domain_len name /\
  exists m1 b m2, mid = m1 ++ Recv b :: m2 /\ valid_reply (request_len (domain_len name)) b a.
Proof.
  intros pre0 name mid e a Hok0 Hokm Hoke Hnr Hin.
  assert (Hok : Forall ev_ok (pre0 ++ Resolve name :: mid)).
  { apply Forall_app. split; [exact Hok0|]. constructor; [exact I|exact Hokm]. }
  destruct (C20_address_iff_valid_thm _ e a Hok Hoke Hin) as (Er & pre1 & b & mid' & E1 & E2 & E3 & E4).
  destruct (split_last_resolve pre0 pre1 mid mid' (Resolve name) (Recv b) E1 eq_refl eq_refl E2) as (m1 & F1 & F2).
  (* the callback was owed when e happened *)
  pose proof (after_inv _ Hok) as Iv.
  destruct (step_facts _ e Iv Hoke Er) as ([A1 A2 A3 A4 A5 A6 A7] & _).
  pose proof (in_cb_count _ _ Hin) as Hcnt.
  assert (Hc : cbp (after (pre0 ++ Resolve name :: mid)) = true).
  { destruct (cbp (after (pre0 ++ Resolve name :: mid))); [reflexivity|].
    pose proof (b2z_range (cbp (fst (step true (after (pre0 ++ Resolve name :: mid)) e)))). cbn [b2z] in A2. lia. }
  (* so it was owed all the way back to the resolve, and the request length is that of `name` *)
  pose proof (after_inv pre0 Hok0) as I0.
  assert (Es : step true (after pre0) (Resolve name) = resolve true (after pre0) name).
  { unfold step. rewrite (wi_h _ (i_w _ I0)). reflexivity. }
  destruct (resolve_facts (after pre0) name I0) as (Is0 & _ & _ & _ & _ & _ & P0 & _).
  rewrite <- Es in Is0, P0.
  set (s0 := fst (step true (after pre0) (Resolve name))) in *.
  assert (Eafter : forall m, after (pre0 ++ Resolve name :: m) = fst (run_from true s0 m)).
  { intros m. change (pre0 ++ Resolve name :: m) with (pre0 ++ [Resolve name] ++ m).
    rewrite app_assoc, after_app, after_snoc. reflexivity. }
  destruct (run_no_resolve mid s0 Is0 Hokm Hnr) as ([B1 B2 B3 B4 B5] & _).
  rewrite <- Eafter in B5. destruct (B5 Hc) as (Pc & _).
  destruct (P0 Pc) as (_ & _ & _ & Hmin & Hdl).
  split; [exact Hmin|]. exists m1, b, mid'. split; [exact F1|].
  (* the length in force when the reply came *)
  assert (Hokm1 : Forall ev_ok m1 /\ no_resolve m1).
  { rewrite F1 in Hokm, Hnr. apply Forall_app in Hokm. apply Forall_app in Hnr. tauto. }
  destruct (run_no_resolve m1 s0 Is0 (proj1 Hokm1) (proj2 Hokm1)) as ([D1 D2 D3 D4 D5] & _).
  rewrite <- Eafter in D4. rewrite F2 in E4. rewrite D4, Hdl in E4. exact E4.
Qed.

(* ---------- the name rule of the specification is RFC 1035's for ordinary names ---------- *)
Lemma name_skip_plain lab : forall r, Forall plain_byte lab ->
  name_skip (lab ++ r) = match name_skip r with Some n => Some (n + len lab) | None => None end.
Proof.
  induction lab as [|c lab IH]; intros r H; cbn [app].
  - rewrite (@len_nil Z). destruct (name_skip r); [f_equal; lia|reflexivity].
  - inversion H as [|? ? Hc Hl]; subst. unfold plain_byte in Hc. cbn [name_skip].
    destruct (192 <=? c) eqn:E1; [apply Z.leb_le in E1; lia|].
    destruct (c =? 0) eqn:E2; [apply Z.eqb_eq in E2; lia|].
    rewrite (IH r Hl). rewrite len_cons. destruct (name_skip r); [f_equal; lia|reflexivity].
Qed.

Theorem C20_name_rule_is_rfc_thm : forall p n, rfc_name p n -> name_skip p = Some n.
Proof.
  intros p n H. induction H as [r|c r Hc|c lab r n Hc Hl Hp Hr IH]; cbn [name_skip].
  - reflexivity.
  - destruct (192 <=? c) eqn:E; [reflexivity|apply Z.leb_gt in E; lia].
  - destruct (192 <=? c) eqn:E1; [apply Z.leb_le in E1; lia|].
    destruct (c =? 0) eqn:E2; [apply Z.eqb_eq in E2; lia|].
    rewrite (name_skip_plain lab r Hp), IH. f_equal. lia.
Qed.

(* ---------- the code without the repair ---------- *)
Definition good_reply : list Z :=
  [0;38; 0;1; 129;128; 0;1; 0;1; 0;0; 0;0; 4;97;98;99;100;0; 0;1;0;1; 192;12; 0;1; 0;1; 0;0;0;60; 0;4; 10;20;30;40].
Definition witness_fault : list ev := [Resolve [97;98]; Adv 200000; Recv [0;0]].
Definition witness_stale : list ev :=
  [Resolve [97;98;99;100]; ConnectCb; Recv good_reply; DisconnectCb; Resolve [97;98]].

Theorem C20_old_code_refuted_thm :
  (* a name shorter than DOMAIN_MIN_LEN on a fresh device: the retry runs with no request, and a two-byte
     segment makes the parser read the header outside the received buffer *)
  In Fault (snd (run_from false init witness_fault)) /\
  run witness_fault = [CB None] /\
  (* a short name after a successful resolution is answered with the previous address *)
  snd (run_from false init witness_stale) =
    [Disconnect 0; Connect 53 0 0 [8;8;8;8];
     Sent 0 0 [0;22; 1;0; 1;0; 0;1; 0;0; 0;0; 0;0; 4;97;98;99;100;0; 0;1;0;1];
     Disconnect 0; CB (Some [10;20;30;40]); CB (Some [10;20;30;40])] /\
  run witness_stale =
    [Disconnect 0; Connect 53 0 0 [8;8;8;8];
     Sent 0 0 [0;22; 1;0; 1;0; 0;1; 0;0; 0;0; 0;0; 4;97;98;99;100;0; 0;1;0;1];
     Disconnect 0; CB (Some [10;20;30;40]); CB None].
Proof. vm_compute. repeat split; auto. Qed.

(* ---------- non-vacuity ---------- *)
Lemma good_reply_valid : valid_reply 24 good_reply [10;20;30;40].
Proof. apply parse_addr_iff; [vm_compute; discriminate | vm_compute; reflexivity | vm_compute; reflexivity]. Qed.

Lemma schedule_example :
  run [Resolve [97;98;99;100]; Adv 21000000] =
    [Disconnect 0; Connect 53 0 0 [8;8;8;8];
     Disconnect 5000000; Disconnect 5200000; Connect 53 5200000 0 [1;1;1;1];
     Disconnect 10200000; Disconnect 10400000; Connect 53 10400000 0 [8;8;4;4];
     Disconnect 15400000; Disconnect 15600000; Connect 53 15600000 0 [1;0;0;1];
     Disconnect 20600000; CB None].
Proof. vm_compute. reflexivity. Qed.
