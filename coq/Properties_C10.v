From Coq Require Import List ZArith.
From V Require Import C10.Model C10.Proofs.
Theorem C10_placeholder : True. Proof. exact placeholder10. Qed.
Print Assumptions C10_placeholder.
