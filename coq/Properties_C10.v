(* C10 — Positioning tasks converge and the motor is never left powered indefinitely.
   Property theorems only: each is closed by `exact` of a lemma proved in C10/Frame.v + C10/Proofs.v.
   The model (C10/Model.v) is the whole roller-shutter module of supla_esp_rs_fb.c for one shutter; the theorems are
   stated for an arbitrary record `o` of floating-point sub-expressions satisfying the relational facts `fp_ok`
   of C09 (the harness runs the bit-exact binary64 instance). *)
From Coq Require Import List ZArith Lia.
Import ListNotations.
From V Require Import Base.U32 Base.Iface Gen.RsConsts C09.Model C09.Proofs C10.Model C10.Frame C10.Proofs C10.Autocal C10.Calibrated C10.Conv5 C10.Conv6 C09.FloatFacts C10.FloatInst.
Local Open Scope Z_scope.

(* Bounded power, every situation in which no travel can be accounted (position unknown: not calibrated, calibration
   lost, auto-calibration running / aborted / re-requested; or position already at the end stop of the direction).
   d     : ANY state of the module (any task, any auto-calibration step, any flags, any pending delayed start) in which
           exactly the output of direction `up` is energised, the last callback stamp is current, the run-time counter is
           at most ten minutes and the report stamp is at most 2^31 us old;
   evs   : ANY list of timer callbacks (interval 0 < dt <= tau <= 1 s, ANY sensor reading per callback);
   on_run: no falling edge of that output is logged during the run (the output stays energised).
   Then the time seen by the run-time counter is at most 600 s + 200 ms + tau.  `counted` leaves out exactly the
   callbacks at which the power-consumption detection of a board with the auto-calibration flag holds the clock back
   (no movement sensed yet, start stamp younger than 2 s). *)
Theorem C10_bounded_power_counted : forall o, fp_ok o -> forall up k tau d evs,
  wfk k -> 0 <= tau <= 1000000 -> Forall (fun e => 0 < fst e <= tau) evs ->
  only up d -> NT k up d -> stamped k d -> 0 <= carry_of up d <= TEN_MINUTES_US -> 0 <= age_c k d < 2147483648 ->
  on_run o up k d evs ->
  counted o k d evs <= TEN_MINUTES_US - carry_of up d + REPORT_PERIOD_US + tau.
Proof. exact C10_bounded_power_counted_thm. Qed.
Print Assumptions C10_bounded_power_counted.

(* the same for a board without the auto-calibration flag: the whole elapsed time is bounded *)
Theorem C10_bounded_power_uncalibrated : forall o, fp_ok o -> forall up k tau d evs,
  wfk k -> k_autocal_flag k = false -> 0 <= tau <= 1000000 -> Forall (fun e => 0 < fst e <= tau) evs ->
  only up d -> NT k up d -> stamped k d -> 0 <= carry_of up d <= TEN_MINUTES_US -> 0 <= age_c k d < 2147483648 ->
  on_run o up k d evs ->
  elapsed evs <= TEN_MINUTES_US + REPORT_PERIOD_US + tau.
Proof. exact C10_bounded_power_thm. Qed.
Print Assumptions C10_bounded_power_uncalibrated.

(* one callback: what happens to an energised output (building block of the above, also for a single late callback) *)
Theorem C10_callback_keeps_accounts : forall o, fp_ok o -> forall up k d dt sm d' el,
  wfk k -> only up d -> NT k up d -> 0 <= carry_of up d -> 0 <= dt < 4294967296 -> stamped k d ->
  d' = C10.Model.step o k d (Cb dt sm) ->
  nofall up (outs d') ->
  el = (if frozen_cb k (cb_entry k d dt) (sensor k (cb_entry k d dt) sm) then 0 else dt) ->
  carry_of up d + el < 4294967296 ->
  only up d' /\ NT k up d' /\ carry_of up d' = carry_of up d + el /\ stamped k d' /\ C10.Model.now d' = C10.Model.now d + dt /\
  C10.Model.last_comm d' = (if REPORT_PERIOD_US <=? u32 (u32 (k_boot k + C10.Model.now d + dt) - C10.Model.last_comm d)
                            then u32 (k_boot k + C10.Model.now d + dt) else C10.Model.last_comm d) /\
  ~ ((REPORT_PERIOD_US <=? u32 (u32 (k_boot k + C10.Model.now d + dt) - C10.Model.last_comm d)) = true /\ TEN_MINUTES_US < carry_of up d') /\
  (start_time d <> 0 -> start_time d' = start_time d).
Proof. exact step_cb_only. Qed.
Print Assumptions C10_callback_keeps_accounts.

(* every command of the module passes through set_relay, which never touches the run-time counters and can only
   forget a position (a sub-step); an immediate switch-off always produces the falling edge *)
Theorem C10_set_relay_is_substep : forall up k d v c s, sub up d (set_relay k d v c s).
Proof. exact sub_set_relay. Qed.
Print Assumptions C10_set_relay_is_substep.
Theorem C10_switch_off_falls : forall up k d c,
  powered up d = true -> ~ nofall up (outs (set_relay k d RELAY_OFF c false)).
Proof. exact set_relay_off_falls. Qed.
Print Assumptions C10_switch_off_falls.

(* Auto-calibration outcome.  Whenever supla_esp_gpio_rs_autocalibrate brings the step counter back to 0 (from any state with
   a running auto-calibration, any sensor reading), it is one of exactly two outcomes:
   success — it was step 3, the sensor reported "not moving", the measured opening time (>= RS_AUTOCAL_MIN_TIME_MS) is stored,
             the closing time stored by step 2 is kept, the position is "fully open" (100) and both outputs are off;
   failure — the CALIBRATION_FAILED flag is set, both measured times, position and tilt are cleared, the task is cancelled
             and both outputs are off.
   (The step counter also returns to 0, without either outcome, when a command that is not part of the auto-calibration
   aborts it — sr_abort in set_relay — or when travel times get configured — cb_head; both are commands, not callbacks.) *)
Theorem C10_autocal_outcome : forall k d im d',
  0 < ac_step d -> d' = fst (autocalibrate k d im) -> ac_step d' = 0 ->
  (ac_step d = 3 /\ im = false /\ AUTOCAL_MIN_MS * 1000 <= C10.Model.up_time d /\ aot d' = C10.Model.up_time d / 1000 /\ act d' = act d /\
   C10.Model.pos d' = 100 /\ up_on d' = false /\ down_on d' = false)
  \/ failed_outcome d'.
Proof. exact C10_autocal_outcome_thm. Qed.
Print Assumptions C10_autocal_outcome.

(* step 2 stores a closing time of at least RS_AUTOCAL_MIN_TIME_MS and goes on to step 3 *)
Theorem C10_autocal_step2 : forall k d, ac_step (ac_step2_ok k d) = 3.
Proof. exact ac_step2_ok_step. Qed.
Print Assumptions C10_autocal_step2.

(* Bounded power, calibrated move.  Roller shutter (no tilting), ANY task state, ANY sensor readings: from a known
   position with exactly the output of direction `up` energised (no auto-calibration business pending), callbacks at
   intervals 0 < dt <= tau: while no falling edge of that output is logged,
       elapsed time (+ carry at the start)  <  travel time to the end stop + carry_max,
   carry_max = max(end-stop margin = 1000 * (int)(full_ms * margin/100.0), one position unit T/10000 + 2 us).
   (The margin used is rs_time_margin of supla_esp_gpio_rs_move_position; a task stops the motor earlier.) *)
Theorem C10_bounded_power_calibrated : forall o, fp_ok o -> forall up k tau d evs,
  rsk k -> cal up d -> stamped k d ->
  let F := full_k up d in
  0 < F * 1000 < 4294967296 -> 20000 <= F * 1000 -> carry_max o k F + tau < 4294967296 ->
  0 <= carry_of up d < carry_max o k F ->
  Forall (fun ev => 0 < fst ev <= tau) evs -> on_run o up k d evs ->
  10000 * (carry_of up d + elapsed evs) < remaining up (C10.Model.pos d) * (F * 1000) + 10000 * carry_max o k F.
Proof. exact C10_bounded_power_calibrated_thm. Qed.
Print Assumptions C10_bounded_power_calibrated.

(* one callback of a calibrated roller shutter = supla_esp_gpio_rs_move_position of C09 on (carry + dt): the C09
   accounting theorems apply to the whole module, whatever the task processing does in the same callback *)
Theorem C10_calibrated_callback_is_C09_accounting : forall o, fp_ok o -> forall up k d dt sm d',
  rsk k -> cal up d -> stamped k d -> 0 <= carry_of up d -> 0 <= dt -> carry_of up d + dt < 4294967296 ->
  0 < full_k up d * 1000 < 4294967296 ->
  d' = C10.Model.step o k d (Cb dt sm) -> nofall up (outs d') ->
  let m := move_position o (cfg_of k d) (C10.Model.pos d) (C10.Model.tilt d) (carry_of up d + dt) (full_k up d) up in
  cal up d' /\ stamped k d' /\ C10.Model.now d' = C10.Model.now d + dt /\ C10.Model.pos d' = m_pos m /\ C10.Model.tilt d' = C10.Model.tilt d /\
  carry_of up d' = m_time m /\ m_off m = false /\ time1 d' = time1 d /\ time2 d' = time2 d.
Proof. exact cal_step_thm. Qed.
Print Assumptions C10_calibrated_callback_is_C09_accounting.

(* Convergence (core clause of C10), calibrated roller shutter without tilt, board without the auto-calibration flag.
   d0    : at rest (both outputs off, no delayed trigger pending, position known, no auto-calibration in progress;
           any finished, stuck or absent previous task), callback stamp current;
   TASK p: any target 0..100 (tilt -1) that differs from the currently REPORTED position (a target equal to the
           reported position is ignored by supla_esp_gpio_rs_add_task: finding retarget-to-current-position-ignored);
   cbs   : ANY list of timer callbacks, intervals 0 < dt <= tau, ANY sensor readings, ANY margin setting.
   As soon as the callbacks span  travel needed + max(end-stop margin, one position unit + 2 us) + 1.001 s + 2 tau + 3 us
   (travel needed = |start - target| / 10000 of the full time of the direction): both outputs are off, no trigger is
   pending, the position is at or past the target in the direction of travel, and the overshoot e (in hundredths of
   a point) satisfies  e * full_us < 10000 * tau + 30000.  The state stays so for every longer list (the bound is a
   lower bound on the span, not an exact length).
   Exclusions = the three known findings: (1) tau coarser than half a point gives the bound below instead of <= 1 point;
   (2) target = reported position is excluded by `cur_pos d0 <> p`; (3) boards with the auto-calibration flag
   (power-detection freeze) are excluded by `k_autocal_flag k = false`. *)
Theorem C10_converges_rs : forall o k tau d0 p cbs,
  fp_ok o -> rsk k -> k_autocal_flag k = false -> idle d0 -> stamped k d0 -> 0 <= p <= 100 -> cur_pos d0 <> p ->
  let up := dir_to d0 p in
  let F := full_k up d0 in
  30000 <= F * 1000 < 4294967296 -> 0 < tau -> carry_max o k F + tau <= TEN_MINUTES_US ->
  Forall (fun e => 0 < fst e <= tau) cbs ->
  Z.abs (C10.Model.pos d0 - 100 - p * 100) * (F * 1000) + 10000 * (carry_max o k F + 1001000 + 2 * tau + 3) <= 10000 * elapsed cbs ->
  let d := run o k d0 (Task p (-1) :: cbs_of cbs) in
  up_on d = false /\ down_on d = false /\ delayed d = None /\ known (C10.Model.pos d) = true /\
  (if up then C10.Model.pos d - 100 <= p * 100 else p * 100 <= C10.Model.pos d - 100) /\
  Z.abs (C10.Model.pos d - 100 - p * 100) * (F * 1000) < 10000 * tau + 30000.
Proof. exact C10_converges_rs_thm. Qed.
Print Assumptions C10_converges_rs.

(* the same in points: raw error <= ceil(10000 tau / full) hundredths; |reported - target| <= that/100 + 0.5 points *)
Theorem C10_converges_rs_points : forall raw p T tau,
  0 <= raw -> 30000 <= T -> 0 < tau -> Z.abs (raw - p * 100) * T < 10000 * tau + 30000 ->
  Z.abs (raw - p * 100) <= (10000 * tau + T - 1) / T /\
  100 * Z.abs ((raw + 50) / 100 - p) <= (10000 * tau + T - 1) / T + 50.
Proof.
  intros raw p T tau Hr HT Htau H.
  pose proof (overshoot_points (Z.abs (raw - p * 100)) T tau ltac:(lia) HT Htau H) as E.
  split; [exact E|]. exact (reported_error raw p _ Hr E).
Qed.
Print Assumptions C10_converges_rs_points.

(* reported position within one point of the target when the full time is at least 200 callback intervals *)
Theorem C10_converges_rs_one_point : forall raw p T tau,
  0 <= raw -> 30000 <= T -> 0 < tau -> 200 * tau <= T -> Z.abs (raw - p * 100) * T < 10000 * tau + 30000 ->
  Z.abs ((raw + 50) / 100 - p) <= 1.
Proof. exact reported_one_point. Qed.
Print Assumptions C10_converges_rs_one_point.

(* supla_esp_gpio_relay_hi as modelled writes, of the shutter record, only the start / stop stamps (+ outputs, clock, GPIO log): the same
   set the translator extracts from the source text ("start_time,stop_time") *)
Theorem C10_relay_hi_writes_as_generated :
  RELAY_HI_RS_WRITES = [115; 116; 97; 114; 116; 95; 116; 105; 109; 101; 44; 115; 116; 111; 112; 95; 116; 105; 109; 101] /\
  forall k d u hi, C10.Model.last_time (relay_hi k d u hi) = C10.Model.last_time d /\ C10.Model.up_time (relay_hi k d u hi) = C10.Model.up_time d /\
                   C10.Model.down_time (relay_hi k d u hi) = C10.Model.down_time d /\ C10.Model.pos (relay_hi k d u hi) = C10.Model.pos d /\
                   C10.Model.tilt (relay_hi k d u hi) = C10.Model.tilt d /\ C10.Model.last_comm (relay_hi k d u hi) = C10.Model.last_comm d.
Proof.
  split; [reflexivity|]. intros k d u hi. unfold relay_hi.
  destruct (andb (negb (if u then hi else up_on d)) (negb (if u then down_on d else hi))); repeat split; reflexivity.
Qed.
Print Assumptions C10_relay_hi_writes_as_generated.

(* time limits and margin functions of the model are the ones of the source: the translator extracts the literals of
   supla_esp_gpio_rs_timer_cb by pattern (reporting period, 10-minute limit tested on both counters, power-detection window) and probes
   supla_esp_gpio_rs_set_time_margin / supla_esp_gpio_rs_time_margin as functions; a changed limit, a dropped test or a moved boundary
   changes the generated constants and this theorem no longer checks *)
Theorem C10_limits_as_generated :
  REPORT_PERIOD_US = REPORT_PERIOD_SRC /\ TEN_MINUTES_US = TEN_MINUTES_SRC /\ TEN_MINUTES_TESTS = 2 /\ POWER_DETECT_US = POWER_DETECT_SRC /\
  set_time_margin (-1) = MARGIN_OF_M1 /\ set_time_margin 0 = MARGIN_OF_0 /\ set_time_margin 100 = MARGIN_OF_100 /\
  set_time_margin 101 = MARGIN_OF_101 /\ set_time_margin 110 = MARGIN_OF_110 /\
  time_margin 1000 (TIME_MARGIN_5PCT_OF_1S_ENDS - 1) 5 = true /\ time_margin 1000 TIME_MARGIN_5PCT_OF_1S_ENDS 5 = false /\
  time_margin 0 0 5 = negb (TIME_MARGIN_FULL0 =? 0) /\
  AUTOCAL_MAX_MS = 590000 /\ AUTOCAL_MIN_MS = 500 /\ START_DELAY_MS = 1000 /\ STOP_DELAY_MS = 500.
Proof. repeat split; reflexivity. Qed.
Print Assumptions C10_limits_as_generated.

(* ---------- the same theorems for the bit-exact IEEE binary64 instance `fops`, without the hypothesis fp_ok (C09/FloatFacts.v) ---------- *)
Theorem C10_bounded_power_counted_fops : forall up k tau d evs,
  wfk k -> 0 <= tau <= 1000000 -> Forall (fun e => 0 < fst e <= tau) evs ->
  only up d -> NT k up d -> stamped k d -> 0 <= carry_of up d <= TEN_MINUTES_US -> 0 <= age_c k d < 2147483648 ->
  on_run fops up k d evs ->
  counted fops k d evs <= TEN_MINUTES_US - carry_of up d + REPORT_PERIOD_US + tau.
Proof. exact C10_bounded_power_counted_inst. Qed.
Print Assumptions C10_bounded_power_counted_fops.

Theorem C10_bounded_power_uncalibrated_fops : forall up k tau d evs,
  wfk k -> k_autocal_flag k = false -> 0 <= tau <= 1000000 -> Forall (fun e => 0 < fst e <= tau) evs ->
  only up d -> NT k up d -> stamped k d -> 0 <= carry_of up d <= TEN_MINUTES_US -> 0 <= age_c k d < 2147483648 ->
  on_run fops up k d evs ->
  elapsed evs <= TEN_MINUTES_US + REPORT_PERIOD_US + tau.
Proof. exact C10_bounded_power_uncalibrated_inst. Qed.
Print Assumptions C10_bounded_power_uncalibrated_fops.

Theorem C10_callback_keeps_accounts_fops : forall up k d dt sm d' el,
  wfk k -> only up d -> NT k up d -> 0 <= carry_of up d -> 0 <= dt < 4294967296 -> stamped k d ->
  d' = C10.Model.step fops k d (Cb dt sm) ->
  nofall up (outs d') ->
  el = (if frozen_cb k (cb_entry k d dt) (sensor k (cb_entry k d dt) sm) then 0 else dt) ->
  carry_of up d + el < 4294967296 ->
  only up d' /\ NT k up d' /\ carry_of up d' = carry_of up d + el /\ stamped k d' /\ C10.Model.now d' = C10.Model.now d + dt /\
  C10.Model.last_comm d' = (if REPORT_PERIOD_US <=? u32 (u32 (k_boot k + C10.Model.now d + dt) - C10.Model.last_comm d)
                            then u32 (k_boot k + C10.Model.now d + dt) else C10.Model.last_comm d) /\
  ~ ((REPORT_PERIOD_US <=? u32 (u32 (k_boot k + C10.Model.now d + dt) - C10.Model.last_comm d)) = true /\ TEN_MINUTES_US < carry_of up d') /\
  (start_time d <> 0 -> start_time d' = start_time d).
Proof. exact C10_callback_keeps_accounts_inst. Qed.
Print Assumptions C10_callback_keeps_accounts_fops.

Theorem C10_bounded_power_calibrated_fops : forall up k tau d evs,
  rsk k -> cal up d -> stamped k d ->
  let F := full_k up d in
  0 < F * 1000 < 4294967296 -> 20000 <= F * 1000 -> carry_max fops k F + tau < 4294967296 ->
  0 <= carry_of up d < carry_max fops k F ->
  Forall (fun ev => 0 < fst ev <= tau) evs -> on_run fops up k d evs ->
  10000 * (carry_of up d + elapsed evs) < remaining up (C10.Model.pos d) * (F * 1000) + 10000 * carry_max fops k F.
Proof. exact C10_bounded_power_calibrated_inst. Qed.
Print Assumptions C10_bounded_power_calibrated_fops.

Theorem C10_calibrated_callback_is_C09_accounting_fops : forall up k d dt sm d',
  rsk k -> cal up d -> stamped k d -> 0 <= carry_of up d -> 0 <= dt -> carry_of up d + dt < 4294967296 ->
  0 < full_k up d * 1000 < 4294967296 ->
  d' = C10.Model.step fops k d (Cb dt sm) -> nofall up (outs d') ->
  let m := move_position fops (cfg_of k d) (C10.Model.pos d) (C10.Model.tilt d) (carry_of up d + dt) (full_k up d) up in
  cal up d' /\ stamped k d' /\ C10.Model.now d' = C10.Model.now d + dt /\ C10.Model.pos d' = m_pos m /\ C10.Model.tilt d' = C10.Model.tilt d /\
  carry_of up d' = m_time m /\ m_off m = false /\ time1 d' = time1 d /\ time2 d' = time2 d.
Proof. exact C10_calibrated_callback_is_C09_accounting_inst. Qed.
Print Assumptions C10_calibrated_callback_is_C09_accounting_fops.

Theorem C10_converges_rs_fops : forall k tau d0 p cbs,
  rsk k -> k_autocal_flag k = false -> idle d0 -> stamped k d0 -> 0 <= p <= 100 -> cur_pos d0 <> p ->
  let up := dir_to d0 p in
  let F := full_k up d0 in
  30000 <= F * 1000 < 4294967296 -> 0 < tau -> carry_max fops k F + tau <= TEN_MINUTES_US ->
  Forall (fun e => 0 < fst e <= tau) cbs ->
  Z.abs (C10.Model.pos d0 - 100 - p * 100) * (F * 1000) + 10000 * (carry_max fops k F + 1001000 + 2 * tau + 3) <= 10000 * elapsed cbs ->
  let d := run fops k d0 (Task p (-1) :: cbs_of cbs) in
  up_on d = false /\ down_on d = false /\ delayed d = None /\ known (C10.Model.pos d) = true /\
  (if up then C10.Model.pos d - 100 <= p * 100 else p * 100 <= C10.Model.pos d - 100) /\
  Z.abs (C10.Model.pos d - 100 - p * 100) * (F * 1000) < 10000 * tau + 30000.
Proof. exact C10_converges_rs_inst. Qed.
Print Assumptions C10_converges_rs_fops.

(* ---------- the hypotheses of C10_converges_rs are satisfiable ---------- *)
(* exact integer arithmetic as the instance of the floating-point facts; 2 s shutter at 60 %, target 20 %, 200 callbacks of 10 ms *)
Definition zops10 : fpops := {|
  fp_rem := fun r T => r * T / 10000; fp_dot := fun t T => 10000 * t / T; fp_tod := fun d T => d * T / 10000;
  fp_margin := fun F m => F * m / 100; fp_cal := fun F => F * 11 / 10 |}.
Example zops10_ok : fp_ok zops10.
Proof.
  constructor; cbn [fp_rem fp_dot fp_tod zops10]; intros; try reflexivity; try lia.
  replace (r * 0) with 0 by lia. reflexivity.
Qed.
Definition ex_k : kcfg := {| k_boot := 0; k_tilt_ms := 0; k_tilt_type := 0; k_margin := 5; k_add_margin := 5; k_autocal_flag := false;
                             k_recal_flag := false; k_mot_up := 0; k_mot_down := 0; k_mot_start := 0 |}.
Definition ex_d0 : dev := C10.Model.init ex_k 6100 0 2000 2000 0 0 0 0.
Definition ex_cbs : list (Z * Z) := repeat (10000, 0) 200.

Example C10_converges_rs_example :
  let d := run zops10 ex_k ex_d0 (Task 20 (-1) :: cbs_of ex_cbs) in
  up_on d = false /\ down_on d = false /\ delayed d = None /\ Z.abs (C10.Model.pos d - 100 - 20 * 100) * (2000 * 1000) < 10000 * 10000 + 30000.
Proof.
  assert (I : idle ex_d0) by (constructor; try reflexivity; left; reflexivity).
  assert (St : stamped ex_k ex_d0) by reflexivity.
  assert (Hcp : cur_pos ex_d0 <> 20) by (vm_compute; discriminate).
  assert (Hev : Forall (fun e => 0 < fst e <= 10000) ex_cbs).
  { apply Forall_forall. intros x Hx. apply repeat_spec in Hx. subst x. cbn. lia. }
  pose proof (C10_converges_rs zops10 ex_k 10000 ex_d0 20 ex_cbs zops10_ok (conj eq_refl eq_refl) eq_refl I St ltac:(lia) Hcp) as H.
  cbv zeta in H.
  assert (Ed : dir_to ex_d0 20 = true) by reflexivity. rewrite Ed in H.
  assert (EF : full_k true ex_d0 = 2000) by reflexivity. rewrite EF in H.
  specialize (H ltac:(lia) ltac:(lia) ltac:(vm_compute; discriminate) Hev ltac:(vm_compute; discriminate)).
  destruct H as (U & D & Dl & _ & _ & Acc). cbv zeta. repeat split; assumption.
Qed.

(* assumptions of the examples *)
Print Assumptions zops10_ok.
Print Assumptions C10_converges_rs_example.
