(* C08 — proofs.  Invariants of the most-general-client model of supla_esp_gpio_rs_set_relay. *)
From Coq Require Import List ZArith Bool Lia.
Import ListNotations.
From V Require Import Base.U32 Base.Iface Gen.RsSpacingConsts C08.Model.
Local Open Scope Z_scope.

(* ---------- facts about the generated constants (re-proved by computation on every run) ---------- *)
Record consts_facts : Prop := {
  cf_pre : 0 <= RELAY_PRE_US; cf_retry : 0 <= RELAY_RETRY_US; cf_post : 0 <= RELAY_POST_US;
  cf_settle : 0 <= RS_SETTLE_US;
  cf_sd_nz : (RS_START_DELAY_MS =? 0) = false;
  cf_sd : SPACING_US <= RS_START_DELAY_MS * 1000;                                (* guard false => elapsed >= D *)
  cf_thr : SPACING_US <= (RS_START_DELAY_MS + 1 - RS_DELAY_THRESHOLD) * 1000;   (* delay <= threshold => elapsed >= D+1-thr *)
  cf_off : RS_OFF = 0;
  cf_up_off : (RS_UP =? RS_OFF) = false;
  cf_down_off : (RS_DOWN =? RS_OFF) = false;
  cf_down_up : (RS_DOWN =? RS_UP) = false;
  (* the C lookups that the routing model (find_idx over ALL relays / shutters) stands for scan the whole tables *)
  cf_scan : LOOKUP_PORT_RELAY_BOUND = RELAY_MAX /\ RELAYHI_RELAY_BOUND = RELAY_MAX /\ SETVALUE_RELAY_BOUND = RELAY_MAX /\
            LOOKUP_RELAY_RS_BOUND = RS_MAX /\ SETVALUE_RS_BOUND = RS_MAX
}.
Lemma consts_ok : consts_facts.
Proof. constructor; vm_compute; first [reflexivity | congruence | repeat split; reflexivity]. Qed.

Local Opaque RELAY_PRE_US RELAY_RETRY_US RELAY_POST_US RS_SETTLE_US RS_START_DELAY_MS RS_STOP_DELAY_MS
      RS_DELAY_THRESHOLD RS_OFF RS_UP RS_DOWN SPACING_US.

(* ---------- arithmetic core ---------- *)
Lemma u32_le_self z : 0 <= z -> u32 z <= z.
Proof. intros; unfold u32; apply Z.mod_le; lia. Qed.
(* elapsed time computed from the wrapping counter never exceeds true elapsed time *)
Lemma u32_diff_le boot a b : b <= a -> u32 (u32 (boot + a) - u32 (boot + b)) <= a - b.
Proof.
  intros H. rewrite u32_sub_l, u32_sub_r. replace (boot + a - (boot + b)) with (a - b) by lia.
  apply u32_le_self; lia.
Qed.
Lemma div1000_ge q k : k <= q / 1000 -> k * 1000 <= q.
Proof. intros H. pose proof (Z.mul_div_le q 1000 ltac:(lia)). lia. Qed.

(* ---------- the monitor fold ---------- *)
Lemma feed_app m i o1 o2 : feed m i (o1 ++ o2) = feed (feed m i o1) i o2.
Proof. unfold feed; apply fold_left_app. Qed.
Lemma feed_nil m i : feed m i [] = m.
Proof. reflexivity. Qed.

Definition out_idx (o : out) : Z := match o with OGpio i _ _ _ => i | OArm i _ _ => i | OZero i _ => i end.
Definition is_gpio (o : out) : bool := match o with OGpio _ _ _ _ => true | _ => false end.

Lemma feed_other m i o : Forall (fun x => out_idx x <> i) o -> feed m i o = m.
Proof.
  revert m; induction o as [|x r IH]; intros m H; [reflexivity|].
  inversion H as [|? ? Hx Hr]; subst. unfold feed in *; cbn [fold_left].
  rewrite IH by assumption. destruct x; cbn [feed1 out_idx] in *; try reflexivity.
  destruct (idx =? i) eqn:E; [apply Z.eqb_eq in E; contradiction | reflexivity].
Qed.
Lemma feed_nogpio m i o : forallb (fun x => negb (is_gpio x)) o = true -> feed m i o = m.
Proof.
  revert m; induction o as [|x r IH]; intros m H; [reflexivity|].
  cbn [forallb] in H; apply andb_true_iff in H as [Hx Hr].
  unfold feed in *; cbn [fold_left]. rewrite IH by assumption. destruct x; cbn in Hx; try discriminate; reflexivity.
Qed.

Lemma no_zero_app o1 o2 : no_zero (o1 ++ o2) <-> no_zero o1 /\ no_zero o2.
Proof. unfold no_zero; rewrite forallb_app, andb_true_iff; tauto. Qed.
Lemma no_zero_nil : no_zero []. Proof. reflexivity. Qed.

(* ---------- per-shutter invariants ---------- *)
(* interlock part: the monitor's view of the pins is the model's, nothing bad so far, never both on *)
Record IL (s : sh) (m : mon1) : Prop := {
  il_a : pa s = ma m; il_b : pb s = mb m; il_ok : bad_il m = false; il_excl : pa s && pb s = false }.

(* spacing part (valid as long as no sampled stamp was 0) *)
Record SP (boot now : Z) (s : sh) (m : mon1) : Prop := {
  sp_ok : bad_sp m = false;
  sp_off : pa s = false -> pb s = false ->
           start s = 0 /\ stop s <> 0 /\
           exists x, stop s = u32 (boot + x) /\ x <= now /\ (forall l, lf m = Some l -> l <= x + RELAY_PRE_US);
  sp_on : pa s || pb s = true -> stop s = 0 }.

Lemma SP_mono boot now now' s m : SP boot now s m -> now <= now' -> SP boot now' s m.
Proof.
  intros [H1 H2 H3] Hle; constructor; auto.
  intros Ha Hb. destruct (H2 Ha Hb) as (E1 & E2 & x & E3 & E4 & E5). repeat split; auto. exists x; repeat split; auto; lia.
Qed.

Lemma wp_zero_nogpio boot idx s now a hi : forallb (fun x => negb (is_gpio x)) (wp_zero boot idx s now a hi) = true.
Proof. unfold wp_zero. destruct (_ && _); reflexivity. Qed.

Lemma feed_write_pin m boot idx s now a hi :
  feed m idx (wp_edge idx s now a hi ++ wp_zero boot idx s now a hi) = feed m idx (wp_edge idx s now a hi).
Proof. rewrite feed_app. apply feed_nogpio, wp_zero_nogpio. Qed.

Lemma feed_edge m idx s now a hi :
  feed m idx (wp_edge idx s now a hi) =
  if Bool.eqb (pin_on s a) hi then m
  else mon1_step m (now + RELAY_PRE_US) (if a then 0 else 1) (if hi then 1 else 0).
Proof.
  unfold wp_edge. destruct (Bool.eqb (pin_on s a) hi); [reflexivity|].
  unfold feed; cbn [fold_left feed1]. rewrite Z.eqb_refl. reflexivity.
Qed.

(* writing one pin: interlock is kept when the other pin is off whenever we raise *)
Lemma write_pin_IL boot idx s now a hi m :
  IL s m -> (hi = true -> pin_on s (negb a) = false) ->
  IL (wp_sh boot s now a hi) (feed m idx (wp_edge idx s now a hi ++ wp_zero boot idx s now a hi)).
Proof.
  intros [Ha Hb Hok Hex] Hpre. rewrite feed_write_pin, feed_edge.
  destruct s as [sa sb sw st sp ar du sq dv bl]; destruct m as [xa xb xl xi xs].
  cbn [pa pb ma mb bad_il pin_on] in *. subst xa xb xi.
  destruct a, hi, sa, sb; cbn in Hex, Hpre |- *; try discriminate;
    try (specialize (Hpre eq_refl); discriminate);
    constructor; cbn; reflexivity.
Qed.

(* the stamp logic: spacing is kept when a raise happens only after the modular elapsed time cleared 0.9 s *)
Lemma write_pin_SP boot idx s now a hi m :
  consts_facts -> IL s m -> SP boot now s m ->
  (hi = true -> pin_on s (negb a) = false) ->
  (hi = true -> pin_on s a = false -> SPACING_US <= u32 (u32 (boot + now) - stop s)) ->
  no_zero (wp_edge idx s now a hi ++ wp_zero boot idx s now a hi) ->
  SP boot (wp_now now) (wp_sh boot s now a hi) (feed m idx (wp_edge idx s now a hi ++ wp_zero boot idx s now a hi)).
Proof.
  intros CF [Ha Hb Hok Hex] [Sok Soff Son] Hpre Hclr Hnz.
  rewrite feed_write_pin, feed_edge.
  apply no_zero_app in Hnz as [_ Hnz].
  pose proof (cf_pre CF); pose proof (cf_retry CF); pose proof (cf_post CF).
  assert (Hnow : now <= wp_now now) by (unfold wp_now; lia).
  destruct s as [sa sb sw st sp ar du sq dv bl]; destruct m as [xa xb xl xi xs].
  cbn [pa pb ma mb bad_il bad_sp lf start stop pin_on] in *. subst xa xb xi xs.
  unfold wp_zero, wp_stored in Hnz. cbn [pa pb start stop] in Hnz.
  destruct a, hi, sa, sb; cbn in Hex, Hpre; try discriminate; try (specialize (Hpre eq_refl); discriminate);
    cbn [negb andb orb Bool.eqb wp_sh pa pb start stop] in *;
    unfold mon1_step; cbn [Z.eqb Pos.eqb ma mb lf bad_il bad_sp negb andb orb];
    constructor; cbn [wp_sh pin_on Bool.eqb pa pb start stop ma mb lf bad_il bad_sp negb andb orb];
    try (intros; discriminate); try reflexivity; try (intros; reflexivity).
  (* remaining goals: falling edges / idle writes (both-off clauses) and rising edges (bad_sp) *)
  all: try (intros _ _;
            destruct (Soff eq_refl eq_refl) as (E1 & E2 & x & E3 & E4 & E5);
            split; [reflexivity|]; destruct (sp =? 0) eqn:Ez; [apply Z.eqb_eq in Ez; contradiction|];
            split; [assumption|]; exists x; repeat split; auto; lia).
  all: try (intros _ _; split; [reflexivity|];
            assert (Esp : sp = 0) by (apply Son; reflexivity); subst sp; cbn [Z.eqb] in *;
            destruct (u32 (boot + now) =? 0) eqn:Ez; [cbn in Hnz; discriminate|]; apply Z.eqb_neq in Ez;
            split; [assumption|]; exists now; repeat split; auto; intros l Hl; inversion Hl; lia).
  (* rising edges *)
  all: try (destruct (Soff eq_refl eq_refl) as (E1 & E2 & x & E3 & E4 & E5);
            specialize (Hclr eq_refl eq_refl);
            destruct xl as [l|]; [|reflexivity];
            specialize (E5 l eq_refl);
            rewrite E3 in Hclr; pose proof (u32_diff_le boot now x E4);
            destruct (now + RELAY_PRE_US - l <? SPACING_US) eqn:El; [apply Z.ltb_lt in El; lia | reflexivity]).
Qed.

(* ---------- set_relay ---------- *)
Lemma IL_ext s s' m : pa s' = pa s -> pb s' = pb s -> IL s m -> IL s' m.
Proof. intros Ea Eb [H1 H2 H3 H4]; constructor; congruence. Qed.
Lemma SP_ext boot now s s' m :
  pa s' = pa s -> pb s' = pb s -> start s' = start s -> stop s' = stop s -> SP boot now s m -> SP boot now s' m.
Proof. intros Ea Eb Es Et [H1 H2 H3]; constructor; rewrite ?Ea, ?Eb, ?Es, ?Et; auto. Qed.

Lemma role_other s r : role_is_a s (negb r) = negb (role_is_a s r).
Proof. unfold role_is_a; destruct r, (swp s); reflexivity. Qed.
Lemma pin_on_wp boot s now a hi : pin_on (wp_sh boot s now a hi) a = hi.
Proof. unfold pin_on, wp_sh; destruct a; reflexivity. Qed.
Lemma pins_off s a : pin_on s a = false -> pin_on s (negb a) = false -> pa s = false /\ pb s = false.
Proof. unfold pin_on; destruct a; cbn; auto. Qed.
Lemma role_is_a_wp boot s now a hi r : role_is_a (wp_sh boot s now a hi) r = role_is_a s r.
Proof. reflexivity. Qed.
Lemma swp_wp boot s now a hi : swp (wp_sh boot s now a hi) = swp s.
Proof. reflexivity. Qed.

Lemma start_delay_clear boot n s m :
  consts_facts -> SP boot n s m -> pa s = false -> pb s = false ->
  start_delay_ms false s (u32 (boot + n)) <= RS_DELAY_THRESHOLD ->
  SPACING_US <= u32 (u32 (boot + n) - stop s).
Proof.
  intros CF [_ Soff _] Ha Hb Hd.
  destruct (Soff Ha Hb) as (E1 & E2 & x & E3 & _).
  pose proof (u32_range (boot + x)) as Hr. rewrite <- E3 in Hr.
  unfold start_delay_ms in Hd. rewrite (cf_sd_nz CF), E1 in Hd.
  replace (0 <? stop s) with true in Hd by (symmetry; apply Z.ltb_lt; lia).
  cbn [negb andb implb Z.eqb] in Hd.
  pose proof (cf_sd CF); pose proof (cf_thr CF).
  set (q := u32 (u32 (boot + n) - stop s)) in *.
  destruct (q / 1000 <? RS_START_DELAY_MS) eqn:E.
  - assert (RS_START_DELAY_MS + 1 - RS_DELAY_THRESHOLD <= q / 1000) by lia.
    pose proof (div1000_ge _ _ H1). lia.
  - apply Z.ltb_ge in E. pose proof (div1000_ge _ _ E). lia.
Qed.

Definition all_idx (idx : Z) (o : list out) : Prop := Forall (fun x => out_idx x = idx) o.
Lemma all_idx_app idx o1 o2 : all_idx idx o1 -> all_idx idx o2 -> all_idx idx (o1 ++ o2).
Proof. unfold all_idx; intros; apply Forall_app; auto. Qed.
Lemma all_idx_wp boot idx s now a hi : all_idx idx (wp_edge idx s now a hi ++ wp_zero boot idx s now a hi).
Proof.
  apply all_idx_app; unfold all_idx, wp_edge, wp_zero.
  - destruct (Bool.eqb _ _); repeat constructor.
  - destruct (_ && _); repeat constructor.
Qed.

Lemma relay_hi_inv boot idx s now r hi m s' n' o :
  consts_facts -> IL s m -> (hi = true -> role_on s (negb r) = false) ->
  relay_hi boot idx s now r hi = (s', n', o) ->
  IL s' (feed m idx o) /\ n' = wp_now now /\ all_idx idx o /\ role_on s' r = hi /\
  (SP boot now s m ->
   (hi = true -> pa s = false -> pb s = false -> SPACING_US <= u32 (u32 (boot + now) - stop s)) ->
   no_zero o -> SP boot n' s' (feed m idx o)).
Proof.
  intros CF HIL Hpre E. unfold relay_hi, write_pin in E. injection E as <- <- <-.
  assert (Hpre' : hi = true -> pin_on s (negb (role_is_a s r)) = false).
  { intros Hh. rewrite <- role_other. apply Hpre, Hh. }
  split; [apply write_pin_IL; auto|]. split; [reflexivity|]. split; [apply all_idx_wp|].
  split; [unfold role_on; rewrite role_is_a_wp; apply pin_on_wp|].
  intros HSP Hclr Hnz. apply write_pin_SP; auto.
  intros Hh Hoff. destruct (pins_off _ _ Hoff (Hpre' Hh)). apply Hclr; auto.
Qed.

Lemma prepare_inv og boot idx s0 now value sdz m s1 n1 o1 d :
  consts_facts -> IL s0 m ->
  prepare og boot idx s0 now value sdz = (s1, n1, o1, d) ->
  IL s1 (feed m idx o1) /\ now <= n1 /\ all_idx idx o1 /\
  ((value =? RS_OFF) = false -> role_on s1 (negb (value =? RS_UP)) = false) /\
  (SP boot now s0 m -> no_zero o1 ->
     SP boot n1 s1 (feed m idx o1) /\
     (og = false -> (value =? RS_OFF) = false -> d <= RS_DELAY_THRESHOLD -> pa s1 = false -> pb s1 = false ->
        SPACING_US <= u32 (u32 (boot + n1) - stop s1))).
Proof.
  intros CF HIL EP. unfold prepare in EP.
  assert (HILd : IL (disarm s0) m) by (apply (IL_ext s0); auto).
  pose proof (cf_pre CF); pose proof (cf_retry CF); pose proof (cf_post CF); pose proof (cf_settle CF).
  destruct (value =? RS_OFF) eqn:Eoff.
  - injection EP as <- <- <- <-. rewrite feed_nil.
    split; [assumption|]. split; [lia|]. split; [constructor|]. split; [discriminate|].
    intros HSP _. split; [apply (SP_ext boot now s0); auto | discriminate].
  - set (s := disarm s0) in *. set (ou := negb (value =? RS_UP)) in *.
    destruct (role_on s ou) eqn:Er.
    + destruct (relay_hi boot idx s now ou false) as [[s2 n2] o2] eqn:E2.
      injection EP as <- <- <- <-.
      destruct (relay_hi_inv boot idx s now ou false m s2 n2 o2 CF HILd ltac:(discriminate) E2) as (I2 & En2 & A2 & Hoff2 & HSP2).
      subst n2.
      split; [assumption|]. split; [unfold wp_now; lia|]. split; [assumption|].
      split; [intros _; exact Hoff2|].
      intros HSP Hnz.
      assert (HS1 : SP boot (wp_now now + RS_SETTLE_US) s2 (feed m idx o2)).
      { apply SP_mono with (now := wp_now now); [|lia].
        apply HSP2; auto; [apply (SP_ext boot now s0); auto | discriminate]. }
      split; [exact HS1|].
      intros -> _ Hd Ha Hb. eapply start_delay_clear; eauto.
    + injection EP as <- <- <- <-. rewrite feed_nil.
      split; [assumption|]. split; [lia|]. split; [constructor|].
      split; [intros _; exact Er|].
      intros HSP _.
      assert (HSPd : SP boot now s m) by (apply (SP_ext boot now s0); auto).
      split; [assumption|].
      intros -> _ Hd Ha Hb. eapply start_delay_clear; eauto.
Qed.

Lemma feed_arm m idx o i t ms : feed m idx (o ++ [OArm i t ms]) = feed m idx o.
Proof. rewrite feed_app. reflexivity. Qed.

Lemma set_relay_inv og boot idx s0 now q value sdz m s' n' q' o :
  consts_facts -> IL s0 m ->
  set_relay og boot idx s0 now q value sdz = (s', n', q', o) ->
  IL s' (feed m idx o) /\ now <= n' /\ all_idx idx o /\
  (og = false -> SP boot now s0 m -> no_zero o -> SP boot n' s' (feed m idx o)).
Proof.
  intros CF HIL E. unfold set_relay in E.
  destruct (prepare og boot idx s0 now value sdz) as [[[s1 n1] o1] d] eqn:EP.
  destruct (prepare_inv _ _ _ _ _ _ _ _ _ _ _ _ CF HIL EP) as (I1 & Hn1 & A1 & Hoth & HSP1).
  pose proof (cf_pre CF); pose proof (cf_retry CF); pose proof (cf_post CF).
  destruct (RS_DELAY_THRESHOLD <? d) eqn:Ed.
  { injection E as <- <- <- <-. rewrite feed_arm.
    split; [apply (IL_ext s1); auto|]. split; [lia|].
    split; [apply all_idx_app; [assumption | repeat constructor]|].
    intros Hog HSP Hnz. apply no_zero_app in Hnz as [Hnz _].
    destruct (HSP1 HSP Hnz) as [S1 _]. apply (SP_ext boot n1 s1); auto. }
  apply Z.ltb_ge in Ed.
  destruct (value =? RS_UP) eqn:Eup.
  { assert (Eoff : (value =? RS_OFF) = false) by (apply Z.eqb_eq in Eup; subst value; apply (cf_up_off CF)).
    specialize (Hoth Eoff). cbn [negb] in Hoth.
    destruct (blk s1 =? 1).
    { injection E as <- <- <- <-. split; [assumption|]. split; [assumption|]. split; [assumption|].
      intros Hog HSP Hnz. apply (HSP1 HSP Hnz). }
    destruct (relay_hi boot idx s1 n1 true true) as [[s2 n2] o2] eqn:E2.
    injection E as <- <- <- <-.
    destruct (relay_hi_inv boot idx s1 n1 true true _ s2 n2 o2 CF I1 ltac:(intros _; exact Hoth) E2) as (I2 & En2 & A2 & _ & HSP2).
    subst n2. rewrite feed_app.
    split; [assumption|]. split; [unfold wp_now; lia|]. split; [apply all_idx_app; assumption|].
    intros Hog HSP Hnz. apply no_zero_app in Hnz as [Hnz1 Hnz2].
    destruct (HSP1 HSP Hnz1) as [S1 Hclr].
    apply HSP2; auto. }
  destruct (value =? RS_DOWN) eqn:Edn.
  { assert (Eoff : (value =? RS_OFF) = false) by (apply Z.eqb_eq in Edn; subst value; apply (cf_down_off CF)).
    specialize (Hoth Eoff). cbn [negb] in Hoth.
    destruct (blk s1 =? 2).
    { injection E as <- <- <- <-. split; [assumption|]. split; [assumption|]. split; [assumption|].
      intros Hog HSP Hnz. apply (HSP1 HSP Hnz). }
    destruct (relay_hi boot idx s1 n1 false true) as [[s2 n2] o2] eqn:E2.
    injection E as <- <- <- <-.
    destruct (relay_hi_inv boot idx s1 n1 false true _ s2 n2 o2 CF I1 ltac:(intros _; exact Hoth) E2) as (I2 & En2 & A2 & _ & HSP2).
    subst n2. rewrite feed_app.
    split; [assumption|]. split; [unfold wp_now; lia|]. split; [apply all_idx_app; assumption|].
    intros Hog HSP Hnz. apply no_zero_app in Hnz as [Hnz1 Hnz2].
    destruct (HSP1 HSP Hnz1) as [S1 Hclr].
    apply HSP2; auto. }
  (* any other value: both outputs are switched off *)
  destruct (relay_hi boot idx s1 n1 true false) as [[s2 n2] o2] eqn:E2.
  destruct (relay_hi boot idx s2 n2 false false) as [[s3 n3] o3] eqn:E3.
  injection E as <- <- <- <-.
  destruct (relay_hi_inv boot idx s1 n1 true false _ s2 n2 o2 CF I1 ltac:(discriminate) E2) as (I2 & En2 & A2 & _ & HSP2).
  destruct (relay_hi_inv boot idx s2 n2 false false _ s3 n3 o3 CF I2 ltac:(discriminate) E3) as (I3 & En3 & A3 & _ & HSP3).
  subst n2 n3. rewrite (feed_app m idx o1), (feed_app (feed m idx o1) idx o2).
  split; [assumption|]. split; [unfold wp_now; lia|].
  split; [apply all_idx_app; [assumption | apply all_idx_app; assumption]|].
  intros Hog HSP Hnz. apply no_zero_app in Hnz as [Hnz1 Hnz2]. apply no_zero_app in Hnz2 as [Hnz2 Hnz3].
  destruct (HSP1 HSP Hnz1) as [S1 _].
  apply HSP3; auto; try discriminate. apply HSP2; auto; discriminate.
Qed.

(* ---------- the device: all shutters ---------- *)
Lemma verdict_app i outs o : verdict i (outs ++ o) = feed (verdict i outs) i o.
Proof. unfold verdict; apply feed_app. Qed.

Lemma nth_error_upd_same l n (x y : sh) : nth_error l n = Some x -> nth_error (upd l n y) n = Some y.
Proof. revert n; induction l as [|a r IH]; intros [|n] H; cbn in *; try discriminate; auto. Qed.
Lemma nth_error_upd_other l n k (y : sh) : n <> k -> nth_error (upd l n y) k = nth_error l k.
Proof.
  revert n k; induction l as [|a r IH]; intros [|n] [|k] H; cbn; try reflexivity; try congruence.
  apply IH; congruence.
Qed.
Lemma upd_length l n (y : sh) : length (upd l n y) = length l.
Proof. revert n; induction l as [|a r IH]; intros [|n]; cbn; auto. Qed.

Lemma nth_sh_nonneg l i x : nth_sh l i = Some x -> 0 <= i.
Proof. unfold nth_sh; destruct (i <? 0) eqn:E; [discriminate | apply Z.ltb_ge in E; auto]. Qed.
Lemma nth_sh_upd_same l i x y : nth_sh l i = Some x -> nth_sh (upd l (Z.to_nat i) y) i = Some y.
Proof. unfold nth_sh; destruct (i <? 0); [discriminate|]. apply nth_error_upd_same. Qed.
Lemma nth_sh_upd_other l i j y : 0 <= i -> i <> j -> nth_sh (upd l (Z.to_nat i) y) j = nth_sh l j.
Proof.
  intros Hi Hne. unfold nth_sh. destruct (j <? 0) eqn:E; [reflexivity|]. apply Z.ltb_ge in E.
  apply nth_error_upd_other. intro H. apply Hne. apply Z2Nat.inj; auto.
Qed.

Definition INV_IL (s : st) (outs : list out) : Prop :=
  forall i x, nth_sh (shs s) i = Some x -> IL x (verdict i outs).
Definition INV_SP (boot : Z) (s : st) (outs : list out) : Prop :=
  forall i x, nth_sh (shs s) i = Some x -> SP boot (now s) x (verdict i outs).

Lemma all_idx_other i j o : all_idx i o -> i <> j -> Forall (fun x => out_idx x <> j) o.
Proof. unfold all_idx; intros H Hne; eapply Forall_impl; [|exact H]. cbn; intros; congruence. Qed.

(* shutter i is replaced by x' (its own outputs o), the clock moves forward *)
Lemma upd_INV_IL s outs i x x' n' q' o :
  nth_sh (shs s) i = Some x -> IL x' (feed (verdict i outs) i o) -> all_idx i o ->
  INV_IL s outs -> INV_IL (mkSt n' q' (upd (shs s) (Z.to_nat i) x')) (outs ++ o).
Proof.
  intros Hx HI HA Hinv j y Hy. cbn [shs] in Hy. rewrite verdict_app.
  destruct (Z.eq_dec i j) as [->|Hne].
  - rewrite (nth_sh_upd_same _ _ _ _ Hx) in Hy. injection Hy as <-. exact HI.
  - rewrite nth_sh_upd_other in Hy by (eauto using nth_sh_nonneg).
    rewrite feed_other by (eapply all_idx_other; eauto). apply Hinv; auto.
Qed.
Lemma upd_INV_SP boot s outs i x x' n' q' o :
  nth_sh (shs s) i = Some x -> SP boot n' x' (feed (verdict i outs) i o) -> all_idx i o -> now s <= n' ->
  INV_SP boot s outs -> INV_SP boot (mkSt n' q' (upd (shs s) (Z.to_nat i) x')) (outs ++ o).
Proof.
  intros Hx HS HA Hn Hinv j y Hy. cbn [shs now] in *. rewrite verdict_app.
  destruct (Z.eq_dec i j) as [->|Hne].
  - rewrite (nth_sh_upd_same _ _ _ _ Hx) in Hy. injection Hy as <-. exact HS.
  - rewrite nth_sh_upd_other in Hy by (eauto using nth_sh_nonneg).
    rewrite feed_other by (eapply all_idx_other; eauto). eapply SP_mono; [apply Hinv; auto | exact Hn].
Qed.

Ltac noop E HIL :=
  injection E as <- <-; rewrite app_nil_r; split; [exact HIL|]; split; [lia|]; split; [reflexivity|];
  intros _ HSP _; exact HSP.

Lemma step_inv og boot s e s' o outs :
  consts_facts -> INV_IL s outs -> step og boot s e = (s', o) ->
  INV_IL s' (outs ++ o) /\ now s <= now s' /\ length (shs s') = length (shs s) /\
  (og = false -> INV_SP boot s outs -> no_zero o -> INV_SP boot s' (outs ++ o)).
Proof.
  intros CF HIL E. destruct e as [i v sd | i m | i p | i | t]; cbn [step] in E.
  - (* ECall *)
    destruct (nth_sh (shs s) i) as [x|] eqn:Hx.
    + destruct (set_relay og boot i x (now s) (seqc s) v sd) as [[[x' n'] q'] o'] eqn:ES.
      injection E as <- <-.
      destruct (set_relay_inv _ _ _ _ _ _ _ _ _ _ _ _ _ CF (HIL i x Hx) ES) as (I' & Hn & A' & HS').
      split; [eapply upd_INV_IL; eauto|]. split; [exact Hn|]. split; [cbn [shs]; apply upd_length|].
      intros Hog HSP Hnz. eapply upd_INV_SP; eauto.
    + noop E HIL.
  - (* ESwap *)
    destruct (nth_sh (shs s) i) as [x|] eqn:Hx; [|noop E HIL].
    destruct (_ && _); [|noop E HIL].
    injection E as <- <-.
    split; [eapply upd_INV_IL; eauto; [rewrite feed_nil; apply (IL_ext x); try reflexivity; apply (HIL i x Hx) | constructor]|].
    split; [cbn; lia|]. split; [cbn [shs]; apply upd_length|].
    intros _ HSP _. eapply upd_INV_SP; eauto; [|constructor|lia].
    rewrite feed_nil. apply (SP_ext boot (now s) x); try reflexivity. apply (HSP i x Hx).
  - (* EPos *)
    destruct (nth_sh (shs s) i) as [x|] eqn:Hx; [|noop E HIL].
    injection E as <- <-.
    split; [eapply upd_INV_IL; eauto; [rewrite feed_nil; apply (IL_ext x); try reflexivity; apply (HIL i x Hx) | constructor]|].
    split; [cbn; lia|]. split; [cbn [shs]; apply upd_length|].
    intros _ HSP _. eapply upd_INV_SP; eauto; [|constructor|lia].
    rewrite feed_nil. apply (SP_ext boot (now s) x); try reflexivity. apply (HSP i x Hx).
  - (* EFire *)
    destruct (nth_sh (shs s) i) as [x|] eqn:Hx; [|noop E HIL].
    destruct (armed x); [|noop E HIL].
    destruct (set_relay og boot i x (now s) (seqc s) (dval x) 0) as [[[x' n'] q'] o'] eqn:ES.
    injection E as <- <-.
    destruct (set_relay_inv _ _ _ _ _ _ _ _ _ _ _ _ _ CF (HIL i x Hx) ES) as (I' & Hn & A' & HS').
    split; [eapply upd_INV_IL; eauto|]. split; [exact Hn|]. split; [cbn [shs]; apply upd_length|].
    intros Hog HSP Hnz. eapply upd_INV_SP; eauto.
  - (* ETime *)
    injection E as <- <-. rewrite app_nil_r. cbn [now shs].
    split; [exact HIL|]. split; [lia|]. split; [reflexivity|].
    intros _ HSP _ i x Hx. cbn [now shs] in *. eapply SP_mono; [apply HSP; exact Hx | lia].
Qed.

Lemma run_inv og boot evs : forall s s' o outs,
  consts_facts -> INV_IL s outs -> run_from og boot s evs = (s', o) ->
  INV_IL s' (outs ++ o) /\ length (shs s') = length (shs s) /\
  (og = false -> INV_SP boot s outs -> no_zero o -> INV_SP boot s' (outs ++ o)).
Proof.
  induction evs as [|e r IH]; intros s s' o outs CF HIL E; cbn [run_from] in E.
  - injection E as <- <-. rewrite app_nil_r. split; [exact HIL|]. split; [reflexivity|]. intros _ HSP _; exact HSP.
  - destruct (step og boot s e) as [s1 o1] eqn:E1.
    destruct (run_from og boot s1 r) as [s2 o2] eqn:E2.
    injection E as <- <-.
    destruct (step_inv _ _ _ _ _ _ _ CF HIL E1) as (I1 & _ & L1 & S1).
    destruct (IH _ _ _ _ CF I1 E2) as (I2 & L2 & S2).
    rewrite app_assoc. split; [exact I2|]. split; [congruence|].
    intros Hog HSP Hnz. apply no_zero_app in Hnz as [Hz1 Hz2]. apply S2; auto.
Qed.

(* initial state *)
Lemma nth_sh_repeat x k i y : nth_sh (repeat x k) i = Some y -> y = x /\ (0 < k)%nat.
Proof.
  unfold nth_sh. destruct (i <? 0); [discriminate|]. intros H.
  pose proof (nth_error_In _ _ H) as Hin. apply repeat_spec in Hin. split; [exact Hin|].
  destruct k; [destruct (Z.to_nat i); discriminate | lia].
Qed.
Lemma init_outs_nogpio boot n t0 : forallb (fun x => negb (is_gpio x)) (init_outs boot n t0) = true.
Proof.
  unfold init_outs. destruct (_ =? 0); [|reflexivity].
  induction (List.seq 0 (Z.to_nat n)); cbn; auto.
Qed.
Lemma verdict_init boot n t0 i : verdict i (init_outs boot n t0) = mon0.
Proof. unfold verdict. apply feed_nogpio, init_outs_nogpio. Qed.

Lemma init_INV_IL boot n t0 : INV_IL (init boot n t0) (init_outs boot n t0).
Proof.
  intros i x Hx. cbn [init shs] in Hx. apply nth_sh_repeat in Hx as [-> _].
  rewrite verdict_init. constructor; reflexivity.
Qed.
Lemma init_INV_SP boot n t0 : no_zero (init_outs boot n t0) -> INV_SP boot (init boot n t0) (init_outs boot n t0).
Proof.
  intros Hnz i x Hx. cbn [init shs now] in *. apply nth_sh_repeat in Hx as [-> Hk].
  rewrite verdict_init. constructor; cbn; try reflexivity; try discriminate.
  intros _ _. split; [reflexivity|]. split.
  - intro Hz. unfold no_zero, init_outs in Hnz. rewrite Hz in Hnz. cbn [Z.eqb] in Hnz.
    destruct (Z.to_nat n); [lia|]. cbn in Hnz. discriminate.
  - exists t0. repeat split; [lia | intros l Hl; discriminate].
Qed.

Lemma nth_sh_some l i : 0 <= i < Z.of_nat (length l) -> exists x, nth_sh l i = Some x.
Proof.
  intros [H0 H1]. unfold nth_sh. destruct (i <? 0) eqn:E; [apply Z.ltb_lt in E; lia|].
  destruct (nth_error l (Z.to_nat i)) eqn:En; [eauto|]. apply nth_error_None in En. lia.
Qed.

(* ---------- the property theorems ---------- *)
Theorem C08_interlock_thm : forall og boot n t0 evs i, 0 <= i < n ->
  bad_il (verdict i (init_outs boot n t0 ++ snd (run_from og boot (init boot n t0) evs))) = false.
Proof.
  intros og boot n t0 evs i Hi.
  destruct (run_from og boot (init boot n t0) evs) as [s' o] eqn:E. cbn [snd].
  destruct (run_inv _ _ _ _ _ _ _ consts_ok (init_INV_IL boot n t0) E) as (I & L & _).
  destruct (nth_sh_some (shs s') i) as [x Hx].
  { rewrite L. cbn [init shs]. rewrite repeat_length. lia. }
  apply (il_ok _ _ (I i x Hx)).
Qed.

Theorem C08_spacing_thm : forall boot n t0 evs i, 0 <= i < n ->
  no_zero (run boot n t0 evs) -> bad_sp (verdict i (run boot n t0 evs)) = false.
Proof.
  intros boot n t0 evs i Hi Hnz. unfold run in *.
  destruct (run_from CURRENT_OG boot (init boot n t0) evs) as [s' o] eqn:E. cbn [snd] in *.
  apply no_zero_app in Hnz as [Hz0 Hz1].
  destruct (run_inv _ _ _ _ _ _ _ consts_ok (init_INV_IL boot n t0) E) as (I & L & S).
  specialize (S eq_refl (init_INV_SP boot n t0 Hz0) Hz1).
  destruct (nth_sh_some (shs s') i) as [x Hx].
  { rewrite L. cbn [init shs]. rewrite repeat_length. lia. }
  apply (sp_ok _ _ _ _ (S i x Hx)).
Qed.

(* ---------- the unchanged code (ordering comparison on the wrapping counter) is refuted ---------- *)
Definition witness_boot : Z := 4294967296 - 3550000.
Definition witness_evs : list ev :=
  [ETime 2000000; ECall 0 RS_UP 0; ETime 3510000; ECall 0 RS_OFF 0; ETime 3630000; ECall 0 RS_DOWN 0].
Definition run_og (og : bool) (boot n t0 : Z) (evs : list ev) : list out :=
  init_outs boot n t0 ++ snd (run_from og boot (init boot n t0) evs).

Theorem C08_old_code_refuted_thm :
  let old := run_og true witness_boot 1 0 witness_evs in
  no_zero old /\ bad_sp (verdict 0 old) = true /\
  old = [OGpio 0 2000010 0 1; OGpio 0 3510010 0 0; OGpio 0 3630010 1 1] /\
  run witness_boot 1 0 witness_evs = [OGpio 0 2000010 0 1; OGpio 0 3510010 0 0; OArm 0 3630000 881] /\
  run_og true 1 1 0 witness_evs = [OGpio 0 2000010 0 1; OGpio 0 3510010 0 0; OArm 0 3630000 881].
Proof. vm_compute. repeat split; reflexivity. Qed.

(* the property's exclusion is needed: when the stop stamp is sampled as exactly 0 the spacing is lost
   (also in the repaired code), and the run is flagged by OZero *)
Definition zero_evs : list ev := [ETime 2000000; ECall 0 RS_UP 0; ETime 3510000; ECall 0 RS_DOWN 0].
Theorem C08_zero_stamp_exclusion_needed_thm :
  let o := run (4294967296 - 3510000) 1 0 zero_evs in
  bad_sp (verdict 0 o) = true /\ In (OZero 0 3510000) o /\ bad_il (verdict 0 o) = false /\
  bad_sp (verdict 0 (run (4294967296 - 3510001) 1 0 zero_evs)) = false.
Proof. vm_compute. repeat split; try reflexivity. repeat ((left; reflexivity) || right). Qed.

(* ---------- every trace produced through the wire interface is a run of small events ---------- *)
Lemma run_from_app og boot e1 : forall s e2,
  run_from og boot s (e1 ++ e2) =
  let '(s1, o1) := run_from og boot s e1 in let '(s2, o2) := run_from og boot s1 e2 in (s2, o1 ++ o2).
Proof.
  induction e1 as [|e r IH]; intros s e2; cbn [run_from app].
  - destruct (run_from og boot s e2); reflexivity.
  - destruct (step og boot s e) as [s1 o1]. rewrite IH.
    destruct (run_from og boot s1 r) as [s2 o2]. destruct (run_from og boot s2 e2) as [s3 o3].
    rewrite app_assoc; reflexivity.
Qed.
Lemma run_from_one og boot s e : run_from og boot s [e] = step og boot s e.
Proof. cbn. destruct (step og boot s e). rewrite app_nil_r. reflexivity. Qed.

Lemma adv_is_run og boot late fuel : forall s endt, exists evs, adv fuel og boot late s endt = run_from og boot s evs.
Proof.
  induction fuel as [|k IH]; intros s endt; cbn [adv].
  - exists [ETime endt]. symmetry; apply run_from_one.
  - destruct (pick (shs s) 0 endt None) as [[[i d] q]|].
    + destruct (step og boot s (ETime (d + late))) as [s1 o1] eqn:E1.
      destruct (step og boot s1 (EFire i)) as [s2 o2] eqn:E2.
      destruct (IH s2 endt) as [evs Hev].
      exists (ETime (d + late) :: EFire i :: evs).
      cbn [run_from]. rewrite E1, E2, Hev. destruct (run_from og boot s2 evs). reflexivity.
    + exists [ETime endt]. symmetry; apply run_from_one.
Qed.

Lemma run_wire_is_run og boot late ws : forall s, exists evs, run_wire og boot late s ws = snd (run_from og boot s evs).
Proof.
  induction ws as [|[[k a] b] r IH]; intros s; cbn [run_wire].
  - exists []. reflexivity.
  - assert (H : forall so : st * list out, (exists e1, so = run_from og boot s e1) ->
              exists evs, (let '(s1, o1) := so in o1 ++ run_wire og boot late s1 r) = snd (run_from og boot s evs)).
    { intros [s1 o1] [e1 He1]. destruct (IH s1) as [e2 He2]. exists (e1 ++ e2).
      rewrite run_from_app, <- He1. rewrite He2. destruct (run_from og boot s1 e2). reflexivity. }
    destruct (k =? 1). { apply H. eexists [_]. symmetry; apply run_from_one. }
    destruct (k =? 2). { apply H. eexists [_]. symmetry; apply run_from_one. }
    destruct (k =? 3). { apply H. apply adv_is_run. }
    destruct (k =? 4). { apply H. eexists [_]. symmetry; apply run_from_one. }
    apply (H (s, [])). exists []. reflexivity.
Qed.

(* what the harness compares with the C code is therefore covered by the theorems above *)
Theorem C08_wire_traces_are_runs_thm : forall og boot n late ws,
  exists evs, init_outs boot n 0 ++ run_wire og boot late (init boot n 0) ws = run_og og boot n 0 evs.
Proof. intros. destruct (run_wire_is_run og boot late ws (init boot n 0)) as [evs H]. exists evs. unfold run_og. rewrite H. reflexivity. Qed.

(* ---------- routing: commands that do not go through set_relay never reach a shutter pin ---------- *)
Lemma find_idx_some {A} (p : A -> bool) l : forall k r, find_idx p l k = Some r ->
  k <= r /\ exists x, nth_error l (Z.to_nat (r - k)) = Some x /\ p x = true.
Proof.
  induction l as [|y t IH]; intros k r H; cbn [find_idx] in H; [discriminate|].
  destruct (p y) eqn:E.
  - injection H as <-. split; [lia|]. exists y. rewrite Z.sub_diag. cbn. auto.
  - destruct (IH _ _ H) as (Hle & x & Hn & Hp). split; [lia|]. exists x. split; [|exact Hp].
    replace (Z.to_nat (r - k)) with (S (Z.to_nat (r - (k + 1)))) by lia. exact Hn.
Qed.
Lemma find_idx_none {A} (p : A -> bool) l : forall k, find_idx p l k = None -> forall x, In x l -> p x = false.
Proof.
  induction l as [|y t IH]; intros k H x Hin; [contradiction|]. cbn [find_idx] in H.
  destruct (p y) eqn:E; [discriminate|]. destruct Hin as [<-|Hin]; eauto.
Qed.

Definition shutter_gpio (b : board) (g : Z) : Prop :=
  exists r, 0 <= r < Z.of_nat (length (relays b)) /\ relay_gpio b r = g /\ in_shutter b r = true.

Lemma relay_nth b r x : nth_error (relays b) (Z.to_nat r) = Some x -> relay_gpio b r = fst x /\ relay_chan b r = snd x.
Proof. intros H. unfold relay_gpio, relay_chan. rewrite (nth_error_nth _ _ _ H). auto. Qed.

Lemma gpio_unique b r r' : wf_board b ->
  0 <= r < Z.of_nat (length (relays b)) -> 0 <= r' < Z.of_nat (length (relays b)) ->
  relay_gpio b r = relay_gpio b r' -> r = r'.
Proof.
  intros (Hnd & _ & _) Hr Hr' E. unfold distinct_gpios in Hnd.
  rewrite NoDup_nth with (d := 255) in Hnd.
  assert (Hm : forall k, (k < length (relays b))%nat -> nth k (map fst (relays b)) 255 = fst (nth k (relays b) (255, -1))).
  { intros k Hk. change 255 with (fst (255, -1)) at 1. apply map_nth. }
  assert (Z.to_nat r = Z.to_nat r').
  { apply Hnd; rewrite ?map_length; try lia. rewrite !Hm by lia. exact E. }
  lia.
Qed.

Theorem C08_routing_server_thm : forall b ch r, wf_board b ->
  route_server b ch = APlain r -> ~ shutter_gpio b (relay_gpio b r).
Proof.
  intros b ch r WF H (r' & Hr' & Eg & Hin). unfold route_server in H.
  destruct (find_idx (fun ud => relay_chan b (fst ud) =? ch) (rss b) 0) eqn:E1; [discriminate|].
  destruct (find_idx (fun gc => negb (fst gc =? 255) && (snd gc =? ch)) (relays b) 0) as [r0|] eqn:E2; [|discriminate].
  injection H as <-.
  destruct (find_idx_some _ _ _ _ E2) as (H0 & x & Hn & Hp). rewrite Z.sub_0_r in Hn.
  apply andb_true_iff in Hp as [_ Hc]. apply Z.eqb_eq in Hc.
  destruct (relay_nth _ _ _ Hn) as [_ Ec].
  assert (Hr0 : 0 <= r0 < Z.of_nat (length (relays b))).
  { split; [lia|]. assert (Z.to_nat r0 < length (relays b))%nat by (apply nth_error_Some; congruence). lia. }
  assert (r' = r0) by (apply (gpio_unique b); auto). subst r'.
  unfold in_shutter in Hin. apply existsb_exists in Hin as (ud & Hud & Hor).
  pose proof (find_idx_none _ _ _ E1 ud Hud) as Hne. cbn in Hne. apply Z.eqb_neq in Hne.
  destruct WF as (_ & _ & Hrs). rewrite Forall_forall in Hrs. destruct (Hrs ud Hud) as (_ & _ & Esame).
  apply orb_true_iff in Hor as [Hf|Hs]; apply Z.eqb_eq in Hf || apply Z.eqb_eq in Hs; congruence.
Qed.

Theorem C08_routing_input_thm : forall b port, wf_board b ->
  (route_input b port = ANone \/ exists r, route_input b port = APlain r) -> ~ shutter_gpio b port.
Proof.
  intros b port WF H (r' & Hr' & Eg & Hin). unfold route_input in H.
  destruct (port =? 255) eqn:E255.
  { apply Z.eqb_eq in E255. destruct WF as (_ & Hno & _). rewrite Forall_forall in Hno.
    destruct (nth_error (relays b) (Z.to_nat r')) as [x|] eqn:En.
    - destruct (relay_nth _ _ _ En) as [Eg' _]. apply (Hno x); [eapply nth_error_In; eauto | congruence].
    - apply nth_error_None in En. lia. }
  destruct (find_idx (fun gc => fst gc =? port) (relays b) 0) as [r0|] eqn:E1.
  - destruct (find_idx_some _ _ _ _ E1) as (H0 & x & Hn & Hp). rewrite Z.sub_0_r in Hn. apply Z.eqb_eq in Hp.
    destruct (relay_nth _ _ _ Hn) as [Eg0 _].
    assert (Hr0 : 0 <= r0 < Z.of_nat (length (relays b))).
    { split; [lia|]. assert (Z.to_nat r0 < length (relays b))%nat by (apply nth_error_Some; congruence). lia. }
    assert (r' = r0) by (apply (gpio_unique b); auto; congruence). subst r'.
    destruct (find_idx (fun ud => (fst ud =? r0) || (snd ud =? r0)) (rss b) 0) eqn:E2.
    + destruct H as [H|[r H]]; discriminate.
    + unfold in_shutter in Hin. apply existsb_exists in Hin as (ud & Hud & Hor).
      pose proof (find_idx_none _ _ _ E2 ud Hud) as Hne. cbn in Hne. congruence.
  - destruct (nth_error (relays b) (Z.to_nat r')) as [x|] eqn:En.
    + destruct (relay_nth _ _ _ En) as [Eg' _].
      pose proof (find_idx_none _ _ _ E1 x (nth_error_In _ _ En)) as Hne. cbn in Hne. apply Z.eqb_neq in Hne. congruence.
    + apply nth_error_None in En. lia.
Qed.

(* the motor swap exchanges the two pointers of one shutter: the board stays well-formed, so the two
   routing theorems also hold after any number of swaps *)
Theorem C08_wf_board_swap_thm : forall b k, wf_board b -> wf_board (swap_board b k).
Proof.
  intros b k (H1 & H2 & H3). unfold swap_board, wf_board; cbn [relays rss]. split; [exact H1|]. split; [exact H2|].
  rewrite <- (firstn_skipn k (rss b)) in H3. apply Forall_app in H3 as [Ha Hb].
  apply Forall_app. split.
  - eapply Forall_impl; [|exact Ha]. cbn. intros ud (A & B & C). repeat split; try apply A; try apply B; exact C.
  - destruct (skipn k (rss b)) as [|ud t]; [constructor|].
    inversion Hb as [|? ? Hx Ht]; subst. constructor.
    + cbn [fst snd]. destruct Hx as (A & B & C). unfold relay_chan in *. cbn [relays]. repeat split; try apply A; try apply B. symmetry; exact C.
    + eapply Forall_impl; [|exact Ht]. cbn. intros u (A & B & C). repeat split; try apply A; try apply B; exact C.
Qed.
