From Coq Require Import Extraction ExtrOcamlBasic.
From V Require Import C08.Model.
Extraction Language OCaml.
Extraction "model.ml" main_wire main_wire_og.
