(* C08 — roller-shutter outputs: interlock and start/stop spacing.  Definitions only.

   Modelled C (klew/supla-espressif-esp):
     supla_esp_gpio_relay_hi            (supla_esp_gpio.c)  — the part that writes the pin and stamps
                                                              rs_cfg->start_time / stop_time
     supla_esp_gpio_rs_set_relay        (supla_esp_rs_fb.c) — the choke point
     supla_esp_gpio_rs_set_relay_delayed + delayed_trigger.timer
     the up/down pointer swap of supla_esp_gpio_{rs,fb}_apply_new_config
     the RS part of supla_esp_gpio_init (stop_time := init time)
     routing of supla_esp_channel_set_value / supla_esp_gpio_on_input_* (second half of the file)

   Most general client: the events are *arbitrary* calls of set_relay, swaps, timer firings (even before
   they are due) and time advances; `boot` (value of the 32-bit microsecond counter at boot) is a free
   parameter; true time `now` is an unbounded Z of microseconds, the counter read is u32 (boot + now). *)
From Coq Require Import List ZArith Bool Lia.
Import ListNotations.
From V Require Import Base.U32 Base.Iface Gen.RsSpacingConsts.
Local Open Scope Z_scope.

(* the property text: "for at least 0.9 s" *)
Definition SPACING_US : Z := 900000.

(* ---------- one shutter ---------- *)
(* pa / pb : level of the GPIO of the relay that the board declared as `up` / `down` (pins never move);
   swp     : rs_cfg->up and ->down are currently exchanged (MotorUpsideDown);
   start/stop : rs_cfg->start_time / stop_time, raw counter values, 0 = unset;
   armed/due/seq/dval : delayed_trigger.timer (one-shot), its expiry in true time, arming order, .value;
   blk     : environment: 1 = position estimate is 0 % (UP is refused), 2 = 100 % (DOWN refused). *)
Record sh := mkSh { pa : bool; pb : bool; swp : bool; start : Z; stop : Z;
                    armed : bool; due : Z; seq : Z; dval : Z; blk : Z }.

Inductive out :=
| OGpio (idx t which lvl : Z)     (* edge of the output register: which 0 = board `up` pin, 1 = board `down` pin *)
| OArm (idx t ms : Z)             (* os_timer_arm(&delayed_trigger.timer, ms, 0) at true time t *)
| OZero (idx t : Z).              (* a sampled counter value stored as a stamp was exactly 0 (= "unset") *)

(* does role `up` (true) / `down` (false) currently designate pin a? *)
Definition role_is_a (s : sh) (role_up : bool) : bool := xorb role_up (swp s).
Definition pin_on (s : sh) (a : bool) : bool := if a then pa s else pb s.
Definition role_on (s : sh) (role_up : bool) : bool := pin_on s (role_is_a s role_up).

(* supla_esp_gpio_relay_hi(gpio of pin a/b, hi) for a relay that belongs to shutter idx, entered at true time
   `now`:  t = system_get_time(); os_delay_us(PRE); write; [os_delay_us(RETRY); write;] stamps := t; os_delay_us(POST) *)
Definition wp_sh (boot : Z) (s : sh) (now : Z) (a hi : bool) : sh :=
  let t := u32 (boot + now) in
  let pa1 := if a then hi else pa s in
  let pb1 := if a then pb s else hi in
  let off := negb pa1 && negb pb1 in
  mkSh pa1 pb1 (swp s)
       (if off then 0 else if start s =? 0 then t else start s)
       (if off then (if stop s =? 0 then t else stop s) else 0)
       (armed s) (due s) (seq s) (dval s) (blk s).
Definition wp_stored (s : sh) (a hi : bool) : bool :=
  let pa1 := if a then hi else pa s in
  let pb1 := if a then pb s else hi in
  if negb pa1 && negb pb1 then stop s =? 0 else start s =? 0.
Definition wp_edge (idx : Z) (s : sh) (now : Z) (a hi : bool) : list out :=
  if Bool.eqb (pin_on s a) hi then []
  else [OGpio idx (now + RELAY_PRE_US) (if a then 0 else 1) (if hi then 1 else 0)].
Definition wp_zero (boot idx : Z) (s : sh) (now : Z) (a hi : bool) : list out :=
  if wp_stored s a hi && (u32 (boot + now) =? 0) then [OZero idx now] else [].
Definition wp_now (now : Z) : Z := now + RELAY_PRE_US + RELAY_RETRY_US + RELAY_POST_US.
Definition write_pin (boot idx : Z) (s : sh) (now : Z) (a hi : bool) : sh * Z * list out :=
  (wp_sh boot s now a hi, wp_now now, wp_edge idx s now a hi ++ wp_zero boot idx s now a hi).
Definition relay_hi (boot idx : Z) (s : sh) (now : Z) (role_up hi : bool) : sh * Z * list out :=
  write_pin boot idx s now (role_is_a s role_up) hi.

Definition disarm (s : sh) : sh :=
  mkSh (pa s) (pb s) (swp s) (start s) (stop s) false (due s) (seq s) (dval s) (blk s).
Definition arm (s : sh) (v d q : Z) : sh :=
  mkSh (pa s) (pb s) (swp s) (start s) (stop s) true d q v (blk s).

(* og = true: the code before the proposed fix, with the ordering comparisons `t >= start_time`,
   `t >= stop_time` on the wrapping counter *)
Definition stop_delay_ms (og sd : bool) (s : sh) (t : Z) : Z :=
  if negb (RS_STOP_DELAY_MS =? 0) && sd && (0 <? start s) && (stop s =? 0)
     && (implb og (start s <=? t)) && (u32 (t - start s) / 1000 <? RS_STOP_DELAY_MS)
  then RS_STOP_DELAY_MS - u32 (t - start s) / 1000 + 1 else 0.
Definition start_delay_ms (og : bool) (s : sh) (t : Z) : Z :=
  if negb (RS_START_DELAY_MS =? 0) && (start s =? 0) && (0 <? stop s)
     && (implb og (stop s <=? t)) && (u32 (t - stop s) / 1000 <? RS_START_DELAY_MS)
  then RS_START_DELAY_MS - u32 (t - stop s) / 1000 + 1 else 0.

(* first half of supla_esp_gpio_rs_set_relay: disarm, (switch the opposite output off + settle), delay *)
Definition prepare (og : bool) (boot idx : Z) (s0 : sh) (now value sdz : Z) : sh * Z * list out * Z :=
  let s := disarm s0 in
  if value =? RS_OFF then (s, now, [], stop_delay_ms og (sdz =? 1) s (u32 (boot + now)))
  else
    let other_up := negb (value =? RS_UP) in           (* rel = value == RS_RELAY_UP ? down : up *)
    if role_on s other_up then
      let '(s1, n1, o1) := relay_hi boot idx s now other_up false in
      let n2 := n1 + RS_SETTLE_US in                    (* os_delay_us(10000); t = system_get_time(); *)
      (s1, n2, o1, start_delay_ms og s1 (u32 (boot + n2)))
    else (s, now, [], start_delay_ms og s (u32 (boot + now))).

(* returns (shutter, now, arming counter, outputs) *)
Definition set_relay (og : bool) (boot idx : Z) (s0 : sh) (now seqc value sdz : Z) : sh * Z * Z * list out :=
  let '(s1, n1, o1, delay) := prepare og boot idx s0 now value sdz in
  if RS_DELAY_THRESHOLD <? delay then
    (arm s1 value (n1 + delay * 1000) seqc, n1, seqc + 1, o1 ++ [OArm idx n1 delay])
  else if value =? RS_UP then
    if blk s1 =? 1 then (s1, n1, seqc, o1)
    else let '(s2, n2, o2) := relay_hi boot idx s1 n1 true true in (s2, n2, seqc, o1 ++ o2)
  else if value =? RS_DOWN then
    if blk s1 =? 2 then (s1, n1, seqc, o1)
    else let '(s2, n2, o2) := relay_hi boot idx s1 n1 false true in (s2, n2, seqc, o1 ++ o2)
  else
    let '(s2, n2, o2) := relay_hi boot idx s1 n1 true false in
    let '(s3, n3, o3) := relay_hi boot idx s2 n2 false false in
    (s3, n3, seqc, o1 ++ o2 ++ o3).

(* ---------- the device: up to RS_MAX shutters sharing the clock ---------- *)
Record st := mkSt { now : Z; seqc : Z; shs : list sh }.

Inductive ev :=
| ECall (i v sd : Z)       (* supla_esp_gpio_rs_set_relay(&supla_rs_cfg[i], v, _, sd) *)
| ESwap (i m : Z)          (* channel config with MotorUpsideDown = m *)
| EPos (i p : Z)           (* environment: position estimate at a limit (see blk) *)
| EFire (i : Z)            (* delayed_trigger timer callback (allowed at any time while armed) *)
| ETime (t : Z).           (* true time advances to max now t *)

Definition nth_sh (l : list sh) (i : Z) : option sh :=
  if i <? 0 then None else nth_error l (Z.to_nat i).
Fixpoint upd (l : list sh) (n : nat) (x : sh) : list sh :=
  match l, n with
  | [], _ => []
  | _ :: r, O => x :: r
  | y :: r, S k => y :: upd r k x
  end.

Definition step (og : bool) (boot : Z) (s : st) (e : ev) : st * list out :=
  match e with
  | ECall i v sd =>
      match nth_sh (shs s) i with
      | None => (s, [])
      | Some x => let '(x', n', q', o) := set_relay og boot i x (now s) (seqc s) v sd in
                  (mkSt n' q' (upd (shs s) (Z.to_nat i) x'), o)
      end
  | ESwap i m =>
      match nth_sh (shs s) i with
      | None => (s, [])
      | Some x =>
          if ((m =? 1) || (m =? 2)) && negb (Bool.eqb (m =? 2) (swp x)) then
            (mkSt (now s) (seqc s)
                  (upd (shs s) (Z.to_nat i)
                       (mkSh (pa x) (pb x) (negb (swp x)) (start x) (stop x) (armed x) (due x) (seq x) (dval x) (blk x))), [])
          else (s, [])
      end
  | EPos i p =>
      match nth_sh (shs s) i with
      | None => (s, [])
      | Some x => (mkSt (now s) (seqc s)
                        (upd (shs s) (Z.to_nat i)
                             (mkSh (pa x) (pb x) (swp x) (start x) (stop x) (armed x) (due x) (seq x) (dval x) p)), [])
      end
  | EFire i =>
      match nth_sh (shs s) i with
      | None => (s, [])
      | Some x =>
          if armed x then
            let '(x', n', q', o) := set_relay og boot i x (now s) (seqc s) (dval x) 0 in
            (mkSt n' q' (upd (shs s) (Z.to_nat i) x'), o)
          else (s, [])
      end
  | ETime t => (mkSt (Z.max (now s) t) (seqc s) (shs s), [])
  end.

Fixpoint run_from (og : bool) (boot : Z) (s : st) (evs : list ev) : st * list out :=
  match evs with
  | [] => (s, [])
  | e :: r => let '(s1, o1) := step og boot s e in
              let '(s2, o2) := run_from og boot s1 r in (s2, o1 ++ o2)
  end.

(* state right after supla_esp_gpio_init at true time t0: outputs low, stop_time := init time *)
Definition init_sh (boot t0 : Z) : sh := mkSh false false false 0 (u32 (boot + t0)) false 0 0 0 0.
Definition init (boot n t0 : Z) : st := mkSt t0 0 (repeat (init_sh boot t0) (Z.to_nat n)).
Definition init_outs (boot n t0 : Z) : list out :=
  if u32 (boot + t0) =? 0 then map (fun i => OZero (Z.of_nat i) t0) (List.seq 0 (Z.to_nat n)) else [].

(* the model of the tree as it will be after docs/fixes/C08_rs_wrap.diff *)
Definition CURRENT_OG : bool := false.
Definition run (boot n t0 : Z) (evs : list ev) : list out :=
  init_outs boot n t0 ++ snd (run_from CURRENT_OG boot (init boot n t0) evs).

(* ---------- specification: a monitor of the edge log of one shutter (the property text) ---------- *)
Record mon1 := mkMon { ma : bool; mb : bool; lf : option Z; bad_il : bool; bad_sp : bool }.
Definition mon0 : mon1 := mkMon false false None false false.

(* rising edge: interlock is violated when the other output is on; spacing is violated when an output of
   this shutter fell less than 0.9 s ago.  falling edge: remember its time. *)
Definition mon1_step (m : mon1) (t which lvl : Z) : mon1 :=
  if lvl =? 1 then
    let other := if which =? 0 then mb m else ma m in
    let early := match lf m with Some l => t - l <? SPACING_US | None => false end in
    mkMon (if which =? 0 then true else ma m) (if which =? 0 then mb m else true) (lf m)
          (bad_il m || other) (bad_sp m || early)
  else
    mkMon (if which =? 0 then false else ma m) (if which =? 0 then mb m else false) (Some t)
          (bad_il m) (bad_sp m).

Definition feed1 (i : Z) (m : mon1) (o : out) : mon1 :=
  match o with
  | OGpio j t w l => if j =? i then mon1_step m t w l else m
  | _ => m
  end.
Definition feed (m : mon1) (i : Z) (outs : list out) : mon1 := fold_left (feed1 i) outs m.
Definition verdict (i : Z) (outs : list out) : mon1 := feed mon0 i outs.

Definition is_zero (o : out) : bool := match o with OZero _ _ => true | _ => false end.
Definition no_zero (outs : list out) : Prop := forallb (fun o => negb (is_zero o)) outs = true.

(* ---------- routing layer (C08_routing): which relay can a command reach without set_relay? ---------- *)
(* board: relays as (gpio, channel); shutters as (index of up relay, index of down relay) *)
Record board := mkBoard { relays : list (Z * Z); rss : list (Z * Z) }.
Inductive action :=
| ASetRelay (rs : Z)        (* supla_esp_gpio_rs_set_relay / _add_task on shutter rs *)
| APlain (relay : Z)        (* supla_esp_gpio_relay_hi on relays[relay] outside set_relay *)
| ANone.

Definition relay_chan (b : board) (r : Z) : Z := snd (nth (Z.to_nat r) (relays b) (255, -1)).
Definition relay_gpio (b : board) (r : Z) : Z := fst (nth (Z.to_nat r) (relays b) (255, -1)).

(* first index (from k) of an element satisfying p *)
Fixpoint find_idx {A} (p : A -> bool) (l : list A) (k : Z) : option Z :=
  match l with
  | [] => None
  | x :: r => if p x then Some k else find_idx p r (k + 1)
  end.

(* supla_esp_channel_set_value: the shutter loop (up->channel == ChannelNumber) comes first and returns;
   only then the plain-relay loop (gpio_id != 255 && channel == ChannelNumber).
   `rss b` holds the *current* (up, down) pointers, i.e. a motor swap exchanges the two components. *)
Definition route_server (b : board) (ch : Z) : action :=
  match find_idx (fun ud => relay_chan b (fst ud) =? ch) (rss b) 0 with
  | Some k => ASetRelay k
  | None => match find_idx (fun gc => negb (fst gc =? 255) && (snd gc =? ch)) (relays b) 0 with
            | Some r => APlain r
            | None => ANone
            end
  end.
Definition swap_board (b : board) (k : nat) : board :=
  mkBoard (relays b) (firstn k (rss b) ++ match skipn k (rss b) with [] => [] | ud :: r => (snd ud, fst ud) :: r end).

(* supla_esp_gpio_on_input_active/inactive with relay_gpio_id = port:
   supla_esp_gpio_get_rs__cfg(port) = shutter of the first relay whose gpio is port, else plain switch *)
Definition route_input (b : board) (port : Z) : action :=
  if port =? 255 then ANone else
  match find_idx (fun gc => fst gc =? port) (relays b) 0 with
  | None => ANone      (* relay_hi on a port that is no relay: not a shutter pin when wf_board *)
  | Some r => match find_idx (fun ud => (fst ud =? r) || (snd ud =? r)) (rss b) 0 with
              | Some k => ASetRelay k
              | None => APlain r
              end
  end.

Definition in_shutter (b : board) (r : Z) : bool :=
  existsb (fun ud => (fst ud =? r) || (snd ud =? r)) (rss b).

(* wf_board: every relay has a real gpio, gpios are pairwise distinct, both relays of a shutter carry the
   same channel, and the indices are in range *)
Definition distinct_gpios (l : list (Z * Z)) : Prop := NoDup (map fst l).
Definition wf_board (b : board) : Prop :=
  distinct_gpios (relays b) /\
  Forall (fun gc => fst gc <> 255) (relays b) /\
  Forall (fun ud => 0 <= fst ud < Z.of_nat (length (relays b)) /\ 0 <= snd ud < Z.of_nat (length (relays b)) /\
                    relay_chan b (fst ud) = relay_chan b (snd ud)) (rss b).

(* ---------- wire interface ---------- *)
(* inputs : 0 CFG boot n late | 1 RS i v cancel sd | 2 SWAP i m | 3 ADV dt | 4 POS i p | other: ignored
   outputs: 0 GPIO idx t which lvl | 1 ARM idx t ms | 2 ZERO idx t *)
Definition wire_of_out (o : out) : wire :=
  match o with
  | OGpio i t w l => mk 0 [i; t; w; l] []
  | OArm i t ms => mk 1 [i; t; ms] []
  | OZero i t => mk 2 [i; t] []
  end.

(* the armed timer with the smallest (due, seq) among those due by endt *)
Fixpoint pick (l : list sh) (k : Z) (endt : Z) (best : option (Z * Z * Z)) : option (Z * Z * Z) :=
  match l with
  | [] => best
  | x :: r =>
      let best' :=
        if armed x && (due x <=? endt) then
          match best with
          | None => Some (k, due x, seq x)
          | Some (_, d, q) => if (due x <? d) || ((due x =? d) && (seq x <? q)) then Some (k, due x, seq x) else best
          end
        else best in
      pick r (k + 1) endt best'
  end.

(* v_advance(dt) of the harness: fire due timers in (due, seq) order, each `late` us after its expiry *)
Fixpoint adv (fuel : nat) (og : bool) (boot late : Z) (s : st) (endt : Z) : st * list out :=
  match fuel with
  | O => step og boot s (ETime endt)
  | S k =>
      match pick (shs s) 0 endt None with
      | None => step og boot s (ETime endt)
      | Some (i, d, _) =>
          let '(s1, o1) := step og boot s (ETime (d + late)) in
          let '(s2, o2) := step og boot s1 (EFire i) in
          let '(s3, o3) := adv k og boot late s2 endt in
          (s3, o1 ++ o2 ++ o3)
      end
  end.

Definition arg (l : list Z) (n : nat) : Z := nth n l 0.

Fixpoint run_wire (og : bool) (boot late : Z) (s : st) (ws : list wire) : list out :=
  match ws with
  | [] => []
  | (k, a, _) :: r =>
      let '(s1, o1) :=
        if k =? 1 then step og boot s (ECall (arg a 0) (arg a 1) (arg a 3))
        else if k =? 2 then step og boot s (ESwap (arg a 0) (arg a 1))
        else if k =? 3 then
          let dt := Z.max 0 (arg a 0) in
          adv (Z.to_nat (8 * (dt / 100000 + 2))) og boot late s (now s + dt)
        else if k =? 4 then step og boot s (EPos (arg a 0) (arg a 1))
        else (s, []) in
      o1 ++ run_wire og boot late s1 r
  end.

Definition main_wire_og (og : bool) (ws : list wire) : list wire :=
  match ws with
  | (k, a, _) :: r =>
      if (k =? 0) && (arg a 3 =? 0) then
        let boot := arg a 0 in let n := arg a 1 in let late := arg a 2 in
        map wire_of_out (init_outs boot n 0 ++ run_wire og boot late (init boot n 0) r)
      else []
  | [] => []
  end.
Definition main_wire (ws : list wire) : list wire := main_wire_og CURRENT_OG ws.
