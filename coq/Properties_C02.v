(* C02 — Outgoing calls reach the wire intact, in order, exactly once or not at all.
   Property theorems only: each is closed by `exact` of a lemma proved in C02/Proofs.v.
   Vocabulary (C02/Model.v): run_trace silent s evs = (final state, [(event, outputs of that event)]);
   CURRENT_SILENT = false is the code with docs/fixes/C02_out_overflow_reported.diff applied, `true` the code before it.
   accepted tr = the calls that returned a non-zero id (with that id), in issue order; stream = concatenation of their frames;
   wire_of o = the bytes espconn_sent took with result 0, in order; clean o = no HardErr, SendBufExceeded or Restart in o. *)
From Coq Require Import List ZArith Sorted.
Import ListNotations.
From V Require Import Base.Bytes Gen.ProtoConsts Gen.C02Consts C02.Model C02.Proofs.
Local Open Scope Z_scope.

(* a frame decodes (at the generated field offsets) to the same request id, call type, version and payload,
   and leaves exactly the bytes that follow it; a whole stream of frames decodes to the list of calls *)
Theorem C02_roundtrip : forall p rest, pkt_ok p -> decode1 (encode p ++ rest) = Some (p, rest).
Proof. exact decode1_encode. Qed.
Print Assumptions C02_roundtrip.

Theorem C02_roundtrip_stream : forall ps, Forall pkt_ok ps -> decode_all (stream ps) = Some ps.
Proof. exact roundtrip_stream. Qed.
Print Assumptions C02_roundtrip_stream.

(* For every interleaving of calls and iterations and every sequence of espconn_sent results, as long as no hard error
   and no overflow has been reported: bytes on the wire ++ retry buffer ++ proto out buffer ++ frames of the queued calls
   = frames of the accepted calls in issue order.  Nothing lost, duplicated, reordered or interleaved. *)
Theorem C02_stream_invariant : forall evs s tr,
  run_trace CURRENT_SILENT init evs = (s, tr) -> clean (outs_of tr) ->
  wire_of (outs_of tr) ++ espbuf s ++ odata (ob s) ++ stream (outq s) = stream (accepted tr).
Proof. exact C02_stream_invariant_thm. Qed.
Print Assumptions C02_stream_invariant.

(* ... hence, once the buffers are empty, the wire decodes to exactly the accepted calls: one complete frame each *)
Theorem C02_wire_decodes : forall evs s tr, Forall ev_ok evs ->
  run_trace CURRENT_SILENT init evs = (s, tr) -> clean (outs_of tr) ->
  espbuf s = [] -> odata (ob s) = [] -> outq s = [] ->
  decode_all (wire_of (outs_of tr)) = Some (accepted tr).
Proof. exact C02_wire_decodes_thm. Qed.
Print Assumptions C02_wire_decodes.

(* request ids of accepted calls: strictly increasing and non-zero while fewer than 2^32 events have happened
   (the 32-bit counter wraps after that); never zero, from any starting value of the counter (a call returns 0 only
   when it is rejected: C02_rejected_iff) *)
Theorem C02_rr_ids : forall silent evs s tr, run_trace silent init evs = (s, tr) -> len evs < 4294967296 ->
  StronglySorted Z.lt (map p_rr (accepted tr)) /\ Forall (fun p => 0 < p_rr p < 4294967296) (accepted tr).
Proof. exact C02_rr_ids_thm. Qed.
Print Assumptions C02_rr_ids.

Theorem C02_rr_nonzero : forall silent s0 evs s tr, run_trace silent s0 evs = (s, tr) ->
  Forall (fun p => p_rr p <> 0) (accepted tr).
Proof. exact C02_rr_nonzero_thm. Qed.
Print Assumptions C02_rr_nonzero.

(* a call is rejected (returns 0) exactly when its id is not allowed at the device's protocol version, the payload is
   too large, or the 2-slot queue is full; otherwise it is queued behind the earlier ones *)
Theorem C02_rejected_iff : forall s cid pl s' o, halted s = false -> step CURRENT_SILENT s (Call cid pl) = (s', o) ->
  exists rr, o = [Ret rr] /\
    (rr = 0 <-> (allowed cid = false \/ MAX_DATA_SIZE < len pl \/ SRPC_QUEUE <= len (outq s))) /\
    (rr <> 0 -> outq s' = outq s ++ [{| p_rr := rr; p_call := cid; p_ver := DEVICE_PROTO_VERSION; p_data := pl |}]).
Proof. exact C02_rejected_iff_thm. Qed.
Print Assumptions C02_rejected_iff.

(* ... and every accepted call does get sent: from any reachable, not restarted state, mu(state) iterations whose sends
   succeed put all pending bytes on the wire, in order, and leave every buffer empty — unless the out buffer
   overflows, which is reported by a restart *)
Theorem C02_accepted_is_sent : forall evs s tr s' tr',
  run_trace CURRENT_SILENT init evs = (s, tr) -> halted s = false ->
  run_trace CURRENT_SILENT s (repeat iter_ok (Z.to_nat (mu s))) = (s', tr') ->
  In Restart (outs_of tr') \/
  (wire_of (outs_of tr') = espbuf s ++ odata (ob s) ++ stream (outq s) /\ espbuf s' = [] /\ odata (ob s') = [] /\ outq s' = []).
Proof. exact C02_accepted_is_sent_thm. Qed.
Print Assumptions C02_accepted_is_sent.

(* a step that discards accepted bytes reports it: hard error seen, "Send buffer size exceeded" logged, or restart *)
Theorem C02_overflow_reported : forall s e s' o,
  step CURRENT_SILENT s e = (s', o) ->
  wire_of o ++ pending s' <> pending s ++ stream (acc_of e o) ->
  In HardErr o \/ In SendBufExceeded o \/ In Restart o.
Proof. exact C02_overflow_reported_thm. Qed.
Print Assumptions C02_overflow_reported.

(* the restart happens only for a real overflow: exactly when the frame of the next queued call does not fit below
   BUFFER_MAX_SIZE in the proto out buffer *)
Theorem C02_overflow_exact : forall evs s tr rs s' o, run_trace CURRENT_SILENT init evs = (s, tr) -> halted s = false ->
  step CURRENT_SILENT s (Iter rs) = (s', o) ->
  (In Restart o <-> exists p q, outq s = p :: q /\ BUFFER_MAX <= len (odata (ob s)) + len (encode p)).
Proof. exact C02_overflow_exact_thm. Qed.
Print Assumptions C02_overflow_exact.

(* with hard errors and overflows (and even for the code before the fix): what reached the wire plus what is still
   buffered is always a sub-sequence of the frame stream — no duplication, no reordering, nothing invented *)
Theorem C02_after_hard_error : forall silent evs s tr,
  run_trace silent init evs = (s, tr) ->
  Subseq (wire_of (outs_of tr) ++ espbuf s ++ odata (ob s) ++ stream (outq s)) (stream (accepted tr)).
Proof. exact C02_after_hard_error_thm. Qed.
Print Assumptions C02_after_hard_error.

(* the buffers stay within their bounds *)
Theorem C02_bounds : forall evs s tr, run_trace CURRENT_SILENT init evs = (s, tr) ->
  len (outq s) <= SRPC_QUEUE /\ len (odata (ob s)) <= osize (ob s) /\ osize (ob s) < BUFFER_MAX /\
  len (espbuf s) <= SEND_BUFFER /\ Forall (fun p => len (p_data p) <= MAX_DATA_SIZE) (outq s).
Proof. exact C02_bounds_thm. Qed.
Print Assumptions C02_bounds.

(* the code before the fix: two accepted maximum-size calls, every send succeeds, 16 iterations: only the first
   frame is ever sent, all buffers end up empty, and nothing is reported; with the fix the same history restarts *)
Theorem C02_old_code_refuted :
  (let '(s, tr) := run_trace true init witness_evs in
     accepted tr = [witness_p1; witness_p2] /\ clean (outs_of tr) /\ ~ In OutBufOverflow (outs_of tr) /\
     espbuf s = [] /\ odata (ob s) = [] /\ outq s = [] /\
     wire_of (outs_of tr) = encode witness_p1) /\
  (let '(s, tr) := run_trace false init witness_evs in
     accepted tr = [witness_p1; witness_p2] /\ In Restart (outs_of tr) /\ In OutBufOverflow (outs_of tr)).
Proof. exact C02_old_code_refuted_thm. Qed.
Print Assumptions C02_old_code_refuted.

(* non-vacuity: a history with a refused send, a queue-full rejection, an over-long payload and an unknown call id is
   clean, ends with empty buffers and puts the three accepted frames on the wire; a hard error and a send-buffer
   overflow are reachable *)
Example C02_nonvacuous :
  let evs := [Call 100 [1;2;3]; Call 40 []; Call 100 [9]; Iter [ESPCONN_INPROGRESS_; 0; 0]; Call 1 [7]; Call 100 (zeros 1537);
              Call 210 [5]; Iter [ESPCONN_MAXNUM_; 0; 0]; Iter [0;0;0]; Iter [0;0;0]; Iter [0;0;0]] in
  let '(s, tr) := run_trace CURRENT_SILENT init evs in
  clean (outs_of tr) /\ espbuf s = [] /\ odata (ob s) = [] /\ outq s = [] /\
  map p_rr (accepted tr) = [1; 2; 5] /\ map p_call (accepted tr) = [100; 40; 210] /\
  filter (fun o => match o with Ret _ => true | _ => false end) (outs_of tr) = [Ret 1; Ret 2; Ret 0; Ret 0; Ret 0; Ret 5] /\
  wire_of (outs_of tr) = stream (accepted tr) /\
  run [Call 100 [1]; Iter [-1]] = [Ret 1; HardErr] /\
  existsb (fun o => match o with SendBufExceeded => true | _ => false end)
          (run [Call 100 (zeros 600); Iter [-5;-5;-5]; Iter [-5;-5;-5]]) = true.
Proof. vm_compute. repeat split; reflexivity. Qed.
Print Assumptions C02_nonvacuous.

(* the hypotheses ev_ok / pkt_ok are satisfiable *)
Example C02_nonvacuous_hyp :
  Forall ev_ok [Call 100 [1;2;3]; Call 40 []; Iter [ESPCONN_INPROGRESS_; 0; 0]; Call 4294967295 [255; 0]] /\
  pkt_ok {| p_rr := 1; p_call := 100; p_ver := DEVICE_PROTO_VERSION; p_data := [1;2;3] |}.
Proof.
  split.
  - repeat constructor; try (vm_compute; intuition congruence).
  - unfold pkt_ok. cbn [p_rr p_call p_ver p_data]. repeat split; try (vm_compute; intuition congruence).
    repeat constructor; vm_compute; intuition congruence.
Qed.
Print Assumptions C02_nonvacuous_hyp.
