From Coq Require Import List ZArith.
Import ListNotations.
From V Require Import Base.Bytes Gen.ProtoConsts C02.Model.
Local Open Scope Z_scope.
Example C02_placeholder : run [] = [].
Proof. reflexivity. Qed.
Print Assumptions C02_placeholder.
