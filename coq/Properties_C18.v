(* C18 — Firmware update: only a signed complete image boots; writes stay in the spare slot.
   Property theorems only: each is closed by `exact` of a lemma proved in C18/Proofs.v.
   The model (C18/Model.v) follows supla_update.c with the repairs docs/fixes/C18_{clamp,offset,disconnect,
   content_length,finished}.diff (`FIXED`); `C18_old_code_refuted` shows what the code without them does.
   Every theorem holds for every flash map, running slot, content of the uninitialised header buffer (`heap`),
   initial flash content, script of flash failures and every signature oracle `verify` (SHA-256/RSA are not
   modelled; `verify body signature` stands for rsa_sha256_verify over SHA-256(body)). *)
From Coq Require Import List ZArith Bool.
Import ListNotations.
From V Require Import Base.Bytes Gen.UpdateConsts C18.Model C18.Proofs.
Local Open Scope Z_scope.

Section C18.
Variables (map_ userbin : Z) (heap : list Z) (verify : list Z -> list Z -> bool).
Notation run := (run_from FIXED map_ userbin heap verify).

(* Every erase/write of every run lies inside [slot base, slot base + announced length), the announced length
   (expected_file_size, see C18_content_length_safe) is at most the size limit of the flash map; erases are whole
   sectors starting inside that range.  Events: any interleaving of Start, segments of any bytes, disconnects. *)
Theorem C18_writes_contained : forall f fs evs s' outs x,
  Forall ev_ok evs -> run (init f fs) evs = (s', outs) -> In x outs -> isflash x ->
  exists b l, slot_base map_ userbin = Some b /\ size_limit map_ = Some l /\ 0 < expected s' <= l /\ opok b (expected s') x.
Proof. exact (C18_writes_contained_thm map_ userbin heap verify). Qed.

(* FLAG_FINISH is emitted only when the download took exactly the announced number of bytes, these bytes are what
   the slot holds, they end with the footer, and the oracle accepted (body, the RSA_NUM_BYTES bytes after it), where
   body is everything before signature+footer; exactly these bytes were fed to the hash / signature buffer. *)
Theorem C18_finish_implies_authentic : forall f fs evs s' outs,
  Forall ev_ok evs -> run (init f fs) evs = (s', outs) -> In (OFlag FLAG_FINISH) outs ->
  let img := accepted s' in let E := expected s' in
  downloaded s' = E /\ len img = E /\ SIG_OFF < E /\
  fread (fl s') (base map_ userbin) E = img /\
  footer_ok (drop (E - FOOTER_SIZE) img) = true /\
  verify (take (E - SIG_OFF) img) (take RSA_BYTES (drop (E - SIG_OFF) img)) = true /\
  In (OVerify (take (E - SIG_OFF) img) (take RSA_BYTES (drop (E - SIG_OFF) img)) true) outs.
Proof. exact (C18_finish_implies_authentic_thm map_ userbin heap verify). Qed.

(* In every other case: while nothing is decided no IDLE/FINISH/restart/reboot is emitted; a decided run ends in one of
   the `halting_tail`s — FINISH+upgrade reboot after a positive verification, or IDLE+restart (see C18_halting_tails);
   a disconnect always decides (abandons) an undecided update; a completed download is always decided;
   an upgrade reboot happens only after FINISH. *)
Theorem C18_otherwise_idle_and_restart : forall f fs evs s' outs,
  Forall ev_ok evs -> run (init f fs) evs = (s', outs) ->
  (halted s' = false -> Forall benign outs) /\
  (halted s' = true -> exists pre tail, outs = pre ++ tail /\ Forall benign pre /\ halting_tail tail) /\
  (halted s' = false -> started s' = true ->
     step FIXED map_ userbin heap verify s' Disc = (halt s', [OFlag FLAG_IDLE; ORestart])) /\
  (downloading s' = true -> downloaded s' = expected s' -> halted s' = true) /\
  (In OUpgradeReboot outs -> In (OFlag FLAG_FINISH) outs) /\
  (* the error (reconnect) callback abandons an undecided update as well, whatever the espconn error code *)
  (halted s' = false -> started s' = true -> forall code,
     step FIXED map_ userbin heap verify s' (Err code) = (halt s', [OFlag FLAG_IDLE; ORestart])).
Proof. exact (C18_otherwise_idle_and_restart_thm map_ userbin heap verify). Qed.

(* A download (hence any flash operation, C18_no_download_no_write) starts only when the text between the first
   "Content-Length: " and the end of its line consists of decimal digits whose value — as a number, no wrap-around —
   is positive and within the limit of the flash map. *)
Theorem C18_content_length_safe : forall f fs evs s' outs,
  Forall ev_ok evs -> run (init f fs) evs = (s', outs) -> downloading s' = true ->
  let hdr := rev (rhdr s') in
  exists pos ds c rest l,
    find_sub HDR_CLEN (cstr heap hdr) 0 = Some pos /\
    drop (pos + CLEN_SKIP) hdr = ds ++ c :: rest /\ (c = 13 \/ c = 10) /\ Forall is_digit ds /\
    expected s' = dec ds 0 /\ size_limit map_ = Some l /\ 0 < dec ds 0 <= l.
Proof. exact (C18_content_length_safe_thm map_ userbin heap verify). Qed.

Theorem C18_no_download_no_write : forall f fs evs s' outs,
  Forall ev_ok evs -> run (init f fs) evs = (s', outs) -> downloading s' = false -> forall x, In x outs -> ~ isflash x.
Proof. exact (C18_no_download_no_write_thm map_ userbin heap verify). Qed.
(* Whatever the segmentation: the header that is parsed and the bytes that are taken (and flashed and verified, see
   C18_finish_implies_authentic) depend only on the byte stream the segments form — the image is the first
   `announced` bytes that follow the header in that stream. *)
Theorem C18_image_is_stream_prefix : forall f fs segs s' outs,
  Forall bytes_ok segs -> run (init f fs) (Start :: map Seg segs) = (s', outs) ->
  downloading s' = true -> (halted s' = false \/ downloaded s' = expected s') ->
  exists body, stream_of segs = rev (rhdr s') ++ body /\ accepted s' = take (expected s') body.
Proof. exact (C18_image_is_stream_prefix_thm map_ userbin heap verify). Qed.
End C18.
Print Assumptions C18_writes_contained.
Print Assumptions C18_finish_implies_authentic.
Print Assumptions C18_otherwise_idle_and_restart.
Print Assumptions C18_content_length_safe.
Print Assumptions C18_no_download_no_write.
Print Assumptions C18_image_is_stream_prefix.

(* what the ends of a decided run look like *)
Theorem C18_halting_tails : forall t, halting_tail t ->
  (exists b sg, t = [OVerify b sg true; OFlag FLAG_FINISH; OUpgradeReboot]) \/
  (~ In (OFlag FLAG_FINISH) t /\ ~ In OUpgradeReboot t /\ In ORestart t /\ forall f, In (OFlag f) t -> f = FLAG_IDLE).
Proof. exact (halting_tail_cases [] (fun _ _ => true)). Qed.
Print Assumptions C18_halting_tails.

(* the footer test: magic bytes and the key size field *)
Theorem C18_footer : forall ft, footer_ok ft = true ->
  take (len FOOTER_MAGIC) ft = FOOTER_MAGIC /\ V.Base.U32.u32 (nthz ft 6 * 256 - nthz ft 7) = RSA_BYTES.
Proof. exact footer_ok_magic. Qed.
Print Assumptions C18_footer.

(* the slot that is written is the one the running firmware does not occupy, for every flash map and userbin value:
   system_upgrade_userbin_check() = 0 means user1 (at 0x1000) is running, then user2 is written, else user1; the window
   [base, base + limit) of the lower slot ends below the upper slot *)
Theorem C18_base_is_inactive_slot : forall m u b,
  slot_base m u = Some b ->
  2 <= m <= 6 /\ b = (if u =? 0 then sdk_user2 m else sdk_user1) /\
  exists l, size_limit m = Some l /\ sdk_user1 + l <= sdk_user2 m /\ sdk_user1 mod SEC_SIZE = 0 /\ sdk_user2 m mod SEC_SIZE = 0.
Proof. exact C18_base_is_inactive_slot_thm. Qed.
Print Assumptions C18_base_is_inactive_slot.

(* the code before the repairs (each witness is replayed on the real code: corpus/C18/long_body, header_split_arena,
   short_body_disconnect, clen_wrap, segment_after_finish); `OLD_DONE` = callbacks still delivered after the restart
   request, i.e. the code without docs/fixes/C18_finished.diff *)
Theorem C18_old_code_refuted :
  expected (fst (w_run OLD_CLAMP w_long)) = 5000 /\ has (erase_at (1052672 + 12288)) (w_run OLD_CLAMP w_long) = true /\
  has (write_from (1052672 + 8192)) (w_run OLD_CLAMP w_long) = true /\ has (erase_at (1052672 + 12288)) (w_run OLD_ALL w_long) = true /\
  has (write_from (1052672 + 8192)) (w_run FIXED w_long) = false /\ has is_restart (w_run FIXED w_long) = true /\
  expected (fst (w_run OLD_ALL w_split)) = 5000 /\ has (erase_at (1052672 + 61440)) (w_run OLD_ALL w_split) = true /\
  has is_finish (w_run OLD_OFFSET w_split) = false /\
  has (erase_at (1052672 + 8192)) (w_run FIXED w_split) = false /\ has is_finish (w_run FIXED w_split) = true /\
  has is_restart (w_run OLD_DISC w_short) = false /\ halted (fst (w_run OLD_DISC w_short)) = false /\
  has is_restart (w_run FIXED w_short) = true /\
  expected (fst (w_run OLD_CLEN w_wrap)) = 5000 /\ has is_finish (w_run OLD_CLEN w_wrap) = true /\
  has is_finish (w_run FIXED w_wrap) = false /\ has is_restart (w_run FIXED w_wrap) = true /\
  has is_finish (w_run OLD_DONE w_extra) = true /\ has (write_from (1052672 + 19472)) (w_run OLD_DONE w_extra) = true /\
  has is_restart (w_run OLD_DONE w_extra) = true /\
  has is_finish (w_run FIXED w_extra) = true /\ has (write_from (1052672 + 19472)) (w_run FIXED w_extra) = false /\
  has is_restart (w_run FIXED w_extra) = false.
Proof. exact C18_old_code_refuted_thm. Qed.
Print Assumptions C18_old_code_refuted.

(* the hypotheses are satisfiable and FINISH is reachable: a valid image arriving in three segments, the header cut
   inside "Content-Length" *)
Example C18_nonvacuous :
  snd (w_run FIXED w_valid) =
    [OBase 1052672; OFlag FLAG_START; OErase 1052672; OWrite 1052672 (firstn 4096 w_image);
     OErase 1056768; OWrite 1056768 (skipn 4096 w_image);
     OVerify (firstn 4472 w_image) (firstn 512 (skipn 4472 w_image)) true; OFlag FLAG_FINISH; OUpgradeReboot] /\
  forallb (fun e => match e with Seg b => forallb (fun x => (0 <=? x) && (x <? 256)) b | _ => true end) w_valid = true /\
  snd (run_from FIXED 5 0 [] (fun _ _ => false) (init flash0 []) w_valid) =
    [OBase 1052672; OFlag FLAG_START; OErase 1052672; OWrite 1052672 (firstn 4096 w_image);
     OErase 1056768; OWrite 1056768 (skipn 4096 w_image);
     OVerify (firstn 4472 w_image) (firstn 512 (skipn 4472 w_image)) false; OFlag FLAG_IDLE; ORestart].
Proof. exact C18_nonvacuous_thm. Qed.
Print Assumptions C18_nonvacuous.
