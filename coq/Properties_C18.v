(* placeholder, replaced below *)
From Coq Require Import List ZArith.
From V Require Import C18.Model.
Example C18_placeholder : True. Proof. exact I. Qed.
Print Assumptions C18_placeholder.
