(* C01 — proofs about the model in Model.v.  The generated constants are used only through the
   side conditions collected in [consts_ok] (checked by computation on the generated values). *)
From Coq Require Import List ZArith Lia Bool.
Import ListNotations.
From V Require Import Base.U32 Base.Bytes Base.Iface Gen.ProtoConsts C01.Model.
Local Open Scope Z_scope.

(* ---------- side conditions on the generated constants ---------- *)
Record consts_facts : Prop := {
  cf_tag_len : len TAG = TAG_SIZE;
  cf_tag_pos : 0 < TAG_SIZE;
  cf_hdr : HDR + MAX_DATA_SIZE = SDP_SIZE;
  cf_off_ver : 0 <= OFF_VERSION /\ OFF_VERSION + 1 <= HDR;
  cf_off_rr : 0 <= OFF_RR_ID /\ OFF_RR_ID + 4 <= HDR;
  cf_off_call : 0 <= OFF_CALL_ID /\ OFF_CALL_ID + 4 <= HDR;
  cf_off_ds : 0 <= OFF_DATA_SIZE /\ OFF_DATA_SIZE + 4 <= HDR;
  cf_off_data : OFF_DATA = HDR;
  cf_maxd : 0 <= MAX_DATA_SIZE;
  cf_hdr_pos : 0 < HDR;
  cf_bufmin : 0 <= BUFFER_MIN;
  cf_bufmax : BUFFER_MIN < BUFFER_MAX /\ BUFFER_MAX <= 4294967296;
  cf_fits : SDP_SIZE + TAG_SIZE < BUFFER_MAX;
  cf_srpcbuf : 0 < SRPC_BUFFER;
  cf_nowrap : BUFFER_MAX + SRPC_BUFFER <= 4294967296;
  cf_recvmax : 0 < RECVBUFF_MAX
}.
Lemma consts_ok : consts_facts.
Proof. constructor; vm_compute; repeat split; congruence. Qed.

(* ---------- invariant of the input buffer ---------- *)
Record InvB (b : inb) : Prop := {
  ib_bytes : bytes_ok (data b);
  ib_len : len (data b) <= size b;
  ib_size : size b < BUFFER_MAX;
  ib_size0 : 0 <= size b;
  ib_tag : btag b = true -> TAG_SIZE <= len (data b) /\ take TAG_SIZE (data b) = TAG
}.

Definition res_of (p : p1) : res :=
  match p with Frame _ _ => R_TRUE | Incomplete => R_FALSE | Bad => R_DATA_ERROR | BadVersion => R_VERSION_ERROR end.

Lemma shrink_all b : data (shrink b (len (data b))) = [].
Proof.
  unfold shrink; cbn [data]. rewrite Z.ltb_irrefl. apply drop_all; lia.
Qed.

Lemma inside_true off n sz : 0 <= off -> 0 <= n -> off + n <= sz -> inside off n sz = true.
Proof. intros; unfold inside. rewrite !andb_true_iff, !Z.leb_le. lia. Qed.

(* The repaired sproto_pop_in_sdp is exactly one step of the chunk-free parser. *)
Theorem pop_refines b sdp :
  InvB b ->
  let '(b', sdp', r) := pop false b sdp in
  r = res_of (parse1 (data b)) /\
  match parse1 (data b) with
  | Frame f rest => data b' = rest /\ sdp' = f ++ drop (len f) sdp /\ len f = HDR + le32 (data b) OFF_DATA_SIZE
                    /\ le32 (data b) OFF_DATA_SIZE <= MAX_DATA_SIZE
  | Incomplete => data b' = data b /\ sdp' = sdp /\ size b' = size b
  | _ => data b' = [] /\ sdp' = sdp
  end.
Proof.
  intros [Hb Hlen Hsz Hsz0 Htag].
  destruct consts_ok as [Ctl Ctp Chdr Cov Corr Coc Cods Codata Cmaxd Chp Cbmin Cbmax Cfits Csb Cnw Crm].
  pose proof (len_nonneg (data b)) as Hl0.
  pose proof (le32_range (data b) OFF_DATA_SIZE Hb) as Hds.
  set (ds := le32 (data b) OFF_DATA_SIZE) in *.
  assert (Hpost : forall bb : inb, btag bb = true -> data bb = data b -> size bb = size b ->
            TAG_SIZE <= len (data b) -> take TAG_SIZE (data b) = TAG ->
            let '(b', sdp', r) :=
              (if btag bb then
                if HDR <=? u32 (len (data bb) - TAG_SIZE) then
                  if negb (inside 0 HDR (size bb)) then (bb, sdp, R_FAULT) else
                  let ver := nthz (data bb) OFF_VERSION in
                  let ds := le32 (data bb) OFF_DATA_SIZE in
                  let tot := u32 (HDR + ds) in
                  if (PROTO_VERSION <? ver) || (ver <? PROTO_VERSION_MIN) then
                    (shrink bb (len (data bb)), sdp, R_VERSION_ERROR)
                  else if MAX_DATA_SIZE <? ds then
                    (shrink bb (len (data bb)), sdp, R_DATA_ERROR)
                  else if len (data bb) <? u32 (tot + TAG_SIZE) then (bb, sdp, R_FALSE)
                  else if (size bb <=? tot) then (shrink bb (len (data bb)), sdp, R_DATA_ERROR)
                  else if negb (inside tot TAG_SIZE (size bb)) then (bb, sdp, R_FAULT)
                  else if negb (list_eqb (take TAG_SIZE (drop tot (data bb))) TAG) then
                    (shrink bb (len (data bb)), sdp, R_DATA_ERROR)
                  else if negb (inside 0 tot SDP_SIZE && inside 0 tot (size bb)) then (bb, sdp, R_FAULT)
                  else (shrink bb (u32 (tot + TAG_SIZE)), memcpy_prefix sdp (data bb) tot, R_TRUE)
                else (bb, sdp, R_FALSE)
              else (bb, sdp, R_FALSE)) in
            r = res_of (parse1 (data b)) /\
            match parse1 (data b) with
            | Frame f rest => data b' = rest /\ sdp' = f ++ drop (len f) sdp /\ len f = HDR + ds /\ ds <= MAX_DATA_SIZE
            | Incomplete => data b' = data b /\ sdp' = sdp /\ size b' = size b
            | _ => data b' = [] /\ sdp' = sdp
            end).
  { intros bb Hbt Hd Hs H5 Ht. rewrite Hbt, Hd, Hs. fold ds.
    unfold parse1. fold ds.
    destruct (len (data b) <? TAG_SIZE) eqn:E1; [apply Z.ltb_lt in E1; lia|].
    rewrite Ht, list_eqb_refl. cbn [negb].
    rewrite (u32_small (len (data b) - TAG_SIZE)) by lia.
    destruct (HDR <=? len (data b) - TAG_SIZE) eqn:E2; destruct (len (data b) <? HDR + TAG_SIZE) eqn:E3;
      try (apply Z.leb_le in E2); try (apply Z.leb_gt in E2);
      try (apply Z.ltb_lt in E3); try (apply Z.ltb_ge in E3); try lia.
    2:{ cbn [res_of]. rewrite Hd, Hs. repeat split; reflexivity. }
    rewrite (inside_true 0 HDR (size b)) by lia. cbn [negb].
    destruct ((PROTO_VERSION <? nthz (data b) OFF_VERSION) || (nthz (data b) OFF_VERSION <? PROTO_VERSION_MIN)) eqn:Ev.
    { cbn [res_of]. split; [reflexivity|]. split; [|reflexivity]. rewrite <- Hd. apply shrink_all. }
    destruct (MAX_DATA_SIZE <? ds) eqn:Ed.
    { cbn [res_of]. split; [reflexivity|]. split; [|reflexivity]. rewrite <- Hd. apply shrink_all. }
    apply Z.ltb_ge in Ed.
    rewrite (u32_small (HDR + ds)) by lia.
    rewrite (u32_small (HDR + ds + TAG_SIZE)) by lia.
    destruct (len (data b) <? HDR + ds + TAG_SIZE) eqn:E4.
    { cbn [res_of]. rewrite Hd, Hs. repeat split; reflexivity. }
    apply Z.ltb_ge in E4.
    destruct (size b <=? HDR + ds) eqn:E5; [apply Z.leb_le in E5; lia|]. apply Z.leb_gt in E5.
    rewrite (inside_true (HDR + ds) TAG_SIZE (size b)) by lia. cbn [negb].
    destruct (list_eqb (take TAG_SIZE (drop (HDR + ds) (data b))) TAG) eqn:E6; cbn [negb].
    2:{ cbn [res_of]. split; [reflexivity|]. split; [|reflexivity]. rewrite <- Hd. apply shrink_all. }
    rewrite (inside_true 0 (HDR + ds) SDP_SIZE) by lia.
    rewrite (inside_true 0 (HDR + ds) (size b)) by lia. cbn [andb negb res_of].
    split; [reflexivity|].
    assert (Hlt : len (take (HDR + ds) (data b)) = HDR + ds) by (rewrite len_take by lia; lia).
    split; [|split; [|split]].
    - unfold shrink; cbn [data]. rewrite Hd.
      destruct (len (data b) <? HDR + ds + TAG_SIZE) eqn:E7; [apply Z.ltb_lt in E7; lia|]. reflexivity.
    - unfold memcpy_prefix. rewrite Hlt. reflexivity.
    - exact Hlt.
    - exact Ed. }
  unfold pop.
  destruct (btag b) eqn:Ebt; cbn [negb andb].
  - destruct (Htag eq_refl) as [H5 Ht].
    specialize (Hpost b Ebt eq_refl eq_refl H5 Ht). rewrite ?Ebt in Hpost. rewrite ?Ebt. fold ds. exact Hpost.
  - destruct (TAG_SIZE <=? len (data b)) eqn:E0.
    + apply Z.leb_le in E0.
      destruct (list_eqb (take TAG_SIZE (data b)) TAG) eqn:Et.
      * apply list_eqb_true in Et.
        specialize (Hpost {| size := size b; data := data b; btag := true |} eq_refl eq_refl eq_refl E0 Et).
        cbn [btag data size] in Hpost. cbn [btag data size]. fold ds. exact Hpost.
      * unfold parse1.
        destruct (len (data b) <? TAG_SIZE) eqn:E1; [apply Z.ltb_lt in E1; lia|].
        rewrite Et. cbn [negb res_of]. split; [reflexivity|]. split; [apply shrink_all|reflexivity].
    + apply Z.leb_gt in E0. rewrite Ebt. unfold parse1.
      destruct (len (data b) <? TAG_SIZE) eqn:E1; [|apply Z.ltb_ge in E1; lia].
      cbn [res_of]. repeat split; reflexivity.
Qed.

(* ---------- the invariant is preserved by shrink / pop / append ---------- *)
Lemma InvB_shrink b k : bytes_ok (data b) -> len (data b) <= size b -> size b < BUFFER_MAX -> 0 <= size b ->
  0 <= k -> InvB (shrink b k).
Proof.
  intros Hb Hlen Hsz Hsz0 Hk.
  destruct consts_ok as [Ctl Ctp Chdr Cov Corr Coc Cods Codata Cmaxd Chp Cbmin Cbmax Cfits Csb Cnw Crm].
  pose proof (len_nonneg (data b)) as Hl0.
  unfold shrink.
  set (n' := if len (data b) <? k then len (data b) else k).
  assert (Hn : 0 <= n' <= len (data b)) by (unfold n'; destruct (len (data b) <? k) eqn:E; [apply Z.ltb_lt in E|apply Z.ltb_ge in E]; lia).
  assert (Hld : len (drop n' (data b)) = len (data b) - n') by (rewrite len_drop by lia; lia).
  constructor; cbn [data size btag].
  - apply bytes_ok_drop; assumption.
  - rewrite Hld. destruct (len (data b) - n' <? size b) eqn:E1.
    + destruct (len (data b) - n' <? BUFFER_MIN) eqn:E2; [apply Z.ltb_lt in E2|]; lia.
    + lia.
  - rewrite Hld. destruct (len (data b) - n' <? size b) eqn:E1.
    + apply Z.ltb_lt in E1. destruct (len (data b) - n' <? BUFFER_MIN) eqn:E2; lia.
    + lia.
  - rewrite Hld. destruct (len (data b) - n' <? size b) eqn:E1.
    + destruct (len (data b) - n' <? BUFFER_MIN) eqn:E2; lia.
    + lia.
  - discriminate.
Qed.

Lemma pop_inv sc b sdp : InvB b -> InvB (fst (fst (pop sc b sdp))).
Proof.
  intros [Hb Hlen Hsz Hsz0 Htag].
  pose proof (len_nonneg (data b)) as Hl0.
  assert (Hsh : forall bb k, data bb = data b -> size bb = size b -> 0 <= k -> InvB (shrink bb k)).
  { intros bb k Hd Hs Hk. apply InvB_shrink; rewrite ?Hd, ?Hs; auto. }
  assert (HT : forall bb, data bb = data b -> size bb = size b ->
               (btag bb = true -> TAG_SIZE <= len (data b) /\ take TAG_SIZE (data b) = TAG) -> InvB bb).
  { intros bb Hd Hs Ht. constructor; rewrite ?Hd, ?Hs; auto. }
  unfold pop.
  destruct (negb (btag b) && (TAG_SIZE <=? len (data b))) eqn:E0.
  - apply andb_true_iff in E0. destruct E0 as [_ E0]. apply Z.leb_le in E0.
    destruct (list_eqb (take TAG_SIZE (data b)) TAG) eqn:Et.
    + apply list_eqb_true in Et.
      set (bb := {| size := size b; data := data b; btag := true |}).
      assert (Ibb : InvB bb) by (apply HT; auto).
      cbn [btag].
      repeat match goal with
      | |- context[if ?c then _ else _] => destruct c eqn:?
      end; cbn [fst]; first [exact Ibb | apply Hsh; [reflexivity|reflexivity| first [apply len_nonneg | apply (proj1 (u32_range _))]]].
    + cbn [fst]. apply Hsh; auto.
  - assert (Ib : InvB b) by (apply HT; auto).
    repeat match goal with
    | |- context[if ?c then _ else _] => destruct c eqn:?
    end; cbn [fst]; first [exact Ib | apply Hsh; [reflexivity|reflexivity| first [apply len_nonneg | apply (proj1 (u32_range _))]]].
Qed.

Lemma append_inv b chunk b' : InvB b -> bytes_ok chunk -> len chunk <= SRPC_BUFFER ->
  append b chunk = Some b' -> InvB b' /\ data b' = data b ++ chunk /\ btag b' = btag b.
Proof.
  intros [Hb Hlen Hsz Hsz0 Htag] Hc Hn.
  destruct consts_ok as [Ctl Ctp Chdr Cov Corr Coc Cods Codata Cmaxd Chp Cbmin Cbmax Cfits Csb Cnw Crm].
  pose proof (len_nonneg (data b)) as Hl0. pose proof (len_nonneg chunk) as Hc0.
  unfold append.
  set (size0 := if size b <? BUFFER_MIN then BUFFER_MIN else size b).
  assert (Hs0 : size b <= size0 /\ size0 < BUFFER_MAX /\ BUFFER_MIN <= size0).
  { unfold size0; destruct (size b <? BUFFER_MIN) eqn:E; [apply Z.ltb_lt in E|apply Z.ltb_ge in E]; lia. }
  rewrite (u32_small (size0 - len (data b))) by lia.
  destruct (size0 - len (data b) <? len chunk) eqn:E1.
  - apply Z.ltb_lt in E1.
    rewrite (u32_small (len chunk - (size0 - len (data b)))) by lia.
    rewrite (u32_small (size0 + (len chunk - (size0 - len (data b))))) by lia.
    destruct (BUFFER_MAX <=? size0 + (len chunk - (size0 - len (data b)))) eqn:E2; [discriminate|].
    apply Z.leb_gt in E2. intros H; inversion H; subst b'; clear H. cbn [data btag].
    split; [|split; reflexivity]. constructor; cbn [data size btag].
    + apply bytes_ok_app; split; assumption.
    + rewrite len_app; lia.
    + lia.
    + lia.
    + intros Ht. destruct (Htag Ht) as [H5 Hk]. split; [rewrite len_app; lia|].
      rewrite take_app_le by lia. exact Hk.
  - apply Z.ltb_ge in E1.
    destruct (BUFFER_MAX <=? size0) eqn:E2; [discriminate|].
    intros H; inversion H; subst b'; clear H. cbn [data btag].
    split; [|split; reflexivity]. constructor; cbn [data size btag].
    + apply bytes_ok_app; split; assumption.
    + rewrite len_app; lia.
    + lia.
    + lia.
    + intros Ht. destruct (Htag Ht) as [H5 Hk]. split; [rewrite len_app; lia|].
      rewrite take_app_le by lia. exact Hk.
Qed.

(* ---------- the spec parser is stable under appending more input ---------- *)
Definition extend (p : p1) (t : list Z) : p1 :=
  match p with Frame f rest => Frame f (rest ++ t) | x => x end.

Lemma parse1_app s t : bytes_ok s -> parse1 s <> Incomplete -> parse1 (s ++ t) = extend (parse1 s) t.
Proof.
  intros Hb.
  destruct consts_ok as [Ctl Ctp Chdr Cov Corr Coc Cods Codata Cmaxd Chp Cbmin Cbmax Cfits Csb Cnw Crm].
  pose proof (len_nonneg s) as Hs0. pose proof (len_nonneg t) as Ht0.
  pose proof (le32_range s OFF_DATA_SIZE Hb) as Hds.
  unfold parse1. rewrite len_app.
  destruct (len s <? TAG_SIZE) eqn:E1; [congruence|]. apply Z.ltb_ge in E1.
  destruct (len s + len t <? TAG_SIZE) eqn:E1'; [apply Z.ltb_lt in E1'; lia|].
  rewrite take_app_le by lia.
  destruct (negb (list_eqb (take TAG_SIZE s) TAG)) eqn:E2; [reflexivity|].
  destruct (len s <? HDR + TAG_SIZE) eqn:E3; [congruence|]. apply Z.ltb_ge in E3.
  destruct (len s + len t <? HDR + TAG_SIZE) eqn:E3'; [apply Z.ltb_lt in E3'; lia|].
  rewrite nthz_app_l by lia. rewrite le32_app_l by lia.
  set (ds := le32 s OFF_DATA_SIZE) in *.
  destruct ((PROTO_VERSION <? nthz s OFF_VERSION) || (nthz s OFF_VERSION <? PROTO_VERSION_MIN)) eqn:E4; [reflexivity|].
  destruct (MAX_DATA_SIZE <? ds) eqn:E5; [reflexivity|].
  destruct (len s <? HDR + ds + TAG_SIZE) eqn:E6; [congruence|]. apply Z.ltb_ge in E6.
  destruct (len s + len t <? HDR + ds + TAG_SIZE) eqn:E6'; [apply Z.ltb_lt in E6'; lia|].
  rewrite (drop_app_le (HDR + ds)) by lia.
  rewrite take_app_le by (rewrite len_drop by lia; lia).
  destruct (negb (list_eqb (take TAG_SIZE (drop (HDR + ds) s)) TAG)) eqn:E7; [reflexivity|].
  intros _. cbn [extend]. rewrite take_app_le by lia. rewrite (drop_app_le (HDR + ds + TAG_SIZE)) by lia. reflexivity.
Qed.

Lemma parse1_frame_shorter s f rest : bytes_ok s -> parse1 s = Frame f rest ->
  (length rest < length s)%nat /\ bytes_ok rest /\ bytes_ok f /\ s = f ++ TAG ++ rest.
Proof.
  intros Hb.
  destruct consts_ok as [Ctl Ctp Chdr Cov Corr Coc Cods Codata Cmaxd Chp Cbmin Cbmax Cfits Csb Cnw Crm].
  pose proof (len_nonneg s) as Hs0.
  pose proof (le32_range s OFF_DATA_SIZE Hb) as Hds.
  unfold parse1.
  remember (le32 s OFF_DATA_SIZE) as ds eqn:Eds.
  destruct (len s <? TAG_SIZE) eqn:E1; [discriminate|].
  destruct (negb (list_eqb (take TAG_SIZE s) TAG)) eqn:E2; [discriminate|].
  destruct (len s <? HDR + TAG_SIZE) eqn:E3; [discriminate|].
  destruct ((PROTO_VERSION <? nthz s OFF_VERSION) || (nthz s OFF_VERSION <? PROTO_VERSION_MIN)) eqn:E4; [discriminate|].
  destruct (MAX_DATA_SIZE <? ds) eqn:E5; [discriminate|].
  destruct (len s <? HDR + ds + TAG_SIZE) eqn:E6; [discriminate|]. apply Z.ltb_ge in E6.
  destruct (negb (list_eqb (take TAG_SIZE (drop (HDR + ds) s)) TAG)) eqn:E7; [discriminate|].
  intros H.
  assert (Hf : f = take (HDR + ds) s) by congruence.
  assert (Hr : rest = drop (HDR + ds + TAG_SIZE) s) by congruence.
  clear H; subst f rest.
  apply negb_false_iff, list_eqb_true in E7.
  split; [|split; [|split]].
  - assert (len (drop (HDR + ds + TAG_SIZE) s) < len s) by (rewrite len_drop by lia; lia). unfold len in *; lia.
  - apply bytes_ok_drop; assumption.
  - apply bytes_ok_take; assumption.
  - rewrite <- E7 at 1.
    rewrite <- (take_drop (HDR + ds) s) at 1. f_equal.
    rewrite <- (take_drop TAG_SIZE (drop (HDR + ds) s)) at 1. f_equal.
    rewrite drop_drop by lia. f_equal. lia.
Qed.

Lemma frames_fuel k1 k2 s : bytes_ok s -> (length s < k1)%nat -> (length s < k2)%nat -> frames k1 s = frames k2 s.
Proof.
  revert k2 s. induction k1 as [|k1 IH]; intros k2 s Hb H1 H2; [lia|].
  destruct k2 as [|k2]; [lia|]. cbn [frames].
  destruct (parse1 s) as [f rest| | |] eqn:E; try reflexivity.
  destruct (parse1_frame_shorter s f rest Hb E) as (Hlt & Hbr & _).
  rewrite (IH k2 rest) by (auto; lia). reflexivity.
Qed.

Lemma frames_of_step s : bytes_ok s ->
  frames_of s = match parse1 s with
                | Frame f rest => (f :: fst (frames_of rest), snd (frames_of rest))
                | Incomplete => ([], StIncomplete) | Bad => ([], StBad) | BadVersion => ([], StBadVersion)
                end.
Proof.
  intros Hb. unfold frames_of at 1. cbn [frames].
  destruct (parse1 s) as [f rest| | |] eqn:E; try reflexivity.
  destruct (parse1_frame_shorter s f rest Hb E) as (Hlt & Hbr & _).
  unfold frames_of. rewrite (frames_fuel (length s) (S (length rest)) rest) by (auto; lia).
  destruct (frames (S (length rest)) rest); reflexivity.
Qed.

(* ---------- what the handler sees is the frame ---------- *)
Lemma deliver_sdp_frame f junk :
  bytes_ok f -> len f = HDR + le32 f OFF_DATA_SIZE -> le32 f OFF_DATA_SIZE <= MAX_DATA_SIZE ->
  deliver_of_sdp (f ++ junk) = deliver_of_frame f.
Proof.
  intros Hb Hlen Hmax.
  destruct consts_ok as [Ctl Ctp Chdr Cov Corr Coc Cods Codata Cmaxd Chp Cbmin Cbmax Cfits Csb Cnw Crm].
  pose proof (le32_range f OFF_DATA_SIZE Hb) as Hds.
  unfold deliver_of_sdp, deliver_of_frame.
  rewrite !le32_app_l by lia. rewrite nthz_app_l by lia.
  remember (le32 f OFF_DATA_SIZE) as ds eqn:Eds.
  destruct (MAX_DATA_SIZE <? ds) eqn:E; [apply Z.ltb_lt in E; lia|].
  rewrite Codata. rewrite drop_app_le by lia.
  rewrite take_app_le by (rewrite len_drop by lia; lia).
  rewrite take_all by (rewrite len_drop by lia; lia). reflexivity.
Qed.

(* ---------- global invariants ---------- *)
Definition prefix {A} (a b : list A) : Prop := exists c, b = a ++ c.
Definition unparsed (s : st) : list Z := data (ib s) ++ stage s.

Record Inv1 (s : st) : Prop := {
  i1_b : InvB (ib s);
  i1_stage : bytes_ok (stage s);
  i1_stlen : len (stage s) <= RECVBUFF_MAX;
  i1_sdp : len (sdp s) = SDP_SIZE
}.

(* S = every byte received so far, F = the frames delivered so far *)
Definition Parsed (s : st) (S : list Z) (F : list (list Z)) : Prop :=
  bytes_ok S /\
  if halted s then forall X, bytes_ok X -> prefix F (fst (frames_of (S ++ X)))
  else forall X, bytes_ok X ->
       frames_of (S ++ X) = (F ++ fst (frames_of (unparsed s ++ X)), snd (frames_of (unparsed s ++ X))).

Lemma Parsed_prefix s S F : Parsed s S F -> forall X, bytes_ok X -> prefix F (fst (frames_of (S ++ X))).
Proof.
  intros [_ H] X HX. destruct (halted s); [auto|]. rewrite (H X HX). cbn [fst]. eexists; reflexivity.
Qed.

Lemma iterate_inv s S F :
  Inv1 s -> halted s = false -> Parsed s S F ->
  let '(s', o) := iterate false s in
  Inv1 s' /\ ~ In Fault o /\ ~ In Overflow o /\
  exists F', Parsed s' S (F ++ F') /\ filter is_deliver o = map deliver_of_frame F' /\
             (stage s = [] -> (parse1 (data (ib s)) = Bad \/ parse1 (data (ib s)) = BadVersion) ->
              o = [Restart] /\ halted s' = true).
Proof.
  intros [Hib Hst Hstl Hsdp] Hh HP.
  destruct consts_ok as [Ctl Ctp Chdr Cov Corr Coc Cods Codata Cmaxd Chp Cbmin Cbmax Cfits Csb Cnw Crm].
  pose proof (len_nonneg (stage s)) as Hsl0.
  unfold iterate.
  set (n := if SRPC_BUFFER <? len (stage s) then SRPC_BUFFER else len (stage s)).
  assert (Hn : 0 <= n <= len (stage s) /\ n <= SRPC_BUFFER).
  { unfold n; destruct (SRPC_BUFFER <? len (stage s)) eqn:E; [apply Z.ltb_lt in E|apply Z.ltb_ge in E]; lia. }
  set (chunk := take n (stage s)). set (stage' := drop n (stage s)).
  assert (Hsplit : stage s = chunk ++ stage') by (symmetry; apply take_drop).
  assert (Hck : bytes_ok chunk) by (apply bytes_ok_take; assumption).
  assert (Hst' : bytes_ok stage') by (apply bytes_ok_drop; assumption).
  assert (Hstl' : len stage' <= RECVBUFF_MAX) by (unfold stage'; rewrite len_drop by lia; lia).
  assert (Hclen : len chunk <= SRPC_BUFFER) by (unfold chunk; rewrite len_take by lia; lia).
  (* the buffer after the optional append *)
  assert (Hob : forall b, (if 0 <? n then append (ib s) chunk else Some (ib s)) = Some b ->
                InvB b /\ data b ++ stage' = unparsed s /\ (stage s = [] -> b = ib s)).
  { intros b. destruct (0 <? n) eqn:E0.
    - intros Ha. destruct (append_inv _ _ _ Hib Hck Hclen Ha) as (I & D & _).
      split; [exact I|]. split.
      + rewrite D. unfold unparsed. rewrite Hsplit, app_assoc. reflexivity.
      + intros Hnil. rewrite Hnil in Hn. cbn in Hn. apply Z.ltb_lt in E0. lia.
    - intros Ha; inversion Ha; subst b. split; [exact Hib|]. split; [|reflexivity].
      apply Z.ltb_ge in E0. assert (n = 0) by lia.
      unfold unparsed, stage'. rewrite H. reflexivity. }
  destruct HP as [HSb HP]. rewrite Hh in HP.
  destruct (if 0 <? n then append (ib s) chunk else Some (ib s)) as [b|] eqn:Eob.
  2:{ (* buffer overflow: restart *)
    split; [constructor; cbn [ib stage sdp]; assumption|].
    split; [cbn; intuition discriminate|]. split; [cbn; intuition discriminate|].
    exists []. rewrite app_nil_r. split; [|split].
    - split; [exact HSb|]. cbn [halted]. intros X HX. rewrite (HP X HX). cbn [fst]. eexists; reflexivity.
    - reflexivity.
    - intros Hnil _. exfalso. destruct (0 <? n) eqn:E0; [|discriminate].
      rewrite Hnil in Hn. cbn in Hn. apply Z.ltb_lt in E0. lia. }
  destruct (Hob b eq_refl) as (Ib & Hun & Hsame).
  pose proof (pop_refines b (sdp s) Ib) as HR.
  pose proof (pop_inv false b (sdp s) Ib) as HI.
  destruct (pop false b (sdp s)) as [[b' sdp'] r]. cbn [fst] in HI.
  destruct HR as [Hr HM].
  assert (Hbb : bytes_ok (data b)) by (destruct Ib; assumption).
  destruct (parse1 (data b)) as [f rest| | |] eqn:Ep; cbn [res_of] in Hr; subst r.
  - (* a complete frame *)
    destruct HM as (Hd' & Hs' & Hlf & Hmax).
    destruct (parse1_frame_shorter _ _ _ Hbb Ep) as (_ & Hbr & Hbf & Hdec).
    pose proof (le32_range (data b) OFF_DATA_SIZE Hbb) as Hdsr.
    assert (Hle : le32 f OFF_DATA_SIZE = le32 (data b) OFF_DATA_SIZE).
    { rewrite Hdec. symmetry. apply le32_app_l; lia. }
    split; [constructor; cbn [ib stage sdp]; auto|].
    { rewrite Hs', len_app, len_drop by (apply len_nonneg). lia. }
    split; [cbn; unfold deliver_of_sdp; intuition discriminate|].
    split; [cbn; unfold deliver_of_sdp; intuition discriminate|].
    exists [f]. split; [|split].
    + split; [exact HSb|]. cbn [halted]. intros X HX. rewrite (HP X HX).
      rewrite <- Hun. unfold unparsed; cbn [ib stage]. rewrite Hd'.
      rewrite <- !app_assoc.
      rewrite (frames_of_step (data b ++ stage' ++ X)) by (rewrite !bytes_ok_app; auto).
      rewrite (parse1_app (data b) (stage' ++ X) Hbb) by congruence. rewrite Ep. cbn [extend fst snd].
      reflexivity.
    + cbn [filter is_deliver map]. unfold deliver_of_sdp at 1. cbn [is_deliver].
      rewrite Hs'. rewrite deliver_sdp_frame by (auto; lia). reflexivity.
    + intros Hnil [Hbad|Hbad]; rewrite (Hsame Hnil) in Ep; congruence.
  - (* incomplete: nothing happens *)
    destruct HM as (Hd' & Hs' & Hsz'). subst sdp'.
    split; [constructor; cbn [ib stage sdp]; auto|].
    split; [cbn; tauto|]. split; [cbn; tauto|].
    exists []. rewrite app_nil_r. split; [|split].
    + split; [exact HSb|]. cbn [halted]. intros X HX. rewrite (HP X HX).
      unfold unparsed at 3 4; cbn [ib stage]. rewrite Hd', Hun. reflexivity.
    + reflexivity.
    + intros Hnil [Hbad|Hbad]; rewrite (Hsame Hnil) in Ep; congruence.
  - (* malformed: restart *)
    destruct HM as (Hd' & Hs'). subst sdp'.
    split; [constructor; cbn [ib stage sdp]; auto|].
    split; [cbn; intuition discriminate|]. split; [cbn; intuition discriminate|].
    exists []. rewrite app_nil_r. split; [|split].
    + split; [exact HSb|]. cbn [halted]. intros X HX. rewrite (HP X HX). cbn [fst]. eexists; reflexivity.
    + reflexivity.
    + intros _ _. split; reflexivity.
  - destruct HM as (Hd' & Hs'). subst sdp'.
    split; [constructor; cbn [ib stage sdp]; auto|].
    split; [cbn; intuition discriminate|]. split; [cbn; intuition discriminate|].
    exists []. rewrite app_nil_r. split; [|split].
    + split; [exact HSb|]. cbn [halted]. intros X HX. rewrite (HP X HX). cbn [fst]. eexists; reflexivity.
    + reflexivity.
    + intros _ _. split; reflexivity.
Qed.

Definition ev_ok (e : ev) : Prop := match e with Recv c => bytes_ok c | Tick => True end.
Definition ev_bytes (e : ev) : list Z := match e with Recv c => c | Tick => [] end.
Definition no_overflow (o : list out) : Prop := ~ In Overflow o.

Lemma Inv1_init : Inv1 init.
Proof.
  destruct consts_ok as [Ctl Ctp Chdr Cov Corr Coc Cods Codata Cmaxd Chp Cbmin Cbmax Cfits Csb Cnw Crm].
  constructor; cbn [init ib stage sdp].
  - constructor; cbn [size data btag]; [constructor| rewrite len_nil; lia | lia | lia | discriminate].
  - constructor.
  - rewrite len_nil; lia.
  - unfold zeros, len. rewrite repeat_length. lia.
Qed.

Lemma step_inv s S F e :
  Inv1 s -> Parsed s S F -> ev_ok e ->
  let '(s', o) := step false s e in
  Inv1 s' /\ ~ In Fault o /\
  (no_overflow o -> exists F', Parsed s' (S ++ ev_bytes e) (F ++ F') /\ filter is_deliver o = map deliver_of_frame F').
Proof.
  intros I1 HP He. unfold step.
  destruct (halted s) eqn:Hh.
  { split; [exact I1|]. split; [cbn; tauto|]. intros _. exists []. rewrite app_nil_r. split; [|reflexivity].
    destruct HP as [HSb HP]. rewrite Hh in HP.
    assert (Hbe : bytes_ok (ev_bytes e)) by (destruct e; cbn; [exact He|constructor]).
    split; [apply bytes_ok_app; split; assumption|]. rewrite Hh.
    intros X HX. rewrite <- app_assoc. apply HP. apply bytes_ok_app; split; assumption. }
  destruct e as [chunk|]; cbn [ev_bytes ev_ok] in *.
  - destruct (len chunk =? 0) eqn:E0.
    { apply Z.eqb_eq in E0. assert (chunk = []) by (destruct chunk; [reflexivity|rewrite len_cons in E0; pose proof (len_nonneg chunk); lia]).
      subst chunk. split; [exact I1|]. split; [cbn; tauto|]. intros _. exists []. rewrite !app_nil_r. split; [exact HP|reflexivity]. }
    destruct (len chunk <=? RECVBUFF_MAX - len (stage s)) eqn:E1.
    + apply Z.leb_le in E1.
      set (s1 := {| stage := stage s ++ chunk; ib := ib s; sdp := sdp s; halted := false |}).
      assert (I1' : Inv1 s1).
      { destruct I1 as [A B C D]. constructor; cbn [ib stage sdp s1]; auto.
        - apply bytes_ok_app; split; assumption.
        - rewrite len_app; lia. }
      assert (HP' : Parsed s1 (S ++ chunk) F).
      { destruct HP as [HSb HP]. rewrite Hh in HP. split; [apply bytes_ok_app; split; assumption|].
        cbn [halted s1]. intros X HX. rewrite <- app_assoc. rewrite (HP (chunk ++ X)) by (apply bytes_ok_app; split; assumption).
        unfold unparsed; cbn [ib stage s1]. rewrite <- !app_assoc. reflexivity. }
      pose proof (iterate_inv s1 (S ++ chunk) F I1' eq_refl HP') as HI.
      destruct (iterate false s1) as [s' o].
      destruct HI as (A & B & C & F' & D & E & _).
      split; [exact A|]. split; [exact B|]. intros _. exists F'. split; assumption.
    + split; [exact I1|]. split; [cbn; intuition discriminate|].
      intros Hno. exfalso. apply Hno. left; reflexivity.
  - rewrite app_nil_r.
    pose proof (iterate_inv s S F I1 Hh HP) as HI.
    destruct (iterate false s) as [s' o].
    destruct HI as (A & B & C & F' & D & E & _).
    split; [exact A|]. split; [exact B|]. intros _. exists F'. split; assumption.
Qed.

Lemma run_inv evs : forall s S F,
  Inv1 s -> Parsed s S F -> Forall ev_ok evs ->
  let '(s', o) := run_from false s evs in
  Inv1 s' /\ ~ In Fault o /\
  (no_overflow o -> exists F', Parsed s' (S ++ chunks_of evs) (F ++ F') /\ filter is_deliver o = map deliver_of_frame F').
Proof.
  induction evs as [|e evs IH]; intros s S F I1 HP Hok.
  - cbn [run_from]. split; [exact I1|]. split; [cbn; tauto|]. intros _. exists []. unfold chunks_of; cbn.
    rewrite !app_nil_r. split; [exact HP|reflexivity].
  - cbn [run_from]. inversion Hok as [|e' evs' He Hok']; subst.
    pose proof (step_inv s S F e I1 HP He) as HS.
    destruct (step false s e) as [s1 o1]. destruct HS as (I1' & NF1 & HS).
    destruct (in_dec (fun a b : out => ltac:(decide equality; try apply Z.eq_dec; apply (list_eq_dec Z.eq_dec))) Overflow o1) as [Hov|Hnov].
    + (* a chunk was dropped: only the unconditional part is claimed *)
      assert (HPd : Parsed {| stage := []; ib := ib init; sdp := sdp init; halted := true |} [] []).
      { split; [constructor|]. cbn [halted]. intros X _. exists (fst (frames_of ([] ++ X))). reflexivity. }
      (* use any Parsed for s1: we need one; derive the structural part from IH with a trivial halted-style Parsed *)
      assert (Hstruct : let '(s', o) := run_from false s1 evs in Inv1 s' /\ ~ In Fault o).
      { clear - IH I1' Hok'.
        (* structural facts do not depend on Parsed: re-run IH with the received stream reset *)
        destruct (halted s1) eqn:Hh1.
        - specialize (IH s1 [] [] I1').
          assert (P0 : Parsed s1 [] []).
          { split; [constructor|]. rewrite Hh1. intros X _. exists (fst (frames_of ([] ++ X))). reflexivity. }
          specialize (IH P0 Hok'). destruct (run_from false s1 evs) as [s' o]. tauto.
        - specialize (IH s1 (unparsed s1) [] I1').
          assert (P0 : Parsed s1 (unparsed s1) []).
          { split.
            - destruct I1' as [[A _ _ _ _] B _ _]. unfold unparsed. apply bytes_ok_app; split; assumption.
            - rewrite Hh1. intros X _. cbn [app]. destruct (frames_of (unparsed s1 ++ X)); reflexivity. }
          specialize (IH P0 Hok'). destruct (run_from false s1 evs) as [s' o]. tauto. }
      destruct (run_from false s1 evs) as [s2 o2]. destruct Hstruct as [A B].
      split; [exact A|]. split.
      * intros Hin. apply in_app_or in Hin. tauto.
      * intros Hno. exfalso. apply Hno. apply in_or_app. left; exact Hov.
    + destruct (HS Hnov) as (F1 & HP1 & HD1).
      specialize (IH s1 (S ++ ev_bytes e) (F ++ F1) I1' HP1 Hok').
      destruct (run_from false s1 evs) as [s2 o2]. destruct IH as (I2 & NF2 & HS2).
      split; [exact I2|]. split.
      * intros Hin. apply in_app_or in Hin. tauto.
      * intros Hno. assert (Hno2 : no_overflow o2) by (intros H; apply Hno; apply in_or_app; right; exact H).
        destruct (HS2 Hno2) as (F2 & HP2 & HD2).
        exists (F1 ++ F2). split.
        -- unfold chunks_of in *. cbn [map concat]. fold (ev_bytes e).
           replace (match e with Recv c => c | Tick => [] end) with (ev_bytes e) by reflexivity.
           rewrite !app_assoc in *. exact HP2.
        -- rewrite filter_app, map_app, HD1, HD2. reflexivity.
Qed.

(* ================= the property-level theorems ================= *)

(* Every packet handed to the handler is, byte for byte, one well-formed frame of the received
   stream; packets are handed over in stream order, each frame at most once: the delivered list
   is a prefix of the frame list of the chunk-free parser applied to the whole stream. *)
Theorem C01_faithful_thm evs :
  Forall ev_ok evs -> no_overflow (run evs) ->
  exists F, filter is_deliver (run evs) = map deliver_of_frame F /\
            prefix F (fst (frames_of (chunks_of evs))).
Proof.
  intros Hok Hno. unfold run in *. unfold CURRENT_SUMCHECK in *.
  assert (P0 : Parsed init [] []).
  { split; [constructor|]. cbn [halted init]. intros X _. unfold unparsed; cbn [init ib stage data app].
    destruct (frames_of X); reflexivity. }
  pose proof (run_inv evs init [] [] Inv1_init P0 Hok) as H.
  destruct (run_from false init evs) as [s' o]. cbn [snd] in *.
  destruct H as (_ & _ & H). destruct (H Hno) as (F' & HP & HD).
  exists F'. split; [exact HD|].
  pose proof (Parsed_prefix _ _ _ HP [] ltac:(constructor)) as Hp. rewrite !app_nil_r in Hp. exact Hp.
Qed.

(* The frames of the spec parser are consecutive, non-overlapping slices of the stream. *)
Theorem C01_frames_are_slices_thm : forall k s l st, bytes_ok s -> frames k s = (l, st) ->
  exists rest, s = concat (map (fun f => f ++ TAG) l) ++ rest.
Proof.
  induction k as [|k IH]; intros s l st Hb; cbn [frames].
  - intros H; inversion H; subst. exists s. reflexivity.
  - destruct (parse1 s) as [f r| | |] eqn:E; try (intros H; inversion H; subst; exists s; reflexivity).
    destruct (parse1_frame_shorter s f r Hb E) as (_ & Hbr & _ & Hdec).
    destruct (frames k r) as [l' st'] eqn:Ef. intros H. injection H as Hl Hst. subst l st.
    destruct (IH r l' st' Hbr Ef) as [rest Hr]. exists rest. cbn [map concat].
    rewrite Hdec at 1. rewrite Hr at 1. rewrite <- !app_assoc. reflexivity.
Qed.

(* Memory safety and the fixed receive limit: no access outside the buffers (the model marks
   every such access by Fault), the parser buffer stays below BUFFER_MAX, the staging buffer
   within RECVBUFF_MAX — for every event sequence, including those with dropped chunks. *)
Theorem C01_safe_thm evs :
  Forall ev_ok evs ->
  let '(s', o) := run_from CURRENT_SUMCHECK init evs in
  ~ In Fault o /\ len (data (ib s')) <= size (ib s') /\ size (ib s') < BUFFER_MAX /\
  len (stage s') <= RECVBUFF_MAX /\ len (sdp s') = SDP_SIZE.
Proof.
  intros Hok. unfold CURRENT_SUMCHECK.
  assert (P0 : Parsed init [] []).
  { split; [constructor|]. cbn [halted init]. intros X _. unfold unparsed; cbn [init ib stage data app].
    destruct (frames_of X); reflexivity. }
  pose proof (run_inv evs init [] [] Inv1_init P0 Hok) as H.
  destruct (run_from false init evs) as [s' o].
  destruct H as ([[A B C D E] F G K] & NF & _). tauto.
Qed.

(* A malformed or unsupported-version frame at the head of the buffered input is reported
   (restart) by the next iterate and nothing is delivered for it. *)
Theorem C01_malformed_reported_thm evs :
  Forall ev_ok evs ->
  let s := fst (run_from CURRENT_SUMCHECK init evs) in
  halted s = false -> stage s = [] ->
  parse1 (data (ib s)) = Bad \/ parse1 (data (ib s)) = BadVersion ->
  step CURRENT_SUMCHECK s Tick = (fst (step CURRENT_SUMCHECK s Tick), [Restart]) /\
  halted (fst (step CURRENT_SUMCHECK s Tick)) = true.
Proof.
  intros Hok. unfold CURRENT_SUMCHECK.
  assert (P0 : Parsed init [] []).
  { split; [constructor|]. cbn [halted init]. intros X _. unfold unparsed; cbn [init ib stage data app].
    destruct (frames_of X); reflexivity. }
  pose proof (run_inv evs init [] [] Inv1_init P0 Hok) as H.
  destruct (run_from false init evs) as [s o]. cbn [fst]. destruct H as (I1 & _ & _).
  intros Hh Hst Hbad. unfold step. rewrite Hh.
  assert (PS : Parsed s (unparsed s) []).
  { split.
    - destruct I1 as [[A _ _ _ _] B _ _]. unfold unparsed. apply bytes_ok_app; split; assumption.
    - rewrite Hh. intros X _. cbn [app]. destruct (frames_of (unparsed s ++ X)); reflexivity. }
  pose proof (iterate_inv s (unparsed s) [] I1 Hh PS) as HI.
  destruct (iterate false s) as [s' o']. destruct HI as (_ & _ & _ & F' & _ & _ & HB).
  destruct (HB Hst Hbad) as [Ho Hh']. subst o'. cbn [fst]. split; [reflexivity|exact Hh'].
Qed.

(* ---------- the code before the fix violated the property (machine-checked witness) ---------- *)
Definition witness_frame1 : list Z :=
  TAG ++ [DEVICE_PROTO_VERSION; 7;0;0;0; 50;0;0;0; 4;0;0;0; 1;2;3;4] ++ TAG.
Definition witness_evil : list Z :=
  TAG ++ [DEVICE_PROTO_VERSION; 9;0;0;0; 210;4;0;0; 238;255;255;255] ++ TAG ++ [1;2;3;4;5].
Definition witness_evs : list ev := [Recv witness_frame1; Recv witness_evil; Tick].

Lemma C01_old_code_refuted_thm :
  filter is_deliver (snd (run_from true init witness_evs)) =
    [Deliver 7 50 DEVICE_PROTO_VERSION [1;2;3;4]; Deliver 7 50 DEVICE_PROTO_VERSION [1;2;3;4]]
  /\ fst (frames_of (chunks_of witness_evs)) = [firstn 22 witness_frame1]
  /\ filter is_deliver (run witness_evs) = [Deliver 7 50 DEVICE_PROTO_VERSION [1;2;3;4]].
Proof. vm_compute. repeat split; reflexivity. Qed.

(* ================= progress: enough iterate ticks deliver everything or report ================= *)

(* one iterate, described purely in terms of the chunk-free parser applied to the unparsed input *)
Lemma iterate_spec s :
  Inv1 s -> halted s = false ->
  let '(s', o) := iterate false s in
  Inv1 s' /\
  ( (o = [Restart] /\ halted s' = true)
    \/ (exists f, o = [deliver_of_frame f] /\ halted s' = false /\
                  parse1 (unparsed s) = Frame f (unparsed s') /\ (length (stage s') <= length (stage s))%nat)
    \/ (o = [] /\ halted s' = false /\ unparsed s' = unparsed s /\
        (stage s = [] -> parse1 (unparsed s) = Incomplete /\ stage s' = []) /\
        (stage s <> [] -> (length (stage s') < length (stage s))%nat)) ).
Proof.
  intros [Hib Hst Hstl Hsdp] Hh.
  destruct consts_ok as [Ctl Ctp Chdr Cov Corr Coc Cods Codata Cmaxd Chp Cbmin Cbmax Cfits Csb Cnw Crm].
  pose proof (len_nonneg (stage s)) as Hsl0.
  unfold iterate.
  set (n := if SRPC_BUFFER <? len (stage s) then SRPC_BUFFER else len (stage s)).
  assert (Hn : 0 <= n <= len (stage s) /\ n <= SRPC_BUFFER /\ (stage s <> [] -> 0 < n)).
  { unfold n; destruct (SRPC_BUFFER <? len (stage s)) eqn:E; [apply Z.ltb_lt in E|apply Z.ltb_ge in E]; repeat split; try lia.
    intros Hne. destruct (stage s); [congruence|]. rewrite len_cons in *. pose proof (len_nonneg l). lia. }
  set (chunk := take n (stage s)). set (stage' := drop n (stage s)).
  assert (Hsplit : stage s = chunk ++ stage') by (symmetry; apply take_drop).
  assert (Hck : bytes_ok chunk) by (apply bytes_ok_take; assumption).
  assert (Hst' : bytes_ok stage') by (apply bytes_ok_drop; assumption).
  assert (Hstl' : len stage' <= RECVBUFF_MAX) by (unfold stage'; rewrite len_drop by lia; lia).
  assert (Hclen : len chunk <= SRPC_BUFFER) by (unfold chunk; rewrite len_take by lia; lia).
  assert (Hlen' : len stage' = len (stage s) - n) by (unfold stage'; rewrite len_drop by lia; lia).
  assert (Hob : forall b, (if 0 <? n then append (ib s) chunk else Some (ib s)) = Some b ->
                InvB b /\ data b ++ stage' = unparsed s /\ (stage s = [] -> b = ib s /\ stage' = [])).
  { intros b. destruct (0 <? n) eqn:E0.
    - intros Ha. destruct (append_inv _ _ _ Hib Hck Hclen Ha) as (I & D & _).
      split; [exact I|]. split.
      + rewrite D. unfold unparsed. rewrite Hsplit, app_assoc. reflexivity.
      + intros Hnil. rewrite Hnil in Hn. cbn in Hn. apply Z.ltb_lt in E0. lia.
    - intros Ha; inversion Ha; subst b. split; [exact Hib|]. split.
      + apply Z.ltb_ge in E0. assert (n = 0) by lia. unfold unparsed, stage'. rewrite H. reflexivity.
      + intros Hnil. split; [reflexivity|]. unfold stage', drop. rewrite Hnil. destruct (Z.to_nat n); reflexivity. }
  destruct (if 0 <? n then append (ib s) chunk else Some (ib s)) as [b|] eqn:Eob.
  2:{ split; [constructor; cbn [ib stage sdp]; assumption|]. left. split; reflexivity. }
  destruct (Hob b eq_refl) as (Ib & Hun & Hsame).
  pose proof (pop_refines b (sdp s) Ib) as HR.
  pose proof (pop_inv false b (sdp s) Ib) as HI.
  destruct (pop false b (sdp s)) as [[b' sdp'] r]. cbn [fst] in HI.
  destruct HR as [Hr HM].
  assert (Hbb : bytes_ok (data b)) by (destruct Ib; assumption).
  assert (Hshorter : (length stage' <= length (stage s))%nat) by (unfold len in Hlen'; lia).
  destruct (parse1 (data b)) as [f rest| | |] eqn:Ep; cbn [res_of] in Hr; subst r.
  - destruct HM as (Hd' & Hs' & Hlf & Hmax).
    destruct (parse1_frame_shorter _ _ _ Hbb Ep) as (_ & Hbr & Hbf & Hdec).
    pose proof (le32_range (data b) OFF_DATA_SIZE Hbb) as Hdsr.
    assert (Hle : le32 f OFF_DATA_SIZE = le32 (data b) OFF_DATA_SIZE).
    { rewrite Hdec. symmetry. apply le32_app_l; lia. }
    split; [constructor; cbn [ib stage sdp]; auto|].
    { rewrite Hs', len_app, len_drop by (apply len_nonneg). lia. }
    right; left. exists f. split; [|split; [reflexivity|split]].
    + rewrite Hs'. rewrite deliver_sdp_frame by (auto; lia). reflexivity.
    + rewrite <- Hun. unfold unparsed; cbn [ib stage]. rewrite Hd'.
      rewrite (parse1_app (data b) stage' Hbb) by congruence. rewrite Ep. reflexivity.
    + cbn [stage]. exact Hshorter.
  - destruct HM as (Hd' & Hs' & Hsz'). subst sdp'.
    split; [constructor; cbn [ib stage sdp]; auto|].
    right; right. split; [reflexivity|]. split; [reflexivity|]. split; [|split].
    + unfold unparsed at 1; cbn [ib stage]. rewrite Hd'. exact Hun.
    + intros Hnil. destruct (Hsame Hnil) as [Hb' Hst0]. cbn [stage]. split; [|exact Hst0].
      unfold unparsed. rewrite Hnil, app_nil_r. rewrite <- Hb'. exact Ep.
    + intros Hne. cbn [stage]. destruct Hn as (Hn1 & Hn2 & Hn3). specialize (Hn3 Hne). unfold len in Hlen'. lia.
  - split; [constructor; cbn [ib stage sdp]; auto|]. 2: left; split; reflexivity.
    destruct HM as (_ & Hs'). subst sdp'. exact Hsdp.
  - split; [constructor; cbn [ib stage sdp]; auto|]. 2: left; split; reflexivity.
    destruct HM as (_ & Hs'). subst sdp'. exact Hsdp.
Qed.

Definition bad_status (st : status) : nat := match st with StIncomplete => 0 | _ => 1 end.
Definition mu (s : st) : nat :=
  (length (stage s) + length (fst (frames_of (unparsed s))) + bad_status (snd (frames_of (unparsed s))))%nat.

Lemma unparsed_ok s : Inv1 s -> bytes_ok (unparsed s).
Proof. intros [[A _ _ _ _] B _ _]. unfold unparsed. apply bytes_ok_app; split; assumption. Qed.

(* After the last chunk, mu(s) further ticks either report an error (restart) or deliver every
   remaining frame of the stream and leave an incomplete (possibly empty) tail. *)
Lemma ticks_complete k : forall s,
  Inv1 s -> halted s = false -> (mu s <= k)%nat ->
  let '(s', o) := run_from false s (repeat Tick k) in
  In Restart o \/
  (filter is_deliver o = map deliver_of_frame (fst (frames_of (unparsed s))) /\
   snd (frames_of (unparsed s)) = StIncomplete /\ ~ In Overflow o).
Proof.
  induction k as [|k IH]; intros s I1 Hh Hmu.
  - cbn [repeat run_from]. right. unfold mu in Hmu.
    destruct (frames_of (unparsed s)) as [l st]; cbn [fst snd] in *.
    destruct l; [|cbn in Hmu; lia]. destruct st; cbn in Hmu; try lia.
    split; [reflexivity|]. split; [reflexivity|]. cbn; tauto.
  - cbn [repeat run_from]. unfold step. rewrite Hh.
    pose proof (iterate_spec s I1 Hh) as HS.
    destruct (iterate false s) as [s1 o1]. destruct HS as (I1' & HS).
    pose proof (unparsed_ok s I1) as HU.
    destruct HS as [(Ho & Hh1) | [(f & Ho & Hh1 & Hp & Hlen) | (Ho & Hh1 & Hun & Hnil & Hne)]].
    + subst o1. destruct (run_from false s1 (repeat Tick k)) as [s2 o2]. left. cbn. left; reflexivity.
    + subst o1.
      assert (Hfr : frames_of (unparsed s) = (f :: fst (frames_of (unparsed s1)), snd (frames_of (unparsed s1)))).
      { rewrite (frames_of_step _ HU), Hp. reflexivity. }
      assert (Hmu1 : (mu s1 <= k)%nat).
      { unfold mu in *. rewrite Hfr in Hmu. cbn [fst snd length] in Hmu. lia. }
      specialize (IH s1 I1' Hh1 Hmu1).
      destruct (run_from false s1 (repeat Tick k)) as [s2 o2].
      destruct IH as [Hr | (Hd & Hst & Hno)].
      * left. apply in_or_app. right; exact Hr.
      * right. rewrite Hfr. cbn [fst snd]. split; [|split; [exact Hst|]].
        -- cbn [app filter is_deliver map]. unfold deliver_of_frame at 1. cbn [is_deliver]. f_equal. exact Hd.
        -- cbn [app]. intros [H|H]; [unfold deliver_of_frame in H; discriminate|tauto].
    + subst o1. cbn [app].
      assert (Hmu1 : (mu s1 <= k)%nat).
      { unfold mu in *. rewrite Hun.
        destruct (stage s) as [|x xs] eqn:Est.
        - destruct (Hnil eq_refl) as [Hp Hs1]. rewrite Hs1. cbn [length].
          rewrite (frames_of_step _ HU), Hp. cbn. lia.
        - assert (Hx : x :: xs <> []) by discriminate. specialize (Hne Hx). lia. }
      specialize (IH s1 I1' Hh1 Hmu1). rewrite Hun in IH.
      destruct (run_from false s1 (repeat Tick k)) as [s2 o2]. exact IH.
Qed.

Lemma run_from_app sc a : forall s b,
  run_from sc s (a ++ b) =
  let '(s1, o1) := run_from sc s a in let '(s2, o2) := run_from sc s1 b in (s2, o1 ++ o2).
Proof.
  induction a as [|e a IH]; intros s b.
  - cbn [app run_from]. destruct (run_from sc s b); reflexivity.
  - cbn [app run_from]. destruct (step sc s e) as [s1 o1]. rewrite IH.
    destruct (run_from sc s1 a) as [s2 o2]. destruct (run_from sc s2 b) as [s3 o3].
    rewrite app_assoc. reflexivity.
Qed.

Lemma frames_count k : forall s l st, bytes_ok s -> frames k s = (l, st) -> (length l <= length s)%nat.
Proof.
  induction k as [|k IH]; intros s l st Hb; cbn [frames].
  - intros H; injection H as <- _. cbn; lia.
  - destruct (parse1 s) as [f r| | |] eqn:E; try (intros H; injection H as <- _; cbn; lia).
    destruct (parse1_frame_shorter s f r Hb E) as (Hlt & Hbr & _).
    destruct (frames k r) as [l' st'] eqn:Ef. intros H; injection H as <- _.
    specialize (IH r l' st' Hbr Ef). cbn [length]. lia.
Qed.

(* structural facts about one step that do not need the Parsed invariant *)
Lemma step_struct s e :
  Inv1 s -> ev_ok e ->
  let '(s', o) := step false s e in
  Inv1 s' /\
  (halted s' = true -> halted s = true \/ In Restart o) /\
  (halted s' = false -> ~ In Overflow o -> exists C, unparsed s ++ ev_bytes e = C ++ unparsed s').
Proof.
  intros I1 He. unfold step.
  destruct (halted s) eqn:Hh.
  { split; [exact I1|]. split; [tauto|]. intros Hc; congruence. }
  assert (Hit : forall s0, Inv1 s0 -> halted s0 = false ->
            let '(s', o) := iterate false s0 in
            Inv1 s' /\ (halted s' = true -> In Restart o) /\
            (halted s' = false -> exists C, unparsed s0 = C ++ unparsed s')).
  { intros s0 I0 H0. pose proof (iterate_spec s0 I0 H0) as HS. destruct (iterate false s0) as [s' o].
    destruct HS as (I' & HS). split; [exact I'|].
    destruct HS as [(Ho & Hh1) | [(f & Ho & Hh1 & Hp & Hlen) | (Ho & Hh1 & Hun & _)]].
    - split; [intros _; subst o; left; reflexivity|intros Hc; congruence].
    - split; [intros Hc; congruence|]. intros _.
      destruct (parse1_frame_shorter _ _ _ (unparsed_ok s0 I0) Hp) as (_ & _ & _ & Hdec).
      exists (f ++ TAG). rewrite <- app_assoc. exact Hdec.
    - split; [intros Hc; congruence|]. intros _. exists []. rewrite Hun. reflexivity. }
  destruct e as [chunk|]; cbn [ev_bytes ev_ok] in *.
  - destruct (len chunk =? 0) eqn:E0.
    { apply Z.eqb_eq in E0. assert (chunk = []) by (destruct chunk; [reflexivity|rewrite len_cons in E0; pose proof (len_nonneg chunk); lia]).
      subst chunk. split; [exact I1|]. split; [intros Hc; congruence|]. intros _ _. exists []. rewrite app_nil_r. reflexivity. }
    destruct (len chunk <=? RECVBUFF_MAX - len (stage s)) eqn:E1.
    + apply Z.leb_le in E1.
      set (s1 := {| stage := stage s ++ chunk; ib := ib s; sdp := sdp s; halted := false |}).
      assert (I1' : Inv1 s1).
      { destruct I1 as [A B C D]. constructor; cbn [ib stage sdp s1]; auto.
        - apply bytes_ok_app; split; assumption.
        - rewrite len_app; lia. }
      specialize (Hit s1 I1' eq_refl). destruct (iterate false s1) as [s' o].
      destruct Hit as (A & B & C). split; [exact A|]. split; [intros H; right; exact (B H)|].
      intros H _. destruct (C H) as [C0 HC]. exists C0. rewrite <- HC.
      unfold unparsed; cbn [ib stage s1]. rewrite app_assoc. reflexivity.
    + split; [exact I1|]. split; [intros Hc; congruence|]. intros _ Hno. exfalso. apply Hno. left; reflexivity.
  - specialize (Hit s I1 Hh). destruct (iterate false s) as [s' o].
    destruct Hit as (A & B & C). split; [exact A|]. split; [intros H; right; exact (B H)|].
    intros H _. rewrite app_nil_r. exact (C H).
Qed.

Lemma halted_stays sc evs : forall s, halted s = true -> run_from sc s evs = (s, []).
Proof.
  induction evs as [|e evs IH]; intros s Hh; cbn [run_from]; [reflexivity|].
  unfold step. rewrite Hh. rewrite (IH s Hh). reflexivity.
Qed.

Lemma run_struct evs : forall s,
  Inv1 s -> Forall ev_ok evs ->
  let '(s', o) := run_from false s evs in
  Inv1 s' /\
  (halted s' = true -> halted s = true \/ In Restart o) /\
  (halted s' = false -> ~ In Overflow o -> exists C, unparsed s ++ chunks_of evs = C ++ unparsed s').
Proof.
  induction evs as [|e evs IH]; intros s I1 Hok.
  - cbn [run_from]. split; [exact I1|]. split; [tauto|]. intros _ _. exists []. unfold chunks_of; cbn. rewrite app_nil_r. reflexivity.
  - cbn [run_from]. inversion Hok as [|e' evs' He Hok']; subst.
    pose proof (step_struct s e I1 He) as HS. destruct (step false s e) as [s1 o1]. destruct HS as (I1' & Hh1 & Hs1).
    specialize (IH s1 I1' Hok'). destruct (run_from false s1 evs) as [s2 o2] eqn:Hrun. destruct IH as (I2 & Hh2 & Hs2).
    split; [exact I2|]. split.
    + intros H. destruct (Hh2 H) as [H1|H1].
      * destruct (Hh1 H1) as [H0|H0]; [left; exact H0|right; apply in_or_app; left; exact H0].
      * right; apply in_or_app; right; exact H1.
    + intros H Hno.
      assert (Hno1 : ~ In Overflow o1) by (intros X; apply Hno; apply in_or_app; left; exact X).
      assert (Hno2 : ~ In Overflow o2) by (intros X; apply Hno; apply in_or_app; right; exact X).
      assert (Hh1f : halted s1 = false).
      { destruct (halted s1) eqn:E; [|reflexivity]. exfalso.
        (* a halted state stays halted *)
        rewrite (halted_stays false evs s1 E) in Hrun. injection Hrun as <- _. congruence. }
      destruct (Hs1 Hh1f Hno1) as [C1 HC1]. destruct (Hs2 H Hno2) as [C2 HC2].
      exists (C1 ++ C2). unfold chunks_of in *. cbn [map concat].
      change (match e with Recv c => c | Tick => [] end) with (ev_bytes e).
      rewrite app_assoc, HC1, <- app_assoc, HC2, app_assoc. reflexivity.
Qed.

(* The "reported as an error" clause for arbitrary chunkings: after any history without dropped
   chunks, 2*|stream|+1 further iterate ticks either restart the device or have delivered every
   frame of the stream with only an incomplete tail left; hence a stream that contains a malformed
   frame always ends in a restart, and it is never swallowed silently. *)
Theorem C01_complete_thm evs k :
  Forall ev_ok evs -> (2 * length (chunks_of evs) + 1 <= k)%nat ->
  let o := run (evs ++ repeat Tick k) in
  no_overflow o ->
  In Restart o \/
  (filter is_deliver o = map deliver_of_frame (fst (frames_of (chunks_of evs))) /\
   snd (frames_of (chunks_of evs)) = StIncomplete).
Proof.
  intros Hok Hk. unfold run, CURRENT_SUMCHECK. rewrite run_from_app.
  assert (P0 : Parsed init [] []).
  { split; [constructor|]. cbn [halted init]. intros X _. unfold unparsed; cbn [init ib stage data app].
    destruct (frames_of X); reflexivity. }
  pose proof (run_inv evs init [] [] Inv1_init P0 Hok) as HI.
  pose proof (run_struct evs init Inv1_init Hok) as HS.
  destruct (run_from false init evs) as [s1 o1]. destruct HI as (I1 & _ & HI). destruct HS as (_ & Hhalt & Hsuf).
  destruct (halted s1) eqn:Hh1.
  { (* already restarted *)
    destruct (run_from false s1 (repeat Tick k)) as [s2 o2]. cbn [snd]. intros _. left.
    destruct (Hhalt eq_refl) as [H|H]; [cbn in H; discriminate|]. apply in_or_app; left; exact H. }
  pose proof (ticks_complete k s1 I1 Hh1) as HT.
  destruct (run_from false s1 (repeat Tick k)) as [s2 o2] eqn:Hrun2. cbn [snd].
  intros Hno.
  assert (Hno1 : no_overflow o1) by (intros X; apply Hno; apply in_or_app; left; exact X).
  destruct (HI Hno1) as (F1 & HP1 & HD1). cbn [app] in HP1.
  destruct (Hsuf eq_refl Hno1) as [C HC]. unfold unparsed at 1 in HC. cbn [init ib stage data app] in HC.
  pose proof (unparsed_ok s1 I1) as HU.
  assert (Hbound : (mu s1 <= k)%nat).
  { unfold mu.
    assert (H1 : (length (stage s1) <= length (unparsed s1))%nat) by (unfold unparsed; rewrite app_length; lia).
    assert (H2 : (length (fst (frames_of (unparsed s1))) <= length (unparsed s1))%nat).
    { unfold frames_of. destruct (frames (S (length (unparsed s1))) (unparsed s1)) as [l st] eqn:E. cbn [fst].
      eapply frames_count; eauto. }
    assert (H3 : (length (unparsed s1) <= length (chunks_of evs))%nat) by (rewrite HC, app_length; lia).
    assert (H4 : (bad_status (snd (frames_of (unparsed s1))) <= 1)%nat) by (destruct (snd (frames_of (unparsed s1))); cbn; lia).
    lia. }
  specialize (HT Hbound).
  destruct HT as [Hr | (Hd & Hst & _)].
  - left. apply in_or_app; right; exact Hr.
  - right. destruct HP1 as [HSb HP1]. rewrite Hh1 in HP1.
    specialize (HP1 [] ltac:(constructor)). rewrite !app_nil_r in HP1.
    rewrite HP1. cbn [fst snd]. split; [|exact Hst].
    rewrite filter_app, HD1, Hd, map_app. reflexivity.
Qed.
