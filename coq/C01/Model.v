(* C01 — executable model of the SRPC receive path:
   supla_esp_devconn_recv_cb / supla_esp_data_read / srpc_iterate (IN half) /
   sproto_in_buffer_append / sproto_pop_in_sdp / sproto_shrink_in_buffer / in-queue / handler.
   Definitions only (proofs are in Proofs.v) so that extraction works even when a proof breaks. *)
From Coq Require Import List ZArith Bool.
Import ListNotations.
From V Require Import Base.U32 Base.Bytes Base.Iface Gen.ProtoConsts.
Local Open Scope Z_scope.

Definition HDR : Z := SDP_SIZE - MAX_DATA_SIZE.      (* header_size in sproto_pop_in_sdp *)

(* ---------- input buffer of TSuplaProtoData ---------- *)
Record inb := { size : Z; data : list Z; btag : bool }.

(* sproto_buffer_append on the input buffer; None = SUPLA_RESULT_BUFFER_OVERFLOW *)
Definition append (b : inb) (chunk : list Z) : option inb :=
  let size0 := if size b <? BUFFER_MIN then BUFFER_MIN else size b in
  let n := len chunk in
  let free := u32 (size0 - len (data b)) in
  let size1 := if free <? n then u32 (size0 + u32 (n - free)) else size0 in
  if BUFFER_MAX <=? size1 then None
  else Some {| size := size1; data := data b ++ chunk; btag := btag b |}.

(* sproto_shrink_in_buffer *)
Definition shrink (b : inb) (n : Z) : inb :=
  let n' := if len (data b) <? n then len (data b) else n in
  let d' := drop n' (data b) in
  let sz := if len d' <? size b then (if len d' <? BUFFER_MIN then BUFFER_MIN else len d') else size b in
  {| size := sz; data := d'; btag := false |}.

Inductive res := R_TRUE | R_FALSE | R_DATA_ERROR | R_VERSION_ERROR | R_FAULT.

(* an access [off, off+n) to an allocation of `sz` bytes is in bounds *)
Definition inside (off n sz : Z) : bool := (0 <=? off) && (0 <=? n) && (off + n <=? sz).

Definition memcpy_prefix (dst src : list Z) (n : Z) : list Z := take n src ++ drop n dst.

(* sproto_pop_in_sdp.  `sumcheck = true` is the length test of the code before the fix
   ((header_size + data_size) > sizeof(TSuplaDataPacket), computed in 32 bits);
   `sumcheck = false` is the repaired test (data_size > SUPLA_MAX_DATA_SIZE).
   R_FAULT marks an access outside the allocated buffer or outside the scratch packet. *)
Definition pop (sumcheck : bool) (b : inb) (sdp : list Z) : inb * list Z * res :=
  let b1 :=
    if negb (btag b) && (TAG_SIZE <=? len (data b)) then
      if list_eqb (take TAG_SIZE (data b)) TAG
      then Some {| size := size b; data := data b; btag := true |}
      else None
    else Some b in
  match b1 with
  | None => (shrink b (len (data b)), sdp, R_DATA_ERROR)
  | Some b =>
    if btag b then
      if HDR <=? u32 (len (data b) - TAG_SIZE) then
        if negb (inside 0 HDR (size b)) then (b, sdp, R_FAULT) else
        let ver := nthz (data b) OFF_VERSION in
        let ds := le32 (data b) OFF_DATA_SIZE in
        let tot := u32 (HDR + ds) in
        if (PROTO_VERSION <? ver) || (ver <? PROTO_VERSION_MIN) then
          (shrink b (len (data b)), sdp, R_VERSION_ERROR)
        else if (if sumcheck then SDP_SIZE <? tot else MAX_DATA_SIZE <? ds) then
          (shrink b (len (data b)), sdp, R_DATA_ERROR)
        else if len (data b) <? u32 (tot + TAG_SIZE) then (b, sdp, R_FALSE)
        else if (size b <=? tot) then (shrink b (len (data b)), sdp, R_DATA_ERROR)
        else if negb (inside tot TAG_SIZE (size b)) then (b, sdp, R_FAULT)
        else if negb (list_eqb (take TAG_SIZE (drop tot (data b))) TAG) then
          (shrink b (len (data b)), sdp, R_DATA_ERROR)
        else if negb (inside 0 tot SDP_SIZE && inside 0 tot (size b)) then (b, sdp, R_FAULT)
        else (shrink b (u32 (tot + TAG_SIZE)), memcpy_prefix sdp (data b) tot, R_TRUE)
      else (b, sdp, R_FALSE)
    else (b, sdp, R_FALSE)
  end.

(* ---------- device state ---------- *)
Record st := { stage : list Z;       (* devconn->recvbuff[0..recvbuff_size) *)
               ib : inb;             (* proto input buffer *)
               sdp : list Z;         (* srpc->sdp scratch packet, SDP_SIZE bytes *)
               halted : bool }.      (* supla_system_restart() was called *)

Definition init : st :=
  {| stage := []; ib := {| size := 0; data := []; btag := false |}; sdp := zeros SDP_SIZE; halted := false |}.

Inductive ev := Recv (chunk : list Z) | Tick.
Inductive out := Deliver (rr call ver : Z) (payload : list Z) | Restart | Overflow | Fault.

(* what the handler sees: header fields of the scratch packet and the queued copy of it *)
Definition deliver_of_sdp (p : list Z) : out :=
  let ds := le32 p OFF_DATA_SIZE in
  Deliver (le32 p OFF_RR_ID) (le32 p OFF_CALL_ID) (nthz p OFF_VERSION)
          (take (if MAX_DATA_SIZE <? ds then MAX_DATA_SIZE else ds) (drop OFF_DATA p)).

(* supla_esp_devconn_iterate -> srpc_iterate (registered, nothing to send) *)
Definition iterate (sumcheck : bool) (s : st) : st * list out :=
  let n := if SRPC_BUFFER <? len (stage s) then SRPC_BUFFER else len (stage s) in
  let chunk := take n (stage s) in
  let stage' := drop n (stage s) in
  let ob := if 0 <? n then append (ib s) chunk else Some (ib s) in
  match ob with
  | None => ({| stage := stage'; ib := ib s; sdp := sdp s; halted := true |}, [Restart])
  | Some b =>
    match pop sumcheck b (sdp s) with
    | (b', sdp', R_TRUE) =>
        ({| stage := stage'; ib := b'; sdp := sdp'; halted := false |}, [deliver_of_sdp sdp'])
    | (b', sdp', R_FALSE) =>
        ({| stage := stage'; ib := b'; sdp := sdp'; halted := false |}, [])
    | (b', sdp', R_FAULT) =>
        ({| stage := stage'; ib := b'; sdp := sdp'; halted := true |}, [Fault])
    | (b', sdp', _) =>
        ({| stage := stage'; ib := b'; sdp := sdp'; halted := true |}, [Restart])
    end
  end.

Definition step (sumcheck : bool) (s : st) (e : ev) : st * list out :=
  if halted s then (s, []) else
  match e with
  | Tick => iterate sumcheck s
  | Recv chunk =>
      if len chunk =? 0 then (s, [])
      else if len chunk <=? RECVBUFF_MAX - len (stage s) then
        iterate sumcheck {| stage := stage s ++ chunk; ib := ib s; sdp := sdp s; halted := false |}
      else (s, [Overflow])
  end.

Fixpoint run_from (sumcheck : bool) (s : st) (evs : list ev) : st * list out :=
  match evs with
  | [] => (s, [])
  | e :: r => let '(s1, o1) := step sumcheck s e in
              let '(s2, o2) := run_from sumcheck s1 r in (s2, o1 ++ o2)
  end.

(* the model of the current tree: the repaired length test *)
Definition CURRENT_SUMCHECK : bool := false.
Definition run (evs : list ev) : list out := snd (run_from CURRENT_SUMCHECK init evs).

(* ---------- specification: chunk-free parser of a whole stream ---------- *)
Inductive p1 := Frame (f rest : list Z) | Incomplete | Bad | BadVersion.

Definition parse1 (s : list Z) : p1 :=
  if len s <? TAG_SIZE then Incomplete
  else if negb (list_eqb (take TAG_SIZE s) TAG) then Bad
  else if len s <? HDR + TAG_SIZE then Incomplete
  else let ver := nthz s OFF_VERSION in let ds := le32 s OFF_DATA_SIZE in
    if (PROTO_VERSION <? ver) || (ver <? PROTO_VERSION_MIN) then BadVersion
    else if MAX_DATA_SIZE <? ds then Bad
    else if len s <? HDR + ds + TAG_SIZE then Incomplete
    else if negb (list_eqb (take TAG_SIZE (drop (HDR + ds) s)) TAG) then Bad
    else Frame (take (HDR + ds) s) (drop (HDR + ds + TAG_SIZE) s).

Inductive status := StIncomplete | StBad | StBadVersion.

Fixpoint frames (fuel : nat) (s : list Z) : list (list Z) * status :=
  match fuel with
  | O => ([], StIncomplete)
  | S k => match parse1 s with
           | Frame f rest => let '(l, st) := frames k rest in (f :: l, st)
           | Incomplete => ([], StIncomplete)
           | Bad => ([], StBad)
           | BadVersion => ([], StBadVersion)
           end
  end.
Definition frames_of (s : list Z) := frames (S (length s)) s.

(* what a handler must see for frame f (f = header ++ payload, without the end tag) *)
Definition deliver_of_frame (f : list Z) : out :=
  Deliver (le32 f OFF_RR_ID) (le32 f OFF_CALL_ID) (nthz f OFF_VERSION) (drop OFF_DATA f).

Definition chunks_of (evs : list ev) : list Z :=
  concat (map (fun e => match e with Recv c => c | Tick => [] end) evs).
Definition is_deliver (o : out) : bool := match o with Deliver _ _ _ _ => true | _ => false end.
Definition is_overflow (o : out) : bool := match o with Overflow => true | _ => false end.

(* ---------- wire interface for the harness ---------- *)
Definition ev_of_wire (w : wire) : ev :=
  match w with (k, _, b) => if k =? 0 then Recv b else Tick end.
Definition wire_of_out (o : out) : wire :=
  match o with
  | Deliver rr call ver p => mk 0 [rr; call; ver] p
  | Restart => mk 1 [] []
  | Overflow => mk 2 [] []
  | Fault => mk 3 [] []
  end.
Definition run_wire (sumcheck : bool) (ws : list wire) : list wire :=
  map wire_of_out (snd (run_from sumcheck init (map ev_of_wire ws))).
Definition main_wire (ws : list wire) : list wire := run_wire CURRENT_SUMCHECK ws.
