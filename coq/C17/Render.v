(* C17 — number rendering: specification on unbounded integers and the proof that the model of
   supla_esp_mqtt_prepare_val (C17/Model.v, repaired code) computes it for every 64-bit value and precision 0..20. *)
From Coq Require Import List ZArith Lia Bool.
Import ListNotations.
From V Require Import Base.U32 Base.Bytes C17.Model.
Local Open Scope Z_scope.

(* ------------------------------------------------------------------------------------------ *)
(* specification *)
(* decimal digits of a > 0, most significant first ([] for 0) *)
Fixpoint dec_digits (fuel : nat) (a : Z) : list Z :=
  match fuel with O => [] | S k => if a <=? 0 then [] else dec_digits k (a / 10) ++ [48 + a mod 10] end.
Definition digits (a : Z) : list Z := dec_digits (S (Z.to_nat (Z.log2 a))) a.
(* drop up to p trailing zeros: a / 10^p = a' / 10^p' *)
Fixpoint strip_zeros (p : nat) (a : Z) : Z * nat :=
  match p with
  | O => (a, O)
  | S k => if (a mod 10 =? 0) && negb (a =? 0) then strip_zeros k (a / 10) else (a, S k)
  end.
(* the exact decimal expansion of v / 10^p without trailing zeros in the fraction *)
Definition render_spec (v : Z) (p : nat) : list Z :=
  let '(a', p') := strip_zeros p (Z.abs v) in
  let ds := digits a' in
  let n := length ds in
  let sgn := if v <? 0 then [45] else [] in
  if a' =? 0 then [48]
  else match p' with
       | O => sgn ++ ds
       | _ => if (n <=? p')%nat then sgn ++ [48; 46] ++ repeat 48 (p' - n) ++ ds
              else sgn ++ firstn (n - p') ds ++ [46] ++ skipn (n - p') ds
       end.

(* reading a rendered number back: (signed mantissa, scale) meaning mantissa / 10^scale *)
Fixpoint dval (acc : Z) (l : list Z) : Z := match l with [] => acc | d :: t => dval (acc * 10 + (d - 48)) t end.
Fixpoint split_dot (l : list Z) : list Z * option (list Z) :=
  match l with
  | [] => ([], None)
  | d :: t => if d =? 46 then ([], Some t) else let '(a, b) := split_dot t in (d :: a, b)
  end.
Definition all_digits (l : list Z) : bool := forallb (fun d => (48 <=? d) && (d <=? 57)) l.
Definition parse_decimal (s : list Z) : option (Z * Z) :=
  let '(neg, r) := match s with d :: t => if d =? 45 then (true, t) else (false, s) | [] => (false, s) end in
  let '(ip, ofp) := split_dot r in
  let fp := match ofp with Some f => f | None => [] end in
  if all_digits ip && all_digits fp && negb (len ip =? 0)
  then Some ((if neg then -1 else 1) * dval 0 (ip ++ fp), len fp) else None.

(* ------------------------------------------------------------------------------------------ *)
(* digits *)
Fixpoint lastdigits (n : nat) (v : Z) : list Z :=
  match n with O => [] | S k => lastdigits k (v / 10) ++ [48 + v mod 10] end.

Lemma pow10_pos f : 0 < 10 ^ Z.of_nat f. Proof. apply Z.pow_pos_nonneg; lia. Qed.
Lemma pow10_S f : 10 ^ Z.of_nat (S f) = 10 * 10 ^ Z.of_nat f.
Proof. rewrite Nat2Z.inj_succ, Z.pow_succ_r by lia. reflexivity. Qed.

Lemma length_snoc {A} (l : list A) x : length (l ++ [x]) = S (length l).
Proof. rewrite app_length. cbn. lia. Qed.

Lemma dec_digits_last f : forall a, dec_digits f a = lastdigits (length (dec_digits f a)) a.
Proof.
  induction f as [|k IH]; intros a; cbn [dec_digits]; [reflexivity|].
  destruct (a <=? 0); [reflexivity|]. rewrite length_snoc. cbn [lastdigits]. rewrite <- IH. reflexivity.
Qed.
Lemma dec_digits_fuel f : forall g a, a < 10 ^ Z.of_nat f -> a < 10 ^ Z.of_nat g -> dec_digits f a = dec_digits g a.
Proof.
  induction f as [|k IH]; intros g a Hf Hg.
  - cbn in Hf. destruct g; cbn [dec_digits]; [reflexivity|]. replace (a <=? 0) with true by (symmetry; apply Z.leb_le; lia). reflexivity.
  - destruct g as [|m].
    + cbn in Hg. cbn [dec_digits]. replace (a <=? 0) with true by (symmetry; apply Z.leb_le; lia). reflexivity.
    + cbn [dec_digits]. destruct (a <=? 0) eqn:E; [reflexivity|]. apply Z.leb_gt in E. f_equal.
      rewrite pow10_S in Hf, Hg. apply IH; apply Z.div_lt_upper_bound; lia.
Qed.
Lemma digits_fuel f a : a < 10 ^ Z.of_nat f -> digits a = dec_digits f a.
Proof.
  intros H. unfold digits. destruct (Z_le_gt_dec a 0) as [L|G].
  - cbn [dec_digits]. replace (a <=? 0) with true by (symmetry; apply Z.leb_le; lia).
    destruct f; cbn [dec_digits]; [reflexivity|]. replace (a <=? 0) with true by (symmetry; apply Z.leb_le; lia). reflexivity.
  - apply dec_digits_fuel; [|exact H].
    rewrite Nat2Z.inj_succ, Z2Nat.id by apply Z.log2_nonneg.
    pose proof (Z.log2_spec a ltac:(lia)) as [_ U].
    eapply Z.lt_le_trans; [exact U|]. apply Z.pow_le_mono_l. pose proof (Z.log2_nonneg a). lia.
Qed.
Lemma len_lastdigits n v : length (lastdigits n v) = n.
Proof. revert v. induction n as [|k IH]; intros v; cbn [lastdigits]; [reflexivity|]. rewrite length_snoc, IH. reflexivity. Qed.
Lemma lastdigits_split j : forall k v, lastdigits (k + j) v = lastdigits k (v / 10 ^ Z.of_nat j) ++ lastdigits j v.
Proof.
  induction j as [|i IH]; intros k v.
  - rewrite Nat.add_0_r. cbn [lastdigits]. rewrite app_nil_r. change (10 ^ Z.of_nat 0) with 1. rewrite Z.div_1_r. reflexivity.
  - replace (k + S i)%nat with (S (k + i)) by lia. cbn [lastdigits]. rewrite IH, <- app_assoc. f_equal.
    rewrite pow10_S. rewrite Z.div_div by (try apply pow10_pos; lia). reflexivity.
Qed.

(* ------------------------------------------------------------------------------------------ *)
(* first loop of prepare_val: trailing zeros of the fraction are dropped, the remaining digits counted *)
Lemma count_phase2 fuel : forall v value p n, 0 <= v < 10 ^ Z.of_nat fuel -> 0 <= n -> n + Z.of_nat fuel < 256 ->
  count_loop fuel v value p true n = (value, p, n + Z.of_nat (length (dec_digits fuel v))).
Proof.
  induction fuel as [|k IH]; intros v value p n Hv Hn Hb.
  - cbn. f_equal. lia.
  - cbn [count_loop dec_digits]. destruct (v =? 0) eqn:E.
    + apply Z.eqb_eq in E. subst. cbn. f_equal. lia.
    + apply Z.eqb_neq in E. cbn [negb andb]. replace (v <=? 0) with false by (symmetry; apply Z.leb_gt; lia).
      rewrite u8_small by lia. rewrite pow10_S in Hv.
      rewrite IH by (try (split; [apply Z.div_pos; lia|apply Z.div_lt_upper_bound; lia]); lia).
      rewrite length_snoc. f_equal. lia.
Qed.

Lemma count_phase1 p : forall fuel v, 0 < v < 10 ^ Z.of_nat fuel -> (fuel < 200)%nat ->
  count_loop fuel v v (Z.of_nat p) false 0 =
  (fst (strip_zeros p v), Z.of_nat (snd (strip_zeros p v)), Z.of_nat (length (digits (fst (strip_zeros p v))))) /\
  0 < fst (strip_zeros p v) <= v.
Proof.
  induction p as [|k IH]; intros fuel v Hv Hf.
  - destruct fuel as [|f]; [cbn in Hv; lia|]. cbn [strip_zeros fst snd]. cbn [count_loop].
    replace (v =? 0) with false by (symmetry; apply Z.eqb_neq; lia). cbn [negb andb Z.of_nat Z.ltb Z.compare].
    rewrite u8_small by lia. rewrite pow10_S in Hv.
    rewrite count_phase2 by (try (split; [apply Z.div_pos; lia|apply Z.div_lt_upper_bound; lia]); lia).
    rewrite (digits_fuel (S f) v) by (rewrite pow10_S; lia). cbn [dec_digits].
    replace (v <=? 0) with false by (symmetry; apply Z.leb_gt; lia). rewrite length_snoc.
    split; [f_equal; lia|lia].
  - destruct fuel as [|f]; [cbn in Hv; lia|]. cbn [strip_zeros]. cbn [count_loop].
    replace (v =? 0) with false by (symmetry; apply Z.eqb_neq; lia). cbn [negb andb].
    replace (0 <? Z.of_nat (S k)) with true by (symmetry; apply Z.ltb_lt; lia). cbn [andb]. rewrite pow10_S in Hv.
    destruct (v mod 10 =? 0) eqn:M.
    + apply Z.eqb_eq in M. cbn [negb andb].
      assert (D : 0 < v / 10 < 10 ^ Z.of_nat f).
      { split; [|apply Z.div_lt_upper_bound; lia]. pose proof (Z.div_mod v 10 ltac:(lia)). lia. }
      rewrite Z.quot_div_nonneg by lia. replace (Z.of_nat (S k) - 1) with (Z.of_nat k) by lia.
      destruct (IH f (v / 10) D ltac:(lia)) as [I1 I2]. rewrite I1. split; [reflexivity|].
      pose proof (Z.div_mod v 10 ltac:(lia)). lia.
    + cbn [negb andb fst snd]. rewrite u8_small by lia.
      rewrite count_phase2 by (try (split; [apply Z.div_pos; lia|apply Z.div_lt_upper_bound; lia]); lia).
      rewrite (digits_fuel (S f) v) by (rewrite pow10_S; lia). cbn [dec_digits].
      replace (v <=? 0) with false by (symmetry; apply Z.leb_gt; lia). rewrite length_snoc.
      split; [f_equal; lia|lia].
Qed.

(* ------------------------------------------------------------------------------------------ *)
(* buffer writes *)
Lemma put_mid (pre : list Z) x post y : put (pre ++ x :: post) (len pre) y = pre ++ y :: post.
Proof.
  unfold put. pose proof (len_nonneg pre). pose proof (len_nonneg post).
  replace ((0 <=? len pre) && (len pre <? len (pre ++ x :: post))) with true
    by (symmetry; apply andb_true_iff; split; [apply Z.leb_le; lia|apply Z.ltb_lt; rewrite len_app, len_cons; lia]).
  rewrite take_app_exact. replace (pre ++ x :: post) with ((pre ++ [x]) ++ post) by (rewrite <- app_assoc; reflexivity).
  replace (len pre + 1) with (len (pre ++ [x])) by (rewrite len_app; reflexivity). rewrite drop_app_exact. reflexivity.
Qed.
Lemma repeat_snoc {A} (x : A) n : repeat x n ++ [x] = x :: repeat x n.
Proof. induction n as [|k IH]; [reflexivity|]. cbn [repeat app]. rewrite IH. reflexivity. Qed.
Lemma len_repeat {A} (x : A) n : len (repeat x n) = Z.of_nat n.
Proof. unfold len. rewrite repeat_length. reflexivity. Qed.
Lemma len_nat {A} (l : list A) : len l = Z.of_nat (length l). Proof. reflexivity. Qed.

(* one step of the digit loop when the dot is due: the same as a step without dot one cell further left *)
Lemma digit_dot_step k b value n off : 1 <= off < 256 ->
  digit_loop (S k) b value 1 n off = digit_loop (S k) (if n <=? 0 then b else put b (n + off - 1) 46) value 0 n (off - 1).
Proof.
  intros H. cbn [digit_loop]. destruct (n <=? 0); [reflexivity|].
  change (0 <? 1) with true. change (0 <? 0) with false. cbn [andb]. change (1 - 1 =? 0) with true. cbv iota.
  rewrite u8_small by lia. reflexivity.
Qed.

(* j steps without a dot fill the last j cells of the window `mid` with the j low digits of value *)
Lemma digit_steps j : forall fuel pre mid post value prec,
  (j <= length mid)%nat -> (j <= fuel)%nat -> 0 <= value -> (prec = 0 \/ Z.of_nat j < prec) ->
  digit_loop fuel (pre ++ mid ++ post) value prec (len mid) (len pre) =
  digit_loop (fuel - j) (pre ++ firstn (length mid - j) mid ++ lastdigits j value ++ post)
             (value / 10 ^ Z.of_nat j) (if prec =? 0 then 0 else prec - Z.of_nat j) (len mid - Z.of_nat j) (len pre).
Proof.
  induction j as [|i IH]; intros fuel pre mid post value prec Hm Hf Hv Hp.
  - rewrite Nat.sub_0_r, Nat.sub_0_r, firstn_all. cbn [lastdigits app]. change (10 ^ Z.of_nat 0) with 1. rewrite Z.div_1_r.
    replace (if prec =? 0 then 0 else prec - Z.of_nat 0) with prec by (destruct (prec =? 0) eqn:E; [apply Z.eqb_eq in E|]; lia).
    replace (len mid - Z.of_nat 0) with (len mid) by lia. reflexivity.
  - destruct fuel as [|f]; [lia|]. cbn [digit_loop].
    assert (LM : 0 < len mid) by (unfold len; lia).
    replace (len mid <=? 0) with false by (symmetry; apply Z.leb_gt; lia).
    (* no dot in this step *)
    assert (ND : ((0 <? prec) && ((if 0 <? prec then prec - 1 else prec) =? 0)) = false).
    { destruct Hp as [-> | Hp]; [reflexivity|]. replace (0 <? prec) with true by (symmetry; apply Z.ltb_lt; lia).
      cbn [andb]. apply Z.eqb_neq. lia. }
    rewrite ND. cbv iota.
    (* the cell written: the last one of mid *)
    destruct (exists_last (l := mid)) as (m' & x & EM); [intros E; rewrite E in Hm; cbn in Hm; lia|].
    assert (LM' : length mid = S (length m')) by (rewrite EM, length_snoc; reflexivity).
    assert (IDX : len mid + len pre - 1 = len (pre ++ m')) by (rewrite len_app; unfold len; lia).
    rewrite IDX. rewrite EM at 1. rewrite <- app_assoc. cbn [app]. rewrite (app_assoc pre m'), put_mid.
    rewrite Z.quot_div_nonneg by lia. rewrite Z.rem_mod_nonneg by lia.
    assert (M10 : 0 <= value mod 10 < 10) by (apply Z.mod_pos_bound; lia). rewrite u8_small by lia.
    rewrite <- app_assoc.
    replace (len mid - 1) with (len m') by (unfold len; lia).
    change ((48 + value mod 10) :: post) with ([48 + value mod 10] ++ post).
    replace (value mod 10 + 48) with (48 + value mod 10) by lia.
    assert (Hp' : (if 0 <? prec then prec - 1 else prec) = 0 \/ Z.of_nat i < (if 0 <? prec then prec - 1 else prec)).
    { destruct Hp as [-> | Hp]; [left; reflexivity|]. right. replace (0 <? prec) with true by (symmetry; apply Z.ltb_lt; lia). lia. }
    rewrite (IH f pre m' ((48 + value mod 10) :: post) (value / 10) (if 0 <? prec then prec - 1 else prec));
      [|lia|lia|apply Z.div_pos; lia|exact Hp'].
    replace (S f - S i)%nat with (f - i)%nat by lia.
    f_equal.
    + f_equal. replace (length mid - S i)%nat with (length m' - i)%nat by lia.
      rewrite EM, firstn_app. replace (length m' - i - length m')%nat with 0%nat by lia. cbn [firstn]. rewrite app_nil_r.
      cbn [lastdigits]. rewrite <- !app_assoc. reflexivity.
    + rewrite pow10_S, Z.div_div by (try apply pow10_pos; lia). reflexivity.
    + destruct Hp as [-> | Hp]; [reflexivity|]. replace (0 <? prec) with true by (symmetry; apply Z.ltb_lt; lia).
      replace (prec =? 0) with false by (symmetry; apply Z.eqb_neq; lia). replace (prec - 1 =? 0) with false by (symmetry; apply Z.eqb_neq; lia). lia.
    + unfold len. lia.
Qed.

Lemma digit_loop_done fuel b value prec off : digit_loop fuel b value prec 0 off = b.
Proof. destruct fuel; reflexivity. Qed.
Lemma firstn_repeat {A} (x : A) k n : (k <= n)%nat -> firstn k (repeat x n) = repeat x k.
Proof. revert n. induction k as [|j IH]; intros n H; [reflexivity|]. destruct n; [lia|]. cbn [repeat firstn]. rewrite IH by lia. reflexivity. Qed.
Lemma repeat_app_split {A} (x : A) a b : repeat x (a + b) = repeat x a ++ repeat x b.
Proof. apply repeat_app. Qed.

(* a window of n junk cells is filled with the n low digits of value *)
Lemma fill_window fuel pre n post value prec :
  (n <= fuel)%nat -> 0 <= value -> (prec = 0 \/ Z.of_nat n < prec) ->
  digit_loop fuel (pre ++ repeat 85 n ++ post) value prec (Z.of_nat n) (len pre) = pre ++ lastdigits n value ++ post.
Proof.
  intros Hf Hv Hp. rewrite <- (len_repeat 85 n).
  rewrite (digit_steps n fuel pre (repeat 85 n) post value prec) by (rewrite ?repeat_length; auto; lia).
  rewrite repeat_length, Nat.sub_diag. cbn [firstn app]. rewrite len_repeat, Z.sub_diag. apply digit_loop_done.
Qed.

Lemma zero_fill_spec k : forall pre m, (k <= m)%nat -> len pre + Z.of_nat k < 256 ->
  zero_fill k (pre ++ repeat 85 m) (len pre) = (pre ++ repeat 48 k ++ repeat 85 (m - k), len pre + Z.of_nat k).
Proof.
  induction k as [|j IH]; intros pre m Hm Hb.
  - cbn [zero_fill repeat app]. rewrite Nat.sub_0_r. f_equal. lia.
  - destruct m as [|m']; [lia|]. cbn [zero_fill repeat]. rewrite put_mid. pose proof (len_nonneg pre).
    rewrite u8_small by lia. replace (pre ++ 48 :: repeat 85 m') with ((pre ++ [48]) ++ repeat 85 m') by (rewrite <- app_assoc; reflexivity).
    replace (len pre + 1) with (len (pre ++ [48])) by (rewrite len_app; reflexivity).
    rewrite IH by (try lia; rewrite len_app; change (len [48]) with 1; lia).
    rewrite <- app_assoc. cbn [app]. f_equal. rewrite len_app. change (len [48]) with 1. lia.
Qed.

Lemma length_dec_digits f a : (length (dec_digits f a) <= f)%nat.
Proof. revert a. induction f as [|k IH]; intros a; cbn [dec_digits]; [cbn; lia|]. destruct (a <=? 0); [cbn; lia|]. rewrite length_snoc. specialize (IH (a / 10)). lia. Qed.

(* C strings *)
Definition nozero (l : list Z) : Prop := forallb (fun x => negb (x =? 0)) l = true.
Lemma cstr_app_zero a b : nozero a -> cstr (a ++ 0 :: b) = a.
Proof.
  unfold nozero. induction a as [|x t IH]; intros H; cbn [app cstr]; [reflexivity|].
  cbn [forallb] in H. apply andb_true_iff in H. destruct H as [H1 H2]. apply negb_true_iff in H1. rewrite H1, (IH H2). reflexivity.
Qed.
Lemma nozero_app a b : nozero a -> nozero b -> nozero (a ++ b).
Proof. unfold nozero. intros. rewrite forallb_app. apply andb_true_iff; auto. Qed.
Lemma nozero_lastdigits n v : nozero (lastdigits n v).
Proof.
  revert v. induction n as [|k IH]; intros v; [reflexivity|]. cbn [lastdigits]. apply nozero_app; [apply IH|].
  unfold nozero. cbn [forallb]. rewrite andb_true_r. apply negb_true_iff, Z.eqb_neq.
  destruct (Z.eq_dec v 0) as [->|N]; [discriminate|]. pose proof (Z.mod_pos_bound v 10 ltac:(lia)). lia.
Qed.
Lemma nozero_repeat x n : x <> 0 -> nozero (repeat x n).
Proof. intros H. unfold nozero. apply forallb_forall. intros y I. apply repeat_spec in I. subst. apply negb_true_iff, Z.eqb_neq. exact H. Qed.

(* ------------------------------------------------------------------------------------------ *)
(* the buffer after the three loops, for a positive magnitude *)
Definition sign_of (minus : bool) : list Z := if minus then [45] else [].
Definition body_spec (a' : Z) (p' : nat) : list Z :=
  let ds := digits a' in let n := length ds in
  match p' with
  | O => ds
  | _ => if (n <=? p')%nat then [48; 46] ++ repeat 48 (p' - n) ++ ds
         else firstn (n - p') ds ++ [46] ++ skipn (n - p') ds
  end.

Lemma b1_shape (minus : bool) : (if minus then put (repeat 85 (Z.to_nat BUFSZ)) 0 45 else repeat 85 (Z.to_nat BUFSZ)) =
  sign_of minus ++ repeat 85 (25 - length (sign_of minus)).
Proof. destruct minus; reflexivity. Qed.

Lemma prepare_buf_pos (minus : bool) a p : 0 < a < 18446744073709551616 -> (p <= 20)%nat ->
  let '(a', p') := strip_zeros p a in
  exists junk, prepare_buf minus a a (Z.of_nat p) = (sign_of minus ++ body_spec a' p') ++ 0 :: junk /\
               length (prepare_buf minus a a (Z.of_nat p)) = 25%nat.
Proof.
  intros Ha Hp. unfold prepare_buf.
  assert (P20 : 18446744073709551616 < 10 ^ Z.of_nat 20) by (vm_compute; reflexivity).
  destruct (count_phase1 p 20 a ltac:(lia) ltac:(lia)) as [CL [A1 A2]]. rewrite CL. clear CL.
  destruct (strip_zeros p a) as [a' p'] eqn:SZ. cbn [fst snd] in *.
  assert (PP : (p' <= p)%nat).
  { clear - SZ. revert a a' p' SZ. induction p as [|k IH]; intros a a' p' SZ; cbn [strip_zeros] in SZ; [inversion SZ; lia|].
    destruct (_ && _); [specialize (IH _ _ _ SZ); lia|inversion SZ; lia]. }
  rewrite b1_shape. set (sgn := sign_of minus). set (off0 := length sgn).
  assert (OFF : (if minus then 1 else 0) = Z.of_nat off0) by (unfold off0, sgn; destruct minus; reflexivity).
  assert (O1 : (off0 <= 1)%nat) by (unfold off0, sgn; destruct minus; cbn; lia).
  rewrite OFF. replace (Z.of_nat off0) with (len sgn) by reflexivity.
  assert (DS : digits a' = dec_digits 20 a') by (apply digits_fuel; lia).
  set (ds := digits a') in *. set (n := length ds) in *.
  assert (N20 : (n <= 20)%nat) by (unfold n; rewrite DS; apply length_dec_digits).
  assert (N1 : (1 <= n)%nat).
  { unfold n. rewrite DS. cbn [dec_digits]. replace (a' <=? 0) with false by (symmetry; apply Z.leb_gt; lia). rewrite length_snoc. lia. }
  assert (LD : ds = lastdigits n a') by (unfold n; rewrite DS; apply dec_digits_last).
  assert (NZS : nozero sgn) by (unfold sgn; destruct minus; reflexivity).
  replace (a' =? 0) with false by (symmetry; apply Z.eqb_neq; lia).
  unfold body_spec. fold ds. fold n.
  destruct p' as [|q].
  - (* no fraction left *)
    change (0 <? Z.of_nat 0) with false. cbv iota.
    replace (25 - off0)%nat with (n + S (24 - off0 - n))%nat by lia. rewrite repeat_app. cbn [repeat].
    rewrite (app_assoc sgn). replace (Z.of_nat n + len sgn) with (len (sgn ++ repeat 85 n)) by (rewrite len_app, len_repeat; unfold len; lia).
    rewrite put_mid, <- app_assoc.
    rewrite fill_window by (try lia; left; reflexivity). rewrite <- LD.
    exists (repeat 85 (24 - off0 - n)). split; [rewrite <- app_assoc; reflexivity|].
    rewrite !app_length. cbn [length]. rewrite repeat_length. fold off0. fold n. lia.
  - replace (0 <? Z.of_nat (S q)) with true by (symmetry; apply Z.ltb_lt; lia). cbv iota.
    rewrite u8_small by lia.
    destruct (Nat.leb_spec n (S q)) as [LE|GT].
    + (* 0.000ddd *)
      replace (Z.of_nat n <=? Z.of_nat (S q)) with true by (symmetry; apply Z.leb_le; lia).
      replace (Z.to_nat (Z.of_nat (S q) - Z.of_nat n)) with (S q - n)%nat by lia.
      set (k := (S q - n)%nat).
      replace (25 - off0)%nat with (S (S (23 - off0))) by lia. cbn [repeat].
      replace (sgn ++ 85 :: 85 :: repeat 85 (23 - off0)) with (sgn ++ 85 :: (85 :: repeat 85 (23 - off0))) by reflexivity.
      rewrite put_mid.
      replace (sgn ++ 48 :: 85 :: repeat 85 (23 - off0)) with ((sgn ++ [48]) ++ 85 :: repeat 85 (23 - off0)) by (rewrite <- app_assoc; reflexivity).
      replace (len sgn + 1) with (len (sgn ++ [48])) by (rewrite len_app; reflexivity). rewrite put_mid.
      replace ((sgn ++ [48]) ++ 46 :: repeat 85 (23 - off0)) with ((sgn ++ [48; 46]) ++ repeat 85 (23 - off0)) by (rewrite <- !app_assoc; reflexivity).
      replace (len sgn + 2) with (len (sgn ++ [48; 46])) by (rewrite len_app; reflexivity).
      rewrite zero_fill_spec by (try (unfold k; lia); rewrite len_app; change (len [48; 46]) with 2; unfold len; fold off0; unfold k; lia).
      set (pre := (sgn ++ [48; 46]) ++ repeat 48 k).
      assert (LP : len pre = Z.of_nat off0 + 2 + Z.of_nat k) by (unfold pre; rewrite !len_app, len_repeat; reflexivity).
      replace (23 - off0 - k)%nat with (n + S (22 - off0 - k - n))%nat by (unfold k; lia). rewrite repeat_app. cbn [repeat].
      rewrite (app_assoc (sgn ++ [48; 46]) (repeat 48 k)). fold pre. rewrite (app_assoc pre (repeat 85 n)).
      replace (Z.of_nat n + (len (sgn ++ [48; 46]) + Z.of_nat k)) with (len (pre ++ repeat 85 n))
        by (rewrite len_app, len_repeat, LP, len_app; change (len [48; 46]) with 2; unfold len; fold off0; lia).
      rewrite put_mid, <- app_assoc.
      replace (len (sgn ++ [48; 46]) + Z.of_nat k) with (len pre) by (rewrite LP, len_app; change (len [48; 46]) with 2; unfold len; fold off0; lia).
      rewrite fill_window by (try lia; right; lia). rewrite <- LD.
      exists (repeat 85 (22 - off0 - k - n)). split.
      * unfold pre. rewrite <- !app_assoc. reflexivity.
      * unfold pre. rewrite !app_length. cbn [length]. rewrite !repeat_length. fold off0. fold n. unfold k. lia.
    + (* ddd.ddd *)
      replace (Z.of_nat n <=? Z.of_nat (S q)) with false by (symmetry; apply Z.leb_gt; lia).
      set (n1 := (n - S q)%nat).
      replace (25 - off0)%nat with (S n + S (23 - off0 - n))%nat by lia. rewrite repeat_app. cbn [repeat].
      rewrite (app_assoc sgn (85 :: repeat 85 n)).
      replace (Z.of_nat n + (len sgn + 1)) with (len (sgn ++ 85 :: repeat 85 n)) by (rewrite len_app, len_cons, len_repeat; lia).
      rewrite put_mid. set (post := 0 :: repeat 85 (23 - off0 - n)).
      replace ((sgn ++ 85 :: repeat 85 n) ++ post) with ((sgn ++ [85]) ++ repeat 85 n ++ post) by (rewrite <- !app_assoc; reflexivity).
      replace (len sgn + 1) with (len (sgn ++ [85])) by (rewrite len_app; reflexivity).
      replace (Z.of_nat n) with (len (repeat 85 n)) by apply len_repeat.
      rewrite (digit_steps (S q) 25 (sgn ++ [85]) (repeat 85 n) post a' (Z.of_nat (S q) + 1)) by (rewrite ?repeat_length; try lia; right; lia).
      rewrite repeat_length, firstn_repeat by lia. fold n1.
      replace (Z.of_nat (S q) + 1 =? 0) with false by (symmetry; apply Z.eqb_neq; lia).
      replace (Z.of_nat (S q) + 1 - Z.of_nat (S q)) with 1 by lia.
      replace (25 - S q)%nat with (S (24 - S q)) by lia.
      rewrite digit_dot_step by (rewrite len_app; change (len [85]) with 1; unfold len; fold off0; lia).
      rewrite len_repeat. replace (Z.of_nat n - Z.of_nat (S q)) with (Z.of_nat n1) by (unfold n1; lia).
      replace (Z.of_nat n1 <=? 0) with false by (symmetry; apply Z.leb_gt; unfold n1; lia).
      assert (RE : (sgn ++ [85]) ++ repeat 85 n1 ++ lastdigits (S q) a' ++ post =
                   (sgn ++ repeat 85 n1) ++ 85 :: lastdigits (S q) a' ++ post).
      { rewrite <- !app_assoc. f_equal. change (85 :: lastdigits (S q) a' ++ post) with ([85] ++ lastdigits (S q) a' ++ post).
        rewrite (app_assoc (repeat 85 n1) [85]), repeat_snoc. reflexivity. }
      rewrite RE.
      replace (Z.of_nat n1 + len (sgn ++ [85]) - 1) with (len (sgn ++ repeat 85 n1)) by (rewrite !len_app, len_repeat; change (len [85]) with 1; lia).
      rewrite put_mid, <- app_assoc.
      replace (len (sgn ++ [85]) - 1) with (len sgn) by (rewrite len_app; change (len [85]) with 1; lia).
      rewrite fill_window; [|unfold n1; lia|apply Z.div_pos; [lia|apply pow10_pos]|left; reflexivity].
      assert (SP : ds = lastdigits n1 (a' / 10 ^ Z.of_nat (S q)) ++ lastdigits (S q) a').
      { rewrite LD. replace n with (n1 + S q)%nat at 1 by (unfold n1; lia). apply lastdigits_split. }
      exists (repeat 85 (23 - off0 - n)). split.
      * rewrite <- !app_assoc. f_equal.
        assert (FS : firstn n1 ds = lastdigits n1 (a' / 10 ^ Z.of_nat (S q)) /\ skipn n1 ds = lastdigits (S q) a').
        { rewrite SP. rewrite firstn_app, skipn_app, len_lastdigits, Nat.sub_diag.
          rewrite firstn_all2 by (rewrite len_lastdigits; lia). rewrite skipn_all2 by (rewrite len_lastdigits; lia).
          cbn [firstn skipn app]. rewrite app_nil_r. auto. }
        destruct FS as [-> ->]. reflexivity.
      * unfold post. rewrite !app_length. cbn [length]. rewrite !app_length, !len_lastdigits. cbn [length]. rewrite repeat_length.
        fold off0. unfold n1. lia.
Qed.

(* ------------------------------------------------------------------------------------------ *)
(* main theorem *)
Definition value_of (is_unsigned : bool) (raw : Z) : Z :=
  if is_unsigned then raw else if raw <? 9223372036854775808 then raw else raw - 18446744073709551616.

Lemma nozero_firstn n l : nozero l -> nozero (firstn n l).
Proof. unfold nozero. intros H. rewrite forallb_forall in *. intros x I. apply H. rewrite <- (firstn_skipn n l). apply in_or_app. left. exact I. Qed.
Lemma nozero_skipn n l : nozero l -> nozero (skipn n l).
Proof. unfold nozero. intros H. rewrite forallb_forall in *. intros x I. apply H. rewrite <- (firstn_skipn n l). apply in_or_app. right. exact I. Qed.
Lemma nozero_digits a : nozero (digits a).
Proof. unfold digits. rewrite dec_digits_last. apply nozero_lastdigits. Qed.
Lemma nozero_body a' p' : nozero (body_spec a' p').
Proof.
  unfold body_spec. destruct p'; [apply nozero_digits|]. destruct (_ <=? _)%nat.
  - apply nozero_app; [reflexivity|]. apply nozero_app; [apply nozero_repeat; lia|apply nozero_digits].
  - apply nozero_app; [apply nozero_firstn, nozero_digits|]. apply nozero_app; [reflexivity|apply nozero_skipn, nozero_digits].
Qed.

Lemma render_spec_pos v p : v <> 0 ->
  render_spec v p = sign_of (v <? 0) ++ body_spec (fst (strip_zeros p (Z.abs v))) (snd (strip_zeros p (Z.abs v))) /\
  0 < fst (strip_zeros p (Z.abs v)).
Proof.
  intros NZ. unfold render_spec.
  assert (G : forall p a, 0 < a -> 0 < fst (strip_zeros p a)).
  { clear. induction p as [|k IH]; intros a H; cbn [strip_zeros fst]; [exact H|].
    destruct (a mod 10 =? 0) eqn:M; cbn [andb]; [|exact H]. replace (a =? 0) with false by (symmetry; apply Z.eqb_neq; lia). cbn [negb].
    apply IH. apply Z.eqb_eq in M. pose proof (Z.div_mod a 10 ltac:(lia)). lia. }
  specialize (G p (Z.abs v) ltac:(lia)). destruct (strip_zeros p (Z.abs v)) as [a' p']. cbn [fst snd] in *.
  split; [|exact G]. replace (a' =? 0) with false by (symmetry; apply Z.eqb_neq; lia).
  unfold body_spec, sign_of. destruct p'; [reflexivity|]. destruct (_ <=? _)%nat; reflexivity.
Qed.

Theorem prepare_val_is_render_spec : forall u raw prec,
  0 <= raw < 18446744073709551616 -> 0 <= prec <= 20 ->
  let v := value_of u raw in
  let minus := negb u && ((if raw <? 9223372036854775808 then raw else raw - 18446744073709551616) <? 0) in
  prepare_val FIXED u raw prec = render_spec v (Z.to_nat prec) /\
  (* the buffer: the rendering, its terminator, and untouched cells; exactly 25 cells *)
  (exists junk, prepare_buf minus (Z.abs v) (Z.abs v) prec = render_spec v (Z.to_nat prec) ++ 0 :: junk) /\
  length (prepare_buf minus (Z.abs v) (Z.abs v) prec) = 25%nat /\
  len (render_spec v (Z.to_nat prec)) <= 24.
Proof.
  intros u raw prec HR HP. cbv zeta. unfold prepare_val. cbn [fx_uval FIXED].
  set (sval := if raw <? 9223372036854775808 then raw else raw - 18446744073709551616).
  assert (SV : -9223372036854775808 <= sval < 9223372036854775808).
  { unfold sval. destruct (raw <? 9223372036854775808) eqn:E; [apply Z.ltb_lt in E|apply Z.ltb_ge in E]; lia. }
  set (minus := negb u && (sval <? 0)).
  set (v := value_of u raw).
  assert (VM : (v <? 0) = minus /\ (if minus then - sval else raw) = Z.abs v).
  { unfold v, value_of, minus. fold sval. destruct u; cbn [negb andb].
    - split; [apply Z.ltb_ge; lia|lia].
    - destruct (sval <? 0) eqn:E; [apply Z.ltb_lt in E|apply Z.ltb_ge in E]; split; try lia.
      unfold sval in *. destruct (raw <? 9223372036854775808) eqn:E2; [apply Z.ltb_lt in E2|apply Z.ltb_ge in E2]; lia. }
  destruct VM as [VM1 VM2]. rewrite VM2.
  assert (AB : 0 <= Z.abs v < 18446744073709551616).
  { rewrite <- VM2. unfold minus. destruct u; cbn [negb andb]; [lia|]. destruct (sval <? 0) eqn:E; [apply Z.ltb_lt in E|]; lia. }
  set (p := Z.to_nat prec) in *. assert (P20 : (p <= 20)%nat) by (unfold p; lia).
  assert (PE : prec = Z.of_nat p) by (unfold p; lia). rewrite PE.
  destruct (Z.eq_dec v 0) as [V0|VN].
  - (* zero *)
    rewrite V0 in *. assert (M0 : minus = false) by (rewrite <- VM1; reflexivity). rewrite M0. cbn [Z.abs].
    assert (R0 : render_spec 0 p = [48]).
    { unfold render_spec. cbn [Z.abs]. assert (S0 : forall k, strip_zeros k 0 = (0, k)) by (destruct k; reflexivity). rewrite S0. reflexivity. }
    rewrite R0.
    assert (B0 : prepare_buf false 0 0 (Z.of_nat p) = [48; 0] ++ repeat 85 23) by reflexivity.
    rewrite B0. repeat split; try reflexivity. eexists; reflexivity. vm_compute; discriminate.
  - pose proof (prepare_buf_pos minus (Z.abs v) p ltac:(lia) P20) as PB.
    destruct (render_spec_pos v p VN) as [RS AP]. rewrite VM1 in RS.
    destruct (strip_zeros p (Z.abs v)) as [a' p'] eqn:SZ. cbn [fst snd] in *.
    destruct PB as (junk & PB1 & PB2). rewrite RS, PB1.
    assert (NZ : nozero (sign_of minus ++ body_spec a' p')) by (apply nozero_app; [destruct minus; reflexivity|apply nozero_body]).
    rewrite cstr_app_zero by exact NZ.
    split; [reflexivity|]. split; [eexists; reflexivity|]. split; [rewrite <- PB1; exact PB2|].
    rewrite PB1, app_length in PB2. cbn [length] in PB2. unfold len. lia.
Qed.

(* ------------------------------------------------------------------------------------------ *)
(* the rendering parses back to value / 10^precision (for every integer and every precision) *)
Lemma strip_zeros_spec p : forall a, 0 <= a ->
  (snd (strip_zeros p a) <= p)%nat /\ a = fst (strip_zeros p a) * 10 ^ Z.of_nat (p - snd (strip_zeros p a)).
Proof.
  induction p as [|k IH]; intros a Ha; cbn [strip_zeros fst snd].
  - split; [lia|]. cbn. lia.
  - destruct ((a mod 10 =? 0) && negb (a =? 0)) eqn:C.
    + apply andb_true_iff in C. destruct C as [M _]. apply Z.eqb_eq in M.
      destruct (IH (a / 10) ltac:(apply Z.div_pos; lia)) as [I1 I2]. split; [lia|].
      replace (S k - snd (strip_zeros k (a / 10)))%nat with (S (k - snd (strip_zeros k (a / 10)))) by lia.
      rewrite pow10_S. pose proof (Z.div_mod a 10 ltac:(lia)). transitivity (10 * (a / 10)); [lia|]. rewrite I2 at 1. ring.
    + cbn [fst snd]. split; [lia|]. rewrite Nat.sub_diag. cbn. lia.
Qed.
Lemma dval_app l1 : forall acc l2, dval acc (l1 ++ l2) = dval (dval acc l1) l2.
Proof. induction l1 as [|d t IH]; intros acc l2; cbn [app dval]; [reflexivity|apply IH]. Qed.
Lemma dval_zeros k l : dval 0 (repeat 48 k ++ l) = dval 0 l.
Proof. induction k as [|j IH]; [reflexivity|]. cbn [repeat app dval]. exact IH. Qed.
Lemma dval_dec_digits f : forall a, 0 <= a < 10 ^ Z.of_nat f -> dval 0 (dec_digits f a) = a.
Proof.
  induction f as [|k IH]; intros a H.
  - cbn in *. lia.
  - cbn [dec_digits]. destruct (a <=? 0) eqn:E; [apply Z.leb_le in E; cbn; lia|]. apply Z.leb_gt in E.
    rewrite dval_app. cbn [dval]. rewrite pow10_S in H.
    rewrite IH by (split; [apply Z.div_pos; lia|apply Z.div_lt_upper_bound; lia]).
    pose proof (Z.div_mod a 10 ltac:(lia)). lia.
Qed.
Lemma all_digits_dec f : forall a, all_digits (dec_digits f a) = true.
Proof.
  induction f as [|k IH]; intros a; cbn [dec_digits]; [reflexivity|]. destruct (a <=? 0); [reflexivity|].
  unfold all_digits. rewrite forallb_app. fold (all_digits (dec_digits k (a / 10))). rewrite IH. cbn [forallb andb].
  pose proof (Z.mod_pos_bound a 10 ltac:(lia)). rewrite andb_true_r. apply andb_true_iff. split; [apply Z.leb_le|apply Z.leb_le]; lia.
Qed.
Lemma all_digits_app a b : all_digits (a ++ b) = all_digits a && all_digits b.
Proof. unfold all_digits. apply forallb_app. Qed.
Lemma all_digits_firstn n l : all_digits l = true -> all_digits (firstn n l) = true.
Proof. intros H. rewrite <- (firstn_skipn n l), all_digits_app in H. apply andb_true_iff in H. tauto. Qed.
Lemma all_digits_skipn n l : all_digits l = true -> all_digits (skipn n l) = true.
Proof. intros H. rewrite <- (firstn_skipn n l), all_digits_app in H. apply andb_true_iff in H. tauto. Qed.
Lemma split_dot_digits l : all_digits l = true -> split_dot l = (l, None).
Proof.
  induction l as [|d t IH]; intros H; [reflexivity|]. cbn [all_digits forallb] in H. apply andb_true_iff in H. destruct H as [H1 H2].
  apply andb_true_iff in H1. destruct H1 as [L1 L2]. apply Z.leb_le in L1. cbn [split_dot].
  replace (d =? 46) with false by (symmetry; apply Z.eqb_neq; lia). rewrite (IH H2). reflexivity.
Qed.
Lemma split_dot_mid ip fp : all_digits ip = true -> split_dot (ip ++ 46 :: fp) = (ip, Some fp).
Proof.
  induction ip as [|d t IH]; intros H; [reflexivity|]. cbn [all_digits forallb] in H. apply andb_true_iff in H. destruct H as [H1 H2].
  apply andb_true_iff in H1. destruct H1 as [L1 L2]. apply Z.leb_le in L1. cbn [app split_dot].
  replace (d =? 46) with false by (symmetry; apply Z.eqb_neq; lia). rewrite (IH H2). reflexivity.
Qed.

Lemma body_parse a' p' : 0 < a' ->
  exists ip fp d0 r, body_spec a' p' = d0 :: r /\ 48 <= d0 <= 57 /\
    split_dot (body_spec a' p') = (ip, match p' with O => None | _ => Some fp end) /\
    (p' = O -> fp = []) /\ all_digits ip = true /\ all_digits fp = true /\ 0 < len ip /\ dval 0 (ip ++ fp) = a' /\ len fp = Z.of_nat p'.
Proof.
  intros Ha. unfold body_spec.
  set (f := S (Z.to_nat (Z.log2 a'))).
  assert (DF : digits a' = dec_digits f a') by reflexivity.
  assert (AF : a' < 10 ^ Z.of_nat f).
  { unfold f. rewrite Nat2Z.inj_succ, Z2Nat.id by apply Z.log2_nonneg. pose proof (Z.log2_spec a' Ha) as [_ U].
    eapply Z.lt_le_trans; [exact U|]. apply Z.pow_le_mono_l. pose proof (Z.log2_nonneg a'). lia. }
  remember (digits a') as ds eqn:EDS in *.
  assert (AD : all_digits ds = true) by (rewrite DF; apply all_digits_dec).
  assert (DV : dval 0 ds = a') by (rewrite DF; apply dval_dec_digits; lia).
  assert (NE : (1 <= length ds)%nat).
  { rewrite DF. unfold f. cbn [dec_digits]. replace (a' <=? 0) with false by (symmetry; apply Z.leb_gt; lia). rewrite length_snoc. lia. }
  assert (HD : forall l, all_digits l = true -> (1 <= length l)%nat -> exists d0 r, l = d0 :: r /\ 48 <= d0 <= 57).
  { intros l A L. destruct l as [|d0 r]; [cbn in L; lia|]. exists d0, r. split; [reflexivity|].
    cbn [all_digits forallb] in A. apply andb_true_iff in A. destruct A as [A _]. apply andb_true_iff in A. destruct A as [A1 A2].
    apply Z.leb_le in A1. apply Z.leb_le in A2. lia. }
  destruct p' as [|q].
  - destruct (HD ds AD NE) as (d0 & r & E & R). exists ds, [], d0, r. rewrite app_nil_r.
    repeat split; auto; try lia. apply split_dot_digits; exact AD. unfold len; lia.
  - destruct (Nat.leb_spec (length ds) (S q)) as [LE|GT].
    + exists [48], (repeat 48 (S q - length ds) ++ ds), 48, ([46] ++ repeat 48 (S q - length ds) ++ ds).
      split; [reflexivity|]. split; [lia|]. split; [reflexivity|]. split; [discriminate|]. split; [reflexivity|].
      split; [rewrite all_digits_app, AD, andb_true_r; unfold all_digits; apply forallb_forall; intros x I; apply repeat_spec in I; subst; reflexivity|].
      split; [reflexivity|]. split.
      * change ([48] ++ repeat 48 (S q - length ds) ++ ds) with (repeat 48 (S (S q - length ds)) ++ ds). rewrite dval_zeros. exact DV.
      * rewrite len_app, len_repeat. unfold len. lia.
    + assert (AF1 : all_digits (firstn (length ds - S q) ds) = true) by (apply all_digits_firstn; exact AD).
      destruct (HD (firstn (length ds - S q) ds) AF1 ltac:(rewrite firstn_length; lia)) as (d0 & r & E & R).
      exists (firstn (length ds - S q) ds), (skipn (length ds - S q) ds), d0, (r ++ [46] ++ skipn (length ds - S q) ds).
      split; [rewrite E; reflexivity|]. split; [exact R|]. split; [apply split_dot_mid; exact AF1|]. split; [discriminate|].
      split; [exact AF1|]. split; [apply all_digits_skipn; exact AD|].
      split; [unfold len; rewrite firstn_length; lia|]. split; [rewrite firstn_skipn; exact DV|].
      unfold len. rewrite skipn_length. lia.
Qed.

Theorem render_parses_back : forall v p,
  exists m s, parse_decimal (render_spec v p) = Some (m, s) /\ m * 10 ^ Z.of_nat p = v * 10 ^ s.
Proof.
  intros v p. destruct (Z.eq_dec v 0) as [->|NZ].
  - exists 0, 0. assert (R0 : render_spec 0 p = [48]).
    { unfold render_spec. cbn [Z.abs]. assert (S0 : forall k, strip_zeros k 0 = (0, k)) by (destruct k; reflexivity). rewrite S0. reflexivity. }
    rewrite R0. split; [reflexivity|lia].
  - destruct (render_spec_pos v p NZ) as [RS AP]. rewrite RS.
    destruct (strip_zeros_spec p (Z.abs v) ltac:(lia)) as [SP1 SP2].
    set (a' := fst (strip_zeros p (Z.abs v))) in *. set (p' := snd (strip_zeros p (Z.abs v))) in *.
    destruct (body_parse a' p' AP) as (ip & fp & d0 & r & BE & D0 & SD & FP0 & AI & AF & LI & DV & LF).
    exists ((if v <? 0 then -1 else 1) * a'), (Z.of_nat p'). split.
    + unfold parse_decimal, sign_of. destruct (v <? 0).
      * cbn [app]. change (45 =? 45) with true. cbv iota. rewrite SD.
        destruct p'; [rewrite (FP0 eq_refl) in *|]; rewrite AI, AF; cbn [andb]; (replace (len ip =? 0) with false by (symmetry; apply Z.eqb_neq; lia)); cbn [negb];
        rewrite DV, LF; reflexivity.
      * cbn [app]. rewrite BE. replace (d0 =? 45) with false by (symmetry; apply Z.eqb_neq; lia). rewrite <- BE, SD.
        destruct p'; [rewrite (FP0 eq_refl) in *|]; rewrite AI, AF; cbn [andb]; (replace (len ip =? 0) with false by (symmetry; apply Z.eqb_neq; lia)); cbn [negb];
        rewrite DV, LF; reflexivity.
    + assert (PW : 10 ^ Z.of_nat p = 10 ^ Z.of_nat (p - p') * 10 ^ Z.of_nat p').
      { rewrite <- Z.pow_add_r by lia. f_equal. lia. }
      rewrite PW. destruct (v <? 0) eqn:E; [apply Z.ltb_lt in E|apply Z.ltb_ge in E].
      * replace v with (- Z.abs v) by lia. rewrite SP2. fold a'. fold p'. ring.
      * replace v with (Z.abs v) at 1 by lia. rewrite SP2. fold a'. fold p'. ring.
Qed.
