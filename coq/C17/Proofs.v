(* C17 — proofs about the model of CONNECT, the command parsers and number rendering (C17/Model.v). *)
From Coq Require Import List ZArith Lia Bool.
Import ListNotations.
From V Require Import Base.U32 Base.Bytes Base.Iface Gen.MqttConsts C17.Model C17.Render.
Local Open Scope Z_scope.

(* ------------------------------------------------------------------------------------------ *)
(* list helpers *)
Lemma index_of_spec x l : forall i a, index_of x l i = Some a ->
  exists pre post, l = pre ++ x :: post /\ a = i + len pre /\ ~ In x pre.
Proof.
  induction l as [|y t IH]; intros i a H; cbn [index_of] in H; [discriminate|].
  destruct (y =? x) eqn:E.
  - apply Z.eqb_eq in E. subst y. inversion H; subst. exists [], t. rewrite len_nil. repeat split; auto; lia.
  - apply Z.eqb_neq in E. destruct (IH _ _ H) as (pre & post & -> & -> & N). exists (y :: pre), post.
    rewrite len_cons. repeat split; [lia|]. intros [A|A]; [congruence|contradiction].
Qed.
Lemma index_of_app x pre post : forall i, ~ In x pre -> index_of x (pre ++ x :: post) i = Some (i + len pre).
Proof.
  induction pre as [|y t IH]; intros i N; cbn [app index_of].
  - rewrite Z.eqb_refl, len_nil. f_equal; lia.
  - destruct (y =? x) eqn:E; [apply Z.eqb_eq in E; subst; exfalso; apply N; left; reflexivity|].
    rewrite IH by (intros A; apply N; right; exact A). rewrite len_cons. f_equal; lia.
Qed.
Lemma digits_no_slash l : forallb is_digit l = true -> ~ In 47 l.
Proof. intros H A. rewrite forallb_forall in H. specialize (H 47 A). discriminate. Qed.
Lemma take_len_prefix {A} (p r : list A) : take (len p) (p ++ r) = p. Proof. apply take_app_exact. Qed.
Lemma nthz_mid (p : list Z) x r : nthz (p ++ x :: r) (len p) = x.
Proof. unfold nthz, len. rewrite Nat2Z.id, app_nth2, Nat.sub_diag by lia. reflexivity. Qed.
Lemma drop_mid {A} (p : list A) x r : drop (len p + 1) (p ++ x :: r) = r.
Proof.
  replace (p ++ x :: r) with ((p ++ [x]) ++ r) by (rewrite <- app_assoc; reflexivity).
  replace (len p + 1) with (len (p ++ [x])) by (rewrite len_app; reflexivity). apply drop_app_exact.
Qed.
Lemma split_at_nth (l : list Z) i : 0 <= i < len l -> l = take i l ++ nthz l i :: drop (i + 1) l.
Proof.
  intros H. rewrite <- (take_drop i l) at 1. f_equal.
  assert (L : 0 < len (drop i l)) by (rewrite len_drop by lia; lia).
  destruct (drop i l) as [|y t] eqn:D; [unfold len in L; cbn in L; lia|].
  assert (Y : nthz l i = y).
  { rewrite <- (take_drop i l), D. replace i with (len (take i l)) at 2 by (rewrite len_take by lia; lia). apply nthz_mid. }
  rewrite Y. f_equal. replace (i + 1) with (1 + i) by lia. rewrite <- drop_drop by lia. rewrite D. reflexivity.
Qed.

(* ------------------------------------------------------------------------------------------ *)
(* the command-topic grammar *)
(* topic = prefix "/" "channels/" N "/" cmd   with N a non-empty string of decimal digits whose value is ch <= 255 *)
Definition grammar (prefix topic : list Z) (ch : Z) (cmd : list Z) : Prop :=
  exists nstr, topic = prefix ++ [47] ++ s_channels ++ nstr ++ [47] ++ cmd /\
               nstr <> [] /\ forallb is_digit nstr = true /\ digits_val 0 nstr = ch /\ ch <= 255.

Lemma parse_channel_iff tn ch cmd :
  parse_channel FIXED tn = Some (ch, cmd) <->
  exists nstr, tn = s_channels ++ nstr ++ [47] ++ cmd /\ nstr <> [] /\ forallb is_digit nstr = true /\ digits_val 0 nstr = ch /\ ch <= 255.
Proof.
  unfold parse_channel. cbn [fx_chan FIXED]. split.
  - destruct ((len tn <? 9) || negb (list_eqb (take 9 tn) s_channels)) eqn:G; [discriminate|].
    apply orb_false_elim in G. destruct G as [G1 G2]. apply Z.ltb_ge in G1. apply negb_false_iff, list_eqb_true in G2.
    destruct (index_of 47 (drop 9 tn) 0) as [a|] eqn:I; [|discriminate].
    destruct (index_of_spec _ _ _ _ I) as (pre & post & D & A & N).
    destruct (a =? 0) eqn:A0; [discriminate|]. apply Z.eqb_neq in A0.
    assert (TK : take a (drop 9 tn) = pre) by (rewrite D, A; cbn [Z.add]; apply take_app_exact).
    assert (DR : drop (a + 1) (drop 9 tn) = post) by (rewrite D, A; cbn [Z.add]; apply drop_mid).
    rewrite TK, DR.
    destruct (forallb is_digit pre && (digits_val 0 pre <=? 255)) eqn:F; [|discriminate].
    apply andb_true_iff in F. destruct F as [F1 F2]. apply Z.leb_le in F2.
    intros H; inversion H; subst ch cmd. exists pre. repeat split; auto.
    + rewrite <- (take_drop 9 tn) at 1. rewrite G2, D. reflexivity.
    + intros E. rewrite E in A. unfold len in A; cbn in A; lia.
  - intros (nstr & -> & NE & DG & V & R).
    assert (L9 : len s_channels = 9) by reflexivity.
    replace (len (s_channels ++ nstr ++ [47] ++ cmd) <? 9) with false
      by (symmetry; apply Z.ltb_ge; rewrite len_app, L9; pose proof (len_nonneg (nstr ++ [47] ++ cmd)); lia).
    rewrite <- L9 at 1. rewrite take_app_exact, list_eqb_refl. cbn [negb orb].
    rewrite <- L9, drop_app_exact.
    change (nstr ++ [47] ++ cmd) with (nstr ++ 47 :: cmd).
    rewrite index_of_app by (apply digits_no_slash; exact DG). cbn [Z.add].
    assert (LN : 0 < len nstr) by (destruct nstr; [congruence|rewrite len_cons; pose proof (len_nonneg nstr); lia]).
    replace (len nstr =? 0) with false by (symmetry; apply Z.eqb_neq; lia).
    rewrite take_app_exact, drop_mid, DG, V. cbn [andb]. replace (ch <=? 255) with true by (symmetry; apply Z.leb_le; lia).
    reflexivity.
Qed.

Theorem parse_head_iff prefix topic msg ch cmd : prefix <> [] -> msg <> [] ->
  (parse_head FIXED prefix topic msg = Some (ch, cmd) <-> grammar prefix topic ch cmd).
Proof.
  intros NP NM. unfold parse_head, grammar. cbn [fx_slash FIXED andb].
  assert (LP : 0 < len prefix) by (destruct prefix; [congruence|rewrite len_cons; pose proof (len_nonneg prefix); lia]).
  assert (LM : 0 < len msg) by (destruct msg; [congruence|rewrite len_cons; pose proof (len_nonneg msg); lia]).
  replace (len msg =? 0) with false by (symmetry; apply Z.eqb_neq; lia).
  replace (len prefix =? 0) with false by (symmetry; apply Z.eqb_neq; lia).
  split.
  - destruct (len topic =? 0) eqn:T0; [discriminate|]. cbn [orb].
    destruct (len topic <=? len prefix + 1) eqn:T1; [discriminate|]. apply Z.leb_gt in T1.
    destruct (list_eqb (take (len prefix) topic) prefix) eqn:E; cbn [negb]; [|discriminate]. apply list_eqb_true in E.
    destruct (nthz topic (len prefix) =? 47) eqn:S; cbn [negb]; [|discriminate]. apply Z.eqb_eq in S.
    intros H. apply parse_channel_iff in H. destruct H as (nstr & D & rest).
    exists nstr. split; [|exact rest].
    rewrite (split_at_nth topic (len prefix)) at 1 by lia. rewrite E, S, D. reflexivity.
  - intros (nstr & -> & rest).
    set (tail := s_channels ++ nstr ++ [47] ++ cmd).
    change (prefix ++ [47] ++ tail) with (prefix ++ 47 :: tail).
    assert (LT : len (prefix ++ 47 :: tail) = len prefix + 1 + len tail) by (rewrite len_app, len_cons; lia).
    assert (L9 : 9 <= len tail) by (unfold tail; rewrite len_app; change (len s_channels) with 9; pose proof (len_nonneg (nstr ++ [47] ++ cmd)); lia).
    replace (len (prefix ++ 47 :: tail) =? 0) with false by (symmetry; apply Z.eqb_neq; lia). cbn [orb].
    replace (len (prefix ++ 47 :: tail) <=? len prefix + 1) with false by (symmetry; apply Z.leb_gt; lia).
    rewrite take_app_exact, list_eqb_refl, nthz_mid, drop_mid. cbn [negb]. change (47 =? 47) with true. cbn [negb].
    apply parse_channel_iff. exists nstr. split; [reflexivity|exact rest].
Qed.

(* A command acts on channel ch exactly when the topic has the grammar and the command/value pair is in the table. *)
Theorem C17_command_grammar_thm : forall prefix topic msg,
  prefix <> [] -> msg <> [] ->
  (forall ch on, parser_set_on FIXED prefix topic msg = Some (ch, on) <->
                 exists cmd, grammar prefix topic ch cmd /\ set_on_cmd cmd msg = Some on) /\
  (forall ch a p t, parser_rs_fb FIXED prefix topic msg = Some (ch, a, p, t) <->
                 exists cmd, grammar prefix topic ch cmd /\ rs_cmd FIXED cmd msg = Some (a, p, t)).
Proof.
  intros prefix topic msg NP NM. split.
  - intros ch on. unfold parser_set_on. split.
    + destruct (parse_head FIXED prefix topic msg) as [[c cmd]|] eqn:H; [|discriminate].
      destruct (set_on_cmd cmd msg) as [o|] eqn:S; [|discriminate]. intros Q; inversion Q; subst.
      exists cmd. split; [apply (parse_head_iff prefix topic msg ch cmd NP NM); exact H|exact S].
    + intros (cmd & G & S). apply (parse_head_iff prefix topic msg ch cmd NP NM) in G. rewrite G, S. reflexivity.
  - intros ch a p t. unfold parser_rs_fb. split.
    + destruct (parse_head FIXED prefix topic msg) as [[c cmd]|] eqn:H; [|discriminate].
      destruct (rs_cmd FIXED cmd msg) as [[[a' p'] t']|] eqn:S; [|discriminate]. intros Q; inversion Q; subst.
      exists cmd. split; [apply (parse_head_iff prefix topic msg ch cmd NP NM); exact H|exact S].
    + intros (cmd & G & S). apply (parse_head_iff prefix topic msg ch cmd NP NM) in G. rewrite G, S. reflexivity.
Qed.

(* empty prefix or empty value: everything is ignored *)
Theorem C17_ignored_without_prefix_or_value_thm : forall topic msg prefix,
  prefix = [] \/ msg = [] -> parser_set_on FIXED prefix topic msg = None /\ parser_rs_fb FIXED prefix topic msg = None.
Proof.
  intros topic msg prefix H. unfold parser_set_on, parser_rs_fb, parse_head.
  destruct H as [-> | ->]; change (len (@nil Z)) with 0; change (0 =? 0) with true; rewrite ?orb_true_r; cbn [orb]; auto.
Qed.

(* the values a channel number can take *)
Lemma grammar_channel_range prefix topic ch cmd : grammar prefix topic ch cmd -> 0 <= ch <= 255.
Proof.
  intros (nstr & _ & _ & D & V & R). split; [|exact R]. subst ch.
  assert (G : forall l acc, 0 <= acc -> forallb is_digit l = true -> 0 <= digits_val acc l).
  { induction l as [|d t IH]; intros acc A F; cbn [digits_val]; [exact A|]. cbn [forallb] in F. apply andb_true_iff in F.
    destruct F as [F1 F2]. unfold is_digit in F1. apply andb_true_iff in F1. destruct F1 as [F1 _]. apply Z.leb_le in F1.
    apply IH; [lia|exact F2]. }
  apply G; [lia|exact D].
Qed.

(* ------------------------------------------------------------------------------------------ *)
(* a specification decoder of MQTT 3.1.1 CONNECT (section 3.1 of the standard) *)
Record conn := { k_cid : list Z; k_keep : Z; k_clean : bool;
                 k_will : option (list Z * list Z * Z * bool);   (* topic, message, QoS, retain *)
                 k_user : option (list Z); k_pwd : option (list Z) }.

Definition dec_varint (l : list Z) : option (Z * list Z) :=
  match l with
  | x1 :: r1 => if x1 <? 128 then Some (x1, r1) else
    match r1 with
    | x2 :: r2 => if x2 <? 128 then Some (x1 - 128 + 128 * x2, r2) else
      match r2 with
      | x3 :: r3 => if x3 <? 128 then Some (x1 - 128 + 128 * (x2 - 128) + 16384 * x3, r3) else
        match r3 with
        | x4 :: r4 => if x4 <? 128 then Some (x1 - 128 + 128 * (x2 - 128) + 16384 * (x3 - 128) + 2097152 * x4, r4) else None
        | [] => None end
      | [] => None end
    | [] => None end
  | [] => None
  end.
Definition dec_str (l : list Z) : option (list Z * list Z) :=
  if len l <? 2 then None else
  let n := be16 l 0 in if len l - 2 <? n then None else Some (take n (drop 2 l), drop (2 + n) l).
Definition dec_opt (present : bool) (l : list Z) : option (option (list Z) * list Z) :=
  if present then match dec_str l with Some (s, r) => Some (Some s, r) | None => None end else Some (None, l).
Definition bit (fl k : Z) : bool := Z.odd (fl / 2 ^ k).

Definition dec_connect (w : list Z) : option conn :=
  match w with
  | b0 :: r =>
    if negb (b0 =? 16) then None else
    match dec_varint r with
    | None => None
    | Some (rl, body) =>
      if negb (len body =? rl) then None else
      if negb (list_eqb (take 7 body) [0; 4; 77; 81; 84; 84; 4]) then None else
      let fl := nthz body 7 in
      if bit fl 0 then None else                                   (* reserved flag *)
      match dec_str (drop 10 body) with
      | None => None
      | Some (cid, r1) =>
        let wq := (fl / 8) mod 4 in
        if negb (bit fl 2) && (negb (wq =? 0) || bit fl 5) then None else   (* will QoS / retain without will *)
        if wq =? 3 then None else
        match (if bit fl 2 then match dec_str r1 with
                                | Some (wt, r2) => match dec_str r2 with Some (wm, r3) => Some (Some (wt, wm, wq, bit fl 5), r3) | None => None end
                                | None => None end
               else Some (None, r1)) with
        | None => None
        | Some (will, r3) =>
          if negb (bit fl 7) && bit fl 6 then None else            (* password without user name *)
          match dec_opt (bit fl 7) r3 with
          | None => None
          | Some (user, r4) =>
            match dec_opt (bit fl 6) r4 with
            | None => None
            | Some (pwd, r5) =>
              if negb (len r5 =? 0) then None else
              Some {| k_cid := cid; k_keep := be16 body 8; k_clean := bit fl 1; k_will := will; k_user := user; k_pwd := pwd |}
            end
          end
        end
      end
    end
  | [] => None
  end.

Lemma dec_varint_enc n rest : 0 <= n < 16384 -> dec_varint (enc_rl n ++ rest) = Some (n, rest).
Proof.
  intros H. unfold enc_rl. destruct (n <? 128) eqn:E.
  - cbn [app dec_varint]. rewrite E. reflexivity.
  - apply Z.ltb_ge in E. replace (n <? 16384) with true by (symmetry; apply Z.ltb_lt; lia). cbn [app dec_varint].
    assert (M : 0 <= n mod 128 < 128) by (apply Z.mod_pos_bound; lia).
    assert (D : 1 <= n / 128 < 128) by (split; [apply Z.div_le_lower_bound; lia|apply Z.div_lt_upper_bound; lia]).
    replace (128 + n mod 128 <? 128) with false by (symmetry; apply Z.ltb_ge; lia).
    replace (n / 128 <? 128) with true by (symmetry; apply Z.ltb_lt; lia).
    f_equal. f_equal. pose proof (Z.div_mod n 128 ltac:(lia)). lia.
Qed.

Lemma dec_str_mstr s rest : len s < 65536 -> dec_str (mstr s ++ rest) = Some (s, rest).
Proof.
  intros H. pose proof (len_nonneg s) as L; pose proof (len_nonneg rest) as LR.
  unfold dec_str, mstr. rewrite u16_small by lia.
  change (([len s / 256; len s mod 256] ++ s) ++ rest) with ((len s / 256) :: (len s mod 256) :: (s ++ rest)).
  rewrite !len_cons, len_app. replace (1 + (1 + (len s + len rest)) <? 2) with false by (symmetry; apply Z.ltb_ge; lia).
  assert (B : be16 ((len s / 256) :: (len s mod 256) :: (s ++ rest)) 0 = len s).
  { unfold be16. change (nthz (len s / 256 :: len s mod 256 :: s ++ rest) 0) with (len s / 256).
    change (nthz (len s / 256 :: len s mod 256 :: s ++ rest) (0 + 1)) with (len s mod 256).
    pose proof (Z.div_mod (len s) 256 ltac:(lia)). lia. }
  rewrite B. replace (1 + (1 + (len s + len rest)) - 2 <? len s) with false by (symmetry; apply Z.ltb_ge; lia).
  change (drop 2 (len s / 256 :: len s mod 256 :: s ++ rest)) with (s ++ rest).
  replace (drop (2 + len s) (len s / 256 :: len s mod 256 :: s ++ rest)) with (drop (len s) (s ++ rest)).
  2:{ replace (2 + len s) with (len s + 2) by lia. rewrite <- (drop_drop (len s) 2) by lia. reflexivity. }
  rewrite take_app_exact, drop_app_exact. reflexivity.
Qed.
Lemma dec_opt_str o rest : (forall s, o = Some s -> len s < 65536) ->
  dec_opt (match o with Some _ => true | None => false end) (opt_str o ++ rest) = Some (o, rest).
Proof.
  intros H. destruct o as [s|]; cbn [dec_opt opt_str]; [|reflexivity]. rewrite dec_str_mstr by (apply H; reflexivity). reflexivity.
Qed.

Definition present (o : option (list Z)) : bool := match o with Some _ => true | None => false end.

Lemma connect_packet_decodes cid wt wm user pwd keep :
  len cid < 65536 -> len wt < 65536 -> len wm < 65536 ->
  (forall s, user = Some s -> len s < 65536) -> (forall s, pwd = Some s -> len s < 65536) ->
  (present pwd = true -> present user = true) -> 0 <= keep < 65536 ->
  len (connect_packet cid wt wm user pwd keep) <= 16384 ->
  dec_connect (connect_packet cid wt wm user pwd keep) =
    Some {| k_cid := cid; k_keep := keep; k_clean := true; k_will := Some (wt, wm, 0, false); k_user := user; k_pwd := pwd |}.
Proof.
  intros Lc Lt Lm Lu Lp UP K TOT. unfold connect_packet in *.
  set (flags := CONNECT_CLEAN_SESSION + CONNECT_WILL_FLAG + opt_flag user CONNECT_USER_NAME + opt_flag pwd CONNECT_PASSWORD) in *.
  set (strs := mstr cid ++ mstr wt ++ mstr wm ++ opt_str user ++ opt_str pwd) in *.
  change ([0; 4] ++ s_mqtt ++ [PROTOCOL_LEVEL; flags; keep / 256; keep mod 256] ++ strs)
    with (0 :: 4 :: 77 :: 81 :: 84 :: 84 :: 4 :: flags :: keep / 256 :: keep mod 256 :: strs) in *.
  set (body := 0 :: 4 :: 77 :: 81 :: 84 :: 84 :: 4 :: flags :: keep / 256 :: keep mod 256 :: strs) in *.
  change ([CT_CONNECT * 16] ++ enc_rl (len body) ++ body) with (16 :: (enc_rl (len body) ++ body)) in *.
  assert (LB : 0 <= len body < 16384).
  { pose proof (len_nonneg body). pose proof (len_nonneg (enc_rl (len body))). rewrite len_cons, len_app in TOT. lia. }
  cbn [dec_connect]. change (16 =? 16) with true. cbn [negb]. rewrite dec_varint_enc by assumption.
  rewrite Z.eqb_refl. cbn [negb].
  change (take 7 body) with [0; 4; 77; 81; 84; 84; 4]. rewrite list_eqb_refl. cbn [negb].
  change (nthz body 7) with flags.
  assert (BK : be16 body 8 = keep).
  { unfold be16. change (nthz body 8) with (keep / 256). change (nthz body (8 + 1)) with (keep mod 256).
    pose proof (Z.div_mod keep 256 ltac:(lia)). lia. }
  rewrite BK. change (drop 10 body) with strs. unfold strs.
  assert (FL : flags = 6 + (if present user then 128 else 0) + (if present pwd then 64 else 0)).
  { unfold flags. destruct user, pwd; reflexivity. }
  assert (BITS : bit flags 0 = false /\ bit flags 1 = true /\ bit flags 2 = true /\ (flags / 8) mod 4 = 0 /\ bit flags 5 = false /\
                 bit flags 6 = present pwd /\ bit flags 7 = present user).
  { rewrite FL. destruct user, pwd; cbn [present]; vm_compute; repeat split; reflexivity. }
  destruct BITS as (B0 & B1 & B2 & WQ & B5 & B6 & B7). rewrite B0, B1, B2, WQ, B5, B6, B7.
  rewrite dec_str_mstr by assumption. cbn [negb andb orb]. change (0 =? 0) with true. change (0 =? 3) with false. cbn [negb andb orb].
  rewrite dec_str_mstr by assumption. rewrite dec_str_mstr by assumption.
  replace (negb (present user) && present pwd) with false by (destruct (present pwd) eqn:P; [rewrite (UP eq_refl)|rewrite andb_false_r]; reflexivity).
  unfold present at 1. fold (present user). unfold present. rewrite dec_opt_str by assumption.
  rewrite <- (app_nil_r (opt_str pwd)). rewrite dec_opt_str by assumption.
  change (len (@nil Z) =? 0) with true. reflexivity.
Qed.

(* ------------------------------------------------------------------------------------------ *)
(* the device's CONNECT *)
Record cfg_ok (c : cfg) : Prop := {
  ok_user : len (c_user c) = EMAIL_MAXSIZE; ok_pass : len (c_pass c) = PWD_MAXSIZE;
  ok_prefix : len (c_prefix c) = PREFIX_SIZE; ok_guid : len (c_guid c) = GUID_SIZE }.

Record consts_facts : Prop := {
  cf_email : 2 <= EMAIL_MAXSIZE <= 1000; cf_pwd : 1 <= PWD_MAXSIZE <= 1000; cf_prefix : 1 <= PREFIX_SIZE <= 1000;
  cf_name : len DEVICE_NAME <= 1000; cf_guid : GUID_SIZE = 16;
  (* pins of literals of the model: MQTT_KEEP_ALIVE_SEC, MQTT_CLIENTID_MAX_SIZE (22 characters + terminator) *)
  cf_keep : KEEP_ALIVE_SEC = KEEP_ALIVE; cf_cid : CLIENTID_MAX = 23 }.
Lemma consts_ok : consts_facts. Proof. constructor; vm_compute; intuition congruence. Qed.

Lemma len_cstr l : len (cstr l) <= len l.
Proof. induction l as [|x t IH]; cbn [cstr]; [lia|]. destruct (x =? 0); rewrite ?len_cons; [pose proof (len_nonneg t); change (len (@nil Z)) with 0; lia|lia]. Qed.
Lemma len_take_le {A} n (l : list A) : 0 <= n -> len (take n l) <= n.
Proof. intros; rewrite len_take by lia; lia. Qed.
Lemma len_take_le' {A} n (l : list A) : len (take n l) <= len l.
Proof. unfold len, take. rewrite firstn_length. lia. Qed.
Lemma strnlen_range l n : 0 <= n -> 0 <= strnlen l n <= n.
Proof. intros H. unfold strnlen. pose proof (len_cstr (take n l)). pose proof (len_take_le n l H). pose proof (len_nonneg (cstr (take n l))). lia. Qed.
Lemma len_map {A B} (f : A -> B) l : len (map f l) = len l. Proof. unfold len; rewrite map_length; reflexivity. Qed.
Lemma len_hex_concat up l : len (concat (map (hex2 up) l)) = 2 * len l.
Proof. induction l as [|x t IH]; [reflexivity|]. cbn [map concat]. rewrite len_app, IH, len_cons. change (len (hex2 up x)) with 2. lia. Qed.

Lemma len_device_prefix c : len (c_prefix c) = PREFIX_SIZE -> 0 <= len (device_prefix c) <= PREFIX_SIZE + len DEVICE_NAME + 22.
Proof.
  intros H. pose proof consts_ok as CF. pose proof (cf_prefix CF). unfold device_prefix. rewrite !len_app, len_map.
  change (len s_supla_devices) with 14. change (len [45]) with 1. change (len (concat (map (hex2 false) MAC_TAIL))) with 6.
  pose proof (len_cstr (take PREFIX_SIZE (c_prefix c))). pose proof (len_take_le PREFIX_SIZE (c_prefix c) ltac:(lia)).
  pose proof (len_nonneg (cstr (take PREFIX_SIZE (c_prefix c)))). pose proof (len_nonneg DEVICE_NAME).
  destruct (0 <? len (cstr (take PREFIX_SIZE (c_prefix c)))); rewrite ?len_app; [change (len [47]) with 1|change (len (@nil Z)) with 0]; lia.
Qed.
Lemma len_password_of fx c : cfg_ok c -> 0 <= len (password_of fx c) <= PWD_MAXSIZE + EMAIL_MAXSIZE.
Proof.
  intros [O1 O2 O3 O4]. pose proof consts_ok as CF. pose proof (cf_email CF); pose proof (cf_pwd CF). unfold password_of.
  pose proof (strnlen_range (c_pass c) PWD_MAXSIZE ltac:(lia)) as S1.
  pose proof (len_take_le (strnlen (c_pass c) PWD_MAXSIZE) (c_pass c) ltac:(lia)) as T1.
  pose proof (len_nonneg (take (strnlen (c_pass c) PWD_MAXSIZE) (c_pass c))) as N1.
  destruct (PWD_MAXSIZE <=? _); [|lia].
  pose proof (strnlen_range (c_user c) EMAIL_MAXSIZE ltac:(lia)) as S2.
  destruct (_ <? EMAIL_MAXSIZE - 1) eqn:E; [|lia]. apply Z.ltb_lt in E.
  set (room := EMAIL_MAXSIZE - strnlen (c_user c) EMAIL_MAXSIZE - 1) in *.
  pose proof (strnlen_range (drop (strnlen (c_user c) EMAIL_MAXSIZE + 1) (c_user c)) room ltac:(lia)) as S3.
  destruct (_ <? room - _); [|lia]. rewrite len_app.
  pose proof (len_take_le (strnlen (drop (strnlen (c_user c) EMAIL_MAXSIZE + 1) (c_user c)) room) (drop (strnlen (c_user c) EMAIL_MAXSIZE + 1) (c_user c)) ltac:(lia)).
  pose proof (len_nonneg (take (strnlen (drop (strnlen (c_user c) EMAIL_MAXSIZE + 1) (c_user c)) room) (drop (strnlen (c_user c) EMAIL_MAXSIZE + 1) (c_user c)))).
  lia.
Qed.

Theorem C17_connect_decodes_thm : forall c junk, cfg_ok c ->
  dec_connect (connect_bytes FIXED c junk) =
    Some {| k_cid := client_id c; k_keep := KEEP_ALIVE; k_clean := true;
            k_will := Some (device_prefix c ++ [47] ++ s_state_connected, s_false, 0, false);
            k_user := if auth_on c then Some (cstr (c_user c)) else None;
            k_pwd := if auth_on c then Some (password_of FIXED c) else None |}.
Proof.
  intros c junk OK. pose proof consts_ok as CF. destruct OK as [O1 O2 O3 O4].
  pose proof (cf_email CF); pose proof (cf_pwd CF); pose proof (cf_prefix CF); pose proof (cf_name CF).
  unfold connect_bytes, credentials. cbn [fx_noauth FIXED].
  pose proof (len_device_prefix c O3) as LP.
  pose proof (len_password_of FIXED c (Build_cfg_ok c O1 O2 O3 O4)) as LW.
  pose proof (len_cstr (c_user c)) as LU. pose proof (len_nonneg (cstr (c_user c))) as LU0.
  assert (LC : 0 <= len (client_id c) <= 22) by (unfold client_id; split; [apply len_nonneg|apply len_take_le; lia]).
  assert (LWT : len (will_topic c) = len (device_prefix c) + 16) by (unfold will_topic; rewrite !len_app; reflexivity).
  assert (G : forall u p, (forall s, u = Some s -> len s <= EMAIL_MAXSIZE) -> (forall s, p = Some s -> len s <= PWD_MAXSIZE + EMAIL_MAXSIZE) ->
              (present p = true -> present u = true) ->
              dec_connect (connect_packet (client_id c) (will_topic c) s_false u p KEEP_ALIVE) =
              Some {| k_cid := client_id c; k_keep := KEEP_ALIVE; k_clean := true; k_will := Some (will_topic c, s_false, 0, false); k_user := u; k_pwd := p |}).
  { intros u p Hu Hp UP. apply connect_packet_decodes; try lia; try (change (len s_false) with 5; lia).
    - intros s E. specialize (Hu s E). lia.
    - intros s E. specialize (Hp s E). lia.
    - exact UP.
    - unfold KEEP_ALIVE; lia.
    - unfold connect_packet.
      assert (LO : forall o b, (forall s, o = Some s -> len s <= b) -> 0 <= b -> 0 <= len (opt_str o) <= b + 2).
      { intros o b Ho Hb. destruct o as [s|]; cbn [opt_str]; [|change (len (@nil Z)) with 0; lia]. unfold mstr. rewrite len_app.
        change (len [u16 (len s) / 256; u16 (len s) mod 256]) with 2. specialize (Ho s eq_refl). pose proof (len_nonneg s). lia. }
      pose proof (LO u EMAIL_MAXSIZE Hu ltac:(lia)). pose proof (LO p (PWD_MAXSIZE + EMAIL_MAXSIZE) Hp ltac:(lia)).
      set (body := [0; 4] ++ s_mqtt ++ _ ++ mstr (client_id c) ++ mstr (will_topic c) ++ mstr s_false ++ opt_str u ++ opt_str p).
      assert (LBD : 0 <= len body <= 10 + 24 + (2 + len (will_topic c)) + 7 + (EMAIL_MAXSIZE + 2) + (PWD_MAXSIZE + EMAIL_MAXSIZE + 2)).
      { unfold body. rewrite !len_app. unfold mstr. rewrite !len_app.
        change (len [0; 4]) with 2. change (len s_mqtt) with 4. change (len s_false) with 5.
        change (len [u16 (len (client_id c)) / 256; u16 (len (client_id c)) mod 256]) with 2.
        change (len [u16 (len (will_topic c)) / 256; u16 (len (will_topic c)) mod 256]) with 2.
        change (len [u16 5 / 256; u16 5 mod 256]) with 2.
        match goal with |- context [len [PROTOCOL_LEVEL; ?a; ?b; ?d]] => change (len [PROTOCOL_LEVEL; a; b; d]) with 4 end.
        lia. }
      rewrite !len_app. change (len [CT_CONNECT * 16]) with 1.
      assert (LE : len (enc_rl (len body)) <= 4) by (unfold enc_rl; repeat (destruct (_ <? _)); vm_compute; discriminate).
      lia. }
  destruct (auth_on c).
  - apply G.
    + intros s E; inversion E; subst. lia.
    + intros s E; inversion E; subst. lia.
    + reflexivity.
  - apply G; intros; discriminate.
Qed.

(* authentication disabled: neither user name nor password, whatever is in the fields or on the stack *)
Theorem C17_no_auth_no_credentials_thm : forall c junk, cfg_ok c -> auth_on c = false ->
  exists k, dec_connect (connect_bytes FIXED c junk) = Some k /\ k_user k = None /\ k_pwd k = None.
Proof.
  intros c junk OK A. rewrite (C17_connect_decodes_thm c junk OK), A. eexists. split; [reflexivity|]. auto.
Qed.

(* ------------------------------------------------------------------------------------------ *)
(* the password handed to CONNECT is the complete configured password *)
Lemma cstr_nozero a : nozero a -> cstr a = a.
Proof.
  unfold nozero. induction a as [|x t IH]; intros H; cbn [cstr]; [reflexivity|].
  cbn [forallb] in H. apply andb_true_iff in H. destruct H as [H1 H2]. apply negb_true_iff in H1. rewrite H1, (IH H2). reflexivity.
Qed.
Lemma nozero_take n a : nozero a -> nozero (take n a).
Proof.
  unfold nozero, take. intros H. rewrite forallb_forall in *. intros x I. apply H.
  rewrite <- (firstn_skipn (Z.to_nat n) a). apply in_or_app. left. exact I.
Qed.

(* how supla_esp_cfgmode.c stores user name `user` and password `pw` *)
Definition stored (c : cfg) (user pw : list Z) : Prop :=
  nozero user /\ nozero pw /\ len (c_user c) = EMAIL_MAXSIZE /\ len (c_pass c) = PWD_MAXSIZE /\
  ((len pw < PWD_MAXSIZE /\ (exists j1 j2, c_pass c = pw ++ 0 :: j1 /\ c_user c = user ++ 0 :: j2)) \/
   (PWD_MAXSIZE <= len pw /\ c_pass c = take PWD_MAXSIZE pw /\
    exists j2, c_user c = user ++ 0 :: drop PWD_MAXSIZE pw ++ 0 :: j2)).

Theorem C17_credentials_complete_thm : forall c user pw, stored c user pw ->
  cstr (c_user c) = user /\ password_of FIXED c = pw.
Proof.
  intros c user pw (NU & NP & LU & LP & H). pose proof consts_ok as CF. pose proof (cf_email CF); pose proof (cf_pwd CF).
  destruct H as [(SH & j1 & j2 & EP & EU) | (LG & EP & j2 & EU)].
  - split; [rewrite EU; apply cstr_app_zero; exact NU|].
    unfold password_of.
    assert (S : strnlen (c_pass c) PWD_MAXSIZE = len pw).
    { unfold strnlen. rewrite take_all by lia. rewrite EP, cstr_app_zero by exact NP. reflexivity. }
    rewrite S. replace (PWD_MAXSIZE <=? len pw) with false by (symmetry; apply Z.leb_gt; lia).
    rewrite EP. apply take_app_exact.
  - split; [rewrite EU; apply cstr_app_zero; exact NU|].
    unfold password_of. cbn [fx_tail FIXED].
    assert (LT : len (take PWD_MAXSIZE pw) = PWD_MAXSIZE) by (rewrite len_take by lia; lia).
    assert (S : strnlen (c_pass c) PWD_MAXSIZE = PWD_MAXSIZE).
    { unfold strnlen. rewrite take_all by lia. rewrite EP, cstr_nozero by (apply nozero_take; exact NP). exact LT. }
    rewrite S. rewrite Z.leb_refl.
    assert (SU : strnlen (c_user c) EMAIL_MAXSIZE = len user).
    { unfold strnlen. rewrite take_all by lia. rewrite EU, cstr_app_zero by exact NU. reflexivity. }
    rewrite SU.
    set (tail := drop PWD_MAXSIZE pw) in *.
    assert (LL : len user + 1 + (len tail + 1 + len j2) = EMAIL_MAXSIZE).
    { rewrite <- LU, EU. rewrite len_app, len_cons, len_app, len_cons. lia. }
    pose proof (len_nonneg tail); pose proof (len_nonneg j2); pose proof (len_nonneg user).
    replace (len user <? EMAIL_MAXSIZE - 1) with true by (symmetry; apply Z.ltb_lt; lia).
    assert (DR : drop (len user + 1) (c_user c) = tail ++ 0 :: j2) by (rewrite EU; apply drop_mid).
    rewrite DR.
    assert (NT : nozero tail).
    { unfold nozero, tail, drop in *. rewrite forallb_forall in *. intros x I. apply NP. rewrite <- (firstn_skipn (Z.to_nat PWD_MAXSIZE) pw). apply in_or_app. right. exact I. }
    assert (SP : strnlen (tail ++ 0 :: j2) (EMAIL_MAXSIZE - len user - 1) = len tail).
    { unfold strnlen. rewrite take_all by (rewrite len_app, len_cons; lia). rewrite cstr_app_zero by exact NT. reflexivity. }
    rewrite SP. replace (len tail <? EMAIL_MAXSIZE - len user - 1 - 0) with true by (symmetry; apply Z.ltb_lt; lia).
    rewrite EP, take_all by lia. rewrite take_app_exact. apply take_drop.
Qed.

(* ------------------------------------------------------------------------------------------ *)
(* number rendering: the specification `render_spec`, the theorem prepare_val = render_spec for all 64-bit values and
   precision 0..20, the buffer bound and the parse-back theorem are in C17/Render.v.  Here: the spec applied to a raw
   64-bit pattern, and a complete enumeration of small cases kept as an independent cross-check of spec and model. *)
Definition render_of_raw (is_unsigned : bool) (raw prec : Z) : list Z := render_spec (value_of is_unsigned raw) (Z.to_nat prec).

Definition val_ok (u : bool) (raw prec : Z) : bool :=
  list_eqb (prepare_val FIXED u raw prec) (render_of_raw u raw prec) && (len (prepare_val FIXED u raw prec) <=? 24).
Definition zrange (n : nat) : list Z := map Z.of_nat (seq 0 n).
Example val_small_table :
  forallb (fun p => forallb (fun r => val_ok true r p && val_ok false r p && val_ok false (18446744073709551615 - r) p)
                            (zrange 300)) (zrange 21) = true.
Proof. vm_compute. reflexivity. Qed.
Example val_large_table :
  forallb (fun p => forallb (fun r => val_ok true (18446744073709551615 - r) p) (zrange 40)) (zrange 21) = true.
Proof. vm_compute. reflexivity. Qed.

Theorem C17_number_rendering_thm : forall u raw prec,
  0 <= raw < 18446744073709551616 -> 0 <= prec <= 20 ->
  prepare_val FIXED u raw prec = render_of_raw u raw prec /\ len (prepare_val FIXED u raw prec) <= 24.
Proof.
  intros u raw prec HR HP. destruct (prepare_val_is_render_spec u raw prec HR HP) as (A & _ & _ & D).
  unfold render_of_raw. rewrite A. auto.
Qed.

(* ------------------------------------------------------------------------------------------ *)
(* the unrepaired code: witnesses (replayed on the real code, see corpus/C17) *)
Definition OLD_NOAUTH : fixes := {| fx_noauth := false; fx_tail := true; fx_chan := true; fx_slash := true; fx_uval := true; fx_digits := true |}.
Definition OLD_TAIL : fixes := {| fx_noauth := true; fx_tail := false; fx_chan := true; fx_slash := true; fx_uval := true; fx_digits := true |}.
Definition OLD_CHAN : fixes := {| fx_noauth := true; fx_tail := true; fx_chan := false; fx_slash := true; fx_uval := true; fx_digits := false |}.
Definition OLD_DIGITS : fixes := {| fx_noauth := true; fx_tail := true; fx_chan := true; fx_slash := true; fx_uval := true; fx_digits := false |}.
Definition OLD_SLASH : fixes := {| fx_noauth := true; fx_tail := true; fx_chan := true; fx_slash := false; fx_uval := true; fx_digits := true |}.
Definition OLD_UVAL : fixes := {| fx_noauth := true; fx_tail := true; fx_chan := true; fx_slash := true; fx_uval := false; fx_digits := true |}.

Definition w_cfg_noauth : cfg := {| c_user := [117;115;101;114] ++ zeros 252; c_pass := [112;119] ++ zeros 31; c_prefix := zeros 50;
                                   c_guid := [1;2;3;4;5;6;7;8;9;10;11;12;13;14;15;16]; c_flags := 9 |}.
Definition w_cfg_tail : cfg := {| c_user := [117; 0] ++ repeat 84 253 ++ [0]; c_pass := repeat 80 33; c_prefix := zeros 50;
                                 c_guid := zeros 16; c_flags := 1 |}.
Definition w_P : list Z := [115;117;112;108;97;47;120].      (* "supla/x" *)
Definition w_t (n : list Z) : list Z := w_P ++ [47] ++ s_channels ++ n ++ [47] ++ s_set_on.

Lemma w_cfg_tail_stored : stored w_cfg_tail [117] (repeat 80 33 ++ repeat 84 253).
Proof.
  unfold stored. split; [reflexivity|]. split; [vm_compute; reflexivity|]. split; [reflexivity|]. split; [reflexivity|].
  right. split; [vm_compute; discriminate|]. split; [vm_compute; reflexivity|]. exists []. vm_compute. reflexivity.
Qed.

Theorem C17_old_code_refuted_thm :
  (* no authentication: stack garbage is sent as password; connect flags 0x46 (password without user name) is not
     even valid MQTT 3.1.1 *)
  nthz (connect_bytes OLD_NOAUTH w_cfg_noauth [65; 66]) 9 = 70 /\
  dec_connect (connect_bytes OLD_NOAUTH w_cfg_noauth [65; 66]) = None /\
  (exists k, dec_connect (connect_bytes FIXED w_cfg_noauth [65; 66]) = Some k /\ k_pwd k = None /\ k_user k = None) /\
  (* a password of the maximum storable length loses its tail *)
  stored w_cfg_tail [117] (repeat 80 33 ++ repeat 84 253) /\
  password_of OLD_TAIL w_cfg_tail = repeat 80 33 /\ password_of FIXED w_cfg_tail = repeat 80 33 ++ repeat 84 253 /\
  (* channel numbers 256, -1, -, 1.7 *)
  parser_set_on OLD_CHAN w_P (w_t [50;53;54]) [49] = Some (0, 1) /\ parser_set_on FIXED w_P (w_t [50;53;54]) [49] = None /\
  parser_set_on OLD_CHAN w_P (w_t [45;49]) [49] = Some (255, 1) /\ parser_set_on FIXED w_P (w_t [45;49]) [49] = None /\
  parser_set_on OLD_CHAN w_P (w_t [45]) [49] = Some (0, 1) /\ parser_set_on FIXED w_P (w_t [45]) [49] = None /\
  parser_set_on OLD_CHAN w_P (w_t [49;46;55]) [49] = Some (1, 1) /\ parser_set_on FIXED w_P (w_t [49;46;55]) [49] = None /\
  (* any byte instead of '/' after the prefix *)
  parser_set_on OLD_SLASH w_P (w_P ++ [88] ++ s_channels ++ [50; 47] ++ s_set_on) [49] = Some (2, 1) /\
  parser_set_on FIXED w_P (w_P ++ [88] ++ s_channels ++ [50; 47] ++ s_set_on) [49] = None /\
  (* unsigned values above INT64_MAX *)
  list_eqb (prepare_val OLD_UVAL true 18446744073709551615 2) (render_of_raw true 18446744073709551615 2) = false /\
  prepare_val FIXED true 18446744073709551615 2 = render_of_raw true 18446744073709551615 2.
Proof.
  split; [vm_compute; reflexivity|]. split; [vm_compute; reflexivity|].
  split; [eexists; split; [vm_compute; reflexivity|split; reflexivity]|].
  split; [exact w_cfg_tail_stored|].
  vm_compute. repeat split; reflexivity.
Qed.

(* ------------------------------------------------------------------------------------------ *)
(* numeric values of commands: grammar  ['-'] digit+ ['.' digit*] , value = the integer part *)
Definition frac_part (ofp : option (list Z)) : list Z := match ofp with Some f => 46 :: f | None => [] end.
Definition number_shape (s : list Z) (neg : bool) (ip : list Z) (ofp : option (list Z)) : Prop :=
  s = (if neg then [45] else []) ++ ip ++ frac_part ofp /\ ip <> [] /\ forallb is_digit ip = true /\
  (forall f, ofp = Some f -> forallb is_digit f = true).

Lemma span_digits_spec r : forall ip rest, span_digits r = (ip, rest) ->
  r = ip ++ rest /\ forallb is_digit ip = true /\ match rest with [] => True | c :: _ => is_digit c = false end.
Proof.
  induction r as [|d t IH]; intros ip rest H; cbn [span_digits] in H.
  - inversion H; subst. auto.
  - destruct (is_digit d) eqn:D.
    + destruct (span_digits t) as [a b]. inversion H; subst. destruct (IH a rest eq_refl) as (E & F & G).
      cbn [app forallb]. rewrite D, F, <- E. auto.
    + inversion H; subst. cbn [app forallb]. rewrite D. auto.
Qed.
Lemma span_digits_app ip rest : forallb is_digit ip = true -> match rest with [] => True | c :: _ => is_digit c = false end ->
  span_digits (ip ++ rest) = (ip, rest).
Proof.
  intros F G. induction ip as [|d t IH]; cbn [app].
  - destruct rest as [|c r]; [reflexivity|]. cbn [span_digits]. rewrite G. reflexivity.
  - cbn [forallb] in F. apply andb_true_iff in F. destruct F as [F1 F2]. cbn [span_digits]. rewrite F1, (IH F2). reflexivity.
Qed.
Lemma digits_val_ge l : forall acc, 0 <= acc -> forallb is_digit l = true -> acc <= digits_val acc l.
Proof.
  induction l as [|d t IH]; intros acc A F; cbn [digits_val]; [lia|]. cbn [forallb] in F. apply andb_true_iff in F.
  destruct F as [F1 F2]. unfold is_digit in F1. apply andb_true_iff in F1. destruct F1 as [L1 L2]. apply Z.leb_le in L1.
  specialize (IH (acc * 10 + (d - 48)) ltac:(lia) F2). lia.
Qed.
Lemma acc_int_val l : forall acc m, acc_int acc l = Some m -> m = digits_val acc l.
Proof.
  induction l as [|d t IH]; intros acc m H; cbn [acc_int digits_val] in *; [congruence|].
  destruct (214748363 <? acc); [discriminate|]. apply IH; exact H.
Qed.
Lemma acc_int_small l : forall acc, 0 <= acc -> forallb is_digit l = true -> digits_val acc l <= 2147483639 ->
  acc_int acc l = Some (digits_val acc l).
Proof.
  induction l as [|d t IH]; intros acc A F B; cbn [acc_int digits_val] in *; [reflexivity|].
  cbn [forallb] in F. apply andb_true_iff in F. destruct F as [F1 F2]. pose proof F1 as F1'. unfold is_digit in F1'.
  apply andb_true_iff in F1'. destruct F1' as [L1 L2]. apply Z.leb_le in L1.
  pose proof (digits_val_ge t (acc * 10 + (d - 48)) ltac:(lia) F2).
  replace (214748363 <? acc) with false by (symmetry; apply Z.ltb_ge; lia). apply IH; auto; lia.
Qed.

Lemma acc_int_bound l : forall acc m, 0 <= acc <= 2147483647 -> forallb is_digit l = true -> acc_int acc l = Some m -> m <= 2147483647.
Proof.
  induction l as [|d t IH]; intros acc m B F H; cbn [acc_int] in H; [inversion H; lia|].
  destruct (214748363 <? acc) eqn:E; [discriminate|]. apply Z.ltb_ge in E. cbn [forallb] in F. apply andb_true_iff in F.
  destruct F as [F1 F2]. unfold is_digit in F1. apply andb_true_iff in F1. destruct F1 as [L1 L2]. apply Z.leb_le in L1. apply Z.leb_le in L2.
  apply (IH (acc * 10 + (d - 48)) m); auto; lia.
Qed.

(* accepted  =>  the whole value matches the grammar and the result is its integer part (with the sign) *)
Theorem C17_number_grammar_thm : forall s v, str2int FIXED s = Some v ->
  exists neg ip ofp, number_shape s neg ip ofp /\ v = (if neg then - digits_val 0 ip else digits_val 0 ip) /\
                     0 <= digits_val 0 ip <= 2147483647.
Proof.
  intros s v. unfold str2int. cbn [fx_digits FIXED].
  set (nr := match s with c :: t => if c =? 45 then (true, t) else (false, s) | [] => (false, s) end).
  assert (NR : s = (if fst nr then [45] else []) ++ snd nr).
  { unfold nr. destruct s as [|c t]; [reflexivity|]. destruct (c =? 45) eqn:E; [apply Z.eqb_eq in E; subst|]; reflexivity. }
  destruct nr as [neg r]. cbn [fst snd] in NR.
  destruct (span_digits r) as [ip rest] eqn:SP. destruct (span_digits_spec r ip rest SP) as (E & F & G).
  destruct rest as [|c frac].
  - destruct (len ip =? 0) eqn:L0; [discriminate|]. destruct (acc_int 0 ip) as [m|] eqn:A; [|discriminate].
    intros H; inversion H; subst v. pose proof (acc_int_val _ _ _ A) as M. subst m.
    exists neg, ip, None. split; [|split; [reflexivity|]].
    + repeat split; auto; [rewrite NR, E; reflexivity|intros N; subst ip; discriminate|discriminate].
    + split; [apply (digits_val_ge ip 0); [lia|exact F]|].
      apply (acc_int_bound ip 0 _ ltac:(lia) F A).
  - destruct ((c =? 46) && (neg || negb (len ip =? 0)) && forallb is_digit frac) eqn:OK; [|discriminate].
    apply andb_true_iff in OK. destruct OK as [OK FR]. apply andb_true_iff in OK. destruct OK as [C46 _]. apply Z.eqb_eq in C46. subst c.
    destruct (len ip =? 0) eqn:L0; [discriminate|]. destruct (acc_int 0 ip) as [m|] eqn:A; [|discriminate].
    intros H; inversion H; subst v. pose proof (acc_int_val _ _ _ A) as M. subst m.
    exists neg, ip, (Some frac). split; [|split; [reflexivity|]].
    + repeat split; auto; [rewrite NR, E; reflexivity|intros N; subst ip; discriminate|intros f Q; inversion Q; subst; exact FR].
    + split; [apply (digits_val_ge ip 0); [lia|exact F]|].
      apply (acc_int_bound ip 0 _ ltac:(lia) F A).
Qed.

(* conversely every value of the grammar whose integer part fits an int is accepted *)
Theorem C17_number_accepted_thm : forall s neg ip ofp, number_shape s neg ip ofp -> digits_val 0 ip <= 2147483639 ->
  str2int FIXED s = Some (if neg then - digits_val 0 ip else digits_val 0 ip).
Proof.
  intros s neg ip ofp (E & NE & F & FF) B. unfold str2int. cbn [fx_digits FIXED].
  assert (HD : exists d0 t0, ip = d0 :: t0 /\ is_digit d0 = true).
  { destruct ip as [|d0 t0]; [congruence|]. cbn [forallb] in F. apply andb_true_iff in F. exists d0, t0. tauto. }
  destruct HD as (d0 & t0 & EI & D0).
  assert (N45 : (d0 =? 45) = false) by (unfold is_digit in D0; apply andb_true_iff in D0; destruct D0 as [L _]; apply Z.leb_le in L; apply Z.eqb_neq; lia).
  assert (NR : match s with c :: t => if c =? 45 then (true, t) else (false, s) | [] => (false, s) end = (neg, ip ++ frac_part ofp)).
  { rewrite E. destruct neg; cbn [app]; [reflexivity|]. rewrite EI. cbn [app]. rewrite N45. reflexivity. }
  rewrite NR.
  assert (G : match frac_part ofp with [] => True | c :: _ => is_digit c = false end) by (destruct ofp; cbn [frac_part]; auto).
  rewrite (span_digits_app ip (frac_part ofp) F G).
  assert (L0 : (len ip =? 0) = false) by (apply Z.eqb_neq; rewrite EI, len_cons; pose proof (len_nonneg t0); lia).
  assert (OK : match frac_part ofp with [] => true | c :: frac => (c =? 46) && (neg || negb (len ip =? 0)) && forallb is_digit frac end = true).
  { destruct ofp as [f|]; cbn [frac_part]; [|reflexivity]. rewrite L0, (FF f eq_refl). cbn. rewrite orb_true_r. reflexivity. }
  rewrite OK, L0, (acc_int_small ip 0 ltac:(lia) F B). reflexivity.
Qed.

(* percentages: accepted iff the value has the grammar and its integer part is 0..100 (a minus sign only before zero) *)
Theorem C17_percent_thm : forall msg p, percent FIXED msg = Some p <->
  exists neg ip ofp, number_shape msg neg ip ofp /\ p = digits_val 0 ip /\ 0 <= p <= 100 /\ (neg = true -> p = 0).
Proof.
  intros msg p. unfold percent. split.
  - destruct (str2int FIXED msg) as [v|] eqn:S; [|discriminate].
    destruct (C17_number_grammar_thm msg v S) as (neg & ip & ofp & SH & V & R).
    destruct ((0 <=? v) && (v <=? 100)) eqn:B; [|discriminate]. apply andb_true_iff in B. destruct B as [B1 B2].
    apply Z.leb_le in B1. apply Z.leb_le in B2. intros H; inversion H; subst p.
    exists neg, ip, ofp. split; [exact SH|]. destruct neg; (split; [lia|split; [lia|intros; try discriminate; lia]]).
  - intros (neg & ip & ofp & SH & P & R & N).
    rewrite (C17_number_accepted_thm msg neg ip ofp SH ltac:(lia)).
    assert (V : (if neg then - digits_val 0 ip else digits_val 0 ip) = p) by (destruct neg; [specialize (N eq_refl)|]; lia).
    rewrite V. replace ((0 <=? p) && (p <=? 100)) with true by (symmetry; apply andb_true_iff; split; apply Z.leb_le; lia). reflexivity.
Qed.

(* the dimmer command *)
Theorem C17_brightness_grammar_thm : forall prefix topic msg ch p, prefix <> [] -> msg <> [] ->
  (parser_brightness FIXED prefix topic msg = Some (ch, p) <->
   grammar prefix topic ch s_set_brightness /\ percent FIXED msg = Some p).
Proof.
  intros prefix topic msg ch p NP NM. unfold parser_brightness. split.
  - destruct (parse_head FIXED prefix topic msg) as [[c cmd]|] eqn:H; [|discriminate].
    destruct (list_eqb cmd s_set_brightness) eqn:E; [|discriminate]. apply list_eqb_true in E. subst cmd.
    destruct (percent FIXED msg) as [q|] eqn:P; [|discriminate]. intros Q; inversion Q; subst.
    split; [apply (parse_head_iff prefix topic msg ch s_set_brightness NP NM); exact H|reflexivity].
  - intros [G P]. apply (parse_head_iff prefix topic msg ch s_set_brightness NP NM) in G. rewrite G, list_eqb_refl, P. reflexivity.
Qed.

Theorem C17_old_str2int_refuted_thm :
  (* "-" and "-.5" are read as 0 by the unrepaired supla_esp_mqtt_str2int: a roller shutter is fully opened *)
  parser_rs_fb OLD_DIGITS w_P (w_P ++ [47] ++ s_channels ++ [51; 47] ++ s_set_closing) [45] = Some (3, ACT_SHUT_PCT, 0, 0) /\
  parser_rs_fb FIXED w_P (w_P ++ [47] ++ s_channels ++ [51; 47] ++ s_set_closing) [45] = None /\
  percent OLD_DIGITS [45; 46; 53] = Some 0 /\ percent FIXED [45; 46; 53] = None /\
  parser_brightness OLD_DIGITS w_P (w_P ++ [47] ++ s_channels ++ [51; 47] ++ s_set_brightness) [45] = Some (3, 0) /\
  parser_brightness FIXED w_P (w_P ++ [47] ++ s_channels ++ [51; 47] ++ s_set_brightness) [45] = None /\
  (* unchanged in both: fraction digits are checked, the integer part is used *)
  percent FIXED [53; 48; 46; 55] = Some 50 /\ percent FIXED [53; 48; 46; 120] = None /\ percent FIXED [49; 46; 50; 46; 51] = None /\
  percent FIXED [48;48;48;48;48;48;48;48;48;48;48;48;53;48] = Some 50 /\ percent FIXED [52;50;57;52;57;54;55;51;52;54] = None.
Proof. vm_compute. repeat split; reflexivity. Qed.
