From Coq Require Import Extraction ExtrOcamlBasic.
From V Require Import C17.Model.
Extraction Language OCaml.
Extraction "model.ml" main_wire.
