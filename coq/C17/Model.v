(* C17 — executable model of
     supla_esp_mqtt_init (topic prefix), supla_esp_mqtt_conn_on_connect (credentials), mqtt_connect /
     mqtt_pack_connection_request (CONNECT encoder), supla_esp_mqtt_parser_set_on, _parser_rs_fb_action,
     _parse_int_with_prefix, _str2int, _lc_equal, supla_esp_mqtt_prepare_val.
   The model follows the code *after* the proposed repairs (docs/fixes/C17_*.diff); the behaviour of the unchanged
   code is kept behind the booleans of `fixes`.  Definitions only. *)
From Coq Require Import List ZArith Bool.
Import ListNotations.
From V Require Import Base.U32 Base.Bytes Base.Iface Gen.MqttConsts.
Local Open Scope Z_scope.

Record fixes := { fx_noauth : bool;   (* C17_noauth_password.diff: no password pointer when authentication is off *)
                  fx_tail : bool;     (* C17_password_tail_max.diff: a tail that fills its space completely is still appended *)
                  fx_chan : bool;     (* C17_channel_number.diff: channel number = digits only, 0..255 *)
                  fx_slash : bool;    (* C17_prefix_slash.diff: the byte after the prefix must be '/' *)
                  fx_uval : bool;     (* C17_prepare_val_unsigned.diff: digits taken from an unsigned copy *)
                  fx_digits : bool }. (* C17_str2int_strict.diff: a number needs a digit before the dot/end; integer accumulation *)
Definition FIXED : fixes := {| fx_noauth := true; fx_tail := true; fx_chan := true; fx_slash := true; fx_uval := true; fx_digits := true |}.

(* ---------- C strings ---------- *)
Fixpoint cstr (l : list Z) : list Z := match l with [] => [] | x :: t => if x =? 0 then [] else x :: cstr t end.
Definition strnlen (l : list Z) (n : Z) : Z := len (cstr (take n l)).
Definition lower (c : Z) : Z := if (65 <=? c) && (c <=? 90) then c + 32 else c.
Definition hexdigit (up : bool) (d : Z) : Z := if d <? 10 then 48 + d else (if up then 55 else 87) + d.
Definition hex2 (up : bool) (b : Z) : list Z := [hexdigit up (b / 16); hexdigit up (b mod 16)].

(* ---------- configuration ---------- *)
Record cfg := { c_user : list Z;      (* Username field image, SUPLA_EMAIL_MAXSIZE bytes *)
                c_pass : list Z;      (* Password field image, SUPLA_LOCATION_PWD_MAXSIZE bytes *)
                c_prefix : list Z;    (* MqttTopicPrefix field image, MQTT_PREFIX_SIZE bytes *)
                c_guid : list Z;      (* 16 bytes *)
                c_flags : Z }.

Definition MAC_TAIL : list Z := [163; 164; 165].     (* bytes 3..5 of the station MAC (value of the harness double) *)
Definition s_supla_devices : list Z := [115;117;112;108;97;47;100;101;118;105;99;101;115;47].  (* "supla/devices/" *)
Definition s_state_connected : list Z := [115;116;97;116;101;47;99;111;110;110;101;99;116;101;100]. (* "state/connected" *)
Definition s_false : list Z := [102;97;108;115;101].
Definition s_mqtt : list Z := [77;81;84;84].
Definition s_channels : list Z := [99;104;97;110;110;101;108;115;47].   (* "channels/" *)

(* supla_esp_mqtt_init: prefix = [<user prefix>/]supla/devices/<lower-case device name>-<mac3..5 in hex> *)
Definition device_prefix (c : cfg) : list Z :=
  let up := cstr (take PREFIX_SIZE (c_prefix c)) in
  (if 0 <? len up then up ++ [47] else []) ++ s_supla_devices ++ map lower DEVICE_NAME ++ [45] ++ concat (map (hex2 false) MAC_TAIL).

(* supla_esp_mqtt_conn_on_connect: user name and password handed to mqtt_connect (None = NULL pointer) *)
Definition auth_on (c : cfg) : bool := Z.land (c_flags c) FLAG_NO_AUTH =? 0.
Definition password_of (fx : fixes) (c : cfg) : list Z :=
  let plen := strnlen (c_pass c) PWD_MAXSIZE in
  let base := take plen (c_pass c) in
  if PWD_MAXSIZE <=? plen then
    let ul := strnlen (c_user c) EMAIL_MAXSIZE in
    if ul <? EMAIL_MAXSIZE - 1 then
      let room := EMAIL_MAXSIZE - ul - 1 in
      let part := strnlen (drop (ul + 1) (c_user c)) room in
      if part <? room - (if fx_tail fx then 0 else 1) then base ++ take part (drop (ul + 1) (c_user c)) else base
    else base
  else base.
Definition credentials (fx : fixes) (c : cfg) (junk : list Z) : option (list Z) * option (list Z) :=
  if auth_on c then (Some (cstr (c_user c)), Some (password_of fx c))
  else (None, if fx_noauth fx then None else Some junk).

(* ---------- mqtt_pack_connection_request ---------- *)
Definition enc_rl (n : Z) : list Z :=
  if n <? 128 then [n]
  else if n <? 16384 then [128 + n mod 128; n / 128]
  else if n <? 2097152 then [128 + n mod 128; 128 + (n / 128) mod 128; n / 16384]
  else [128 + n mod 128; 128 + (n / 128) mod 128; 128 + (n / 16384) mod 128; n / 2097152].
Definition mstr (s : list Z) : list Z := [u16 (len s) / 256; u16 (len s) mod 256] ++ s.
Definition opt_str (o : option (list Z)) : list Z := match o with Some s => mstr s | None => [] end.
Definition opt_flag (o : option (list Z)) (f : Z) : Z := match o with Some _ => f | None => 0 end.

Definition KEEP_ALIVE : Z := 32.
Definition client_id (c : cfg) : list Z := take 22 (concat (map (hex2 true) (c_guid c))).
Definition will_topic (c : cfg) : list Z := device_prefix c ++ [47] ++ s_state_connected.

Definition connect_packet (cid wt wm : list Z) (user pwd : option (list Z)) (keep : Z) : list Z :=
  let flags := CONNECT_CLEAN_SESSION + CONNECT_WILL_FLAG + opt_flag user CONNECT_USER_NAME + opt_flag pwd CONNECT_PASSWORD in
  let body := [0; 4] ++ s_mqtt ++ [PROTOCOL_LEVEL; flags; keep / 256; keep mod 256]
              ++ mstr cid ++ mstr wt ++ mstr wm ++ opt_str user ++ opt_str pwd in
  [CT_CONNECT * 16] ++ enc_rl (len body) ++ body.

Definition connect_bytes (fx : fixes) (c : cfg) (junk : list Z) : list Z :=
  let '(u, p) := credentials fx c junk in
  connect_packet (client_id c) (will_topic c) s_false u p KEEP_ALIVE.

(* ---------- command parsers ---------- *)
Definition is_digit (c : Z) : bool := (48 <=? c) && (c <=? 57).
Fixpoint digits_val (acc : Z) (l : list Z) : Z := match l with [] => acc | d :: t => digits_val (acc * 10 + (d - 48)) t end.
Fixpoint span_digits (l : list Z) : list Z * list Z :=
  match l with
  | d :: t => if is_digit d then let '(a, b) := span_digits t in (d :: a, b) else ([], l)
  | [] => ([], [])
  end.
(* repaired accumulation: `if (result > (INT_MAX - 9) / 10) error; result = result * 10 + digit` *)
Fixpoint acc_int (acc : Z) (l : list Z) : option Z :=
  match l with [] => Some acc | d :: t => if 214748363 <? acc then None else acc_int (acc * 10 + (d - 48)) t end.
(* supla_esp_mqtt_str2int: None = *err = 1.  Grammar: ['-'] digits ['.' digits]; the value is the integer part.
   Unrepaired code (fx_digits = false): the integer part may be empty ("-", "-.5" read as 0) and the value is summed
   with pow() in floating point (undefined for values that do not fit an int; modelled as the exact value). *)
Definition str2int (fx : fixes) (s : list Z) : option Z :=
  let '(neg, r) := match s with c :: t => if c =? 45 then (true, t) else (false, s) | [] => (false, s) end in
  let '(ip, rest) := span_digits r in
  let ok := match rest with
            | [] => true
            | c :: frac => (c =? 46) && (neg || negb (len ip =? 0)) && forallb is_digit frac
            end in
  if ok then
    if fx_digits fx then
      if len ip =? 0 then None
      else match acc_int 0 ip with Some v => Some (if neg then - v else v) | None => None end
    else Some (if neg then - digits_val 0 ip else digits_val 0 ip)
  else None.

Fixpoint index_of (x : Z) (l : list Z) (i : Z) : option Z :=
  match l with [] => None | y :: t => if y =? x then Some i else index_of x t (i + 1) end.

(* supla_esp_mqtt_parse_int_with_prefix("channels/", 9, ...): (number as stored in uint8, rest of the topic) *)
Definition parse_channel (fx : fixes) (tn : list Z) : option (Z * list Z) :=
  if (len tn <? 9) || negb (list_eqb (take 9 tn) s_channels) then None else
  let t := drop 9 tn in
  match index_of 47 t 0 with
  | None => None
  | Some a =>
    if a =? 0 then None else
    let seg := take a t in let rest := drop (a + 1) t in
    if fx_chan fx then
      if forallb is_digit seg && (digits_val 0 seg <=? 255) then Some (digits_val 0 seg, rest) else None
    else match str2int fx seg with Some v => Some (u8 v, rest) | None => None end
  end.

(* common head of the parsers: guards, prefix, channel *)
Definition parse_head (fx : fixes) (prefix topic msg : list Z) : option (Z * list Z) :=
  if (len topic =? 0) || (len msg =? 0) || (len prefix =? 0) || (len topic <=? len prefix + 1) then None else
  if negb (list_eqb (take (len prefix) topic) prefix) then None else
  if fx_slash fx && negb (nthz topic (len prefix) =? 47) then None else
  parse_channel fx (drop (len prefix + 1) topic).

Definition lc_equal (str msg : list Z) : bool := list_eqb (map lower str) (map lower msg).
Definition s_set_on : list Z := [115;101;116;47;111;110].
Definition s_execute_action : list Z := [101;120;101;99;117;116;101;95;97;99;116;105;111;110].
Definition s_set_closing : list Z := [115;101;116;47;99;108;111;115;105;110;103;95;112;101;114;99;101;110;116;97;103;101].
Definition s_set_tilt : list Z := [115;101;116;47;116;105;108;116].
Definition w_yes := [121;101;115]. Definition w_true := [116;114;117;101]. Definition w_no := [110;111].
Definition w_false := [102;97;108;115;101]. Definition w_turn_on := [116;117;114;110;95;111;110].
Definition w_turn_off := [116;117;114;110;95;111;102;102]. Definition w_toggle := [116;111;103;103;108;101].
Definition w_shut := [115;104;117;116]. Definition w_reveal := [114;101;118;101;97;108]. Definition w_stop := [115;116;111;112].
Definition w_recalibrate := [114;101;99;97;108;105;98;114;97;116;101]. Definition w_calibrate := [99;97;108;105;98;114;97;116;101].

(* supla_esp_mqtt_parser_set_on: Some (channel, on) *)
Definition set_on_cmd (cmd msg : list Z) : option Z :=
  if list_eqb cmd s_set_on then
    if list_eqb msg [49] || lc_equal w_yes msg || lc_equal w_true msg then Some 1
    else if list_eqb msg [48] || lc_equal w_no msg || lc_equal w_false msg then Some 0 else None
  else if list_eqb cmd s_execute_action then
    if lc_equal w_turn_on msg then Some 1 else if lc_equal w_turn_off msg then Some 0
    else if lc_equal w_toggle msg then Some 255 else None
  else None.
Definition parser_set_on (fx : fixes) (prefix topic msg : list Z) : option (Z * Z) :=
  match parse_head fx prefix topic msg with
  | None => None
  | Some (ch, cmd) => match set_on_cmd cmd msg with Some on => Some (ch, on) | None => None end
  end.

(* supla_esp_mqtt_parser_rs_fb_action: Some (channel, action, percentage, tilt) *)
Definition ACT_SHUT := 4. Definition ACT_SHUT_PCT := 5. Definition ACT_REVEAL := 6. Definition ACT_STOP := 7.
Definition ACT_RECALIBRATE := 8. Definition ACT_SET_TILT := 9.
Definition percent (fx : fixes) (msg : list Z) : option Z :=
  match str2int fx msg with Some p => if (0 <=? p) && (p <=? 100) then Some p else None | None => None end.
Definition rs_cmd (fx : fixes) (cmd msg : list Z) : option (Z * Z * Z) :=
  if list_eqb cmd s_set_closing then match percent fx msg with Some p => Some (ACT_SHUT_PCT, p, 0) | None => None end
  else if list_eqb cmd s_set_tilt then match percent fx msg with Some p => Some (ACT_SET_TILT, 0, p) | None => None end
  else if list_eqb cmd s_execute_action then
    if lc_equal w_shut msg then Some (ACT_SHUT, 0, 0) else if lc_equal w_reveal msg then Some (ACT_REVEAL, 0, 0)
    else if lc_equal w_stop msg then Some (ACT_STOP, 0, 0) else if lc_equal w_recalibrate msg then Some (ACT_RECALIBRATE, 0, 0)
    else if lc_equal w_calibrate msg then Some (ACT_RECALIBRATE, 0, 0) else None
  else None.
Definition parser_rs_fb (fx : fixes) (prefix topic msg : list Z) : option (Z * Z * Z * Z) :=
  match parse_head fx prefix topic msg with
  | None => None
  | Some (ch, cmd) => match rs_cmd fx cmd msg with Some (a, p, t) => Some (ch, a, p, t) | None => None end
  end.

(* supla_esp_mqtt_parser_set_brightness (MQTT_DIMMER_SUPPORT): Some (channel, brightness) *)
Definition s_set_brightness : list Z := [115;101;116;47;98;114;105;103;104;116;110;101;115;115].
Definition parser_brightness (fx : fixes) (prefix topic msg : list Z) : option (Z * Z) :=
  match parse_head fx prefix topic msg with
  | None => None
  | Some (ch, cmd) => if list_eqb cmd s_set_brightness
                      then match percent fx msg with Some p => Some (ch, p) | None => None end else None
  end.

(* ---------- supla_esp_mqtt_prepare_val ---------- *)
(* first loop: strips trailing zeros of the fraction, counts the remaining digits; state (v, value, precision, m, n) *)
Fixpoint count_loop (fuel : nat) (v value prec : Z) (m : bool) (n : Z) : Z * Z * Z :=
  match fuel with
  | O => (value, prec, n)
  | S k => if v =? 0 then (value, prec, n)
           else if negb m && (0 <? prec) && (v mod 10 =? 0) then count_loop k (v / 10) (Z.quot value 10) (prec - 1) m n
           else count_loop k (v / 10) value prec true (u8 (n + 1))
  end.
Definition put (b : list Z) (i x : Z) : list Z :=
  if (0 <=? i) && (i <? len b) then take i b ++ [x] ++ drop (i + 1) b else b.
(* second loop: digits from the right; state (buffer, value, precision, n, offset) *)
Fixpoint digit_loop (fuel : nat) (b : list Z) (value prec n off : Z) : list Z :=
  match fuel with
  | O => b
  | S k => if n <=? 0 then b else
           let prec1 := if 0 <? prec then prec - 1 else prec in
           let dot := (0 <? prec) && (prec1 =? 0) in
           let b1 := if dot then put b (n + off - 1) 46 else b in
           let off1 := if dot then u8 (off - 1) else off in
           let b2 := put b1 (n + off1 - 1) (u8 (Z.rem value 10 + 48)) in
           digit_loop k b2 (Z.quot value 10) prec1 (n - 1) off1
  end.
Fixpoint zero_fill (k : nat) (b : list Z) (off : Z) : list Z * Z :=
  match k with O => (b, off) | S j => zero_fill j (put b off 48) (u8 (off + 1)) end.

Definition BUFSZ : Z := 25.
(* the 25-byte buffer after the three loops; v0 = the unsigned magnitude, value0 = `value` as the digit loops see it *)
Definition prepare_buf (minus : bool) (v0 value0 precision : Z) : list Z :=
  let '(value, prec, n) := count_loop 20 v0 value0 precision false 0 in
  let b0 := repeat 85 (Z.to_nat BUFSZ) in
  let b1 := if minus then put b0 0 45 else b0 in
  let off0 := if minus then 1 else 0 in
  let '(b2, off, prec2, n2) :=
    if value =? 0 then (b1, off0, 0, u8 (n + 1))
    else if 0 <? prec then
      if n <=? prec then
        let '(b', o') := zero_fill (Z.to_nat (prec - n)) (put (put b1 off0 48) (off0 + 1) 46) (off0 + 2) in
        (b', o', u8 (prec + 1), n)
      else (b1, off0 + 1, u8 (prec + 1), n)
    else (b1, off0, prec, n) in
  let b3 := put b2 (n2 + off) 0 in
  digit_loop 25 b3 value prec2 n2 off.

Definition prepare_val (fx : fixes) (is_unsigned : bool) (raw : Z) (precision : Z) : list Z :=
  (* raw = the 64 bits of the argument, 0 <= raw < 2^64 *)
  let sval := if raw <? 9223372036854775808 then raw else raw - 18446744073709551616 in
  let minus := negb is_unsigned && (sval <? 0) in
  (* `value` as the digit loops see it: the repaired code works on the unsigned magnitude *)
  let value0 := if fx_uval fx then (if minus then - sval else raw)
                else (if minus then - sval else sval) in
  let v0 := if minus then - sval else raw in
  cstr (prepare_buf minus v0 value0 precision).

(* ---------- wire interface ---------- *)
Record st := { s_cfg : cfg; s_prefix : option (list Z) }.
Definition cfg0 : cfg := {| c_user := zeros EMAIL_MAXSIZE; c_pass := zeros PWD_MAXSIZE; c_prefix := zeros PREFIX_SIZE;
                            c_guid := zeros GUID_SIZE; c_flags := FLAG_ENABLED |}.
Definition cur_prefix (s : st) : list Z := match s_prefix s with Some p => p | None => device_prefix (s_cfg s) end.

Definition step (fx : fixes) (s : st) (w : wire) : st * list wire :=
  match w with (k, a, b) =>
    if k =? 0 then
      if len b =? EMAIL_MAXSIZE + PWD_MAXSIZE + PREFIX_SIZE + GUID_SIZE then
        ({| s_cfg := {| c_user := take EMAIL_MAXSIZE b; c_pass := take PWD_MAXSIZE (drop EMAIL_MAXSIZE b);
                        c_prefix := take PREFIX_SIZE (drop (EMAIL_MAXSIZE + PWD_MAXSIZE) b);
                        c_guid := drop (EMAIL_MAXSIZE + PWD_MAXSIZE + PREFIX_SIZE) b; c_flags := u8 (nth 0 a 0) |};
            s_prefix := s_prefix s |}, [])
      else (s, [])
    else if k =? 1 then (s, [mk 0 [] (device_prefix (s_cfg s)); mk 1 [] (connect_bytes fx (s_cfg s) [])])
    else if k =? 2 then ({| s_cfg := s_cfg s; s_prefix := Some b |}, [])
    else if k =? 3 then
      let tl := nth 0 a 0 in
      match parser_set_on fx (cur_prefix s) (take tl b) (drop tl b) with
      | Some (ch, on) => (s, [mk 2 [1; ch; on] []]) | None => (s, [mk 2 [0; 0; 0] []]) end
    else if k =? 4 then
      let tl := nth 0 a 0 in
      match parser_rs_fb fx (cur_prefix s) (take tl b) (drop tl b) with
      | Some (ch, ac, p, t) => (s, [mk 3 [1; ch; ac; p; t] []]) | None => (s, [mk 3 [0; 0; 0; 0; 0] []]) end
    else if k =? 7 then (s, [])     (* FORM: the configuration page is not part of this model (C14); such cases are judged by the monitor only *)
    else if k =? 6 then
      let tl := nth 0 a 0 in
      match parser_brightness fx (cur_prefix s) (take tl b) (drop tl b) with
      | Some (ch, p) => (s, [mk 5 [1; ch; p] []]) | None => (s, [mk 5 [0; 0; 0] []]) end
    else (s, [mk 4 [] (prepare_val fx (negb (nth 0 a 0 =? 0)) (nth 2 a 0 * 4294967296 + nth 3 a 0) (nth 1 a 0))])
  end.
Fixpoint run_from (fx : fixes) (s : st) (ws : list wire) : list wire :=
  match ws with [] => [] | w :: r => let '(s1, o) := step fx s w in o ++ run_from fx s1 r end.
Definition main_wire (ws : list wire) : list wire := run_from FIXED {| s_cfg := cfg0; s_prefix := None |} ws.
