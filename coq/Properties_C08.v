(* C08 — Roller-shutter motor outputs are interlocked and restarts/reversals are spaced.
   Property theorems only: each is closed by `exact` of a lemma proved in C08/Proofs.v.

   Reading guide.  `run boot n t0 evs` is the list of observable outputs (GPIO edges with their true time,
   delayed-timer armings, OZero markers) of a device with n shutters initialised at true time t0 whose
   32-bit microsecond counter had the value `boot` at boot, for an ARBITRARY list evs of events
     ECall i v sd   any call supla_esp_gpio_rs_set_relay(&supla_rs_cfg[i], v, _, sd)
     ESwap i m      channel config with MotorUpsideDown = m (up/down pointers exchanged)
     EPos i p       the position estimate sits at an end stop (UP / DOWN refused)
     EFire i        the delayed_trigger timer callback, at ANY time while armed (early, late, on time)
     ETime t        true time advances
   (most general client: server commands, tasks, buttons, calibration all reach the pins only through
   such calls, see C08_routing_server and C08_routing_input).  `verdict i outs` folds the monitor of the property text over the edges of
   shutter i: bad_il = some output was raised while the other was on; bad_sp = some output was raised
   less than SPACING_US = 900000 us after an output of the shutter fell. *)
From Coq Require Import List ZArith Bool.
Import ListNotations.
From V Require Import Base.U32 Gen.RsSpacingConsts C08.Model C08.Proofs.
Local Open Scope Z_scope.

(* never both on — any event list, any boot value, old and repaired code alike, no exclusion *)
Theorem C08_interlock : forall og boot n t0 evs i, 0 <= i < n ->
  bad_il (verdict i (init_outs boot n t0 ++ snd (run_from og boot (init boot n t0) evs))) = false.
Proof. exact C08_interlock_thm. Qed.
Print Assumptions C08_interlock.

(* after the outputs fell, none rises for 0.9 s — any event list, any boot value (wrap-around included),
   excluding only runs in which a sampled stamp was exactly 0 (the property's own exclusion).
   Model = code after docs/fixes/C08_rs_wrap.diff. *)
Theorem C08_spacing : forall boot n t0 evs i, 0 <= i < n ->
  no_zero (run boot n t0 evs) -> bad_sp (verdict i (run boot n t0 evs)) = false.
Proof. exact C08_spacing_thm. Qed.
Print Assumptions C08_spacing.

(* routing: a server SET_VALUE / a button event that is NOT turned into a set_relay call can only drive
   a gpio that belongs to no shutter (wf_board: distinct real gpios, both relays of a shutter on one channel) *)
Theorem C08_routing_server : forall b ch r, wf_board b ->
  route_server b ch = APlain r -> ~ shutter_gpio b (relay_gpio b r).
Proof. exact C08_routing_server_thm. Qed.
Print Assumptions C08_routing_server.

Theorem C08_routing_input : forall b port, wf_board b ->
  (route_input b port = ANone \/ exists r, route_input b port = APlain r) -> ~ shutter_gpio b port.
Proof. exact C08_routing_input_thm. Qed.
Print Assumptions C08_routing_input.

Theorem C08_wf_board_swap : forall b k, wf_board b -> wf_board (swap_board b k).
Proof. exact C08_wf_board_swap_thm. Qed.
Print Assumptions C08_wf_board_swap.

(* the traces compared with the C code through the wire interface (ADV fires timers in (due, seq) order)
   are runs of the small events above, i.e. covered by C08_interlock / C08_spacing *)
Theorem C08_wire_traces_are_runs : forall og boot n late ws,
  exists evs, init_outs boot n 0 ++ run_wire og boot late (init boot n 0) ws = run_og og boot n 0 evs.
Proof. exact C08_wire_traces_are_runs_thm. Qed.
Print Assumptions C08_wire_traces_are_runs.

(* the unchanged code (`t >= rs_cfg->stop_time` on the wrapping counter): boot = 2^32 - 3.55 s, UP at 2.0 s,
   STOP at 3.51 s, DOWN at 3.63 s — the down output rises 120 ms after the up output fell; no stamp is 0.
   The repaired code (and the old code with boot = 1) arms the delayed trigger instead. *)
Theorem C08_old_code_refuted :
  let old := run_og true witness_boot 1 0 witness_evs in
  no_zero old /\ bad_sp (verdict 0 old) = true /\
  old = [OGpio 0 2000010 0 1; OGpio 0 3510010 0 0; OGpio 0 3630010 1 1] /\
  run witness_boot 1 0 witness_evs = [OGpio 0 2000010 0 1; OGpio 0 3510010 0 0; OArm 0 3630000 881] /\
  run_og true 1 1 0 witness_evs = [OGpio 0 2000010 0 1; OGpio 0 3510010 0 0; OArm 0 3630000 881].
Proof. exact C08_old_code_refuted_thm. Qed.
Print Assumptions C08_old_code_refuted.

(* the exclusion of the property is necessary: a reversal whose stop stamp is sampled as exactly 0 loses the
   spacing even in the repaired code (one microsecond earlier it does not) *)
Theorem C08_zero_stamp_exclusion_needed :
  let o := run (4294967296 - 3510000) 1 0 zero_evs in
  bad_sp (verdict 0 o) = true /\ In (OZero 0 3510000) o /\ bad_il (verdict 0 o) = false /\
  bad_sp (verdict 0 (run (4294967296 - 3510001) 1 0 zero_evs)) = false.
Proof. exact C08_zero_stamp_exclusion_needed_thm. Qed.
Print Assumptions C08_zero_stamp_exclusion_needed.

(* non-vacuity: a two-shutter run with a reversal, a swap and timer firings across the wrap-around meets the
   hypotheses of C08_spacing and really switches outputs; a well-formed board exists and routes as expected *)
Example C08_nonvacuous :
  let evs := [ETime 2000000; ECall 0 RS_UP 0; ECall 1 RS_DOWN 1; ETime 3510000; ECall 0 RS_DOWN 0; ESwap 1 2;
              ETime 4600000; EFire 0; ECall 1 RS_OFF 1; ETime 9000000; ECall 1 RS_UP 0] in
  let o := run witness_boot 2 0 evs in
  no_zero o /\ bad_sp (verdict 0 o) = false /\ bad_sp (verdict 1 o) = false /\
  filter is_gpio o = [OGpio 0 2000010 0 1; OGpio 1 2010030 1 1; OGpio 0 3510010 0 0; OGpio 0 4600010 1 1;
                      OGpio 1 4610030 1 0; OGpio 1 9000010 1 1].
Proof. vm_compute. repeat split; reflexivity. Qed.
Print Assumptions C08_nonvacuous.

Example C08_routing_nonvacuous :
  let b := mkBoard [(1, 0); (2, 0); (5, 1)] [(0, 1)] in
  route_server b 0 = ASetRelay 0 /\ route_server b 1 = APlain 2 /\ route_server (swap_board b 0) 0 = ASetRelay 0 /\
  route_input b 2 = ASetRelay 0 /\ route_input b 5 = APlain 2 /\ route_input b 9 = ANone.
Proof. vm_compute. repeat split; reflexivity. Qed.
Print Assumptions C08_routing_nonvacuous.
