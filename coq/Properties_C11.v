(* C11 — placeholder while the development is being built *)
From Coq Require Import List ZArith.
From V Require Import C11.Model.
Example C11_placeholder : True. Proof. exact I. Qed.
Print Assumptions C11_placeholder.
