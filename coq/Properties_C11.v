(* C11 — Inputs: glitches are ignored and every real actuation acts exactly once.
   Property theorems only: each is closed by `exact` of a lemma proved in C11/Proofs.v or C11/Machine.v.

   Vocabulary.  `mrun c ms (init c l0)`: the model of the input path (Model.v) after ANY list of
   micro-steps `ms` (time passes / the pin changes level / one timer callback runs / the server
   configures triggers) from the state right after supla_esp_gpio_init with the pin at l0.
   `late s <= J`: in that schedule no armed timer was ever more than J microseconds overdue (lateness of
   the SDK timers, including the ~10 ms the code itself spends in supla_esp_gpio_relay_hi).
   `chg (outs s)`: number of calls of supla_esp_input_notify_state_change with a state different from
   last_state ("recognised changes").  `rst c = true`: the code with docs/fixes/C11_debounce_restart.diff
   (an edge while the sampler runs restarts the count); `rst c = false`: the code as it was. *)
From Coq Require Import List ZArith Bool Lia.
Import ListNotations.
From V Require Import Base.U32 Gen.InputConsts C11.Model C11.Proofs C11.Machine C11.Gesture C11.Gesture2.
Local Open Scope Z_scope.

(* ---- glitches are ignored (repaired code, literal strength) ----
   After ANY edge, whatever the history and the phase of the running sampler, nothing is recognised for
   STABLE_US - J = 100 ms - J; w may contain further edges. *)
Theorem C11_glitch_rejected : forall c l0 J pre v w,
  rst c = true ->
  let s0 := mrun c pre (init c l0) in
  let s1 := mstep c (MIn v) s0 in
  let s2 := mrun c w s1 in
  lvl s0 <> v -> 0 <= J -> late s2 <= J -> now s2 - now s1 < STABLE_US - J ->
  chg (outs s2) = chg (outs s0) /\ last s2 = last s0.
Proof. exact strict_thm. Qed.
Print Assumptions C11_glitch_rejected.

(* Any number of excursions away from the recognised level `old`, each shorter than 100 ms - J, however
   close together and with any quiet times in between (`glitches`), is never recognised. *)
Theorem C11_glitches_rejected : forall c J old s ms,
  rst c = true -> 0 <= J -> WFh c s -> (halted s = false -> lvl s = old /\ last s = stl c old) ->
  glitches c J old s ms -> late (mrun c ms s) <= J ->
  chg (outs (mrun c ms s)) = chg (outs s) /\ last (mrun c ms s) = last s.
Proof. exact glitches_thm. Qed.
Print Assumptions C11_glitches_rejected.

(* Form that also holds for the code before the fix (rst c arbitrary): once the old level has been
   stable (> 120 ms + J), a burst of edges that spans less than ACCEPT_US = 120 ms and ends at the old
   level is not recognised, whatever the lateness during the burst; afterwards the sampler is idle again. *)
Theorem C11_glitch_rejected_idle : forall c l0 J pre qa bu qb,
  let s0 := mrun c pre (init c l0) in
  let s1 := mrun c qa s0 in
  let s2 := mrun c bu s1 in
  let s3 := mrun c qb s2 in
  0 <= J -> late s3 <= J ->
  no_in qa -> now s1 - now s0 > ACCEPT_US + J ->
  now s2 - now s1 < ACCEPT_US -> lvl s2 = lvl s0 ->
  no_in qb ->
  chg (outs s3) = chg (outs s1) /\ last s3 = last s1 /\
  (halted s3 = false -> last s3 = stl c (lvl s0) /\ (now s3 - now s2 > ACCEPT_US + J -> dstep s3 = 0)).
Proof. exact glitch_idle_thm. Qed.
Print Assumptions C11_glitch_rejected_idle.

(* ---- a stable change is recognised exactly once (both variants of the code) ----
   The pin goes to v and stays for more than ACCEPT_US + J = 120 ms + J (so: at least 140 ms when J < 20 ms),
   at whatever phase of the sampler and after any history (`pre`): afterwards the recognised state is v,
   the sampler has stopped, and exactly one notify changed last_state (none if it already was v). *)
Theorem C11_accept_once : forall c l0 J pre v qw,
  let s0 := mrun c pre (init c l0) in
  let s1 := mstep c (MIn v) s0 in
  let s2 := mrun c qw s1 in
  0 <= J -> no_in qw -> late s2 <= J -> now s2 - now s1 > ACCEPT_US + J -> halted s2 = false ->
  last s2 = stl c v /\ dstep s2 = 0 /\ lvl s2 = v /\
  chg (outs s2) = (chg (outs s0) + once (last s0) (stl c v))%nat.
Proof. exact accept_once_thm. Qed.
Print Assumptions C11_accept_once.

(* the numbers of the property text *)
Corollary C11_accept_once_140ms : forall c l0 J pre v qw,
  let s0 := mrun c pre (init c l0) in
  let s1 := mstep c (MIn v) s0 in
  let s2 := mrun c qw s1 in
  0 <= J < 20000 -> no_in qw -> late s2 <= J -> now s2 - now s1 >= 140000 -> halted s2 = false ->
  last s2 = stl c v /\ chg (outs s2) = (chg (outs s0) + once (last s0) (stl c v))%nat.
Proof.
  intros c l0 J pre v qw s0 s1 s2 HJ Hn Hl Hd Hh.
  destruct (accept_once_thm c l0 J pre v qw ltac:(lia) Hn Hl ltac:(fold s0 s1 s2; rewrite accept_us; lia) Hh) as (a & _ & _ & b).
  split; assumption.
Qed.
Print Assumptions C11_accept_once_140ms.
Corollary C11_glitch_rejected_100ms : forall c l0 pre v w,
  rst c = true ->
  let s0 := mrun c pre (init c l0) in
  let s1 := mstep c (MIn v) s0 in
  let s2 := mrun c w s1 in
  lvl s0 <> v -> late s2 <= 0 -> now s2 - now s1 < 100000 ->
  chg (outs s2) = chg (outs s0) /\ last s2 = last s0.
Proof. intros c l0 pre v w Hr s0 s1 s2 Hv Hl Hd. apply (strict_thm c l0 0 pre v w Hr Hv ltac:(lia) Hl). rewrite stable_us. exact Hd. Qed.
Print Assumptions C11_glitch_rejected_100ms.

(* ---- the code before the fix is refuted ----
   seven 1 ms spikes in phase with the 20 ms sampler (7 ms at the active level in total, no timer late)
   toggle the relay; the repaired code ignores them.  Replayed on the real code: corpus/C11/alias_spikes.txt *)
Theorem C11_old_code_refuted :
  filter is_gpio (outs (run (cfg_demo false) 0 alias_evs)) = [OGpio 820010 1] /\
  chg (outs (run (cfg_demo false) 0 alias_evs)) = 2%nat /\
  filter is_gpio (outs (run (cfg_demo true) 0 alias_evs)) = [] /\
  chg (outs (run (cfg_demo true) 0 alias_evs)) = 0%nat /\
  late (run (cfg_demo false) 0 alias_evs) = 0 /\ late (run (cfg_demo true) 0 alias_evs) = 0.
Proof. exact old_code_refuted_thm. Qed.
Print Assumptions C11_old_code_refuted.

(* ---- plain mode: each recognised actuation acts on its relay exactly once ----
   For an input that is not the configuration button, with no action trigger enabled (PlainV: active_triggers = 0,
   button timer idle, relay level 0/1), EVERY micro-step other than a trigger configuration keeps plain mode and
   * if it is an effective notify of state st_ (the sampler's sixth equal sample, silent start-up over, state new):
     the relay wired to the input ends at `plain_expect` — monostable: toggled on the configured edge only,
     bistable: toggled, motion: equal to the state — with exactly one GPIO edge when the level changes, none otherwise;
   * if it is the motion-sensor start-up timer: not constrained here;
   * otherwise: the relay and the list of relay edges are unchanged. *)
Theorem C11_plain_once : forall c m s,
  cfg_btn c = false -> is_trig m = false -> PlainV (view s) ->
  let r := view (mstep c m s) in let v := view s in
  PlainV r /\
  match abs c m s with
  | ANotify st_ =>
      if negb (a_halted v) && effV c st_ v then
        a_last r = st_ /\
        (arelc v = false -> a_relay r = a_relay v /\ gpv r = gpv v) /\
        (arelc v = true ->
          match plain_expect c st_ (a_relay v) with
          | Some h => a_relay r = h /\ gpv r = (if h =? a_relay v then [] else [OGpio (a_now v + RELAY_D1) h]) ++ gpv v
          | None => a_relay r = a_relay v /\ gpv r = gpv v
          end)
      else a_relay r = a_relay v /\ gpv r = gpv v
  | AMot => True
  | _ => a_relay r = a_relay v /\ gpv r = gpv v
  end.
Proof. exact plain_once_thm. Qed.
Print Assumptions C11_plain_once.

(* ---- the executable scheduler that is compared with the C code only composes micro-steps, and the
   machine-level theorems speak about it through `view` ---- *)
Theorem C11_run_is_a_schedule : forall c l0 evs, run c l0 evs = mrun c (rev (tr (run c l0 evs))) (init c l0).
Proof. exact run_is_mrun. Qed.
Print Assumptions C11_run_is_a_schedule.
Theorem C11_machine_simulation : forall c ms s, cfg_btn c = false -> forallb (fun m => negb (is_trig m)) ms = true ->
  view (mrun c ms s) = arun c (atrace c ms s) (view s).
Proof. intros; apply sim_run; assumption. Qed.
Print Assumptions C11_machine_simulation.

(* ---- non-vacuity: concrete schedules meet the hypotheses ---- *)
Example C11_nonvacuous :
  let c := cfg_demo true in
  (* a press held 140 ms, no lateness: recognised once, relay toggled once *)
  let s := run c 0 [EAdv 700000; EIn 1; EAdv 140000] in
  let pre := rev (tr (run c 0 [EAdv 700000])) in
  let qw := skipn (S (length pre)) (rev (tr s)) in
  rev (tr s) = pre ++ MIn 1 :: qw /\ forallb (fun m => negb (is_in m)) qw = true /\ late s = 0 /\
  now s - now (mstep c (MIn 1) (mrun c pre (init c 0))) = 140000 /\ halted s = false /\
  last s = 1 /\ chg (outs s) = 1%nat /\ filter is_gpio (outs s) = [OGpio 820010 1] /\
  (* a 99 ms pulse: hypotheses of C11_glitch_rejected_100ms hold, nothing recognised *)
  let g := run c 0 [EAdv 700000; EIn 1; EAdv 99000] in
  late g = 0 /\ chg (outs g) = 0%nat /\ now g = 799000.
Proof. vm_compute. repeat split; reflexivity. Qed.
Print Assumptions C11_nonvacuous.

(* ---- action-trigger mode: one gesture, at most one click-count trigger ----
   Monostable button (not the configuration button), at rest in action-trigger mode with active triggers A,
   highest enabled multiplicity M >= 2 (max_clicks as set by supla_esp_input_set_active_triggers).  The schedule `ms`
   (no trigger re-configuration inside) is a gesture of N = 1 + |cl| clicks: its notifies alternate press / release
   (`gtrace`), everything between them is idle (time, sampler ticks that do not notify, button-timer callbacks);
   `gok`: the first press is shorter than HOLD_US, each release -> next press gap (between the notifies) is shorter than
   MULTICLICK_US (and longer than a timer period + J), and the last release is followed by MULTICLICK_US + CYCLE_US + J of
   silence; no timer more than J late.  Then (`verdict`) the machine is at rest again and the click-count / hold
   triggers sent during the gesture are exactly
     - PRESS_x M once                      if N >= M (sent right after the M-th release; later clicks are ignored),
     - nothing, one local relay action     if N = 1 and the relay is still wired to the input (x1 not enabled),
     - PRESS_x N once (if enabled in A)    otherwise;
   and no local relay action happens in the first and third case (`loc` unchanged).
   `xt t k` is [] when PRESS_xk is not enabled or the input has no channel.
   The long press is C11_at_hold below; the same two statements for ANY monostable input (configuration button
   included) are C11_at_single_trigger_any / C11_at_hold_any; bistable inputs: C11_at_bistable; highest multiplicity <= 1:
   C11_at_max1_*; motion sensors: C11_at_motion_*.  (second part of this file) *)
Theorem C11_at_single_trigger : forall c A M g rl J ms s x cl nw ls si td ta ou,
  is_mono c = true -> cfg_btn c = false -> A <> 0 -> 2 <= M -> CYCLE_US + J < MULTICLICK_US ->
  forallb (fun m => negb (is_trig m)) ms = true ->
  view s = mkmv nw ST_INACTIVE 0 M A g ls si false td ta rl false ou ->
  asilent_ret c (view s) = false ->
  atrace c ms s = gtrace (x :: cl) -> Z.of_nat (length (x :: cl)) < 99 ->
  gok c J true (view s) (x :: cl) ->
  pend s <= J -> late (mrun c ms s) <= J -> now (mrun c ms s) - now s < TWO32 ->
  verdict c A M g (Z.of_nat (length (x :: cl))) (filter famo (outs s)) (filter isloc (outs s)) (view (mrun c ms s)).
Proof. exact at_single_trigger_thm. Qed.
Print Assumptions C11_at_single_trigger.

(* the long press: pressed from rest for at least HOLD_US + CYCLE_US + J, released, then silence: the machine is at rest
   again and the only click-count / hold trigger of the gesture is HOLD (`ht t` = [] when HOLD is not enabled or the
   input has no channel); no local relay action *)
Theorem C11_at_hold : forall c A M g rl J ms s iPl iRl nw ls si td ta ou,
  is_mono c = true -> cfg_btn c = false -> A <> 0 -> 2 <= M -> 0 <= J -> CYCLE_US + J < MULTICLICK_US ->
  forallb (fun m => negb (is_trig m)) ms = true ->
  view s = mkmv nw ST_INACTIVE 0 M A g ls si false td ta rl false ou ->
  asilent_ret c (view s) = false ->
  atrace c ms s = ANotify ST_ACTIVE :: iPl ++ ANotify ST_INACTIVE :: iRl -> all_idle iPl -> all_idle iRl ->
  let v1 := arun c iPl (aact c (ANotify ST_ACTIVE) (view s)) in
  HOLD_US + CYCLE_US + J <= a_now v1 - now s ->
  MULTICLICK_US + CYCLE_US + J <= now (mrun c ms s) - a_now v1 ->
  pend s <= J -> late (mrun c ms s) <= J -> now (mrun c ms s) - now s < TWO32 ->
  exists t, ZSt A M g (ht c A t ++ filter famo (outs s)) (filter isloc (outs s)) (view (mrun c ms s)).
Proof. exact at_hold_thm. Qed.
Print Assumptions C11_at_hold.

(* non-vacuity: three quick clicks with x2 and x3... here M = 2 (HOLD | x2 enabled): exactly one PRESS_x2 *)
Definition ex_c : cfgT :=
  {| boot := 1; typ := TYPE_MONOSTABLE; flags := 0; rel := true; chan := 1;
     cap := CAP_HOLD + CAP_PRESS_x1 + CAP_PRESS_x2 + CAP_PRESS_x3 + CAP_PRESS_x4 + CAP_PRESS_x5; rst := true |}.
Definition ex_click : list event := [EIn 1; EAdv 200000; EIn 0; EAdv 200000].
Definition ex_evs : list event := [EAdv 700000; ETrig (CAP_HOLD + CAP_PRESS_x2)] ++ ex_click ++ ex_click ++ ex_click ++ [EAdv 700000].
Definition ex_full : list micro := rev (tr (run ex_c 0 ex_evs)).
(* index of the micro-step that recognises the first press *)
Fixpoint first_press (c : cfgT) (ms : list micro) (s : st) (i : nat) : nat :=
  match ms with
  | [] => i
  | m :: r => match abs c m s with
              | ANotify st_ => if (st_ =? ST_ACTIVE) && negb (act s =? 0) then i else first_press c r (mstep c m s) (S i)
              | _ => first_press c r (mstep c m s) (S i)
              end
  end.
(* cut an abstract trace into clicks *)
Fixpoint cut (l : list astep) (cur : list astep) (pressed : bool) (x : option (list astep)) : list clk :=
  match l with
  | [] => match x with Some p => [{| iP := p; iR := rev cur |}] | None => [] end
  | ANotify st_ :: r =>
      if st_ =? ST_ACTIVE then
        match x with Some p => {| iP := p; iR := rev cur |} :: cut r [] true None | None => cut r [] true None end
      else cut r [] false (Some (rev cur))
  | a :: r => cut r (a :: cur) pressed x
  end.
Example C11_at_nonvacuous :
  let i := first_press ex_c ex_full (init ex_c 0) 0 in
  let s := mrun ex_c (firstn i ex_full) (init ex_c 0) in
  let ms := skipn i ex_full in
  let cl := cut (atrace ex_c ms s) [] false None in
  let A := CAP_HOLD + CAP_PRESS_x2 in
  gtrace cl = atrace ex_c ms s /\ length cl = 3%nat /\
  forallb (fun m => negb (is_trig m)) ms = true /\
  view s = mkmv (now s) ST_INACTIVE 0 2 A RELAY_GPIO (lsc s) (silent s) false (t_due s) (t_adv s) 0 false (outs s) /\
  asilent_ret ex_c (view s) = false /\ gok ex_c 0 true (view s) cl /\ pend s <= 0 /\ late (mrun ex_c ms s) <= 0 /\
  filter famo (outs (mrun ex_c ms s)) = [OTrig 1440000 1 CAP_PRESS_x2] /\ filter isloc (outs (mrun ex_c ms s)) = [].
Proof. vm_compute. repeat split; try reflexivity; intros; try discriminate; try congruence. Qed.
Print Assumptions C11_at_nonvacuous.


(* ==================================================================================================================
   Second part: the configurations the first part left open
   ================================================================================================================== *)

(* ---- plain mode, all steps: a trigger configuration never moves the relay (and leaves plain mode exactly when it enables
   something); the motion-sensor start-up timer sets the wired relay to the recognised state ---- *)
Theorem C11_plain_once_all : forall c m s,
  cfg_btn c = false -> PlainV (view s) -> halted s = false ->
  let r := view (mstep c m s) in let v := view s in
  match m with
  | MTrig mask => a_relay r = a_relay v /\ gpv r = gpv v /\ a_ton r = false /\ a_act r = Z.land (cap c) mask
  | _ =>
    PlainV r /\
    match abs c m s with
    | ANotify st_ =>
        if effV c st_ v then
          a_last r = st_ /\
          (arelc v = false -> a_relay r = a_relay v /\ gpv r = gpv v) /\
          (arelc v = true ->
            match plain_expect c st_ (a_relay v) with
            | Some h => a_relay r = h /\ gpv r = (if h =? a_relay v then [] else [OGpio (a_now v + RELAY_D1) h]) ++ gpv v
            | None => a_relay r = a_relay v /\ gpv r = gpv v
            end)
        else a_relay r = a_relay v /\ gpv r = gpv v
    | AMot =>
        a_last v = ST_ACTIVE \/ a_last v = ST_INACTIVE ->
        if arelc v && is_motion c then
          a_relay r = a_last v /\ gpv r = (if a_last v =? a_relay v then [] else [OGpio (a_now v + RELAY_D1) (a_last v)]) ++ gpv v
        else a_relay r = a_relay v /\ gpv r = gpv v
    | _ => a_relay r = a_relay v /\ gpv r = gpv v
    end
  end.
Proof. exact plain_all_thm. Qed.
Print Assumptions C11_plain_once_all.

(* ---- plain mode of ANY input, the configuration button included (PlainC: active_triggers = 0, relay level 0/1, the button
   timer - if armed - is the legacy one).  Every micro-step other than a trigger configuration either enters configuration
   mode (10th toggle / 5 s hold; relay untouched, case over) or keeps plain mode and acts on the relay exactly as above. ---- *)
Theorem C11_plain_once_cfg : forall c m s,
  is_trig m = false -> PlainC (view s) -> halted s = false ->
  let r := view (mstep c m s) in let v := view s in
  (a_halted r = true /\ a_relay r = a_relay v /\ gpv r = gpv v) \/
  (a_halted r = false /\ PlainC r /\
   match abs c m s with
   | ANotify st_ =>
       if effV c st_ v then
         a_last r = st_ /\
         (arelc v = false -> a_relay r = a_relay v /\ gpv r = gpv v) /\
         (arelc v = true ->
           match plain_expect c st_ (a_relay v) with
           | Some h => a_relay r = h /\ gpv r = (if h =? a_relay v then [] else [OGpio (a_now v + RELAY_D1) h]) ++ gpv v
           | None => a_relay r = a_relay v /\ gpv r = gpv v
           end)
       else a_relay r = a_relay v /\ gpv r = gpv v
   | AMot => True
   | _ => a_relay r = a_relay v /\ gpv r = gpv v
   end).
Proof. exact plain_cfg_thm. Qed.
Print Assumptions C11_plain_once_cfg.

(* ---- the scheduler's fuel is not an assumption: an ADV step ends in configuration mode, or with no armed timer due any
   more (= the double's v_advance), or with FAULT as the newest output; and C11_run_is_a_schedule holds whatever the fuel ---- *)
Theorem C11_scheduler_complete : forall c s dt,
  let s' := estep c s (EAdv dt) in
  halted s' = true \/ pick s' (now s + dt) = None \/ exists l, outs s' = OFault :: l.
Proof. exact adv_complete. Qed.
Print Assumptions C11_scheduler_complete.

(* ---- action-trigger mode, any monostable input: also the configuration button, as long as the gesture does not itself
   enter configuration mode (fewer than CFG_PRESS_COUNT clicks when toggles count, every press shorter than
   CFG_PRESS_US when the hold counts) ---- *)
Theorem C11_at_single_trigger_any : forall c A M g rl J ms s x cl nw ls si td ta ou,
  is_mono c = true -> A <> 0 -> 2 <= M -> CYCLE_US + J < MULTICLICK_US ->
  forallb (fun m => negb (is_trig m)) ms = true ->
  view s = mkmv nw ST_INACTIVE 0 M A g ls si false td ta rl false ou ->
  asilent_ret c (view s) = false ->
  atrace c ms s = gtrace (x :: cl) -> Z.of_nat (length (x :: cl)) < 99 ->
  gok c J true (view s) (x :: cl) ->
  pend s <= J -> late (mrun c ms s) <= J -> now (mrun c ms s) - now s < TWO32 ->
  (on_toggle_en c = false \/ Z.of_nat (length (x :: cl)) < CFG_PRESS_COUNT) ->
  (on_hold_en c = false \/ gshort c (view s) (x :: cl)) ->
  verdict c A M g (Z.of_nat (length (x :: cl))) (filter famo (outs s)) (filter isloc (outs s)) (view (mrun c ms s)).
Proof. exact at_single_trigger_cfg_thm. Qed.
Print Assumptions C11_at_single_trigger_any.
Theorem C11_at_hold_any : forall c A M g rl J ms s iPl iRl nw ls si td ta ou,
  is_mono c = true -> A <> 0 -> 2 <= M -> 0 <= J -> CYCLE_US + J < MULTICLICK_US ->
  forallb (fun m => negb (is_trig m)) ms = true ->
  view s = mkmv nw ST_INACTIVE 0 M A g ls si false td ta rl false ou ->
  asilent_ret c (view s) = false ->
  atrace c ms s = ANotify ST_ACTIVE :: iPl ++ ANotify ST_INACTIVE :: iRl -> all_idle iPl -> all_idle iRl ->
  let v1 := arun c iPl (aact c (ANotify ST_ACTIVE) (view s)) in
  HOLD_US + CYCLE_US + J <= a_now v1 - now s ->
  MULTICLICK_US + CYCLE_US + J <= now (mrun c ms s) - a_now v1 ->
  pend s <= J -> late (mrun c ms s) <= J -> now (mrun c ms s) - now s < TWO32 ->
  (on_hold_en c = false \/ a_now v1 - now s < CFG_PRESS_US) ->
  exists t, ZSt A M g (ht c A t ++ filter famo (outs s)) (filter isloc (outs s)) (view (mrun c ms s)).
Proof. exact at_hold_cfg_thm. Qed.
Print Assumptions C11_at_hold_any.

(* ---- bistable inputs (TOGGLE_x1..x5), configuration button included: N >= 1 quick flips from rest in either position,
   then silence (`btrace` / `bok`: consecutive recognised changes less than MULTICLICK_US and more than a timer period
   + J apart, then MULTICLICK_US + CYCLE_US + J of silence).  At rest again in the last position and (bverdict)
   TOGGLE_x M once if N >= M; nothing but one local action if N = 1 and the relay is wired; else TOGGLE_x N (if enabled).
   TURN_ON / TURN_OFF of the individual changes are not click-count triggers and are not counted. ---- *)
Theorem C11_at_bistable : forall c A M g rl J ms s i fl la0 nw ls si td ta ou,
  is_bi c = true -> A <> 0 -> 2 <= M -> CYCLE_US + J < MULTICLICK_US -> notrig ms ->
  view s = mkmv nw la0 0 M A g ls si false td ta rl false ou -> (la0 = ST_ACTIVE \/ la0 = ST_INACTIVE) ->
  asilent_ret c (view s) = false ->
  atrace c ms s = btrace (opp la0) (i :: fl) -> Z.of_nat (length (i :: fl)) < 99 ->
  bok c J (view s) (opp la0) (i :: fl) ->
  pend s <= J -> late (mrun c ms s) <= J -> now (mrun c ms s) - now s < TWO32 ->
  (on_toggle_en c = false \/ Z.of_nat (length (i :: fl)) < CFG_PRESS_COUNT) ->
  bverdict c A M g (Z.of_nat (length (i :: fl))) (lastpos la0 (i :: fl)) (filter famo (outs s)) (filter isloc (outs s))
           (view (mrun c ms s)).
Proof. exact at_bistable_cfg_thm. Qed.
Print Assumptions C11_at_bistable.

(* ---- highest enabled multiplicity <= 1 (max_clicks 0 or 1).  The literal reading "N quick clicks produce at most one
   trigger" is REFUTED: every click is a gesture of its own and is reported at once (witness: two flips 200 ms apart, only
   TOGGLE_x1 enabled: two TOGGLE_x1; replay corpus/C11/at_max1_two_flips.txt; the repo test BistableTurnOnOffAndTogglex1
   pins it).  What holds: ONE click from rest is reported exactly once - one local relay action if the relay is wired,
   else x1 if enabled (IFin) - within one timer period + J after it was recognised, and the machine is at rest again. ---- *)
Theorem C11_at_max1_literal_refuted :
  filter famo (outs (run cfg_bi1 0 max1_evs)) = [OTrig 1040000 1 CAP_TOGGLE_x1; OTrig 840000 1 CAP_TOGGLE_x1] /\
  maxc (run cfg_bi1 0 max1_evs) = 1 /\ late (run cfg_bi1 0 max1_evs) = 0.
Proof. exact max1_literal_refuted_thm. Qed.
Print Assumptions C11_at_max1_literal_refuted.
Theorem C11_at_max1_bistable : forall c A M g rl J ms s i la0 nw ls si td ta ou,
  is_bi c = true -> A <> 0 -> M <= 1 -> CYCLE_US + J < MULTICLICK_US -> notrig ms ->
  view s = mkmv nw la0 0 M A g ls si false td ta rl false ou -> (la0 = ST_ACTIVE \/ la0 = ST_INACTIVE) ->
  asilent_ret c (view s) = false ->
  atrace c ms s = ANotify (opp la0) :: i -> all_idle i ->
  pend s <= J -> late (mrun c ms s) <= J -> CYCLE_US + J < now (mrun c ms s) - now s < TWO32 ->
  IFin c (opp la0) A M g 1 (filter famo (outs s)) (filter isloc (outs s)) (view (mrun c ms s)).
Proof. exact at_bistable_max1_thm. Qed.
Print Assumptions C11_at_max1_bistable.
Theorem C11_at_max1_mono : forall c A M g rl J ms s iPl iRl nw ls si td ta ou,
  is_mono c = true -> A <> 0 -> M <= 1 -> CYCLE_US + J < MULTICLICK_US -> notrig ms ->
  view s = mkmv nw ST_INACTIVE 0 M A g ls si false td ta rl false ou ->
  asilent_ret c (view s) = false ->
  atrace c ms s = ANotify ST_ACTIVE :: iPl ++ ANotify ST_INACTIVE :: iRl -> all_idle iPl -> all_idle iRl ->
  let v1 := arun c iPl (aact c (ANotify ST_ACTIVE) (view s)) in
  a_now v1 - now s < HOLD_US -> CYCLE_US + J < now (mrun c ms s) - a_now v1 ->
  pend s <= J -> late (mrun c ms s) <= J -> now (mrun c ms s) - now s < TWO32 ->
  IFin c ST_INACTIVE A M g 1 (filter famo (outs s)) (filter isloc (outs s)) (view (mrun c ms s)).
Proof. exact at_mono_max1_thm. Qed.
Print Assumptions C11_at_max1_mono.

(* ---- motion sensors in action-trigger mode (only TURN_ON / TURN_OFF exist).  One recognised change (any max_clicks,
   configuration button included, counter k not -1): the view right after it is `mo_after_k`, i.e. (C11_at_motion_effect)
   no click-count trigger, TURN_ON / TURN_OFF exactly when enabled, the wired relay follows exactly when that trigger is
   not enabled (one GPIO edge iff the level changes); the button timer never sends anything nor moves the relay; with
   max_clicks <= 1 the machine is at rest again one timer period + J later with nothing else sent (C11_at_motion). ---- *)
Theorem C11_at_motion_notify : forall c A M g rl s st_ la k nw ls si tn td ta ou,
  is_motion c = true -> A <> 0 ->
  view s = mkmv nw la k M A g ls si tn td ta rl false ou ->
  (st_ = ST_ACTIVE \/ st_ = ST_INACTIVE) -> la <> st_ -> 0 <= k <= 100 ->
  (on_toggle_en c = false \/ k + 1 < CFG_PRESS_COUNT) -> asilent_ret c (view s) = false ->
  abs c MDeb s = ANotify st_ ->
  view (mstep c MDeb s) = mo_after_k c A M g rl k st_ la nw ou.
Proof. exact at_motion_notify_thm. Qed.
Print Assumptions C11_at_motion_notify.
Theorem C11_at_motion_effect : forall c A M g rl st_ la nw ou,
  filter famo (a_outs (mo_after c A M g rl st_ la nw ou)) = filter famo ou /\
  a_relay (mo_after c A M g rl st_ la nw ou) = (if follows A g st_ then st_ else rl) /\
  filter is_gpio (a_outs (mo_after c A M g rl st_ la nw ou)) =
    (if follows A g st_ && negb (st_ =? rl) then [OGpio (nw + RELAY_D1) st_] else []) ++ filter is_gpio ou /\
  (follows A g st_ = true -> trig_out c A nw (cap_of st_) = []).
Proof. exact mo_after_outs. Qed.
Print Assumptions C11_at_motion_effect.
Theorem C11_at_motion_timer : forall c s, is_motion c = true ->
  relay (mstep c MTim s) = relay s /\ outs (mstep c MTim s) = outs s /\ halted (mstep c MTim s) = halted s /\
  last (mstep c MTim s) = last s.
Proof. exact at_motion_timer_thm. Qed.
Print Assumptions C11_at_motion_timer.
Theorem C11_at_motion : forall c A M g rl J ms s st_ la l nw ls si td ta ou,
  is_motion c = true -> A <> 0 -> M <= 1 -> 0 <= J -> CYCLE_US + J < MULTICLICK_US -> notrig ms ->
  view s = mkmv nw la 0 M A g ls si false td ta rl false ou ->
  (st_ = ST_ACTIVE \/ st_ = ST_INACTIVE) -> la <> st_ -> asilent_ret c (view s) = false ->
  atrace c ms s = ANotify st_ :: l -> forallb idle_m l = true ->
  let v1 := aact c (ANotify st_) (view s) in
  pend s <= J -> late (mrun c ms s) <= J ->
  CYCLE_US + J < now (mrun c ms s) - a_now v1 -> now (mrun c ms s) - a_now v1 < TWO32 ->
  v1 = mo_after c A M g rl st_ la nw (outs s) /\
  MSt c A M g st_ false (a_now v1) (if follows A g st_ then st_ else rl) (a_outs v1) (view (mrun c ms s)).
Proof. exact at_motion_thm. Qed.
Print Assumptions C11_at_motion.
