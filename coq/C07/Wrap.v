(* C07 — counter wraps: the hypotheses of the general theorems (suffix _w: at most WB wraps since the last boot, every
   reading of the clock less than one counter period after the previous one) are decidable on concrete histories; a
   history in which a timer runs across a wrap meets them, and does not meet the plain no-wrap hypothesis. *)
From Coq Require Import List ZArith Lia Bool.
Import ListNotations.
From V Require Import Base.U32 Base.Bytes Base.Iface Gen.RelayConsts C07.Model C07.Proofs.
Local Open Scope Z_scope.

Definition polledb (l : list out) : bool :=
  forallb (fun o => match o with GPoll p a => a - p <? 4294967296 | _ => true end) l.
Lemma polledb_ok l : polledb l = true -> Polled l.
Proof.
  intros H p a Hin. unfold polledb in H. rewrite forallb_forall in H. specialize (H _ Hin). cbn in H. apply Z.ltb_lt in H. exact H.
Qed.
Definition nwwb (w : Z) (s : st) : bool := (cnt0 s + (now s - tb s) <? (w + 1) * 4294967296) && polledb (outs s).
Lemma nwwb_ok {wr : Wraps} s : nwwb WB s = true -> NWw s.
Proof.
  unfold nwwb. intros H. apply andb_true_iff in H. destruct H as [A B]. apply Z.ltb_lt in A.
  split; [exact A|right; apply polledb_ok; exact B].
Qed.
Definition nwwrunb (w : Z) (e : bool) (c : cfg) (evs : list ev) : bool :=
  forallb (fun k => nwwb w (run_from e c (start e c) (firstn k evs))) (seq 0 (S (length evs))).
Lemma nwwrunb_ok {wr : Wraps} e c evs :
  forallb (fun k => nwwb WB (run_from e c (start e c) (firstn k evs))) (seq 0 (S (length evs))) = true ->
  NWwrun e c (start e c) evs.
Proof.
  intros H k. pose proof (proj1 (forallb_forall _ _) H) as H'. clear H.
  rewrite (firstn_min k evs). apply nwwb_ok. apply (H' (Nat.min k (length evs))). apply in_seq. lia.
Qed.

(* the counter reads 2^32 - 500000 at boot: it wraps 0.5 s later, while "on for 2000 ms" (channel 0) is running;
   "on for 400 ms" (channel 1) ends before the wrap *)
Definition one_wrap : Wraps := {| WB := 1; WB_range := conj (Z.le_0_1) eq_refl |}.
Definition wrap_cfg : cfg :=
  {| c_boot := 4294967296 - 500000; c_boot2 := 1; c_sbt := 0; c_lateflags := false; c_relays := [rl 4 0 0 0; rl 5 1 0 0];
     c_time2 := []; c_late := [] |}.
Definition wrap_evs : list ev := [ESet 0 1 2000 1; ESet 1 1 400 1; EAdv 3000000].
Lemma wrap_witness_thm :
  wf_cfg wrap_cfg /\ Forall wf_ev wrap_evs /\ @NWwrun one_wrap true wrap_cfg (start true wrap_cfg) wrap_evs /\
  Slack 0 (outs (run_from true wrap_cfg (start true wrap_cfg) wrap_evs)) /\
  ~ NW (run_from true wrap_cfg (start true wrap_cfg) wrap_evs) /\
  gpio_edges (run true wrap_cfg wrap_evs) 4 = [(10, 1); (2002050, 0)] /\
  gpio_edges (run true wrap_cfg wrap_evs) 5 = [(10030, 1); (410030, 0)] /\
  (* the switch-backs; the last two fields are the readings of the device clock at arming and at the switch-back *)
  filter (fun o => match o with GFinish _ _ _ _ _ _ _ => true | _ => false end) (run true wrap_cfg wrap_evs) =
    [GFinish 410020 1 0 10020 400 4294477 4294877; GFinish 2002040 0 0 0 2000 4294467 4296469].
Proof.
  split; [apply wf_cfgb_ok; vm_compute; reflexivity|]. split; [apply wf_evsb_ok; vm_compute; reflexivity|].
  split; [apply (@nwwrunb_ok one_wrap); vm_compute; reflexivity|]. split; [apply slackb_ok; vm_compute; reflexivity|].
  split; [unfold NW; vm_compute; intros H; discriminate|].
  split; [vm_compute; reflexivity|]. split; [vm_compute; reflexivity|].
  vm_compute; reflexivity.
Qed.
