From Coq Require Import Extraction ExtrOcamlBasic.
From V Require Import C07.Model.
Extraction Language OCaml.
Extraction "model.ml" main_wire run_wire.
