(* C07 — restart: the whole restore loop of supla_esp_gpio_init (every relay, in order), not one relay at a time.
   A structural relation K (what an operation may touch: pins, saved relay bytes, saved remaining times, slot table)
   is walked over every operation; the loop is then an induction whose invariant keeps the RAM copy of the state
   sector intact for the relays still to come and the result of the relays already handled. *)
From Coq Require Import List ZArith Lia Bool.
Import ListNotations.
From V Require Import Base.U32 Base.Bytes Base.Iface Gen.RelayConsts C07.Model C07.Proofs.
Local Open Scope Z_scope.

(* ---------- lists, lookups ---------- *)
Lemma getz_setz_ne (l : list Z) i j v : i <> j -> getz (setz l i v) j = getz l j.
Proof.
  intros Ne. unfold getz, setz. destruct (j <? 0) eqn:Ej; [reflexivity|]. destruct (i <? 0) eqn:Ei; [reflexivity|].
  apply nth_upd_ne. apply Z.ltb_ge in Ej, Ei. intros E. apply Ne. apply Z2Nat.inj; auto.
Qed.
Lemma enum_app {A} (l1 l2 : list A) : forall i, enum i (l1 ++ l2) = enum i l1 ++ enum (i + Z.of_nat (length l1)) l2.
Proof.
  induction l1 as [|x l1 IH]; intros i; cbn [enum app length].
  - rewrite Z.add_0_r. reflexivity.
  - rewrite IH. rewrite Nat2Z.inj_succ. replace (i + 1 + Z.of_nat (length l1)) with (i + Z.succ (Z.of_nat (length l1))) by lia. reflexivity.
Qed.
Lemma enum_range {A} (l : list A) : forall i a r, In (a, r) (enum i l) -> i <= a < i + Z.of_nat (length l) /\ In r l.
Proof.
  induction l as [|x l IH]; intros i a r H; cbn [enum] in H; [contradiction|]. cbn [length]. rewrite Nat2Z.inj_succ.
  destruct H as [E|H]. - injection E as <- <-. split; [lia|left; reflexivity].
  - apply IH in H. split; [lia|right; tauto].
Qed.
Lemma find_gpio_enum rs : NoDup (map r_gpio rs) -> forall i a r, In (a, r) (enum i rs) -> find_gpio rs i (r_gpio r) = Some (a, r).
Proof.
  induction rs as [|x rs IH]; intros ND i a r H; [contradiction|]. cbn [find_gpio]. cbn [map] in ND. inversion ND as [|? ? Nin ND']; subst.
  cbn [enum] in H. destruct H as [E|H].
  - injection E as <- <-. rewrite Z.eqb_refl. reflexivity.
  - destruct (r_gpio x =? r_gpio r) eqn:E.
    + apply Z.eqb_eq in E. exfalso. apply Nin. rewrite E. apply in_map. apply (enum_range _ _ _ _ H).
    + apply IH; auto.
Qed.
Lemma find_chan_enum rs : NoDup (map r_chan rs) -> forall i a r, In (a, r) (enum i rs) -> find_chan rs i (r_chan r) = Some (a, r).
Proof.
  induction rs as [|x rs IH]; intros ND i a r H; [contradiction|]. cbn [find_chan]. cbn [map] in ND. inversion ND as [|? ? Nin ND']; subst.
  cbn [enum] in H. destruct H as [E|H].
  - injection E as <- <-. rewrite Z.eqb_refl. reflexivity.
  - destruct (r_chan x =? r_chan r) eqn:E.
    + apply Z.eqb_eq in E. exfalso. apply Nin. rewrite E. apply in_map. apply (enum_range _ _ _ _ H).
    + apply IH; auto.
Qed.
Lemma in_enum {A} (l : list A) : forall i r, In r l -> exists a, In (a, r) (enum i l).
Proof.
  induction l as [|x l IH]; intros i r H; [contradiction|]. destruct H as [<-|H].
  - exists i. left. reflexivity.
  - destruct (IH (i + 1) r H) as (a & Ha). exists a. right. exact Ha.
Qed.
Lemma getz_map_enum {A} (f : A -> Z) (l : list A) : forall i a r, In (a, r) (enum i l) -> 0 <= i -> getz (map f l) (a - i) = f r.
Proof.
  induction l as [|x l IH]; intros i a r H Hi; [contradiction|]. cbn [enum] in H. destruct H as [E|H].
  - injection E as <- <-. rewrite Z.sub_diag. reflexivity.
  - pose proof (enum_range _ _ _ _ H) as [R _]. specialize (IH (i + 1) a r H ltac:(lia)).
    unfold getz in *. destruct (a - i <? 0) eqn:E1; [apply Z.ltb_lt in E1; lia|].
    destruct (a - (i + 1) <? 0) eqn:E2; [apply Z.ltb_lt in E2; lia|].
    replace (Z.to_nat (a - i)) with (S (Z.to_nat (a - (i + 1)))) by lia. cbn [map nth]. exact IH.
Qed.

(* ---------- pins ---------- *)
Lemma pin_gpio_write_ne port v s p : p <> port -> pin (gpio_write port v s) p = pin s p.
Proof.
  intros Ne. unfold gpio_write. destruct (Bool.eqb _ _); auto.
  unfold pin. cbn [gout emit set_outs set_gout].
  destruct (Z.ltb_spec port 0) as [Hn|Hp].
  - destruct v; [rewrite Z.setbit_spec'|rewrite Z.clearbit_spec']; rewrite Z.pow_neg_r by lia; [rewrite Z.lor_0_r|rewrite Z.ldiff_0_r]; reflexivity.
  - destruct v; [apply Z.setbit_neq|apply Z.clearbit_neq]; auto.
Qed.
Lemma pin_relay_hi_ne c port hi s p : p <> port -> pin (relay_hi c port hi s) p = pin s p.
Proof.
  intros Ne. unfold relay_hi.
  assert (K : forall b, pin (delay_us 10 (delay_us DOUBLE_TRY_US (gpio_write port b (delay_us 10 s)))) p = pin s p).
  { intros b. unfold pin. cbn [gout delay_us set_now]. apply (pin_gpio_write_ne port b (delay_us 10 s) p Ne). }
  destruct (find_gpio _ _ _) as [[a r]|]; [|apply K]. destruct (_ || _); [|apply K].
  unfold pin in *. rewrite gout_save_state. cbn [gout set_ram_relay]. apply K.
Qed.
Lemma ram_save_state ms s : ram_relay (save_state ms s) = ram_relay s /\ ram_t2 (save_state ms s) = ram_t2 s.
Proof. unfold save_state. destruct (0 <? ms); split; reflexivity. Qed.
Lemma ram_gpio_write port v s : ram_relay (gpio_write port v s) = ram_relay s /\ ram_t2 (gpio_write port v s) = ram_t2 s.
Proof. unfold gpio_write. destruct (Bool.eqb _ _); split; reflexivity. Qed.
Lemma ram_relay_hi c port hi s :
  ram_t2 (relay_hi c port hi s) = ram_t2 s /\
  forall a, (forall r, find_gpio (c_relays c) 0 port <> Some (a, r)) -> getz (ram_relay (relay_hi c port hi s)) a = getz (ram_relay s) a.
Proof.
  unfold relay_hi.
  assert (K : forall b, ram_relay (delay_us 10 (delay_us DOUBLE_TRY_US (gpio_write port b (delay_us 10 s)))) = ram_relay s /\
                        ram_t2 (delay_us 10 (delay_us DOUBLE_TRY_US (gpio_write port b (delay_us 10 s)))) = ram_t2 s).
  { intros b. cbn [ram_relay ram_t2 delay_us set_now]. apply (ram_gpio_write port b (delay_us 10 s)). }
  destruct (find_gpio _ _ _) as [[a0 r0]|].
  2:{ split; [apply K|]. intros a _. f_equal. apply K. }
  destruct (_ || _).
  2:{ split; [apply K|]. intros a _. f_equal. apply K. }
  split.
  - rewrite (proj2 (ram_save_state _ _)). cbn [ram_t2 set_ram_relay]. apply K.
  - intros a Ha. rewrite (proj1 (ram_save_state _ _)). cbn [ram_relay set_ram_relay].
    rewrite getz_setz_ne; [f_equal; apply K|]. intros E. apply (Ha r0). rewrite E. reflexivity.
Qed.

(* ---------- the relation ---------- *)
Definition newfin (ch : Z) (add : list out) : Prop := exists tcb tg t0 dur u0 u, In (GFinish tcb ch tg t0 dur u0 u) add.
Lemma newfin_app ch a b : newfin ch a \/ newfin ch b -> newfin ch (a ++ b).
Proof. intros [H|H]; destruct H as (x1 & x2 & x3 & x4 & x5 & x6 & H); exists x1, x2, x3, x4, x5, x6; apply in_or_app; auto. Qed.

Section Walk.
Variable c : cfg.
(* G: gpios the operation drives itself, C: channels whose remaining time it writes itself; everything else changes
   only through a slot that was running before, and a pin only together with that slot's switch-back in the trace *)
Record K (G C : Z -> Prop) (s s' : st) : Prop := {
  k_chfl : chfl s' = chfl s;
  k_time2 : time2 s' = time2 s;
  k_slots : forall y, In y (slots s') -> active y = true ->
     (exists x, In x (slots s) /\ active x = true /\ s_gpio x = s_gpio y /\ s_chan x = s_chan y) \/ (G (s_gpio y) /\ C (s_chan y));
  k_outs : exists add, outs s' = add ++ outs s /\
     forall p, ~ G p -> pin s' p = pin s p \/ exists x, In x (slots s) /\ active x = true /\ s_gpio x = p /\ newfin (s_chan x) add;
  k_ram : forall a, (forall p r, G p -> find_gpio (c_relays c) 0 p <> Some (a, r)) ->
     getz (ram_relay s') a = getz (ram_relay s) a \/
     exists x r, In x (slots s) /\ active x = true /\ find_gpio (c_relays c) 0 (s_gpio x) = Some (a, r);
  k_t2 : forall k, ~ C k -> getz (ram_t2 s') k = getz (ram_t2 s) k \/ exists x, In x (slots s) /\ active x = true /\ s_chan x = k
}.

Lemma K_quiet G C s s' :
  slots s' = slots s -> gout s' = gout s -> ram_relay s' = ram_relay s -> ram_t2 s' = ram_t2 s -> chfl s' = chfl s ->
  time2 s' = time2 s -> (exists add, outs s' = add ++ outs s) -> K G C s s'.
Proof.
  intros E1 E2 E3 E4 E5 E6 (add & O). constructor; auto.
  - intros y Hy Ay. rewrite E1 in Hy. left. exists y. auto.
  - exists add. split; [auto|]. intros p _. left. unfold pin. rewrite E2. reflexivity.
  - intros a _. left. rewrite E3. reflexivity.
  - intros k _. left. rewrite E4. reflexivity.
Qed.
Lemma K_refl G C s : K G C s s.
Proof. apply K_quiet; auto. exists []. reflexivity. Qed.
Lemma K_trans G C a b d : K G C a b -> K G C b d -> K G C a d.
Proof.
  intros [A1 A2 A3 (ad1 & O1 & P1) A5 A6] [B1 B2 B3 (ad2 & O2 & P2) B5 B6].
  assert (Back : forall y, In y (slots b) -> active y = true -> ~ (G (s_gpio y) /\ C (s_chan y)) ->
                 exists x, In x (slots a) /\ active x = true /\ s_gpio x = s_gpio y /\ s_chan x = s_chan y).
  { intros y Hy Ay N. destruct (A3 y Hy Ay) as [H|H]; [exact H|contradiction]. }
  constructor.
  - congruence.
  - congruence.
  - intros z Hz Az. destruct (B3 z Hz Az) as [(y & Hy & Ay & E1 & E2)|H]; [|auto].
    destruct (A3 y Hy Ay) as [(x & Hx & Ax & E3 & E4)|H].
    + left. exists x. split; [auto|]. split; [auto|]. split; congruence.
    + right. rewrite <- E1, <- E2. exact H.
  - exists (ad2 ++ ad1). split; [rewrite O2, O1, app_assoc; reflexivity|].
    intros p Np. destruct (P2 p Np) as [E|(y & Hy & Ay & Ey & Fy)].
    + destruct (P1 p Np) as [E'|(x & Hx & Ax & Ex & Fx)]; [left; congruence|].
      right. exists x. split; [auto|]. split; [auto|]. split; [auto|]. apply newfin_app. auto.
    + destruct (Back y Hy Ay) as (x & Hx & Ax & E3 & E4); [intros [Gy _]; apply Np; rewrite <- Ey; exact Gy|].
      right. exists x. split; [auto|]. split; [auto|]. split; [congruence|]. rewrite E4. apply newfin_app. auto.
  - intros i Hi. destruct (B5 i Hi) as [E|(y & r & Hy & Ay & Fy)].
    + destruct (A5 i Hi) as [E'|H]; [left; congruence|right; exact H].
    + destruct (Back y Hy Ay) as (x & Hx & Ax & E3 & E4); [intros [Gy _]; apply (Hi _ r Gy); exact Fy|].
      right. exists x, r. split; [auto|]. split; [auto|]. rewrite E3. exact Fy.
  - intros k Hk. destruct (B6 k Hk) as [E|(y & Hy & Ay & Ey)].
    + destruct (A6 k Hk) as [E'|H]; [left; congruence|right; exact H].
    + destruct (Back y Hy Ay) as (x & Hx & Ax & E3 & E4); [intros [_ Cy]; apply Hk; rewrite <- Ey; exact Cy|].
      right. exists x. split; [auto|]. split; [auto|]. congruence.
Qed.
Lemma K_weaken (G C G' C' : Z -> Prop) s s' : (forall p, G p -> G' p) -> (forall k, C k -> C' k) -> K G C s s' -> K G' C' s s'.
Proof.
  intros HG HC [A1 A2 A3 (ad & O & P) A5 A6]. constructor.
  - exact A1. - exact A2.
  - intros y Hy Ay. destruct (A3 y Hy Ay) as [H|[H1 H2]]; auto.
  - exists ad. split; [auto|]. intros p Np. apply P. intros Gp. apply Np. auto.
  - intros a Ha. apply A5. intros p r Gp. apply Ha. auto.
  - intros k Nk. apply A6. intros Ck. apply Nk. auto.
Qed.

(* primitive operations *)
Lemma K_relay_hi (G C : Z -> Prop) port hi s : G port -> K G C s (relay_hi c port hi s).
Proof.
  intros Gp. pose proof (passive_relay_hi c port hi s) as P. destruct (ram_relay_hi c port hi s) as [R1 R2].
  constructor.
  - apply P. - apply P.
  - intros y Hy Ay. rewrite (pa_slots _ _ P) in Hy. left. exists y. auto.
  - destruct (pa_outs _ _ P) as (add & O & _). exists add. split; [auto|]. intros p Np. left.
    apply pin_relay_hi_ne. intros E. apply Np. rewrite E. exact Gp.
  - intros a Ha. left. apply R2. intros r. apply (Ha port r Gp).
  - intros k _. left. rewrite R1. reflexivity.
Qed.
Lemma K_do_call G C k s : K G C s (do_call k s).
Proof.
  unfold do_call. destruct (_ <? _); apply K_quiet; try reflexivity; [exists []|eexists [_]]; reflexivity.
Qed.
Lemma K_value_changed G C ch v s : K G C s (value_changed ch v s).
Proof. unfold value_changed. destruct (reg s); [apply K_do_call|apply K_refl]. Qed.
Lemma K_ext_changed G C ch s : K G C s (ext_changed c ch s).
Proof. unfold ext_changed. destruct (reg s); [|apply K_refl]. destruct (get_state _ _ _) as [[? ?] ?]. apply K_do_call. Qed.
Lemma K_chan_set_value (G C : Z -> Prop) port v ch s : G port -> K G C s (fst (chan_set_value c port v ch s)).
Proof. intros Gp. unfold chan_set_value. cbn [fst]. eapply K_trans; [apply K_relay_hi; exact Gp|apply K_value_changed]. Qed.
Lemma K_t2_set (G C : Z -> Prop) ch v s :
  C ch \/ (exists x, In x (slots s) /\ active x = true /\ s_chan x = ch) -> K G C s (t2_set ch v s).
Proof.
  intros Cc. unfold t2_set. destruct (_ <? _); [|apply K_refl]. constructor; try reflexivity.
  - intros y Hy Ay. left. exists y. auto.
  - exists []. split; [reflexivity|]. intros p _. left. reflexivity.
  - intros a _. left. reflexivity.
  - intros k Nk. cbn [ram_t2 set_ram_t2]. destruct (Z.eq_dec ch k) as [E|Ne]; [|left; apply getz_setz_ne; exact Ne].
    destruct Cc as [Cc|Cc]; [exfalso; apply Nk; rewrite <- E; exact Cc|]. right. rewrite <- E. exact Cc.
Qed.
Lemma slots_t2_set ch v s : slots (t2_set ch v s) = slots s.
Proof. unfold t2_set. destruct (_ <? _); reflexivity. Qed.
Lemma K_startstop G C s : K G C s (startstop s).
Proof.
  unfold startstop. destruct (_ || _); [destruct (0 <? _)|]; try apply K_refl; apply K_quiet; try reflexivity; exists []; reflexivity.
Qed.
Lemma K_uptime G C s : K G C s (fst (uptime_msec s)).
Proof. unfold uptime_msec, uptime_usec. cbn [fst]. apply K_quiet; try reflexivity. eexists [_]; reflexivity. Qed.
Lemma K_emit G C o s : K G C s (emit o s).
Proof. apply K_quiet; try reflexivity. exists [o]. reflexivity. Qed.
Lemma K_set_slot (G C : Z -> Prop) s n y :
  (active y = true -> (exists x, In x (slots s) /\ active x = true /\ s_gpio x = s_gpio y /\ s_chan x = s_chan y) \/
                      (G (s_gpio y) /\ C (s_chan y))) ->
  K G C s (set_slots (upd (slots s) n y) s).
Proof.
  intros Hy. constructor; try reflexivity.
  - intros z Hz Az. cbn [slots set_slots] in Hz. apply In_upd in Hz. destruct Hz as [->|Hz]; [auto|]. left. exists z. auto.
  - exists []. split; [reflexivity|]. intros p _. left. reflexivity.
  - intros a _. left. reflexivity.
  - intros k _. left. reflexivity.
Qed.
Lemma nth_active_in (l : list slot) n : active (nth n l slot_free) = true -> In (nth n l slot_free) l.
Proof.
  intros A. destruct (Nat.lt_ge_cases n (length l)); [apply nth_In; auto|]. rewrite nth_overflow in A by auto. discriminate.
Qed.

(* closing a finish: the operations between the clock reading and the release drove the slot's own gpio and channel;
   with the switch-back in the trace they count as the slot's doing *)
Lemma K_finish (G C : Z -> Prop) s s4 x n y o :
  In x (slots s) -> active x = true -> K (eq (s_gpio x)) (eq (s_chan x)) s s4 -> active y = false ->
  newfin (s_chan x) [o] ->
  K G C s (set_slots (upd (slots s4) n y) (emit o s4)).
Proof.
  intros Hx Ax [A1 A2 A3 (ad & O & P) A5 A6] Iy Fo. constructor.
  - exact A1. - exact A2.
  - intros z Hz Az. cbn [slots set_slots] in Hz. apply In_upd in Hz. destruct Hz as [->|Hz]; [congruence|].
    change (slots (emit o s4)) with (slots s4) in Hz. left.
    destruct (A3 z Hz Az) as [H|[E1 E2]]; [exact H|]. exists x. auto.
  - exists (o :: ad). split; [cbn [outs set_slots emit set_outs]; rewrite O; reflexivity|].
    intros p _. change (pin (set_slots (upd (slots s4) n y) (emit o s4)) p) with (pin s4 p).
    destruct (Z.eq_dec (s_gpio x) p) as [E|Ne].
    + right. exists x. split; [auto|]. split; [auto|]. split; [auto|]. apply (newfin_app _ [o] ad). auto.
    + destruct (P p Ne) as [E|(x' & Hx' & Ax' & Ex' & Fx')]; [auto|]. right. exists x'. split; [auto|]. split; [auto|].
      split; [auto|]. apply (newfin_app _ [o] ad). auto.
  - intros a _. change (ram_relay (set_slots (upd (slots s4) n y) (emit o s4))) with (ram_relay s4).
    destruct (find_gpio (c_relays c) 0 (s_gpio x)) as [[a0 r0]|] eqn:EF.
    + destruct (Z.eq_dec a0 a) as [<-|Ne].
      * right. exists x, r0. auto.
      * apply A5. intros p r <-. rewrite EF. congruence.
    + apply A5. intros p r <-. rewrite EF. discriminate.
  - intros k _. change (ram_t2 (set_slots (upd (slots s4) n y) (emit o s4))) with (ram_t2 s4).
    destruct (Z.eq_dec (s_chan x) k) as [E|Ne]; [right; exists x; auto|]. apply A6. exact Ne.
Qed.

Lemma K_cb_slot G C a s : K G C s (cb_slot c a s).
Proof.
  unfold cb_slot. set (x := nth (Z.to_nat a) (slots s) slot_free). destruct (active x) eqn:Ax; [|apply K_refl].
  pose proof (nth_active_in _ _ Ax) as Hx. fold x in Hx.
  pose proof (K_uptime (eq (s_gpio x)) (eq (s_chan x)) s) as U. pose proof (K_uptime G C s) as U'.
  assert (S1 : slots (fst (uptime_msec s)) = slots s) by reflexivity.
  destruct (uptime_msec s) as [s1 u]. cbn [fst] in U, U', S1.
  destruct (_ <=? _).
  - pose proof (K_chan_set_value (eq (s_gpio x)) (eq (s_chan x)) (s_gpio x) (if s_target x =? 0 then LO else HI) (s_chan x) s1 eq_refl) as P.
    destruct (chan_set_value c (s_gpio x) _ (s_chan x) s1) as [s3 ok]. cbn [fst] in P.
    apply (K_finish G C s (t2_set (s_chan x) 0 s3) x); auto.
    + eapply K_trans; [exact U|]. eapply K_trans; [exact P|]. apply K_t2_set. left. reflexivity.
    + do 6 eexists. left. reflexivity.
  - eapply K_trans; [exact U'|]. set (lf := u32 _).
    eapply K_trans; [apply (K_t2_set G C (s_chan x) lf s1); right; exists x; rewrite S1; auto|].
    apply K_set_slot. intros _. left. exists x. rewrite slots_t2_set, S1. auto.
Qed.
Lemma K_cd_cb G C due s : K G C s (cd_cb c due s).
Proof.
  rewrite cd_cb_eq. eapply K_trans; [|apply K_startstop]. eapply K_trans; [|apply K_emit].
  rewrite cd_loop_unfold. repeat (eapply K_trans; [|apply K_cb_slot]). apply K_emit.
Qed.
Lemma K_disarm (G C : Z -> Prop) ch s : C ch -> K G C s (disarm c ch s).
Proof.
  intros Cc. unfold disarm. destruct (find_slot _ _ _) as [i|]; [|apply K_refl].
  set (x := nth (Z.to_nat i) (slots s) slot_free).
  assert (N1 : K G C s (set_slots (upd (slots s) (Z.to_nat i) (slot_release x (s_last x) (g_tl x))) s))
    by (apply K_set_slot; cbn; intros; discriminate).
  destruct (0 <? _); auto. eapply K_trans; [exact N1|]. eapply K_trans; [apply K_t2_set; left; exact Cc|].
  destruct (chflags_of _ _ _); [destruct (hasf _ _)|]; try apply K_refl. apply K_ext_changed.
Qed.
Lemma K_arm_slot (G C : Z -> Prop) ms g ch tg sd s : G g -> C ch -> K G C s (countdown_arm_slot c ms g ch tg sd s).
Proof.
  intros Gg Cc. unfold countdown_arm_slot. destruct (match find_slot _ _ _ with Some _ => _ | None => _ end) as [i|]; [|apply K_refl].
  pose proof (K_uptime G C s) as U. destruct (uptime_msec s) as [s1 u]. cbn [fst] in U.
  eapply K_trans; [exact U|].
  set (s1e := emit (GArm (now s) ch ms tg) s1).
  eapply K_trans; [apply (K_emit G C (GArm (now s) ch ms tg) s1)|]. fold s1e.
  set (y := {| s_chan := ch; s_left := ms; s_last := u; s_gpio := g; s_target := tg; s_sender := sd;
               g_t0 := now s; g_dur := ms; g_u0 := u; g_tl := now s |}).
  eapply K_trans; [apply (K_set_slot G C s1e (Z.to_nat i) y); intros _; right; cbn; auto|].
  eapply K_trans; [apply K_t2_set; left; exact Cc|apply K_startstop].
Qed.
Lemma K_countdown (G C : Z -> Prop) e ms g ch tg sd s : G g -> C ch -> K G C s (countdown e c ms g ch tg sd s).
Proof.
  intros Gg Cc. unfold countdown. eapply K_trans; [|apply K_arm_slot; auto]. destruct e; [apply K_cd_cb|apply K_refl].
Qed.
Lemma K_sdt (G C : Z -> Prop) e ch nv dur sd s :
  0 <= ch < 256 -> C ch -> (forall a r, find_chan (c_relays c) 0 ch = Some (a, r) -> G (r_gpio r)) ->
  K G C s (set_duration_timer e c ch nv dur sd s).
Proof.
  intros Hch Cc Gg. unfold set_duration_timer. rewrite u8_small by lia.
  set (stair := (ch <? ST_T2_COUNT) && (ch <? T2_COUNT) && (0 <? getz (time2 s) ch)).
  set (s0 := if stair && (nv =? 0) then set_ram_t2 (setz (ram_t2 s) ch 0) s else s).
  assert (K0 : K G C s s0).
  { unfold s0. destruct (stair && (nv =? 0)); [|apply K_refl]. constructor; try reflexivity.
    - intros y Hy Ay. left. exists y. auto.
    - exists []. split; [reflexivity|]. intros p _. left. reflexivity.
    - intros a _. left. reflexivity.
    - intros k Nk. left. cbn [ram_t2 set_ram_t2]. apply getz_setz_ne. intros E. apply Nk. rewrite <- E. exact Cc. }
  set (dur1 := if stair then _ else dur).
  assert (K1 : K G C s (disarm c ch s0)) by (eapply K_trans; [exact K0|apply K_disarm; exact Cc]).
  destruct (0 <? dur1); [|exact K1].
  destruct (find_chan (c_relays c) 0 ch) as [[a r]|] eqn:EF; [|exact K1].
  eapply K_trans; [exact K1|].
  set (s1 := disarm c ch s0).
  set (hf := hasf (getz (chfl s1) a) CHFLAG_COUNTDOWN).
  assert (K2 : K G C s1 (if (nv =? 1) || hf
                         then countdown e c (u32 dur1) (r_gpio r) ch (if nv =? 0 then 1 else 0) sd s1 else s1)).
  { destruct ((nv =? 1) || hf); [|apply K_refl]. apply K_countdown; auto. apply (Gg a r eq_refl). }
  clearbody hf. destruct hf; [|exact K2].
  eapply K_trans; [exact K2|apply K_ext_changed].
Qed.
End Walk.

(* ---------- without evaluation nothing switches back ----------
   the restore loop runs set_duration_timer with evalcmd = false (no finish callback is registered yet): its trace has no
   switch-back *)
Definition NF (s s' : st) : Prop := exists add, outs s' = add ++ outs s /\ forall ch, ~ newfin ch add.
Lemma newfin_app_inv ch a b : newfin ch (a ++ b) -> newfin ch a \/ newfin ch b.
Proof.
  intros (x1 & x2 & x3 & x4 & x5 & x6 & H). apply in_app_or in H.
  destruct H as [H|H]; [left|right]; exists x1, x2, x3, x4, x5, x6; exact H.
Qed.
Lemma NF_refl s : NF s s.
Proof. exists []. split; [reflexivity|]. intros ch (x1 & x2 & x3 & x4 & x5 & x6 & []). Qed.
Lemma NF_trans a b d : NF a b -> NF b d -> NF a d.
Proof.
  intros (a1 & O1 & N1) (a2 & O2 & N2). exists (a2 ++ a1). split; [rewrite O2, O1, app_assoc; reflexivity|].
  intros ch H. apply newfin_app_inv in H. destruct H as [H|H]; [apply (N2 ch H)|apply (N1 ch H)].
Qed.
Lemma NF_passive s s' : passive s s' -> NF s s'.
Proof.
  intros P. destruct (pa_outs _ _ P) as (add & O & F). exists add. split; [exact O|].
  intros ch (x1 & x2 & x3 & x4 & x5 & x6 & H). rewrite Forall_forall in F. apply (F _ H).
Qed.
Lemma NF_same s s' : outs s' = outs s -> NF s s'.
Proof. intros E. exists []. split; [exact E|]. intros ch (x1 & x2 & x3 & x4 & x5 & x6 & []). Qed.
Lemma NF_startstop s : NF s (startstop s).
Proof. unfold startstop. destruct (_ || _); [destruct (0 <? _)|]; apply NF_same; reflexivity. Qed.
Lemma NF_disarm c ch s : NF s (disarm c ch s).
Proof.
  unfold disarm. destruct (find_slot _ _ _) as [i|]; [|apply NF_refl].
  set (s1 := set_slots _ s).
  destruct (0 <? _); [|apply NF_same; reflexivity].
  apply NF_trans with (b := s1); [apply NF_same; reflexivity|].
  apply NF_trans with (b := t2_set ch 0 s1); [apply NF_passive, passive_t2_set|].
  destruct (chflags_of _ _ _); [destruct (hasf _ _)|]; try apply NF_refl. apply NF_passive, passive_ext_changed.
Qed.
Lemma NF_arm_slot c ms g ch tg sd s : NF s (countdown_arm_slot c ms g ch tg sd s).
Proof.
  unfold countdown_arm_slot. destruct (match find_slot _ _ _ with Some _ => _ | None => _ end) as [i|]; [|apply NF_refl].
  assert (U : NF s (fst (uptime_msec s))).
  { unfold uptime_msec, uptime_usec. cbn [fst]. eexists [_]. split; [reflexivity|].
    intros k (x1 & x2 & x3 & x4 & x5 & x6 & [H|[]]). discriminate. }
  destruct (uptime_msec s) as [s1 u]. cbn [fst] in U.
  eapply NF_trans; [exact U|]. eapply NF_trans; [|apply NF_startstop]. eapply NF_trans; [|apply NF_passive, passive_t2_set].
  eexists [_]. split; [reflexivity|]. intros k (x1 & x2 & x3 & x4 & x5 & x6 & [H|[]]). discriminate.
Qed.
Lemma NF_sdt_false c ch v dur sd s : NF s (set_duration_timer false c ch v dur sd s).
Proof.
  unfold set_duration_timer.
  set (stair := (ch <? ST_T2_COUNT) && (ch <? T2_COUNT) && (0 <? getz (time2 s) ch)).
  set (s0 := if stair && (v =? 0) then set_ram_t2 (setz (ram_t2 s) ch 0) s else s).
  assert (N0 : NF s s0) by (unfold s0; destruct (stair && (v =? 0)); apply NF_same; reflexivity).
  set (dur1 := if stair then _ else dur). clearbody dur1.
  assert (N1 : NF s (disarm c (u8 ch) s0)) by (eapply NF_trans; [exact N0|apply NF_disarm]).
  destruct (0 <? dur1); [|exact N1].
  destruct (find_chan _ _ _) as [[a r]|]; [|exact N1].
  set (s1 := disarm c (u8 ch) s0) in *.
  set (hf := hasf (getz (chfl s1) a) CHFLAG_COUNTDOWN). clearbody hf.
  assert (N2 : NF s (if (v =? 1) || hf then countdown false c (u32 dur1) (r_gpio r) (u8 ch) (if v =? 0 then 1 else 0) sd s1 else s1)).
  { destruct ((v =? 1) || hf); [|exact N1]. unfold countdown. eapply NF_trans; [exact N1|apply NF_arm_slot]. }
  destruct hf; [|exact N2]. eapply NF_trans; [exact N2|apply NF_passive, passive_ext_changed].
Qed.
Lemma NF_restore_false c s ar : NF s (restore_relay false c s ar).
Proof.
  destruct ar as [a r]. unfold restore_relay. destruct (_ || _).
  - eapply NF_trans; [|apply NF_passive, passive_relay_hi]. destruct (_ && _); [apply NF_sdt_false|apply NF_refl].
  - destruct (hasf _ _); [apply NF_passive, passive_relay_hi|apply NF_refl].
Qed.
Lemma NF_fold_false c l : forall s, NF s (fold_left (restore_relay false c) l s).
Proof. induction l as [|ar l IH]; intros s; cbn [fold_left]; [apply NF_refl|]. eapply NF_trans; [apply NF_restore_false|apply IH]. Qed.

(* ---------- the restore loop ---------- *)
Section W.
Context {wr : Wraps}.
Definition restoring (r : relay) : bool := hasf (r_flags r) FLAG_RESTORE_FORCE || hasf (r_flags r) FLAG_RESTORE.

(* what the restart owes relay r (index a in the board table); b = the state the loop started from, add = the trace
   since then.  v, T: the saved level and remaining time. *)
Definition Done (b t : st) (add : list out) (a : Z) (r : relay) : Prop :=
  restoring r = true ->
  let v := getz (ram_relay b) a in
  let T := getz (ram_t2 b) (r_chan r) in
  v = 0 \/ v = 1 ->
  (pin t (r_gpio r) = xorb (v =? 1) (hasf (r_flags r) FLAG_LO_LEVEL) \/ newfin (r_chan r) add) /\
  (0 < T < 2147483648 ->
   v = 1 \/ (getz (time2 b) (r_chan r) = 0 /\ hasf (getz (chfl b) a) CHFLAG_COUNTDOWN = true) ->
   exists t0, now b <= t0 <= now b + (a + 1) * (9 * OP) /\ In (GArm t0 (r_chan r) T (1 - v)) (outs t)).

Lemma OP_nonneg : 0 <= OP.
Proof. unfold OP. pose proof (cf_dt consts_ok). lia. Qed.

(* eight slots, running slots carry pairwise different channels: fewer than eight channels leave a free slot *)
Lemma free_slot (s : st) (chs : list Z) :
  Inv s -> (forall x, In x (slots s) -> active x = true -> In (s_chan x) chs) -> (length chs < 8)%nat ->
  exists x, In x (slots s) /\ s_chan x = 255.
Proof.
  intros I Hin Hlen.
  destruct (existsb (fun x => s_chan x =? 255) (slots s)) eqn:E.
  - apply existsb_exists in E. destruct E as (x & Hx & Ex). apply Z.eqb_eq in Ex. exists x. auto.
  - exfalso.
    assert (Nf : forall x, In x (slots s) -> s_chan x <> 255).
    { intros x Hx Ex. assert (existsb (fun x => s_chan x =? 255) (slots s) = true); [|congruence].
      apply existsb_exists. exists x. split; [auto|]. apply Z.eqb_eq. exact Ex. }
    assert (ND : NoDup (map s_chan (slots s))).
    { apply (NoDup_nth _ (s_chan slot_free)). intros i j Hi Hj Eij. rewrite map_length, (i_len _ I) in Hi, Hj.
      rewrite !map_nth in Eij. apply (i_uniq _ I i j Hi Hj Eij).
      apply Nf. apply slot_at_in. rewrite (i_len _ I). exact Hi. }
    assert (IN : incl (map s_chan (slots s)) chs).
    { intros k Hk. apply in_map_iff in Hk. destruct Hk as (x & <- & Hx). apply Hin; auto.
      destruct (i_free _ I x Hx) as [F|A]; [exfalso; apply (Nf x Hx F)|exact A]. }
    pose proof (NoDup_incl_length ND IN) as L. rewrite map_length, (i_len _ I) in L. lia.
Qed.

Section Loop.
Variable e : bool.
Variable c : cfg.
Hypothesis W : wf_cfg c.
Hypothesis NDg : NoDup (map r_gpio (c_relays c)).
Hypothesis NDc : NoDup (map r_chan (c_relays c)).
Hypothesis Hlen : (length (c_relays c) <= 8)%nat.

(* invariant of the loop: pre = relays handled so far, l = relays still to come *)
Record FI (b : st) (pre l : list relay) (t : st) : Prop := {
  f_good : Good t;
  f_chfl : chfl t = chfl b;
  f_time2 : time2 t = time2 b;
  f_now : now b <= now t <= now b + Z.of_nat (length pre) * (9 * OP);
  f_done : exists add, outs t = add ++ outs b /\ forall a r, In (a, r) (enum 0 pre) -> Done b t add a r;
  f_act : forall x, In x (slots t) -> active x = true -> exists r, In r pre /\ s_gpio x = r_gpio r /\ s_chan x = r_chan r;
  f_ram : forall a r, In (a, r) (enum (Z.of_nat (length pre)) l) ->
          getz (ram_relay t) a = getz (ram_relay b) a /\ getz (ram_t2 t) (r_chan r) = getz (ram_t2 b) (r_chan r)
}.

Lemma step_common b pre r l t t' :
  c_relays c = pre ++ r :: l -> FI b pre (r :: l) t ->
  K c (eq (r_gpio r)) (eq (r_chan r)) t t' -> Good t' -> now t <= now t' <= now t + 9 * OP ->
  (forall add', outs t' = add' ++ outs b -> Done b t' add' (Z.of_nat (length pre)) r) ->
  FI b (pre ++ [r]) l t'.
Proof.
  intros Ers [Gt Fc Ft Fn (add & Oa & Dn) Fa Fr] KK Gt' Hn Dnew.
  set (k0 := Z.of_nat (length pre)) in *.
  assert (EN : enum 0 (c_relays c) = enum 0 pre ++ (k0, r) :: enum (k0 + 1) l).
  { rewrite Ers, enum_app. cbn [enum]. rewrite Z.add_0_l. reflexivity. }
  assert (FG : forall a' r', In (a', r') (enum 0 (c_relays c)) -> find_gpio (c_relays c) 0 (r_gpio r') = Some (a', r'))
    by (apply find_gpio_enum; auto).
  assert (FC : forall a' r', In (a', r') (enum 0 (c_relays c)) -> find_chan (c_relays c) 0 (r_chan r') = Some (a', r'))
    by (apply find_chan_enum; auto).
  assert (Ipre : forall a' r', In (a', r') (enum 0 pre) -> In (a', r') (enum 0 (c_relays c)))
    by (rewrite EN; intros; apply in_or_app; auto).
  assert (Icur : In (k0, r) (enum 0 (c_relays c))) by (rewrite EN; apply in_or_app; right; left; reflexivity).
  assert (Ipost : forall a' r', In (a', r') (enum (k0 + 1) l) -> In (a', r') (enum 0 (c_relays c)))
    by (rewrite EN; intros; apply in_or_app; right; right; auto).
  assert (Rpre : forall a' r', In (a', r') (enum 0 pre) -> a' < k0).
  { intros a' r' H. pose proof (enum_range _ _ _ _ H). unfold k0. lia. }
  pose proof (FG _ _ Icur) as F0. pose proof (FC _ _ Icur) as C0.
  (* a running slot of t belongs to a handled relay: its index in the table is below k0 *)
  assert (Own : forall x, In x (slots t) -> active x = true ->
          exists a'' r'', In (a'', r'') (enum 0 pre) /\ s_gpio x = r_gpio r'' /\ s_chan x = r_chan r'').
  { intros x Hx Ax. destruct (Fa x Hx Ax) as (r'' & Hr'' & Eg & Ec). destruct (in_enum pre 0 r'' Hr'') as (a'' & Ha'').
    exists a'', r''. auto. }
  destruct KK as [A1 A2 A3 (ad & O & P) A5 A6].
  constructor.
  - exact Gt'.
  - congruence.
  - congruence.
  - rewrite app_length. cbn [length]. rewrite Nat2Z.inj_add. change (Z.of_nat 1) with 1. fold k0. lia.
  - exists (ad ++ add). split; [rewrite O, Oa, app_assoc; reflexivity|].
    intros a' r' Hin. rewrite enum_app in Hin. apply in_app_or in Hin. destruct Hin as [Hin|Hin].
    + intros Rr v T Hv. destruct (Dn a' r' Hin Rr Hv) as [Dp Dt]. fold v T in Dp, Dt. split.
      * destruct Dp as [Dp|Dp]; [|right; apply newfin_app; auto].
        pose proof (FG _ _ (Ipre _ _ Hin)) as F1.
        assert (Np : ~ (r_gpio r = r_gpio r')).
        { intros E. rewrite E, F1 in F0. injection F0 as E' _. pose proof (Rpre _ _ Hin). lia. }
        destruct (P (r_gpio r') Np) as [E|(x & Hx & Ax & Ex & Fx)]; [left; congruence|].
        right. destruct (Own x Hx Ax) as (a'' & r'' & Ha'' & Eg & Ec).
        pose proof (FG _ _ (Ipre _ _ Ha'')) as F2. rewrite <- Eg, Ex, F1 in F2. injection F2 as _ <-.
        apply newfin_app. left. rewrite <- Ec. exact Fx.
      * intros HT Hc. destruct (Dt HT Hc) as (t0 & Ht0 & Hi). exists t0. split; auto. rewrite O. apply in_or_app. auto.
    + cbn [enum] in Hin. destruct Hin as [E|[]]. rewrite Z.add_0_l in E. injection E as <- <-.
      apply Dnew. rewrite O, Oa, app_assoc. reflexivity.
  - intros y Hy Ay. destruct (A3 y Hy Ay) as [(x & Hx & Ax & E1 & E2)|[E1 E2]].
    + destruct (Fa x Hx Ax) as (r' & Hr' & Eg & Ec). exists r'. split; [apply in_or_app; auto|]. split; congruence.
    + exists r. split; [apply in_or_app; right; left; reflexivity|]. split; congruence.
  - intros a' r' Hin. rewrite app_length in Hin. cbn [length] in Hin. rewrite Nat2Z.inj_add in Hin.
    change (Z.of_nat 1) with 1 in Hin. fold k0 in Hin.
    assert (Hin0 : In (a', r') (enum k0 (r :: l))) by (right; exact Hin).
    destruct (Fr a' r' Hin0) as [R1 R2]. pose proof (enum_range _ _ _ _ Hin) as [Rg _].
    pose proof (FG _ _ (Ipost _ _ Hin)) as F1. pose proof (FC _ _ (Ipost _ _ Hin)) as C1.
    split.
    + destruct (A5 a') as [E|(x & r0 & Hx & Ax & Fx)].
      * intros p r0 <- E. rewrite F0 in E. injection E as E _. lia.
      * congruence.
      * exfalso. destruct (Own x Hx Ax) as (a'' & r'' & Ha'' & Eg & _).
        pose proof (FG _ _ (Ipre _ _ Ha'')) as F2. rewrite <- Eg, Fx in F2. injection F2 as E _. pose proof (Rpre _ _ Ha''). lia.
    + destruct (A6 (r_chan r')) as [E|(x & Hx & Ax & Ex)].
      * intros E. rewrite E, C1 in C0. injection C0 as E' _. lia.
      * congruence.
      * exfalso. destruct (Own x Hx Ax) as (a'' & r'' & Ha'' & _ & Ec).
        pose proof (FC _ _ (Ipre _ _ Ha'')) as C2. rewrite <- Ec, Ex, C1 in C2. injection C2 as E _. pose proof (Rpre _ _ Ha''). lia.
Qed.

Lemma restore_step b pre r l t t' :
  c_relays c = pre ++ r :: l -> FI b pre (r :: l) t ->
  t' = restore_relay e c t (Z.of_nat (length pre), r) -> NWw t' -> FI b (pre ++ [r]) l t'.
Proof.
  intros Ers F Et' N. pose proof F as [Gt Fc Ft Fn _ Fa Fr].
  set (k0 := Z.of_nat (length pre)) in *.
  assert (Hr : In r (c_relays c)) by (rewrite Ers; apply in_or_app; right; left; reflexivity).
  destruct (restore_relay_spec e c t t' k0 r Et' W Hr Gt N) as (Gt' & _).
  pose proof (wf_chan _ W r Hr) as Hc. pose proof OP_nonneg as HOP.
  assert (Icur : In (k0, r) (enum 0 (c_relays c))).
  { rewrite Ers, enum_app. apply in_or_app. right. rewrite Z.add_0_l. left. reflexivity. }
  pose proof (find_gpio_enum _ NDg 0 k0 r Icur) as FG0. pose proof (find_chan_enum _ NDc 0 k0 r Icur) as FC0.
  assert (Lpre : (length pre < 8)%nat).
  { rewrite Ers, app_length in Hlen. cbn [length] in Hlen. lia. }
  pose proof Et' as Et0. unfold restore_relay in Et'.
  change (hasf (r_flags r) FLAG_RESTORE_FORCE || hasf (r_flags r) FLAG_RESTORE) with (restoring r) in Et'.
  destruct (restoring r) eqn:Rr.
  - destruct (cf_t2 consts_ok) as [CT1 CT2].
    assert (Lt : (0 <=? r_chan r) && (r_chan r <? ST_T2_COUNT) = true) by (apply andb_true_iff; split; [apply Z.leb_le|apply Z.ltb_lt]; lia).
    rewrite Lt in Et'.
    remember (set_duration_timer e c (r_chan r) (s8 (getz (ram_relay t) k0)) (s32 (getz (ram_t2 t) (r_chan r))) 0 t) as s1 eqn:Es1.
    assert (K1 : K c (eq (r_gpio r)) (eq (r_chan r)) t s1).
    { rewrite Es1. apply K_sdt; [lia|reflexivity|]. intros a0 r0 E. rewrite FC0 in E. injection E as _ <-. reflexivity. }
    assert (K2 : K c (eq (r_gpio r)) (eq (r_chan r)) s1 t') by (rewrite Et'; apply K_relay_hi; reflexivity).
    assert (P : passive s1 t') by (rewrite Et'; apply passive_relay_hi).
    assert (N1 : NWw s1) by (eapply NW_passive; eauto).
    pose proof (s32_range (getz (ram_t2 t) (r_chan r))) as SR.
    destruct (set_duration_timer_spec e c _ _ _ _ t s1 Es1 W Gt Hc ltac:(lia) N1) as (_ & F1 & Nw1 & _ & _).
    assert (Nw' : now t' = now s1 + OP) by (rewrite Et'; apply now_relay_hi).
    pose proof (fr_now _ _ F1) as Nw0.
    apply (step_common b pre r l t t' Ers F (K_trans c _ _ _ _ _ K1 K2) Gt'); [lia|].
    intros add' Oa' _ v T Hv.
    pose proof (restore_one_w e c t k0 r W Gt Hr FC0 FG0 Rr) as RO. cbn zeta in RO. rewrite <- Et0 in RO.
    destruct (Fr k0 r (or_introl eq_refl)) as [R1 R2]. rewrite R1, R2 in RO. fold v T in RO.
    destruct (RO Hv N) as [Rp Rt]. split; [left; exact Rp|].
    intros HT Hcase.
    assert (Free : exists x, In x (slots t) /\ s_chan x = 255).
    { apply (free_slot t (map r_chan pre) (g_inv _ Gt)); [|rewrite map_length; exact Lpre].
      intros x Hx Ax. destruct (Fa x Hx Ax) as (r' & Hr' & _ & Ec). rewrite Ec. apply in_map. exact Hr'. }
    rewrite Ft, Fc in Rt. destruct (Rt HT Free Hcase) as (t0 & Ht0 & Hi). exists t0. split; [|exact Hi]. fold k0 in Fn. lia.
  - destruct (hasf (r_flags r) FLAG_RESET).
    + assert (K2 : K c (eq (r_gpio r)) (eq (r_chan r)) t t') by (rewrite Et'; apply K_relay_hi; reflexivity).
      assert (Nw' : now t' = now t + OP) by (rewrite Et'; apply now_relay_hi).
      apply (step_common b pre r l t t' Ers F K2 Gt'); [lia|]. intros add' _ Rr'. congruence.
    + apply (step_common b pre r l t t' Ers F); [rewrite Et'; apply K_refl|exact Gt'|rewrite Et'; lia|].
      intros add' _ Rr'. congruence.
Qed.

Lemma restore_fold b : forall l pre t t',
  c_relays c = pre ++ l -> FI b pre l t ->
  t' = fold_left (restore_relay e c) (enum (Z.of_nat (length pre)) l) t -> NWw t' -> FI b (pre ++ l) [] t'.
Proof.
  induction l as [|r l IH]; intros pre t t' Ers F Et' N.
  - cbn in Et'. subst t'. rewrite app_nil_r. exact F.
  - cbn [enum fold_left] in Et'.
    remember (restore_relay e c t (Z.of_nat (length pre), r)) as t1 eqn:Et1.
    assert (N1 : NWw t1) by (eapply NW_frame; [|exact N]; rewrite Et'; apply fold_restore_frame).
    pose proof (restore_step b pre r l t t1 Ers F Et1 N1) as F1.
    replace (pre ++ r :: l) with ((pre ++ [r]) ++ l) by (rewrite <- app_assoc; reflexivity).
    apply (IH (pre ++ [r]) t1 t'); [rewrite <- app_assoc; exact Ers|exact F1| |exact N].
    rewrite app_length, Nat2Z.inj_add. exact Et'.
Qed.
End Loop.

(* ---------- the restart as a whole ---------- *)
(* channel_flags known at init: zero when the board registers them later (lateflags) *)
Definition chfl_init (c : cfg) (r : relay) : Z := if c_lateflags c then 0 else r_chfl r.

Theorem restore_all_w e c s :
  wf_cfg c -> NoDup (map r_gpio (c_relays c)) -> NoDup (map r_chan (c_relays c)) ->
  TrO s -> 0 <= cnt0 s -> tb s <= now s -> 0 <= upc s -> upc s * 4294967296 <= cnt0 s + (now s - tb s) ->
  let s' := boot e c s in
  NWw s' ->
  forall a r, In (a, r) (enum 0 (c_relays c)) -> restoring r = true ->
    let v := getz (fl_relay s) a in
    let T := getz (fl_t2 s) (r_chan r) in
    v = 0 \/ v = 1 ->
    (* every restored relay is back in its saved state (nothing is evaluated, nothing switches back inside the loop) ... *)
    pin s' (r_gpio r) = xorb (v =? 1) (hasf (r_flags r) FLAG_LO_LEVEL) /\
    (* ... and its timer is armed again for the saved remaining time *)
    (0 < T < 2147483648 ->
     v = 1 \/ (getz (time2 s) (r_chan r) = 0 /\ hasf (chfl_init c r) CHFLAG_COUNTDOWN = true) ->
     exists t0, now s <= t0 <= now s + (a + 1) * (9 * OP) /\ In (GArm t0 (r_chan r) T (1 - v)) (outs s')).
Proof.
  intros W NDg NDc TO C0 Ct Cu CL s' N. pose proof (wf_len _ W) as Hlen. unfold s', boot, boot_l in *. clear s'.
  remember (t_arm TUP UPTIME_POLL_MS true (set_upl 0 (set_seqc 0 (set_li 0 (set_tcd tmr0 (set_tsv tmr0 (set_tup tmr0 s))))))) as s1 eqn:Es1.
  remember (set_ram_relay (fl_relay s1) (set_ram_t2 (fl_t2 s1) s1)) as s2 eqn:Es2.
  remember (set_slots (repeat slot_free 8) (set_delay 0 s2)) as s3 eqn:Es3.
  remember (set_chfl (if c_lateflags c then map (fun _ => 0) (c_relays c) else map r_chfl (c_relays c)) s3) as s4 eqn:Es4.
  remember (set_obuf [] (set_regreq false (set_queue [] (set_conn false (set_reg false (set_gout 0 s4)))))) as s5 eqn:Es5.
  remember (fold_left (restore_relay false c) (enum 0 (c_relays c)) s5) as s6 eqn:Es6.
  assert (A5 : slots s5 = repeat slot_free 8 /\ delay s5 = 0 /\ tcd s5 = tmr0 /\ cnt0 s5 = cnt0 s /\ tb s5 = tb s /\ now s5 = now s /\
               upc s5 = upc s /\ upl s5 = 0 /\ outs s5 = outs s /\ time2 s5 = time2 s).
  { subst s5 s4 s3 s2 s1. cbn. repeat split; reflexivity. }
  assert (B5 : ram_relay s5 = fl_relay s /\ ram_t2 s5 = fl_t2 s /\
               chfl s5 = (if c_lateflags c then map (fun _ => 0) (c_relays c) else map r_chfl (c_relays c))).
  { subst s5 s4 s3 s2 s1. cbn. repeat split; reflexivity. }
  destruct A5 as (a1 & a2 & a3 & a4 & a5 & a6 & a7 & a8 & a9 & a10). destruct B5 as (b1 & b2 & b3).
  assert (G5 : Good s5).
  { constructor; [constructor|constructor|]; unfold ClockOK, TmrOK, slot_at; rewrite ?a1, ?a2, ?a3, ?a4, ?a5, ?a6, ?a7, ?a8, ?a9.
    - apply repeat_length.
    - lia.
    - intros x Hx. left. apply (free_inactive x Hx).
    - intros x Hx Ax. destruct (free_inactive x Hx). congruence.
    - intros i j Hi Hj _ Ne. exfalso. apply Ne. apply (free_inactive (nth i (repeat slot_free 8) slot_free)). apply nth_In. rewrite repeat_length. auto.
    - cbn. repeat split; auto; lia.
    - intros * H. destruct (to_fin _ TO _ _ _ _ _ _ _ H) as (A & B & C & D). repeat split; auto.
      intros x Hx Ax. destruct (free_inactive x Hx). congruence.
    - intros x Hx Ax. destruct (free_inactive x Hx). congruence.
    - apply TO.
    - intros x Hx Ax. rewrite a1 in Hx. destruct (free_inactive x Hx). congruence. }
  remember (fst (uptime_usec s6)) as s7 eqn:Es7.
  assert (F67 : frame s6 s7) by (subst s7; apply frame_uptime_usec).
  assert (F7' : frame s7 (set_seqc (seqc s7 + 1) s7)) by (constructor; cbn; try reflexivity; try lia; exists []; auto).
  assert (N6 : NWw s6) by (eapply NW_frame; [|eapply NW_frame; eauto]; auto).
  assert (FI0 : FI s5 [] (c_relays c) s5).
  { constructor; auto.
    - cbn. lia.
    - exists []. split; [reflexivity|]. intros a r [].
    - intros x Hx Ax. rewrite a1 in Hx. destruct (free_inactive x Hx). congruence. }
  pose proof (restore_fold false c W NDg NDc Hlen s5 (c_relays c) [] s5 s6 eq_refl FI0 Es6 N6) as [_ _ _ _ (add & Oa & Dn) _ _].
  cbn [app] in Dn.
  assert (NoF : forall ch, ~ newfin ch add).
  { destruct (NF_fold_false c (enum 0 (c_relays c)) s5) as (add' & Oa' & Nf). rewrite <- Es6, Oa in Oa'.
    apply app_inv_tail in Oa'. subst add'. exact Nf. }
  destruct (fr_outs _ _ F67) as (ad7 & E7).
  assert (E1 : outs (set_seqc (seqc s7 + 1) s7) = ad7 ++ outs s6) by (rewrite <- E7; reflexivity).
  assert (E2 : forall p, pin (set_seqc (seqc s7 + 1) s7) p = pin s6 p) by (intros p; subst s7; reflexivity).
  intros a r Hin Rr. set (v := getz (fl_relay s) a). set (T := getz (fl_t2 s) (r_chan r)). intros Hv. specialize (Dn a r Hin). unfold Done in Dn. specialize (Dn Rr). cbn zeta in Dn. rewrite b1, b2, a6, a10 in Dn.
  destruct (Dn Hv) as [Dp Dt]. fold v T in Dp, Dt.
  split; [rewrite E2; destruct Dp as [Dp|Dp]; [exact Dp|exfalso; apply (NoF _ Dp)]|].
  intros HT Hcase. rewrite E1.
  cut (exists t0 : Z, now s <= t0 <= now s + (a + 1) * (9 * OP) /\ In (GArm t0 (r_chan r) T (1 - v)) (outs s6)).
  { intros (t0 & Ht0 & Hi). exists t0. split; [exact Ht0|]. apply in_or_app. right. exact Hi. }
  apply Dt; [exact HT|].
  destruct Hcase as [Hc|[Hc1 Hc2]]; [left; exact Hc|right]. split; [exact Hc1|].
  rewrite b3. unfold chfl_init in Hc2. pose proof (enum_range _ _ _ _ Hin) as [Ra _].
  destruct (c_lateflags c).
  - exfalso. unfold hasf in Hc2. rewrite Z.land_0_l in Hc2. discriminate.
  - pose proof (getz_map_enum r_chfl (c_relays c) 0 a r Hin ltac:(lia)) as E. rewrite Z.sub_0_r in E. rewrite E. exact Hc2.
Qed.

End W.

(* no wrap at all (WB = 0): the statement as before *)
Theorem restore_all_thm e c s :
  wf_cfg c -> NoDup (map r_gpio (c_relays c)) -> NoDup (map r_chan (c_relays c)) ->
  TrO s -> 0 <= cnt0 s -> tb s <= now s -> 0 <= upc s -> upc s * 4294967296 <= cnt0 s + (now s - tb s) ->
  let s' := boot e c s in
  NW s' ->
  forall a r, In (a, r) (enum 0 (c_relays c)) -> restoring r = true ->
    let v := getz (fl_relay s) a in
    let T := getz (fl_t2 s) (r_chan r) in
    v = 0 \/ v = 1 ->
    pin s' (r_gpio r) = xorb (v =? 1) (hasf (r_flags r) FLAG_LO_LEVEL) /\
    (0 < T < 2147483648 ->
     v = 1 \/ (getz (time2 s) (r_chan r) = 0 /\ hasf (chfl_init c r) CHFLAG_COUNTDOWN = true) ->
     exists t0, now s <= t0 <= now s + (a + 1) * (9 * OP) /\ In (GArm t0 (r_chan r) T (1 - v)) (outs s')).
Proof.
  intros W NDg NDc TO C0 Ct Cu CL s' N.
  exact (@restore_all_w nowrap e c s W NDg NDc TO C0 Ct Cu CL (NW_NWw _ N)).
Qed.

(* ---------- the hypotheses are satisfiable, the conclusion is not vacuous ---------- *)
(* two restoring relays, "on for 5 s" and "on for 7 s", power loss after 2 s (the state sector was written after 1 s) *)
Definition two_cfg := mkcfg [rl 4 0 2 0; rl 5 1 2 0] false.
Definition two_evs : list ev := [ESet 0 1 5000 1; ESet 1 1 7000 1; EAdv 2000000].
Definition two_pre : st :=
  let s := run_from true two_cfg (start true two_cfg) two_evs in
  set_upc 0 (set_tb (now s) (set_cnt0 (c_boot2 two_cfg) (emit (OReboot (now s)) s))).
Lemma restore_all_witness_thm :
  wf_cfg two_cfg /\ NoDup (map r_gpio (c_relays two_cfg)) /\ NoDup (map r_chan (c_relays two_cfg)) /\
  (length (c_relays two_cfg) <= 8)%nat /\ TrO two_pre /\ 0 <= cnt0 two_pre /\ tb two_pre <= now two_pre /\
  0 <= upc two_pre /\ upc two_pre * 4294967296 <= cnt0 two_pre + (now two_pre - tb two_pre) /\
  NW (boot true two_cfg two_pre) /\
  (fl_relay two_pre, fl_t2 two_pre) = ([1; 1; 0; 0; 0; 0; 0; 0], [4042; 6052; 0; 0; 0; 0; 0; 0]) /\
  filter (fun o => match o with GArm t0 _ _ _ => now two_pre <=? t0 | _ => false end) (outs (boot true two_cfg two_pre)) =
    [GArm 2050100 1 6052 0; GArm 2040080 0 4042 0].
Proof.
  assert (Wc : wf_cfg two_cfg) by (apply wf_cfgb_ok; vm_compute; reflexivity).
  split; [exact Wc|].
  split; [repeat constructor; cbn; intuition discriminate|]. split; [repeat constructor; cbn; intuition discriminate|].
  split; [cbn; lia|]. split.
  - assert (NR : @NWwrun nowrap true two_cfg (start true two_cfg) two_evs) by (apply NWrun_NWwrun; apply nwrunb_ok; vm_compute; reflexivity).
    assert (G : Good (run_from true two_cfg (start true two_cfg) two_evs)).
    { apply run_good; [exact Wc|apply wf_evsb_ok; vm_compute; reflexivity| |exact NR].
      apply start_good; [exact Wc|]. apply (NR 0%nat). }
    pose proof (Tr_TrO _ (g_tr _ G)) as [TF TU]. unfold two_pre.
    set (s := run_from true two_cfg (start true two_cfg) two_evs) in *.
    constructor.
    + intros * H. cbn [outs set_upc set_tb set_cnt0 emit set_outs] in H. destruct H as [H|H]; [discriminate|].
      destruct (TF _ _ _ _ _ _ _ H) as (A & B & C & D). split; [auto|]. split; [auto|]. split; [exact C|].
      right. exact D.
    + exact TU.
  - split; [vm_compute; discriminate|]. split; [vm_compute; discriminate|]. split; [vm_compute; discriminate|].
    split; [vm_compute; discriminate|]. split; [apply nwb_NW; vm_compute; reflexivity|].
    split; vm_compute; reflexivity.
Qed.
