(* C07 (and the core of C06) — executable model of the relay / countdown-timer machinery:
     supla_esp_countdown_timer.c (all), uptime.c, supla_esp_gpio_relay_hi / _relay_is_hi / _relay_switch /
     _relay_set_duration_timer, restore branch of supla_esp_gpio_init, supla_esp_save_state (1 s one-shot),
     supla_esp_channel_set_value (relay branch), _supla_esp_channel_set_value, countdown finish / disarm callbacks,
     and the timer double of the harness (due/seq order, scripted lateness, os_delay_us advances the clock).
   Definitions only (proofs are in Proofs.v).  Times are true microseconds since the start of the case. *)
From Coq Require Import List ZArith Bool.
Import ListNotations.
From V Require Import Base.U32 Base.Bytes Base.Iface Gen.RelayConsts.
Local Open Scope Z_scope.

(* ---------- configuration (static per case) ---------- *)
Record relay := { r_gpio : Z; r_chan : Z; r_flags : Z; r_chfl : Z }.
Record cfg := { c_boot : Z; c_boot2 : Z; c_sbt : Z; c_lateflags : bool;
                c_relays : list relay; c_time2 : list Z; c_late : list Z }.

Definition hasf (f m : Z) : bool := negb (Z.land f m =? 0).
Definition getz (l : list Z) (i : Z) : Z := if i <? 0 then 0 else nth (Z.to_nat i) l 0.
Fixpoint upd {A} (l : list A) (n : nat) (v : A) : list A :=
  match l, n with
  | [], _ => []
  | _ :: t, O => v :: t
  | h :: t, S k => h :: upd t k v
  end.
Definition setz {A} (l : list A) (i : Z) (v : A) : list A := if i <? 0 then l else upd l (Z.to_nat i) v.

(* ---------- software timers of the SDK double ---------- *)
Record tmr := { t_on : bool; t_due : Z; t_seq : Z; t_per : Z }.
Definition tmr0 : tmr := {| t_on := false; t_due := 0; t_seq := 0; t_per := 0 |}.
Inductive tid := TCD | TSV | TUP.

(* ---------- countdown slots ---------- *)
Record slot := { s_chan : Z; s_left : Z; s_last : Z; s_gpio : Z; s_target : Z; s_sender : Z;
                 (* ghost fields, never read by the control flow: true time / ms reading / duration at arming *)
                 g_t0 : Z; g_dur : Z; g_u0 : Z; g_tl : Z }.
Definition slot_free : slot :=
  {| s_chan := 255; s_left := 0; s_last := 0; s_gpio := 0; s_target := 0; s_sender := 0; g_t0 := 0; g_dur := 0; g_u0 := 0; g_tl := 0 |}.
(* the two updates of a slot by an evaluation (ghost g_tl = true time of the reading) *)
Definition slot_release (x : slot) (u tl : Z) : slot :=
  {| s_chan := 255; s_left := 0; s_last := u; s_gpio := s_gpio x; s_target := s_target x; s_sender := s_sender x;
     g_t0 := g_t0 x; g_dur := g_dur x; g_u0 := g_u0 x; g_tl := tl |}.
Definition slot_run (x : slot) (left u tl : Z) : slot :=
  {| s_chan := s_chan x; s_left := left; s_last := u; s_gpio := s_gpio x; s_target := s_target x; s_sender := s_sender x;
     g_t0 := g_t0 x; g_dur := g_dur x; g_u0 := g_u0 x; g_tl := tl |}.
Definition active (x : slot) : bool := negb (s_chan x =? 255) && (0 <? s_left x).

(* ---------- outgoing calls (C06) and observable outputs ---------- *)
Inductive call := CVal (ch v : Z) | CRes (ch sender ok : Z) | CExt (ch rem target sender : Z) | COther (id : Z).
Inductive out :=
| OGpio (t pin lvl : Z)                       (* the output register changed *)
| OReboot (t : Z)
| OSaved (t : Z) (r t2 : list Z)              (* state sector written *)
| OSt (t d armed : Z) (per : list Z)          (* sampled after every event *)
| OFuel | OUnknown
| OWire (t : Z) (c : call)                    (* a queued call reached the wire *)
| ODrop (t : Z) (c : call)                    (* a call was refused by the full out-queue *)
| OLost (t : Z) (c : call)                    (* C06: a frame was lost in devconn's send buffer (overflow / hard error of espconn_sent) *)
(* ghost outputs (never sent to the harness): the life of a countdown slot *)
| GArm (t0 ch dur target : Z)                 (* countdown(): slot armed at true time t0 for dur ms *)
| GFinish (tcb ch target t0 dur u0 u : Z)     (* the slot armed at t0 expired: evaluated at true time tcb, ms reading u *)
| GEvalStart (due t : Z)                      (* an evaluation of the slot table starts at t; due = due time of the shared timer *)
| GEvalEnd (t : Z)                            (* ... and ends (after its finish callbacks) *)
| GPoll (last a : Z).                         (* uptime_usec read the counter when the unwrapped count since boot was a;
                                                 the previous reading was taken at count last *)

Record st := {
  now : Z;
  cnt0 : Z;
  tb : Z;
  upc : Z;
  upl : Z;
  gout : Z;
  slots : list slot;
  delay : Z;
  tcd : tmr;
  tsv : tmr;
  tup : tmr;
  seqc : Z;
  li : Z;
  ram_relay : list Z;
  ram_t2 : list Z;
  fl_relay : list Z;
  fl_t2 : list Z;
  chfl : list Z;
  time2 : list Z;
  conn : bool;
  reg : bool;
  queue : list call;
  regreq : bool;
  obuf : list (call * Z);
  sb_n : Z;
  sres : list Z;
  inq : list (Z * Z * Z * Z);
  outs : list out
}.
Definition set_now (v : Z) (s : st) : st :=
  {| now := v; cnt0 := cnt0 s; tb := tb s; upc := upc s; upl := upl s; gout := gout s; slots := slots s; delay := delay s; tcd := tcd s; tsv := tsv s; tup := tup s; seqc := seqc s; li := li s; ram_relay := ram_relay s; ram_t2 := ram_t2 s; fl_relay := fl_relay s; fl_t2 := fl_t2 s; chfl := chfl s; time2 := time2 s; conn := conn s; reg := reg s; queue := queue s; regreq := regreq s; obuf := obuf s; sb_n := sb_n s; sres := sres s; inq := inq s; outs := outs s |}.
Definition set_cnt0 (v : Z) (s : st) : st :=
  {| now := now s; cnt0 := v; tb := tb s; upc := upc s; upl := upl s; gout := gout s; slots := slots s; delay := delay s; tcd := tcd s; tsv := tsv s; tup := tup s; seqc := seqc s; li := li s; ram_relay := ram_relay s; ram_t2 := ram_t2 s; fl_relay := fl_relay s; fl_t2 := fl_t2 s; chfl := chfl s; time2 := time2 s; conn := conn s; reg := reg s; queue := queue s; regreq := regreq s; obuf := obuf s; sb_n := sb_n s; sres := sres s; inq := inq s; outs := outs s |}.
Definition set_tb (v : Z) (s : st) : st :=
  {| now := now s; cnt0 := cnt0 s; tb := v; upc := upc s; upl := upl s; gout := gout s; slots := slots s; delay := delay s; tcd := tcd s; tsv := tsv s; tup := tup s; seqc := seqc s; li := li s; ram_relay := ram_relay s; ram_t2 := ram_t2 s; fl_relay := fl_relay s; fl_t2 := fl_t2 s; chfl := chfl s; time2 := time2 s; conn := conn s; reg := reg s; queue := queue s; regreq := regreq s; obuf := obuf s; sb_n := sb_n s; sres := sres s; inq := inq s; outs := outs s |}.
Definition set_upc (v : Z) (s : st) : st :=
  {| now := now s; cnt0 := cnt0 s; tb := tb s; upc := v; upl := upl s; gout := gout s; slots := slots s; delay := delay s; tcd := tcd s; tsv := tsv s; tup := tup s; seqc := seqc s; li := li s; ram_relay := ram_relay s; ram_t2 := ram_t2 s; fl_relay := fl_relay s; fl_t2 := fl_t2 s; chfl := chfl s; time2 := time2 s; conn := conn s; reg := reg s; queue := queue s; regreq := regreq s; obuf := obuf s; sb_n := sb_n s; sres := sres s; inq := inq s; outs := outs s |}.
Definition set_upl (v : Z) (s : st) : st :=
  {| now := now s; cnt0 := cnt0 s; tb := tb s; upc := upc s; upl := v; gout := gout s; slots := slots s; delay := delay s; tcd := tcd s; tsv := tsv s; tup := tup s; seqc := seqc s; li := li s; ram_relay := ram_relay s; ram_t2 := ram_t2 s; fl_relay := fl_relay s; fl_t2 := fl_t2 s; chfl := chfl s; time2 := time2 s; conn := conn s; reg := reg s; queue := queue s; regreq := regreq s; obuf := obuf s; sb_n := sb_n s; sres := sres s; inq := inq s; outs := outs s |}.
Definition set_gout (v : Z) (s : st) : st :=
  {| now := now s; cnt0 := cnt0 s; tb := tb s; upc := upc s; upl := upl s; gout := v; slots := slots s; delay := delay s; tcd := tcd s; tsv := tsv s; tup := tup s; seqc := seqc s; li := li s; ram_relay := ram_relay s; ram_t2 := ram_t2 s; fl_relay := fl_relay s; fl_t2 := fl_t2 s; chfl := chfl s; time2 := time2 s; conn := conn s; reg := reg s; queue := queue s; regreq := regreq s; obuf := obuf s; sb_n := sb_n s; sres := sres s; inq := inq s; outs := outs s |}.
Definition set_slots (v : list slot) (s : st) : st :=
  {| now := now s; cnt0 := cnt0 s; tb := tb s; upc := upc s; upl := upl s; gout := gout s; slots := v; delay := delay s; tcd := tcd s; tsv := tsv s; tup := tup s; seqc := seqc s; li := li s; ram_relay := ram_relay s; ram_t2 := ram_t2 s; fl_relay := fl_relay s; fl_t2 := fl_t2 s; chfl := chfl s; time2 := time2 s; conn := conn s; reg := reg s; queue := queue s; regreq := regreq s; obuf := obuf s; sb_n := sb_n s; sres := sres s; inq := inq s; outs := outs s |}.
Definition set_delay (v : Z) (s : st) : st :=
  {| now := now s; cnt0 := cnt0 s; tb := tb s; upc := upc s; upl := upl s; gout := gout s; slots := slots s; delay := v; tcd := tcd s; tsv := tsv s; tup := tup s; seqc := seqc s; li := li s; ram_relay := ram_relay s; ram_t2 := ram_t2 s; fl_relay := fl_relay s; fl_t2 := fl_t2 s; chfl := chfl s; time2 := time2 s; conn := conn s; reg := reg s; queue := queue s; regreq := regreq s; obuf := obuf s; sb_n := sb_n s; sres := sres s; inq := inq s; outs := outs s |}.
Definition set_tcd (v : tmr) (s : st) : st :=
  {| now := now s; cnt0 := cnt0 s; tb := tb s; upc := upc s; upl := upl s; gout := gout s; slots := slots s; delay := delay s; tcd := v; tsv := tsv s; tup := tup s; seqc := seqc s; li := li s; ram_relay := ram_relay s; ram_t2 := ram_t2 s; fl_relay := fl_relay s; fl_t2 := fl_t2 s; chfl := chfl s; time2 := time2 s; conn := conn s; reg := reg s; queue := queue s; regreq := regreq s; obuf := obuf s; sb_n := sb_n s; sres := sres s; inq := inq s; outs := outs s |}.
Definition set_tsv (v : tmr) (s : st) : st :=
  {| now := now s; cnt0 := cnt0 s; tb := tb s; upc := upc s; upl := upl s; gout := gout s; slots := slots s; delay := delay s; tcd := tcd s; tsv := v; tup := tup s; seqc := seqc s; li := li s; ram_relay := ram_relay s; ram_t2 := ram_t2 s; fl_relay := fl_relay s; fl_t2 := fl_t2 s; chfl := chfl s; time2 := time2 s; conn := conn s; reg := reg s; queue := queue s; regreq := regreq s; obuf := obuf s; sb_n := sb_n s; sres := sres s; inq := inq s; outs := outs s |}.
Definition set_tup (v : tmr) (s : st) : st :=
  {| now := now s; cnt0 := cnt0 s; tb := tb s; upc := upc s; upl := upl s; gout := gout s; slots := slots s; delay := delay s; tcd := tcd s; tsv := tsv s; tup := v; seqc := seqc s; li := li s; ram_relay := ram_relay s; ram_t2 := ram_t2 s; fl_relay := fl_relay s; fl_t2 := fl_t2 s; chfl := chfl s; time2 := time2 s; conn := conn s; reg := reg s; queue := queue s; regreq := regreq s; obuf := obuf s; sb_n := sb_n s; sres := sres s; inq := inq s; outs := outs s |}.
Definition set_seqc (v : Z) (s : st) : st :=
  {| now := now s; cnt0 := cnt0 s; tb := tb s; upc := upc s; upl := upl s; gout := gout s; slots := slots s; delay := delay s; tcd := tcd s; tsv := tsv s; tup := tup s; seqc := v; li := li s; ram_relay := ram_relay s; ram_t2 := ram_t2 s; fl_relay := fl_relay s; fl_t2 := fl_t2 s; chfl := chfl s; time2 := time2 s; conn := conn s; reg := reg s; queue := queue s; regreq := regreq s; obuf := obuf s; sb_n := sb_n s; sres := sres s; inq := inq s; outs := outs s |}.
Definition set_li (v : Z) (s : st) : st :=
  {| now := now s; cnt0 := cnt0 s; tb := tb s; upc := upc s; upl := upl s; gout := gout s; slots := slots s; delay := delay s; tcd := tcd s; tsv := tsv s; tup := tup s; seqc := seqc s; li := v; ram_relay := ram_relay s; ram_t2 := ram_t2 s; fl_relay := fl_relay s; fl_t2 := fl_t2 s; chfl := chfl s; time2 := time2 s; conn := conn s; reg := reg s; queue := queue s; regreq := regreq s; obuf := obuf s; sb_n := sb_n s; sres := sres s; inq := inq s; outs := outs s |}.
Definition set_ram_relay (v : list Z) (s : st) : st :=
  {| now := now s; cnt0 := cnt0 s; tb := tb s; upc := upc s; upl := upl s; gout := gout s; slots := slots s; delay := delay s; tcd := tcd s; tsv := tsv s; tup := tup s; seqc := seqc s; li := li s; ram_relay := v; ram_t2 := ram_t2 s; fl_relay := fl_relay s; fl_t2 := fl_t2 s; chfl := chfl s; time2 := time2 s; conn := conn s; reg := reg s; queue := queue s; regreq := regreq s; obuf := obuf s; sb_n := sb_n s; sres := sres s; inq := inq s; outs := outs s |}.
Definition set_ram_t2 (v : list Z) (s : st) : st :=
  {| now := now s; cnt0 := cnt0 s; tb := tb s; upc := upc s; upl := upl s; gout := gout s; slots := slots s; delay := delay s; tcd := tcd s; tsv := tsv s; tup := tup s; seqc := seqc s; li := li s; ram_relay := ram_relay s; ram_t2 := v; fl_relay := fl_relay s; fl_t2 := fl_t2 s; chfl := chfl s; time2 := time2 s; conn := conn s; reg := reg s; queue := queue s; regreq := regreq s; obuf := obuf s; sb_n := sb_n s; sres := sres s; inq := inq s; outs := outs s |}.
Definition set_fl_relay (v : list Z) (s : st) : st :=
  {| now := now s; cnt0 := cnt0 s; tb := tb s; upc := upc s; upl := upl s; gout := gout s; slots := slots s; delay := delay s; tcd := tcd s; tsv := tsv s; tup := tup s; seqc := seqc s; li := li s; ram_relay := ram_relay s; ram_t2 := ram_t2 s; fl_relay := v; fl_t2 := fl_t2 s; chfl := chfl s; time2 := time2 s; conn := conn s; reg := reg s; queue := queue s; regreq := regreq s; obuf := obuf s; sb_n := sb_n s; sres := sres s; inq := inq s; outs := outs s |}.
Definition set_fl_t2 (v : list Z) (s : st) : st :=
  {| now := now s; cnt0 := cnt0 s; tb := tb s; upc := upc s; upl := upl s; gout := gout s; slots := slots s; delay := delay s; tcd := tcd s; tsv := tsv s; tup := tup s; seqc := seqc s; li := li s; ram_relay := ram_relay s; ram_t2 := ram_t2 s; fl_relay := fl_relay s; fl_t2 := v; chfl := chfl s; time2 := time2 s; conn := conn s; reg := reg s; queue := queue s; regreq := regreq s; obuf := obuf s; sb_n := sb_n s; sres := sres s; inq := inq s; outs := outs s |}.
Definition set_chfl (v : list Z) (s : st) : st :=
  {| now := now s; cnt0 := cnt0 s; tb := tb s; upc := upc s; upl := upl s; gout := gout s; slots := slots s; delay := delay s; tcd := tcd s; tsv := tsv s; tup := tup s; seqc := seqc s; li := li s; ram_relay := ram_relay s; ram_t2 := ram_t2 s; fl_relay := fl_relay s; fl_t2 := fl_t2 s; chfl := v; time2 := time2 s; conn := conn s; reg := reg s; queue := queue s; regreq := regreq s; obuf := obuf s; sb_n := sb_n s; sres := sres s; inq := inq s; outs := outs s |}.
Definition set_time2 (v : list Z) (s : st) : st :=
  {| now := now s; cnt0 := cnt0 s; tb := tb s; upc := upc s; upl := upl s; gout := gout s; slots := slots s; delay := delay s; tcd := tcd s; tsv := tsv s; tup := tup s; seqc := seqc s; li := li s; ram_relay := ram_relay s; ram_t2 := ram_t2 s; fl_relay := fl_relay s; fl_t2 := fl_t2 s; chfl := chfl s; time2 := v; conn := conn s; reg := reg s; queue := queue s; regreq := regreq s; obuf := obuf s; sb_n := sb_n s; sres := sres s; inq := inq s; outs := outs s |}.
Definition set_conn (v : bool) (s : st) : st :=
  {| now := now s; cnt0 := cnt0 s; tb := tb s; upc := upc s; upl := upl s; gout := gout s; slots := slots s; delay := delay s; tcd := tcd s; tsv := tsv s; tup := tup s; seqc := seqc s; li := li s; ram_relay := ram_relay s; ram_t2 := ram_t2 s; fl_relay := fl_relay s; fl_t2 := fl_t2 s; chfl := chfl s; time2 := time2 s; conn := v; reg := reg s; queue := queue s; regreq := regreq s; obuf := obuf s; sb_n := sb_n s; sres := sres s; inq := inq s; outs := outs s |}.
Definition set_reg (v : bool) (s : st) : st :=
  {| now := now s; cnt0 := cnt0 s; tb := tb s; upc := upc s; upl := upl s; gout := gout s; slots := slots s; delay := delay s; tcd := tcd s; tsv := tsv s; tup := tup s; seqc := seqc s; li := li s; ram_relay := ram_relay s; ram_t2 := ram_t2 s; fl_relay := fl_relay s; fl_t2 := fl_t2 s; chfl := chfl s; time2 := time2 s; conn := conn s; reg := v; queue := queue s; regreq := regreq s; obuf := obuf s; sb_n := sb_n s; sres := sres s; inq := inq s; outs := outs s |}.
Definition set_queue (v : list call) (s : st) : st :=
  {| now := now s; cnt0 := cnt0 s; tb := tb s; upc := upc s; upl := upl s; gout := gout s; slots := slots s; delay := delay s; tcd := tcd s; tsv := tsv s; tup := tup s; seqc := seqc s; li := li s; ram_relay := ram_relay s; ram_t2 := ram_t2 s; fl_relay := fl_relay s; fl_t2 := fl_t2 s; chfl := chfl s; time2 := time2 s; conn := conn s; reg := reg s; queue := v; regreq := regreq s; obuf := obuf s; sb_n := sb_n s; sres := sres s; inq := inq s; outs := outs s |}.
Definition set_regreq (v : bool) (s : st) : st :=
  {| now := now s; cnt0 := cnt0 s; tb := tb s; upc := upc s; upl := upl s; gout := gout s; slots := slots s; delay := delay s; tcd := tcd s; tsv := tsv s; tup := tup s; seqc := seqc s; li := li s; ram_relay := ram_relay s; ram_t2 := ram_t2 s; fl_relay := fl_relay s; fl_t2 := fl_t2 s; chfl := chfl s; time2 := time2 s; conn := conn s; reg := reg s; queue := queue s; regreq := v; obuf := obuf s; sb_n := sb_n s; sres := sres s; inq := inq s; outs := outs s |}.
Definition set_obuf (v : list (call * Z)) (s : st) : st :=
  {| now := now s; cnt0 := cnt0 s; tb := tb s; upc := upc s; upl := upl s; gout := gout s; slots := slots s; delay := delay s; tcd := tcd s; tsv := tsv s; tup := tup s; seqc := seqc s; li := li s; ram_relay := ram_relay s; ram_t2 := ram_t2 s; fl_relay := fl_relay s; fl_t2 := fl_t2 s; chfl := chfl s; time2 := time2 s; conn := conn s; reg := reg s; queue := queue s; regreq := regreq s; obuf := v; sb_n := sb_n s; sres := sres s; inq := inq s; outs := outs s |}.
Definition set_sb_n (v : Z) (s : st) : st :=
  {| now := now s; cnt0 := cnt0 s; tb := tb s; upc := upc s; upl := upl s; gout := gout s; slots := slots s; delay := delay s; tcd := tcd s; tsv := tsv s; tup := tup s; seqc := seqc s; li := li s; ram_relay := ram_relay s; ram_t2 := ram_t2 s; fl_relay := fl_relay s; fl_t2 := fl_t2 s; chfl := chfl s; time2 := time2 s; conn := conn s; reg := reg s; queue := queue s; regreq := regreq s; obuf := obuf s; sb_n := v; sres := sres s; inq := inq s; outs := outs s |}.
Definition set_sres (v : list Z) (s : st) : st :=
  {| now := now s; cnt0 := cnt0 s; tb := tb s; upc := upc s; upl := upl s; gout := gout s; slots := slots s; delay := delay s; tcd := tcd s; tsv := tsv s; tup := tup s; seqc := seqc s; li := li s; ram_relay := ram_relay s; ram_t2 := ram_t2 s; fl_relay := fl_relay s; fl_t2 := fl_t2 s; chfl := chfl s; time2 := time2 s; conn := conn s; reg := reg s; queue := queue s; regreq := regreq s; obuf := obuf s; sb_n := sb_n s; sres := v; inq := inq s; outs := outs s |}.
Definition set_inq (v : list (Z * Z * Z * Z)) (s : st) : st :=
  {| now := now s; cnt0 := cnt0 s; tb := tb s; upc := upc s; upl := upl s; gout := gout s; slots := slots s; delay := delay s; tcd := tcd s; tsv := tsv s; tup := tup s; seqc := seqc s; li := li s; ram_relay := ram_relay s; ram_t2 := ram_t2 s; fl_relay := fl_relay s; fl_t2 := fl_t2 s; chfl := chfl s; time2 := time2 s; conn := conn s; reg := reg s; queue := queue s; regreq := regreq s; obuf := obuf s; sb_n := sb_n s; sres := sres s; inq := v; outs := outs s |}.
Definition set_outs (v : list out) (s : st) : st :=
  {| now := now s; cnt0 := cnt0 s; tb := tb s; upc := upc s; upl := upl s; gout := gout s; slots := slots s; delay := delay s; tcd := tcd s; tsv := tsv s; tup := tup s; seqc := seqc s; li := li s; ram_relay := ram_relay s; ram_t2 := ram_t2 s; fl_relay := fl_relay s; fl_t2 := fl_t2 s; chfl := chfl s; time2 := time2 s; conn := conn s; reg := reg s; queue := queue s; regreq := regreq s; obuf := obuf s; sb_n := sb_n s; sres := sres s; inq := inq s; outs := v |}.

Definition emit (o : out) (s : st) : st := set_outs (o :: outs s) s.
Definition delay_us (n : Z) (s : st) : st := set_now (now s + n) s.

(* ---------- uptime.c ---------- *)
Definition counter (s : st) : Z := u32 (cnt0 s + (now s - tb s)).
Definition uptime_usec (s : st) : st * Z :=
  let t := counter s in
  let c := if t <? upl s then u32 (upc s + 1) else upc s in
  (emit (GPoll (upc s * 4294967296 + upl s) (cnt0 s + (now s - tb s))) (set_upl t (set_upc c s)), c * 4294967295 + t).
Definition uptime_msec (s : st) : st * Z := let '(s1, u) := uptime_usec s in (s1, u / 1000).

(* ---------- timers ---------- *)
Definition get_t (i : tid) (s : st) : tmr := match i with TCD => tcd s | TSV => tsv s | TUP => tup s end.
Definition set_t (i : tid) (t : tmr) (s : st) : st :=
  match i with TCD => set_tcd t s | TSV => set_tsv t s | TUP => set_tup t s end.
Definition t_disarm (i : tid) (s : st) : st := set_t i tmr0 s.
Definition t_arm (i : tid) (ms : Z) (rep : bool) (s : st) : st :=
  set_t i {| t_on := true; t_due := now s + ms * 1000; t_seq := seqc s + 1; t_per := if rep then ms * 1000 else 0 |}
        (set_seqc (seqc s + 1) s).

(* ---------- gpio ---------- *)
Fixpoint find_gpio (rs : list relay) (idx : Z) (port : Z) : option (Z * relay) :=
  match rs with
  | [] => None
  | r :: t => if r_gpio r =? port then Some (idx, r) else find_gpio t (idx + 1) port
  end.
Fixpoint find_chan (rs : list relay) (idx : Z) (ch : Z) : option (Z * relay) :=
  match rs with
  | [] => None
  | r :: t => if r_chan r =? ch then Some (idx, r) else find_chan t (idx + 1) ch
  end.
Definition pin (s : st) (port : Z) : bool := Z.testbit (gout s) port.
Definition gpio_write (port : Z) (v : bool) (s : st) : st :=
  if Bool.eqb (pin s port) v then s
  else emit (OGpio (now s) port (if v then 1 else 0))
            (set_gout (if v then Z.setbit (gout s) port else Z.clearbit (gout s) port) s).
(* supla_esp_gpio_relay_is_hi *)
Definition relay_is_hi (c : cfg) (port : Z) (s : st) : Z :=
  let b := pin s port in
  match find_gpio (c_relays c) 0 port with
  | Some (_, r) => if hasf (r_flags r) FLAG_LO_LEVEL then (if b then LO else HI) else (if b then HI else LO)
  | None => if b then HI else LO
  end.

(* ---------- supla_esp_save_state ---------- *)
Definition do_save (s : st) : st :=
  set_fl_t2 (ram_t2 s) (set_fl_relay (ram_relay s) (emit (OSaved (now s) (ram_relay s) (ram_t2 s)) s)).
Definition save_state (ms : Z) (s : st) : st :=
  let s1 := t_disarm TSV s in
  if 0 <? ms then t_arm TSV ms false s1 else do_save s1.

(* ---------- supla_esp_gpio_relay_hi (non-shutter) ---------- *)
Definition relay_hi (c : cfg) (port hi : Z) (s : st) : st :=
  let hi1 := if hi =? 255 then (if relay_is_hi c port s =? 1 then 0 else 1) else hi in
  let fr := find_gpio (c_relays c) 0 port in
  let lvl := match fr with
             | Some (_, r) => if hasf (r_flags r) FLAG_LO_LEVEL then (if hi1 =? HI then LO else HI) else hi1
             | None => hi1 end in
  let s1 := delay_us 10 s in
  let s2 := gpio_write port (lvl =? 1) s1 in
  let s3 := delay_us 10 (delay_us DOUBLE_TRY_US s2) in
  match fr with
  | Some (a, r) =>
      if hasf (r_flags r) FLAG_RESTORE || hasf (r_flags r) FLAG_RESTORE_FORCE
      then save_state SAVE_DELAY_MS (set_ram_relay (setz (ram_relay s3) a hi1) s3)
      else s3
  | None => s3
  end.

(* ---------- out-queue of srpc (capacity SRPC_QUEUE_SIZE), used by C06 ---------- *)
Definition do_call (k : call) (s : st) : st :=
  if len (queue s) <? QUEUE_SIZE then set_queue (queue s ++ [k]) s else emit (ODrop (now s) k) s.
Definition value_changed (ch v : Z) (s : st) : st := if reg s then do_call (CVal ch v) s else s.
Definition set_result (ch sender ok : Z) (s : st) : st := if conn s then do_call (CRes ch sender ok) s else s.

(* supla_esp_countdown_get_state: the last slot carrying the channel *)
Fixpoint get_state (l : list slot) (ch : Z) (acc : Z * Z * Z) : Z * Z * Z :=
  match l with
  | [] => acc
  | x :: t => get_state t ch (if s_chan x =? ch then (s_left x, s_target x, s_sender x) else acc)
  end.
Definition ext_changed (c : cfg) (ch : Z) (s : st) : st :=
  if reg s then let '(rem, tg, sd) := get_state (slots s) ch (0, 0, 0) in do_call (CExt ch rem tg sd) s else s.
(* channel_flags of the first configured relay carrying the channel *)
Definition chflags_of (c : cfg) (ch : Z) (s : st) : option Z :=
  match find_chan (c_relays c) 0 ch with Some (a, _) => Some (getz (chfl s) a) | None => None end.

(* ---------- supla_esp_countdown_timer.c ---------- *)
Definition clampd (left : Z) : Z :=
  let d := left / CD_DIV in if d <? CD_MIN then CD_MIN else if CD_MAX <? d then CD_MAX else d.
Fixpoint min_delay (l : list slot) (acc : Z) : Z :=
  match l with
  | [] => acc
  | x :: t => min_delay t (if active x then (let d := clampd (s_left x) in if (acc =? 0) || (d <? acc) then d else acc) else acc)
  end.
Definition startstop (s : st) : st :=
  let d := min_delay (slots s) 0 in
  if (d =? 0) || negb (d =? delay s) then
    let s1 := set_delay d (t_disarm TCD s) in
    if 0 <? d then t_arm TCD d true s1 else s1
  else s.

Definition t2_set (ch v : Z) (s : st) : st := if ch <? ST_T2_COUNT then set_ram_t2 (setz (ram_t2 s) ch v) s else s.

(* _supla_esp_channel_set_value: drive the relay, read back, report; returns success *)
Definition chan_set_value (c : cfg) (port v ch : Z) (s : st) : st * Z :=
  let want := if v =? 1 then HI else LO in
  let s1 := relay_hi c port want s in
  let rb := relay_is_hi c port s1 in
  (value_changed ch (if rb =? HI then 1 else 0) s1, if want =? rb then 1 else 0).

(* one iteration of the loop of supla_esp_countdown_timer_cb *)
Definition cb_slot (c : cfg) (a : Z) (s : st) : st :=
  let x := nth (Z.to_nat a) (slots s) slot_free in
  if active x then
    let '(s1, u) := uptime_msec s in
    let diff := (u - s_last x) mod 18446744073709551616 in
    if s_left x <=? diff then
      (* expired: finish callback (devconn), then the slot is released (the ghost record is written with the release) *)
      let '(s3, _) := chan_set_value c (s_gpio x) (if s_target x =? 0 then LO else HI) (s_chan x) s1 in
      let s4 := t2_set (s_chan x) 0 s3 in
      set_slots (upd (slots s4) (Z.to_nat a) (slot_release x u (now s1)))
                (emit (GFinish (now s1) (s_chan x) (s_target x) (g_t0 x) (g_dur x) (g_u0 x) u) s4)
    else
      let left := u32 (s_left x - diff) in
      let s3 := t2_set (s_chan x) left s1 in
      set_slots (upd (slots s3) (Z.to_nat a) (slot_run x left u (now s1))) s3
  else s.
Definition slot_idx : list Z := [0; 1; 2; 3; 4; 5; 6; 7].
Definition cd_loop (c : cfg) (s : st) : st := fold_left (fun acc a => cb_slot c a acc) slot_idx s.
(* body of supla_esp_countdown_timer_cb; `due` only feeds the ghost output *)
Definition cd_cb (c : cfg) (due : Z) (s : st) : st :=
  let s1 := cd_loop c (emit (GEvalStart due (now s)) s) in
  startstop (emit (GEvalEnd (now s1)) s1).

Fixpoint find_slot (l : list slot) (idx : Z) (ch : Z) : option Z :=
  match l with
  | [] => None
  | x :: t => if s_chan x =? ch then Some idx else find_slot t (idx + 1) ch
  end.
(* supla_esp_countdown_timer_countdown.  evalcmd = true is the repair: a new command first evaluates the running
   slots (timer callback body), then sets up its own slot and re-arms the timer *)
Definition countdown_arm_slot (c : cfg) (ms gpio ch target sender : Z) (s : st) : st :=
  let oi := match find_slot (slots s) 0 ch with Some i => Some i | None => find_slot (slots s) 0 255 end in
  match oi with
  | None => s
  | Some i =>
    let '(s1, u) := uptime_msec s in
    let s2 := set_slots (upd (slots s1) (Z.to_nat i)
       {| s_chan := ch; s_left := ms; s_last := u; s_gpio := gpio; s_target := target; s_sender := sender;
          g_t0 := now s; g_dur := ms; g_u0 := u; g_tl := now s |}) (emit (GArm (now s) ch ms target) s1) in
    startstop (t2_set ch ms s2)
  end.
Definition countdown (evalcmd : bool) (c : cfg) (ms gpio ch target sender : Z) (s : st) : st :=
  countdown_arm_slot c ms gpio ch target sender
    (if evalcmd then cd_cb c (if t_on (tcd s) then t_due (tcd s) else now s) s else s).
(* supla_esp_countdown_timer_disarm + devconn's on_disarm callback *)
Definition disarm (c : cfg) (ch : Z) (s : st) : st :=
  match find_slot (slots s) 0 ch with
  | None => s
  | Some i =>
    let x := nth (Z.to_nat i) (slots s) slot_free in
    let s1 := set_slots (upd (slots s) (Z.to_nat i) (slot_release x (s_last x) (g_tl x))) s in
    if 0 <? s_left x then
      let s2 := t2_set ch 0 s1 in
      match chflags_of c ch s2 with
      | Some f => if hasf f CHFLAG_COUNTDOWN then ext_changed c ch s2 else s2
      | None => s2
      end
    else s1
  end.

(* ---------- supla_esp_gpio_relay_set_duration_timer ---------- *)
Definition set_duration_timer (e : bool) (c : cfg) (ch newv dur sender : Z) (s : st) : st :=
  let stair := (ch <? ST_T2_COUNT) && (ch <? T2_COUNT) && (0 <? getz (time2 s) ch) in
  let s0 := if stair && (newv =? 0) then set_ram_t2 (setz (ram_t2 s) ch 0) s else s in
  let dur1 := if stair then
                (if newv =? 0 then 0
                 else if (dur =? 0) || negb (getz (ram_t2 s) ch =? u32 dur) then s32 (getz (time2 s) ch) else dur)
              else dur in
  let s1 := disarm c (u8 ch) s0 in
  if 0 <? dur1 then
    match find_chan (c_relays c) 0 ch with
    | None => s1
    | Some (a, r) =>
      let f := getz (chfl s1) a in
      let s2 := if (newv =? 1) || hasf f CHFLAG_COUNTDOWN
                then countdown e c (u32 dur1) (r_gpio r) (u8 ch) (if newv =? 0 then 1 else 0) sender s1 else s1 in
      if hasf f CHFLAG_COUNTDOWN then ext_changed c ch s2 else s2
    end
  else s1.

(* ---------- supla_esp_channel_set_value, relay branch (v : signed char, dur : DurationMS as int) ---------- *)
Definition channel_set_value (e : bool) (c : cfg) (ch v dur sender : Z) (s : st) : st :=
  match find_chan (c_relays c) 0 ch with
  | None => set_result ch sender 0 s
  | Some (_, r) =>
    let s1 := set_duration_timer e c (r_chan r) v (s32 dur) sender s in
    let '(s2, ok) := chan_set_value c (r_gpio r) v ch s1 in
    set_result ch sender ok s2
  end.

(* ---------- supla_esp_gpio_relay_switch (button path); the port is a configured relay ---------- *)
Fixpoint last_chan (rs : list relay) (port : Z) (acc : Z) : Z :=
  match rs with [] => acc | r :: t => last_chan t port (if r_gpio r =? port then r_chan r else acc) end.
Definition relay_switch (e : bool) (c : cfg) (port hi : Z) (s : st) : st :=
  let ch := last_chan (c_relays c) port (-1) in
  if ch <? 0 then s else
  let hi1 := if (ch <? T2_COUNT) && negb (hi =? 0) && (0 <? getz (time2 s) ch) && (c_sbt c =? SBT_RESET) then HI else hi in
  let hi2 := if hi1 =? 255 then (if relay_is_hi c port s =? 1 then LO else HI) else hi1 in
  let s1 := if ch <? ST_T2_COUNT
            then set_duration_timer e c ch hi2 0 0 (set_ram_t2 (setz (ram_t2 s) ch 0) s) else s in
  let s2 := relay_hi c port hi2 s1 in
  value_changed ch (relay_is_hi c port s2) s2.

(* ---------- timer callbacks and v_advance ---------- *)
Definition run_cb (e : bool) (c : cfg) (i : tid) (due : Z) (s : st) : st :=
  match i with
  | TCD => cd_cb c due s
  | TSV => do_save s
  | TUP => fst (uptime_usec s)
  end.
Definition due_ok (t : tmr) (end_ : Z) : bool := t_on t && (t_due t <=? end_).
Definition before (a b : tmr) : bool := (t_due a <? t_due b) || ((t_due a =? t_due b) && (t_seq a <? t_seq b)).
Definition pick (s : st) (end_ : Z) : option tid :=
  let cand := filter (fun i => due_ok (get_t i s) end_) [TCD; TSV; TUP] in
  fold_left (fun best i => match best with
                           | None => Some i
                           | Some b => if before (get_t i s) (get_t b s) then Some i else Some b
                           end) cand None.
Definition fire (e : bool) (c : cfg) (i : tid) (s : st) : st :=
  let t := get_t i s in
  let n := len (c_late c) in
  let late := if 0 <? n then getz (c_late c) (li s mod n) else 0 in
  let s1 := if 0 <? n then set_li (li s + 1) s else s in
  let at_ := t_due t + late in
  let s2 := if now s1 <? at_ then set_now at_ s1 else s1 in
  let s3 := if negb (t_per t =? 0)
            then set_t i {| t_on := true; t_due := t_due t + t_per t; t_seq := seqc s2 + 1; t_per := t_per t |}
                         (set_seqc (seqc s2 + 1) s2)
            else set_t i {| t_on := false; t_due := t_due t; t_seq := t_seq t; t_per := 0 |} s2 in
  run_cb e c i (t_due t) s3.
Fixpoint adv (e : bool) (c : cfg) (fuel : nat) (end_ : Z) (s : st) : st :=
  match fuel with
  | O => emit OFuel s
  | S k => match pick s end_ with
           | None => s
           | Some i => adv e c k end_ (fire e c i s)
           end
  end.
Definition advance (e : bool) (c : cfg) (dt : Z) (s : st) : st :=
  let end_ := now s + dt in
  let s1 := adv e c (Z.to_nat (dt / 20000 + 64)) end_ s in
  if now s1 <? end_ then set_now end_ s1 else s1.

(* ---------- boot: user_init order (uptime_init, cfg_init, countdown_timer_init, gpio_init restore, devconn_init) ---------- *)
Definition restore_relay (e : bool) (c : cfg) (s : st) (ar : Z * relay) : st :=
  let '(a, r) := ar in
  if hasf (r_flags r) FLAG_RESTORE_FORCE || hasf (r_flags r) FLAG_RESTORE then
    let rv := getz (ram_relay s) a in
    let s1 := if (0 <=? r_chan r) && (r_chan r <? ST_T2_COUNT)
              then set_duration_timer e c (r_chan r) (s8 rv) (s32 (getz (ram_t2 s) (r_chan r))) 0 s else s in
    relay_hi c (r_gpio r) rv s1
  else if hasf (r_flags r) FLAG_RESET then relay_hi c (r_gpio r) LO s
  else s.
Fixpoint enum {A} (i : Z) (l : list A) : list (Z * A) :=
  match l with [] => [] | x :: t => (i, x) :: enum (i + 1) t end.
Definition zeros8 : list Z := [0; 0; 0; 0; 0; 0; 0; 0].
(* l = the relays handled by the restore loop (all of them unless a motion-sensor input owns the relay, C06) *)
Definition boot_l (e : bool) (c : cfg) (l : list (Z * relay)) (s : st) : st :=
  (* RAM is fresh; `s` carries now, the flash image, the outputs so far and the (static) staircase times *)
  (* ... and upc = the wrap count the uptime starts with: 0 after a restart; c_boot / 2^32 at the first boot of a case
     (an aged device: the driver presets usermain_uptime.cycles, c_boot mod 2^32 is the counter value) *)
  let s1 := t_arm TUP UPTIME_POLL_MS true
              (set_upl 0 (set_seqc 0 (set_li 0 (set_tcd tmr0 (set_tsv tmr0 (set_tup tmr0 s)))))) in
  let s2 := set_ram_relay (fl_relay s1) (set_ram_t2 (fl_t2 s1) s1) in
  let s3 := set_slots (repeat slot_free 8) (set_delay 0 s2) in
  let s4 := set_chfl (if c_lateflags c then map (fun _ => 0) (c_relays c) else map r_chfl (c_relays c)) s3 in
  let s5 := set_obuf [] (set_regreq false (set_queue [] (set_conn false (set_reg false (set_gout 0 s4))))) in
  (* the restore loop never evaluates running slots: the finish callback is registered by devconn_init, after it
     (countdown(): `if (finish_cb) timer_cb(NULL)`) *)
  let s6 := fold_left (restore_relay false c) l s5 in
  (* devconn_init: last_response = uptime_sec() (a clock reading), then it arms its watchdog (disarmed again by
     the offline harness) *)
  let s7 := fst (uptime_usec s6) in
  set_seqc (seqc s7 + 1) s7.

Definition boot (e : bool) (c : cfg) (s : st) : st := boot_l e c (enum 0 (c_relays c)) s.

Definition pad8 (l : list Z) : list Z := firstn 8 (l ++ zeros8).
Definition init (c : cfg) : st :=
  {| now := 0; cnt0 := c_boot c; tb := 0; upc := c_boot c / 4294967296; upl := 0; gout := 0; slots := repeat slot_free 8; delay := 0;
     tcd := tmr0; tsv := tmr0; tup := tmr0; seqc := 0; li := 0;
     ram_relay := zeros8; ram_t2 := zeros8; fl_relay := zeros8; fl_t2 := zeros8;
     chfl := []; time2 := pad8 (c_time2 c); conn := false; reg := false; queue := []; regreq := false; obuf := []; sb_n := 0; sres := []; inq := []; outs := [] |}.

(* ---------- events of the C07 driver ---------- *)
Inductive ev :=
| ESet (ch v dur sender : Z)      (* supla_esp_channel_set_value *)
| ESw (port hi : Z)               (* supla_esp_gpio_relay_switch *)
| EAdv (dt : Z)
| ECrash
| ETime2 (ch ms : Z)
| EFlags
| EOther
| EChCfg (ch func ctype csize ms : Z).   (* supla_esp_channel_config_result: SET_CHANNEL_CONFIG / GET_CHANNEL_CONFIG_RESULT *)

Definition st_line (c : cfg) (s : st) : out :=
  OSt (now s) (delay s) (if t_on (tcd s) then 1 else 0)
      (flat_map (fun ar : Z * relay => let '(a, r) := ar in
                   let '(rem, _, _) := get_state (slots s) (r_chan r) (0, 0, 0) in
                   [rem; if r_chan r <? ST_T2_COUNT then getz (ram_t2 s) (r_chan r) else 0; getz (ram_relay s) a;
                    if pin s (r_gpio r) then 1 else 0]) (enum 0 (c_relays c))).

Definition crash (e : bool) (c : cfg) (s : st) : st :=
  boot e c (set_upc 0 (set_tb (now s) (set_cnt0 (c_boot2 c) (emit (OReboot (now s)) s)))).

(* supla_esp_channel_config_result, relay functions: the staircase time of the channel (0 for a power / light switch);
   only a changed value is stored, and then the timer of the channel is set up anew *)
Definition channel_config (e : bool) (c : cfg) (ch func ctype csize ms : Z) (s : st) : st :=
  if (0 <? func) && (ctype =? 0) && (csize =? 0) then s
  else if (func =? FNC_STAIRCASE) || (func =? FNC_POWERSWITCH) || (func =? FNC_LIGHTSWITCH) then
    if (0 <=? ch) && (ch <? T2_COUNT) then
      let t := if (func =? FNC_STAIRCASE) && (ctype =? 0) && (csize =? SIZEOF_STAIR_CFG) then u32 ms else 0 in
      if t =? getz (time2 s) ch then s
      else set_duration_timer e c ch 1 0 0 (set_time2 (setz (time2 s) ch t) s)
    else s
  else s.

Definition step (e : bool) (c : cfg) (s : st) (x : ev) : st :=
  let s1 := match x with
            | ESet ch v dur sender => channel_set_value e c (u8 ch) v dur sender s
            | ESw port hi => relay_switch e c port hi s
            | EAdv dt => advance e c dt s
            | ECrash => crash e c s
            | ETime2 ch ms => if (0 <=? ch) && (ch <? T2_COUNT) then set_time2 (setz (time2 s) ch ms) s else s
            | EFlags => set_chfl (map r_chfl (c_relays c)) s
            | EOther => emit OUnknown s
            | EChCfg ch func ctype csize ms => channel_config e c ch func ctype csize ms s
            end in
  emit (st_line c s1) s1.

Definition start (e : bool) (c : cfg) : st := let s := boot e c (init c) in emit (st_line c s) s.
Definition run_from (e : bool) (c : cfg) (s : st) (evs : list ev) : st := fold_left (step e c) evs s.
Definition run (e : bool) (c : cfg) (evs : list ev) : list out := rev (outs (run_from e c (start e c) evs)).

(* the tree decides which variant the correspondence run uses (generated by pattern from countdown()) *)
Definition CURRENT_EVALCMD : bool := 2 <=? EVAL_ON_COMMAND.

(* ---------- wire interface ---------- *)
Fixpoint take_relays (n : nat) (l : list Z) : list relay * list Z :=
  match n with
  | O => ([], l)
  | S k => match l with
           | g :: ch :: f :: cf :: t => let '(rs, rest) := take_relays k t in
                                        ({| r_gpio := g; r_chan := ch; r_flags := f; r_chfl := cf |} :: rs, rest)
           | _ => ([], [])
           end
  end.
Definition take_list (l : list Z) : list Z * list Z :=
  match l with
  | n :: t => (firstn (Z.to_nat n) t, skipn (Z.to_nat n) t)
  | [] => ([], [])
  end.
(* CFG boot boot2 sbt lateflags nrel (gpio ch flags chflags)* nt2 ms* nlate us* ; returns the unparsed rest *)
Definition cfg_of_ints (l : list Z) : cfg * list Z :=
  match l with
  | b :: b2 :: sbt :: lf :: nrel :: t =>
      let '(rs, t1) := take_relays (Z.to_nat nrel) t in
      let '(t2, t3) := take_list t1 in
      let '(late, t4) := take_list t3 in
      ({| c_boot := b; c_boot2 := b2; c_sbt := sbt; c_lateflags := negb (lf =? 0); c_relays := rs; c_time2 := t2; c_late := late |}, t4)
  | _ => ({| c_boot := 1; c_boot2 := 1; c_sbt := 0; c_lateflags := false; c_relays := []; c_time2 := []; c_late := [] |}, [])
  end.
Definition ev_of_wire (w : wire) : ev :=
  match w with
  | (k, a, _) =>
    if k =? 1 then match a with [ch; v; d; sd] => ESet ch v d sd | _ => EOther end
    else if k =? 2 then match a with [p; h] => ESw p h | _ => EOther end
    else if k =? 3 then match a with [dt] => EAdv dt | _ => EOther end
    else if k =? 4 then ECrash
    else if k =? 5 then match a with [ch; ms] => ETime2 ch ms | _ => EOther end
    else if k =? 6 then EFlags
    else if k =? 7 then match a with [ch; f; ct; cs; ms] => EChCfg ch f ct cs ms | _ => EOther end
    else EOther
  end.
Definition wire_of_out (o : out) : list wire :=
  match o with
  | OGpio t p l => [mk 0 [t; p; l] []]
  | OReboot t => [mk 1 [t] []]
  | OSaved t r t2 => [mk 2 (t :: r ++ t2) []]
  | OSt t d a per => [mk 3 (t :: d :: a :: per) []]
  | OFuel => [mk 4 [] []]
  | OUnknown => [mk 5 [] []]
  | _ => []
  end.
Definition run_wire (e : bool) (ws : list wire) : list wire :=
  match ws with
  | (_, a, _) :: t => let '(c, _) := cfg_of_ints a in flat_map wire_of_out (run e c (map ev_of_wire t))
  | [] => []
  end.
Definition main_wire (ws : list wire) : list wire := run_wire CURRENT_EVALCMD ws.
