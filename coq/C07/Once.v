(* C07 — "exactly once": a running slot leaves the slot table only by its finish callback (then its switch-back is in
   the trace), by a command on its channel, or by a restart.  Proved as an invariant (forward relation `fate`) over
   every operation, then combined with at-most-once and the liveness bound. *)
From Coq Require Import List ZArith Lia Bool.
Import ListNotations.
From V Require Import Base.U32 Base.Bytes Base.Iface Gen.RelayConsts C07.Model C07.Proofs.
Local Open Scope Z_scope.

Section W.
Context {wr : Wraps}.

Definition fin_in (x : slot) (l : list out) : Prop :=
  exists tcb u0 u, In (GFinish tcb (s_chan x) (s_target x) (g_t0 x) (g_dur x) u0 u) l.
(* every slot running in s: still runs in s' (same arming), or its switch-back is in the trace of s', or its channel is in P *)
Definition fate (P : Z -> Prop) (s s' : st) : Prop :=
  forall x, In x (slots s) -> active x = true ->
    (exists y, In y (slots s') /\ active y = true /\ same_id x y) \/ fin_in x (outs s') \/ P (s_chan x).

Lemma fin_in_same_id x y l : same_id x y -> fin_in y l -> fin_in x l.
Proof. intros (A & B & C & D & _) (tcb & u0 & u & H). exists tcb, u0, u. rewrite A, B, C, D. exact H. Qed.
Lemma fate_refl P s : fate P s s.
Proof. intros x Hx Ax. left. exists x. split; [auto|]. split; [auto|]. apply same_id_refl. Qed.
Lemma fate_trans P s s1 s2 : (exists a, outs s2 = a ++ outs s1) -> fate P s s1 -> fate P s1 s2 -> fate P s s2.
Proof.
  intros (a & Ea) F1 F2 x Hx Ax. destruct (F1 x Hx Ax) as [(y & Hy & Ay & Iy)|[Fi|Px]]; auto.
  - destruct (F2 y Hy Ay) as [(z & Hz & Az & Iz)|[Fi|Py]].
    + left. exists z. split; [auto|]. split; [auto|]. eapply same_id_trans; eauto.
    + right; left. eapply fin_in_same_id; eauto.
    + right; right. destruct Iy as (E & _). rewrite E. exact Py.
  - right; left. destruct Fi as (tcb & u0 & u & H). exists tcb, u0, u. rewrite Ea. apply in_or_app. auto.
Qed.
Lemma fate_weaken (P Q : Z -> Prop) s s' : (forall k, P k -> Q k) -> fate P s s' -> fate Q s s'.
Proof. intros H F x Hx Ax. destruct (F x Hx Ax) as [A|[A|A]]; auto. Qed.
Lemma fate_same_slots P s s' : slots s' = slots s -> fate P s s'.
Proof. intros E x Hx Ax. left. exists x. rewrite E. split; [auto|]. split; [auto|]. apply same_id_refl. Qed.
Lemma fate_passive P s s' : passive s s' -> fate P s s'.
Proof. intros []. apply fate_same_slots; auto. Qed.
Lemma frame_outs s s' : frame s s' -> exists a, outs s' = a ++ outs s.
Proof. intros []. auto. Qed.

(* ---------- the evaluation of the table ---------- *)
Lemma cd_cb_fate c due s s' : s' = cd_cb c due s -> Inv s -> Tr s -> NWw s' -> fate (fun _ => False) s s'.
Proof.
  intros Es' I T N. rewrite cd_cb_eq in Es'.
  remember (emit (GEvalStart due (now s)) s) as s1 eqn:Es1.
  assert (I1 : Inv s1) by (subst s1; apply Inv_emit; auto).
  assert (T1' : Tr s1) by (subst s1; apply Tr_emit; auto; exact Logic.I).
  destruct (emit_facts _ _ _ Es1) as (Sl1 & Na & O1 & D1 & C1 & F01 & R1 & A1). clear Es1.
  remember (cd_loop c s1) as s2 eqn:Es2.
  assert (F12 : frame s1 s2) by (subst s2; apply cd_loop_frame).
  remember (emit (GEvalEnd (now s2)) s2) as s3 eqn:Es3.
  destruct (emit_facts _ _ _ Es3) as (Sl3 & Nb & O3 & D3 & C3 & F23 & R3 & A3).
  pose proof (frame_startstop s3) as F34. rewrite <- Es' in F34.
  assert (N3 : NWw s3) by (eapply NW_frame; eauto).
  assert (N2 : NWw s2) by (eapply NW_frame; eauto).
  assert (L : LoopInv s1 s2 8) by (subst s2; apply cd_loop_spec; auto).
  destruct (startstop_same s3) as (E1 & _ & _ & _ & _ & _ & E7 & _). rewrite <- Es' in E1, E7.
  intros x Hx Ax. rewrite <- Sl1 in Hx. destruct (in_slot_at s1 x Hx) as (i & Hi & Ei). rewrite (i_len _ I1) in Hi. subst x.
  destruct (active (slot_at s2 i)) eqn:A2.
  - left. exists (slot_at s2 i). split; [rewrite E1, Sl3; apply slot_at_in; rewrite (i_len _ (lp_inv _ _ _ L)); auto|].
    split; auto. destruct (lp_done _ _ _ L i Hi) as [[B D]|(B & tl & R & [[D1' D2]|[D1' D2]])].
    + rewrite D. apply same_id_refl.
    + rewrite D2. repeat split.
    + rewrite D2 in A2. discriminate.
  - right; left. destruct (lp_fin _ _ _ L i Hi Ax A2) as (tcb & u & Hin).
    exists tcb, (g_u0 (slot_at s1 i)), u. rewrite E7, O3. apply in_cons. unfold finish_of in Hin. exact Hin.
Qed.

(* ---------- arming and disarming ---------- *)
Lemma arm_slot_fate c ms gpio ch tg sd s :
  (forall x, In x (slots s) -> s_chan x <> ch) -> fate (fun _ => False) s (countdown_arm_slot c ms gpio ch tg sd s).
Proof.
  intros NoCh. unfold countdown_arm_slot. rewrite (proj2 (find_slot_none_iff (slots s) 0 ch) NoCh).
  destruct (find_slot (slots s) 0 255) as [i|] eqn:EF; [|apply fate_refl].
  apply find_slot_some in EF. destruct EF as (R & Ech & _). replace (i - 0) with i in * by lia.
  pose proof (frame_uptime s) as FU. assert (Su : slots (fst (uptime_msec s)) = slots s) by (unfold uptime_msec, uptime_usec; reflexivity).
  destruct (uptime_msec s) as [s1 u]. cbn [fst] in *.
  set (ynew := {| s_chan := ch; s_left := ms; s_last := u; s_gpio := gpio; s_target := tg; s_sender := sd; g_t0 := now s; g_dur := ms; g_u0 := u; g_tl := now s |}).
  set (s2 := set_slots (upd (slots s1) (Z.to_nat i) ynew) (emit (GArm (now s) ch ms tg) s1)).
  assert (E : slots (startstop (t2_set ch ms s2)) = upd (slots s) (Z.to_nat i) ynew).
  { destruct (startstop_same (t2_set ch ms s2)) as (E1 & _). rewrite E1. rewrite (pa_slots _ _ (passive_t2_set ch ms s2)).
    unfold s2. cbn [slots set_slots emit set_outs]. rewrite Su. reflexivity. }
  intros x Hx Ax. left. exists x. split; [|split; [auto|apply same_id_refl]]. rewrite E.
  destruct (In_nth _ _ slot_free Hx) as (j & Hj & Ej).
  assert (j <> Z.to_nat i).
  { intros ->. rewrite Ej in Ech. unfold active in Ax. rewrite Ech in Ax. cbn in Ax. discriminate. }
  assert (HI : In (nth j (upd (slots s) (Z.to_nat i) ynew) slot_free) (upd (slots s) (Z.to_nat i) ynew)) by (apply nth_In; rewrite upd_length; auto).
  rewrite nth_upd_ne in HI by auto. rewrite Ej in HI. exact HI.
Qed.
Lemma disarm_fate c ch s : fate (fun k => k = ch) s (disarm c ch s).
Proof.
  unfold disarm. destruct (find_slot (slots s) 0 ch) as [i|] eqn:EF; [|apply fate_refl].
  apply find_slot_some in EF. destruct EF as (R & Ech & _). replace (i - 0) with i in * by lia.
  set (y := slot_release _ _ _). set (s1 := set_slots (upd (slots s) (Z.to_nat i) y) s).
  assert (F1 : fate (fun k => k = ch) s s1).
  { intros x Hx Ax. destruct (In_nth _ _ slot_free Hx) as (j & Hj & Ej).
    destruct (Nat.eq_dec j (Z.to_nat i)) as [->|Ne].
    - right; right. rewrite <- Ej. exact Ech.
    - left. exists x. split; [|split; [auto|apply same_id_refl]]. unfold s1. cbn [slots set_slots].
      rewrite <- Ej. rewrite <- (nth_upd_ne (slots s) (Z.to_nat i) j y slot_free) by auto. apply nth_In. rewrite upd_length. auto. }
  destruct (0 <? _); auto.
  assert (P2 : passive s1 (match chflags_of c ch (t2_set ch 0 s1) with
                      | Some f => if hasf f CHFLAG_COUNTDOWN then ext_changed c ch (t2_set ch 0 s1) else t2_set ch 0 s1
                      | None => t2_set ch 0 s1 end)).
  { pose proof (passive_t2_set ch 0 s1) as P2.
    destruct (chflags_of _ _ _); [destruct (hasf _ _)|]; auto. eapply passive_trans; [exact P2|apply passive_ext_changed]. }
  eapply fate_trans; [|exact F1|apply fate_passive; exact P2].
  destruct (pa_outs _ _ P2) as (a & Ea & _). exists a. exact Ea.
Qed.

(* ---------- commands ---------- *)
Lemma countdown_fate e c ms gpio ch target sender s s' :
  s' = countdown e c ms gpio ch target sender s ->
  Good s -> 0 <= ch < 255 -> (forall x, In x (slots s) -> s_chan x <> ch) -> NWw s' ->
  fate (fun _ => False) s s'.
Proof.
  intros Es' G Hch NoCh N. unfold countdown in Es'. destruct e; [|rewrite Es'; apply arm_slot_fate; auto].
  remember (cd_cb c (if t_on (tcd s) then t_due (tcd s) else now s) s) as s0 eqn:Es0.
  assert (F0' : frame s0 s') by (rewrite Es'; apply arm_slot_frame).
  assert (N0 : NWw s0) by (eapply NW_frame; eauto).
  destruct (cd_cb_spec c _ s s0 Es0 (g_inv _ G) (g_tr _ G) N0) as (G0 & F0 & Nw0 & EV & _ & _).
  pose proof (evald_nochan s s0 ch Hch (g_inv _ G) (i_len _ (g_inv _ G0)) EV NoCh) as NoCh0.
  apply (fate_trans _ s s0 s'); [apply frame_outs; auto|apply (cd_cb_fate c _ s s0 Es0 (g_inv _ G) (g_tr _ G) N0)|].
  rewrite Es'. apply arm_slot_fate; auto.
Qed.

Lemma sdt_fate e c ch newv dur sender s s' :
  s' = set_duration_timer e c ch newv dur sender s ->
  wf_cfg c -> Good s -> 0 <= ch < 8 -> dur < 4294967296 -> NWw s' ->
  fate (fun k => k = ch) s s'.
Proof.
  intros Es' W G Hch Hdur N. unfold set_duration_timer in Es'.
  set (stair := (ch <? ST_T2_COUNT) && (ch <? T2_COUNT) && (0 <? getz (time2 s) ch)) in *.
  remember (if stair && (newv =? 0) then set_ram_t2 (setz (ram_t2 s) ch 0) s else s) as s0 eqn:Es0.
  set (dur1 := if stair then _ else dur) in *.
  assert (P0 : passive s s0) by (subst s0; destruct (stair && (newv =? 0)); [apply passive_set_ram_t2|apply passive_refl]).
  assert (Hd1 : dur1 < 4294967296).
  { unfold dur1. destruct stair; auto. destruct (newv =? 0); [lia|]. destruct (_ || _); auto.
    pose proof (s32_range (getz (time2 s) ch)). lia. }
  rewrite u8_small in Es' by lia.
  pose proof (Good_passive _ _ P0 G) as G0.
  destruct (disarm_spec c ch s0 ltac:(lia) G0) as (G1 & F1 & D1 & C1 & N1 & NoCh & E1 & _).
  pose proof (disarm_fate c ch s0) as FD.
  remember (disarm c ch s0) as s1 eqn:Es1. clear Es1.
  assert (F01 : fate (fun k => k = ch) s s1).
  { apply (fate_trans _ s s0 s1); [apply frame_outs; auto|apply fate_passive; auto|auto]. }
  destruct (0 <? dur1) eqn:Ed; [|subst s'; auto]. apply Z.ltb_lt in Ed.
  destruct (find_chan (c_relays c) 0 ch) as [[a r]|] eqn:EFC; [|subst s'; auto].
  set (f := getz (chfl s1) a) in *.
  remember (if (newv =? 1) || hasf f CHFLAG_COUNTDOWN
            then countdown e c (u32 dur1) (r_gpio r) ch (if newv =? 0 then 1 else 0) sender s1 else s1) as s2 eqn:Es2.
  assert (P23 : passive s2 s') by (subst s'; destruct (hasf f _); [apply passive_ext_changed|apply passive_refl]).
  assert (N2 : NWw s2) by (eapply NW_passive; eauto).
  assert (F12 : fate (fun k => k = ch) s1 s2 /\ exists a0, outs s2 = a0 ++ outs s1).
  { destruct ((newv =? 1) || hasf f CHFLAG_COUNTDOWN).
    - split; [|apply frame_outs; rewrite Es2; apply countdown_frame].
      eapply fate_weaken; [|eapply countdown_fate; eauto; lia]. intros k [].
    - subst s2. split; [apply fate_refl|exists []; reflexivity]. }
  destruct F12 as [F12 O12].
  apply (fate_trans _ s s1 s'); [|exact F01|].
  - destruct O12 as (a0 & Ea). destruct (pa_outs _ _ P23) as (b & Eb & _). exists (b ++ a0). rewrite Eb, Ea, app_assoc. reflexivity.
  - apply (fate_trans _ s1 s2 s'); [destruct (pa_outs _ _ P23) as (b & Eb & _); exists b; auto|exact F12|apply fate_passive; auto].
Qed.

Lemma csv_fate e c ch v dur sender s s' :
  s' = channel_set_value e c ch v dur sender s -> wf_cfg c -> Good s -> NWw s' -> fate (fun k => k = ch) s s'.
Proof.
  intros Es' W G N. unfold channel_set_value in Es'.
  destruct (find_chan (c_relays c) 0 ch) as [[a r]|] eqn:EFC.
  2:{ apply fate_passive. subst s'. apply passive_set_result. }
  destruct (find_chan_some _ _ _ _ _ EFC) as [Hr Er]. pose proof (wf_chan _ W r Hr) as Hc. rewrite Er in *.
  remember (set_duration_timer e c ch v (s32 dur) sender s) as s1 eqn:Es1.
  pose proof (passive_chan_set_value c (r_gpio r) v ch s1) as P12.
  destruct (chan_set_value c (r_gpio r) v ch s1) as [s2 ok]. cbn [fst] in *.
  assert (P2' : passive s2 s') by (subst s'; apply passive_set_result).
  pose proof (passive_trans _ _ _ P12 P2') as P1'.
  assert (N1 : NWw s1) by (eapply NW_passive; eauto).
  pose proof (s32_range dur).
  apply (fate_trans _ s s1 s'); [destruct (pa_outs _ _ P1') as (b & Eb & _); exists b; auto| |apply fate_passive; auto].
  eapply sdt_fate; eauto. lia.
Qed.

Lemma rsw_fate e c port hi s s' :
  s' = relay_switch e c port hi s -> wf_cfg c -> Good s -> NWw s' ->
  fate (fun k => k = last_chan (c_relays c) port (-1)) s s'.
Proof.
  intros Es' W G N. unfold relay_switch in Es'. set (ch := last_chan (c_relays c) port (-1)) in *.
  destruct (ch <? 0) eqn:Ec; [subst s'; apply fate_refl|]. apply Z.ltb_ge in Ec.
  destruct (last_chan_spec (c_relays c) port (-1) (or_intror Logic.I)) as [E|(r & Hr & Er & _)]; [fold ch in E; lia|].
  fold ch in Er. pose proof (wf_chan _ W r Hr) as Hc. rewrite Er in Hc.
  destruct (cf_t2 consts_ok) as [CT1 CT2].
  set (hi1 := if _ && _ && _ && _ then HI else hi) in *.
  set (hi2 := if hi1 =? 255 then _ else hi1) in *.
  assert (Lt : (ch <? ST_T2_COUNT) = true) by (apply Z.ltb_lt; lia). rewrite Lt in Es'.
  remember (set_ram_t2 (setz (ram_t2 s) ch 0) s) as s0 eqn:Es0.
  assert (P0 : passive s s0) by (subst s0; apply passive_set_ram_t2).
  remember (set_duration_timer e c ch hi2 0 0 s0) as s1 eqn:Es1.
  remember (relay_hi c port hi2 s1) as s2 eqn:Es2.
  assert (P12 : passive s1 s2) by (subst s2; apply passive_relay_hi).
  assert (P2' : passive s2 s') by (subst s'; apply passive_value_changed).
  pose proof (passive_trans _ _ _ P12 P2') as P1'.
  assert (N1 : NWw s1) by (eapply NW_passive; eauto).
  pose proof (sdt_fate e c ch hi2 0 0 s0 s1 Es1 W (Good_passive _ _ P0 G) Hc ltac:(lia) N1) as F01.
  apply (fate_trans _ s s0 s').
  - destruct (pa_outs _ _ P1') as (b & Eb & _). destruct (frame_outs _ _ (sdt_frame e c ch hi2 0 0 s0)) as (a & Ea). rewrite <- Es1 in Ea.
    exists (b ++ a). rewrite Eb, Ea, app_assoc. reflexivity.
  - apply fate_passive; auto.
  - apply (fate_trans _ s0 s1 s'); [destruct (pa_outs _ _ P1') as (b & Eb & _); exists b; auto|auto|apply fate_passive; auto].
Qed.

(* ---------- timers, steps, histories ---------- *)
Lemma fire_fate e c i s s' :
  s' = fire e c i s -> wf_cfg c -> Good s -> t_on (get_t i s) = true -> NWw s' -> fate (fun _ => False) s s'.
Proof.
  intros Es' W G Hon N. unfold fire in Es'.
  set (t := get_t i s) in *. set (n := len (c_late c)) in *.
  set (late := if 0 <? n then getz (c_late c) (li s mod n) else 0) in *.
  remember (if 0 <? n then set_li (li s + 1) s else s) as s1 eqn:Es1.
  remember (if now s1 <? t_due t + late then set_now (t_due t + late) s1 else s1) as s2 eqn:Es2.
  remember (if negb (t_per t =? 0)
            then set_t i {| t_on := true; t_due := t_due t + t_per t; t_seq := seqc s2 + 1; t_per := t_per t |} (set_seqc (seqc s2 + 1) s2)
            else set_t i {| t_on := false; t_due := t_due t; t_seq := t_seq t; t_per := 0 |} s2) as s3 eqn:Es3.
  assert (A3 : slots s3 = slots s /\ outs s3 = outs s).
  { subst s3 s2 s1. destruct (negb _); destruct i; cbn [set_t]; destruct (_ <? t_due t + late); destruct (0 <? n); split; reflexivity. }
  destruct A3 as [c1 c7].
  (* Good s3 as in fire_spec *)
  assert (G3 : Good s3 /\ frame s s3).
  { assert (Hs : s' = fire e c i s) by (unfold fire; fold t n late; rewrite <- Es1, <- Es2, <- Es3; exact Es').
    clear Hs. 
    assert (A1 : slots s1 = slots s /\ delay s1 = delay s /\ cnt0 s1 = cnt0 s /\ tb s1 = tb s /\ upc s1 = upc s /\ upl s1 = upl s /\
               outs s1 = outs s /\ now s1 = now s /\ tcd s1 = tcd s)
      by (subst s1; destruct (0 <? n); repeat split; reflexivity).
    destruct A1 as (a1 & a2 & a3 & a4 & a5 & a6 & a7 & a8 & a9).
    assert (A2 : slots s2 = slots s /\ delay s2 = delay s /\ cnt0 s2 = cnt0 s /\ tb s2 = tb s /\ upc s2 = upc s /\ upl s2 = upl s /\
               outs s2 = outs s /\ now s <= now s2 /\ tcd s2 = tcd s).
    { subst s2. destruct (now s1 <? t_due t + late) eqn:E; [apply Z.ltb_lt in E|]; cbn;
        rewrite ?a1, ?a2, ?a3, ?a4, ?a5, ?a6, ?a7, ?a8, ?a9; repeat split; auto; try lia. }
    destruct A2 as (b1 & b2 & b3 & b4 & b5 & b6 & b7 & b8 & b9).
    assert (TM : TmrOK s) by apply G. destruct TM as (D0 & Dz & Dp).
    assert (A3 : delay s3 = delay s /\ cnt0 s3 = cnt0 s /\ tb s3 = tb s /\ upc s3 = upc s /\ upl s3 = upl s /\ now s <= now s3 /\
                 (t_on (tcd s3) = t_on (tcd s) /\ t_per (tcd s3) = t_per (tcd s))).
    { subst s3. destruct i; cbn [set_t]; unfold t, get_t in *.
      - assert (0 < delay s) by (destruct (Z.eq_dec (delay s) 0) as [Z0|]; [rewrite (Dz Z0) in Hon; discriminate|lia]).
        destruct (Dp H) as [_ Pp]. assert (t_per (tcd s) <> 0) by lia.
        destruct (t_per (tcd s) =? 0) eqn:E0; [apply Z.eqb_eq in E0; lia|]. cbn.
        rewrite b2, b3, b4, b5, b6. repeat split; auto.
      - destruct (negb _); cbn; rewrite b2, b3, b4, b5, b6, b9; repeat split; auto.
      - destruct (negb _); cbn; rewrite b2, b3, b4, b5, b6, b9; repeat split; auto. }
    destruct A3 as (d2 & d3 & d4 & d5 & d6 & d8 & d9).
    split; [eapply Good_tick; eauto|]. constructor; auto. exists []. auto. }
  destruct G3 as [G3 F3].
  unfold run_cb in Es'. destruct i.
  - apply (fate_trans _ s s3 s'); [apply frame_outs; rewrite Es'; apply cd_cb_frame|apply fate_same_slots; auto|].
    apply (cd_cb_fate c _ s3 s' Es' (g_inv _ G3) (g_tr _ G3) N).
  - apply fate_same_slots. subst s'. cbn. exact c1.
  - apply fate_same_slots. subst s'. unfold uptime_usec. cbn. exact c1.
Qed.

Lemma adv_fate e c fuel : forall end_ s s',
  s' = adv e c fuel end_ s -> wf_cfg c -> Good s -> NWw s' -> fate (fun _ => False) s s'.
Proof.
  induction fuel as [|k IH]; intros end_ s s' Es' W G N; cbn [adv] in Es'.
  - apply fate_same_slots. subst s'. reflexivity.
  - destruct (pick s end_) as [i|] eqn:EP; [|subst s'; apply fate_refl].
    apply pick_some in EP. unfold due_ok in EP. apply andb_true_iff in EP. destruct EP as [Hon _].
    remember (fire e c i s) as s1 eqn:Es1.
    assert (F1' : frame s1 s') by (subst s'; apply adv_frame).
    assert (N1 : NWw s1) by (eapply NW_frame; eauto).
    destruct (fire_spec e c i s s1 Es1 W G Hon N1) as (G1 & _ & _).
    apply (fate_trans _ s s1 s'); [apply frame_outs; auto|eapply fire_fate; eauto|eapply IH; eauto].
Qed.
Lemma advance_fate e c dt s s' :
  s' = advance e c dt s -> wf_cfg c -> Good s -> NWw s' -> fate (fun _ => False) s s'.
Proof.
  intros Es' W G N. unfold advance in Es'.
  remember (adv e c (Z.to_nat (dt / 20000 + 64)) (now s + dt) s) as s1 eqn:Es1.
  destruct (now s1 <? now s + dt) eqn:E; [apply Z.ltb_lt in E|].
  - assert (N1 : NWw s1) by (apply (NW_ext s1 s'); [subst s'; reflexivity|subst s'; reflexivity|subst s'; cbn; lia|exists []; subst s'; reflexivity|exact N]).
    apply (fate_trans _ s s1 s'); [subst s'; exists []; reflexivity|eapply adv_fate; eauto|apply fate_same_slots; subst s'; reflexivity].
  - subst s'. eapply adv_fate; eauto.
Qed.

Lemma step_fate e c s x s' :
  s' = step e c s x -> wf_cfg c -> wf_ev x -> Good s -> NWw s' -> fate (ev_chan c x) s s'.
Proof.
  intros Es' W Wx G N. unfold step in Es'.
  set (s1 := match x with ESet _ _ _ _ => _ | _ => _ end) in *.
  assert (P : passive s1 s') by (subst s'; apply passive_emit; exact Logic.I).
  assert (N1 : NWw s1) by (eapply NW_passive; eauto).
  apply (fate_trans _ s s1 s'); [destruct (pa_outs _ _ P) as (b & Eb & _); exists b; auto| |apply fate_passive; auto].
  destruct x; unfold s1 in *; cbn [ev_chan].
  - eapply csv_fate; eauto.
  - eapply rsw_fate; eauto.
  - eapply fate_weaken; [|eapply advance_fate; eauto]. intros k [].
  - intros y Hy Ay. right; right. exact Logic.I.
  - destruct (_ && _); [apply fate_same_slots; reflexivity|apply fate_refl].
  - apply fate_same_slots; reflexivity.
  - apply fate_same_slots; reflexivity.
  - destruct (chcfg_cases e c ch func ctype csize ms s) as [E|(t & Hch & E)]; rewrite E in *; [apply fate_refl|].
    set (s0 := set_time2 (setz (time2 s) ch t) s) in *.
    assert (G0 : Good s0) by (eapply Good_cfgchange; [..|exact G]; reflexivity).
    apply (fate_trans _ s s0 _); [apply frame_outs, sdt_frame|apply fate_same_slots; reflexivity|].
    eapply sdt_fate; eauto. lia.
Qed.

(* a history without a command on channel ch and without a restart *)
Lemma run_fate e c ch : forall post s,
  wf_cfg c -> Forall wf_ev post -> (forall x, In x post -> ~ ev_chan c x ch) -> Good s -> NWwrun e c s post ->
  fate (fun k => k <> ch) s (run_from e c s post).
Proof.
  induction post as [|x post IH]; intros s W Wp NC G N; [apply fate_refl|].
  change (run_from e c s (x :: post)) with (run_from e c (step e c s x) post).
  apply NWwrun_cons in N. destruct N as [N1 N2]. inversion Wp; subst.
  destruct (step_spec e c s x _ eq_refl W H1 G N1) as (G1 & _).
  apply (fate_trans _ s (step e c s x) _); [apply run_outs; auto| |apply IH; auto].
  - eapply fate_weaken; [|eapply step_fate; eauto]. intros k Hk E. subst k. apply (NC x); cbn; auto.
  - intros y Hy. apply NC. cbn; auto.
Qed.

(* ---------- exactly once ---------- *)
(* (repaired countdown) A slot armed at t0 for dur ms on channel ch: if no command on ch and no restart follows and an
   advance then reaches t0 + dur + 50 ms + 8 relay operations, the trace contains a switch-back of that arming, and no
   arming has two switch-backs. *)
Theorem exactly_once_w c S s x post dt :
  wf_cfg c -> Good s -> J true S s -> 0 <= S -> In x (slots s) -> active x = true ->
  Forall wf_ev post -> (forall ev, In ev post -> ~ ev_chan c ev (s_chan x)) -> 0 <= dt ->
  let s1 := run_from true c s post in
  let s2 := step true c s1 (EAdv dt) in
  NWwrun true c s (post ++ [EAdv dt]) -> Slack S (outs s2) -> ~ In OFuel (outs s2) ->
  g_t0 x + g_dur x * 1000 + CD_MIN * 1000 + 8 * OP + WB <= now s1 + dt ->
  fin_in x (outs s2) /\ NoDup (fins (outs s2)).
Proof.
  intros W G Jj HS Hx Ax Wp NC Hdt s1 s2 N SL NF Dl.
  assert (Wp' : Forall wf_ev (post ++ [EAdv dt])) by (apply Forall_app; split; [exact Wp|]; constructor; [exact Hdt|constructor]).
  assert (NC' : forall ev, In ev (post ++ [EAdv dt]) -> ~ ev_chan c ev (s_chan x)).
  { intros ev Hin. apply in_app_or in Hin. destruct Hin as [Hin|[<-|[]]]; [apply NC; auto|cbn; auto]. }
  pose proof (run_fate true c (s_chan x) (post ++ [EAdv dt]) s W Wp' NC' G N) as F.
  rewrite run_from_app in F. fold s1 in F. change (run_from true c s1 [EAdv dt]) with s2 in F.
  apply NWwrun_app in N. destruct N as [Npost Nadv]. fold s1 in Nadv.
  assert (N2 : NWw s2) by (apply (Nadv 1%nat)).
  assert (SL1 : Slack S (outs s1)).
  { destruct (step_outs true c s1 (EAdv dt) Hdt) as (a & Ea). fold s2 in Ea. rewrite Ea in SL. eapply Slack_app; eauto. }
  destruct (run_J true S c post s W Wp G Jj Npost SL1 HS) as (G1 & J1). fold s1 in G1, J1.
  destruct (step_spec true c s1 (EAdv dt) s2 eq_refl W Hdt G1 N2) as (G2 & _).
  split; [|apply (tr_uniq _ (g_tr _ G2))].
  destruct (F x Hx Ax) as [(y & Hy & Ay & Iy)|[Fi|Ne]]; [|exact Fi|congruence].
  exfalso.
  (* y still runs after the advance: impossible beyond the deadline *)
  unfold s2, step in *. set (sa := advance true c dt s1) in *.
  assert (Pq : passive sa (emit (st_line c sa) sa)) by (apply passive_emit; exact Logic.I).
  assert (Na : NWw sa) by (eapply NW_passive; eauto).
  assert (SLa : Slack S (outs sa)) by (eapply Slack_frame; [apply frame_passive; exact Pq|exact SL]).
  assert (NFa : ~ In OFuel (outs sa)) by (intros H; apply NF; cbn; auto).
  cbn [slots emit set_outs] in Hy.
  pose proof (fires_by_w c S s1 dt W Hdt G1 J1 HS Na SLa NFa y Hy Ay) as B.
  destruct Iy as (_ & E0 & Ed & _). rewrite <- E0, <- Ed in B. lia.
Qed.

(* ---------- cancellation, including the handler of the command itself: it disarms before it evaluates ---------- *)
Definition nofin_ch (ch t : Z) (add : list out) : Prop :=
  forall tcb tg t0 dur u0 u, In (GFinish tcb ch tg t0 dur u0 u) add -> t <= t0.
Lemma nofin_noghost ch t add : Forall noghost add -> nofin_ch ch t add.
Proof. intros F tcb tg t0 dur u0 u H. rewrite Forall_forall in F. apply F in H. contradiction. Qed.
Lemma nofin_app ch t a b : nofin_ch ch t a -> nofin_ch ch t b -> nofin_ch ch t (a ++ b).
Proof. intros A B tcb tg t0 dur u0 u H. apply in_app_or in H. destruct H; [eapply A|eapply B]; eauto. Qed.

Lemma sdt_nofin e S c ch newv dur sender s s' :
  s' = set_duration_timer e c ch newv dur sender s ->
  wf_cfg c -> Good s -> J e S s -> 0 <= ch < 8 -> dur < 4294967296 -> NWw s' -> Slack S (outs s') -> 0 <= S ->
  exists add, outs s' = add ++ outs s /\ nofin_ch ch (now s) add.
Proof.
  intros Es' W G Jj Hch Hdur N SL HS. unfold set_duration_timer in Es'.
  set (stair := (ch <? ST_T2_COUNT) && (ch <? T2_COUNT) && (0 <? getz (time2 s) ch)) in *.
  remember (if stair && (newv =? 0) then set_ram_t2 (setz (ram_t2 s) ch 0) s else s) as s0 eqn:Es0.
  set (dur1 := if stair then _ else dur) in *.
  assert (P0 : passive s s0) by (subst s0; destruct (stair && (newv =? 0)); [apply passive_set_ram_t2|apply passive_refl]).
  assert (Hd1 : dur1 < 4294967296).
  { unfold dur1. destruct stair; auto. destruct (newv =? 0); [lia|]. destruct (_ || _); auto.
    pose proof (s32_range (getz (time2 s) ch)). lia. }
  rewrite u8_small in Es' by lia.
  pose proof (Good_passive _ _ P0 G) as G0.
  destruct (JF_passive e S _ _ P0 G Jj) as [J0 _].
  destruct (disarm_spec c ch s0 ltac:(lia) G0) as (G1 & F1 & D1 & C1 & N1 & NoCh & E1 & (ad & Od & NGd)).
  destruct (disarm_J e S c ch s0 ltac:(lia) G0 J0) as [J1 _].
  remember (disarm c ch s0) as s1 eqn:Es1. clear Es1.
  destruct (pa_outs _ _ P0) as (a0 & O0 & NG0).
  assert (N01 : now s1 = now s0 /\ now s <= now s0) by (split; [auto|apply P0]). destruct N01 as [N01 N00].
  assert (Base : exists add, outs s1 = add ++ outs s /\ nofin_ch ch (now s) add).
  { exists (ad ++ a0). split; [rewrite Od, O0, app_assoc; reflexivity|]. apply nofin_app; apply nofin_noghost; auto. }
  destruct (0 <? dur1) eqn:Ed; [|subst s'; auto]. apply Z.ltb_lt in Ed.
  destruct (find_chan (c_relays c) 0 ch) as [[a r]|] eqn:EFC; [|subst s'; auto].
  set (f := getz (chfl s1) a) in *.
  remember (if (newv =? 1) || hasf f CHFLAG_COUNTDOWN
            then countdown e c (u32 dur1) (r_gpio r) ch (if newv =? 0 then 1 else 0) sender s1 else s1) as s2 eqn:Es2.
  assert (P23 : passive s2 s') by (subst s'; destruct (hasf f _); [apply passive_ext_changed|apply passive_refl]).
  assert (N2 : NWw s2) by (eapply NW_passive; eauto).
  assert (SL2 : Slack S (outs s2)) by (eapply Slack_frame; [apply frame_passive; exact P23|auto]).
  assert (H2 : exists a2, outs s2 = a2 ++ outs s1 /\ nofin_ch ch (now s) a2).
  { destruct ((newv =? 1) || hasf f CHFLAG_COUNTDOWN).
    - rewrite u32_small in Es2 by lia.
      destruct (countdown_J e S c dur1 (r_gpio r) ch _ sender s1 s2 Es2 G1 J1 ltac:(lia) ltac:(lia) NoCh N2 SL2 HS) as (_ & (a2 & O2 & Sr)).
      exists a2. split; auto. intros tcb tg t0 dr u0 u H.
      destruct (Sr _ _ _ _ _ _ _ H) as [(x & Hx & _ & Ec & _)|Hl]; [exfalso; apply (NoCh x Hx Ec)|lia].
    - subst s2. exists []. split; [reflexivity|]. intros tcb tg t0 dr u0 u []. }
  destruct H2 as (a2 & O2 & NF2). destruct Base as (ab & Ob & NFb). destruct (pa_outs _ _ P23) as (a3 & O3 & NG3).
  exists (a3 ++ a2 ++ ab). split; [rewrite O3, O2, Ob, !app_assoc; reflexivity|].
  apply nofin_app; [apply nofin_noghost; auto|apply nofin_app; auto].
Qed.

(* a command event on channel ch: its own handler emits no switch-back of a timer of ch armed before it *)
Lemma csv_nofin e S c ch v dur sender s s' :
  s' = channel_set_value e c ch v dur sender s ->
  wf_cfg c -> Good s -> J e S s -> NWw s' -> Slack S (outs s') -> 0 <= S ->
  exists add, outs s' = add ++ outs s /\ nofin_ch ch (now s) add.
Proof.
  intros Es' W G Jj N SL HS. unfold channel_set_value in Es'.
  destruct (find_chan (c_relays c) 0 ch) as [[a r]|] eqn:EFC.
  2:{ assert (P : passive s s') by (subst s'; apply passive_set_result).
      destruct (pa_outs _ _ P) as (b & Eb & NGb). exists b. split; auto. apply nofin_noghost; auto. }
  destruct (find_chan_some _ _ _ _ _ EFC) as [Hr Er]. pose proof (wf_chan _ W r Hr) as Hc. rewrite Er in *.
  remember (set_duration_timer e c ch v (s32 dur) sender s) as s1 eqn:Es1.
  pose proof (passive_chan_set_value c (r_gpio r) v ch s1) as P12.
  destruct (chan_set_value c (r_gpio r) v ch s1) as [s2 ok]. cbn [fst] in *.
  assert (P2' : passive s2 s') by (subst s'; apply passive_set_result).
  pose proof (passive_trans _ _ _ P12 P2') as P1'.
  assert (N1 : NWw s1) by (eapply NW_passive; eauto).
  assert (SL1 : Slack S (outs s1)) by (eapply Slack_frame; [apply frame_passive; exact P1'|auto]).
  pose proof (s32_range dur).
  destruct (sdt_nofin e S c ch v (s32 dur) sender s s1 Es1 W G Jj Hc ltac:(lia) N1 SL1 HS) as (a1 & O1 & NF1).
  destruct (pa_outs _ _ P1') as (b & Eb & NGb). exists (b ++ a1). split; [rewrite Eb, O1, app_assoc; reflexivity|].
  apply nofin_app; [apply nofin_noghost; auto|auto].
Qed.
Lemma rsw_nofin e S c port hi s s' :
  s' = relay_switch e c port hi s ->
  wf_cfg c -> Good s -> J e S s -> NWw s' -> Slack S (outs s') -> 0 <= S ->
  exists add, outs s' = add ++ outs s /\ nofin_ch (last_chan (c_relays c) port (-1)) (now s) add.
Proof.
  intros Es' W G Jj N SL HS. unfold relay_switch in Es'. set (ch := last_chan (c_relays c) port (-1)) in *.
  destruct (ch <? 0) eqn:Ec; [subst s'; exists []; split; [reflexivity|intros tcb tg t0 dr u0 u []]|].
  apply Z.ltb_ge in Ec.
  destruct (last_chan_spec (c_relays c) port (-1) (or_intror Logic.I)) as [E|(r & Hr & Er & _)]; [fold ch in E; lia|].
  fold ch in Er. pose proof (wf_chan _ W r Hr) as Hc. rewrite Er in Hc.
  destruct (cf_t2 consts_ok) as [CT1 CT2].
  set (hi1 := if _ && _ && _ && _ then HI else hi) in *.
  set (hi2 := if hi1 =? 255 then _ else hi1) in *.
  assert (Lt : (ch <? ST_T2_COUNT) = true) by (apply Z.ltb_lt; lia). rewrite Lt in Es'.
  remember (set_ram_t2 (setz (ram_t2 s) ch 0) s) as s0 eqn:Es0.
  assert (P0 : passive s s0) by (subst s0; apply passive_set_ram_t2).
  remember (set_duration_timer e c ch hi2 0 0 s0) as s1 eqn:Es1.
  remember (relay_hi c port hi2 s1) as s2 eqn:Es2.
  assert (P12 : passive s1 s2) by (subst s2; apply passive_relay_hi).
  assert (P2' : passive s2 s') by (subst s'; apply passive_value_changed).
  pose proof (passive_trans _ _ _ P12 P2') as P1'.
  assert (N1 : NWw s1) by (eapply NW_passive; eauto).
  assert (SL1 : Slack S (outs s1)) by (eapply Slack_frame; [apply frame_passive; exact P1'|auto]).
  destruct (JF_passive e S _ _ P0 G Jj) as [J0 _].
  destruct (sdt_nofin e S c ch hi2 0 0 s0 s1 Es1 W (Good_passive _ _ P0 G) J0 Hc ltac:(lia) N1 SL1 HS) as (a1 & O1 & NF1).
  destruct (pa_outs _ _ P1') as (b & Eb & NGb). destruct (pa_outs _ _ P0) as (a0 & O0 & NG0).
  assert (Hn : now s0 = now s) by (subst s0; reflexivity). rewrite Hn in NF1.
  exists (b ++ a1 ++ a0). split; [rewrite Eb, O1, O0, !app_assoc; reflexivity|].
  apply nofin_app; [apply nofin_noghost; auto|apply nofin_app; [auto|apply nofin_noghost; auto]].
Qed.
Lemma cmd_step_nofin e S c s x ch :
  wf_cfg c -> wf_ev x -> Good s -> J e S s -> cmd_on c x ch -> NWw (step e c s x) -> Slack S (outs (step e c s x)) -> 0 <= S ->
  exists add, outs (step e c s x) = add ++ outs s /\ nofin_ch ch (now s) add.
Proof.
  intros W Wx G Jj Cm N SL HS. unfold step in *.
  set (s1 := match x with ESet _ _ _ _ => _ | _ => _ end) in *.
  assert (P : passive s1 (emit (st_line c s1) s1)) by (apply passive_emit; exact Logic.I).
  assert (N1 : NWw s1) by (eapply NW_passive; eauto).
  assert (SL1 : Slack S (outs s1)) by (eapply Slack_frame; [apply frame_passive; exact P|auto]).
  cut (exists add, outs s1 = add ++ outs s /\ nofin_ch ch (now s) add).
  { intros (a1 & O1 & NF1). exists (st_line c s1 :: a1). split; [cbn [outs emit set_outs]; rewrite O1; reflexivity|].
    intros tcb tg t0 dr u0 u [E|H]; [discriminate|eapply NF1; eauto]. }
  destruct x; cbn [cmd_on] in Cm; try contradiction; unfold s1 in *.
  - destruct Cm as (Eu & _). rewrite Eu in *. eapply csv_nofin; eauto.
  - destruct Cm as (El & _). rewrite <- El. eapply rsw_nofin; eauto.
Qed.

(* C07_cancel in full: a command on ch at time t1 (start of its handling): every switch-back of ch that is in the trace
   afterwards and was not there before belongs to a timer armed at or after t1 *)
Theorem cancel_full_w e c pre x post ch :
  wf_cfg c -> Forall wf_ev (pre ++ x :: post) -> NWwrun e c (start e c) (pre ++ x :: post) -> cmd_on c x ch ->
  let s1 := run_from e c (start e c) pre in
  forall tcb tg t0 dur u0 u, In (GFinish tcb ch tg t0 dur u0 u) (outs (run_from e c (start e c) (pre ++ x :: post))) ->
    In (GFinish tcb ch tg t0 dur u0 u) (outs s1) \/ now s1 <= t0.
Proof.
  intros W Wev N Cm s1 tcb tg t0 dur u0 u H.
  destruct (cancel_w e c pre x post ch W Wev N Cm tcb tg t0 dur u0 u H) as [Hin|Hl]; auto.
  fold s1 in Hin.
  destruct (slack_exists (outs (step e c s1 x))) as (S & HS & SL).
  pose proof Wev as Wev'. apply Forall_app in Wev'. destruct Wev' as [Wpre Wxp]. inversion Wxp as [|? ? Wx Wpost]; subst.
  pose proof N as N'. apply NWwrun_app in N'. destruct N' as [Npre Nxp]. fold s1 in Nxp.
  pose proof (Npre 0%nat) as N0. cbn in N0.
  destruct (run_outs e c pre (start e c) Wpre) as (a1 & E1). fold s1 in E1.
  destruct (step_outs e c s1 x Wx) as (ax & Ex).
  assert (SL1 : Slack S (outs s1)) by (rewrite Ex in SL; eapply Slack_app; eauto).
  assert (SL0 : Slack S (outs (start e c))) by (rewrite E1 in SL1; eapply Slack_app; eauto).
  destruct (run_J e S c pre (start e c) W Wpre (start_good e c W N0) (start_J e S c W N0 SL0 HS) Npre SL1 HS) as (G1 & J1).
  fold s1 in G1, J1.
  apply NWwrun_cons in Nxp. destruct Nxp as [N2 _].
  destruct (cmd_step_nofin e S c s1 x ch W Wx G1 J1 Cm N2 SL HS) as (add & Oa & NF).
  rewrite Oa in Hin. apply in_app_or in Hin. destruct Hin as [Hin|Hin]; auto. right. eapply NF; eauto.
Qed.
End W.

(* ---------- no wrap at all (WB = 0): the statements as before ---------- *)
Theorem exactly_once_thm c S s x post dt :
  wf_cfg c -> Good s -> J true S s -> 0 <= S -> In x (slots s) -> active x = true ->
  Forall wf_ev post -> (forall ev, In ev post -> ~ ev_chan c ev (s_chan x)) -> 0 <= dt ->
  let s1 := run_from true c s post in
  let s2 := step true c s1 (EAdv dt) in
  NWrun true c s (post ++ [EAdv dt]) -> Slack S (outs s2) -> ~ In OFuel (outs s2) ->
  g_t0 x + g_dur x * 1000 + CD_MIN * 1000 + 8 * OP <= now s1 + dt ->
  fin_in x (outs s2) /\ NoDup (fins (outs s2)).
Proof.
  intros W G Jj HS Hx Ax Wp Hp Hdt s1 s2 N SL NF Hd.
  apply (@exactly_once_w nowrap c S s x post dt W G Jj HS Hx Ax Wp Hp Hdt (NWrun_NWwrun _ _ _ _ N) SL NF).
  change (@WB nowrap) with 0. fold s1. lia.
Qed.
Theorem cancel_full_thm e c pre x post ch :
  wf_cfg c -> Forall wf_ev (pre ++ x :: post) -> NWrun e c (start e c) (pre ++ x :: post) -> cmd_on c x ch ->
  let s1 := run_from e c (start e c) pre in
  forall tcb tg t0 dur u0 u, In (GFinish tcb ch tg t0 dur u0 u) (outs (run_from e c (start e c) (pre ++ x :: post))) ->
    In (GFinish tcb ch tg t0 dur u0 u) (outs s1) \/ now s1 <= t0.
Proof. intros W Wev N Hc. exact (@cancel_full_w nowrap e c pre x post ch W Wev (NWrun_NWwrun _ _ _ _ N) Hc). Qed.
