(* C07 — "exactly once": a running slot leaves the slot table only by its finish callback (then its switch-back is in
   the trace), by a command on its channel, or by a restart.  Proved as an invariant (forward relation `fate`) over
   every operation, then combined with at-most-once and the liveness bound. *)
From Coq Require Import List ZArith Lia Bool.
Import ListNotations.
From V Require Import Base.U32 Base.Bytes Base.Iface Gen.RelayConsts C07.Model C07.Proofs.
Local Open Scope Z_scope.

Definition fin_in (x : slot) (l : list out) : Prop :=
  exists tcb u0 u, In (GFinish tcb (s_chan x) (s_target x) (g_t0 x) (g_dur x) u0 u) l.
(* every slot running in s: still runs in s' (same arming), or its switch-back is in the trace of s', or its channel is in P *)
Definition fate (P : Z -> Prop) (s s' : st) : Prop :=
  forall x, In x (slots s) -> active x = true ->
    (exists y, In y (slots s') /\ active y = true /\ same_id x y) \/ fin_in x (outs s') \/ P (s_chan x).

Lemma fin_in_same_id x y l : same_id x y -> fin_in y l -> fin_in x l.
Proof. intros (A & B & C & D & _) (tcb & u0 & u & H). exists tcb, u0, u. rewrite A, B, C, D. exact H. Qed.
Lemma fate_refl P s : fate P s s.
Proof. intros x Hx Ax. left. exists x. split; [auto|]. split; [auto|]. apply same_id_refl. Qed.
Lemma fate_trans P s s1 s2 : (exists a, outs s2 = a ++ outs s1) -> fate P s s1 -> fate P s1 s2 -> fate P s s2.
Proof.
  intros (a & Ea) F1 F2 x Hx Ax. destruct (F1 x Hx Ax) as [(y & Hy & Ay & Iy)|[Fi|Px]]; auto.
  - destruct (F2 y Hy Ay) as [(z & Hz & Az & Iz)|[Fi|Py]].
    + left. exists z. split; [auto|]. split; [auto|]. eapply same_id_trans; eauto.
    + right; left. eapply fin_in_same_id; eauto.
    + right; right. destruct Iy as (E & _). rewrite E. exact Py.
  - right; left. destruct Fi as (tcb & u0 & u & H). exists tcb, u0, u. rewrite Ea. apply in_or_app. auto.
Qed.
Lemma fate_weaken (P Q : Z -> Prop) s s' : (forall k, P k -> Q k) -> fate P s s' -> fate Q s s'.
Proof. intros H F x Hx Ax. destruct (F x Hx Ax) as [A|[A|A]]; auto. Qed.
Lemma fate_same_slots P s s' : slots s' = slots s -> fate P s s'.
Proof. intros E x Hx Ax. left. exists x. rewrite E. split; [auto|]. split; [auto|]. apply same_id_refl. Qed.
Lemma fate_passive P s s' : passive s s' -> fate P s s'.
Proof. intros []. apply fate_same_slots; auto. Qed.
Lemma frame_outs s s' : frame s s' -> exists a, outs s' = a ++ outs s.
Proof. intros []. auto. Qed.

(* ---------- the evaluation of the table ---------- *)
Lemma cd_cb_fate c due s s' : s' = cd_cb c due s -> Inv s -> Tr s -> NW s' -> fate (fun _ => False) s s'.
Proof.
  intros Es' I T N. rewrite cd_cb_eq in Es'.
  remember (emit (GEvalStart due (now s)) s) as s1 eqn:Es1.
  assert (I1 : Inv s1) by (subst s1; apply Inv_emit; auto).
  assert (T1' : Tr s1) by (subst s1; apply Tr_emit; auto; exact Logic.I).
  destruct (emit_facts _ _ _ Es1) as (Sl1 & Na & O1 & D1 & C1 & F01 & R1 & A1). clear Es1.
  remember (cd_loop c s1) as s2 eqn:Es2.
  assert (F12 : frame s1 s2) by (subst s2; apply cd_loop_frame).
  remember (emit (GEvalEnd (now s2)) s2) as s3 eqn:Es3.
  destruct (emit_facts _ _ _ Es3) as (Sl3 & Nb & O3 & D3 & C3 & F23 & R3 & A3).
  pose proof (frame_startstop s3) as F34. rewrite <- Es' in F34.
  assert (N3 : NW s3) by (eapply NW_frame; eauto).
  assert (N2 : NW s2) by (eapply NW_frame; eauto).
  assert (L : LoopInv s1 s2 8) by (subst s2; apply cd_loop_spec; auto).
  destruct (startstop_same s3) as (E1 & _ & _ & _ & _ & _ & E7 & _). rewrite <- Es' in E1, E7.
  intros x Hx Ax. rewrite <- Sl1 in Hx. destruct (in_slot_at s1 x Hx) as (i & Hi & Ei). rewrite (i_len _ I1) in Hi. subst x.
  destruct (active (slot_at s2 i)) eqn:A2.
  - left. exists (slot_at s2 i). split; [rewrite E1, Sl3; apply slot_at_in; rewrite (i_len _ (lp_inv _ _ _ L)); auto|].
    split; auto. destruct (lp_done _ _ _ L i Hi) as [[B D]|(B & tl & R & [[D1' D2]|[D1' D2]])].
    + rewrite D. apply same_id_refl.
    + rewrite D2. repeat split.
    + rewrite D2 in A2. discriminate.
  - right; left. destruct (lp_fin _ _ _ L i Hi Ax A2) as (tcb & u & Hin).
    exists tcb, (g_u0 (slot_at s1 i)), u. rewrite E7, O3. right. exact Hin.
Qed.

(* ---------- arming and disarming ---------- *)
Lemma arm_slot_fate c ms gpio ch tg sd s :
  (forall x, In x (slots s) -> s_chan x <> ch) -> fate (fun _ => False) s (countdown_arm_slot c ms gpio ch tg sd s).
Proof.
  intros NoCh. unfold countdown_arm_slot. rewrite (proj2 (find_slot_none_iff (slots s) 0 ch) NoCh).
  destruct (find_slot (slots s) 0 255) as [i|] eqn:EF; [|apply fate_refl].
  apply find_slot_some in EF. destruct EF as (R & Ech & _). replace (i - 0) with i in * by lia.
  pose proof (frame_uptime s) as FU. assert (Su : slots (fst (uptime_msec s)) = slots s) by (unfold uptime_msec, uptime_usec; reflexivity).
  destruct (uptime_msec s) as [s1 u]. cbn [fst] in *.
  intros x Hx Ax. left. exists x. split; [|split; [auto|apply same_id_refl]].
  destruct (startstop_same (t2_set ch ms (set_slots (upd (slots s1) (Z.to_nat i)
     {| s_chan := ch; s_left := ms; s_last := u; s_gpio := gpio; s_target := tg; s_sender := sd; g_t0 := now s; g_dur := ms; g_u0 := u; g_tl := now s |})
     (emit (GArm (now s) ch ms tg) s1)))) as (E1 & _). rewrite E1.
  rewrite (pa_slots _ _ (passive_t2_set ch ms _)). cbn [slots set_slots emit set_outs]. rewrite Su.
  destruct (In_nth _ _ slot_free Hx) as (j & Hj & Ej).
  assert (j <> Z.to_nat i).
  { intros ->. rewrite Ej in Ech. unfold active in Ax. rewrite Ech in Ax. cbn in Ax. discriminate. }
  rewrite <- Ej. rewrite <- (nth_upd_ne (slots s) (Z.to_nat i) j _ slot_free) by auto. apply nth_In. rewrite upd_length. auto.
Qed.
Lemma disarm_fate c ch s : fate (fun k => k = ch) s (disarm c ch s).
Proof.
  unfold disarm. destruct (find_slot (slots s) 0 ch) as [i|] eqn:EF; [|apply fate_refl].
  apply find_slot_some in EF. destruct EF as (R & Ech & _). replace (i - 0) with i in * by lia.
  set (y := slot_release _ _ _). set (s1 := set_slots (upd (slots s) (Z.to_nat i) y) s).
  assert (F1 : fate (fun k => k = ch) s s1).
  { intros x Hx Ax. destruct (In_nth _ _ slot_free Hx) as (j & Hj & Ej).
    destruct (Nat.eq_dec j (Z.to_nat i)) as [->|Ne].
    - right; right. rewrite <- Ej. exact Ech.
    - left. exists x. split; [|split; [auto|apply same_id_refl]]. unfold s1. cbn [slots set_slots].
      rewrite <- Ej. rewrite <- (nth_upd_ne (slots s) (Z.to_nat i) j y slot_free) by auto. apply nth_In. rewrite upd_length. auto. }
  destruct (0 <? _); auto.
  assert (P2 : passive s1 (match chflags_of c ch (t2_set ch 0 s1) with
                      | Some f => if hasf f CHFLAG_COUNTDOWN then ext_changed c ch (t2_set ch 0 s1) else t2_set ch 0 s1
                      | None => t2_set ch 0 s1 end)).
  { pose proof (passive_t2_set ch 0 s1) as P2.
    destruct (chflags_of _ _ _); [destruct (hasf _ _)|]; auto. eapply passive_trans; [exact P2|apply passive_ext_changed]. }
  eapply fate_trans; [|exact F1|apply fate_passive; exact P2].
  destruct (pa_outs _ _ P2) as (a & Ea & _). exists a. exact Ea.
Qed.
